(* ParserProofs.v — properties C14 (the parser denotes the documented grammar)
   and C15 (the printed form parses back), over Model/Lexer.v, Parser.v,
   Printer.v. *)
From BV Require Import Base Term Lexer Parser Printer.
From BV Require Generated.
From Coq Require Import String Ascii Lia ZifyN ZifyNat ZifyBool.
Ltac Zify.zify_post_hook ::= Z.div_mod_to_equations.

(* ================================================================== *)
(* 0. Pins: the model's tables are the ones generated from the source  *)
(* ================================================================== *)
Example lexer_pin : Generated.lexer_rules = lexer_rules_pin := eq_refl.
Example lexer_elide_pin_ok : Generated.lexer_elide = lexer_elide_pin := eq_refl.
Example lexer_unquote_pin_ok : Generated.lexer_unquote = lexer_unquote_pin := eq_refl.
Example lookahead_pin : Generated.parser_lookahead = 1%N := eq_refl.
Example lexer_map_pin_ok : Generated.lexer_map = lexer_map_pin := eq_refl.
(* the rule list of the model has the names/order of the table *)
Example rules_order_pin :
  List.map (fun kr => kind_code (fst kr)) rules = List.map N.of_nat (seq 0 (List.length lexer_rules_pin)) := eq_refl.

(* the struct tags the recursive descent of Parser.v implements *)
Definition grammar_tags_pin : list (string * string) :=
  [("Block.Comments", "@Comment*");
   ("Block.Body", "(@@ "";"")*");
   ("BlockElement.Check", "@@");
   ("BlockElement.Predicate", "|@@");
   ("BlockElement.RuleBody", "(""<-"" @@ ("","" @@)*)?");
   ("Authorizer.Comments", "@Comment*");
   ("Authorizer.Body", "(@@ "";"")*");
   ("AuthorizerElement.Policy", "@@");
   ("AuthorizerElement.BlockElement", "|@@");
   ("Rule.Comments", "@Comment*");
   ("Rule.Head", "@@");
   ("Rule.Body", """<-"" @@ ("","" @@)*");
   ("RuleElement.Predicate", "@@");
   ("RuleElement.Expression", "|@@");
   ("Predicate.Name", "@Ident");
   ("Predicate.IDs", """("" (@@ ("","" @@)*)* "")""");
   ("Check.Queries", """check if"" @@ ( ""or"" @@ )*");
   ("CheckQuery.Body", "@@ ("","" @@)*");
   ("Policy.Allow", "@@");
   ("Policy.Deny", "|@@");
   ("Allow.Queries", """allow if"" @@ ( ""or"" @@ )*");
   ("Deny.Queries", """deny if"" @@ ( ""or"" @@ )*");
   ("Term.Parameter", "@Parameter");
   ("Term.Variable", "| @Variable");
   ("Term.Bytes", "| @@");
   ("Term.String", "| @String");
   ("Term.Date", "| @DateTime");
   ("Term.Integer", "| @(""-"":Operator? Int)");
   ("Term.Bool", "| @Bool");
   ("Term.Set", "| ""["" @@ ("","" @@)* ""]""");
   ("Expression.Left", "@@");
   ("Expression.Right", "@@*");
   ("OpExpr1.Operator", "@(""||"")");
   ("OpExpr1.Expr1", "@@");
   ("Expr1.Left", "@@");
   ("Expr1.Right", "@@*");
   ("OpExpr2.Operator", "@(""&&"")");
   ("OpExpr2.Expr2", "@@");
   ("Expr2.Left", "@@");
   ("Expr2.Right", "@@?");
   ("OpExpr3.Operator", "@(""<="" | "">="" | ""<"" | "">"" | ""=="")");
   ("OpExpr3.Expr3", "@@");
   ("Expr3.Left", "@@");
   ("Expr3.Right", "@@*");
   ("OpExpr4.Operator", "@(""+"" | ""-"")");
   ("OpExpr4.Expr4", "@@");
   ("Expr4.Left", "@@");
   ("Expr4.Right", "@@*");
   ("OpExpr5.Operator", "@(""*"" | ""/"")");
   ("OpExpr5.Expr5", "@@");
   ("Expr5.Operator", "@(""!"":Punct)?");
   ("Expr5.Expr6", "@@");
   ("Expr6.Left", "@@");
   ("Expr6.Right", "@@*");
   ("OpExpr7.Operator", "Dot @(""matches"" | ""starts_with"" | ""ends_with"" | ""contains"" | ""union"" | ""intersection"" | ""length"")");
   ("OpExpr7.Expression", """("" @@? "")""");
   ("ExprTerm.Term", "@@");
   ("ExprTerm.Expression", "| ""("" @@? "")""")]%string.

(* the tags of the structs the parsers use (Value and Set are dead code in grammar.go) *)
Definition used_tag (kv : string * string) : bool :=
  negb (String.prefix "Value." (fst kv) || String.prefix "Set." (fst kv)).
Example grammar_pin : List.filter used_tag Generated.grammar_tags = grammar_tags_pin := eq_refl.

(* ================================================================== *)
(* mutual induction over the grammar-shaped trees                      *)
(* ================================================================== *)
Scheme gterm_mind := Induction for gterm Sort Prop
  with gterms_mind := Induction for gterms Sort Prop.
Combined Scheme gterm_mutind from gterm_mind, gterms_mind.

Scheme Expression_mind := Induction for Expression Sort Prop
  with OpExpr1s_mind := Induction for OpExpr1s Sort Prop
  with Expr1_mind := Induction for Expr1 Sort Prop
  with OpExpr2s_mind := Induction for OpExpr2s Sort Prop
  with Expr2_mind := Induction for Expr2 Sort Prop
  with OpExpr3o_mind := Induction for OpExpr3o Sort Prop
  with Expr3_mind := Induction for Expr3 Sort Prop
  with OpExpr4s_mind := Induction for OpExpr4s Sort Prop
  with Expr4_mind := Induction for Expr4 Sort Prop
  with OpExpr5s_mind := Induction for OpExpr5s Sort Prop
  with Expr5_mind := Induction for Expr5 Sort Prop
  with Expr6_mind := Induction for Expr6 Sort Prop
  with OpExpr7s_mind := Induction for OpExpr7s Sort Prop
  with OptExpression_mind := Induction for OptExpression Sort Prop
  with ExprTerm_mind := Induction for ExprTerm Sort Prop.
Combined Scheme expr_mutind from Expression_mind, OpExpr1s_mind, Expr1_mind, OpExpr2s_mind,
  Expr2_mind, OpExpr3o_mind, Expr3_mind, OpExpr4s_mind, Expr4_mind, OpExpr5s_mind, Expr5_mind,
  Expr6_mind, OpExpr7s_mind, OptExpression_mind, ExprTerm_mind.

(* ================================================================== *)
(* 1. to_ops is the postfix of the tree the precedence table prescribes *)
(* ================================================================== *)
(* the ordinary AST: values, unary operators (! and the explicit parentheses),
   binary operators, method calls (receiver, optional argument), and the
   empty parentheses "()" the tags allow *)
Inductive bexpr :=
| BVal (t : gterm)
| BEmpty
| BUnary (u : unop) (e : bexpr)
| BBinary (o : binop) (l r : bexpr)
| BMethod (m : method) (recv : bexpr) (arg : option bexpr).

Fixpoint postfix_of (e : bexpr) : list gop :=
  match e with
  | BVal t => [GVal t]
  | BEmpty => []
  | BUnary u e => postfix_of e ++ [GUn u]
  | BBinary o l r => postfix_of l ++ postfix_of r ++ [GBin o]
  | BMethod m recv arg =>
      postfix_of recv ++ (match arg with Some a => postfix_of a | None => [] end) ++ [method_op m]
  end.

(* || < && < comparison (at most one) < + - < * / < ! < method calls; every
   binary level left-associative: the operator lists fold to the left *)
Fixpoint bexpr_of (e : Expression) : bexpr :=
  match e with MkExpression l r => be_o1 (be_e1 l) r end
with be_o1 (acc : bexpr) (r : OpExpr1s) : bexpr :=
  match r with O1Nil => acc | O1Cons e r' => be_o1 (BBinary BOr acc (be_e1 e)) r' end
with be_e1 (e : Expr1) : bexpr :=
  match e with MkExpr1 l r => be_o2 (be_e2 l) r end
with be_o2 (acc : bexpr) (r : OpExpr2s) : bexpr :=
  match r with O2Nil => acc | O2Cons e r' => be_o2 (BBinary BAnd acc (be_e2 e)) r' end
with be_e2 (e : Expr2) : bexpr :=
  match e with MkExpr2 l r => be_o3 (be_e3 l) r end
with be_o3 (acc : bexpr) (r : OpExpr3o) : bexpr :=
  match r with O3None => acc | O3Some o e => BBinary (cmp_binop o) acc (be_e3 e) end
with be_e3 (e : Expr3) : bexpr :=
  match e with MkExpr3 l r => be_o4 (be_e4 l) r end
with be_o4 (acc : bexpr) (r : OpExpr4s) : bexpr :=
  match r with O4Nil => acc | O4Cons o e r' => be_o4 (BBinary (add_binop o) acc (be_e4 e)) r' end
with be_e4 (e : Expr4) : bexpr :=
  match e with MkExpr4 l r => be_o5 (be_e5 l) r end
with be_o5 (acc : bexpr) (r : OpExpr5s) : bexpr :=
  match r with O5Nil => acc | O5Cons o e r' => be_o5 (BBinary (mul_binop o) acc (be_e5 e)) r' end
with be_e5 (e : Expr5) : bexpr :=
  match e with MkExpr5 neg e6 => if neg then BUnary UNegate (be_e6 e6) else be_e6 e6 end
with be_e6 (e : Expr6) : bexpr :=
  match e with MkExpr6 l r => be_o7 (be_et l) r end
with be_o7 (acc : bexpr) (r : OpExpr7s) : bexpr :=
  match r with O7Nil => acc | O7Cons m a r' => be_o7 (BMethod m acc (be_oe a)) r' end
with be_oe (a : OptExpression) : option bexpr :=
  match a with ENone => None | ESome e => Some (bexpr_of e) end
with be_et (t : ExprTerm) : bexpr :=
  match t with
  | ETTerm t => BVal t
  | ETParen ENone => BEmpty
  | ETParen (ESome e) => BUnary UParens (bexpr_of e)
  end.

Lemma to_ops_postfix_all :
  (forall e, to_ops e = postfix_of (bexpr_of e)) /\
  (forall r acc, postfix_of (be_o1 acc r) = postfix_of acc ++ ops_o1 r) /\
  (forall e, ops_e1 e = postfix_of (be_e1 e)) /\
  (forall r acc, postfix_of (be_o2 acc r) = postfix_of acc ++ ops_o2 r) /\
  (forall e, ops_e2 e = postfix_of (be_e2 e)) /\
  (forall r acc, postfix_of (be_o3 acc r) = postfix_of acc ++ ops_o3 r) /\
  (forall e, ops_e3 e = postfix_of (be_e3 e)) /\
  (forall r acc, postfix_of (be_o4 acc r) = postfix_of acc ++ ops_o4 r) /\
  (forall e, ops_e4 e = postfix_of (be_e4 e)) /\
  (forall r acc, postfix_of (be_o5 acc r) = postfix_of acc ++ ops_o5 r) /\
  (forall e, ops_e5 e = postfix_of (be_e5 e)) /\
  (forall e, ops_e6 e = postfix_of (be_e6 e)) /\
  (forall r acc, postfix_of (be_o7 acc r) = postfix_of acc ++ ops_o7 r) /\
  (forall a, ops_oe a = match be_oe a with Some b => postfix_of b | None => [] end) /\
  (forall t, ops_et t = postfix_of (be_et t)).
Proof.
  apply expr_mutind.
  - intros l Hl r Hr. cbn [to_ops bexpr_of]. rewrite Hr, Hl. reflexivity.
  - intros acc. cbn. rewrite app_nil_r. reflexivity.
  - intros e He r Hr acc. cbn [be_o1 ops_o1]. rewrite Hr. cbn [postfix_of].
    rewrite He, <- !app_assoc. reflexivity.
  - intros l Hl r Hr. cbn [ops_e1 be_e1]. rewrite Hr, Hl. reflexivity.
  - intros acc. cbn. rewrite app_nil_r. reflexivity.
  - intros e He r Hr acc. cbn [be_o2 ops_o2]. rewrite Hr. cbn [postfix_of].
    rewrite He, <- !app_assoc. reflexivity.
  - intros l Hl r Hr. cbn [ops_e2 be_e2]. rewrite Hr, Hl. reflexivity.
  - intros acc. cbn. rewrite app_nil_r. reflexivity.
  - intros o e He acc. cbn [be_o3 ops_o3 postfix_of]. rewrite He. reflexivity.
  - intros l Hl r Hr. cbn [ops_e3 be_e3]. rewrite Hr, Hl. reflexivity.
  - intros acc. cbn. rewrite app_nil_r. reflexivity.
  - intros o e He r Hr acc. cbn [be_o4 ops_o4]. rewrite Hr. cbn [postfix_of].
    rewrite He, <- !app_assoc. reflexivity.
  - intros l Hl r Hr. cbn [ops_e4 be_e4]. rewrite Hr, Hl. reflexivity.
  - intros acc. cbn. rewrite app_nil_r. reflexivity.
  - intros o e He r Hr acc. cbn [be_o5 ops_o5]. rewrite Hr. cbn [postfix_of].
    rewrite He, <- !app_assoc. reflexivity.
  - intros neg e He. cbn [ops_e5 be_e5]. rewrite He. destruct neg; cbn [postfix_of].
    + reflexivity.
    + rewrite app_nil_r. reflexivity.
  - intros l Hl r Hr. cbn [ops_e6 be_e6]. rewrite Hr, Hl. reflexivity.
  - intros acc. cbn. rewrite app_nil_r. reflexivity.
  - intros m a Ha r Hr acc. cbn [be_o7 ops_o7]. rewrite Hr. cbn [postfix_of].
    rewrite Ha, <- !app_assoc. reflexivity.
  - reflexivity.
  - intros e He. cbn [ops_oe be_oe]. exact He.
  - intros t. reflexivity.
  - intros [|e] Ha.
    + reflexivity.
    + cbn [ops_et be_et postfix_of]. cbn [ops_oe be_oe] in Ha. rewrite Ha. reflexivity.
Qed.

(* C14, precedence: the flat postfix emission of the grammar-shaped tree is the
   postfix traversal of the ordinary AST in which || binds loosest, then &&,
   then one non-associative comparison, then + -, then * /, then !, then
   method calls, with explicit parentheses kept as the unary Parens. *)
Theorem C14_to_ops_postfix : forall t : Expression, to_ops t = postfix_of (bexpr_of t).
Proof. exact (proj1 to_ops_postfix_all). Qed.

(* ================================================================== *)
(* 2. Token-level round trip: parse (unparse t) = t                    *)
(* ================================================================== *)

(* ---------- decimal numerals ---------- *)
Lemma num_of_digit base d s acc :
  d < 10 -> d < base ->
  num_of base ((48 + d) :: s) acc = num_of base s (acc * base + d).
Proof.
  intros Hd Hb. cbn [num_of]. unfold is_digit.
  replace (48 + d - 48) with d by lia.
  assert (H1 : ((48 <=? 48 + d) && (48 + d <=? 57) && (d <? base)) = true).
  { apply andb_true_iff; split; [apply andb_true_iff; split|]; [apply N.leb_le|apply N.leb_le|apply N.ltb_lt]; lia. }
  rewrite H1. reflexivity.
Qed.

Lemma dec_digits_value : forall fuel n acc,
  n < 2 ^ N.of_nat fuel ->
  num_of 10 (dec_digits fuel n acc) 0 = num_of 10 acc n.
Proof.
  induction fuel as [|fuel IH]; intros n acc Hn.
  - cbn in Hn. assert (n = 0) by lia. subst n. reflexivity.
  - cbn [dec_digits]. destruct (n <? 10) eqn:Hlt.
    + apply N.ltb_lt in Hlt. rewrite num_of_digit by (try apply N.mod_lt; lia).
      rewrite N.mod_small by lia. reflexivity.
    + apply N.ltb_ge in Hlt. rewrite IH.
      * rewrite num_of_digit by (apply N.mod_lt; lia). f_equal.
        pose proof (N.div_mod n 10). lia.
      * rewrite Nat2N.inj_succ, N.pow_succ_r' in Hn.
        apply N.div_lt_upper_bound; lia.
Qed.

Lemma dec_digits_head : forall fuel n acc,
  0 < n -> n < 2 ^ N.of_nat fuel ->
  exists c l, dec_digits fuel n acc = c :: l /\ 49 <= c /\ c <= 57.
Proof.
  induction fuel as [|fuel IH]; intros n acc Hpos Hn.
  - cbn in Hn. lia.
  - cbn [dec_digits]. destruct (n <? 10) eqn:Hlt.
    + apply N.ltb_lt in Hlt. exists (48 + n mod 10), acc. rewrite N.mod_small by lia.
      split; [reflexivity|lia].
    + apply N.ltb_ge in Hlt. apply IH.
      * apply N.div_str_pos. lia.
      * rewrite Nat2N.inj_succ, N.pow_succ_r' in Hn. apply N.div_lt_upper_bound; lia.
Qed.

Lemma size_nat_bound n : n < 2 ^ N.of_nat (N.size_nat n).
Proof.
  destruct n as [|p]; [cbn; lia|].
  cbn [N.size_nat]. induction p as [p IH|p IH|]; cbn [Pos.size_nat].
  - rewrite Nat2N.inj_succ, N.pow_succ_r'. lia.
  - rewrite Nat2N.inj_succ, N.pow_succ_r'. lia.
  - cbn. lia.
Qed.

Lemma dec_of_N_fuel n : n < 2 ^ N.of_nat (S (N.size_nat n)).
Proof.
  pose proof (size_nat_bound n). rewrite Nat2N.inj_succ, N.pow_succ_r'. lia.
Qed.

(* the Int token mapper followed by the base-0 conversion is the base-10 conversion of the
   digits as written, leading zeros included (for every text, digits or not) *)
Lemma num_of_zero base s : 0 < base -> num_of base (48 :: s) 0 = num_of base s 0.
Proof.
  intros Hb. cbn [num_of]. change (is_digit 48) with true. change (48 - 48) with 0.
  apply N.ltb_lt in Hb. rewrite Hb. reflexivity.
Qed.
Lemma int_magnitude_nonzero c l : c <> 48 -> int_magnitude (c :: l) = num_of 10 (c :: l) 0.
Proof.
  intros Hc. unfold int_magnitude.
  destruct c as [|q]; [reflexivity|]. do 6 (destruct q as [q|q|]; try reflexivity). congruence.
Qed.
Theorem int_magnitude_decimal s : int_magnitude (strip_zeros s) = num_of 10 s 0.
Proof.
  induction s as [|c s IH]; [reflexivity|].
  unfold strip_zeros in *. cbn [drop_while]. destruct (N.eqb_spec c 48) as [->|Hc].
  - rewrite num_of_zero by lia. exact IH.
  - apply int_magnitude_nonzero. exact Hc.
Qed.
Theorem parse_int_decimal s :
  parse_int s = match num_of 10 s 0 with
                | Some n => if n <? 9223372036854775808 then Some (Z.of_N n) else None
                | None => None
                end.
Proof. unfold parse_int. rewrite int_magnitude_decimal. reflexivity. Qed.
Theorem parse_neg_int_decimal s :
  parse_neg_int s = match num_of 10 s 0 with
                    | Some n => if n <=? 9223372036854775808 then Some (- Z.of_N n)%Z else None
                    | None => None
                    end.
Proof. unfold parse_neg_int. rewrite int_magnitude_decimal. reflexivity. Qed.

(* the magnitude and the sign: the Integer alternative is @("-":Operator? Int) *)
Definition int_mag (z : Z) : N := if (z <? 0)%Z then Z.to_N (- z) else Z.to_N z.

Lemma dec_of_Z_mag z :
  dec_of_Z z = (if (z <? 0)%Z then [45] else []) ++ dec_of_N (int_mag z).
Proof. unfold dec_of_Z, int_mag. destruct (z <? 0)%Z; reflexivity. Qed.

(* the canonical digits of [n] denote [n] *)
Lemma magnitude_dec n : num_of 10 (dec_of_N n) 0 = Some n.
Proof. unfold dec_of_N. rewrite (dec_digits_value (S (N.size_nat n)) n [] (dec_of_N_fuel n)). reflexivity. Qed.

Lemma parse_int_decN n :
  n < 9223372036854775808 -> parse_int (dec_of_N n) = Some (Z.of_N n).
Proof.
  intros Hn. rewrite parse_int_decimal, magnitude_dec.
  apply N.ltb_lt in Hn. rewrite Hn. reflexivity.
Qed.

Lemma parse_neg_int_decN n :
  n <= 9223372036854775808 -> parse_neg_int (dec_of_N n) = Some (- Z.of_N n)%Z.
Proof.
  intros Hn. rewrite parse_neg_int_decimal, magnitude_dec.
  apply N.leb_le in Hn. rewrite Hn. reflexivity.
Qed.

Lemma dec_of_N_head n : exists c l, dec_of_N n = c :: l /\ is_digit c = true.
Proof.
  unfold dec_of_N. destruct (N.eq_dec n 0) as [H0|H0].
  - rewrite H0. cbn. eauto.
  - destruct (dec_digits_head (S (N.size_nat n)) n [] ltac:(lia) (dec_of_N_fuel n)) as (c & l & Hd & Hc1 & Hc2).
    exists c, l. split; [exact Hd|]. unfold is_digit.
    apply andb_true_iff; split; apply N.leb_le; lia.
Qed.

Lemma dec_of_Z_head z :
  (0 <= z)%Z -> exists c l, dec_of_Z z = c :: l /\ is_digit c = true.
Proof.
  intros Hz. unfold dec_of_Z. destruct (z <? 0)%Z eqn:Hneg; [lia|].
  set (n := Z.to_N z). unfold dec_of_N.
  destruct (N.eq_dec n 0) as [H0|H0].
  - rewrite H0. cbn. eauto.
  - destruct (dec_digits_head (S (N.size_nat n)) n [] ltac:(lia) (dec_of_N_fuel n)) as (c & l & Hd & Hc1 & Hc2).
    exists c, l. split; [exact Hd|]. unfold is_digit.
    apply andb_true_iff; split; apply N.leb_le; lia.
Qed.

(* ---------- the natural concrete syntax, as tokens ---------- *)
(* written in continuation style: [up_x t k] = the tokens of [t] followed by [k] *)
Definition t_lparen := Tok KPunct L_lparen.
Definition t_rparen := Tok KPunct L_rparen.
Definition t_comma := Tok KPunct L_comma.
Definition t_semi := Tok KPunct L_semi.
Definition t_lbrack := Tok KPunct L_lbrack.
Definition t_rbrack := Tok KPunct L_rbrack.
Definition t_bang := Tok KPunct L_bang.
Definition t_minus := Tok KOperator L_minus.
Definition int_tok (z : Z) : token := Tok KInt (dec_of_N (int_mag z)).
Definition t_dot := Tok KDot [46].
Definition t_arrow := Tok KArrow L_arrow.
Definition t_or := Tok KIdent L_or.
Definition t_oror := Tok KOr L_oror.
Definition t_andand := Tok KAnd L_andand.
Definition t_cmp (o : cmp_op) := Tok KOperator (cmp_text o).
Definition t_add (o : add_op) := Tok KOperator (add_text o).
Definition t_mul (o : mul_op) := Tok (match o with MMul => KOperator | MDiv => KPunct end) (mul_text o).
Definition t_method (m : method) :=
  Tok (match m with MMatches | MContains | MLength => KFunction | _ => KIdent end) (method_text m).

Fixpoint up_term (t : gterm) (k : list token) : list token :=
  match t with
  | GParam n => Tok KParameter (123 :: n ++ [125]) :: k
  | GVar n => Tok KVariable (36 :: n) :: k
  | GBytes h => Tok KHex (lit_hex ++ h) :: k
  | GStr s => Tok KString s :: k
  | GDate s => Tok KDateTime s :: k
  | GInt z => if (z <? 0)%Z then t_minus :: int_tok z :: k else int_tok z :: k
  | GBool b => Tok KBool (if b then L_true else L_false) :: k
  | GSet x xs => t_lbrack :: up_term x (up_commas xs (t_rbrack :: k))
  end
with up_commas (xs : gterms) (k : list token) : list token :=
  match xs with
  | GNil => k
  | GCons y ys => t_comma :: up_term y (up_commas ys k)
  end.

(* side conditions under which a term tree is the parse of its own tokens *)
Fixpoint wf_term (t : gterm) : bool :=
  match t with
  | GParam n => forallb (fun c => negb (is_brace c)) n
  | GStr s => negb (has_prefix s lit_hex)       (* "hex:.." string literals are read as bytes *)
  | GDate s => negb (has_prefix s lit_hex)
  | GInt z => ((-9223372036854775808 <=? z) && (z <? 9223372036854775808))%Z   (* any int64 *)
  | GSet x xs => wf_term x && wf_terms xs
  | _ => true
  end
with wf_terms (xs : gterms) : bool :=
  match xs with GNil => true | GCons y ys => wf_term y && wf_terms ys end.

Fixpoint need_term (t : gterm) : nat :=
  match t with
  | GSet x xs => S (need_term x + need_terms xs)
  | _ => 1
  end
with need_terms (xs : gterms) : nat :=
  match xs with GNil => 1 | GCons y ys => S (need_term y + need_terms ys) end.

(* the first token of [k] is not the literal [lit] *)
Definition hd_not (lit : bytes) (k : list token) : bool :=
  match k with t :: _ => negb (is_lit t lit) | [] => true end.

Lemma drop_while_nobrace n :
  forallb (fun c => negb (is_brace c)) n = true ->
  forall tl_, drop_while is_brace (n ++ tl_) = match n with [] => drop_while is_brace tl_ | _ => n ++ tl_ end.
Proof.
  intros H tl_. destruct n as [|c n']; [reflexivity|].
  cbn [forallb] in H. apply andb_true_iff in H as [Hc _].
  cbn [app drop_while]. apply negb_true_iff in Hc. rewrite Hc. reflexivity.
Qed.

Lemma forallb_rev {A} (p : A -> bool) l : forallb p (rev l) = forallb p l.
Proof.
  induction l as [|x l IH]; [reflexivity|].
  cbn [rev forallb]. rewrite forallb_app, IH. cbn. rewrite andb_true_r. apply andb_comm.
Qed.

Lemma param_name_braces n :
  forallb (fun c => negb (is_brace c)) n = true -> param_name (123 :: n ++ [125]) = n.
Proof.
  intros H. unfold param_name. cbn [drop_while]. change (is_brace 123) with true. cbv iota.
  rewrite (drop_while_nobrace n H [125]).
  destruct n as [|c n'].
  - reflexivity.
  - rewrite rev_app_distr. cbn [rev app drop_while]. change (is_brace 125) with true. cbv iota.
    change (rev n' ++ [c]) with (rev n' ++ [c]).
    assert (Hr : forallb (fun c => negb (is_brace c)) (rev (c :: n')) = true) by (rewrite forallb_rev; exact H).
    pose proof (drop_while_nobrace (rev (c :: n')) Hr []) as Hd.
    rewrite app_nil_r in Hd. cbn [rev] in Hd. rewrite Hd.
    destruct (rev n' ++ [c]) eqn:E.
    + destruct (rev n'); discriminate.
    + rewrite <- E. change (rev n' ++ [c]) with (rev (c :: n')). apply rev_involutive.
Qed.

Lemma hex_prefix_skip h : has_prefix (lit_hex ++ h) lit_hex = true /\ skipn 4 (lit_hex ++ h) = h.
Proof. split; cbn; [destruct h|]; reflexivity. Qed.

Lemma digit_not_h c l : is_digit c = true -> has_prefix (c :: l) lit_hex = false.
Proof.
  unfold is_digit. intros H. apply andb_true_iff in H as [H1 H2].
  apply N.leb_le in H1, H2. cbn [has_prefix lit_hex].
  destruct (N.eqb_spec c 104); [lia|reflexivity].
Qed.

Lemma parse_unparse_term_all :
  (forall t, wf_term t = true -> forall f k, (need_term t <= f)%nat ->
     parse_term f (up_term t k) = POk t k) /\
  (forall xs, wf_terms xs = true -> forall f k, (need_terms xs <= f)%nat -> hd_not L_comma k = true ->
     comma_terms f (up_commas xs k) = POk xs k).
Proof.
  apply gterm_mutind.
  - (* GParam *) intros n Hwf f k Hf. destruct f as [|f]; [cbn in Hf; lia|].
    cbn [up_term parse_term]. cbn [tk tx kind_eqb kind_code N.eqb]. cbv iota.
    rewrite param_name_braces by exact Hwf. reflexivity.
  - (* GVar *) intros n _ f k Hf. destruct f as [|f]; [cbn in Hf; lia|]. reflexivity.
  - (* GBytes *) intros h _ f k Hf. destruct f as [|f]; [cbn in Hf; lia|].
    cbn [up_term parse_term tk tx kind_eqb kind_code N.eqb]. cbv iota.
    destruct (hex_prefix_skip h) as [H1 H2]. rewrite H1, H2. reflexivity.
  - (* GStr *) intros s Hwf f k Hf. destruct f as [|f]; [cbn in Hf; lia|].
    cbn [wf_term] in Hwf. apply negb_true_iff in Hwf.
    cbn [up_term parse_term tk tx]. rewrite Hwf. reflexivity.
  - (* GDate *) intros s Hwf f k Hf. destruct f as [|f]; [cbn in Hf; lia|].
    cbn [wf_term] in Hwf. apply negb_true_iff in Hwf.
    cbn [up_term parse_term tk tx]. rewrite Hwf. reflexivity.
  - (* GInt *) intros z Hwf f k Hf. destruct f as [|f]; [cbn in Hf; lia|].
    cbn [wf_term] in Hwf. apply andb_true_iff in Hwf as [H1 H2].
    apply Z.leb_le in H1. apply Z.ltb_lt in H2.
    cbn [up_term]. destruct (z <? 0)%Z eqn:Hneg.
    + (* "-" then the digits of the magnitude *)
      apply Z.ltb_lt in Hneg.
      change (parse_term (S f) (t_minus :: int_tok z :: k))
        with (match parse_neg_int (dec_of_N (int_mag z)) with
              | Some z' => POk (GInt z') k
              | None => PErr k
              end).
      assert (Hm : int_mag z = Z.to_N (- z)).
      { unfold int_mag. destruct (z <? 0)%Z eqn:E; [reflexivity|apply Z.ltb_ge in E; lia]. }
      rewrite parse_neg_int_decN by (rewrite Hm; lia).
      rewrite Hm, Z2N.id by lia. rewrite Z.opp_involutive. reflexivity.
    + apply Z.ltb_ge in Hneg.
      assert (Hm : int_mag z = Z.to_N z).
      { unfold int_mag. destruct (z <? 0)%Z eqn:E; [apply Z.ltb_lt in E; lia|reflexivity]. }
      destruct (dec_of_N_head (int_mag z)) as (c & l & Hd & Hc).
      unfold int_tok. cbn [parse_term tk tx]. rewrite Hd, (digit_not_h c l Hc), <- Hd.
      rewrite parse_int_decN by (rewrite Hm; lia).
      rewrite Hm, Z2N.id by lia. reflexivity.
  - (* GBool *) intros b _ f k Hf. destruct f as [|f]; [cbn in Hf; lia|]. destruct b; reflexivity.
  - (* GSet *) intros x IHx xs IHxs Hwf f k Hf. destruct f as [|f]; [cbn in Hf; lia|].
    cbn [wf_term] in Hwf. apply andb_true_iff in Hwf as [Hw1 Hw2]. cbn [need_term] in Hf.
    cbn [up_term]. unfold t_lbrack at 1.
    cbn [parse_term tk tx kind_eqb kind_code N.eqb has_prefix L_lbrack lit_hex is_lit bytes_eqb andb].
    cbv iota.
    rewrite (IHx Hw1 f _ ltac:(lia)).
    rewrite (IHxs Hw2 f (t_rbrack :: k) ltac:(lia) eq_refl).
    reflexivity.
  - (* GNil *) intros _ f k Hf Hk. destruct f as [|f]; [cbn in Hf; lia|].
    cbn [up_commas comma_terms]. destruct k as [|c u']; [reflexivity|].
    cbn [hd_not] in Hk. apply negb_true_iff in Hk. rewrite Hk. reflexivity.
  - (* GCons *) intros y IHy ys IHys Hwf f k Hf Hk. destruct f as [|f]; [cbn in Hf; lia|].
    cbn [wf_terms] in Hwf. apply andb_true_iff in Hwf as [Hw1 Hw2]. cbn [need_terms] in Hf.
    cbn [up_commas comma_terms]. unfold t_comma at 1.
    cbn [is_lit tx L_comma bytes_eqb N.eqb andb]. cbv iota.
    rewrite (IHy Hw1 f _ ltac:(lia)). cbn [seq_tail grp].
    rewrite (IHys Hw2 f k ltac:(lia) Hk). reflexivity.
Qed.

Theorem parse_unparse_term : forall t f k,
  wf_term t = true -> (need_term t <= f)%nat -> parse_term f (up_term t k) = POk t k.
Proof. intros t f k Hwf Hf. exact (proj1 parse_unparse_term_all t Hwf f k Hf). Qed.

(* ---------- predicates ---------- *)
Definition up_ids (ids : gterms) (k : list token) : list token :=
  match ids with GNil => k | GCons x xs => up_term x (up_commas xs k) end.
Definition up_pred (p : Predicate) (k : list token) : list token :=
  Tok KIdent (pr_name p) :: t_lparen :: up_ids (pr_ids p) (t_rparen :: k).
Definition wf_pred (p : Predicate) : bool := wf_terms (pr_ids p).
Definition need_pred (p : Predicate) : nat :=
  match pr_ids p with GNil => 2 | GCons x xs => 3 + need_term x + need_terms xs end.

Lemma gapp_nil a : gapp a GNil = a.
Proof. induction a as [|x a IH]; [reflexivity|]. cbn. rewrite IH. reflexivity. Qed.

Lemma shorter_eq_len {A} (a b : list A) : shorter_eq a b = true -> (List.length a <= List.length b)%nat.
Proof.
  revert b; induction a as [|x a IH]; intros b H; [cbn; lia|].
  destruct b as [|y b]; [discriminate|]. cbn in *. apply IH in H. lia.
Qed.
Lemma deep_self u : deep u u = false.
Proof.
  destruct u as [|x [|y s2]]; try reflexivity. cbn [deep].
  destruct (shorter_eq (x :: y :: s2) s2) eqn:E; [|reflexivity].
  apply shorter_eq_len in E. cbn in E. lia.
Qed.

(* no alternative of Term starts with ")": the error of the Integer alternative, at the term's start *)
Lemma parse_term_rparen f k : parse_term (S f) (t_rparen :: k) = PErr (t_rparen :: k).
Proof. reflexivity. Qed.

Lemma pred_ids_unparse ids f k :
  wf_terms ids = true ->
  (match ids with GNil => 2 | GCons x xs => 3 + need_term x + need_terms xs end <= f)%nat ->
  pred_ids f (up_ids ids (t_rparen :: k)) = POk ids (t_rparen :: k).
Proof.
  intros Hwf Hf. destruct ids as [|x xs].
  - destruct f as [|[|f]]; try lia. cbn [up_ids pred_ids]. rewrite parse_term_rparen.
    cbn [grp]. rewrite deep_self. reflexivity.
  - destruct f as [|[|[|f]]]; try lia.
    cbn [wf_terms] in Hwf. apply andb_true_iff in Hwf as [Hw1 Hw2].
    cbn [up_ids pred_ids].
    rewrite (proj1 parse_unparse_term_all x Hw1) by lia.
    rewrite (proj2 parse_unparse_term_all xs Hw2) by (try lia; reflexivity).
    cbn [pmap grp]. rewrite parse_term_rparen. cbn [grp pmap]. rewrite deep_self.
    cbn [pmap]. rewrite gapp_nil. reflexivity.
Qed.

Theorem parse_unparse_predicate : forall p f k,
  wf_pred p = true -> (need_pred p <= f)%nat -> parse_predicate f (up_pred p k) = POk p k.
Proof.
  intros [name ids] f k Hwf Hf. unfold wf_pred, need_pred in *. cbn [pr_ids pr_name] in *.
  unfold parse_predicate, up_pred. cbn [pr_name pr_ids tk kind_eqb kind_code N.eqb]. cbv iota.
  unfold t_lparen at 1. cbn [expect is_lit tx L_lparen bytes_eqb N.eqb andb]. cbv iota.
  rewrite (pred_ids_unparse ids f k Hwf Hf). reflexivity.
Qed.

(* ---------- expressions ---------- *)
Fixpoint up_expression (e : Expression) (k : list token) : list token :=
  match e with MkExpression l r => up_e1 l (up_o1 r k) end
with up_o1 (r : OpExpr1s) (k : list token) : list token :=
  match r with O1Nil => k | O1Cons e r' => t_oror :: up_e1 e (up_o1 r' k) end
with up_e1 (e : Expr1) (k : list token) : list token :=
  match e with MkExpr1 l r => up_e2 l (up_o2 r k) end
with up_o2 (r : OpExpr2s) (k : list token) : list token :=
  match r with O2Nil => k | O2Cons e r' => t_andand :: up_e2 e (up_o2 r' k) end
with up_e2 (e : Expr2) (k : list token) : list token :=
  match e with MkExpr2 l r => up_e3 l (up_o3 r k) end
with up_o3 (r : OpExpr3o) (k : list token) : list token :=
  match r with O3None => k | O3Some o e => t_cmp o :: up_e3 e k end
with up_e3 (e : Expr3) (k : list token) : list token :=
  match e with MkExpr3 l r => up_e4 l (up_o4 r k) end
with up_o4 (r : OpExpr4s) (k : list token) : list token :=
  match r with O4Nil => k | O4Cons o e r' => t_add o :: up_e4 e (up_o4 r' k) end
with up_e4 (e : Expr4) (k : list token) : list token :=
  match e with MkExpr4 l r => up_e5 l (up_o5 r k) end
with up_o5 (r : OpExpr5s) (k : list token) : list token :=
  match r with O5Nil => k | O5Cons o e r' => t_mul o :: up_e5 e (up_o5 r' k) end
with up_e5 (e : Expr5) (k : list token) : list token :=
  match e with MkExpr5 neg e6 => if neg then t_bang :: up_e6 e6 k else up_e6 e6 k end
with up_e6 (e : Expr6) (k : list token) : list token :=
  match e with MkExpr6 l r => up_et l (up_o7 r k) end
with up_o7 (r : OpExpr7s) (k : list token) : list token :=
  match r with
  | O7Nil => k
  | O7Cons m a r' => t_dot :: t_method m :: t_lparen :: up_oe a (t_rparen :: up_o7 r' k)
  end
with up_oe (a : OptExpression) (k : list token) : list token :=
  match a with ENone => k | ESome e => up_expression e k end
with up_et (t : ExprTerm) (k : list token) : list token :=
  match t with
  | ETTerm t => up_term t k
  | ETParen a => t_lparen :: up_oe a (t_rparen :: k)
  end.

Definition unparse_expr (e : Expression) : list token := up_expression e [].

(* the token that Expr5 takes for the negation operator: the literal "!" on a Punct token
   (tag @("!":Punct)?).  A String token whose unquoted text is "!" is not one. *)
Definition neg_tok (t : token) : bool := is_lit t L_bang && kind_eqb (tk t) KPunct.

Fixpoint wf_expression (e : Expression) : bool :=
  match e with MkExpression l r => wf_e1 l && wf_o1 r end
with wf_o1 (r : OpExpr1s) : bool :=
  match r with O1Nil => true | O1Cons e r' => wf_e1 e && wf_o1 r' end
with wf_e1 (e : Expr1) : bool :=
  match e with MkExpr1 l r => wf_e2 l && wf_o2 r end
with wf_o2 (r : OpExpr2s) : bool :=
  match r with O2Nil => true | O2Cons e r' => wf_e2 e && wf_o2 r' end
with wf_e2 (e : Expr2) : bool :=
  match e with MkExpr2 l r => wf_e3 l && wf_o3 r end
with wf_o3 (r : OpExpr3o) : bool :=
  match r with O3None => true | O3Some o e => wf_e3 e end
with wf_e3 (e : Expr3) : bool :=
  match e with MkExpr3 l r => wf_e4 l && wf_o4 r end
with wf_o4 (r : OpExpr4s) : bool :=
  match r with O4Nil => true | O4Cons o e r' => wf_e4 e && wf_o4 r' end
with wf_e4 (e : Expr4) : bool :=
  match e with MkExpr4 l r => wf_e5 l && wf_o5 r end
with wf_o5 (r : OpExpr5s) : bool :=
  match r with O5Nil => true | O5Cons o e r' => wf_e5 e && wf_o5 r' end
with wf_e5 (e : Expr5) : bool :=
  match e with MkExpr5 neg e6 => wf_e6 e6 end
with wf_e6 (e : Expr6) : bool :=
  match e with MkExpr6 l r => wf_et l && wf_o7 r end
with wf_o7 (r : OpExpr7s) : bool :=
  match r with O7Nil => true | O7Cons m a r' => wf_oe a && wf_o7 r' end
with wf_oe (a : OptExpression) : bool :=
  match a with ENone => true | ESome e => wf_expression e end
with wf_et (t : ExprTerm) : bool :=
  match t with
  | ETTerm t => wf_term t
  | ETParen a => wf_oe a
  end.

Fixpoint need_expression (e : Expression) : nat :=
  match e with MkExpression l r => S (need_e1 l + need_o1 r) end
with need_o1 (r : OpExpr1s) : nat :=
  match r with O1Nil => 1 | O1Cons e r' => S (need_e1 e + need_o1 r') end
with need_e1 (e : Expr1) : nat :=
  match e with MkExpr1 l r => S (need_e2 l + need_o2 r) end
with need_o2 (r : OpExpr2s) : nat :=
  match r with O2Nil => 1 | O2Cons e r' => S (need_e2 e + need_o2 r') end
with need_e2 (e : Expr2) : nat :=
  match e with MkExpr2 l r => S (need_e3 l + need_o3 r) end
with need_o3 (r : OpExpr3o) : nat :=
  match r with O3None => 0 | O3Some o e => need_e3 e end
with need_e3 (e : Expr3) : nat :=
  match e with MkExpr3 l r => S (need_e4 l + need_o4 r) end
with need_o4 (r : OpExpr4s) : nat :=
  match r with O4Nil => 1 | O4Cons o e r' => S (need_e4 e + need_o4 r') end
with need_e4 (e : Expr4) : nat :=
  match e with MkExpr4 l r => S (need_e5 l + need_o5 r) end
with need_o5 (r : OpExpr5s) : nat :=
  match r with O5Nil => 1 | O5Cons o e r' => S (need_e5 e + need_o5 r') end
with need_e5 (e : Expr5) : nat :=
  match e with MkExpr5 neg e6 => S (need_e6 e6) end
with need_e6 (e : Expr6) : nat :=
  match e with MkExpr6 l r => S (need_et l + need_o7 r) end
with need_o7 (r : OpExpr7s) : nat :=
  match r with O7Nil => 1 | O7Cons m a r' => S (need_oe a + need_o7 r') end
with need_oe (a : OptExpression) : nat :=
  match a with ENone => 9 | ESome e => need_expression e end
with need_et (t : ExprTerm) : nat :=
  match t with
  | ETTerm t => S (need_term t)
  | ETParen a => S (S (need_oe a))
  end.

(* continuation conditions: what must not follow a sub-expression of each level *)
Definition hdp (p : token -> bool) (k : list token) : bool :=
  match k with t :: _ => p t | [] => true end.
Definition is_none {A} (o : option A) : bool := match o with None => true | Some _ => false end.
Definition c7 (t : token) : bool := negb (kind_eqb (tk t) KDot).
Definition c5 (t : token) : bool := c7 t && is_none (mul_of_text (tx t)).
Definition c4 (t : token) : bool := c5 t && is_none (add_of_text (tx t)).
Definition c3 (t : token) : bool := c4 t && is_none (cmp_of_text (tx t)).
Definition c2 (t : token) : bool := c3 t && negb (is_lit t L_andand).
Definition c1 (t : token) : bool := c2 t && negb (is_lit t L_oror).

Lemma hdp_weaken (p q : token -> bool) k :
  (forall t, p t = true -> q t = true) -> hdp p k = true -> hdp q k = true.
Proof. intros H. destruct k as [|t k]; [reflexivity|]. cbn. apply H. Qed.

Lemma c1_c2 t : c1 t = true -> c2 t = true.
Proof. unfold c1. intros H. apply andb_true_iff in H. tauto. Qed.
Lemma c2_c3 t : c2 t = true -> c3 t = true.
Proof. unfold c2. intros H. apply andb_true_iff in H. tauto. Qed.
Lemma c3_c4 t : c3 t = true -> c4 t = true.
Proof. unfold c3. intros H. apply andb_true_iff in H. tauto. Qed.
Lemma c4_c5 t : c4 t = true -> c5 t = true.
Proof. unfold c4. intros H. apply andb_true_iff in H. tauto. Qed.
Lemma c5_c7 t : c5 t = true -> c7 t = true.
Proof. unfold c5. intros H. apply andb_true_iff in H. tauto. Qed.

Lemma hd_o1 r k : hdp c1 k = true -> hdp c2 (up_o1 r k) = true.
Proof. intros H. destruct r; [exact (hdp_weaken _ _ k c1_c2 H)|reflexivity]. Qed.
Lemma hd_o2 r k : hdp c2 k = true -> hdp c3 (up_o2 r k) = true.
Proof. intros H. destruct r; [exact (hdp_weaken _ _ k c2_c3 H)|reflexivity]. Qed.
Lemma hd_o3 r k : hdp c3 k = true -> hdp c4 (up_o3 r k) = true.
Proof. intros H. destruct r as [|o e]; [exact (hdp_weaken _ _ k c3_c4 H)|destruct o; reflexivity]. Qed.
Lemma hd_o4 r k : hdp c4 k = true -> hdp c5 (up_o4 r k) = true.
Proof. intros H. destruct r as [|o e r]; [exact (hdp_weaken _ _ k c4_c5 H)|destruct o; reflexivity]. Qed.
Lemma hd_o5 r k : hdp c5 k = true -> hdp c7 (up_o5 r k) = true.
Proof. intros H. destruct r as [|o e r]; [exact (hdp_weaken _ _ k c5_c7 H)|destruct o; reflexivity]. Qed.

Lemma cmp_of_text_cmp o : cmp_of_text (cmp_text o) = Some o.
Proof. destruct o; reflexivity. Qed.
Lemma add_of_text_add o : add_of_text (add_text o) = Some o.
Proof. destruct o; reflexivity. Qed.
Lemma mul_of_text_mul o : mul_of_text (tx (t_mul o)) = Some o.
Proof. destruct o; reflexivity. Qed.
Lemma method_of_text_method m : method_of_text (tx (t_method m)) = Some m.
Proof. destruct m; reflexivity. Qed.

(* unfolding equations of the mutual fixpoint *)
Lemma parse_expression_S f ts :
  parse_expression (S f) ts =
  match parse_expr1 f ts with
  | POk l s => pmap (MkExpression l) (loop1 f s)
  | PNone => PNone | PErr p => PErr p | PFuel => PFuel
  end.
Proof. reflexivity. Qed.
Lemma loop1_S f u :
  loop1 (S f) u =
  match u with
  | o :: u' =>
      if is_lit o L_oror then
        grp u (seq_tail u' (parse_expr1 f u')) (POk O1Nil u) (fun e s => pmap (O1Cons e) (loop1 f s))
      else POk O1Nil u
  | [] => POk O1Nil u
  end.
Proof. reflexivity. Qed.
Lemma parse_expr1_S f ts :
  parse_expr1 (S f) ts =
  match parse_expr2 f ts with
  | POk l s => pmap (MkExpr1 l) (loop2 f s)
  | PNone => PNone | PErr p => PErr p | PFuel => PFuel
  end.
Proof. reflexivity. Qed.
Lemma loop2_S f u :
  loop2 (S f) u =
  match u with
  | o :: u' =>
      if is_lit o L_andand then
        grp u (seq_tail u' (parse_expr2 f u')) (POk O2Nil u) (fun e s => pmap (O2Cons e) (loop2 f s))
      else POk O2Nil u
  | [] => POk O2Nil u
  end.
Proof. reflexivity. Qed.
Definition opt3 (f : nat) (l : Expr3) (s : list token) : pres Expr2 :=
  match s with
  | o :: s' =>
      match cmp_of_text (tx o) with
      | Some c =>
          grp s (seq_tail s' (parse_expr3 f s')) (POk (MkExpr2 l O3None) s)
              (fun e s2 => POk (MkExpr2 l (O3Some c e)) s2)
      | None => POk (MkExpr2 l O3None) s
      end
  | [] => POk (MkExpr2 l O3None) s
  end.
Lemma parse_expr2_S f ts :
  parse_expr2 (S f) ts =
  match parse_expr3 f ts with
  | POk l s => opt3 f l s
  | PNone => PNone | PErr p => PErr p | PFuel => PFuel
  end.
Proof. reflexivity. Qed.
Lemma parse_expr3_S f ts :
  parse_expr3 (S f) ts =
  match parse_expr4 f ts with
  | POk l s => pmap (MkExpr3 l) (loop4 f s)
  | PNone => PNone | PErr p => PErr p | PFuel => PFuel
  end.
Proof. reflexivity. Qed.
Lemma loop4_S f u :
  loop4 (S f) u =
  match u with
  | o :: u' =>
      match add_of_text (tx o) with
      | Some a => grp u (seq_tail u' (parse_expr4 f u')) (POk O4Nil u)
                      (fun e s => pmap (O4Cons a e) (loop4 f s))
      | None => POk O4Nil u
      end
  | [] => POk O4Nil u
  end.
Proof. reflexivity. Qed.
Lemma parse_expr4_S f ts :
  parse_expr4 (S f) ts =
  match parse_expr5 f ts with
  | POk l s => pmap (MkExpr4 l) (loop5 f s)
  | PNone => PNone | PErr p => PErr p | PFuel => PFuel
  end.
Proof. reflexivity. Qed.
Lemma loop5_S f u :
  loop5 (S f) u =
  match u with
  | o :: u' =>
      match mul_of_text (tx o) with
      | Some m => grp u (seq_tail u' (parse_expr5 f u')) (POk O5Nil u)
                      (fun e s => pmap (O5Cons m e) (loop5 f s))
      | None => POk O5Nil u
      end
  | [] => POk O5Nil u
  end.
Proof. reflexivity. Qed.
Lemma parse_expr5_S f ts :
  parse_expr5 (S f) ts =
  match ts with
  | o :: r =>
      if neg_tok o then pmap (MkExpr5 true) (seq_tail r (parse_expr6 f r))
      else pmap (MkExpr5 false) (seq_tail ts (parse_expr6 f ts))
  | [] => pmap (MkExpr5 false) (seq_tail ts (parse_expr6 f ts))
  end.
Proof. reflexivity. Qed.

(* no term, and no parenthesis, starts with the negation token: a term token is either of a
   kind other than Punct (String and DateTime included, whatever their text) or is "[" *)
Lemma neg_tok_kind t : kind_eqb (tk t) KPunct = false -> neg_tok t = false.
Proof. intros H. unfold neg_tok. rewrite H. apply andb_false_r. Qed.
Lemma up_term_head t k : exists o rest, up_term t k = o :: rest /\ neg_tok o = false.
Proof.
  destruct t as [n|n|h|s|s|z|b|x xs]; cbn [up_term]; try destruct (z <? 0)%Z;
    eexists; eexists; (split; [reflexivity|]);
    first [apply neg_tok_kind; reflexivity | reflexivity].
Qed.
Lemma up_et_head l k : exists o rest, up_et l k = o :: rest /\ neg_tok o = false.
Proof.
  destruct l as [t|a]; cbn [up_et]; [apply up_term_head|].
  eexists; eexists; split; reflexivity.
Qed.
Lemma parse_expr6_S f ts :
  parse_expr6 (S f) ts =
  match parse_exprterm f ts with
  | POk l s => pmap (MkExpr6 l) (loop7 f s)
  | PNone => PNone | PErr p => PErr p | PFuel => PFuel
  end.
Proof. reflexivity. Qed.
(* "(" was consumed: the optional expression and the closing parenthesis *)
Definition paren_tail {A} (f : nat) (mk : OptExpression -> A) (errpos : list token -> list token)
  (u3 : list token) : pres A :=
  grp u3 (parse_expression f u3) (close_paren (mk ENone) errpos u3)
      (fun e s => close_paren (mk (ESome e)) errpos s).
Lemma loop7_S f u :
  loop7 (S f) u =
  match u with
  | d :: u1 =>
      if kind_eqb (tk d) KDot then
        grp u
          match u1 with
          | m :: u2 =>
              match method_of_text (tx m) with
              | Some mm => expect L_lparen u2 (fun u3 => paren_tail f (fun a => (mm, a)) (fun s => s) u3)
              | None => PErr u1
              end
          | [] => PErr u1
          end
          (POk O7Nil u)
          (fun ma s => pmap (O7Cons (fst ma) (snd ma)) (loop7 f s))
      else POk O7Nil u
  | [] => POk O7Nil u
  end.
Proof. reflexivity. Qed.
Lemma parse_exprterm_S f ts :
  parse_exprterm (S f) ts =
  let alt2 (dflt : pres ExprTerm) : pres ExprTerm :=
    match ts with
    | lp :: s1 => if is_lit lp L_lparen then paren_tail f ETParen (disj_err ts) s1 else dflt
    | [] => dflt
    end in
  match parse_term f ts with
  | POk t s => POk (ETTerm t) s
  | PNone => alt2 PNone
  | PErr p => if deep ts p then PErr p else alt2 (PErr ts)
  | PFuel => PFuel
  end.
Proof. reflexivity. Qed.

(* ")" cannot start an expression: the error is reported where it stands *)
Lemma parse_expression_rparen f k :
  (9 <= f)%nat -> parse_expression f (t_rparen :: k) = PErr (t_rparen :: k).
Proof.
  intros Hf. do 9 (destruct f as [|f]; [lia|]).
  rewrite parse_expression_S, parse_expr1_S, parse_expr2_S, parse_expr3_S, parse_expr4_S, parse_expr5_S.
  change (neg_tok t_rparen) with false. cbv iota.
  rewrite parse_expr6_S, parse_exprterm_S, parse_term_rparen. cbv beta zeta iota. rewrite deep_self.
  reflexivity.
Qed.

Lemma paren_tail_some {A} f (mk : OptExpression -> A) errpos e k :
  parse_expression f (up_expression e (t_rparen :: k)) = POk e (t_rparen :: k) ->
  paren_tail f mk errpos (up_oe (ESome e) (t_rparen :: k)) = POk (mk (ESome e)) k.
Proof. intros H. unfold paren_tail. cbn [up_oe]. rewrite H. reflexivity. Qed.
Lemma paren_tail_none {A} f (mk : OptExpression -> A) errpos k :
  (9 <= f)%nat -> paren_tail f mk errpos (up_oe ENone (t_rparen :: k)) = POk (mk ENone) k.
Proof.
  intros H. unfold paren_tail. cbn [up_oe]. rewrite parse_expression_rparen by exact H.
  cbn [grp]. rewrite deep_self. reflexivity.
Qed.

Lemma parse_unparse_expr_all :
  (forall e, wf_expression e = true -> forall f k, (need_expression e <= f)%nat -> hdp c1 k = true ->
     parse_expression f (up_expression e k) = POk e k) /\
  (forall r, wf_o1 r = true -> forall f k, (need_o1 r <= f)%nat -> hdp c1 k = true ->
     loop1 f (up_o1 r k) = POk r k) /\
  (forall e, wf_e1 e = true -> forall f k, (need_e1 e <= f)%nat -> hdp c2 k = true ->
     parse_expr1 f (up_e1 e k) = POk e k) /\
  (forall r, wf_o2 r = true -> forall f k, (need_o2 r <= f)%nat -> hdp c2 k = true ->
     loop2 f (up_o2 r k) = POk r k) /\
  (forall e, wf_e2 e = true -> forall f k, (need_e2 e <= f)%nat -> hdp c3 k = true ->
     parse_expr2 f (up_e2 e k) = POk e k) /\
  (forall r, wf_o3 r = true -> forall f k l, (need_o3 r <= f)%nat -> hdp c3 k = true ->
     opt3 f l (up_o3 r k) = POk (MkExpr2 l r) k) /\
  (forall e, wf_e3 e = true -> forall f k, (need_e3 e <= f)%nat -> hdp c4 k = true ->
     parse_expr3 f (up_e3 e k) = POk e k) /\
  (forall r, wf_o4 r = true -> forall f k, (need_o4 r <= f)%nat -> hdp c4 k = true ->
     loop4 f (up_o4 r k) = POk r k) /\
  (forall e, wf_e4 e = true -> forall f k, (need_e4 e <= f)%nat -> hdp c5 k = true ->
     parse_expr4 f (up_e4 e k) = POk e k) /\
  (forall r, wf_o5 r = true -> forall f k, (need_o5 r <= f)%nat -> hdp c5 k = true ->
     loop5 f (up_o5 r k) = POk r k) /\
  (forall e, wf_e5 e = true -> forall f k, (need_e5 e <= f)%nat -> hdp c7 k = true ->
     parse_expr5 f (up_e5 e k) = POk e k) /\
  (forall e, wf_e6 e = true -> forall f k, (need_e6 e <= f)%nat -> hdp c7 k = true ->
     parse_expr6 f (up_e6 e k) = POk e k) /\
  (forall r, wf_o7 r = true -> forall f k, (need_o7 r <= f)%nat -> hdp c7 k = true ->
     loop7 f (up_o7 r k) = POk r k) /\
  (forall a, wf_oe a = true -> forall f k (A : Type) (mk : OptExpression -> A) errpos, (need_oe a <= f)%nat ->
     paren_tail f mk errpos (up_oe a (t_rparen :: k)) = POk (mk a) k) /\
  (forall t, wf_et t = true -> forall f k, (need_et t <= f)%nat ->
     parse_exprterm f (up_et t k) = POk t k).
Proof.
  apply expr_mutind.
  - (* Expression *) intros l IHl r IHr Hwf f k Hf Hk. destruct f as [|f]; [cbn in Hf; lia|].
    cbn [wf_expression] in Hwf. apply andb_true_iff in Hwf as [Hw1 Hw2]. cbn [need_expression] in Hf.
    cbn [up_expression]. rewrite parse_expression_S.
    rewrite (IHl Hw1) by (try lia; apply hd_o1; exact Hk).
    rewrite (IHr Hw2) by (try lia; exact Hk). reflexivity.
  - (* O1Nil *) intros _ f k Hf Hk. destruct f as [|f]; [cbn in Hf; lia|].
    cbn [up_o1]. rewrite loop1_S. destruct k as [|o u']; [reflexivity|].
    cbn [hdp] in Hk. unfold c1 in Hk. apply andb_true_iff in Hk as [_ Hk].
    apply negb_true_iff in Hk. rewrite Hk. reflexivity.
  - (* O1Cons *) intros e IHe r IHr Hwf f k Hf Hk. destruct f as [|f]; [cbn in Hf; lia|].
    cbn [wf_o1] in Hwf. apply andb_true_iff in Hwf as [Hw1 Hw2]. cbn [need_o1] in Hf.
    cbn [up_o1]. rewrite loop1_S. change (is_lit t_oror L_oror) with true. cbv iota.
    rewrite (IHe Hw1) by (try lia; apply hd_o1; exact Hk). cbn [seq_tail grp].
    rewrite (IHr Hw2) by (try lia; exact Hk). reflexivity.
  - (* Expr1 *) intros l IHl r IHr Hwf f k Hf Hk. destruct f as [|f]; [cbn in Hf; lia|].
    cbn [wf_e1] in Hwf. apply andb_true_iff in Hwf as [Hw1 Hw2]. cbn [need_e1] in Hf.
    cbn [up_e1]. rewrite parse_expr1_S.
    rewrite (IHl Hw1) by (try lia; apply hd_o2; exact Hk).
    rewrite (IHr Hw2) by (try lia; exact Hk). reflexivity.
  - (* O2Nil *) intros _ f k Hf Hk. destruct f as [|f]; [cbn in Hf; lia|].
    cbn [up_o2]. rewrite loop2_S. destruct k as [|o u']; [reflexivity|].
    cbn [hdp] in Hk. unfold c2 in Hk. apply andb_true_iff in Hk as [_ Hk].
    apply negb_true_iff in Hk. rewrite Hk. reflexivity.
  - (* O2Cons *) intros e IHe r IHr Hwf f k Hf Hk. destruct f as [|f]; [cbn in Hf; lia|].
    cbn [wf_o2] in Hwf. apply andb_true_iff in Hwf as [Hw1 Hw2]. cbn [need_o2] in Hf.
    cbn [up_o2]. rewrite loop2_S. change (is_lit t_andand L_andand) with true. cbv iota.
    rewrite (IHe Hw1) by (try lia; apply hd_o2; exact Hk). cbn [seq_tail grp].
    rewrite (IHr Hw2) by (try lia; exact Hk). reflexivity.
  - (* Expr2 *) intros l IHl r IHr Hwf f k Hf Hk. destruct f as [|f]; [cbn in Hf; lia|].
    cbn [wf_e2] in Hwf. apply andb_true_iff in Hwf as [Hw1 Hw2]. cbn [need_e2] in Hf.
    cbn [up_e2]. rewrite parse_expr2_S.
    rewrite (IHl Hw1) by (try lia; apply hd_o3; exact Hk).
    apply (IHr Hw2); [lia|exact Hk].
  - (* O3None *) intros _ f k l Hf Hk. cbn [up_o3]. unfold opt3.
    destruct k as [|o s']; [reflexivity|].
    cbn [hdp] in Hk. unfold c3 in Hk. apply andb_true_iff in Hk as [_ Hk].
    destruct (cmp_of_text (tx o)); [discriminate|reflexivity].
  - (* O3Some *) intros o e IHe Hwf f k l Hf Hk. cbn [wf_o3] in Hwf. cbn [need_o3] in Hf.
    cbn [up_o3]. unfold opt3. unfold t_cmp at 1. cbn [tx]. rewrite cmp_of_text_cmp.
    rewrite (IHe Hwf) by (try lia; exact (hdp_weaken _ _ k c3_c4 Hk)). reflexivity.
  - (* Expr3 *) intros l IHl r IHr Hwf f k Hf Hk. destruct f as [|f]; [cbn in Hf; lia|].
    cbn [wf_e3] in Hwf. apply andb_true_iff in Hwf as [Hw1 Hw2]. cbn [need_e3] in Hf.
    cbn [up_e3]. rewrite parse_expr3_S.
    rewrite (IHl Hw1) by (try lia; apply hd_o4; exact Hk).
    rewrite (IHr Hw2) by (try lia; exact Hk). reflexivity.
  - (* O4Nil *) intros _ f k Hf Hk. destruct f as [|f]; [cbn in Hf; lia|].
    cbn [up_o4]. rewrite loop4_S. destruct k as [|o u']; [reflexivity|].
    cbn [hdp] in Hk. unfold c4 in Hk. apply andb_true_iff in Hk as [_ Hk].
    destruct (add_of_text (tx o)); [discriminate|reflexivity].
  - (* O4Cons *) intros o e IHe r IHr Hwf f k Hf Hk. destruct f as [|f]; [cbn in Hf; lia|].
    cbn [wf_o4] in Hwf. apply andb_true_iff in Hwf as [Hw1 Hw2]. cbn [need_o4] in Hf.
    cbn [up_o4]. rewrite loop4_S. unfold t_add at 1. cbn [tx]. rewrite add_of_text_add.
    rewrite (IHe Hw1) by (try lia; apply hd_o4; exact Hk). cbn [seq_tail grp].
    rewrite (IHr Hw2) by (try lia; exact Hk). reflexivity.
  - (* Expr4 *) intros l IHl r IHr Hwf f k Hf Hk. destruct f as [|f]; [cbn in Hf; lia|].
    cbn [wf_e4] in Hwf. apply andb_true_iff in Hwf as [Hw1 Hw2]. cbn [need_e4] in Hf.
    cbn [up_e4]. rewrite parse_expr4_S.
    rewrite (IHl Hw1) by (try lia; apply hd_o5; exact Hk).
    rewrite (IHr Hw2) by (try lia; exact Hk). reflexivity.
  - (* O5Nil *) intros _ f k Hf Hk. destruct f as [|f]; [cbn in Hf; lia|].
    cbn [up_o5]. rewrite loop5_S. destruct k as [|o u']; [reflexivity|].
    cbn [hdp] in Hk. unfold c5 in Hk. apply andb_true_iff in Hk as [_ Hk].
    destruct (mul_of_text (tx o)); [discriminate|reflexivity].
  - (* O5Cons *) intros o e IHe r IHr Hwf f k Hf Hk. destruct f as [|f]; [cbn in Hf; lia|].
    cbn [wf_o5] in Hwf. apply andb_true_iff in Hwf as [Hw1 Hw2]. cbn [need_o5] in Hf.
    cbn [up_o5]. rewrite loop5_S. rewrite mul_of_text_mul.
    rewrite (IHe Hw1) by (try lia; apply hd_o5; exact Hk). cbn [seq_tail grp].
    rewrite (IHr Hw2) by (try lia; exact Hk). reflexivity.
  - (* Expr5 *) intros neg e IHe Hwf f k Hf Hk. destruct f as [|f]; [cbn in Hf; lia|].
    cbn [wf_e5] in Hwf. cbn [need_e5] in Hf. cbn [up_e5]. rewrite parse_expr5_S.
    destruct neg.
    + change (neg_tok t_bang) with true. cbv iota.
      rewrite (IHe Hwf) by (try lia; exact Hk). reflexivity.
    + (* the first token of the operand is not the Punct token "!" *)
      destruct e as [l r]. cbn [up_e6].
      destruct (up_et_head l (up_o7 r k)) as (o & rest & E & Hhd).
      rewrite E. cbv iota beta. rewrite Hhd. rewrite <- E.
      change (up_et l (up_o7 r k)) with (up_e6 (MkExpr6 l r) k).
      rewrite (IHe Hwf) by (try lia; exact Hk). reflexivity.
  - (* Expr6 *) intros l IHl r IHr Hwf f k Hf Hk. destruct f as [|f]; [cbn in Hf; lia|].
    cbn [wf_e6] in Hwf. apply andb_true_iff in Hwf as [Hw1 Hw2]. cbn [need_e6] in Hf.
    cbn [up_e6]. rewrite parse_expr6_S.
    rewrite (IHl Hw1 f (up_o7 r k) ltac:(lia)).
    rewrite (IHr Hw2) by (try lia; exact Hk). reflexivity.
  - (* O7Nil *) intros _ f k Hf Hk. destruct f as [|f]; [cbn in Hf; lia|].
    cbn [up_o7]. rewrite loop7_S. destruct k as [|o u']; [reflexivity|].
    cbn [hdp] in Hk. unfold c7 in Hk. apply negb_true_iff in Hk. rewrite Hk. reflexivity.
  - (* O7Cons *) intros m a IHa r IHr Hwf f k Hf Hk. destruct f as [|f]; [cbn in Hf; lia|].
    cbn [wf_o7] in Hwf. apply andb_true_iff in Hwf as [Hw1 Hw2]. cbn [need_o7] in Hf.
    cbn [up_o7]. rewrite loop7_S. change (kind_eqb (tk t_dot) KDot) with true. cbv iota.
    rewrite method_of_text_method.
    cbn [expect]. change (is_lit t_lparen L_lparen) with true. cbv iota.
    rewrite (IHa Hw1) by lia. cbn [grp fst snd].
    rewrite (IHr Hw2) by (try lia; exact Hk). reflexivity.
  - (* ENone *) intros _ f k A mk errpos Hf. cbn [need_oe] in Hf. apply paren_tail_none. exact Hf.
  - (* ESome *) intros e IHe Hwf f k A mk errpos Hf. cbn [wf_oe] in Hwf. cbn [need_oe] in Hf.
    apply paren_tail_some. apply (IHe Hwf); [exact Hf|reflexivity].
  - (* ETTerm *) intros t Hwf f k Hf. destruct f as [|f]; [cbn in Hf; lia|].
    cbn [wf_et] in Hwf. cbn [need_et] in Hf. cbn [up_et].
    rewrite parse_exprterm_S. rewrite (proj1 parse_unparse_term_all t Hwf) by lia. reflexivity.
  - (* ETParen *) intros a IHa Hwf f k Hf. destruct f as [|f]; [cbn in Hf; lia|].
    cbn [wf_et] in Hwf. cbn [need_et] in Hf. cbn [up_et].
    rewrite parse_exprterm_S. destruct f as [|f]; [lia|].
    change (parse_term (S f) (t_lparen :: up_oe a (t_rparen :: k)))
      with (@PErr gterm (t_lparen :: up_oe a (t_rparen :: k))).
    cbv zeta. cbv iota. rewrite deep_self. change (is_lit t_lparen L_lparen) with true. cbv iota.
    apply (IHa Hwf). lia.
Qed.

(* C14, token level: every expression tree is the parse of its own tokens *)
Theorem parse_unparse_expr : forall e f rest,
  wf_expression e = true -> (need_expression e <= f)%nat -> hdp c1 rest = true ->
  parse_expr f (up_expression e rest) = POk e rest.
Proof. intros e f rest Hwf Hf Hk. exact (proj1 parse_unparse_expr_all e Hwf f rest Hf Hk). Qed.

Corollary parse_unparse_expr_nil : forall e f,
  wf_expression e = true -> (need_expression e <= f)%nat ->
  parse_expr f (unparse_expr e) = POk e [].
Proof. intros e f Hwf Hf. apply parse_unparse_expr; [exact Hwf|exact Hf|reflexivity]. Qed.

(* ---------- rule elements ---------- *)
Definition up_re (x : RuleElement) (k : list token) : list token :=
  match x with REPred p => up_pred p k | REExpr e => up_expression e k end.
Definition wf_re (x : RuleElement) : bool :=
  match x with REPred p => wf_pred p | REExpr e => wf_expression e end.
Definition need_re (x : RuleElement) : nat :=
  match x with REPred p => need_pred p | REExpr e => need_expression e end.

(* an expression never starts with an Ident token, so the Predicate alternative does not match *)
Lemma expression_head e k :
  exists t ts, up_expression e k = t :: ts /\ kind_eqb (tk t) KIdent = false.
Proof.
  destruct e as [[[[[[neg [et r7]] r5] r4] r3] r2] r1].
  cbn [up_expression up_e1 up_e2 up_e3 up_e4 up_e5 up_e6].
  destruct neg; [eexists; eexists; split; reflexivity|].
  destruct et as [t|a]; cbn [up_et]; [|eexists; eexists; split; reflexivity].
  destruct t as [n|n|h|s|s|z|b|x xs]; cbn [up_term]; try destruct (z <? 0)%Z;
    eexists; eexists; split; reflexivity.
Qed.

Lemma parse_predicate_not_ident f t ts :
  kind_eqb (tk t) KIdent = false -> parse_predicate f (t :: ts) = PNone.
Proof. intros H. unfold parse_predicate. rewrite H. reflexivity. Qed.

Theorem parse_unparse_rule_element : forall x f k,
  wf_re x = true -> (need_re x <= f)%nat -> hdp c1 k = true ->
  parse_rule_element f (up_re x k) = POk x k.
Proof.
  intros [p|e] f k Hwf Hf Hk; unfold parse_rule_element; cbn [up_re wf_re need_re] in *.
  - rewrite parse_unparse_predicate by assumption. reflexivity.
  - destruct (expression_head e k) as (t & ts & Heq & Hkind).
    rewrite Heq at 1. rewrite parse_predicate_not_ident by exact Hkind.
    fold parse_expr. rewrite parse_unparse_expr by assumption. reflexivity.
Qed.

(* ---------- separated lists ---------- *)
Fixpoint up_sep {A} (up : A -> list token -> list token) (sep : token) (xs : list A) (k : list token)
  : list token :=
  match xs with [] => k | x :: xs' => sep :: up x (up_sep up sep xs' k) end.

Lemma sep_loop_unparse {A} (p : list token -> pres A) (up : A -> list token -> list token)
  (septok : token) (sep : bytes) (ok : A -> Prop) (ck : list token -> Prop) :
  is_lit septok sep = true ->
  (forall x k, ok x -> ck k -> p (up x k) = POk x k) ->
  (forall l, ck (septok :: l)) ->
  forall xs n k, Forall ok xs -> (List.length xs < n)%nat -> ck k -> hd_not sep k = true ->
    sep_loop p sep n (up_sep up septok xs k) = POk xs k.
Proof.
  intros Hsep Hp Hck. induction xs as [|x xs IH]; intros n k Hok Hn Hk Hhd.
  - destruct n as [|n]; [cbn in Hn; lia|]. cbn [up_sep sep_loop].
    destruct k as [|c u']; [reflexivity|]. cbn [hd_not] in Hhd. apply negb_true_iff in Hhd.
    rewrite Hhd. reflexivity.
  - destruct n as [|n]; [cbn in Hn; lia|]. cbn [List.length] in Hn.
    inversion Hok as [|x0 xs0 Hx Hxs]; subst x0 xs0.
    cbn [up_sep sep_loop]. rewrite Hsep.
    rewrite Hp.
    + cbn [seq_tail grp]. rewrite IH by (try assumption; lia). reflexivity.
    + exact Hx.
    + destruct xs; [exact Hk|apply Hck].
Qed.

Lemma sep_list1_unparse {A} (p : list token -> pres A) (up : A -> list token -> list token)
  (septok : token) (sep : bytes) (ok : A -> Prop) (ck : list token -> Prop) :
  is_lit septok sep = true ->
  (forall x k, ok x -> ck k -> p (up x k) = POk x k) ->
  (forall l, ck (septok :: l)) ->
  forall x xs n k, ok x -> Forall ok xs -> (List.length xs < n)%nat -> ck k -> hd_not sep k = true ->
    sep_list1 p sep n (up x (up_sep up septok xs k)) = POk (x, xs) k.
Proof.
  intros Hsep Hp Hck x xs n k Hx Hxs Hn Hk Hhd. unfold sep_list1.
  rewrite Hp; [|exact Hx|destruct xs; [exact Hk|apply Hck]].
  rewrite (sep_loop_unparse p up septok sep ok ck Hsep Hp Hck) by assumption. reflexivity.
Qed.

(* ---------- check queries, checks, policies ---------- *)
Definition ck_body (k : list token) : Prop := hdp c1 k = true /\ hd_not L_comma k = true.
Definition ck_query (k : list token) : Prop := ck_body k /\ hd_not L_or k = true.

Definition up_cq (q : CheckQuery) (k : list token) : list token :=
  up_re (cq_first q) (up_sep up_re t_comma (cq_more q) k).
Definition wf_cq (q : CheckQuery) : bool := wf_re (cq_first q) && forallb wf_re (cq_more q).
Definition ok_re (f : nat) (x : RuleElement) : Prop := wf_re x = true /\ (need_re x <= f)%nat.
Definition fits_cq (f : nat) (q : CheckQuery) : Prop :=
  ok_re f (cq_first q) /\ Forall (ok_re f) (cq_more q) /\ (List.length (cq_more q) < f)%nat.

Theorem parse_unparse_check_query : forall q f k,
  fits_cq f q -> ck_body k ->
  parse_check_query f (up_cq q k) = POk q k.
Proof.
  intros [x xs] f k (Hx & Hxs & Hlen) [Hk1 Hk2]. unfold parse_check_query, up_cq. cbn [cq_first cq_more] in *.
  rewrite (sep_list1_unparse (parse_rule_element f) up_re t_comma L_comma (ok_re f) (fun k => hdp c1 k = true)).
  - reflexivity.
  - reflexivity.
  - intros y k0 [Hw Hn] Hk0. apply parse_unparse_rule_element; assumption.
  - intros l. reflexivity.
  - exact Hx.
  - exact Hxs.
  - exact Hlen.
  - exact Hk1.
  - exact Hk2.
Qed.

Definition up_queries (kw : token) (q : CheckQuery) (qs : list CheckQuery) (k : list token) : list token :=
  kw :: up_cq q (up_sep up_cq t_or qs k).
Definition fits_queries (f : nat) (q : CheckQuery) (qs : list CheckQuery) : Prop :=
  fits_cq f q /\ Forall (fits_cq f) qs /\ (List.length qs < f)%nat.

Lemma parse_queries_unparse kwtok kw q qs f k :
  is_lit kwtok kw = true -> fits_queries f q qs -> ck_query k ->
  parse_queries kw f (up_queries kwtok q qs k) = POk (q, qs) k.
Proof.
  intros Hkw (Hq & Hqs & Hlen) [Hk1 Hk2]. unfold parse_queries, up_queries. rewrite Hkw.
  rewrite (sep_list1_unparse (parse_check_query f) up_cq t_or L_or (fits_cq f) ck_body).
  - reflexivity.
  - reflexivity.
  - intros y k0 Hy Hk0. apply parse_unparse_check_query; assumption.
  - intros l. split; reflexivity.
  - exact Hq.
  - exact Hqs.
  - exact Hlen.
  - exact Hk1.
  - exact Hk2.
Qed.

Definition t_check_if := Tok KKeyword L_check_if.
Definition t_allow_if := Tok KKeyword L_allow_if.
Definition t_deny_if := Tok KKeyword L_deny_if.

Definition up_check (c : Check) (k : list token) : list token :=
  up_queries t_check_if (ck_first c) (ck_more c) k.
Definition fits_check (f : nat) (c : Check) : Prop := fits_queries f (ck_first c) (ck_more c).

Theorem parse_unparse_check : forall c f k,
  fits_check f c -> ck_query k -> parse_check_g f (up_check c k) = POk c k.
Proof.
  intros [q qs] f k Hfit Hk. unfold parse_check_g, up_check, fits_check in *. cbn [ck_first ck_more] in *.
  rewrite (parse_queries_unparse t_check_if L_check_if q qs f k eq_refl Hfit Hk). reflexivity.
Qed.

Definition up_policy (p : Policy) (k : list token) : list token :=
  match p with
  | PAllow q qs => up_queries t_allow_if q qs k
  | PDeny q qs => up_queries t_deny_if q qs k
  end.
Definition fits_policy (f : nat) (p : Policy) : Prop :=
  match p with PAllow q qs => fits_queries f q qs | PDeny q qs => fits_queries f q qs end.

Theorem parse_unparse_policy : forall p f k,
  fits_policy f p -> ck_query k -> parse_policy_g f (up_policy p k) = POk p k.
Proof.
  intros [q qs|q qs] f k Hfit Hk; unfold parse_policy_g, up_policy, fits_policy in *.
  - rewrite (parse_queries_unparse t_allow_if L_allow_if q qs f k eq_refl Hfit Hk). reflexivity.
  - assert (H1 : parse_queries L_allow_if f (up_queries t_deny_if q qs k) = PNone) by reflexivity.
    rewrite H1. cbn [pmap alt].
    rewrite (parse_queries_unparse t_deny_if L_deny_if q qs f k eq_refl Hfit Hk). reflexivity.
Qed.

(* ---------- rules ---------- *)
Fixpoint up_comments (cs : list bytes) (k : list token) : list token :=
  match cs with [] => k | c :: cs' => Tok KComment c :: up_comments cs' k end.

Definition hd_not_comment (k : list token) : bool :=
  match k with t :: _ => negb (kind_eqb (tk t) KComment) | [] => true end.

Lemma comments_unparse cs k : hd_not_comment k = true -> comments (up_comments cs k) = (cs, k).
Proof.
  intros Hk. induction cs as [|c cs IH].
  - cbn [up_comments]. destruct k as [|t r]; [reflexivity|]. cbn [hd_not_comment] in Hk.
    apply negb_true_iff in Hk. cbn [comments]. rewrite Hk. reflexivity.
  - cbn [up_comments comments tk kind_eqb kind_code N.eqb]. cbv iota. rewrite IH. reflexivity.
Qed.

Definition up_rule (r : Rule) (k : list token) : list token :=
  up_comments (ru_comments r)
    (up_pred (ru_head r) (t_arrow :: up_re (ru_first r) (up_sep up_re t_comma (ru_more r) k))).
Definition fits_body (f : nat) (x : RuleElement) (xs : list RuleElement) : Prop :=
  ok_re f x /\ Forall (ok_re f) xs /\ (List.length xs < f)%nat.
Definition fits_rule (f : nat) (r : Rule) : Prop :=
  wf_pred (ru_head r) = true /\ (need_pred (ru_head r) <= f)%nat /\ fits_body f (ru_first r) (ru_more r).

Lemma body_unparse f x xs k :
  fits_body f x xs -> ck_body k ->
  sep_list1 (parse_rule_element f) L_comma f (up_re x (up_sep up_re t_comma xs k)) = POk (x, xs) k.
Proof.
  intros (Hx & Hxs & Hlen) [Hk1 Hk2].
  apply (sep_list1_unparse (parse_rule_element f) up_re t_comma L_comma (ok_re f) (fun k => hdp c1 k = true)).
  - reflexivity.
  - intros y k0 [Hw Hn] Hk0. apply parse_unparse_rule_element; assumption.
  - intros l. reflexivity.
  - exact Hx.
  - exact Hxs.
  - exact Hlen.
  - exact Hk1.
  - exact Hk2.
Qed.

Theorem parse_unparse_rule : forall r f k,
  fits_rule f r -> ck_body k -> parse_rule_g f (up_rule r k) = POk r k.
Proof.
  intros [cs h x xs] f k (Hw & Hn & Hb) Hk. unfold parse_rule_g, up_rule.
  cbn [ru_comments ru_head ru_first ru_more] in *.
  rewrite comments_unparse by reflexivity.
  rewrite parse_unparse_predicate by assumption. cbn [seq_tail expect].
  change (is_lit t_arrow L_arrow) with true. cbv iota.
  rewrite (body_unparse f x xs k Hb Hk). reflexivity.
Qed.

(* ---------- block elements, blocks, authorizers ---------- *)
Definition up_be (e : BlockElement) (k : list token) : list token :=
  match e with
  | BECheck c => up_check c k
  | BEPred p None => up_pred p k
  | BEPred p (Some (x, xs)) => up_pred p (t_arrow :: up_re x (up_sep up_re t_comma xs k))
  end.
(* a predicate name is an Ident token: no space, so it is not one of the keywords *)
Definition wf_name (n : bytes) : bool := negb (existsb (fun c => c =? 32) n).
Definition fits_be (f : nat) (e : BlockElement) : Prop :=
  match e with
  | BECheck c => fits_check f c
  | BEPred p body =>
      wf_name (pr_name p) = true /\ wf_pred p = true /\ (need_pred p <= f)%nat /\
      match body with None => True | Some (x, xs) => fits_body f x xs end
  end.

Lemma not_keyword n kw : wf_name n = true -> existsb (fun c => c =? 32) kw = true -> bytes_eqb n kw = false.
Proof.
  intros Hn Hkw. destruct (bytes_eqb n kw) eqn:E; [|reflexivity].
  apply bytes_eqb_eq in E. subst kw. unfold wf_name in Hn. rewrite Hkw in Hn. discriminate.
Qed.

Lemma parse_queries_ident kw f n ts :
  wf_name n = true -> existsb (fun c => c =? 32) kw = true ->
  parse_queries kw f (Tok KIdent n :: ts) = PNone.
Proof.
  intros Hn Hkw. unfold parse_queries, is_lit. cbn [tx]. rewrite (not_keyword n kw Hn Hkw). reflexivity.
Qed.

Theorem parse_unparse_block_element : forall e f k,
  fits_be f e -> ck_query k -> hd_not L_arrow k = true ->
  parse_block_element f (up_be e k) = POk e k.
Proof.
  intros [c|p body] f k Hfit Hk Harrow; unfold parse_block_element; cbn [up_be fits_be] in *.
  - rewrite parse_unparse_check by assumption. reflexivity.
  - destruct Hfit as (Hname & Hw & Hn & Hbody).
    assert (Hchk : forall k', parse_check_g f (up_pred p k') = PNone).
    { intros k'. unfold parse_check_g, up_pred.
      rewrite parse_queries_ident by (try exact Hname; reflexivity). reflexivity. }
    destruct body as [[x xs]|].
    + rewrite Hchk. cbn [pmap alt].
      rewrite parse_unparse_predicate by assumption.
      change (is_lit t_arrow L_arrow) with true. cbv iota.
      rewrite (body_unparse f x xs k Hbody (proj1 Hk)). reflexivity.
    + rewrite Hchk. cbn [pmap alt].
      rewrite parse_unparse_predicate by assumption.
      destruct k as [|a r2]; [reflexivity|].
      cbn [hd_not] in Harrow. apply negb_true_iff in Harrow. rewrite Harrow. reflexivity.
Qed.

Fixpoint up_semi {A} (up : A -> list token -> list token) (xs : list A) (k : list token) : list token :=
  match xs with [] => k | x :: xs' => up x (t_semi :: up_semi up xs' k) end.

Lemma semi_loop_unparse {A} (p : list token -> pres A) (up : A -> list token -> list token)
  (ok : A -> Prop) :
  (forall x k, ok x -> p (up x (t_semi :: k)) = POk x (t_semi :: k)) ->
  p [] = PNone ->
  forall xs n, Forall ok xs -> (List.length xs < n)%nat ->
    semi_loop p n (up_semi up xs []) = POk xs [].
Proof.
  intros Hp Hnil. induction xs as [|x xs IH]; intros n Hok Hn.
  - destruct n as [|n]; [cbn in Hn; lia|]. cbn [up_semi semi_loop]. rewrite Hnil. reflexivity.
  - destruct n as [|n]; [cbn in Hn; lia|]. cbn [List.length] in Hn.
    inversion Hok as [|x0 xs0 Hx Hxs]; subst x0 xs0.
    cbn [up_semi semi_loop]. rewrite Hp by exact Hx. cbn [expect].
    change (is_lit t_semi L_semi) with true. cbv iota. cbn [grp].
    rewrite IH by (try assumption; lia). reflexivity.
Qed.

Definition up_block (b : Block) : list token :=
  up_comments (bl_comments b) (up_semi up_be (bl_body b) []).
Definition fits_block (f : nat) (b : Block) : Prop :=
  Forall (fits_be f) (bl_body b) /\ (List.length (bl_body b) < f)%nat.

Lemma up_be_head e k : hd_not_comment (up_be e k) = true.
Proof. destruct e as [c|p [[x xs]|]]; reflexivity. Qed.

Lemma up_semi_head {A} (up : A -> list token -> list token) xs :
  (forall x k, hd_not_comment (up x k) = true) -> hd_not_comment (up_semi up xs []) = true.
Proof. intros H. destruct xs; [reflexivity|apply H]. Qed.

Theorem parse_unparse_block : forall b f,
  fits_block f b -> parse_block_g f (up_block b) = POk b [].
Proof.
  intros [cs body] f [Hfit Hlen]. unfold parse_block_g, up_block. cbn [bl_comments bl_body] in *.
  rewrite comments_unparse by (apply up_semi_head; apply up_be_head).
  rewrite (semi_loop_unparse (parse_block_element f) up_be (fits_be f)).
  - reflexivity.
  - intros x k Hx. apply parse_unparse_block_element; [exact Hx|repeat split; reflexivity|reflexivity].
  - reflexivity.
  - exact Hfit.
  - exact Hlen.
Qed.

Definition up_ae (e : AuthorizerElement) (k : list token) : list token :=
  match e with AEPolicy p => up_policy p k | AEBlock e => up_be e k end.
Definition fits_ae (f : nat) (e : AuthorizerElement) : Prop :=
  match e with AEPolicy p => fits_policy f p | AEBlock e => fits_be f e end.

Theorem parse_unparse_authorizer_element : forall e f k,
  fits_ae f e -> ck_query k -> hd_not L_arrow k = true ->
  parse_authorizer_element f (up_ae e k) = POk e k.
Proof.
  intros [p|e] f k Hfit Hk Harrow; unfold parse_authorizer_element; cbn [up_ae fits_ae] in *.
  - rewrite parse_unparse_policy by assumption. reflexivity.
  - assert (Hpol : parse_policy_g f (up_be e k) = PNone).
    { destruct e as [c|p body].
      - reflexivity.
      - destruct Hfit as (Hname & _). unfold parse_policy_g.
        assert (Hh : exists ts, up_be (BEPred p body) k = Tok KIdent (pr_name p) :: ts).
        { destruct body as [[x xs]|]; eexists; reflexivity. }
        destruct Hh as [ts Hh]. rewrite Hh.
        rewrite !parse_queries_ident by (try exact Hname; reflexivity). reflexivity. }
    rewrite Hpol. cbn [pmap alt]. rewrite parse_unparse_block_element by assumption. reflexivity.
Qed.

Definition up_authorizer (a : Authorizer) : list token :=
  up_comments (au_comments a) (up_semi up_ae (au_body a) []).
Definition fits_authorizer (f : nat) (a : Authorizer) : Prop :=
  Forall (fits_ae f) (au_body a) /\ (List.length (au_body a) < f)%nat.

Lemma up_ae_head e k : hd_not_comment (up_ae e k) = true.
Proof. destruct e as [[q qs|q qs]|e]; [reflexivity|reflexivity|apply up_be_head]. Qed.

Theorem parse_unparse_authorizer : forall a f,
  fits_authorizer f a -> parse_authorizer_g f (up_authorizer a) = POk a [].
Proof.
  intros [cs body] f [Hfit Hlen]. unfold parse_authorizer_g, up_authorizer. cbn [au_comments au_body] in *.
  rewrite comments_unparse by (apply up_semi_head; apply up_ae_head).
  rewrite (semi_loop_unparse (parse_authorizer_element f) up_ae (fits_ae f)).
  - reflexivity.
  - intros x k Hx. apply parse_unparse_authorizer_element; [exact Hx|repeat split; reflexivity|reflexivity].
  - reflexivity.
  - exact Hfit.
  - exact Hlen.
Qed.

(* ================================================================== *)
(* 4. Rejections                                                        *)
(* ================================================================== *)

Lemma cmp_of_text_inv s c : cmp_of_text s = Some c -> s = cmp_text c.
Proof.
  unfold cmp_of_text. intros H.
  destruct (bytes_eqb s (cmp_text CLe)) eqn:E1; [apply bytes_eqb_eq in E1; congruence|].
  destruct (bytes_eqb s (cmp_text CGe)) eqn:E2; [apply bytes_eqb_eq in E2; congruence|].
  destruct (bytes_eqb s (cmp_text CLt)) eqn:E3; [apply bytes_eqb_eq in E3; congruence|].
  destruct (bytes_eqb s (cmp_text CGt)) eqn:E4; [apply bytes_eqb_eq in E4; congruence|].
  destruct (bytes_eqb s (cmp_text CEq)) eqn:E5; [apply bytes_eqb_eq in E5; congruence|].
  discriminate.
Qed.

(* a comparison operator token is none of the tokens the enclosing levels look for *)
Lemma cmp_token_inert t c :
  cmp_of_text (tx t) = Some c ->
  is_lit t L_andand = false /\ is_lit t L_oror = false /\ is_lit t L_comma = false /\ is_lit t L_or = false.
Proof.
  intros H. apply cmp_of_text_inv in H. unfold is_lit. rewrite H. destruct c; repeat split; reflexivity.
Qed.

(* Expr2 takes ONE comparison: whatever follows the right operand — in particular
   another comparison operator — is left unconsumed *)
Theorem C14_comparison_consumes_one : forall f ts l o s1 c r rest,
  parse_expr3 f ts = POk l (o :: s1) -> cmp_of_text (tx o) = Some c ->
  parse_expr3 f s1 = POk r rest ->
  parse_expr2 (S f) ts = POk (MkExpr2 l (O3Some c r)) rest.
Proof.
  intros f ts l o s1 c r rest H1 Hc H2. rewrite parse_expr2_S, H1. unfold opt3. rewrite Hc, H2. reflexivity.
Qed.

Lemma expr2_up_to_expression f ts e2 t rest c :
  parse_expr2 (S f) ts = POk e2 (t :: rest) -> cmp_of_text (tx t) = Some c ->
  parse_expression (S (S (S f))) ts = POk (MkExpression (MkExpr1 e2 O2Nil) O1Nil) (t :: rest).
Proof.
  intros H Hc. destruct (cmp_token_inert t c Hc) as (Ha & Ho & _).
  rewrite parse_expression_S, parse_expr1_S, H. rewrite loop2_S, Ha. cbn [pmap].
  rewrite loop1_S, Ho. reflexivity.
Qed.

(* a second comparison operator makes the check unparseable: "a < b < c" *)
Theorem C14_rejects_chained_comparison : forall f ts l o1 s1 c1' r o2 s2 c2',
  parse_predicate (S (S (S f))) ts = PNone ->
  parse_expr3 f ts = POk l (o1 :: s1) -> cmp_of_text (tx o1) = Some c1' ->
  parse_expr3 f s1 = POk r (o2 :: s2) -> cmp_of_text (tx o2) = Some c2' ->
  exists c, parse_check_g (S (S (S f))) (t_check_if :: ts) = POk c (o2 :: s2).
Proof.
  intros f ts l o1 s1 c1' r o2 s2 c2' Hp H1 Hc1 H2 Hc2.
  pose proof (C14_comparison_consumes_one f ts l o1 s1 c1' r (o2 :: s2) H1 Hc1 H2) as He2.
  pose proof (expr2_up_to_expression f ts _ o2 s2 c2' He2 Hc2) as He.
  destruct (cmp_token_inert o2 c2' Hc2) as (_ & _ & Hcomma & Hor).
  eexists. unfold parse_check_g, parse_queries.
  change (is_lit t_check_if L_check_if) with true. cbv iota.
  unfold sep_list1 at 1. unfold parse_check_query at 1. unfold sep_list1 at 1.
  unfold parse_rule_element at 1. rewrite Hp, He.
  cbn [sep_loop]. rewrite Hcomma. cbn [pmap fst snd]. rewrite Hor. cbn [pmap seq_tail fst snd].
  reflexivity.
Qed.

(* ... so the Check parser (which must consume every token) fails *)
Corollary C14_rejects_chained_comparison_run : forall ts c o2 s2,
  parse_check_g (fuel_for (t_check_if :: ts)) (t_check_if :: ts) = POk c (o2 :: s2) ->
  run parse_check_g (t_check_if :: ts) = Err EParse.
Proof. intros ts c o2 s2 H. unfold run. rewrite H. reflexivity. Qed.

Example chained_comparison_examples :
  parse_check (bs "check if 1 < 2 < 3") [] = Err EParse /\
  parse_check (bs "check if $a < $b == $c") [] = Err EParse /\
  parse_check (bs "check if 1 + 2 <= 3 * 4 >= 5, true") [] = Err EParse /\
  is_ok (parse_check (bs "check if (1 < 2) == true") []) = true.
Proof. vm_compute. repeat split. Qed.

(* the hypotheses of C14_rejects_chained_comparison are satisfiable: the tokens of 1 < 2 < 3 *)
Example chained_comparison_nonvacuous :
  let ts := [Tok KInt [49]; t_cmp CLt; Tok KInt [50]; t_cmp CLt; Tok KInt [51]] in
  parse_predicate 13 ts = PNone /\
  parse_expr3 10 ts = POk (MkExpr3 (MkExpr4 (MkExpr5 false (MkExpr6 (ETTerm (GInt 1)) O7Nil)) O5Nil) O4Nil)
                          (t_cmp CLt :: [Tok KInt [50]; t_cmp CLt; Tok KInt [51]]) /\
  parse_expr3 10 [Tok KInt [50]; t_cmp CLt; Tok KInt [51]]
    = POk (MkExpr3 (MkExpr4 (MkExpr5 false (MkExpr6 (ETTerm (GInt 2)) O7Nil)) O5Nil) O4Nil)
          [t_cmp CLt; Tok KInt [51]].
Proof. vm_compute. repeat split. Qed.

(* "!!x": the grammar has one optional "!" per Expr5 *)
Definition not_ok {A} (r : pres A) : Prop := forall a s, r <> POk a s.

Lemma pmap_not_ok {A B} (g : A -> B) r : not_ok r -> not_ok (pmap g r).
Proof. intros H a s. destruct r as [a0 s0| |p|]; cbn; try discriminate. exfalso. exact (H a0 s0 eq_refl). Qed.
Lemma seq_tail_not_ok {A} at_ (r : pres A) : not_ok r -> not_ok (seq_tail at_ r).
Proof. intros H a s. destruct r as [a0 s0| |p|]; cbn; try discriminate. exfalso. exact (H a0 s0 eq_refl). Qed.

Lemma double_bang_e6 f r : not_ok (parse_expr6 f (t_bang :: r)).
Proof.
  intros a s. destruct f as [|[|f]]; try discriminate. rewrite parse_expr6_S, parse_exprterm_S.
  destruct f as [|f]; [discriminate|].
  change (parse_term (S f) (t_bang :: r)) with (@PErr gterm (t_bang :: r)).
  cbv beta zeta iota. rewrite deep_self. discriminate.
Qed.

Lemma double_bang_e5 f r : not_ok (parse_expr5 f (t_bang :: t_bang :: r)).
Proof.
  destruct f as [|f]; [intros a s; discriminate|]. rewrite parse_expr5_S.
  change (neg_tok t_bang) with true. cbv iota.
  apply pmap_not_ok, seq_tail_not_ok, double_bang_e6.
Qed.

Theorem C14_rejects_double_negation : forall f r, not_ok (parse_expression f (t_bang :: t_bang :: r)).
Proof.
  intros f r a s.
  destruct f as [|f]; [discriminate|]. rewrite parse_expression_S.
  destruct f as [|f]; [discriminate|]. rewrite parse_expr1_S.
  destruct f as [|f]; [discriminate|]. rewrite parse_expr2_S.
  destruct f as [|f]; [discriminate|]. rewrite parse_expr3_S.
  destruct f as [|f]; [discriminate|]. rewrite parse_expr4_S.
  pose proof (double_bang_e5 f r) as H.
  destruct (parse_expr5 f (t_bang :: t_bang :: r)) as [a0 s0| |p|]; try discriminate.
  exfalso. exact (H a0 s0 eq_refl).
Qed.

Example double_negation_examples :
  parse_check (bs "check if !!true") [] = Err EParse /\
  parse_check (bs "check if ! ! $x") [] = Err EParse /\
  is_ok (parse_check (bs "check if !(!true)") []) = true.
Proof. vm_compute. repeat split. Qed.

(* the literal of Expr5 is typed: @("!":Punct)?.  The String token whose unquoted text is "!"
   is a term, not the negation operator (before the typed literal this check was rejected
   with "unexpected <EOF> expected Expr6") *)
Example bang_string_parses :
  parse_check (bs "check if x($a), $a == ""!""") [] =
  Ok [{| r_head := query_head;
         r_body := [{| p_name := bs "x"; p_terms := [TA (AVar (bs "a"))] |}];
         r_exprs := [[OVal (TA (AVar (bs "a"))); OVal (TA (AStr (bs "!"))); OBin BEqual]] |}].
Proof. vm_compute. reflexivity. Qed.

(* a bare "!" lexes as a Punct token and is still the negation operator *)
Example bang_still_negates :
  parse_check (bs "check if !true") [] =
  Ok [{| r_head := query_head; r_body := []; r_exprs := [[OVal (TA (ABool true)); OUn UNegate]] |}] /\
  parse_check (bs "check if x($a), !($a == 1)") [] =
  Ok [{| r_head := query_head;
         r_body := [{| p_name := bs "x"; p_terms := [TA (AVar (bs "a"))] |}];
         r_exprs := [[OVal (TA (AVar (bs "a"))); OVal (TA (AInt 1)); OBin BEqual; OUn UParens;
                      OUn UNegate]] |}] /\
  (* negation of the string "!" itself: Punct "!" then String "!" *)
  parse_check (bs "check if !""!""") [] =
  Ok [{| r_head := query_head; r_body := [];
         r_exprs := [[OVal (TA (AStr (bs "!"))); OUn UNegate]] |}] /\
  lex (bs "!""!""") = Ok [t_bang; Tok KString L_bang].
Proof. vm_compute. repeat split. Qed.

(* the round-trip theorems cover the string "!": it satisfies the side conditions *)
Example bang_string_wf :
  let e := MkExpression (MkExpr1 (MkExpr2 (MkExpr3 (MkExpr4 (MkExpr5 false
             (MkExpr6 (ETTerm (GStr L_bang)) O7Nil)) O5Nil) O4Nil) O3None) O2Nil) O1Nil in
  wf_expression e = true /\ unparse_expr e = [Tok KString L_bang] /\
  parse_expr (need_expression e) (unparse_expr e) = POk e [].
Proof. vm_compute. repeat split. Qed.

(* the Integer alternative of Term is @("-":Operator? Int): negative literals, the whole
   int64 range.  Every line below was measured on the Go parser with that tag. *)
Definition fact1 (n : string) (ts : list term) : res pred := Ok {| p_name := bs n; p_terms := ts |}.
Definition query1 (body : list pred) (ops : expr) : res check :=
  Ok [{| r_head := query_head; r_body := body; r_exprs := [ops] |}].
Definition x_a : pred := {| p_name := bs "x"; p_terms := [TA (AVar (bs "a"))] |}.
Definition v_a : op := OVal (TA (AVar (bs "a"))).
Definition i_ (z : Z) : op := OVal (TA (AInt z)).

Example neg_int_facts :
  parse_fact (bs "p(-1)") [] = fact1 "p" [TA (AInt (-1))] /\
  parse_fact (bs "p(-9223372036854775808)") [] = fact1 "p" [TA (AInt (-9223372036854775808))] /\
  parse_fact (bs "p(9223372036854775807)") [] = fact1 "p" [TA (AInt 9223372036854775807)] /\
  (* out of range: strconv.ParseInt fails when the capture is applied *)
  parse_fact (bs "p(9223372036854775808)") [] = Err EParse /\
  parse_fact (bs "p(-9223372036854775809)") [] = Err EParse /\
  (* only "-" is a sign *)
  parse_fact (bs "p(+1)") [] = Err EParse /\
  (* the layout between the sign and the digits is elided like any other *)
  parse_fact (bs "p(- 1)") [] = fact1 "p" [TA (AInt (-1))] /\
  parse_fact (bs "p([1, -2])") [] = fact1 "p" [TSet [AInt 1; AInt (-2)]] /\
  (* base 10 whatever the leading zeros (the Int token mapper strips them) *)
  parse_fact (bs "p(-017)") [] = fact1 "p" [TA (AInt (-17))] /\
  parse_fact (bs "p(-0)") [] = fact1 "p" [TA (AInt 0)] /\
  parse_fact (bs "p(-08)") [] = fact1 "p" [TA (AInt (-8))] /\
  (* a sign that no Int token follows: the Integer alternative fails, and so does the term *)
  parse_fact (bs "p(-)") [] = Err EParse /\
  parse_fact (bs "p(--1)") [] = Err EParse /\
  parse_fact (bs "p(-true)") [] = Err EParse /\
  parse_fact (bs "p(-""a"")") [] = Err EParse /\
  parse_fact (bs "p(-[1])") [] = Err EParse /\
  (* the empty term list still parses (the term's error is within the lookahead of the group) *)
  parse_fact (bs "p()") [] = fact1 "p" [] /\
  (* (Term ("," Term)* )* : a sign also starts a new term without a comma, as a digit does *)
  parse_fact (bs "p(1 -2)") [] = fact1 "p" [TA (AInt 1); TA (AInt (-2))] /\
  parse_fact (bs "p(1 2)") [] = fact1 "p" [TA (AInt 1); TA (AInt 2)] /\
  parse_rule (bs "p(-1) <- q(-2)") [] =
    Ok {| r_head := {| p_name := bs "p"; p_terms := [TA (AInt (-1))] |};
          r_body := [{| p_name := bs "q"; p_terms := [TA (AInt (-2))] |}]; r_exprs := [] |}.
Proof. vm_compute. repeat split. Qed.

Example neg_int_expressions :
  parse_check (bs "check if x($a), $a == -1") [] = query1 [x_a] [v_a; i_ (-1); OBin BEqual] /\
  parse_check (bs "check if x($a), $a > -1") [] = query1 [x_a] [v_a; i_ (-1); OBin BGreaterThan] /\
  (* binary minus binds as before: the operator is consumed by OpExpr4 before a Term is tried *)
  parse_check (bs "check if x($a), $a - -1 == 0") [] =
    query1 [x_a] [v_a; i_ (-1); OBin BSub; i_ 0; OBin BEqual] /\
  parse_check (bs "check if 1 - 2 == -1") [] = query1 [] [i_ 1; i_ 2; OBin BSub; i_ (-1); OBin BEqual] /\
  parse_check (bs "check if 1 -2 == -1") [] = query1 [] [i_ 1; i_ 2; OBin BSub; i_ (-1); OBin BEqual] /\
  parse_check (bs "check if -1 * -2 == 2") [] =
    query1 [] [i_ (-1); i_ (-2); OBin BMul; i_ 2; OBin BEqual] /\
  parse_check (bs "check if -1 == $a") [] = query1 [] [i_ (-1); v_a; OBin BEqual] /\
  (* the sign belongs to the Term: "!" and the methods apply to the negative literal *)
  parse_check (bs "check if !-1") [] = query1 [] [i_ (-1); OUn UNegate] /\
  parse_check (bs "check if -1.length()") [] = query1 [] [i_ (-1); OUn ULength] /\
  parse_check (bs "check if (-9223372036854775808)") [] = query1 [] [i_ (-9223372036854775808); OUn UParens] /\
  parse_check (bs "check if [-1].length() == 1") [] =
    query1 [] [OVal (TSet [AInt (-1)]); OUn ULength; i_ 1; OBin BEqual] /\
  (* it is not a unary minus on expressions *)
  parse_check (bs "check if - (1)") [] = Err EParse /\
  parse_check (bs "check if -") [] = Err EParse /\
  parse_check (bs "check if 1 - ") [] = Err EParse /\
  parse_check (bs "check if -9223372036854775809 == 1") [] = Err EParse /\
  parse_check (bs "check if 1 - -9223372036854775809") [] = Err EParse /\
  (* "<" immediately followed by "-" is the Arrow token, as before *)
  lex (bs "$a<-1") = Ok [Tok KVariable (bs "$a"); t_arrow; Tok KInt (bs "1")] /\
  parse_check (bs "check if $a <-1") [] = Err EParse /\
  parse_check (bs "check if $a < -1") [] = query1 [] [v_a; i_ (-1); OBin BLessThan] /\
  parse_rule (bs "p($a) <- q($a), $a <-1") [] = Err EParse /\
  parse_rule (bs "p($a) <- q($a), $a < -1") [] =
    Ok {| r_head := {| p_name := bs "p"; p_terms := [TA (AVar (bs "a"))] |};
          r_body := [{| p_name := bs "q"; p_terms := [TA (AVar (bs "a"))] |}];
          r_exprs := [[v_a; i_ (-1); OBin BLessThan]] |}.
Proof. vm_compute. repeat split. Qed.

(* "integer is any base-10 int64": participle.Map on the Int token type strips the leading
   zeros before the base-0 conversion.  Every line was measured on the Go parser with it. *)
Example decimal_int_examples :
  parse_fact (bs "p(010)") [] = fact1 "p" [TA (AInt 10)] /\
  parse_fact (bs "p(08)") [] = fact1 "p" [TA (AInt 8)] /\
  parse_fact (bs "p(0)") [] = fact1 "p" [TA (AInt 0)] /\
  parse_fact (bs "p(000)") [] = fact1 "p" [TA (AInt 0)] /\
  parse_fact (bs "p(-017)") [] = fact1 "p" [TA (AInt (-17))] /\
  parse_fact (bs "p(-08)") [] = fact1 "p" [TA (AInt (-8))] /\
  parse_fact (bs "p(09223372036854775807)") [] = fact1 "p" [TA (AInt 9223372036854775807)] /\
  parse_fact (bs "p(-009223372036854775808)") [] = fact1 "p" [TA (AInt (-9223372036854775808))] /\
  (* the range checks stay, leading zeros or not *)
  parse_fact (bs "p(09223372036854775808)") [] = Err EParse /\
  parse_fact (bs "p(-009223372036854775809)") [] = Err EParse /\
  (* no other base, no digit separators: the Int rule is digits only *)
  parse_fact (bs "p(0x10)") [] = Err EParse /\
  parse_fact (bs "p(1_000)") [] = Err EParse /\
  lex (bs "0x10") = Ok [Tok KInt (bs "0"); Tok KIdent (bs "x10")] /\
  (* other token types are not mapped: dates and variables keep their zeros *)
  parse_fact (bs "p(2023-01-02T03:04:05Z)") [] = fact1 "p" [TA (ADate 1672628645)] /\
  parse_check (bs "check if x($01), $01 == 010") [] =
    query1 [{| p_name := bs "x"; p_terms := [TA (AVar (bs "01"))] |}]
           [OVal (TA (AVar (bs "01"))); i_ 10; OBin BEqual] /\
  (* the mapper and the conversion on their own *)
  strip_zeros (bs "010") = bs "10" /\ strip_zeros (bs "000") = bs "0" /\ strip_zeros (bs "0") = bs "0" /\
  strip_zeros (bs "7") = bs "7" /\ strip_zeros [] = bs "0" /\
  int_magnitude (bs "010") = Some 8 /\ parse_int (bs "010") = Some 10%Z /\ parse_neg_int (bs "010") = Some (-10)%Z.
Proof. vm_compute. repeat split. Qed.

(* the mapper acts before literal matching, but no literal of the grammar can match the value of
   an Int token, mapped or not: a text that starts with a digit is none of them *)
Lemma digit_head_no_literal c l :
  is_digit c = true ->
  forallb (fun lit => negb (bytes_eqb (c :: l) lit))
    [L_lparen; L_rparen; L_comma; L_semi; L_lbrack; L_rbrack; L_bang; L_minus; L_arrow; L_or; L_oror;
     L_andand; L_check_if; L_allow_if; L_deny_if; L_true; L_false] = true /\
  cmp_of_text (c :: l) = None /\ add_of_text (c :: l) = None /\ mul_of_text (c :: l) = None /\
  method_of_text (c :: l) = None /\ has_prefix (c :: l) lit_hex = false.
Proof.
  intros Hc. unfold is_digit in Hc. apply andb_true_iff in Hc as [Hc1 Hc2]. apply N.leb_le in Hc1, Hc2.
  assert (Hne : forall x y, (x < 48 \/ 57 < x) -> bytes_eqb (c :: l) (x :: y) = false).
  { intros x y Hx. cbn [bytes_eqb]. destruct (N.eqb_spec c x) as [->|_]; [lia|reflexivity]. }
  repeat split.
  - cbn [forallb]. unfold L_lparen, L_rparen, L_comma, L_semi, L_lbrack, L_rbrack, L_bang, L_minus, L_arrow,
      L_or, L_oror, L_andand, L_check_if, L_allow_if, L_deny_if, L_true, L_false.
    rewrite !Hne by lia. reflexivity.
  - unfold cmp_of_text, cmp_text. rewrite !Hne by lia. reflexivity.
  - unfold add_of_text, add_text. rewrite !Hne by lia. reflexivity.
  - unfold mul_of_text, mul_text. rewrite !Hne by lia. reflexivity.
  - unfold method_of_text, method_text, M_matches, M_starts_with, M_ends_with, M_contains, M_union,
      M_intersection, M_length. rewrite !Hne by lia. reflexivity.
  - cbn [has_prefix lit_hex]. destruct (N.eqb_spec c 104) as [->|_]; [lia|reflexivity].
Qed.
Lemma strip_zeros_head s :
  forallb is_digit s = true -> exists c l, strip_zeros s = c :: l /\ is_digit c = true.
Proof.
  induction s as [|a s IH]; intros H; [exists 48, []; split; reflexivity|].
  cbn [forallb] in H. apply andb_true_iff in H as [Ha Hs].
  unfold strip_zeros in *. cbn [drop_while]. destruct (N.eqb_spec a 48) as [->|Hne].
  - exact (IH Hs).
  - exists a, s. split; [reflexivity|exact Ha].
Qed.

(* a Term that matches no alternative is an error at its own start, never "no match":
   the head of the Integer alternative is an optional group *)
Example term_never_nomatch :
  parse_term 3 [] = PErr [] /\
  parse_term 3 [t_rparen] = PErr [t_rparen] /\
  parse_term 3 [t_minus; t_rparen] = PErr [t_minus; t_rparen] /\
  parse_term 3 [t_minus; Tok KInt (bs "7"); t_rparen] = POk (GInt (-7)) [t_rparen] /\
  (* out of range with a sign: the error is after both tokens, beyond the lookahead *)
  parse_term 3 [t_minus; Tok KInt (bs "9223372036854775809"); t_rparen] = PErr [t_rparen] /\
  deep [t_minus; Tok KInt (bs "9223372036854775809"); t_rparen] [t_rparen] = true /\
  (* only the Operator token "-" is the sign *)
  parse_term 3 [Tok KPunct L_minus; Tok KInt (bs "7")] = PErr [Tok KPunct L_minus; Tok KInt (bs "7")] /\
  parse_term 3 [Tok KString L_minus; Tok KInt (bs "7")] = POk (GStr L_minus) [Tok KInt (bs "7")].
Proof. vm_compute. repeat split. Qed.

(* the side conditions of the token-level round trip hold for every int64 *)
Example neg_int_wf :
  wf_term (GInt (-9223372036854775808)) = true /\ wf_term (GInt 9223372036854775807) = true /\
  wf_term (GInt (-9223372036854775809)) = false /\ wf_term (GInt 9223372036854775808) = false /\
  up_term (GInt (-42)) [] = [t_minus; Tok KInt (bs "42")] /\
  up_term (GInt 42) [] = [Tok KInt (bs "42")] /\
  parse_term 1 (up_term (GInt (-9223372036854775808)) []) = POk (GInt (-9223372036854775808)) [].
Proof. vm_compute. repeat split. Qed.

(* ---------- conversion errors ---------- *)
Definition np {A} (r : res A) : Prop := forall n, r <> Panic n.

Lemma np_bind {A B} (r : res A) (k : A -> res B) : np r -> (forall a, np (k a)) -> np (bind r k).
Proof. intros Hr Hk n. destruct r as [a|e|m]; cbn; [apply Hk|discriminate|exfalso; exact (Hr m eq_refl)]. Qed.
Lemma np_ok {A} (a : A) : np (Ok a).
Proof. intros n; discriminate. Qed.
Lemma np_err {A} e : np (@Err A e).
Proof. intros n; discriminate. Qed.

Lemma set_elem_np v : np (set_elem v).
Proof. destruct v as [[v|z|s|d|b|b]|l]; intros n; discriminate. Qed.

Lemma term_to_biscuit_np_all ps :
  (forall t, np (term_to_biscuit ps t)) /\ (forall xs, np (set_atoms ps xs)).
Proof.
  apply gterm_mutind.
  - intros n. cbn. destruct (lookup_param ps n); [apply np_ok|apply np_err].
  - intros; apply np_ok.
  - intros h. cbn. destruct (hex_decode h); [apply np_ok|apply np_err].
  - intros; apply np_ok.
  - intros s. cbn. destruct (parse_rfc3339 s); [apply np_ok|apply np_err].
  - intros; apply np_ok.
  - intros; apply np_ok.
  - intros x IHx xs IHxs. cbn [term_to_biscuit].
    apply np_bind; [exact IHx|]. intros v. apply np_bind; [apply set_elem_np|]. intros a.
    apply np_bind; [exact IHxs|]. intros r. apply np_ok.
  - apply np_ok.
  - intros y IHy ys IHys. cbn [set_atoms].
    apply np_bind; [exact IHy|]. intros v. apply np_bind; [apply set_elem_np|]. intros a.
    apply np_bind; [exact IHys|]. intros r. apply np_ok.
Qed.
Definition term_to_biscuit_np ps := proj1 (term_to_biscuit_np_all ps).

Lemma not_panic_cases {A} (r : res A) : np r -> (exists a, r = Ok a) \/ (exists e, r = Err e).
Proof. intros H. destruct r as [a|e|n]; [left; eauto|right; eauto|exfalso; exact (H n eq_refl)]. Qed.

Definition is_err {A} (r : res A) : Prop := exists e, r = Err e.

Lemma bind_err_l {A B} (r : res A) (k : A -> res B) : is_err r -> is_err (bind r k).
Proof. intros [e H]. rewrite H. exists e. reflexivity. Qed.
Lemma bind_err_r {A B} (r : res A) (k : A -> res B) : np r -> (forall a, is_err (k a)) -> is_err (bind r k).
Proof.
  intros Hnp Hk. destruct (not_panic_cases r Hnp) as [[a Ha]|[e He]].
  - rewrite Ha. apply Hk.
  - rewrite He. exists e. reflexivity.
Qed.

(* membership in the custom lists *)
Fixpoint gin (t : gterm) (l : gterms) : Prop :=
  match l with GNil => False | GCons x xs => x = t \/ gin t xs end.

(* an element of a set literal that converts to a variable, or does not convert *)
Definition bad_elem (ps : params) (t : gterm) : Prop :=
  is_err (term_to_biscuit ps t) \/ exists v, term_to_biscuit ps t = Ok (TA (AVar v)).

Lemma set_atoms_bad ps t : bad_elem ps t -> forall xs, gin t xs -> is_err (set_atoms ps xs).
Proof.
  intros Hbad. induction xs as [|x xs IH]; intros Hin; [contradiction|].
  cbn [set_atoms]. destruct Hin as [-> | Hin].
  - destruct Hbad as [Herr | [v Hv]].
    + apply bind_err_l. exact Herr.
    + rewrite Hv. cbn. exists EParse. reflexivity.
  - apply bind_err_r; [apply term_to_biscuit_np|]. intros v.
    apply bind_err_r; [apply set_elem_np|]. intros a.
    apply bind_err_l. apply IH. exact Hin.
Qed.

(* C14: a variable inside a set is an error *)
Theorem C14_variable_in_set : forall ps x xs v,
  gin (GVar v) (GCons x xs) -> is_err (term_to_biscuit ps (GSet x xs)).
Proof.
  intros ps x xs v Hin.
  assert (Hb : bad_elem ps (GVar v)) by (right; exists v; reflexivity).
  pose proof (set_atoms_bad ps (GVar v) Hb (GCons x xs) Hin) as H.
  cbn [set_atoms] in H. cbn [term_to_biscuit].
  destruct H as [e He]. 
  destruct (term_to_biscuit ps x) as [vx|ex|nx]; cbn in *; [|eexists; reflexivity|discriminate].
  destruct (set_elem vx) as [a|ea|na]; cbn in *; [|eexists; reflexivity|discriminate].
  destruct (set_atoms ps xs) as [r|er|nr]; cbn in *; [discriminate|eexists; reflexivity|discriminate].
Qed.

(* the same through a parameter bound to a variable *)
Theorem C14_variable_param_in_set : forall ps x xs n v,
  lookup_param ps n = Some (TA (AVar v)) ->
  gin (GParam n) (GCons x xs) -> is_err (term_to_biscuit ps (GSet x xs)).
Proof.
  intros ps x xs n v Hl Hin.
  assert (Hb : bad_elem ps (GParam n)) by (right; exists v; cbn; rewrite Hl; reflexivity).
  pose proof (set_atoms_bad ps (GParam n) Hb (GCons x xs) Hin) as H.
  cbn [set_atoms] in H. cbn [term_to_biscuit].
  destruct H as [e He].
  destruct (term_to_biscuit ps x) as [vx|ex|nx]; cbn in *; [|eexists; reflexivity|discriminate].
  destruct (set_elem vx) as [a|ea|na]; cbn in *; [|eexists; reflexivity|discriminate].
  destruct (set_atoms ps xs) as [r|er|nr]; cbn in *; [discriminate|eexists; reflexivity|discriminate].
Qed.

(* C14: an unbound parameter is an error *)
Theorem C14_unbound_parameter : forall ps n,
  lookup_param ps n = None -> term_to_biscuit ps (GParam n) = Err EParse.
Proof. intros ps n H. cbn. rewrite H. reflexivity. Qed.

(* ... malformed dates and byte strings too *)
Theorem C14_malformed_date : forall ps s, parse_rfc3339 s = None -> term_to_biscuit ps (GDate s) = Err EParse.
Proof. intros ps s H. cbn. rewrite H. reflexivity. Qed.
Theorem C14_malformed_hex : forall ps h, hex_decode h = None -> term_to_biscuit ps (GBytes h) = Err EParse.
Proof. intros ps h H. cbn. rewrite H. reflexivity. Qed.

(* a term that does not convert makes the enclosing predicate fail ... *)
Lemma terms_to_biscuit_np ps l : np (terms_to_biscuit ps l).
Proof.
  induction l as [|x xs IH]; [apply np_ok|]. cbn [terms_to_biscuit].
  apply np_bind; [apply term_to_biscuit_np|]. intros v. apply np_bind; [exact IH|]. intros r. apply np_ok.
Qed.

Theorem C14_bad_term_in_predicate : forall ps p t,
  is_err (term_to_biscuit ps t) -> gin t (pr_ids p) -> is_err (pred_to_biscuit ps p).
Proof.
  intros ps [name ids] t Herr Hin. unfold pred_to_biscuit. cbn [pr_ids pr_name] in *.
  apply bind_err_l. induction ids as [|x xs IH]; [contradiction|].
  cbn [terms_to_biscuit]. destruct Hin as [-> | Hin].
  - apply bind_err_l. exact Herr.
  - apply bind_err_r; [apply term_to_biscuit_np|]. intros v. apply bind_err_l. apply IH. exact Hin.
Qed.

(* ... and the enclosing expression (checkExprTerms) *)
Lemma conv_op_np ps o :
  np (match o with
      | GVal t => match term_to_biscuit ps t with
                  | Ok v => Ok (OVal v) | Err EOther => Err EOther | Err _ => Err EParse | Panic n => Panic n end
      | GUn u => Ok (OUn u)
      | GBin b => Ok (OBin b)
      end).
Proof.
  destruct o as [t|u|b]; try apply np_ok.
  pose proof (term_to_biscuit_np ps t) as H.
  destruct (term_to_biscuit ps t) as [v|e|n]; [apply np_ok| |exfalso; exact (H n eq_refl)].
  destruct e; apply np_err.
Qed.

Lemma conv_ops_np ps l : np (conv_ops ps l).
Proof.
  induction l as [|o l IH]; [apply np_ok|]. cbn [conv_ops].
  apply np_bind; [apply conv_op_np|]. intros x. apply np_bind; [exact IH|]. intros r. apply np_ok.
Qed.

Theorem C14_bad_term_in_expression : forall ps e t,
  is_err (term_to_biscuit ps t) -> In (GVal t) (to_ops e) -> is_err (expr_to_biscuit ps e).
Proof.
  intros ps e t Herr. unfold expr_to_biscuit. generalize (to_ops e) as l.
  induction l as [|o l IH]; intros Hin; [contradiction|].
  cbn [conv_ops]. destruct Hin as [-> | Hin].
  - apply bind_err_l. destruct Herr as [e0 He0]. rewrite He0. destruct e0; eexists; reflexivity.
  - apply bind_err_r; [apply conv_op_np|]. intros x. apply bind_err_l. apply IH. exact Hin.
Qed.

Example conversion_error_examples :
  parse_check (bs "check if a([$x])") [] = Err EParse /\
  parse_check (bs "check if [$x].contains(1)") [] = Err EParse /\
  parse_check (bs "check if a({p})") [] = Err EParse /\
  parse_check (bs "check if {p} == 1") [] = Err EParse /\
  parse_check (bs "check if {p} == 1") [(bs "p", TA (AInt 1))]
    = Ok [{| r_head := query_head; r_body := [];
             r_exprs := [[OVal (TA (AInt 1)); OVal (TA (AInt 1)); OBin BEqual]] |}] /\
  parse_check (bs "check if a($x), $x < 2006-13-45T25:61:61Z") [] = Err EParse /\
  parse_check (bs "check if a(hex:abc)") [] = Err EParse /\
  parse_fact (bs "a($x)") [] = Err EParse /\
  is_ok (parse_block (bs "a($x);") []) = true.
Proof. vm_compute. repeat split. Qed.

(* ================================================================== *)
(* 6. Totality: no function of the model returns Panic                  *)
(* ================================================================== *)
Lemma lex_loop_np f : forall s, np (lex_loop f s).
Proof.
  induction f as [|f IH]; intros s; destruct s as [|c s]; try apply np_ok; try apply np_err.
  cbn [lex_loop]. destruct (next_token (c :: s)) as [[t r]|]; [|apply np_err].
  destruct (elided (tk t)); [apply IH|].
  destruct (kind_eqb (tk t) KString && has_backslash (tx t)); [apply np_err|].
  apply np_bind; [apply IH|]. intros ts. apply np_ok.
Qed.

Theorem lex_total : forall s n, lex s <> Panic n.
Proof. intros s. unfold lex. destruct (forallb in_domain s); [apply lex_loop_np|apply np_err]. Qed.

Lemma run_np {A} (p : nat -> list token -> pres A) ts : np (run p ts).
Proof.
  unfold run. destruct (p (fuel_for ts) ts) as [a [|t r]| |q|]; try apply np_ok; apply np_err.
Qed.

Lemma pred_to_biscuit_np ps p : np (pred_to_biscuit ps p).
Proof. unfold pred_to_biscuit. apply np_bind; [apply terms_to_biscuit_np|]. intros ts. apply np_ok. Qed.

Lemma expr_to_biscuit_np ps e : np (expr_to_biscuit ps e).
Proof. apply conv_ops_np. Qed.

Lemma body_to_biscuit_np ps l : np (body_to_biscuit ps l).
Proof.
  induction l as [|[p|e] l IH]; [apply np_ok| |]; cbn [body_to_biscuit].
  - apply np_bind; [apply pred_to_biscuit_np|]. intros q. apply np_bind; [exact IH|]. intros r. apply np_ok.
  - apply np_bind; [apply expr_to_biscuit_np|]. intros q. apply np_bind; [exact IH|]. intros r. apply np_ok.
Qed.

Lemma query_to_biscuit_np ps q : np (query_to_biscuit ps q).
Proof. unfold query_to_biscuit. apply np_bind; [apply body_to_biscuit_np|]. intros b. apply np_ok. Qed.

Lemma queries_to_biscuit_np ps l : np (queries_to_biscuit ps l).
Proof.
  induction l as [|q l IH]; [apply np_ok|]. cbn [queries_to_biscuit].
  apply np_bind; [apply query_to_biscuit_np|]. intros r. apply np_bind; [exact IH|]. intros rs. apply np_ok.
Qed.

Lemma check_to_biscuit_np ps c : np (check_to_biscuit ps c).
Proof. apply queries_to_biscuit_np. Qed.

Lemma policy_to_biscuit_np ps p : np (policy_to_biscuit ps p).
Proof.
  destruct p as [q qs|q qs]; unfold policy_to_biscuit;
    (apply np_bind; [apply queries_to_biscuit_np|]); intros l; apply np_ok.
Qed.

Lemma rule_parts_to_biscuit_np ps h body : np (rule_parts_to_biscuit ps h body).
Proof.
  unfold rule_parts_to_biscuit. apply np_bind; [apply body_to_biscuit_np|]. intros b.
  apply np_bind; [apply pred_to_biscuit_np|]. intros hd. apply np_ok.
Qed.

Lemma block_element_to_biscuit_np ps b e : np (block_element_to_biscuit ps b e).
Proof.
  destruct e as [c|h [body|]]; cbn [block_element_to_biscuit].
  - apply np_bind; [apply check_to_biscuit_np|]. intros x. apply np_ok.
  - apply np_bind; [apply rule_parts_to_biscuit_np|]. intros x. apply np_ok.
  - apply np_bind; [apply pred_to_biscuit_np|]. intros x. apply np_ok.
Qed.

Lemma block_elements_to_biscuit_np ps l : forall b, np (block_elements_to_biscuit ps b l).
Proof.
  induction l as [|e l IH]; intros b; [apply np_ok|]. cbn [block_elements_to_biscuit].
  apply np_bind; [apply block_element_to_biscuit_np|]. intros b'. apply IH.
Qed.

Lemma authorizer_elements_to_biscuit_np ps l : forall b pols, np (authorizer_elements_to_biscuit ps b pols l).
Proof.
  induction l as [|[p|e] l IH]; intros b pols; [apply np_ok| |]; cbn [authorizer_elements_to_biscuit].
  - apply np_bind; [apply policy_to_biscuit_np|]. intros x. apply IH.
  - apply np_bind; [apply block_element_to_biscuit_np|]. intros b'. apply IH.
Qed.

Theorem parse_fact_total : forall s ps n, parse_fact s ps <> Panic n.
Proof.
  intros s ps. unfold parse_fact. apply np_bind; [exact (lex_total s)|]. intros ts.
  apply np_bind; [apply run_np|]. intros g. apply np_bind; [apply pred_to_biscuit_np|]. intros p.
  destruct (existsb is_var (p_terms p)); [apply np_err|apply np_ok].
Qed.
Theorem parse_rule_total : forall s ps n, parse_rule s ps <> Panic n.
Proof.
  intros s ps. unfold parse_rule. apply np_bind; [exact (lex_total s)|]. intros ts.
  apply np_bind; [apply run_np|]. intros g. apply rule_parts_to_biscuit_np.
Qed.
Theorem parse_check_total : forall s ps n, parse_check s ps <> Panic n.
Proof.
  intros s ps. unfold parse_check. apply np_bind; [exact (lex_total s)|]. intros ts.
  apply np_bind; [apply run_np|]. intros g. apply check_to_biscuit_np.
Qed.
Theorem parse_policy_total : forall s ps n, parse_policy s ps <> Panic n.
Proof.
  intros s ps. unfold parse_policy. apply np_bind; [exact (lex_total s)|]. intros ts.
  apply np_bind; [apply run_np|]. intros g. apply policy_to_biscuit_np.
Qed.
Theorem parse_block_total : forall s ps n, parse_block s ps <> Panic n.
Proof.
  intros s ps. unfold parse_block. apply np_bind; [exact (lex_total s)|]. intros ts.
  apply np_bind; [apply run_np|]. intros g. apply block_elements_to_biscuit_np.
Qed.
Theorem parse_authorizer_total : forall s ps n, parse_authorizer s ps <> Panic n.
Proof.
  intros s ps. unfold parse_authorizer. apply np_bind; [exact (lex_total s)|]. intros ts.
  apply np_bind; [apply run_np|]. intros g. apply authorizer_elements_to_biscuit_np.
Qed.
(* the printers of Printer.v return plain byte strings ([bytes], not [res]): they are
   total by construction, with the "<invalid expression ...>" texts as their only
   failure outputs *)

(* ================================================================== *)
(* 3. Lexer: a rendered token list lexes back to itself                 *)
(* ================================================================== *)
(* source text of a token: String tokens are quoted *)
Definition src (t : token) : bytes :=
  if kind_eqb (tk t) KString then 34 :: tx t ++ [34] else tx t.
Definition follow (r : bytes) : option N := match r with [] => None | c :: _ => Some c end.
Definition nx_not (p : N -> bool) (nx : option N) : bool :=
  match nx with Some c => negb (p c) | None => true end.

Lemma span_stop p x r : forallb p x = true -> nx_not p (follow r) = true -> span p (x ++ r) = (x, r).
Proof.
  intros Hx Hr. induction x as [|a x IH].
  - cbn [app]. destruct r as [|c r']; [reflexivity|]. cbn in Hr. apply negb_true_iff in Hr.
    cbn [span]. rewrite Hr. reflexivity.
  - cbn [forallb] in Hx. apply andb_true_iff in Hx as [Ha Hx]. cbn [app span]. rewrite Ha, (IH Hx). reflexivity.
Qed.

Lemma first_rule_at pre k f post s m r :
  (forall kf, In kf pre -> snd kf s = None) -> f s = Some (m, r) ->
  first_rule (pre ++ (k, f) :: post) s = Some (Tok k m, r).
Proof.
  intros Hpre Hf. induction pre as [|[k0 f0] pre IH].
  - cbn. rewrite Hf. reflexivity.
  - cbn [app first_rule]. pose proof (Hpre (k0, f0) (or_introl eq_refl)) as H0. cbn [snd] in H0.
    rewrite H0. apply IH.
    intros kf Hin. apply Hpre. right. exact Hin.
Qed.

(* a literal whose comparison with [s] fails inside [s] cannot match any extension of [s] *)
Fixpoint mismatch (lit s : bytes) : bool :=
  match lit, s with
  | x :: lit', y :: s' => if N.eqb x y then mismatch lit' s' else true
  | _, _ => false
  end.
Lemma mismatch_strip lit : forall s r, mismatch lit s = true -> strip lit (s ++ r) = None.
Proof.
  induction lit as [|x lit IH]; intros s r H; [discriminate|].
  destruct s as [|y s]; [discriminate|]. cbn [mismatch] in H. cbn [app strip].
  destruct (N.eqb x y); [apply IH; exact H|reflexivity].
Qed.
Lemma mismatch_first_lit lits s r :
  forallb (fun lit => mismatch lit s) lits = true -> first_lit lits (s ++ r) = None.
Proof.
  induction lits as [|l lits IH]; intros H; [reflexivity|].
  cbn [forallb] in H. apply andb_true_iff in H as [H1 H2].
  cbn [first_lit]. rewrite (mismatch_strip l s r H1). apply IH. exact H2.
Qed.

Ltac kill_eqb :=
  repeat match goal with
         | |- context [N.eqb ?a ?b] => destruct (N.eqb_spec a b); [exfalso; lia|]
         end.

(* first-byte sets: a recogniser fails when the first byte is outside its set *)
Lemma rec_keyword_none c s : c <> 99 -> c <> 97 -> c <> 100 -> rec_keyword (c :: s) = None.
Proof. intros. unfold rec_keyword, lits_keyword. cbn [first_lit strip]. kill_eqb. reflexivity. Qed.
Lemma rec_function_none c s :
  c <> 112 -> c <> 115 -> c <> 109 -> c <> 108 -> c <> 99 -> rec_function (c :: s) = None.
Proof. intros. unfold rec_function, lits_function. cbn [first_lit strip]. kill_eqb. reflexivity. Qed.
Lemma rec_hex_none c s : c <> 104 -> rec_hex (c :: s) = None.
Proof. intros. unfold rec_hex, lit_hex. cbn [strip]. kill_eqb. reflexivity. Qed.
Lemma rec_dot_none c s : c <> 46 -> rec_dot (c :: s) = None.
Proof. intros. unfold rec_dot. cbn [first_lit strip]. kill_eqb. reflexivity. Qed.
Lemma rec_arrow_none c s : c <> 60 -> rec_arrow (c :: s) = None.
Proof. intros. unfold rec_arrow. cbn [first_lit strip]. kill_eqb. reflexivity. Qed.
Lemma rec_or_none c s : c <> 124 -> rec_or (c :: s) = None.
Proof. intros. unfold rec_or. cbn [first_lit strip]. kill_eqb. reflexivity. Qed.
Lemma rec_and_none c s : c <> 38 -> rec_and (c :: s) = None.
Proof. intros. unfold rec_and. cbn [first_lit strip]. kill_eqb. reflexivity. Qed.
Lemma rec_operator_none c s :
  c <> 61 -> c <> 62 -> c <> 60 -> c <> 43 -> c <> 45 -> c <> 42 -> rec_operator (c :: s) = None.
Proof. intros. unfold rec_operator, lits_operator. cbn [first_lit strip]. kill_eqb. reflexivity. Qed.
Lemma rec_comment_none c s : c <> 47 -> rec_comment (c :: s) = None.
Proof. intros. unfold rec_comment. destruct (N.eqb_spec c 47); [lia|reflexivity]. Qed.
Lemma rec_string_none c s : c <> 34 -> rec_string (c :: s) = None.
Proof. intros. unfold rec_string. destruct (N.eqb_spec c 34); [lia|reflexivity]. Qed.
Lemma rec_variable_none c s : c <> 36 -> rec_variable (c :: s) = None.
Proof. intros. unfold rec_variable. destruct (N.eqb_spec c 36); [lia|reflexivity]. Qed.
Lemma rec_parameter_none c s : c <> 123 -> rec_parameter (c :: s) = None.
Proof. intros. unfold rec_parameter. destruct (N.eqb_spec c 123); [lia|reflexivity]. Qed.
Lemma rec_datetime_none c s : is_digit c = false -> rec_datetime (c :: s) = None.
Proof. intros H. unfold rec_datetime, take_digit. rewrite H. reflexivity. Qed.
Lemma rec_int_none c s : is_digit c = false -> rec_int (c :: s) = None.
Proof. intros H. unfold rec_int, span1. cbn [span]. rewrite H. reflexivity. Qed.
Lemma rec_bool_none c s : c <> 116 -> c <> 102 -> rec_bool (c :: s) = None.
Proof. intros. unfold rec_bool, lits_bool. cbn [first_lit strip]. kill_eqb. reflexivity. Qed.
Lemma rec_ident_none c s : is_lower c = false -> rec_ident (c :: s) = None.
Proof. intros H. unfold rec_ident. rewrite H. reflexivity. Qed.
Lemma rec_whitespace_none c s : is_blank c = false -> rec_whitespace (c :: s) = None.
Proof. intros H. unfold rec_whitespace, span1. cbn [span]. rewrite H. reflexivity. Qed.
Lemma rec_eol_none c s : is_eol c = false -> rec_eol (c :: s) = None.
Proof. intros H. unfold rec_eol, span1. cbn [span]. rewrite H. reflexivity. Qed.

Lemma is_digit_iff c : is_digit c = true <-> 48 <= c <= 57.
Proof. unfold is_digit. rewrite andb_true_iff, !N.leb_le. tauto. Qed.
Lemma is_digit_false c : is_digit c = false <-> (c < 48 \/ 57 < c).
Proof. unfold is_digit. rewrite andb_false_iff, !N.leb_gt. tauto. Qed.
Lemma is_lower_iff c : is_lower c = true <-> 97 <= c <= 122.
Proof. unfold is_lower. rewrite andb_true_iff, !N.leb_le. tauto. Qed.
Lemma is_lower_false c : is_lower c = false <-> (c < 97 \/ 122 < c).
Proof. unfold is_lower. rewrite andb_false_iff, !N.leb_gt. tauto. Qed.
Lemma is_blank_false c : is_blank c = false <-> (c <> 32 /\ c <> 9).
Proof. unfold is_blank. rewrite orb_false_iff, !N.eqb_neq. tauto. Qed.
Lemma is_eol_false c : is_eol c = false <-> (c <> 10 /\ c <> 13).
Proof. unfold is_eol. rewrite orb_false_iff, !N.eqb_neq. tauto. Qed.

(* discharge "every earlier rule fails on (c :: s)" from arithmetic facts about c *)
Ltac earlier_none :=
  let kf := fresh "kf" in let Hin := fresh "Hin" in
  intros kf Hin; cbn [In firstn rules] in Hin;
  repeat (destruct Hin as [<- | Hin];
          [cbn [snd];
           first [ apply rec_keyword_none; lia | apply rec_function_none; lia | apply rec_hex_none; lia
                 | apply rec_dot_none; lia | apply rec_arrow_none; lia | apply rec_or_none; lia
                 | apply rec_and_none; lia | apply rec_operator_none; lia | apply rec_comment_none; lia
                 | apply rec_string_none; lia | apply rec_variable_none; lia | apply rec_parameter_none; lia
                 | apply rec_datetime_none; apply is_digit_false; lia
                 | apply rec_int_none; apply is_digit_false; lia
                 | apply rec_bool_none; lia
                 | apply rec_ident_none; apply is_lower_false; lia
                 | apply rec_whitespace_none; apply is_blank_false; lia
                 | apply rec_eol_none; apply is_eol_false; lia ]
          |]);
  try contradiction.

Lemma next_token_split i k f :
  nth_error rules i = Some (k, f) ->
  rules = firstn i rules ++ (k, f) :: skipn (S i) rules.
Proof.
  intros H. do 19 (destruct i as [|i]; [cbn in H; injection H as <- <-; reflexivity|]).
  destruct i; discriminate.
Qed.

Definition mem (x : bytes) (l : list bytes) : bool := existsb (bytes_eqb x) l.
Definition is_nil {A} (l : list A) : bool := match l with [] => true | _ => false end.

Fixpoint hex_even (h : bytes) : bool :=
  match h with
  | [] => true
  | a :: b :: h' => is_hexdigit a && is_hexdigit b && hex_even h'
  | _ => false
  end.

Definition shadow_lits : list bytes := Eval compute in lits_keyword ++ lits_function ++ [lit_hex] ++ lits_bool.
Definition nxl (nx : option N) : bytes := match nx with Some c => [c] | None => [] end.

(* dddd-dd-ddTdd:dd:ddZ *)
Definition dt_shape (x : bytes) : bool :=
  match x with
  | [y1; y2; y3; y4; a1; m1; m2; a2; d1; d2; tc; h1; h2; b1; i1; i2; b2; s1; s2; z] =>
      is_digit y1 && (is_digit y2 && is_digit y3 && is_digit y4 && (a1 =? 45) && is_digit m1
      && is_digit m2 && (a2 =? 45) && is_digit d1 && is_digit d2 && (tc =? 84) && is_digit h1
      && is_digit h2 && (b1 =? 58) && is_digit i1 && is_digit i2 && (b2 =? 58) && is_digit s1
      && is_digit s2) && (z =? 90)
  | _ => false
  end.

Definition punct_simple : list bytes := [[40]; [41]; [44]; [59]; [91]; [93]; [33]].
Definition ops_simple : list bytes := [[61; 61]; [62; 61]; [60; 61]; [43]; [45]; [42]].

(* [tok_ok t nx]: the text of [t] is in the language of its rule, no earlier rule
   matches at its first byte, and the rule stops exactly at the end of the text when
   the next input byte is [nx] (None = end of input) *)
Definition tok_ok (t : token) (nx : option N) : bool :=
  let x := tx t in
  match tk t with
  | KKeyword => mem x lits_keyword
  | KFunction => mem x lits_function
  | KHex => match strip lit_hex x with
            | Some h => hex_even h && nx_not is_hexdigit nx
            | None => false
            end
  | KDot => bytes_eqb x [46]
  | KArrow => bytes_eqb x [60; 45]
  | KOr => bytes_eqb x [124; 124]
  | KAnd => bytes_eqb x [38; 38]
  | KOperator => mem x ops_simple
                 || (bytes_eqb x [62] && nx_not (fun c => c =? 61) nx)
                 || (bytes_eqb x [60] && nx_not (fun c => (c =? 61) || (c =? 45)) nx)
  | KComment => match x with
                | a :: b :: body => (a =? 47) && (b =? 47) && forallb (fun c => negb (c =? 10)) body
                                    && match nx with None => true | Some c => c =? 10 end
                | _ => false
                end
  | KString => forallb (fun c => negb (c =? 34)) x && negb (has_backslash x)
  | KVariable => match x with
                 | d :: w => (d =? 36) && negb (is_nil w) && forallb is_word w && nx_not is_word nx
                 | [] => false
                 end
  | KParameter => match x with
                  | o :: w' => (o =? 123) &&
                               match rev w' with
                               | c :: rw => (c =? 125) && negb (is_nil rw) && forallb is_word rw
                               | [] => false
                               end
                  | [] => false
                  end
  | KDateTime => dt_shape x
  | KInt => negb (is_nil x) && forallb is_digit x && nx_not (fun c => is_digit c || (c =? 45)) nx
  | KBool => mem x lits_bool
  | KIdent => match x with
              | c :: w => is_lower c && forallb is_word w && nx_not is_word nx
                          && forallb (fun lit => mismatch lit (x ++ nxl nx)) shadow_lits
              | [] => false
              end
  | KPunct => mem x punct_simple || (bytes_eqb x [47] && nx_not (fun c => c =? 47) nx)
  | KWhitespace | KEOL => false
  end.

Lemma mem_cases x l : mem x l = true -> In x l.
Proof.
  unfold mem. intros H. apply existsb_exists in H as (y & Hin & Heq). apply bytes_eqb_eq in Heq. subst. exact Hin.
Qed.

Ltac step_eqb :=
  match goal with
  | |- context [N.eqb ?a ?b] => destruct (N.eqb_spec a b); [try (exfalso; lia)|try (exfalso; lia)]
  end.

Ltac at_rule i :=
  rewrite (next_token_split i _ _ eq_refl); apply first_rule_at.

Lemma nt_keyword x r : mem x lits_keyword = true -> next_token (x ++ r) = Some (Tok KKeyword x, r).
Proof.
  intros H. apply mem_cases in H. cbn in H. destruct H as [<-|[<-|[<-|[]]]]; reflexivity.
Qed.
Lemma nt_function x r : mem x lits_function = true -> next_token (x ++ r) = Some (Tok KFunction x, r).
Proof.
  intros H. apply mem_cases in H. cbn in H. destruct H as [<-|[<-|[<-|[<-|[<-|[]]]]]]; reflexivity.
Qed.
Lemma nt_bool x r : mem x lits_bool = true -> next_token (x ++ r) = Some (Tok KBool x, r).
Proof.
  intros H. apply mem_cases in H. cbn in H. destruct H as [<-|[<-|[]]]. 
  - unfold next_token. at_rule 14%nat. 
    + cbn [app]. earlier_none.
    + reflexivity.
  - unfold next_token. at_rule 14%nat.
    + cbn [app]. earlier_none.
    + reflexivity.
Qed.

Lemma nt_dot r : next_token ([46] ++ r) = Some (Tok KDot [46], r).
Proof. reflexivity. Qed.
Lemma nt_arrow r : next_token ([60; 45] ++ r) = Some (Tok KArrow [60; 45], r).
Proof. reflexivity. Qed.
Lemma nt_or r : next_token ([124; 124] ++ r) = Some (Tok KOr [124; 124], r).
Proof. reflexivity. Qed.
Lemma nt_and r : next_token ([38; 38] ++ r) = Some (Tok KAnd [38; 38], r).
Proof. reflexivity. Qed.

Lemma nt_operator x r :
  (mem x ops_simple
   || (bytes_eqb x [62] && nx_not (fun c => c =? 61) (follow r))
   || (bytes_eqb x [60] && nx_not (fun c => (c =? 61) || (c =? 45)) (follow r))) = true ->
  next_token (x ++ r) = Some (Tok KOperator x, r).
Proof.
  intros H. apply orb_true_iff in H as [H|H]; [apply orb_true_iff in H as [H|H]|].
  - apply mem_cases in H. cbn in H. destruct H as [<-|[<-|[<-|[<-|[<-|[<-|[]]]]]]]; reflexivity.
  - apply andb_true_iff in H as [Hx Hr]. apply bytes_eqb_eq in Hx. subst x.
    destruct r as [|c r']; [reflexivity|]. cbn in Hr. apply negb_true_iff, N.eqb_neq in Hr.
    unfold next_token. at_rule 7%nat.
    + cbn [app]. earlier_none.
    + cbn [app]. unfold rec_operator, lits_operator. cbn [first_lit strip].
      repeat step_eqb. reflexivity.
  - apply andb_true_iff in H as [Hx Hr]. apply bytes_eqb_eq in Hx. subst x.
    destruct r as [|c r']; [reflexivity|]. cbn in Hr. apply negb_true_iff, orb_false_iff in Hr as [H1 H2].
    apply N.eqb_neq in H1, H2.
    unfold next_token. at_rule 7%nat.
    + cbn [app]. intros kf Hin. cbn [In firstn rules] in Hin.
      destruct Hin as [<-|[<-|[<-|[<-|[<-|[<-|[<-|[]]]]]]]]; cbn [snd]; try reflexivity.
      unfold rec_arrow. cbn [first_lit strip]. repeat step_eqb. reflexivity.
    + cbn [app]. unfold rec_operator, lits_operator. cbn [first_lit strip].
      repeat step_eqb. reflexivity.
Qed.

Lemma nt_punct x r :
  (mem x punct_simple || (bytes_eqb x [47] && nx_not (fun c => c =? 47) (follow r))) = true ->
  next_token (x ++ r) = Some (Tok KPunct x, r).
Proof.
  intros H. apply orb_true_iff in H as [H|H].
  - apply mem_cases in H. cbn in H.
    destruct H as [<-|[<-|[<-|[<-|[<-|[<-|[<-|[]]]]]]]]; unfold next_token; at_rule 18%nat;
      try (cbn [app]; earlier_none); reflexivity.
  - apply andb_true_iff in H as [Hx Hr]. apply bytes_eqb_eq in Hx. subst x.
    unfold next_token. at_rule 18%nat; [|reflexivity].
    cbn [app]. intros kf Hin. cbn [In firstn rules] in Hin.
    repeat (destruct Hin as [<- | Hin]; [cbn [snd]; try reflexivity|]); try contradiction.
    (* the comment rule *)
    unfold rec_comment. change (47 =? 47) with true. cbv iota. destruct r as [|c r']; [reflexivity|].
    cbn in Hr. apply negb_true_iff in Hr. rewrite Hr. reflexivity.
Qed.

(* ---- Hex ---- *)
Lemma hex_pairs_stop : forall n h r, (List.length h <= n)%nat ->
  hex_even h = true -> nx_not is_hexdigit (follow r) = true -> hex_pairs (h ++ r) = (h, r).
Proof.
  induction n as [|n IH]; intros h r Hlen Hh Hr.
  - destruct h; [|cbn in Hlen; lia]. cbn [app]. destruct r as [|a [|b r']]; try reflexivity.
    cbn in Hr. apply negb_true_iff in Hr. cbn [hex_pairs]. rewrite Hr. reflexivity.
  - destruct h as [|a [|b h']]; try discriminate.
    + cbn [app]. destruct r as [|a [|b r']]; try reflexivity.
      cbn in Hr. apply negb_true_iff in Hr. cbn [hex_pairs]. rewrite Hr. reflexivity.
    + cbn [hex_even] in Hh. apply andb_true_iff in Hh as [Hab Hh]. cbn [app hex_pairs]. rewrite Hab.
      rewrite (IH h' r); [reflexivity|cbn in Hlen; lia|exact Hh|exact Hr].
Qed.

Lemma strip_inv lit : forall s r, strip lit s = Some r -> s = lit ++ r.
Proof.
  induction lit as [|x lit IH]; intros s r H; [cbn in H; injection H as ->; reflexivity|].
  destruct s as [|y s]; [discriminate|]. cbn [strip] in H. destruct (N.eqb_spec x y); [|discriminate].
  subst y. cbn. f_equal. apply IH. exact H.
Qed.

Lemma strip_app lit r : strip lit (lit ++ r) = Some r.
Proof. induction lit as [|x lit IH]; [reflexivity|]. cbn [app strip]. rewrite N.eqb_refl. exact IH. Qed.

Lemma nt_hex x r :
  match strip lit_hex x with Some h => hex_even h && nx_not is_hexdigit (follow r) | None => false end = true ->
  next_token (x ++ r) = Some (Tok KHex x, r).
Proof.
  intros H. destruct (strip lit_hex x) as [h|] eqn:E; [|discriminate].
  apply strip_inv in E. subst x. apply andb_true_iff in H as [Hh Hr].
  unfold next_token. at_rule 2%nat.
  - unfold lit_hex. cbn [app]. earlier_none.
  - unfold rec_hex. rewrite <- app_assoc, strip_app.
    rewrite (hex_pairs_stop (List.length h) h r (le_n _) Hh Hr). reflexivity.
Qed.

(* ---- Comment ---- *)
Lemma nt_comment x r :
  match x with
  | a :: b :: body => (a =? 47) && (b =? 47) && forallb (fun c => negb (c =? 10)) body
                      && match follow r with None => true | Some c => c =? 10 end
  | _ => false
  end = true -> next_token (x ++ r) = Some (Tok KComment x, r).
Proof.
  intros H. destruct x as [|a [|b body]]; try discriminate.
  apply andb_true_iff in H as [H Hr]. apply andb_true_iff in H as [H Hbody]. apply andb_true_iff in H as [Ha Hb].
  apply N.eqb_eq in Ha, Hb. subst a b.
  unfold next_token. at_rule 8%nat.
  - cbn [app]. earlier_none.
  - cbn [app]. unfold rec_comment. change (47 =? 47) with true. cbv iota.
    rewrite (span_stop (fun c => negb (c =? 10)) body r Hbody); [reflexivity|].
    destruct r as [|c r']; [reflexivity|]. cbn in *. rewrite Hr. reflexivity.
Qed.

(* ---- String ---- *)
Lemma nt_string x r :
  forallb (fun c => negb (c =? 34)) x = true ->
  next_token ((34 :: x ++ [34]) ++ r) = Some (Tok KString x, r).
Proof.
  intros Hx. unfold next_token. at_rule 9%nat.
  - cbn [app]. earlier_none.
  - cbn [app]. unfold rec_string. change (34 =? 34) with true. cbv iota.
    rewrite <- app_assoc. cbn [app].
    rewrite (span_stop (fun c => negb (c =? 34)) x (34 :: r) Hx eq_refl). reflexivity.
Qed.

(* ---- Variable ---- *)
Lemma span1_stop p x r : x <> [] -> forallb p x = true -> nx_not p (follow r) = true -> span1 p (x ++ r) = Some (x, r).
Proof.
  intros Hne Hx Hr. unfold span1. rewrite (span_stop p x r Hx Hr). destruct x; [congruence|reflexivity].
Qed.

Lemma is_nil_false {A} (l : list A) : negb (is_nil l) = true -> l <> [].
Proof. destruct l; [discriminate|intros _; discriminate]. Qed.

Lemma nt_variable x r :
  match x with
  | d :: w => (d =? 36) && negb (is_nil w) && forallb is_word w && nx_not is_word (follow r)
  | [] => false
  end = true -> next_token (x ++ r) = Some (Tok KVariable x, r).
Proof.
  intros H. destruct x as [|d w]; [discriminate|].
  apply andb_true_iff in H as [H Hr]. apply andb_true_iff in H as [H Hw]. apply andb_true_iff in H as [Hd Hne].
  apply N.eqb_eq in Hd. subst d. apply is_nil_false in Hne.
  unfold next_token. at_rule 10%nat.
  - cbn [app]. earlier_none.
  - cbn [app]. unfold rec_variable. change (36 =? 36) with true. cbv iota.
    rewrite (span1_stop is_word w r Hne Hw Hr). reflexivity.
Qed.

(* ---- Parameter ---- *)
Lemma nt_parameter x r :
  match x with
  | o :: w' => (o =? 123) &&
               match rev w' with
               | c :: rw => (c =? 125) && negb (is_nil rw) && forallb is_word rw
               | [] => false
               end
  | [] => false
  end = true -> next_token (x ++ r) = Some (Tok KParameter x, r).
Proof.
  intros H. destruct x as [|o w']; [discriminate|].
  apply andb_true_iff in H as [Ho H]. apply N.eqb_eq in Ho. subst o.
  destruct (rev w') as [|c rw] eqn:E; [discriminate|].
  apply andb_true_iff in H as [H Hw]. apply andb_true_iff in H as [Hc Hne].
  apply N.eqb_eq in Hc. subst c. apply is_nil_false in Hne.
  assert (Hw' : w' = rev rw ++ [125]).
  { rewrite <- (rev_involutive w'), E. reflexivity. }
  subst w'. set (w := rev rw).
  assert (Hww : forallb is_word w = true) by (unfold w; rewrite forallb_rev; exact Hw).
  assert (Hwne : w <> []).
  { unfold w. intros Hc. apply (f_equal (@rev N)) in Hc. rewrite rev_involutive in Hc. cbn in Hc. congruence. }
  unfold next_token. at_rule 11%nat.
  - cbn [app]. earlier_none.
  - cbn [app]. unfold rec_parameter. change (123 =? 123) with true. cbv iota.
    rewrite <- app_assoc. cbn [app].
    rewrite (span1_stop is_word w (125 :: r) Hwne Hww eq_refl).
    change (125 =? 125) with true. cbv iota. reflexivity.
Qed.

(* ---- DateTime ---- *)
Lemma take_digit_ok c r : is_digit c = true -> take_digit (c :: r) = Some (c, r).
Proof. intros H. unfold take_digit. rewrite H. reflexivity. Qed.
Lemma take_byte_ok k c r : (c =? k) = true -> take_byte k (c :: r) = Some (c, r).
Proof. intros H. unfold take_byte. rewrite H. reflexivity. Qed.

Lemma nt_datetime x r : dt_shape x = true -> next_token (x ++ r) = Some (Tok KDateTime x, r).
Proof.
  intros H. do 20 (destruct x as [|? x]; [discriminate|]). destruct x; [|discriminate].
  cbn [dt_shape] in H.
  repeat match goal with Hx : (_ && _) = true |- _ => apply andb_true_iff in Hx; destruct Hx end.
  match goal with Hd : is_digit ?c = true |- next_token ((?c :: _) ++ _) = _ =>
    assert (Hc : 48 <= c <= 57) by (apply is_digit_iff; exact Hd) end.
  unfold next_token. at_rule 12%nat.
  - cbn [app]. earlier_none.
  - cbn [app]. unfold rec_datetime.
    repeat first [ rewrite take_digit_ok by assumption | rewrite take_byte_ok by assumption ]; cbn [obind].
    repeat (first [ rewrite take_digit_ok by assumption | rewrite take_byte_ok by assumption ]; cbn [obind]).
    match goal with Hz : (?z =? 90) = true |- _ => apply N.eqb_eq in Hz; subst z end.
    reflexivity.
Qed.

(* ---- Int ---- *)
Lemma take_digit_fail_follow r :
  nx_not (fun c => is_digit c || (c =? 45)) (follow r) = true -> take_digit r = None /\ take_byte 45 r = None.
Proof.
  intros H. destruct r as [|c r']; [split; reflexivity|]. cbn in H. apply negb_true_iff, orb_false_iff in H as [H1 H2].
  unfold take_digit, take_byte. rewrite H1, H2. split; reflexivity.
Qed.

Lemma rec_datetime_int x r :
  x <> [] -> forallb is_digit x = true -> nx_not (fun c => is_digit c || (c =? 45)) (follow r) = true ->
  rec_datetime (x ++ r) = None.
Proof.
  intros Hne Hx Hr. destruct (take_digit_fail_follow r Hr) as [Hd Hb].
  destruct x as [|a [|b [|c [|d [|e x']]]]]; [congruence| | | | |];
    cbn [forallb] in Hx;
    repeat match goal with Hx : (_ && _) = true |- _ => apply andb_true_iff in Hx; destruct Hx end;
    cbn [app]; unfold rec_datetime;
    repeat (rewrite take_digit_ok by assumption; cbn [obind]);
    try (rewrite Hd; reflexivity); try (rewrite Hb; reflexivity).
  (* five or more digits: the fifth is not '-' *)
  unfold take_byte. 
  match goal with He : is_digit e = true |- _ => apply is_digit_iff in He end.
  destruct (N.eqb_spec e 45); [lia|reflexivity].
Qed.

Lemma nt_int x r :
  negb (is_nil x) && forallb is_digit x && nx_not (fun c => is_digit c || (c =? 45)) (follow r) = true ->
  next_token (x ++ r) = Some (Tok KInt x, r).
Proof.
  intros H. apply andb_true_iff in H as [H Hr]. apply andb_true_iff in H as [Hne Hx].
  apply is_nil_false in Hne.
  assert (Hr' : nx_not is_digit (follow r) = true).
  { destruct r as [|c r']; [reflexivity|]. cbn in *. apply negb_true_iff, orb_false_iff in Hr as [H1 _].
    rewrite H1. reflexivity. }
  pose proof (rec_datetime_int x r Hne Hx Hr) as Hdt.
  destruct x as [|c x']; [congruence|].
  assert (Hc : 48 <= c <= 57).
  { cbn [forallb] in Hx. apply andb_true_iff in Hx as [Hc _]. apply is_digit_iff. exact Hc. }
  unfold next_token. at_rule 13%nat.
  - cbn [app] in *. intros kf Hin. cbn [In firstn rules] in Hin.
    do 12 (destruct Hin as [<- | Hin];
           [cbn [snd];
            first [ apply rec_keyword_none; lia | apply rec_function_none; lia | apply rec_hex_none; lia
                  | apply rec_dot_none; lia | apply rec_arrow_none; lia | apply rec_or_none; lia
                  | apply rec_and_none; lia | apply rec_operator_none; lia | apply rec_comment_none; lia
                  | apply rec_string_none; lia | apply rec_variable_none; lia | apply rec_parameter_none; lia ]
           |]).
    destruct Hin as [<- | []]. cbn [snd]. exact Hdt.
  - unfold rec_int. apply span1_stop; [discriminate|exact Hx|exact Hr'].
Qed.

(* ---- Ident ---- *)
Lemma nt_ident x r :
  match x with
  | c :: w => is_lower c && forallb is_word w && nx_not is_word (follow r)
              && forallb (fun lit => mismatch lit (x ++ nxl (follow r))) shadow_lits
  | [] => false
  end = true -> next_token (x ++ r) = Some (Tok KIdent x, r).
Proof.
  intros H. destruct x as [|c w]; [discriminate|].
  apply andb_true_iff in H as [H Hsh]. apply andb_true_iff in H as [H Hr]. apply andb_true_iff in H as [Hc Hw].
  assert (Hcl : 97 <= c <= 122) by (apply is_lower_iff; exact Hc).
  (* the input as (x ++ nxl) ++ r'' *)
  assert (Hsplit : exists r'', (c :: w) ++ r = ((c :: w) ++ nxl (follow r)) ++ r'').
  { destruct r as [|d r']; [exists []; cbn [follow nxl]; rewrite !app_nil_r; reflexivity|].
    exists r'. cbn [follow nxl]. rewrite <- app_assoc. reflexivity. }
  destruct Hsplit as [r'' Hsplit].
  unfold shadow_lits in Hsh. cbn [forallb] in Hsh.
  repeat match goal with Hx : (_ && _) = true |- _ => apply andb_true_iff in Hx; destruct Hx end.
  unfold next_token. at_rule 15%nat.
  - intros kf Hin. cbn [In firstn rules] in Hin.
    destruct Hin as [<- | Hin].
    { cbn [snd]. rewrite Hsplit. unfold rec_keyword, lits_keyword. apply mismatch_first_lit.
      cbn [forallb]. repeat (apply andb_true_iff; split); try assumption; reflexivity. }
    destruct Hin as [<- | Hin].
    { cbn [snd]. rewrite Hsplit. unfold rec_function, lits_function. apply mismatch_first_lit.
      cbn [forallb]. repeat (apply andb_true_iff; split); try assumption; reflexivity. }
    destruct Hin as [<- | Hin].
    { cbn [snd]. rewrite Hsplit. unfold rec_hex. rewrite mismatch_strip by assumption. reflexivity. }
    do 11 (destruct Hin as [<- | Hin];
           [cbn [snd];
            first [ apply rec_dot_none; lia | apply rec_arrow_none; lia | apply rec_or_none; lia
                  | apply rec_and_none; lia | apply rec_operator_none; lia | apply rec_comment_none; lia
                  | apply rec_string_none; lia | apply rec_variable_none; lia | apply rec_parameter_none; lia
                  | apply rec_datetime_none; apply is_digit_false; lia
                  | apply rec_int_none; apply is_digit_false; lia ]
           |]).
    destruct Hin as [<- | []]. cbn [snd].
    rewrite Hsplit. unfold rec_bool, lits_bool. apply mismatch_first_lit.
    cbn [forallb]. repeat (apply andb_true_iff; split); try assumption; reflexivity.
  - cbn [app]. unfold rec_ident. rewrite Hc. rewrite (span_stop is_word w r Hw Hr). reflexivity.
Qed.

(* ---- all kinds ---- *)
Lemma bytes_eqb_true a b : bytes_eqb a b = true -> a = b.
Proof. apply bytes_eqb_eq. Qed.

Theorem next_token_ok t r : tok_ok t (follow r) = true -> next_token (src t ++ r) = Some (t, r).
Proof.
  destruct t as [k x]. unfold tok_ok, src. cbn [tk tx].
  destruct k; cbn [kind_eqb kind_code N.eqb Pos.eqb]; cbv iota; intros H.
  - apply nt_keyword; exact H.
  - apply nt_function; exact H.
  - apply nt_hex; exact H.
  - apply bytes_eqb_true in H. subst x. apply nt_dot.
  - apply bytes_eqb_true in H. subst x. apply nt_arrow.
  - apply bytes_eqb_true in H. subst x. apply nt_or.
  - apply bytes_eqb_true in H. subst x. apply nt_and.
  - apply nt_operator; exact H.
  - apply nt_comment; exact H.
  - apply andb_true_iff in H as [H _]. apply nt_string; exact H.
  - apply nt_variable; exact H.
  - apply nt_parameter; exact H.
  - apply nt_datetime; exact H.
  - apply nt_int; exact H.
  - apply nt_bool; exact H.
  - apply nt_ident; exact H.
  - discriminate.
  - discriminate.
  - apply nt_punct; exact H.
Qed.

Lemma tok_ok_src_nonempty t nx : tok_ok t nx = true -> src t <> [].
Proof.
  destruct t as [k x]. unfold tok_ok, src. cbn [tk tx].
  destruct k; cbn [kind_eqb kind_code N.eqb Pos.eqb]; cbv iota; intros H; try discriminate;
    try (destruct x; [discriminate H|discriminate]).
Qed.

(* ---- layouts ---- *)
Definition ws_ok (ws : bytes) : bool := is_nil ws || bytes_eqb ws [32] || bytes_eqb ws [10].
Fixpoint flat (l : list (token * bytes)) : bytes :=
  match l with [] => [] | (t, ws) :: l' => src t ++ ws ++ flat l' end.
Definition hd_nonws (s : bytes) : bool :=
  match s with c :: _ => negb (is_blank c || is_eol c) | [] => true end.

(* the side conditions of the lexer round trip, as a boolean: each token is in its
   rule's language and not shadowed by an earlier rule, it is followed by nothing, one
   space or one newline, and what follows does not extend it *)
Fixpoint lexable (l : list (token * bytes)) : bool :=
  match l with
  | [] => true
  | (t, ws) :: l' =>
      ws_ok ws && tok_ok t (follow (ws ++ flat l')) && hd_nonws (flat l')
      && forallb in_domain (src t) && lexable l'
  end.

Lemma nt_space s : hd_nonws s = true -> next_token (32 :: s) = Some (Tok KWhitespace [32], s).
Proof.
  intros H. unfold next_token. at_rule 16%nat.
  - earlier_none.
  - unfold rec_whitespace, span1. cbn [span]. change (is_blank 32) with true. cbv iota.
    destruct s as [|c s']; [reflexivity|]. cbn in H. apply negb_true_iff, orb_false_iff in H as [H1 _].
    cbn [span]. rewrite H1. reflexivity.
Qed.
Lemma nt_newline s : hd_nonws s = true -> next_token (10 :: s) = Some (Tok KEOL [10], s).
Proof.
  intros H. unfold next_token. at_rule 17%nat.
  - earlier_none.
  - unfold rec_eol, span1. cbn [span]. change (is_eol 10) with true. cbv iota.
    destruct s as [|c s']; [reflexivity|]. cbn in H. apply negb_true_iff, orb_false_iff in H as [_ H2].
    cbn [span]. rewrite H2. reflexivity.
Qed.

Lemma tok_ok_not_elided t nx : tok_ok t nx = true -> elided (tk t) = false.
Proof. destruct t as [k x]. destruct k; try reflexivity; discriminate. Qed.
Lemma tok_ok_no_backslash t nx :
  tok_ok t nx = true -> kind_eqb (tk t) KString && has_backslash (tx t) = false.
Proof.
  destruct t as [k x]. destruct k; try reflexivity. unfold tok_ok. cbn [tk tx]. intros H.
  apply andb_true_iff in H as [_ H]. apply negb_true_iff in H. cbn. exact H.
Qed.

(* concrete syntax as a list of items: tokens and single layout bytes *)
Inductive item := IT (t : token) | IW (c : N).

Fixpoint flat_i (l : list item) : bytes :=
  match l with
  | [] => []
  | IT t :: l' => src t ++ flat_i l'
  | IW c :: l' => c :: flat_i l'
  end.
Fixpoint toks_i (l : list item) : list token :=
  match l with
  | [] => []
  | IT t :: l' => t :: toks_i l'
  | IW _ :: l' => toks_i l'
  end.
Fixpoint lexable_i (l : list item) : bool :=
  match l with
  | [] => true
  | IT t :: l' => tok_ok t (follow (flat_i l')) && forallb in_domain (src t) && lexable_i l'
  | IW c :: l' => ((c =? 32) || (c =? 10)) && hd_nonws (flat_i l') && lexable_i l'
  end.

Definition first_byte (x : item) : option N :=
  match x with
  | IW c => Some c
  | IT t => match src t with c :: _ => Some c | [] => None end
  end.
Definition nonws_nx (nx : option N) : bool :=
  match nx with None => true | Some d => negb (is_blank d || is_eol d) end.

(* a lexable token starts with a non-blank byte *)
Lemma tok_ok_first t nx : tok_ok t nx = true -> nonws_nx (first_byte (IT t)) = true.
Proof.
  destruct t as [k x]. unfold tok_ok, first_byte, src. cbn [tk tx].
  destruct k; cbn [kind_eqb kind_code N.eqb Pos.eqb]; cbv iota; intros H; try discriminate.
  - apply mem_cases in H. cbn in H. destruct H as [<-|[<-|[<-|[]]]]; reflexivity.
  - apply mem_cases in H. cbn in H. destruct H as [<-|[<-|[<-|[<-|[<-|[]]]]]]; reflexivity.
  - destruct (strip lit_hex x) as [h|] eqn:E; [|discriminate]. apply strip_inv in E. subst x. reflexivity.
  - apply bytes_eqb_true in H. subst x. reflexivity.
  - apply bytes_eqb_true in H. subst x. reflexivity.
  - apply bytes_eqb_true in H. subst x. reflexivity.
  - apply bytes_eqb_true in H. subst x. reflexivity.
  - apply orb_true_iff in H as [H|H]; [apply orb_true_iff in H as [H|H]|].
    + apply mem_cases in H. cbn in H. destruct H as [<-|[<-|[<-|[<-|[<-|[<-|[]]]]]]]; reflexivity.
    + apply andb_true_iff in H as [H _]. apply bytes_eqb_true in H. subst x. reflexivity.
    + apply andb_true_iff in H as [H _]. apply bytes_eqb_true in H. subst x. reflexivity.
  - destruct x as [|a [|b body]]; try discriminate.
    repeat match goal with Hx : (_ && _) = true |- _ => apply andb_true_iff in Hx; destruct Hx end.
    match goal with Ha : (a =? 47) = true |- _ => apply N.eqb_eq in Ha; subst a end. reflexivity.
  - reflexivity.
  - destruct x as [|d w]; [discriminate|].
    repeat match goal with Hx : (_ && _) = true |- _ => apply andb_true_iff in Hx; destruct Hx end.
    match goal with Ha : (d =? 36) = true |- _ => apply N.eqb_eq in Ha; subst d end. reflexivity.
  - destruct x as [|o w]; [discriminate|]. apply andb_true_iff in H as [Ho _].
    apply N.eqb_eq in Ho. subst o. reflexivity.
  - do 20 (destruct x as [|? x]; [discriminate|]). cbn [dt_shape] in H. destruct x; [|discriminate].
    repeat match goal with Hx : (_ && _) = true |- _ => apply andb_true_iff in Hx; destruct Hx end.
    match goal with Hd : is_digit ?c = true |- nonws_nx (Some ?c) = true =>
      apply is_digit_iff in Hd; cbn [nonws_nx]; apply negb_true_iff, orb_false_iff; split;
      [apply is_blank_false|apply is_eol_false]; lia end.
  - destruct x as [|c w]; [discriminate|].
    repeat match goal with Hx : (_ && _) = true |- _ => apply andb_true_iff in Hx; destruct Hx end.
    match goal with Hx : forallb is_digit (c :: w) = true |- _ =>
      cbn [forallb] in Hx; apply andb_true_iff in Hx; destruct Hx as [Hd _] end.
    apply is_digit_iff in Hd. cbn [nonws_nx]. apply negb_true_iff, orb_false_iff; split;
      [apply is_blank_false|apply is_eol_false]; lia.
  - apply mem_cases in H. cbn in H. destruct H as [<-|[<-|[]]]; reflexivity.
  - destruct x as [|c w]; [discriminate|].
    repeat match goal with Hx : (_ && _) = true |- _ => apply andb_true_iff in Hx; destruct Hx end.
    match goal with Hl : is_lower c = true |- _ => apply is_lower_iff in Hl end.
    cbn [nonws_nx]. apply negb_true_iff, orb_false_iff; split; [apply is_blank_false|apply is_eol_false]; lia.
  - apply orb_true_iff in H as [H|H].
    + apply mem_cases in H. cbn in H. destruct H as [<-|[<-|[<-|[<-|[<-|[<-|[<-|[]]]]]]]]; reflexivity.
    + apply andb_true_iff in H as [H _]. apply bytes_eqb_true in H. subst x. reflexivity.
Qed.

(* ================================================================== *)
(* arbitrary layout                                                     *)
(* ================================================================== *)
(* a layout byte: space, tab, \n, \r — the bytes of the elided Whitespace / EOL tokens *)
Definition is_layout (c : N) : bool := is_blank c || is_eol c.

Lemma is_layout_cases c : is_layout c = true -> c = 32 \/ c = 9 \/ c = 10 \/ c = 13.
Proof.
  unfold is_layout, is_blank, is_eol. intros H.
  repeat (apply orb_true_iff in H; destruct H as [H|H]); apply N.eqb_eq in H; auto.
Qed.
Lemma is_layout_domain c : is_layout c = true -> in_domain c = true.
Proof. intros H. destruct (is_layout_cases c H) as [->|[->|[->| ->]]]; reflexivity. Qed.
Lemma layout_domain ws : forallb is_layout ws = true -> forallb in_domain ws = true.
Proof.
  induction ws as [|c ws IH]; [reflexivity|]. cbn [forallb]. intros H. apply andb_true_iff in H as [Hc Hws].
  rewrite (is_layout_domain c Hc), (IH Hws). reflexivity.
Qed.

(* [span] over an append whose second part does not continue the run *)
Lemma span_app p : forall ws s, nx_not p (follow s) = true ->
  span p (ws ++ s) = (fst (span p ws), snd (span p ws) ++ s).
Proof.
  intros ws s Hs. induction ws as [|a ws IH].
  - cbn [app span fst snd]. destruct s as [|c s']; [reflexivity|]. cbn in Hs. apply negb_true_iff in Hs.
    cbn [span]. rewrite Hs. reflexivity.
  - cbn [app span]. destruct (p a); [|reflexivity]. rewrite IH. destruct (span p ws) as [m r]. reflexivity.
Qed.
Lemma span_snd_len p : forall ws, (List.length (snd (span p ws)) <= List.length ws)%nat.
Proof.
  induction ws as [|a ws IH]; [apply le_n|]. cbn [span]. destruct (p a); [|apply le_n].
  destruct (span p ws) as [m r]. cbn [snd List.length] in *. lia.
Qed.
Lemma span_snd_forallb q p : forall ws, forallb q ws = true -> forallb q (snd (span p ws)) = true.
Proof.
  induction ws as [|a ws IH]; [reflexivity|]. intros H. cbn [span]. destruct (p a); [|exact H].
  cbn [forallb] in H. apply andb_true_iff in H as [_ H]. specialize (IH H).
  destruct (span p ws) as [m r]. exact IH.
Qed.

(* a run of blanks is one Whitespace token, a run of \n \r one EOL token *)
Lemma nt_blank c s : is_blank c = true ->
  next_token (c :: s) = Some (Tok KWhitespace (c :: fst (span is_blank s)), snd (span is_blank s)).
Proof.
  intros H. unfold is_blank in H. apply orb_true_iff in H as [H|H]; apply N.eqb_eq in H; subst c.
  - unfold next_token. at_rule 16%nat.
    + earlier_none.
    + unfold rec_whitespace, span1. cbn [span]. change (is_blank 32) with true. cbv iota.
      destruct (span is_blank s) as [m r]. reflexivity.
  - unfold next_token. at_rule 16%nat.
    + earlier_none.
    + unfold rec_whitespace, span1. cbn [span]. change (is_blank 9) with true. cbv iota.
      destruct (span is_blank s) as [m r]. reflexivity.
Qed.
Lemma nt_eol_run c s : is_eol c = true ->
  next_token (c :: s) = Some (Tok KEOL (c :: fst (span is_eol s)), snd (span is_eol s)).
Proof.
  intros H. unfold is_eol in H. apply orb_true_iff in H as [H|H]; apply N.eqb_eq in H; subst c.
  - unfold next_token. at_rule 17%nat.
    + earlier_none.
    + unfold rec_eol, span1. cbn [span]. change (is_eol 10) with true. cbv iota.
      destruct (span is_eol s) as [m r]. reflexivity.
  - unfold next_token. at_rule 17%nat.
    + earlier_none.
    + unfold rec_eol, span1. cbn [span]. change (is_eol 13) with true. cbv iota.
      destruct (span is_eol s) as [m r]. reflexivity.
Qed.

Lemma hd_nonws_split s : hd_nonws s = true ->
  nx_not is_blank (follow s) = true /\ nx_not is_eol (follow s) = true.
Proof.
  destruct s as [|c s']; [split; reflexivity|]. cbn [hd_nonws follow nx_not]. intros H.
  apply negb_true_iff, orb_false_iff in H as [H1 H2]. rewrite H1, H2. split; reflexivity.
Qed.

(* the lexer skips any run of layout bytes in front of a text that does not start with one *)
Lemma lex_loop_layout : forall n ws s X,
  (List.length ws <= n)%nat -> forallb is_layout ws = true -> hd_nonws s = true ->
  (forall f, (List.length s <= f)%nat -> lex_loop f s = X) ->
  forall fuel, (List.length (ws ++ s) <= fuel)%nat -> lex_loop fuel (ws ++ s) = X.
Proof.
  induction n as [|n IH]; intros ws s X Hn Hws Hs HX fuel Hf.
  - destruct ws as [|c ws]; [|cbn in Hn; lia]. apply HX. exact Hf.
  - destruct ws as [|c ws]; [apply HX; exact Hf|].
    cbn [forallb] in Hws. apply andb_true_iff in Hws as [Hc Hws].
    cbn [List.length] in Hn. cbn [app List.length] in Hf. destruct fuel as [|f]; [lia|].
    destruct (hd_nonws_split s Hs) as [Hsb Hse].
    cbn [app lex_loop]. unfold is_layout in Hc. apply orb_true_iff in Hc as [Hc|Hc].
    + rewrite (nt_blank c (ws ++ s) Hc). cbn [elided tk].
      rewrite (span_app is_blank ws s Hsb). cbn [snd].
      pose proof (span_snd_len is_blank ws) as Hlen.
      apply IH; [lia|apply span_snd_forallb; exact Hws|exact Hs|exact HX|].
      rewrite app_length in *. lia.
    + rewrite (nt_eol_run c (ws ++ s) Hc). cbn [elided tk].
      rewrite (span_app is_eol ws s Hse). cbn [snd].
      pose proof (span_snd_len is_eol ws) as Hlen.
      apply IH; [lia|apply span_snd_forallb; exact Hws|exact Hs|exact HX|].
      rewrite app_length in *. lia.
Qed.

Lemma tok_ok_hd_nonws t nx r : tok_ok t nx = true -> hd_nonws (src t ++ r) = true.
Proof.
  intros H. pose proof (tok_ok_first t nx H) as Hf. pose proof (tok_ok_src_nonempty t nx H) as Hne.
  unfold first_byte in Hf. destruct (src t) as [|c x]; [congruence|]. exact Hf.
Qed.

(* items with ANY layout byte, any number of them anywhere: the only side conditions are
   the per-token ones ([tok_ok] against the byte that follows the token in the text) *)
Fixpoint lexable_i_any (l : list item) : bool :=
  match l with
  | [] => true
  | IT t :: l' => tok_ok t (follow (flat_i l')) && forallb in_domain (src t) && lexable_i_any l'
  | IW c :: l' => is_layout c && lexable_i_any l'
  end.

Lemma lex_loop_nil f : lex_loop f [] = Ok [].
Proof. destruct f; reflexivity. Qed.

Lemma lex_loop_items_any : forall l ws fuel,
  lexable_i_any l = true -> forallb is_layout ws = true ->
  (List.length (ws ++ flat_i l) <= fuel)%nat -> lex_loop fuel (ws ++ flat_i l) = Ok (toks_i l).
Proof.
  induction l as [|[t|c] l IH]; intros ws fuel Hl Hws Hf.
  - cbn [flat_i toks_i] in *.
    apply (lex_loop_layout (List.length ws) ws [] (Ok [])); [apply le_n|exact Hws|reflexivity| |exact Hf].
    intros f _. apply lex_loop_nil.
  - cbn [lexable_i_any] in Hl. apply andb_true_iff in Hl as [Hl Hrest]. apply andb_true_iff in Hl as [Htok Hdom].
    cbn [flat_i toks_i] in *.
    apply (lex_loop_layout (List.length ws) ws (src t ++ flat_i l) (Ok (t :: toks_i l)));
      [apply le_n|exact Hws|apply (tok_ok_hd_nonws t _ _ Htok)| |exact Hf].
    intros f Hlen.
    pose proof (next_token_ok t (flat_i l) Htok) as Hnt.
    pose proof (tok_ok_src_nonempty t _ Htok) as Hne.
    rewrite app_length in Hlen.
    destruct (src t ++ flat_i l) as [|c s] eqn:E.
    { destruct (src t); [congruence|discriminate]. }
    destruct f as [|f]; [destruct (src t); [congruence|cbn in Hlen; lia]|].
    cbn [lex_loop]. rewrite Hnt, (tok_ok_not_elided t _ Htok), (tok_ok_no_backslash t _ Htok).
    pose proof (IH [] f Hrest eq_refl) as Hrec. cbn [app] in Hrec.
    rewrite Hrec; [reflexivity|].
    destruct (src t); [congruence|]. cbn [List.length] in Hlen. lia.
  - cbn [lexable_i_any] in Hl. apply andb_true_iff in Hl as [Hc Hrest].
    cbn [flat_i toks_i] in *.
    replace (ws ++ c :: flat_i l) with ((ws ++ [c]) ++ flat_i l) in * by (rewrite <- app_assoc; reflexivity).
    apply IH; [exact Hrest| |exact Hf].
    rewrite forallb_app, Hws. cbn [forallb]. rewrite Hc. reflexivity.
Qed.

Lemma lexable_i_any_domain l : lexable_i_any l = true -> forallb in_domain (flat_i l) = true.
Proof.
  induction l as [|[t|c] l IH]; intros Hl; [reflexivity| |]; cbn [lexable_i_any] in Hl.
  - apply andb_true_iff in Hl as [Hl Hrest]. apply andb_true_iff in Hl as [Htok Hdom].
    cbn [flat_i]. rewrite forallb_app, Hdom, (IH Hrest). reflexivity.
  - apply andb_true_iff in Hl as [Hc Hrest].
    cbn [flat_i forallb]. rewrite (IH Hrest), (is_layout_domain c Hc). reflexivity.
Qed.

(* C14/C15, lexer level, arbitrary layout *)
Theorem lex_items_any : forall l, lexable_i_any l = true -> lex (flat_i l) = Ok (toks_i l).
Proof.
  intros l Hl. unfold lex. rewrite (lexable_i_any_domain l Hl).
  apply (lex_loop_items_any l [] _ Hl eq_refl). apply le_n.
Qed.

(* the {nothing, one space, one newline} layouts are a special case *)
Lemma lexable_i_any_of l : lexable_i l = true -> lexable_i_any l = true.
Proof.
  induction l as [|[t|c] l IH]; intros Hl; [reflexivity| |]; cbn [lexable_i lexable_i_any] in *.
  - apply andb_true_iff in Hl as [Hl Hrest]. rewrite Hl, (IH Hrest). reflexivity.
  - apply andb_true_iff in Hl as [Hl Hrest]. apply andb_true_iff in Hl as [Hc _]. rewrite (IH Hrest), andb_true_r.
    apply orb_true_iff in Hc as [Hc|Hc]; apply N.eqb_eq in Hc; subst c; reflexivity.
Qed.

(* ---- the same with gaps: a leading gap and one gap after each token ---- *)
Fixpoint lexable_any (l : list (token * bytes)) : bool :=
  match l with
  | [] => true
  | (t, ws) :: l' =>
      forallb is_layout ws && tok_ok t (follow (ws ++ flat l'))
      && forallb in_domain (src t) && lexable_any l'
  end.
Definition render_any (pre : bytes) (l : list (token * bytes)) : bytes := pre ++ flat l.

Fixpoint items_of (l : list (token * bytes)) : list item :=
  match l with [] => [] | (t, ws) :: l' => IT t :: List.map IW ws ++ items_of l' end.

Lemma flat_i_ws ws r : flat_i (List.map IW ws ++ r) = ws ++ flat_i r.
Proof. induction ws as [|c ws IH]; [reflexivity|]. cbn [List.map app flat_i]. rewrite IH. reflexivity. Qed.
Lemma toks_i_ws ws r : toks_i (List.map IW ws ++ r) = toks_i r.
Proof. induction ws as [|c ws IH]; [reflexivity|]. cbn [List.map app toks_i]. exact IH. Qed.
Lemma lexable_i_any_ws ws r : lexable_i_any (List.map IW ws ++ r) = forallb is_layout ws && lexable_i_any r.
Proof.
  induction ws as [|c ws IH]; [reflexivity|]. cbn [List.map app lexable_i_any forallb]. rewrite IH, andb_assoc. reflexivity.
Qed.
Lemma flat_items_of l : flat_i (items_of l) = flat l.
Proof. induction l as [|[t ws] l IH]; [reflexivity|]. cbn [items_of flat_i flat]. rewrite flat_i_ws, IH. reflexivity. Qed.
Lemma toks_items_of l : toks_i (items_of l) = List.map fst l.
Proof. induction l as [|[t ws] l IH]; [reflexivity|]. cbn [items_of toks_i List.map fst]. rewrite toks_i_ws, IH. reflexivity. Qed.
Lemma lexable_items_of l : lexable_any l = true -> lexable_i_any (items_of l) = true.
Proof.
  induction l as [|[t ws] l IH]; intros Hl; [reflexivity|]. cbn [lexable_any] in Hl.
  apply andb_true_iff in Hl as [Hl Hrest]. apply andb_true_iff in Hl as [Hl Hdom]. apply andb_true_iff in Hl as [Hws Htok].
  cbn [items_of lexable_i_any]. rewrite flat_i_ws, flat_items_of, Htok, Hdom, lexable_i_any_ws, Hws, (IH Hrest). reflexivity.
Qed.

Theorem lex_render_any : forall pre l,
  forallb is_layout pre = true -> lexable_any l = true -> lex (render_any pre l) = Ok (List.map fst l).
Proof.
  intros pre l Hpre Hl. unfold render_any.
  rewrite <- (flat_items_of l), <- flat_i_ws, <- (toks_items_of l), <- (toks_i_ws pre).
  apply lex_items_any. rewrite lexable_i_any_ws, Hpre. apply lexable_items_of. exact Hl.
Qed.

Lemma lexable_any_of l : lexable l = true -> lexable_any l = true.
Proof.
  induction l as [|[t ws] l IH]; intros Hl; [reflexivity|]. cbn [lexable lexable_any] in *.
  apply andb_true_iff in Hl as [Hl Hrest]. apply andb_true_iff in Hl as [Hl Hdom].
  apply andb_true_iff in Hl as [Hl _]. apply andb_true_iff in Hl as [Hws Htok].
  rewrite Htok, Hdom, (IH Hrest), !andb_true_r.
  unfold ws_ok in Hws. apply orb_true_iff in Hws as [Hws|Hws]; [apply orb_true_iff in Hws as [Hws|Hws]|].
  - destruct ws; [reflexivity|discriminate].
  - apply bytes_eqb_true in Hws. subst ws. reflexivity.
  - apply bytes_eqb_true in Hws. subst ws. reflexivity.
Qed.

(* a gap that is not empty constrains the token before it only in one case: a Comment
   token ("//[^\n]*" swallows everything up to the next \n) must be followed by \n.  A token
   that is fine at the end of the text is fine before any layout byte. *)
Lemma mismatch_app lit : forall x y, mismatch lit x = true -> mismatch lit (x ++ y) = true.
Proof.
  induction lit as [|a lit IH]; intros x y H; [destruct x; discriminate|].
  destruct x as [|b x]; [discriminate|]. cbn [app mismatch] in *. destruct (N.eqb a b); [apply IH; exact H|reflexivity].
Qed.
Lemma layout_not c : is_layout c = true ->
  is_hexdigit c = false /\ is_word c = false /\ is_digit c = false /\ (c =? 61) = false /\ (c =? 45) = false /\ (c =? 47) = false.
Proof. intros H. destruct (is_layout_cases c H) as [->|[->|[->| ->]]]; repeat split; reflexivity. Qed.

Theorem tok_ok_before_layout t c :
  is_layout c = true -> tok_ok t None = true -> (tk t = KComment -> c = 10) -> tok_ok t (Some c) = true.
Proof.
  intros Hc H Hcm. destruct (layout_not c Hc) as (Hh & Hw & Hd & H61 & H45 & H47).
  destruct t as [k x]. unfold tok_ok in *. cbn [tk tx] in *.
  destruct k; try exact H.
  - destruct (strip lit_hex x); [|discriminate]. cbn [nx_not] in *. rewrite Hh. exact H.
  - cbn [nx_not] in *. rewrite H61, H45. exact H.
  - rewrite (Hcm eq_refl). destruct x as [|a [|b body]]; try discriminate. rewrite N.eqb_refl. exact H.
  - destruct x as [|d w]; [discriminate|]. cbn [nx_not] in *. rewrite Hw. exact H.
  - cbn [nx_not] in *. rewrite Hd, H45. exact H.
  - destruct x as [|a w]; [discriminate|]. cbn [nx_not nxl] in *. rewrite Hw.
    apply andb_true_iff in H as [H Hsh]. apply andb_true_iff in H as [H _]. rewrite H. cbn [andb negb].
    rewrite forallb_forall in *. intros lit Hin. specialize (Hsh lit Hin). rewrite app_nil_r in Hsh.
    apply mismatch_app. exact Hsh.
  - cbn [nx_not] in *. rewrite H47. exact H.
Qed.

(* C14, lexer level: a lexable layout of a token list lexes back to the token list
   (nothing, one space or one newline between two tokens: a special case of [lex_render_any]) *)
Theorem lex_render : forall l, lexable l = true -> lex (flat l) = Ok (List.map fst l).
Proof. intros l Hl. exact (lex_render_any [] l eq_refl (lexable_any_of l Hl)). Qed.

(* the same for items (single spaces and newlines, never two in a row: a special case of
   [lex_items_any]) *)
Theorem lex_items : forall l, lexable_i l = true -> lex (flat_i l) = Ok (toks_i l).
Proof. intros l Hl. exact (lex_items_any l (lexable_i_any_of l Hl)). Qed.


(* ================================================================== *)
(* the fuel of [fuel_for] is enough: need <= 16 * tokens               *)
(* ================================================================== *)
Notation len := List.length.

Lemma term_size_all :
  (forall t, (forall k, len (up_term t k) = (len (up_term t []) + len k)%nat) /\
             (need_term t + 15 <= 16 * len (up_term t []))%nat) /\
  (forall xs, (forall k, len (up_commas xs k) = (len (up_commas xs []) + len k)%nat) /\
              (need_terms xs <= 16 * len (up_commas xs []) + 1)%nat).
Proof.
  apply gterm_mutind; try (intros; split; [intros k; reflexivity|cbn; lia]).
  - (* GInt: one or two tokens *) intros z. cbn [up_term need_term].
    destruct (z <? 0)%Z; (split; [intros k; reflexivity|cbn; lia]).
  - intros x [IHx1 IHx2] xs [IHxs1 IHxs2]. split.
    + intros k. cbn [up_term len]. rewrite IHx1, IHxs1, (IHx1 (up_commas _ _)), (IHxs1 [_]). cbn [len]. lia.
    + cbn [up_term need_term len]. rewrite IHx1, IHxs1. cbn [len]. lia.
  - intros y [IHy1 IHy2] ys [IHys1 IHys2]. split.
    + intros k. cbn [up_commas len]. rewrite IHy1, IHys1, (IHy1 (up_commas _ _)). lia.
    + cbn [up_commas need_terms len]. rewrite IHy1. lia.
Qed.

Lemma pred_size p :
  (forall k, len (up_pred p k) = (len (up_pred p []) + len k)%nat) /\
  (need_pred p <= 16 * len (up_pred p []))%nat.
Proof.
  destruct p as [name ids]. unfold up_pred, need_pred. cbn [pr_name pr_ids].
  destruct ids as [|x xs]; cbn [up_ids].
  - split; [intros k; reflexivity|cbn; lia].
  - destruct (proj1 term_size_all x) as [Hx1 Hx2]. destruct (proj2 term_size_all xs) as [Hxs1 Hxs2]. split.
    + intros k. cbn [len]. rewrite Hx1, Hxs1, (Hx1 (up_commas _ _)), (Hxs1 [_]). cbn [len]. lia.
    + cbn [len]. rewrite Hx1, Hxs1. cbn [len]. lia.
Qed.

Lemma expr_size_all :
  (forall e, (forall k, len (up_expression e k) = (len (up_expression e []) + len k)%nat) /\
             (need_expression e + 1 <= 16 * len (up_expression e []))%nat) /\
  (forall r, (forall k, len (up_o1 r k) = (len (up_o1 r []) + len k)%nat) /\
             (need_o1 r <= 16 * len (up_o1 r []) + 1)%nat) /\
  (forall e, (forall k, len (up_e1 e k) = (len (up_e1 e []) + len k)%nat) /\
             (need_e1 e + 3 <= 16 * len (up_e1 e []))%nat) /\
  (forall r, (forall k, len (up_o2 r k) = (len (up_o2 r []) + len k)%nat) /\
             (need_o2 r <= 16 * len (up_o2 r []) + 1)%nat) /\
  (forall e, (forall k, len (up_e2 e k) = (len (up_e2 e []) + len k)%nat) /\
             (need_e2 e + 5 <= 16 * len (up_e2 e []))%nat) /\
  (forall r, (forall k, len (up_o3 r k) = (len (up_o3 r []) + len k)%nat) /\
             (need_o3 r <= 16 * len (up_o3 r []))%nat) /\
  (forall e, (forall k, len (up_e3 e k) = (len (up_e3 e []) + len k)%nat) /\
             (need_e3 e + 6 <= 16 * len (up_e3 e []))%nat) /\
  (forall r, (forall k, len (up_o4 r k) = (len (up_o4 r []) + len k)%nat) /\
             (need_o4 r <= 16 * len (up_o4 r []) + 1)%nat) /\
  (forall e, (forall k, len (up_e4 e k) = (len (up_e4 e []) + len k)%nat) /\
             (need_e4 e + 8 <= 16 * len (up_e4 e []))%nat) /\
  (forall r, (forall k, len (up_o5 r k) = (len (up_o5 r []) + len k)%nat) /\
             (need_o5 r <= 16 * len (up_o5 r []) + 1)%nat) /\
  (forall e, (forall k, len (up_e5 e k) = (len (up_e5 e []) + len k)%nat) /\
             (need_e5 e + 10 <= 16 * len (up_e5 e []))%nat) /\
  (forall e, (forall k, len (up_e6 e k) = (len (up_e6 e []) + len k)%nat) /\
             (need_e6 e + 11 <= 16 * len (up_e6 e []))%nat) /\
  (forall r, (forall k, len (up_o7 r k) = (len (up_o7 r []) + len k)%nat) /\
             (need_o7 r <= 16 * len (up_o7 r []) + 1)%nat) /\
  (forall a, (forall k, len (up_oe a k) = (len (up_oe a []) + len k)%nat) /\
             (need_oe a <= 16 * len (up_oe a []) + 9)%nat) /\
  (forall t, (forall k, len (up_et t k) = (len (up_et t []) + len k)%nat) /\
             (need_et t + 13 <= 16 * len (up_et t []))%nat).
Proof.
  apply expr_mutind.
  - intros l [L1 L2] r [R1 R2]. split.
    + intros k. cbn [up_expression]. rewrite L1, R1, (L1 (up_o1 _ _)). lia.
    + cbn [up_expression need_expression]. rewrite L1. lia.
  - split; [intros k; reflexivity|cbn; lia].
  - intros e [E1 E2] r [R1 R2]. split.
    + intros k. cbn [up_o1 len]. rewrite E1, R1, (E1 (up_o1 _ _)). lia.
    + cbn [up_o1 need_o1 len]. rewrite E1. lia.
  - intros l [L1 L2] r [R1 R2]. split.
    + intros k. cbn [up_e1]. rewrite L1, R1, (L1 (up_o2 _ _)). lia.
    + cbn [up_e1 need_e1]. rewrite L1. lia.
  - split; [intros k; reflexivity|cbn; lia].
  - intros e [E1 E2] r [R1 R2]. split.
    + intros k. cbn [up_o2 len]. rewrite E1, R1, (E1 (up_o2 _ _)). lia.
    + cbn [up_o2 need_o2 len]. rewrite E1. lia.
  - intros l [L1 L2] r [R1 R2]. split.
    + intros k. cbn [up_e2]. rewrite L1, R1, (L1 (up_o3 _ _)). lia.
    + cbn [up_e2 need_e2]. rewrite L1. lia.
  - split; [intros k; reflexivity|cbn; lia].
  - intros o e [E1 E2]. split.
    + intros k. cbn [up_o3 len]. rewrite E1. lia.
    + cbn [up_o3 need_o3 len]. lia.
  - intros l [L1 L2] r [R1 R2]. split.
    + intros k. cbn [up_e3]. rewrite L1, R1, (L1 (up_o4 _ _)). lia.
    + cbn [up_e3 need_e3]. rewrite L1. lia.
  - split; [intros k; reflexivity|cbn; lia].
  - intros o e [E1 E2] r [R1 R2]. split.
    + intros k. cbn [up_o4 len]. rewrite E1, R1, (E1 (up_o4 _ _)). lia.
    + cbn [up_o4 need_o4 len]. rewrite E1. lia.
  - intros l [L1 L2] r [R1 R2]. split.
    + intros k. cbn [up_e4]. rewrite L1, R1, (L1 (up_o5 _ _)). lia.
    + cbn [up_e4 need_e4]. rewrite L1. lia.
  - split; [intros k; reflexivity|cbn; lia].
  - intros o e [E1 E2] r [R1 R2]. split.
    + intros k. cbn [up_o5 len]. rewrite E1, R1, (E1 (up_o5 _ _)). lia.
    + cbn [up_o5 need_o5 len]. rewrite E1. lia.
  - intros neg e [E1 E2]. split.
    + intros k. cbn [up_e5]. destruct neg; cbn [len]; rewrite E1; lia.
    + cbn [up_e5 need_e5]. destruct neg; cbn [len]; lia.
  - intros l [L1 L2] r [R1 R2]. split.
    + intros k. cbn [up_e6]. rewrite L1, R1, (L1 (up_o7 _ _)). lia.
    + cbn [up_e6 need_e6]. rewrite L1. lia.
  - split; [intros k; reflexivity|cbn; lia].
  - intros m a [A1 A2] r [R1 R2]. split.
    + intros k. cbn [up_o7 len]. rewrite A1, (A1 (_ :: up_o7 _ [])). cbn [len]. rewrite R1. lia.
    + cbn [up_o7 need_o7 len]. rewrite A1. cbn [len]. lia.
  - split; [intros k; reflexivity|cbn; lia].
  - intros e [E1 E2]. split; [intros k; cbn [up_oe]; apply E1|cbn [up_oe need_oe]; lia].
  - intros t. destruct (proj1 term_size_all t) as [T1 T2]. split.
    + intros k. cbn [up_et]. apply T1.
    + cbn [up_et need_et]. lia.
  - intros a [A1 A2]. split.
    + intros k. cbn [up_et len]. rewrite A1, (A1 [_]). cbn [len]. lia.
    + cbn [up_et need_et len]. rewrite A1. cbn [len]. lia.
Qed.

(* ---------- additivity of the token counts ---------- *)
Definition additive {A} (up : A -> list token -> list token) : Prop :=
  forall x k, len (up x k) = (len (up x []) + len k)%nat.

Lemma up_term_add : additive up_term. Proof. intros x k. apply (proj1 term_size_all x). Qed.
Lemma up_pred_add : additive up_pred. Proof. intros x k. apply (pred_size x). Qed.
Lemma up_expression_add : additive up_expression. Proof. intros x k. apply (proj1 expr_size_all x). Qed.
Lemma up_re_add : additive up_re.
Proof. intros [p|e] k; cbn [up_re]; [apply up_pred_add|apply up_expression_add]. Qed.

Lemma up_sep_add {A} (up : A -> list token -> list token) sep : additive up -> additive (up_sep up sep).
Proof.
  intros H xs k. unfold additive in H. induction xs as [|x xs IH]; [reflexivity|].
  cbn [up_sep len]. rewrite H, IH, (H x (up_sep up sep xs [])). lia.
Qed.
Lemma up_sep_elem {A} (up : A -> list token -> list token) sep xs x :
  additive up -> In x xs -> (len (up x []) < len (up_sep up sep xs []))%nat.
Proof.
  intros H. unfold additive in H. induction xs as [|y xs IH]; intros Hin; [contradiction|].
  cbn [up_sep len]. rewrite (H y (up_sep up sep xs [])). destruct Hin as [->|Hin]; [lia|]. specialize (IH Hin). lia.
Qed.
Lemma up_sep_count {A} (up : A -> list token -> list token) sep xs :
  additive up -> (len xs <= len (up_sep up sep xs []))%nat.
Proof.
  intros H. unfold additive in H. induction xs as [|y xs IH]; [cbn; lia|]. cbn [up_sep len]. rewrite (H y (up_sep up sep xs [])). lia.
Qed.

Lemma up_cq_add : additive up_cq.
Proof.
  intros q k. unfold up_cq. rewrite up_re_add, (up_sep_add up_re t_comma up_re_add), (up_re_add _ (up_sep _ _ _ [])). lia.
Qed.
Lemma up_queries_add kw q : additive (up_queries kw q).
Proof.
  intros qs k. unfold up_queries. cbn [len].
  rewrite up_cq_add, (up_sep_add up_cq t_or up_cq_add), (up_cq_add _ (up_sep _ _ _ [])). lia.
Qed.
Lemma up_check_add : additive up_check.
Proof. intros c k. apply up_queries_add. Qed.
Lemma up_policy_add : additive up_policy.
Proof. intros [q qs|q qs] k; apply up_queries_add. Qed.
Lemma up_be_add : additive up_be.
Proof.
  intros [c|p [[x xs]|]] k; cbn [up_be].
  - apply up_check_add.
  - rewrite up_pred_add, (up_pred_add p (_ :: _)). cbn [len].
    rewrite up_re_add, (up_sep_add up_re t_comma up_re_add), (up_re_add _ (up_sep _ _ _ [])). lia.
  - apply up_pred_add.
Qed.
Lemma up_ae_add : additive up_ae.
Proof. intros [p|e] k; [apply up_policy_add|apply up_be_add]. Qed.

Lemma up_semi_elem {A} (up : A -> list token -> list token) xs x :
  additive up -> In x xs -> (len (up x []) < len (up_semi up xs []))%nat.
Proof.
  intros H. unfold additive in H. induction xs as [|y xs IH]; intros Hin; [contradiction|].
  cbn [up_semi]. rewrite (H y (t_semi :: up_semi up xs [])). cbn [len]. destruct Hin as [->|Hin]; [lia|]. specialize (IH Hin). lia.
Qed.
Lemma up_semi_count {A} (up : A -> list token -> list token) xs :
  additive up -> (len xs <= len (up_semi up xs []))%nat.
Proof.
  intros H. unfold additive in H. induction xs as [|y xs IH]; [cbn; lia|]. cbn [up_semi]. rewrite (H y (t_semi :: up_semi up xs [])). cbn [len]. lia.
Qed.
Lemma up_comments_len cs k : len (up_comments cs k) = (len cs + len k)%nat.
Proof. induction cs as [|c cs IH]; [reflexivity|]. cbn [up_comments len]. rewrite IH. lia. Qed.

(* ---------- monotonicity in the fuel ---------- *)
Lemma ok_re_mono f f' x : (f <= f')%nat -> ok_re f x -> ok_re f' x.
Proof. intros Hle [H1 H2]. split; [exact H1|lia]. Qed.
Lemma fits_body_mono f f' x xs : (f <= f')%nat -> fits_body f x xs -> fits_body f' x xs.
Proof.
  intros Hle (H1 & H2 & H3). split; [|split].
  - exact (ok_re_mono f f' x Hle H1).
  - eapply Forall_impl; [|exact H2]. intros y. apply ok_re_mono. exact Hle.
  - lia.
Qed.
Lemma fits_cq_mono f f' q : (f <= f')%nat -> fits_cq f q -> fits_cq f' q.
Proof. intros Hle H. exact (fits_body_mono f f' _ _ Hle H). Qed.
Lemma fits_queries_mono f f' q qs : (f <= f')%nat -> fits_queries f q qs -> fits_queries f' q qs.
Proof.
  intros Hle (H1 & H2 & H3). split; [|split].
  - exact (fits_cq_mono f f' q Hle H1).
  - eapply Forall_impl; [|exact H2]. intros y. apply fits_cq_mono. exact Hle.
  - lia.
Qed.

(* ---------- boolean well-formedness of the larger trees ---------- *)
Definition wfb_cq (q : CheckQuery) : bool := wf_re (cq_first q) && forallb wf_re (cq_more q).
Definition wfb_queries (q : CheckQuery) (qs : list CheckQuery) : bool := wfb_cq q && forallb wfb_cq qs.
Definition wfb_check (c : Check) : bool := wfb_queries (ck_first c) (ck_more c).
Definition wfb_policy (p : Policy) : bool :=
  match p with PAllow q qs => wfb_queries q qs | PDeny q qs => wfb_queries q qs end.
Definition wfb_rule (r : Rule) : bool :=
  wf_pred (ru_head r) && wf_re (ru_first r) && forallb wf_re (ru_more r).
Definition wfb_be (e : BlockElement) : bool :=
  match e with
  | BECheck c => wfb_check c
  | BEPred p body =>
      wf_name (pr_name p) && wf_pred p &&
      match body with None => true | Some (x, xs) => wf_re x && forallb wf_re xs end
  end.
Definition wfb_block (b : Block) : bool := forallb wfb_be (bl_body b).
Definition wfb_ae (e : AuthorizerElement) : bool :=
  match e with AEPolicy p => wfb_policy p | AEBlock e => wfb_be e end.
Definition wfb_authorizer (a : Authorizer) : bool := forallb wfb_ae (au_body a).

Lemma re_need x : (need_re x <= 16 * len (up_re x []))%nat /\ (1 <= len (up_re x []))%nat.
Proof.
  destruct x as [p|e]; cbn [need_re up_re].
  - pose proof (proj2 (pred_size p)). unfold need_pred in *. destruct (pr_ids p); lia.
  - pose proof (proj2 (proj1 expr_size_all e)). lia.
Qed.

Lemma fits_body_wf x xs f :
  wf_re x = true -> forallb wf_re xs = true ->
  (16 * len (up_re x (up_sep up_re t_comma xs [])) < f)%nat -> fits_body f x xs.
Proof.
  intros Hx Hxs Hf. rewrite up_re_add in Hf. split; [|split].
  - split; [exact Hx|]. pose proof (re_need x). lia.
  - apply Forall_forall. intros y Hin. split.
    + rewrite forallb_forall in Hxs. apply Hxs. exact Hin.
    + pose proof (re_need y). pose proof (up_sep_elem up_re t_comma xs y up_re_add Hin). lia.
  - pose proof (up_sep_count up_re t_comma xs up_re_add). lia.
Qed.

Lemma fits_cq_wf q f : wfb_cq q = true -> (16 * len (up_cq q []) < f)%nat -> fits_cq f q.
Proof.
  intros H Hf. apply andb_true_iff in H as [H1 H2]. apply fits_body_wf; assumption.
Qed.

Lemma fits_queries_wf kw q qs f :
  wfb_queries q qs = true -> (16 * len (up_queries kw q qs []) < f)%nat -> fits_queries f q qs.
Proof.
  intros H Hf. apply andb_true_iff in H as [H1 H2]. unfold up_queries in Hf. cbn [len] in Hf.
  rewrite up_cq_add in Hf. split; [|split].
  - apply fits_cq_wf; [exact H1|lia].
  - apply Forall_forall. intros y Hin. apply fits_cq_wf.
    + rewrite forallb_forall in H2. apply H2. exact Hin.
    + pose proof (up_sep_elem up_cq t_or qs y up_cq_add Hin). lia.
  - pose proof (up_sep_count up_cq t_or qs up_cq_add). lia.
Qed.

Lemma fits_check_wf c f : wfb_check c = true -> (16 * len (up_check c []) < f)%nat -> fits_check f c.
Proof. intros H Hf. exact (fits_queries_wf t_check_if _ _ f H Hf). Qed.
Lemma fits_policy_wf p f : wfb_policy p = true -> (16 * len (up_policy p []) < f)%nat -> fits_policy f p.
Proof.
  destruct p as [q qs|q qs]; intros H Hf;
    [exact (fits_queries_wf t_allow_if _ _ f H Hf)|exact (fits_queries_wf t_deny_if _ _ f H Hf)].
Qed.

Lemma pred_need p : (need_pred p <= 16 * len (up_pred p []))%nat.
Proof. exact (proj2 (pred_size p)). Qed.

Lemma fits_rule_wf r f : wfb_rule r = true -> (16 * len (up_rule r []) < f)%nat -> fits_rule f r.
Proof.
  destruct r as [cs h x xs]. unfold wfb_rule, up_rule, fits_rule. cbn [ru_comments ru_head ru_first ru_more].
  intros H Hf. apply andb_true_iff in H as [H H3]. apply andb_true_iff in H as [H1 H2].
  rewrite up_comments_len, up_pred_add in Hf. cbn [len] in Hf.
  pose proof (pred_need h). split; [exact H1|split; [lia|]].
  apply fits_body_wf; [exact H2|exact H3|lia].
Qed.

Lemma fits_be_wf e f : wfb_be e = true -> (16 * len (up_be e []) < f)%nat -> fits_be f e.
Proof.
  destruct e as [c|p [[x xs]|]]; cbn [wfb_be up_be fits_be]; intros H Hf.
  - apply fits_check_wf; assumption.
  - apply andb_true_iff in H as [H H3]. apply andb_true_iff in H as [H1 H2]. apply andb_true_iff in H3 as [H3 H4].
    rewrite up_pred_add in Hf. cbn [len] in Hf. pose proof (pred_need p).
    split; [exact H1|split; [exact H2|split; [lia|]]].
    apply fits_body_wf; [exact H3|exact H4|lia].
  - apply andb_true_iff in H as [H _]. apply andb_true_iff in H as [H1 H2]. pose proof (pred_need p).
    split; [exact H1|split; [exact H2|split; [lia|exact I]]].
Qed.

Lemma fits_ae_wf e f : wfb_ae e = true -> (16 * len (up_ae e []) < f)%nat -> fits_ae f e.
Proof. destruct e as [p|e]; cbn [wfb_ae up_ae fits_ae]; [apply fits_policy_wf|apply fits_be_wf]. Qed.

Lemma fits_block_wf b : wfb_block b = true -> fits_block (fuel_for (up_block b)) b.
Proof.
  destruct b as [cs body]. unfold wfb_block, fits_block, up_block, fuel_for. cbn [bl_comments bl_body].
  intros H. rewrite up_comments_len. split.
  - apply Forall_forall. intros e Hin. apply fits_be_wf.
    + rewrite forallb_forall in H. apply H. exact Hin.
    + pose proof (up_semi_elem up_be body e up_be_add Hin). lia.
  - pose proof (up_semi_count up_be body up_be_add). lia.
Qed.
Lemma fits_authorizer_wf a : wfb_authorizer a = true -> fits_authorizer (fuel_for (up_authorizer a)) a.
Proof.
  destruct a as [cs body]. unfold wfb_authorizer, fits_authorizer, up_authorizer, fuel_for. cbn [au_comments au_body].
  intros H. rewrite up_comments_len. split.
  - apply Forall_forall. intros e Hin. apply fits_ae_wf.
    + rewrite forallb_forall in H. apply H. exact Hin.
    + pose proof (up_semi_elem up_ae body e up_ae_add Hin). lia.
  - pose proof (up_semi_count up_ae body up_ae_add). lia.
Qed.

(* ================================================================== *)
(* C14_parse_unparse: text level                                        *)
(* ================================================================== *)
Lemma run_ok {A} (p : nat -> list token -> pres A) ts a :
  p (fuel_for ts) ts = POk a [] -> run p ts = Ok a.
Proof. intros H. unfold run. rewrite H. reflexivity. Qed.

Lemma fuel_for_gt ts : (16 * len ts < fuel_for ts)%nat.
Proof. unfold fuel_for. lia. Qed.

Lemma ck_query_nil : ck_query [].
Proof. repeat split. Qed.

(* every text obtained by laying out the tokens of a grammar tree with ARBITRARY layout
   (any run of spaces, tabs, \n, \r before the first token, between two tokens and after
   the last one; [lexable_any] requires a separator only where the tokens would glue)
   parses to the value the tree denotes.  Comment tokens occur in [up_rule], [up_block]
   and [up_authorizer] where the grammar has them (the leading @Comment* ); the gap that
   follows a Comment token must start with \n *)
Theorem C14_parse_unparse_fact_any_layout : forall p pre l ps,
  wf_pred p = true -> List.map fst l = up_pred p [] ->
  forallb is_layout pre = true -> lexable_any l = true ->
  parse_fact (render_any pre l) ps =
    (do q <- pred_to_biscuit ps p; if existsb is_var (p_terms q) then Err EParse else Ok q).
Proof.
  intros p pre l ps Hwf Hmap Hpre Hlex. unfold parse_fact. rewrite (lex_render_any pre l Hpre Hlex), Hmap. cbn [bind].
  rewrite (run_ok parse_predicate (up_pred p []) p); [reflexivity|].
  apply parse_unparse_predicate; [exact Hwf|]. pose proof (pred_need p). pose proof (fuel_for_gt (up_pred p [])). lia.
Qed.

Theorem C14_parse_unparse_rule_any_layout : forall r pre l ps,
  wfb_rule r = true -> List.map fst l = up_rule r [] ->
  forallb is_layout pre = true -> lexable_any l = true ->
  parse_rule (render_any pre l) ps = rule_to_biscuit ps r.
Proof.
  intros r pre l ps Hwf Hmap Hpre Hlex. unfold parse_rule. rewrite (lex_render_any pre l Hpre Hlex), Hmap. cbn [bind].
  rewrite (run_ok parse_rule_g (up_rule r []) r); [reflexivity|].
  apply parse_unparse_rule; [|split; reflexivity].
  apply fits_rule_wf; [exact Hwf|apply fuel_for_gt].
Qed.

Theorem C14_parse_unparse_check_any_layout : forall c pre l ps,
  wfb_check c = true -> List.map fst l = up_check c [] ->
  forallb is_layout pre = true -> lexable_any l = true ->
  parse_check (render_any pre l) ps = check_to_biscuit ps c.
Proof.
  intros c pre l ps Hwf Hmap Hpre Hlex. unfold parse_check. rewrite (lex_render_any pre l Hpre Hlex), Hmap. cbn [bind].
  rewrite (run_ok parse_check_g (up_check c []) c); [reflexivity|].
  apply parse_unparse_check; [|exact ck_query_nil].
  apply fits_check_wf; [exact Hwf|apply fuel_for_gt].
Qed.

Theorem C14_parse_unparse_policy_any_layout : forall p pre l ps,
  wfb_policy p = true -> List.map fst l = up_policy p [] ->
  forallb is_layout pre = true -> lexable_any l = true ->
  parse_policy (render_any pre l) ps = policy_to_biscuit ps p.
Proof.
  intros p pre l ps Hwf Hmap Hpre Hlex. unfold parse_policy. rewrite (lex_render_any pre l Hpre Hlex), Hmap. cbn [bind].
  rewrite (run_ok parse_policy_g (up_policy p []) p); [reflexivity|].
  apply parse_unparse_policy; [|exact ck_query_nil].
  apply fits_policy_wf; [exact Hwf|apply fuel_for_gt].
Qed.

Theorem C14_parse_unparse_block_any_layout : forall b pre l ps,
  wfb_block b = true -> List.map fst l = up_block b ->
  forallb is_layout pre = true -> lexable_any l = true ->
  parse_block (render_any pre l) ps = block_to_biscuit ps b.
Proof.
  intros b pre l ps Hwf Hmap Hpre Hlex. unfold parse_block. rewrite (lex_render_any pre l Hpre Hlex), Hmap. cbn [bind].
  rewrite (run_ok parse_block_g (up_block b) b); [reflexivity|].
  apply parse_unparse_block. apply fits_block_wf. exact Hwf.
Qed.

Theorem C14_parse_unparse_authorizer_any_layout : forall a pre l ps,
  wfb_authorizer a = true -> List.map fst l = up_authorizer a ->
  forallb is_layout pre = true -> lexable_any l = true ->
  parse_authorizer (render_any pre l) ps = authorizer_to_biscuit ps a.
Proof.
  intros a pre l ps Hwf Hmap Hpre Hlex. unfold parse_authorizer. rewrite (lex_render_any pre l Hpre Hlex), Hmap. cbn [bind].
  rewrite (run_ok parse_authorizer_g (up_authorizer a) a); [reflexivity|].
  apply parse_unparse_authorizer. apply fits_authorizer_wf. exact Hwf.
Qed.

(* the layouts with nothing, one space or one newline between the tokens: the special case
   [pre = []], gaps in {[], [32], [10]} *)
Theorem C14_parse_unparse_fact : forall p l ps,
  wf_pred p = true -> List.map fst l = up_pred p [] -> lexable l = true ->
  parse_fact (flat l) ps =
    (do q <- pred_to_biscuit ps p; if existsb is_var (p_terms q) then Err EParse else Ok q).
Proof.
  intros p l ps Hwf Hmap Hlex.
  exact (C14_parse_unparse_fact_any_layout p [] l ps Hwf Hmap eq_refl (lexable_any_of l Hlex)).
Qed.

Theorem C14_parse_unparse_rule : forall r l ps,
  wfb_rule r = true -> List.map fst l = up_rule r [] -> lexable l = true ->
  parse_rule (flat l) ps = rule_to_biscuit ps r.
Proof.
  intros r l ps Hwf Hmap Hlex.
  exact (C14_parse_unparse_rule_any_layout r [] l ps Hwf Hmap eq_refl (lexable_any_of l Hlex)).
Qed.

Theorem C14_parse_unparse_check : forall c l ps,
  wfb_check c = true -> List.map fst l = up_check c [] -> lexable l = true ->
  parse_check (flat l) ps = check_to_biscuit ps c.
Proof.
  intros c l ps Hwf Hmap Hlex.
  exact (C14_parse_unparse_check_any_layout c [] l ps Hwf Hmap eq_refl (lexable_any_of l Hlex)).
Qed.

Theorem C14_parse_unparse_policy : forall p l ps,
  wfb_policy p = true -> List.map fst l = up_policy p [] -> lexable l = true ->
  parse_policy (flat l) ps = policy_to_biscuit ps p.
Proof.
  intros p l ps Hwf Hmap Hlex.
  exact (C14_parse_unparse_policy_any_layout p [] l ps Hwf Hmap eq_refl (lexable_any_of l Hlex)).
Qed.

Theorem C14_parse_unparse_block : forall b l ps,
  wfb_block b = true -> List.map fst l = up_block b -> lexable l = true ->
  parse_block (flat l) ps = block_to_biscuit ps b.
Proof.
  intros b l ps Hwf Hmap Hlex.
  exact (C14_parse_unparse_block_any_layout b [] l ps Hwf Hmap eq_refl (lexable_any_of l Hlex)).
Qed.

Theorem C14_parse_unparse_authorizer : forall a l ps,
  wfb_authorizer a = true -> List.map fst l = up_authorizer a -> lexable l = true ->
  parse_authorizer (flat l) ps = authorizer_to_biscuit ps a.
Proof.
  intros a l ps Hwf Hmap Hlex.
  exact (C14_parse_unparse_authorizer_any_layout a [] l ps Hwf Hmap eq_refl (lexable_any_of l Hlex)).
Qed.

(* the one-space layout *)
Fixpoint spaced (ts : list token) : list (token * bytes) :=
  match ts with
  | [] => []
  | [t] => [(t, [])]
  | t :: ts' => (t, if kind_eqb (tk t) KComment then [10] else [32]) :: spaced ts'
  end.
Lemma spaced_map ts : List.map fst (spaced ts) = ts.
Proof.
  induction ts as [|t [|t' ts] IH]; [reflexivity|reflexivity|].
  change (spaced (t :: t' :: ts)) with ((t, if kind_eqb (tk t) KComment then [10] else [32]) :: spaced (t' :: ts)).
  cbn [List.map fst]. rewrite IH. reflexivity.
Qed.

(* non-vacuity: a tree with every operator level, methods, parentheses, a set, and its one-space text *)
Definition ex_tree (s : string) : Authorizer :=
  match lex (bs s) with
  | Ok ts => match run parse_authorizer_g ts with Ok a => a | _ => MkAuthorizer [] [] end
  | _ => MkAuthorizer [] []
  end.
Definition ex_text : string :=
  "right($f, ""read"") <- resource($f), owner($u, $f), $u == ""alice"" || !($f.starts_with(""/tmp"")) && 1 + 2 * 3 - 4 / 2 <= [1, 2, 3].length() ; check if time($t), $t < 2030-01-01T00:00:00Z, [hex:0a, hex:ff].contains(hex:0a) or admin(true, {p}) ; allow if user(""bob"") ; deny if true ;".
Example C14_parse_unparse_nonvacuous :
  let a := ex_tree ex_text in
  wfb_authorizer a = true /\
  lexable (spaced (up_authorizer a)) = true /\
  lex (bs ex_text) = Ok (up_authorizer a) /\
  List.length (up_authorizer a) = 92%nat /\
  List.length (au_body a) = 4%nat.
Proof. vm_compute. repeat split. Qed.

(* non-vacuity with negative literals in every position, and the "<" "-" adjacency: the
   layout hypothesis [lexable] rejects a "<" immediately followed by the sign (the lexer
   would read the Arrow token), and accepts it with a separator *)
Definition ex_neg_text : string :=
  "p(-1, [2, -3], -9223372036854775808) <- q($a, -5), $a - -1 == 0, $a < -2 || !-3 == $a && [-1].contains(-1) ; check if -4 * -2 <= $a + -6 ; allow if -1 == -1 ;".
Example C14_parse_unparse_negative_nonvacuous :
  let a := ex_tree ex_neg_text in
  wfb_authorizer a = true /\
  lexable (spaced (up_authorizer a)) = true /\
  lex (bs ex_neg_text) = Ok (up_authorizer a) /\
  List.length (up_authorizer a) = 72%nat /\
  List.length (au_body a) = 3%nat /\
  is_ok (parse_authorizer (flat (spaced (up_authorizer a))) []) = true /\
  parse_authorizer (flat (spaced (up_authorizer a))) [] = parse_authorizer (bs ex_neg_text) [].
Proof. vm_compute. repeat split. Qed.

Example lt_minus_adjacency :
  let va := Tok KVariable (bs "$a") in
  let one := Tok KInt (bs "1") in
  up_expression (MkExpression (MkExpr1 (MkExpr2
      (MkExpr3 (MkExpr4 (MkExpr5 false (MkExpr6 (ETTerm (GVar (bs "a"))) O7Nil)) O5Nil) O4Nil)
      (O3Some CLt (MkExpr3 (MkExpr4 (MkExpr5 false (MkExpr6 (ETTerm (GInt (-1))) O7Nil)) O5Nil) O4Nil)))
      O2Nil) O1Nil) [] = [va; t_cmp CLt; t_minus; one] /\
  (* no separator between "<" and "-": not a lexable layout, and indeed it lexes differently *)
  lexable [(va, [32]); (t_cmp CLt, []); (t_minus, []); (one, [])] = false /\
  lex (flat [(va, [32]); (t_cmp CLt, []); (t_minus, []); (one, [])]) = Ok [va; t_arrow; one] /\
  (* with a separator (what the printers emit: "$a < -1") it is lexable *)
  lexable [(va, [32]); (t_cmp CLt, [32]); (t_minus, []); (one, [])] = true /\
  flat [(va, [32]); (t_cmp CLt, [32]); (t_minus, []); (one, [])] = bs "$a < -1" /\
  (* the sign and the digits may be separated or not *)
  lexable [(va, []); (t_cmp CLt, [32]); (t_minus, [32]); (one, [])] = true /\
  (* the other operators do not combine with the sign *)
  lexable [(va, []); (t_cmp CLe, []); (t_minus, []); (one, [])] = true /\
  lexable [(va, []); (t_cmp CEq, []); (t_minus, []); (one, [])] = true /\
  lexable [(va, []); (t_add ASub, []); (t_minus, []); (one, [])] = true /\
  lex (bs "$a--1") = Ok [va; t_minus; t_minus; one].
Proof. vm_compute. repeat split. Qed.

(* ---- non-vacuity of the arbitrary-layout theorems ---- *)
(* the inverse of [render_any], for writing examples from literal texts: the leading gap
   and, for each token the lexer finds, the token and the layout bytes that follow it *)
Fixpoint split_gaps (fuel : nat) (s : bytes) : bytes * list (token * bytes) :=
  match fuel with
  | O => ([], [])
  | S f =>
      match next_token s with
      | None => ([], [])
      | Some (t, r) =>
          let '(g, l) := split_gaps f r in
          if elided (tk t) then (tx t ++ g, l) else ([], (t, g) :: l)
      end
  end.
Definition gaps_of (s : bytes) : bytes * list (token * bytes) := split_gaps (S (List.length s)) s.

Definition check_tree_of (s : bytes) : option Check :=
  match lex s with
  | Ok ts => match run parse_check_g ts with Ok c => Some c | _ => None end
  | _ => None
  end.
Definition block_tree_of (s : bytes) : option Block :=
  match lex s with
  | Ok ts => match run parse_block_g ts with Ok b => Some b | _ => None end
  | _ => None
  end.

(* a check: tabs, \r\n line ends, runs of blanks, leading and trailing newlines, and no
   separator where none is needed ("$t<2030-...") *)
Definition ex_any_check_canon : bytes :=
  bs "check if time($t), $t < 2030-01-01T00:00:00Z or admin(true)".
Definition ex_any_check_text : bytes :=
  [10; 13; 10; 9] ++ bs "check if" ++ [9; 9] ++ bs "time($t) ," ++ [13; 10] ++ bs "  $t<2030-01-01T00:00:00Z"
  ++ [13; 10] ++ bs " or" ++ [9] ++ bs "admin( true )" ++ [10; 10].
Example C14_any_layout_check_nonvacuous :
  match check_tree_of ex_any_check_canon with
  | Some c =>
      let '(pre, l) := gaps_of ex_any_check_text in
      wfb_check c = true /\ List.map fst l = up_check c [] /\
      forallb is_layout pre = true /\ lexable_any l = true /\
      render_any pre l = ex_any_check_text /\
      pre = [10; 13; 10; 9] /\ List.length l = 14%nat /\
      (* not one of the layouts of the old theorem *)
      lexable l = false /\
      lex ex_any_check_text = Ok (up_check c []) /\
      is_ok (parse_check ex_any_check_text []) = true /\
      parse_check ex_any_check_text [] = check_to_biscuit [] c
  | None => False
  end.
Proof. vm_compute. repeat split. Qed.

(* a block with two leading comments (the only place where the grammar has comments), a
   fact, a rule with a method call and a check *)
Definition ex_any_block_canon : bytes :=
  bs "// first comment" ++ [10] ++ bs "//second" ++ [10]
  ++ bs "right(""file1"", ""read""); valid($f) <- resource($f), $f.starts_with(""/tmp""); check if !false;".
Definition ex_any_block_text : bytes :=
  [13; 10] ++ bs "// first comment" ++ [10; 10] ++ bs "//second" ++ [10; 9] ++ bs "right(""file1"" ," ++ [9]
  ++ bs """read"")" ++ [13; 10] ++ bs ";" ++ [13; 10; 13; 10] ++ bs "valid($f)<-resource($f)" ++ [9] ++ bs "," ++ [9]
  ++ bs "$f. starts_with( ""/tmp"" ) ;   check if" ++ [13; 10] ++ bs "!false" ++ [10] ++ bs ";" ++ [10].
Example C14_any_layout_block_nonvacuous :
  match block_tree_of ex_any_block_canon with
  | Some b =>
      let '(pre, l) := gaps_of ex_any_block_text in
      wfb_block b = true /\ bl_comments b = [bs "// first comment"; bs "//second"] /\
      List.length (bl_body b) = 3%nat /\
      List.map fst l = up_block b /\
      forallb is_layout pre = true /\ lexable_any l = true /\
      render_any pre l = ex_any_block_text /\
      pre = [13; 10] /\ List.length l = 30%nat /\
      lexable l = false /\
      lex ex_any_block_text = Ok (up_block b) /\
      is_ok (parse_block ex_any_block_text []) = true /\
      parse_block ex_any_block_text [] = block_to_biscuit [] b
  | None => False
  end.
Proof. vm_compute. repeat split. Qed.

(* comments: the grammar has them only in front of a rule, a block and an authorizer
   (struct tags "@Comment*" of Rule.Comments, Block.Comments, Authorizer.Comments).  A
   Comment token is not elided, so a comment in any other gap makes the parse fail, in the
   model as in the library ("unexpected token "// c"").  After a Comment token the gap has
   to start with \n: "//[^\n]*" takes every other byte, \r included, into the token. *)
Example C14_comments_only_leading :
  (* leading: fine, with any layout around them *)
  is_ok (parse_rule ([9] ++ bs "// c" ++ [10; 13; 10] ++ bs " a($x) <- b($x)") []) = true /\
  is_ok (parse_block (bs "// c" ++ [10] ++ bs "a(1);") []) = true /\
  is_ok (parse_authorizer ([13; 10] ++ bs "// c" ++ [10] ++ bs "allow if true;") []) = true /\
  (* between two elements, inside an element, after the last one, before a check: rejected *)
  parse_block (bs "a(1); // c" ++ [10] ++ bs "b(2);") [] = Err EParse /\
  parse_block (bs "a(1);" ++ [10] ++ bs "// c" ++ [10]) [] = Err EParse /\
  parse_block (bs "a( // c" ++ [10] ++ bs "1);") [] = Err EParse /\
  parse_rule (bs "a($x) <- // c" ++ [10] ++ bs " b($x)") [] = Err EParse /\
  parse_rule (bs "a($x) <- b($x) // c") [] = Err EParse /\
  parse_check (bs "// c" ++ [10] ++ bs "check if true") [] = Err EParse /\
  parse_check (bs "check if true // c") [] = Err EParse /\
  (* a gap after a comment that starts with another layout byte is part of the comment *)
  lexable_any [(Tok KComment (bs "// c"), [13; 10]); (Tok KIdent (bs "b"), [])] = false /\
  lex (bs "// c" ++ [13; 10] ++ bs "b") = Ok [Tok KComment (bs "// c" ++ [13]); Tok KIdent (bs "b")] /\
  lexable_any [(Tok KComment (bs "// c" ++ [13]), [10]); (Tok KIdent (bs "b"), [])] = true /\
  lexable_any [(Tok KComment (bs "// c"), [10; 13; 9]); (Tok KIdent (bs "b"), [])] = true.
Proof. vm_compute. repeat split. Qed.

(* where a separator is needed any non-empty layout will do *)
Example lt_minus_adjacency_any_layout :
  let va := Tok KVariable (bs "$a") in
  let one := Tok KInt (bs "1") in
  lexable_any [(va, [9; 9]); (t_cmp CLt, []); (t_minus, []); (one, [13])] = false /\
  lexable_any [(va, []); (t_cmp CLt, [9]); (t_minus, [13; 10]); (one, [10; 10])] = true /\
  lex (render_any [13] [(va, []); (t_cmp CLt, [9]); (t_minus, [13; 10]); (one, [10; 10])])
    = Ok [va; t_cmp CLt; t_minus; one].
Proof. vm_compute. repeat split. Qed.


Section Dates.
Local Open Scope Z_scope.
(* ================================================================== *)
(* dates: parse_rfc3339 (fmt_rfc3339 d) = Some d                        *)
(* ================================================================== *)

(* the era-independent part of civil_from_days, as a checkable fact about one
   400-year era (146097 days) *)
Definition era_check (doe : Z) : bool :=
  let yoe := (doe - doe / 1460 + doe / 36524 - doe / 146096) / 365 in
  let doy := doe - (365 * yoe + yoe / 4 - yoe / 100) in
  let mp := (5 * doy + 2) / 153 in
  let d := doy - (153 * mp + 2) / 5 + 1 in
  let m := if mp <? 10 then mp + 3 else mp - 9 in
  let yadj := if m <=? 2 then yoe + 1 else yoe in
  let mp' := if m >? 2 then m - 3 else m + 9 in
  (0 <=? yoe) && (yoe <=? 399) && (1 <=? m) && (m <=? 12) && (1 <=? d)
  && (d <=? days_in_month yadj m)
  && (mp' =? mp) && ((153 * mp' + 2) / 5 + d - 1 =? doy)
  && (yoe * 365 + yoe / 4 - yoe / 100 + doy =? doe).

Definition era_check' (doe : Z) : bool := if doe <? 146097 then era_check doe else true.
(* all of [lo, lo + 2^k) by binary splitting *)
Fixpoint range_check (k : nat) (lo : Z) : bool :=
  match k with
  | O => era_check' lo
  | S k' => range_check k' lo && range_check k' (lo + 2 ^ Z.of_nat k')
  end.
Lemma range_check_ok : forall k lo, range_check k lo = true ->
  forall i, lo <= i < lo + 2 ^ Z.of_nat k -> era_check' i = true.
Proof.
  induction k as [|k IH]; intros lo H i Hi.
  - cbn in Hi. assert (i = lo) by lia. subst i. exact H.
  - cbn [range_check] in H. apply andb_true_iff in H as [H1 H2].
    rewrite Nat2Z.inj_succ, Z.pow_succ_r in Hi by lia.
    destruct (Z_lt_le_dec i (lo + 2 ^ Z.of_nat k)) as [Hlt|Hge].
    + apply (IH lo H1). lia.
    + apply (IH _ H2). lia.
Qed.
Lemma era_check_all : range_check 18 0 = true.
Proof. vm_compute. reflexivity. Qed.

Lemma era_check_ok doe : 0 <= doe < 146097 -> era_check doe = true.
Proof.
  intros H. pose proof (range_check_ok 18 0 era_check_all doe) as Hc.
  assert (Hr : 0 <= doe < 0 + 2 ^ Z.of_nat 18) by (change (2 ^ Z.of_nat 18) with 262144; lia).
  specialize (Hc Hr). unfold era_check' in Hc.
  destruct (doe <? 146097) eqn:E; [exact Hc|]. apply Z.ltb_ge in E. lia.
Qed.

Lemma is_leap_shift a e : is_leap (a + e * 400) = is_leap a.
Proof.
  unfold is_leap.
  replace ((a + e * 400) mod 4) with (a mod 4) by (rewrite <- (Z.mod_add a (e * 100) 4) by lia; f_equal; lia).
  replace ((a + e * 400) mod 100) with (a mod 100) by (rewrite <- (Z.mod_add a (e * 4) 100) by lia; f_equal; lia).
  replace ((a + e * 400) mod 400) with (a mod 400) by (rewrite <- (Z.mod_add a e 400) by lia; f_equal; lia).
  reflexivity.
Qed.

Lemma days_in_month_shift a e m : days_in_month (a + e * 400) m = days_in_month a m.
Proof. unfold days_in_month. rewrite is_leap_shift. reflexivity. Qed.

Theorem civil_roundtrip z0 :
  let '(y, m, d) := civil_from_days z0 in
  1 <= m <= 12 /\ 1 <= d <= days_in_month y m /\ days_from_civil y m d = z0.
Proof.
  unfold civil_from_days.
  set (z := z0 + 719468). set (era := z / 146097). set (doe := z - era * 146097).
  assert (Hdoe : 0 <= doe < 146097) by (unfold doe, era; lia).
  pose proof (era_check_ok doe Hdoe) as Hc. unfold era_check in Hc.
  set (yoe := (doe - doe / 1460 + doe / 36524 - doe / 146096) / 365) in *.
  set (doy := doe - (365 * yoe + yoe / 4 - yoe / 100)) in *.
  set (mp := (5 * doy + 2) / 153) in *.
  set (d := doy - (153 * mp + 2) / 5 + 1) in *.
  set (m := if mp <? 10 then mp + 3 else mp - 9) in *.
  cbv zeta in Hc.
  repeat match goal with Hx : (_ && _) = true |- _ => apply andb_true_iff in Hx; destruct Hx end.
  repeat match goal with Hx : (_ <=? _) = true |- _ => apply Z.leb_le in Hx end.
  repeat match goal with Hx : (_ =? _) = true |- _ => apply Z.eqb_eq in Hx end.
  set (yadj := if m <=? 2 then yoe + 1 else yoe) in *.
  assert (Hy : (if m <=? 2 then yoe + era * 400 + 1 else yoe + era * 400) = yadj + era * 400).
  { unfold yadj. destruct (m <=? 2); lia. }
  rewrite Hy. rewrite days_in_month_shift.
  split; [lia|]. split; [lia|].
  unfold days_from_civil.
  assert (Hy' : (if m <=? 2 then yadj + era * 400 - 1 else yadj + era * 400) = yoe + era * 400).
  { unfold yadj. destruct (m <=? 2); lia. }
  rewrite Hy'.
  assert (Hera : (yoe + era * 400) / 400 = era).
  { rewrite Z.div_add by lia. rewrite Z.div_small by lia. lia. }
  rewrite Hera.
  replace (yoe + era * 400 - era * 400) with yoe by lia.
  set (mp' := if m >? 2 then m - 3 else m + 9) in *.
  unfold doe, z in *. lia.
Qed.

Lemma days_from_civil_upper y m d :
  10000 <= y -> 1 <= m <= 12 -> 1 <= d -> 2932897 <= days_from_civil y m d.
Proof.
  intros Hy Hm Hd. unfold days_from_civil.
  destruct (m <=? 2) eqn:E1; destruct (m >? 2) eqn:E2; lia.
Qed.
Lemma days_from_civil_lower y m d :
  y <= 1969 -> 1 <= m <= 12 -> d <= 31 -> days_from_civil y m d < 0.
Proof.
  intros Hy Hm Hd. unfold days_from_civil.
  destruct (m <=? 2) eqn:E1; destruct (m >? 2) eqn:E2; lia.
Qed.
Lemma days_in_month_le y m : days_in_month y m <= 31.
Proof. unfold days_in_month. destruct (m =? 2); [destruct (is_leap y); lia|]. destruct (_ || _); lia. Qed.

Lemma pad2_spec z : 0 <= z <= 99 ->
  exists a b, pad2 z = [a; b] /\ is_digit a = true /\ is_digit b = true /\ num2 a b = z.
Proof.
  intros Hz. unfold pad2. eexists; eexists; split; [reflexivity|].
  unfold is_digit, num2, dig. repeat split; lia.
Qed.
Lemma pad4_spec z : 0 <= z <= 9999 ->
  exists a b c d, pad4 z = [a; b; c; d] /\ is_digit a = true /\ is_digit b = true /\
                  is_digit c = true /\ is_digit d = true /\ num2 a b * 100 + num2 c d = z.
Proof.
  intros Hz. unfold pad4. assert (H : (Z.to_N z <? 10000)%N = true) by lia. rewrite H.
  eexists; eexists; eexists; eexists; split; [reflexivity|].
  unfold is_digit, num2, dig. repeat split; lia.
Qed.

(* the formatter and the parser are inverse on 1970-01-01T00:00:00Z .. 9999-12-31T23:59:59Z *)
Theorem rfc3339_roundtrip d :
  0 <= d < 253402300800 -> parse_rfc3339 (fmt_rfc3339 d) = Some d.
Proof.
  intros Hd. unfold fmt_rfc3339.
  set (days := d / 86400). set (rem := d mod 86400).
  assert (Hdays : 0 <= days < 2932897) by (unfold days; lia).
  assert (Hrem : 0 <= rem < 86400) by (unfold rem; lia).
  pose proof (civil_roundtrip days) as Hc.
  destruct (civil_from_days days) as [[y m] dd]. destruct Hc as (Hm & Hdd & Hback).
  pose proof (days_in_month_le y m) as Hdim.
  assert (Hy : 1970 <= y <= 9999).
  { split.
    - destruct (Z_lt_le_dec y 1970) as [Hlt|]; [|assumption].
      pose proof (days_from_civil_lower y m dd ltac:(lia) Hm ltac:(lia)). lia.
    - destruct (Z_lt_le_dec 9999 y) as [Hlt|]; [|assumption].
      pose proof (days_from_civil_upper y m dd ltac:(lia) Hm ltac:(lia)). lia. }
  assert (Hyneg : (y <? 0) = false) by lia. rewrite Hyneg.
  destruct (pad4_spec y ltac:(lia)) as (y1 & y2 & y3 & y4 & Ey & Dy1 & Dy2 & Dy3 & Dy4 & Vy).
  destruct (pad2_spec m ltac:(lia)) as (m1 & m2 & Em & Dm1 & Dm2 & Vm).
  destruct (pad2_spec dd ltac:(lia)) as (d1 & d2 & Ed & Dd1 & Dd2 & Vd).
  destruct (pad2_spec (rem / 3600) ltac:(lia)) as (h1 & h2 & Eh & Dh1 & Dh2 & Vh).
  destruct (pad2_spec ((rem / 60) mod 60) ltac:(lia)) as (i1 & i2 & Ei & Di1 & Di2 & Vi).
  destruct (pad2_spec (rem mod 60) ltac:(lia)) as (s1 & s2 & Es & Ds1 & Ds2 & Vs).
  rewrite Ey, Em, Ed, Eh, Ei, Es. cbn [app].
  unfold parse_rfc3339.
  rewrite Dy1, Dy2, Dy3, Dy4, Dm1, Dm2, Dd1, Dd2, Dh1, Dh2, Di1, Di2, Ds1, Ds2. cbn [andb].
  rewrite Vy, Vm, Vd, Vh, Vi, Vs.
  assert (Hvalid : ((1 <=? m) && (m <=? 12) && (1 <=? dd) && (dd <=? days_in_month y m)
                    && (rem / 3600 <=? 23) && ((rem / 60) mod 60 <=? 59) && (rem mod 60 <=? 59)) = true).
  { repeat (apply andb_true_iff; split); apply Z.leb_le; lia. }
  rewrite Hvalid, Hback. f_equal. unfold days, rem. lia.
Qed.

Example rfc3339_samples :
  fmt_rfc3339 0 = bs "1970-01-01T00:00:00Z" /\
  fmt_rfc3339 951782400 = bs "2000-02-29T00:00:00Z" /\
  fmt_rfc3339 253402300799 = bs "9999-12-31T23:59:59Z" /\
  fmt_rfc3339 (-1) = bs "1969-12-31T23:59:59Z" /\
  parse_rfc3339 (bs "2020-01-01T00:00:00+24:60") = Some 1577746800 /\
  parse_rfc3339 (bs "2020-02-30T00:00:00Z") = None /\
  parse_rfc3339 (bs "2020-01-01T00:00:00") = None /\
  parse_rfc3339 (bs "2020-01-01T00:00:00.123456789012345Z") = Some 1577836800 /\
  parse_rfc3339 (bs "0000-01-01T00:00:00Z") = Some (-62167219200).
Proof. vm_compute. repeat split. Qed.
End Dates.

(* ================================================================== *)
(* 5. C15: the printed form parses back                                 *)
(* ================================================================== *)

Lemma flat_i_app a b : flat_i (a ++ b) = flat_i a ++ flat_i b.
Proof. induction a as [|[t|c] a IH]; cbn [app flat_i]; [reflexivity| |]; rewrite IH; [apply app_assoc|reflexivity]. Qed.
Lemma toks_i_app a b : toks_i (a ++ b) = toks_i a ++ toks_i b.
Proof. induction a as [|[t|c] a IH]; cbn [app toks_i]; [reflexivity| |]; rewrite IH; reflexivity. Qed.

(* ---------- the printers' layout of a grammar tree ---------- *)
Notation sp := (IW 32).

(* the token of a leaf term; a negative integer is the Operator token "-" followed,
   without a separator, by the Int token of its magnitude *)
Definition neg_term (t : gterm) : bool := match t with GInt z => (z <? 0)%Z | _ => false end.
Definition sign_items (t : gterm) : list item := if neg_term t then [IT t_minus] else [].
Definition term_tok (t : gterm) : token :=
  match t with
  | GParam n => Tok KParameter (123 :: n ++ [125])
  | GVar n => Tok KVariable (36 :: n)
  | GBytes h => Tok KHex (lit_hex ++ h)
  | GStr s => Tok KString s
  | GDate s => Tok KDateTime s
  | GInt z => int_tok z
  | GBool b => Tok KBool (if b then L_true else L_false)
  | GSet _ _ => t_lbrack
  end.

Fixpoint lay_term (t : gterm) : list item :=
  match t with
  | GSet x xs => IT t_lbrack :: lay_term x ++ lay_commas xs ++ [IT t_rbrack]
  | _ => sign_items t ++ [IT (term_tok t)]
  end
with lay_commas (xs : gterms) : list item :=
  match xs with
  | GNil => []
  | GCons y ys => IT t_comma :: sp :: lay_term y ++ lay_commas ys
  end.

Lemma up_lay_term_all :
  (forall t k, up_term t k = toks_i (lay_term t) ++ k) /\
  (forall xs k, up_commas xs k = toks_i (lay_commas xs) ++ k).
Proof.
  apply gterm_mutind; try (intros; reflexivity).
  - (* GInt *) intros z k. cbn [up_term lay_term term_tok]. unfold sign_items, neg_term.
    destruct (z <? 0)%Z; reflexivity.
  - intros x IHx xs IHxs k. cbn [up_term lay_term toks_i]. rewrite IHx, IHxs, !toks_i_app.
    cbn [toks_i app]. cbn [toks_i app]. repeat rewrite <- app_assoc. cbn [app]. reflexivity.
  - intros y IHy ys IHys k. cbn [up_commas lay_commas toks_i]. rewrite IHy, IHys, toks_i_app.
    cbn [toks_i app]. repeat rewrite <- app_assoc. cbn [app]. reflexivity.
Qed.

Fixpoint lay_expression (e : Expression) : list item :=
  match e with MkExpression l r => lay_e1 l ++ lay_o1 r end
with lay_o1 (r : OpExpr1s) : list item :=
  match r with O1Nil => [] | O1Cons e r' => sp :: IT t_oror :: sp :: lay_e1 e ++ lay_o1 r' end
with lay_e1 (e : Expr1) : list item :=
  match e with MkExpr1 l r => lay_e2 l ++ lay_o2 r end
with lay_o2 (r : OpExpr2s) : list item :=
  match r with O2Nil => [] | O2Cons e r' => sp :: IT t_andand :: sp :: lay_e2 e ++ lay_o2 r' end
with lay_e2 (e : Expr2) : list item :=
  match e with MkExpr2 l r => lay_e3 l ++ lay_o3 r end
with lay_o3 (r : OpExpr3o) : list item :=
  match r with O3None => [] | O3Some o e => sp :: IT (t_cmp o) :: sp :: lay_e3 e end
with lay_e3 (e : Expr3) : list item :=
  match e with MkExpr3 l r => lay_e4 l ++ lay_o4 r end
with lay_o4 (r : OpExpr4s) : list item :=
  match r with O4Nil => [] | O4Cons o e r' => sp :: IT (t_add o) :: sp :: lay_e4 e ++ lay_o4 r' end
with lay_e4 (e : Expr4) : list item :=
  match e with MkExpr4 l r => lay_e5 l ++ lay_o5 r end
with lay_o5 (r : OpExpr5s) : list item :=
  match r with O5Nil => [] | O5Cons o e r' => sp :: IT (t_mul o) :: sp :: lay_e5 e ++ lay_o5 r' end
with lay_e5 (e : Expr5) : list item :=
  match e with MkExpr5 neg e6 => (if neg then [IT t_bang] else []) ++ lay_e6 e6 end
with lay_e6 (e : Expr6) : list item :=
  match e with MkExpr6 l r => lay_et l ++ lay_o7 r end
with lay_o7 (r : OpExpr7s) : list item :=
  match r with
  | O7Nil => []
  | O7Cons m a r' => IT t_dot :: IT (t_method m) :: IT t_lparen :: lay_oe a ++ IT t_rparen :: lay_o7 r'
  end
with lay_oe (a : OptExpression) : list item :=
  match a with ENone => [] | ESome e => lay_expression e end
with lay_et (t : ExprTerm) : list item :=
  match t with
  | ETTerm t => lay_term t
  | ETParen a => IT t_lparen :: lay_oe a ++ [IT t_rparen]
  end.

Lemma up_lay_expr_all :
  (forall e k, up_expression e k = toks_i (lay_expression e) ++ k) /\
  (forall r k, up_o1 r k = toks_i (lay_o1 r) ++ k) /\
  (forall e k, up_e1 e k = toks_i (lay_e1 e) ++ k) /\
  (forall r k, up_o2 r k = toks_i (lay_o2 r) ++ k) /\
  (forall e k, up_e2 e k = toks_i (lay_e2 e) ++ k) /\
  (forall r k, up_o3 r k = toks_i (lay_o3 r) ++ k) /\
  (forall e k, up_e3 e k = toks_i (lay_e3 e) ++ k) /\
  (forall r k, up_o4 r k = toks_i (lay_o4 r) ++ k) /\
  (forall e k, up_e4 e k = toks_i (lay_e4 e) ++ k) /\
  (forall r k, up_o5 r k = toks_i (lay_o5 r) ++ k) /\
  (forall e k, up_e5 e k = toks_i (lay_e5 e) ++ k) /\
  (forall e k, up_e6 e k = toks_i (lay_e6 e) ++ k) /\
  (forall r k, up_o7 r k = toks_i (lay_o7 r) ++ k) /\
  (forall a k, up_oe a k = toks_i (lay_oe a) ++ k) /\
  (forall t k, up_et t k = toks_i (lay_et t) ++ k).
Proof.
  apply expr_mutind.
  - intros l L r R k. cbn [up_expression lay_expression]. rewrite L, R, toks_i_app. cbn [toks_i app]. repeat rewrite <- app_assoc. cbn [app]. reflexivity.
  - reflexivity.
  - intros e E r R k. cbn [up_o1 lay_o1 toks_i]. rewrite E, R, toks_i_app. cbn [toks_i app]. repeat rewrite <- app_assoc. cbn [app]. reflexivity.
  - intros l L r R k. cbn [up_e1 lay_e1]. rewrite L, R, toks_i_app. cbn [toks_i app]. repeat rewrite <- app_assoc. cbn [app]. reflexivity.
  - reflexivity.
  - intros e E r R k. cbn [up_o2 lay_o2 toks_i]. rewrite E, R, toks_i_app. cbn [toks_i app]. repeat rewrite <- app_assoc. cbn [app]. reflexivity.
  - intros l L r R k. cbn [up_e2 lay_e2]. rewrite L, R, toks_i_app. cbn [toks_i app]. repeat rewrite <- app_assoc. cbn [app]. reflexivity.
  - reflexivity.
  - intros o e E k. cbn [up_o3 lay_o3 toks_i]. rewrite E. reflexivity.
  - intros l L r R k. cbn [up_e3 lay_e3]. rewrite L, R, toks_i_app. cbn [toks_i app]. repeat rewrite <- app_assoc. cbn [app]. reflexivity.
  - reflexivity.
  - intros o e E r R k. cbn [up_o4 lay_o4 toks_i]. rewrite E, R, toks_i_app. cbn [toks_i app]. repeat rewrite <- app_assoc. cbn [app]. reflexivity.
  - intros l L r R k. cbn [up_e4 lay_e4]. rewrite L, R, toks_i_app. cbn [toks_i app]. repeat rewrite <- app_assoc. cbn [app]. reflexivity.
  - reflexivity.
  - intros o e E r R k. cbn [up_o5 lay_o5 toks_i]. rewrite E, R, toks_i_app. cbn [toks_i app]. repeat rewrite <- app_assoc. cbn [app]. reflexivity.
  - intros neg e E k. cbn [up_e5 lay_e5]. destruct neg; cbn [app toks_i]; rewrite E; reflexivity.
  - intros l L r R k. cbn [up_e6 lay_e6]. rewrite L, R, toks_i_app. cbn [toks_i app]. repeat rewrite <- app_assoc. cbn [app]. reflexivity.
  - reflexivity.
  - intros m a A r R k. cbn [up_o7 lay_o7 toks_i]. rewrite A, R, toks_i_app. cbn [toks_i app]. cbn [toks_i app]. repeat rewrite <- app_assoc. cbn [app]. reflexivity.
  - reflexivity.
  - intros e E k. cbn [up_oe lay_oe]. apply E.
  - intros t k. cbn [up_et lay_et]. apply (proj1 up_lay_term_all).
  - intros a A k. cbn [up_et lay_et toks_i]. rewrite A, toks_i_app. cbn [toks_i app]. cbn [toks_i app]. repeat rewrite <- app_assoc. cbn [app]. reflexivity.
Qed.

(* ---------- what the printers print for a term is its token text ---------- *)
Section PrintProofs.
Variable sidx : bytes -> N.

Definition date_ok (s : bytes) : bool :=
  match parse_rfc3339 s with
  | Some d => ((0 <=? d) && (d <? 253402300800))%Z && bytes_eqb (fmt_rfc3339 d) s
  | None => false
  end.
Definition hex_ok (h : bytes) : bool :=
  match hex_decode h with Some b => bytes_eqb (hex_encode b) h | None => false end.
Definition str_ok (s : bytes) : bool :=
  forallb (fun c => in_domain c && negb (c =? 34) && negb (c =? 92)) s && negb (has_prefix s lit_hex).
Definition var_ok (v : bytes) : bool := negb (is_nil v) && forallb is_word v.
(* the elements a printed set may have: no strings (printed as #index), no variables *)
Definition printable_atom (t : gterm) : bool :=
  match t with
  | GInt z => ((-9223372036854775808 <=? z) && (z <? 9223372036854775808))%Z   (* any int64 *)
  | GDate s => date_ok s
  | GBytes h => hex_ok h
  | GBool _ => true
  | _ => false
  end.
Fixpoint gterms_list (xs : gterms) : list gterm :=
  match xs with GNil => [] | GCons y ys => y :: gterms_list ys end.
Definition elem_str (t : gterm) : bytes := (if neg_term t then L_minus else []) ++ src (term_tok t).
(* the text of a leaf's layout *)
Lemma leaf_lay t :
  match t with GSet _ _ => False | _ => True end -> flat_i (lay_term t) = elem_str t.
Proof.
  destruct t as [n|n|h|s|s|z|b|x xs]; intros H; try contradiction;
    unfold elem_str; cbn [lay_term]; unfold sign_items, neg_term; try destruct (z <? 0)%Z;
    cbn [app flat_i]; rewrite ?app_nil_r; reflexivity.
Qed.
Definition printable_term (t : gterm) : bool :=
  match t with
  | GStr s => str_ok s
  | GVar v => var_ok v
  | GParam _ => false
  | GSet x xs =>
      let el := x :: gterms_list xs in
      forallb printable_atom el
      && list_eqb bytes_eqb (sort_strings (List.map elem_str el)) (List.map elem_str el)
  | _ => printable_atom t
  end.

Lemma list_eqb_eq (a b : list bytes) : list_eqb bytes_eqb a b = true -> a = b.
Proof.
  revert b; induction a as [|x a IH]; intros [|y b] H; try discriminate; [reflexivity|].
  cbn in H. apply andb_true_iff in H as [H1 H2]. apply bytes_eqb_eq in H1. f_equal; [exact H1|apply IH; exact H2].
Qed.

Lemma to_int64_small d : (0 <= d < 9223372036854775808)%Z -> to_int64 (Z.to_N (d mod two64)) = d.
Proof. intros H. unfold to_int64, two64. rewrite Z.mod_small by lia. rewrite Z2N.id by lia.
  destruct (d <? 9223372036854775808)%Z eqn:E; [reflexivity|lia]. Qed.

Lemma atom_print t :
  printable_atom t = true ->
  exists a, term_to_biscuit [] t = Ok (TA a) /\ atom_string sidx a = elem_str t /\
            set_elem (TA a) = Ok a /\ print_term sidx (TA a) = elem_str t.
Proof.
  destruct t; cbn [printable_atom]; intros H; try discriminate.
  - (* bytes *) unfold hex_ok in H. destruct (hex_decode hex) as [b|] eqn:E; [|discriminate].
    apply bytes_eqb_eq in H. exists (ABytes b). cbn [term_to_biscuit]. rewrite E.
    repeat split; cbn; rewrite H; reflexivity.
  - (* date *) unfold date_ok in H. destruct (parse_rfc3339 s) as [d|] eqn:E; [|discriminate].
    apply andb_true_iff in H as [H1 H2]. apply bytes_eqb_eq in H2.
    apply andb_true_iff in H1 as [H0 H1]. apply Z.leb_le in H0. apply Z.ltb_lt in H1.
    exists (ADate (Z.to_N (d mod two64))). cbn [term_to_biscuit]. rewrite E.
    assert (Hs : fmt_rfc3339 (to_int64 (Z.to_N (d mod two64))) = s) by (rewrite to_int64_small by lia; exact H2).
    split; [reflexivity|]. split; [exact Hs|]. split; [reflexivity|exact Hs].
  - (* int *) exists (AInt z).
    assert (Hs : dec_of_Z z = elem_str (GInt z)).
    { rewrite dec_of_Z_mag. unfold elem_str, neg_term. cbn [term_tok]. destruct (z <? 0)%Z; reflexivity. }
    repeat split; exact Hs.
  - (* bool *) exists (ABool b). destruct b; repeat split.
Qed.

Lemma set_atoms_print : forall xs,
  forallb printable_atom (gterms_list xs) = true ->
  exists l, set_atoms [] xs = Ok l /\ List.map (atom_string sidx) l = List.map elem_str (gterms_list xs).
Proof.
  induction xs as [|y ys IH]; intros H.
  - exists []. split; reflexivity.
  - cbn [gterms_list forallb] in H. apply andb_true_iff in H as [Hy Hys].
    destruct (atom_print y Hy) as (a & Ha & Hs & He & _). destruct (IH Hys) as (l & Hl & Hm).
    exists (a :: l). cbn [set_atoms]. rewrite Ha. cbn [bind]. rewrite He. cbn [bind]. rewrite Hl. cbn [bind].
    split; [reflexivity|]. cbn [List.map gterms_list]. rewrite Hs, Hm. reflexivity.
Qed.

Lemma join_cons2 sep x y l : join sep (x :: y :: l) = x ++ sep ++ join sep (y :: l).
Proof. reflexivity. Qed.

Lemma join_commas : forall xs,
  forallb printable_atom (gterms_list xs) = true ->
  forall x0, join S_comma_sp (x0 :: List.map elem_str (gterms_list xs)) = x0 ++ flat_i (lay_commas xs).
Proof.
  induction xs as [|y ys IH]; intros H x0.
  - cbn. rewrite app_nil_r. reflexivity.
  - cbn [gterms_list forallb] in H. apply andb_true_iff in H as [Hy Hys].
    cbn [gterms_list List.map lay_commas flat_i]. rewrite join_cons2, (IH Hys).
    assert (Hl : flat_i (lay_term y) = elem_str y) by (apply leaf_lay; destruct y; try exact I; discriminate).
    rewrite flat_i_app, Hl. reflexivity.
Qed.

Lemma term_print t :
  printable_term t = true ->
  exists v, term_to_biscuit [] t = Ok v /\ print_term sidx v = flat_i (lay_term t).
Proof.
  destruct t; cbn [printable_term]; intros H; try discriminate.
  - exists (TA (AVar name)). split; [reflexivity|]. cbn. rewrite app_nil_r. reflexivity.
  - destruct (atom_print (GBytes hex) H) as (a & Ha & _ & _ & Hp). exists (TA a). split; [exact Ha|].
    rewrite Hp. symmetry. apply leaf_lay. exact I.
  - exists (TA (AStr s)). split; [reflexivity|]. cbn. rewrite app_nil_r. reflexivity.
  - destruct (atom_print (GDate s) H) as (a & Ha & _ & _ & Hp). exists (TA a). split; [exact Ha|].
    rewrite Hp. symmetry. apply leaf_lay. exact I.
  - destruct (atom_print (GInt z) H) as (a & Ha & _ & _ & Hp). exists (TA a). split; [exact Ha|].
    rewrite Hp. symmetry. apply leaf_lay. exact I.
  - destruct (atom_print (GBool b) H) as (a & Ha & _ & _ & Hp). exists (TA a). split; [exact Ha|].
    rewrite Hp. symmetry. apply leaf_lay. exact I.
  - (* set *) apply andb_true_iff in H as [Hel Hsorted]. apply list_eqb_eq in Hsorted.
    cbn [forallb] in Hel. apply andb_true_iff in Hel as [Hx Hxs].
    destruct (atom_print t Hx) as (a & Ha & Hs & He & _).
    destruct (set_atoms_print xs Hxs) as (l & Hl & Hm).
    exists (TSet (a :: l)). cbn [term_to_biscuit]. rewrite Ha. cbn [bind]. rewrite He. cbn [bind]. rewrite Hl. cbn [bind].
    split; [reflexivity|].
    cbn [print_term term_string List.map]. rewrite Hs, Hm.
    cbn [List.map] in Hsorted. rewrite Hsorted.
    rewrite (join_commas xs Hxs).
    assert (Hlt : flat_i (lay_term t) = elem_str t) by (apply leaf_lay; destruct t; try exact I; discriminate).
    cbn [lay_term flat_i]. rewrite !flat_i_app, Hlt. cbn [flat_i].
    rewrite !app_nil_r. cbn. rewrite <- !app_assoc. reflexivity.
Qed.

(* ---------- the format strings ---------- *)
Definition bin_mid (b : binop) : bytes :=
  match b with
  | BLessThan => bs " < " | BLessOrEqual => bs " <= " | BGreaterThan => bs " > "
  | BGreaterOrEqual => bs " >= " | BEqual => bs " == " | BContains => bs ".contains("
  | BPrefix => bs ".starts_with(" | BSuffix => bs ".ends_with(" | BRegex => bs ".matches("
  | BAdd => bs " + " | BSub => bs " - " | BMul => bs " * " | BDiv => bs " / "
  | BAnd => bs " && " | BOr => bs " || " | BIntersection => bs ".intersection(" | BUnion => bs ".union("
  end.
Definition bin_end (b : binop) : bytes :=
  match b with
  | BContains | BPrefix | BSuffix | BRegex | BIntersection | BUnion => [41]
  | _ => []
  end.
(* the generated format table prints [l op r] / [l.m(r)] *)
Lemma print_binop_spec b l r : print_binop b l r = l ++ bin_mid b ++ r ++ bin_end b.
Proof. destruct b; cbn; rewrite ?app_nil_r; reflexivity. Qed.
Lemma print_unop_negate v : print_unop UNegate v = 33 :: v.
Proof. cbn. rewrite app_nil_r. reflexivity. Qed.
Lemma print_unop_parens v : print_unop UParens v = 40 :: v ++ [41].
Proof. reflexivity. Qed.
Lemma print_unop_length v : print_unop ULength v = v ++ bs ".length()".
Proof. reflexivity. Qed.

(* ---------- Expression.Print reconstructs the concrete syntax ---------- *)
Definition cvt (o : gop) : op :=
  match o with
  | GVal t => OVal (match term_to_biscuit [] t with Ok v => v | _ => TA (ABool false) end)
  | GUn u => OUn u
  | GBin b => OBin b
  end.

Fixpoint pr_expression (e : Expression) : bool :=
  match e with MkExpression l r => pr_e1 l && pr_o1 r end
with pr_o1 (r : OpExpr1s) : bool :=
  match r with O1Nil => true | O1Cons e r' => pr_e1 e && pr_o1 r' end
with pr_e1 (e : Expr1) : bool :=
  match e with MkExpr1 l r => pr_e2 l && pr_o2 r end
with pr_o2 (r : OpExpr2s) : bool :=
  match r with O2Nil => true | O2Cons e r' => pr_e2 e && pr_o2 r' end
with pr_e2 (e : Expr2) : bool :=
  match e with MkExpr2 l r => pr_e3 l && pr_o3 r end
with pr_o3 (r : OpExpr3o) : bool :=
  match r with O3None => true | O3Some o e => pr_e3 e end
with pr_e3 (e : Expr3) : bool :=
  match e with MkExpr3 l r => pr_e4 l && pr_o4 r end
with pr_o4 (r : OpExpr4s) : bool :=
  match r with O4Nil => true | O4Cons o e r' => pr_e4 e && pr_o4 r' end
with pr_e4 (e : Expr4) : bool :=
  match e with MkExpr4 l r => pr_e5 l && pr_o5 r end
with pr_o5 (r : OpExpr5s) : bool :=
  match r with O5Nil => true | O5Cons o e r' => pr_e5 e && pr_o5 r' end
with pr_e5 (e : Expr5) : bool :=
  match e with MkExpr5 neg e6 => pr_e6 e6 end
with pr_e6 (e : Expr6) : bool :=
  match e with MkExpr6 l r => pr_et l && pr_o7 r end
with pr_o7 (r : OpExpr7s) : bool :=
  match r with
  | O7Nil => true
  | O7Cons m a r' =>
      (* x.length() without argument, every other method with one *)
      match m, a with
      | MLength, ENone => true
      | MLength, ESome _ => false
      | _, ENone => false
      | _, ESome _ => pr_oe a
      end && pr_o7 r'
  end
with pr_oe (a : OptExpression) : bool :=
  match a with ENone => true | ESome e => pr_expression e end
with pr_et (t : ExprTerm) : bool :=
  match t with
  | ETTerm t => printable_term t
  | ETParen ENone => false            (* "()" emits nothing: it cannot be printed *)
  | ETParen a => pr_oe a
  end.

Lemma step_val t rest st n :
  n < 1000 -> print_ops sidx (OVal t :: rest) st n = print_ops sidx rest (print_term sidx t :: st) (n + 1).
Proof.
  intros H. cbn [print_ops]. change Generated.max_stack with 1000.
  destruct (1000 <=? n) eqn:E; [apply N.leb_le in E; lia|reflexivity].
Qed.
Lemma step_un u rest v st n :
  1 <= n <= 1000 -> print_ops sidx (OUn u :: rest) (v :: st) n = print_ops sidx rest (print_unop u v :: st) n.
Proof.
  intros H. cbn [print_ops]. change Generated.max_stack with 1000.
  destruct (1000 <=? n - 1) eqn:E; [apply N.leb_le in E; lia|reflexivity].
Qed.
Lemma step_bin b rest r l st n :
  2 <= n <= 1001 ->
  print_ops sidx (OBin b :: rest) (r :: l :: st) n = print_ops sidx rest (print_binop b l r :: st) (n - 1).
Proof.
  intros H. cbn [print_ops]. change Generated.max_stack with 1000.
  destruct (1000 <=? n - 2) eqn:E; [apply N.leb_le in E; lia|reflexivity].
Qed.

Notation olen l := (N.of_nat (List.length l)).

(* one binary-operator iteration of a left-associative level *)
Lemma fold_step (ops_e ops_r : list gop) (b : binop) (Se Sr acc : bytes) mid rest st n :
  n + 1 + olen (ops_e ++ [GBin b] ++ ops_r) <= 1000 ->
  bin_mid b = mid -> bin_end b = [] ->
  (forall rest' st' n', n' + olen ops_e <= 1000 ->
     print_ops sidx (List.map cvt ops_e ++ rest') st' n' = print_ops sidx rest' (Se :: st') (n' + 1)) ->
  (forall acc' rest' st' n', n' + 1 + olen ops_r <= 1000 ->
     print_ops sidx (List.map cvt ops_r ++ rest') (acc' :: st') (n' + 1)
     = print_ops sidx rest' ((acc' ++ Sr) :: st') (n' + 1)) ->
  print_ops sidx (List.map cvt (ops_e ++ [GBin b] ++ ops_r) ++ rest) (acc :: st) (n + 1)
  = print_ops sidx rest ((acc ++ mid ++ Se ++ Sr) :: st) (n + 1).
Proof.
  intros Hn Hmid Hend He Hr. rewrite !app_length in Hn. cbn [List.length] in Hn.
  rewrite !map_app. cbn [List.map cvt]. rewrite <- !app_assoc. cbn [app].
  rewrite He by lia. rewrite step_bin by lia. rewrite print_binop_spec, Hmid, Hend, app_nil_r.
  replace (n + 1 + 1 - 1) with (n + 1) by lia.
  rewrite Hr by lia. rewrite <- !app_assoc. reflexivity.
Qed.

Definition PE (ops : list gop) (S : bytes) : Prop :=
  (1 <= List.length ops)%nat /\
  forall rest st n, n + olen ops <= 1000 ->
    print_ops sidx (List.map cvt ops ++ rest) st n = print_ops sidx rest (S :: st) (n + 1).
Definition PO (ops : list gop) (S : bytes) : Prop :=
  forall acc rest st n, n + 1 + olen ops <= 1000 ->
    print_ops sidx (List.map cvt ops ++ rest) (acc :: st) (n + 1) = print_ops sidx rest ((acc ++ S) :: st) (n + 1).

Lemma PO_nil : PO [] [].
Proof. intros acc rest st n _. cbn. rewrite app_nil_r. reflexivity. Qed.

Lemma PE_app ops_l ops_r Sl Sr : PE ops_l Sl -> PO ops_r Sr -> PE (ops_l ++ ops_r) (Sl ++ Sr).
Proof.
  intros [Hl0 Hl] Hr. unfold PE, PO in *. split; [rewrite app_length; lia|].
  intros rest st n Hn. rewrite app_length in Hn. rewrite map_app, <- app_assoc.
  rewrite Hl by lia. apply Hr. lia.
Qed.

Lemma PO_cons ops_e ops_r b Se Sr mid :
  bin_mid b = mid -> bin_end b = [] -> PE ops_e Se -> PO ops_r Sr ->
  PO (ops_e ++ [GBin b] ++ ops_r) (mid ++ Se ++ Sr).
Proof.
  intros Hmid Hend [_ He] Hr acc rest st n Hn.
  apply (fold_step ops_e ops_r b Se Sr acc mid rest st n Hn Hmid Hend He Hr).
Qed.

Lemma print_stack_all :
  (forall e, pr_expression e = true -> PE (to_ops e) (flat_i (lay_expression e))) /\
  (forall r, pr_o1 r = true -> PO (ops_o1 r) (flat_i (lay_o1 r))) /\
  (forall e, pr_e1 e = true -> PE (ops_e1 e) (flat_i (lay_e1 e))) /\
  (forall r, pr_o2 r = true -> PO (ops_o2 r) (flat_i (lay_o2 r))) /\
  (forall e, pr_e2 e = true -> PE (ops_e2 e) (flat_i (lay_e2 e))) /\
  (forall r, pr_o3 r = true -> PO (ops_o3 r) (flat_i (lay_o3 r))) /\
  (forall e, pr_e3 e = true -> PE (ops_e3 e) (flat_i (lay_e3 e))) /\
  (forall r, pr_o4 r = true -> PO (ops_o4 r) (flat_i (lay_o4 r))) /\
  (forall e, pr_e4 e = true -> PE (ops_e4 e) (flat_i (lay_e4 e))) /\
  (forall r, pr_o5 r = true -> PO (ops_o5 r) (flat_i (lay_o5 r))) /\
  (forall e, pr_e5 e = true -> PE (ops_e5 e) (flat_i (lay_e5 e))) /\
  (forall e, pr_e6 e = true -> PE (ops_e6 e) (flat_i (lay_e6 e))) /\
  (forall r, pr_o7 r = true -> PO (ops_o7 r) (flat_i (lay_o7 r))) /\
  (forall a, pr_oe a = true -> match a with ESome e => PE (to_ops e) (flat_i (lay_expression e)) | ENone => True end) /\
  (forall t, pr_et t = true -> PE (ops_et t) (flat_i (lay_et t))).
Proof.
  apply expr_mutind.
  - intros l L r R H. cbn [pr_expression] in H. apply andb_true_iff in H as [H1 H2].
    cbn [to_ops lay_expression]. rewrite flat_i_app. apply PE_app; auto.
  - intros _. apply PO_nil.
  - intros e E r R H. cbn [pr_o1] in H. apply andb_true_iff in H as [H1 H2].
    cbn [ops_o1 lay_o1 flat_i]. rewrite flat_i_app.
    apply (PO_cons (ops_e1 e) (ops_o1 r) BOr _ _ (32 :: src t_oror ++ [32])); auto.
  - intros l L r R H. cbn [pr_e1] in H. apply andb_true_iff in H as [H1 H2].
    cbn [ops_e1 lay_e1]. rewrite flat_i_app. apply PE_app; auto.
  - intros _. apply PO_nil.
  - intros e E r R H. cbn [pr_o2] in H. apply andb_true_iff in H as [H1 H2].
    cbn [ops_o2 lay_o2 flat_i]. rewrite flat_i_app.
    apply (PO_cons (ops_e2 e) (ops_o2 r) BAnd _ _ (32 :: src t_andand ++ [32])); auto.
  - intros l L r R H. cbn [pr_e2] in H. apply andb_true_iff in H as [H1 H2].
    cbn [ops_e2 lay_e2]. rewrite flat_i_app. apply PE_app; auto.
  - intros _. apply PO_nil.
  - intros o e E H. cbn [pr_o3] in H. cbn [ops_o3 lay_o3 flat_i].
    pose proof (PO_cons (ops_e3 e) [] (cmp_binop o) (flat_i (lay_e3 e)) [] (32 :: src (t_cmp o) ++ [32])) as HP.
    rewrite !app_nil_r in HP. cbn [app] in HP.
    replace (32 :: src (t_cmp o) ++ 32 :: flat_i (lay_e3 e)) with ((32 :: src (t_cmp o) ++ [32]) ++ flat_i (lay_e3 e))
      by (cbn [app]; rewrite <- app_assoc; reflexivity).
    apply HP; [destruct o; reflexivity|destruct o; reflexivity|apply E; exact H|apply PO_nil].
  - intros l L r R H. cbn [pr_e3] in H. apply andb_true_iff in H as [H1 H2].
    cbn [ops_e3 lay_e3]. rewrite flat_i_app. apply PE_app; auto.
  - intros _. apply PO_nil.
  - intros o e E r R H. cbn [pr_o4] in H. apply andb_true_iff in H as [H1 H2].
    cbn [ops_o4 lay_o4 flat_i]. rewrite flat_i_app.
    replace (32 :: src (t_add o) ++ 32 :: flat_i (lay_e4 e) ++ flat_i (lay_o4 r))
      with ((32 :: src (t_add o) ++ [32]) ++ flat_i (lay_e4 e) ++ flat_i (lay_o4 r))
      by (cbn [app]; rewrite <- app_assoc; reflexivity).
    apply (PO_cons (ops_e4 e) (ops_o4 r) (add_binop o)); [destruct o; reflexivity|destruct o; reflexivity|auto|auto].
  - intros l L r R H. cbn [pr_e4] in H. apply andb_true_iff in H as [H1 H2].
    cbn [ops_e4 lay_e4]. rewrite flat_i_app. apply PE_app; auto.
  - intros _. apply PO_nil.
  - intros o e E r R H. cbn [pr_o5] in H. apply andb_true_iff in H as [H1 H2].
    cbn [ops_o5 lay_o5 flat_i]. rewrite flat_i_app.
    replace (32 :: src (t_mul o) ++ 32 :: flat_i (lay_e5 e) ++ flat_i (lay_o5 r))
      with ((32 :: src (t_mul o) ++ [32]) ++ flat_i (lay_e5 e) ++ flat_i (lay_o5 r))
      by (cbn [app]; rewrite <- app_assoc; reflexivity).
    apply (PO_cons (ops_e5 e) (ops_o5 r) (mul_binop o)); [destruct o; reflexivity|destruct o; reflexivity|auto|auto].
  - (* Expr5 *) intros neg e E H. cbn [pr_e5] in H. cbn [ops_e5 lay_e5]. specialize (E H). unfold PE in *.
    destruct E as [E0 E]. destruct neg.
    + split; [rewrite app_length; lia|]. intros rest st n Hn. rewrite app_length in Hn. cbn [List.length] in Hn.
      rewrite map_app, <- app_assoc. cbn [List.map cvt app]. rewrite E by lia.
      rewrite step_un by lia. rewrite print_unop_negate. reflexivity.
    + rewrite app_nil_r. split; assumption.
  - intros l L r R H. cbn [pr_e6] in H. apply andb_true_iff in H as [H1 H2].
    cbn [ops_e6 lay_e6]. rewrite flat_i_app. apply PE_app; auto.
  - intros _. apply PO_nil.
  - (* O7Cons *) intros m a A r R H. cbn [pr_o7] in H. apply andb_true_iff in H as [H1 H2].
    specialize (R H2). cbn [ops_o7 lay_o7 flat_i]. unfold PE, PO in *.
    destruct a as [|e].
    + (* no argument: only length *)
      destruct m; try discriminate. cbn [ops_oe lay_oe app method_op].
      intros acc rest st n Hn. cbn [List.length] in Hn. cbn [List.map cvt app].
      rewrite step_un by lia. rewrite print_unop_length. rewrite R by lia.
      rewrite <- !app_assoc. reflexivity.
    + assert (Hm : m <> MLength) by (destruct m; try discriminate; intros X; discriminate X).
      assert (He : pr_expression e = true) by (destruct m; try discriminate; exact H1).
      specialize (A He). cbn [ops_oe lay_oe] in *. destruct A as [_ A].
      intros acc rest st n Hn. rewrite !app_length in Hn. cbn [List.length] in Hn.
      rewrite !map_app, <- !app_assoc. rewrite A by lia.
      destruct m; try congruence; cbn [method_op List.map cvt app];
        rewrite step_bin by lia; rewrite print_binop_spec;
        replace (n + 1 + 1 - 1) with (n + 1) by lia;
        rewrite R by lia; rewrite flat_i_app; cbn [flat_i bin_mid bin_end];
        repeat rewrite <- app_assoc; reflexivity.
  - intros _. exact I.
  - intros e E H. cbn [pr_oe] in H. apply E. exact H.
  - (* ETTerm *) intros t H. cbn [pr_et] in H. cbn [ops_et lay_et].
    destruct (term_print t H) as (v & Hv & Hp). unfold PE. split; [cbn; lia|].
    intros rest st n Hn. cbn [List.length] in Hn. cbn [List.map cvt app]. rewrite Hv.
    rewrite step_val by lia. rewrite Hp. reflexivity.
  - (* ETParen *) intros a A H. destruct a as [|e]; [discriminate|].
    cbn [pr_et] in H. specialize (A H). cbn [ops_et lay_et lay_oe flat_i] in *. unfold PE in *.
    destruct A as [_ A]. split; [rewrite app_length; cbn; lia|].
    intros rest st n Hn. rewrite app_length in Hn. cbn [List.length] in Hn.
    rewrite map_app, <- app_assoc. cbn [List.map cvt app]. rewrite A by lia.
    rewrite step_un by lia. rewrite print_unop_parens. rewrite flat_i_app. reflexivity.
Qed.

(* the value leaves of a printable expression are printable terms *)
Definition leaf_ok (o : gop) : Prop := match o with GVal t => printable_term t = true | _ => True end.

Lemma leaves_all :
  (forall e, pr_expression e = true -> Forall leaf_ok (to_ops e)) /\
  (forall r, pr_o1 r = true -> Forall leaf_ok (ops_o1 r)) /\
  (forall e, pr_e1 e = true -> Forall leaf_ok (ops_e1 e)) /\
  (forall r, pr_o2 r = true -> Forall leaf_ok (ops_o2 r)) /\
  (forall e, pr_e2 e = true -> Forall leaf_ok (ops_e2 e)) /\
  (forall r, pr_o3 r = true -> Forall leaf_ok (ops_o3 r)) /\
  (forall e, pr_e3 e = true -> Forall leaf_ok (ops_e3 e)) /\
  (forall r, pr_o4 r = true -> Forall leaf_ok (ops_o4 r)) /\
  (forall e, pr_e4 e = true -> Forall leaf_ok (ops_e4 e)) /\
  (forall r, pr_o5 r = true -> Forall leaf_ok (ops_o5 r)) /\
  (forall e, pr_e5 e = true -> Forall leaf_ok (ops_e5 e)) /\
  (forall e, pr_e6 e = true -> Forall leaf_ok (ops_e6 e)) /\
  (forall r, pr_o7 r = true -> Forall leaf_ok (ops_o7 r)) /\
  (forall a, pr_oe a = true -> Forall leaf_ok (ops_oe a)) /\
  (forall t, pr_et t = true -> Forall leaf_ok (ops_et t)).
Proof.
  assert (Hop : forall o, match o with GVal _ => False | _ => True end -> Forall leaf_ok [o]).
  { intros o Ho. constructor; [destruct o; [contradiction|exact I|exact I]|constructor]. }
  apply expr_mutind.
  - intros l L r R H. cbn [pr_expression] in H. apply andb_true_iff in H as [H1 H2].
    cbn [to_ops]. apply Forall_app; auto.
  - intros _. constructor.
  - intros e E r R H. cbn [pr_o1] in H. apply andb_true_iff in H as [H1 H2].
    cbn [ops_o1]. repeat (apply Forall_app; split); auto; apply Hop; exact I.
  - intros l L r R H. cbn [pr_e1] in H. apply andb_true_iff in H as [H1 H2].
    cbn [ops_e1]. apply Forall_app; auto.
  - intros _. constructor.
  - intros e E r R H. cbn [pr_o2] in H. apply andb_true_iff in H as [H1 H2].
    cbn [ops_o2]. repeat (apply Forall_app; split); auto; apply Hop; exact I.
  - intros l L r R H. cbn [pr_e2] in H. apply andb_true_iff in H as [H1 H2].
    cbn [ops_e2]. apply Forall_app; auto.
  - intros _. constructor.
  - intros o e E H. cbn [pr_o3] in H. cbn [ops_o3]. apply Forall_app; split; auto; apply Hop; exact I.
  - intros l L r R H. cbn [pr_e3] in H. apply andb_true_iff in H as [H1 H2].
    cbn [ops_e3]. apply Forall_app; auto.
  - intros _. constructor.
  - intros o e E r R H. cbn [pr_o4] in H. apply andb_true_iff in H as [H1 H2].
    cbn [ops_o4]. repeat (apply Forall_app; split); auto; apply Hop; exact I.
  - intros l L r R H. cbn [pr_e4] in H. apply andb_true_iff in H as [H1 H2].
    cbn [ops_e4]. apply Forall_app; auto.
  - intros _. constructor.
  - intros o e E r R H. cbn [pr_o5] in H. apply andb_true_iff in H as [H1 H2].
    cbn [ops_o5]. repeat (apply Forall_app; split); auto; apply Hop; exact I.
  - intros neg e E H. cbn [pr_e5] in H. cbn [ops_e5]. apply Forall_app; split; auto.
    destruct neg; [apply Hop; exact I|constructor].
  - intros l L r R H. cbn [pr_e6] in H. apply andb_true_iff in H as [H1 H2].
    cbn [ops_e6]. apply Forall_app; auto.
  - intros _. constructor.
  - intros m a A r R H. cbn [pr_o7] in H. apply andb_true_iff in H as [H1 H2].
    assert (Ha : pr_oe a = true).
    { destruct a as [|e]; [reflexivity|]. destruct m; try discriminate; exact H1. }
    cbn [ops_o7]. apply Forall_app; split; [apply A; exact Ha|].
    apply Forall_app; split; [apply Hop; destruct m; exact I|apply R; exact H2].
  - intros _. constructor.
  - intros e E H. cbn [pr_oe] in H. cbn [ops_oe]. auto.
  - intros t H. cbn [pr_et] in H. cbn [ops_et]. constructor; [exact H|constructor].
  - intros a A H. destruct a as [|e]; [discriminate|]. cbn [pr_et] in H. cbn [ops_et].
    apply Forall_app; split; [apply A; exact H|apply Hop; exact I].
Qed.

Lemma conv_ops_cvt l : Forall leaf_ok l -> conv_ops [] l = Ok (List.map cvt l).
Proof.
  induction 1 as [|o l Ho Hl IH]; [reflexivity|].
  cbn [conv_ops List.map]. rewrite IH. destruct o as [t|u|b]; cbn [cvt bind]; try reflexivity.
  cbn [leaf_ok] in Ho. destruct (term_print t Ho) as (v & Hv & _). rewrite Hv. reflexivity.
Qed.

(* C15, expressions: Expression.Print of the parsed expression is its concrete syntax *)
Theorem C15_print_expr e :
  pr_expression e = true -> olen (to_ops e) <= 1000 ->
  exists ops, expr_to_biscuit [] e = Ok ops /\ print_expr sidx ops = flat_i (lay_expression e).
Proof.
  intros Hp Hn. exists (List.map cvt (to_ops e)). split.
  - unfold expr_to_biscuit. apply conv_ops_cvt. apply (proj1 leaves_all). exact Hp.
  - unfold print_expr. destruct (proj1 print_stack_all e Hp) as [_ H].
    specialize (H [] [] 0 ltac:(lia)). rewrite app_nil_r in H. rewrite H. reflexivity.
Qed.

(* ---------- predicates ---------- *)
Definition lay_ids (ids : gterms) : list item :=
  match ids with GNil => [] | GCons x xs => lay_term x ++ lay_commas xs end.
Definition lay_pred (p : Predicate) : list item :=
  IT (Tok KIdent (pr_name p)) :: IT t_lparen :: lay_ids (pr_ids p) ++ [IT t_rparen].

Lemma up_lay_pred p k : up_pred p k = toks_i (lay_pred p) ++ k.
Proof.
  destruct p as [name ids]. unfold up_pred, lay_pred. cbn [pr_name pr_ids toks_i app]. f_equal. f_equal.
  destruct ids as [|x xs]; cbn [up_ids lay_ids]; [reflexivity|].
  rewrite (proj1 up_lay_term_all), (proj2 up_lay_term_all), !toks_i_app. cbn [toks_i].
  repeat rewrite <- app_assoc. cbn [app]. reflexivity.
Qed.

Definition printable_pred (p : Predicate) : bool := forallb printable_term (gterms_list (pr_ids p)).

Lemma terms_print : forall xs,
  forallb printable_term (gterms_list xs) = true ->
  exists ts, terms_to_biscuit [] xs = Ok ts /\
             forall x0, join S_comma_sp (x0 :: List.map (print_term sidx) ts) = x0 ++ flat_i (lay_commas xs).
Proof.
  induction xs as [|y ys IH]; intros H.
  - exists []. split; [reflexivity|]. intros x0. cbn. rewrite app_nil_r. reflexivity.
  - cbn [gterms_list forallb] in H. apply andb_true_iff in H as [Hy Hys].
    destruct (term_print y Hy) as (v & Hv & Hp). destruct (IH Hys) as (ts & Hts & Hj).
    exists (v :: ts). cbn [terms_to_biscuit]. rewrite Hv. cbn [bind]. rewrite Hts. cbn [bind].
    split; [reflexivity|]. intros x0. cbn [List.map]. rewrite join_cons2, Hj, Hp.
    cbn [lay_commas flat_i]. rewrite flat_i_app. reflexivity.
Qed.

Lemma pred_print p :
  printable_pred p = true ->
  exists q, pred_to_biscuit [] p = Ok q /\ print_pred sidx q = flat_i (lay_pred p).
Proof.
  destruct p as [name ids]. unfold printable_pred, pred_to_biscuit, lay_pred. cbn [pr_name pr_ids]. intros H.
  destruct ids as [|x xs].
  - exists {| p_name := name; p_terms := [] |}. split; [reflexivity|].
    unfold print_pred. cbn. rewrite ?app_nil_r. reflexivity.
  - cbn [gterms_list forallb] in H. apply andb_true_iff in H as [Hx Hxs].
    destruct (term_print x Hx) as (v & Hv & Hp). destruct (terms_print xs Hxs) as (ts & Hts & Hj).
    exists {| p_name := name; p_terms := v :: ts |}. cbn [terms_to_biscuit]. rewrite Hv. cbn [bind]. rewrite Hts.
    cbn [bind]. split; [reflexivity|].
    unfold print_pred. cbn [p_name p_terms List.map]. rewrite Hj, Hp.
    cbn [flat_i lay_ids]. rewrite !flat_i_app. cbn [flat_i]. cbn. rewrite ?app_nil_r. repeat rewrite <- app_assoc. reflexivity.
Qed.

(* ---------- joined lists ---------- *)
Fixpoint lay_join (sep : list item) (ls : list (list item)) : list item :=
  match ls with
  | [] => []
  | [x] => x
  | x :: ls' => x ++ sep ++ lay_join sep ls'
  end.
Lemma lay_join_cons2 sep x y l : lay_join sep (x :: y :: l) = x ++ sep ++ lay_join sep (y :: l).
Proof. reflexivity. Qed.

Lemma flat_lay_join sep ls : flat_i (lay_join sep ls) = join (flat_i sep) (List.map flat_i ls).
Proof.
  induction ls as [|x [|y ls] IH]; [reflexivity|reflexivity|].
  rewrite lay_join_cons2. cbn [List.map]. rewrite join_cons2, !flat_i_app, IH. reflexivity.
Qed.

Lemma toks_lay_join {A} (up : A -> list token -> list token) (lay : A -> list item)
  (septok : token) (sep : list item) :
  (forall y k, up y k = toks_i (lay y) ++ k) -> toks_i sep = [septok] ->
  forall xs x k, up x (up_sep up septok xs k) = toks_i (lay_join sep (List.map lay (x :: xs))) ++ k.
Proof.
  intros Hup Hsep. induction xs as [|y ys IH]; intros x k.
  - cbn [up_sep List.map lay_join]. apply Hup.
  - cbn [up_sep List.map]. rewrite lay_join_cons2, !toks_i_app, Hsep, Hup. cbn [app].
    rewrite (IH y k). cbn [List.map]. repeat rewrite <- app_assoc. reflexivity.
Qed.

Lemma join_app sep (a b : list bytes) :
  join sep (a ++ b) = join sep a ++ (match a, b with _ :: _, _ :: _ => sep | _, _ => [] end) ++ join sep b.
Proof.
  induction a as [|x [|y a] IH].
  - cbn. reflexivity.
  - destruct b as [|z b]; [cbn; rewrite app_nil_r; reflexivity|]. cbn [app]. rewrite join_cons2. reflexivity.
  - cbn [app] in *. rewrite join_cons2, IH, join_cons2. destruct b; repeat rewrite <- app_assoc; reflexivity.
Qed.

(* ---------- rule bodies ---------- *)
Definition lay_re (x : RuleElement) : list item :=
  match x with REPred p => lay_pred p | REExpr e => lay_expression e end.
Lemma up_lay_re x k : up_re x k = toks_i (lay_re x) ++ k.
Proof. destruct x as [p|e]; cbn [up_re lay_re]; [apply up_lay_pred|apply (proj1 up_lay_expr_all)]. Qed.

Definition pr_re (x : RuleElement) : bool :=
  match x with
  | REPred p => printable_pred p
  | REExpr e => pr_expression e && (olen (to_ops e) <=? 1000)
  end.
Definition is_expr (x : RuleElement) : bool := match x with REExpr _ => true | _ => false end.
(* the order the printers use: predicates first, then expressions *)
Fixpoint nf_elems (l : list RuleElement) : bool :=
  match l with
  | [] => true
  | REPred _ :: l' => nf_elems l'
  | REExpr _ :: l' => forallb is_expr l'
  end.
Definition str_re (x : RuleElement) : bytes := flat_i (lay_re x).

Lemma exprs_nf l : forallb is_expr l = true -> nf_elems l = true.
Proof. destruct l as [|[p|e] l]; cbn; intros H; try reflexivity; try discriminate. exact H. Qed.

Lemma body_exprs_only : forall l, forallb is_expr l = true ->
  forall qs os, body_to_biscuit [] l = Ok (qs, os) -> qs = [].
Proof.
  induction l as [|[p|e] l IH]; intros H qs os Hb.
  - cbn in Hb. congruence.
  - discriminate.
  - cbn [forallb is_expr] in H. cbn [body_to_biscuit] in Hb.
    destruct (expr_to_biscuit [] e) as [x| |]; cbn [bind] in Hb; try discriminate.
    destruct (body_to_biscuit [] l) as [[qs' os']| |] eqn:E; cbn [bind fst snd] in Hb; try discriminate.
    injection Hb as <- <-. apply (IH H qs' os' eq_refl).
Qed.

Lemma body_print : forall l, nf_elems l = true -> forallb pr_re l = true ->
  exists qs os, body_to_biscuit [] l = Ok (qs, os) /\
    List.map (print_pred sidx) qs ++ List.map (print_expr sidx) os = List.map str_re l.
Proof.
  induction l as [|[p|e] l IH]; intros Hnf Hpr.
  - exists [], []. split; reflexivity.
  - cbn [nf_elems] in Hnf. cbn [forallb pr_re] in Hpr. apply andb_true_iff in Hpr as [Hp Hl].
    destruct (IH Hnf Hl) as (qs & os & Hb & Hs). destruct (pred_print p Hp) as (q & Hq & Hpq).
    exists (q :: qs), os. cbn [body_to_biscuit]. rewrite Hq. cbn [bind]. rewrite Hb. cbn [bind fst snd].
    split; [reflexivity|]. cbn [List.map app]. rewrite Hs, Hpq. reflexivity.
  - cbn [nf_elems] in Hnf. cbn [forallb pr_re] in Hpr. apply andb_true_iff in Hpr as [He Hl].
    apply andb_true_iff in He as [He Hn]. apply N.leb_le in Hn.
    destruct (IH (exprs_nf l Hnf) Hl) as (qs & os & Hb & Hs).
    pose proof (body_exprs_only l Hnf qs os Hb) as Hqs. subst qs.
    destruct (C15_print_expr e He Hn) as (o & Ho & Hpo).
    exists [], (o :: os). cbn [body_to_biscuit]. rewrite Ho. cbn [bind]. rewrite Hb. cbn [bind fst snd].
    split; [reflexivity|]. cbn [List.map app] in *. rewrite Hs, Hpo. reflexivity.
Qed.

Notation comma_sep := [IT t_comma; sp].
Definition lay_body (l : list RuleElement) : list item := lay_join comma_sep (List.map lay_re l).

Lemma print_body_spec r :
  print_body sidx r =
  join S_comma_sp (List.map (print_pred sidx) (r_body r) ++ List.map (print_expr sidx) (r_exprs r)).
Proof.
  unfold print_body. rewrite join_app. destruct (r_body r), (r_exprs r); reflexivity.
Qed.

Lemma body_flat l qs os h :
  List.map (print_pred sidx) qs ++ List.map (print_expr sidx) os = List.map str_re l ->
  print_body sidx {| r_head := h; r_body := qs; r_exprs := os |} = flat_i (lay_body l).
Proof.
  intros H. rewrite print_body_spec. cbn [r_body r_exprs]. rewrite H.
  unfold lay_body. rewrite flat_lay_join, map_map. reflexivity.
Qed.

Lemma up_lay_body x xs k :
  up_re x (up_sep up_re t_comma xs k) = toks_i (lay_body (x :: xs)) ++ k.
Proof. apply (toks_lay_join up_re lay_re t_comma comma_sep up_lay_re eq_refl). Qed.

(* ---------- check queries and checks ---------- *)
Definition lay_cq (q : CheckQuery) : list item := lay_body (cq_first q :: cq_more q).
Definition pr_cq (q : CheckQuery) : bool :=
  nf_elems (cq_first q :: cq_more q) && forallb pr_re (cq_first q :: cq_more q).

Lemma up_lay_cq q k : up_cq q k = toks_i (lay_cq q) ++ k.
Proof. unfold up_cq, lay_cq. apply up_lay_body. Qed.

Lemma cq_print q :
  pr_cq q = true ->
  exists r, query_to_biscuit [] q = Ok r /\ print_check_query sidx r = flat_i (lay_cq q).
Proof.
  unfold pr_cq. intros H. apply andb_true_iff in H as [H1 H2].
  destruct (body_print _ H1 H2) as (qs & os & Hb & Hs).
  exists {| r_head := query_head; r_body := qs; r_exprs := os |}. unfold query_to_biscuit. rewrite Hb.
  cbn [bind fst snd]. split; [reflexivity|]. unfold print_check_query, lay_cq. apply body_flat. exact Hs.
Qed.

Lemma queries_print : forall l, forallb pr_cq l = true ->
  exists rs, queries_to_biscuit [] l = Ok rs /\
             List.map (print_check_query sidx) rs = List.map (fun q => flat_i (lay_cq q)) l.
Proof.
  induction l as [|q l IH]; intros H.
  - exists []. split; reflexivity.
  - cbn [forallb] in H. apply andb_true_iff in H as [Hq Hl].
    destruct (cq_print q Hq) as (r & Hr & Hp). destruct (IH Hl) as (rs & Hrs & Hm).
    exists (r :: rs). cbn [queries_to_biscuit]. rewrite Hr. cbn [bind]. rewrite Hrs. cbn [bind].
    split; [reflexivity|]. cbn [List.map]. rewrite Hp, Hm. reflexivity.
Qed.

Notation or_sep := [sp; IT t_or; sp].
Definition lay_check (c : Check) : list item :=
  IT t_check_if :: sp :: lay_join or_sep (List.map lay_cq (ck_first c :: ck_more c)).
Definition pr_check (c : Check) : bool := forallb pr_cq (ck_first c :: ck_more c).

Lemma up_lay_check c k : up_check c k = toks_i (lay_check c) ++ k.
Proof.
  unfold up_check, up_queries, lay_check. cbn [toks_i app]. f_equal.
  apply (toks_lay_join up_cq lay_cq t_or or_sep up_lay_cq eq_refl).
Qed.

Lemma check_print c :
  pr_check c = true ->
  exists x, check_to_biscuit [] c = Ok x /\ print_check sidx x = flat_i (lay_check c).
Proof.
  unfold pr_check, check_to_biscuit. intros H. destruct (queries_print _ H) as (rs & Hrs & Hm).
  exists rs. split; [exact Hrs|]. unfold print_check, lay_check. rewrite Hm.
  cbn [flat_i]. rewrite flat_lay_join, map_map. reflexivity.
Qed.

(* ---------- block elements and blocks ---------- *)
Notation arrow_sep := [sp; IT t_arrow; sp].
Definition lay_be (e : BlockElement) : list item :=
  match e with
  | BECheck c => lay_check c
  | BEPred p None => lay_pred p
  | BEPred p (Some (x, xs)) => lay_pred p ++ arrow_sep ++ lay_body (x :: xs)
  end.
Definition pr_be (e : BlockElement) : bool :=
  match e with
  | BECheck c => pr_check c
  | BEPred p None => printable_pred p
  | BEPred p (Some (x, xs)) => printable_pred p && nf_elems (x :: xs) && forallb pr_re (x :: xs)
  end.

Lemma up_lay_be e k : up_be e k = toks_i (lay_be e) ++ k.
Proof.
  destruct e as [c|p [[x xs]|]]; cbn [up_be lay_be].
  - apply up_lay_check.
  - rewrite up_lay_pred, !toks_i_app. cbn [toks_i app]. rewrite up_lay_body.
    repeat rewrite <- app_assoc. reflexivity.
  - apply up_lay_pred.
Qed.

Definition be_class (e : BlockElement) : N :=
  match e with BEPred _ None => 0 | BEPred _ (Some _) => 1 | BECheck _ => 2 end.
(* the order Block.Code prints: facts, then rules, then checks *)
Fixpoint sorted3 (l : list BlockElement) : bool :=
  match l with
  | [] => true
  | e :: l' => forallb (fun e' => be_class e <=? be_class e') l' && sorted3 l'
  end.
Definition str_be (e : BlockElement) : bytes := flat_i (lay_be e).

Lemma rule_print p x xs :
  printable_pred p = true -> nf_elems (x :: xs) = true -> forallb pr_re (x :: xs) = true ->
  exists r, rule_parts_to_biscuit [] p (x :: xs) = Ok r /\
            print_rule sidx r = flat_i (lay_pred p ++ arrow_sep ++ lay_body (x :: xs)).
Proof.
  intros Hp Hnf Hpr. destruct (body_print _ Hnf Hpr) as (qs & os & Hb & Hs).
  destruct (pred_print p Hp) as (q & Hq & Hpq).
  exists {| r_head := q; r_body := qs; r_exprs := os |}. unfold rule_parts_to_biscuit.
  rewrite Hb. cbn [bind]. rewrite Hq. cbn [bind fst snd]. split; [reflexivity|].
  unfold print_rule. cbn [r_head]. rewrite (body_flat _ qs os q Hs), Hpq, !flat_i_app. reflexivity.
Qed.

Lemma forallb_weaken {A} (p q : A -> bool) l :
  (forall a, p a = true -> q a = true) -> forallb p l = true -> forallb q l = true.
Proof.
  intros H. induction l as [|a l IH]; [reflexivity|]. cbn [forallb]. intros Hp.
  apply andb_true_iff in Hp as [H1 H2]. rewrite (H a H1), (IH H2). reflexivity.
Qed.

Lemma block_print : forall l b0,
  sorted3 l = true -> forallb pr_be l = true ->
  exists fs rs cs,
    block_elements_to_biscuit [] b0 l =
      Ok {| b_facts := b_facts b0 ++ fs; b_rules := b_rules b0 ++ rs; b_checks := b_checks b0 ++ cs |} /\
    List.map (print_pred sidx) fs ++ List.map (print_rule sidx) rs ++ List.map (print_check sidx) cs
      = List.map str_be l /\
    (forallb (fun e => 1 <=? be_class e) l = true -> fs = []) /\
    (forallb (fun e => 2 <=? be_class e) l = true -> rs = []).
Proof.
  induction l as [|e l IH]; intros b0 Hs Hp.
  - exists [], [], []. cbn [block_elements_to_biscuit]. rewrite !app_nil_r. destruct b0.
    repeat split; reflexivity.
  - cbn [sorted3] in Hs. apply andb_true_iff in Hs as [Hcls Hs]. cbn [forallb] in Hp.
    apply andb_true_iff in Hp as [He Hl]. cbn [block_elements_to_biscuit].
    destruct e as [c|p [[x xs]|]]; cbn [pr_be be_class] in *.
    + (* check *) destruct (check_print c He) as (xc & Hc & Hpc).
      cbn [block_element_to_biscuit]. rewrite Hc. cbn [bind].
      destruct (IH (add_check b0 xc) Hs Hl) as (fs & rs & cs & Hb & Hstr & Hf & Hr).
      assert (Hcls1 : forallb (fun e => 1 <=? be_class e) l = true).
      { apply (forallb_weaken (fun e' => 2 <=? be_class e')); [|exact Hcls]. intros a Ha. lia. }
      specialize (Hf Hcls1).
      specialize (Hr Hcls). subst fs rs.
      exists [], [], (xc :: cs). cbn [add_check b_facts b_rules b_checks] in Hb. rewrite Hb.
      rewrite <- app_assoc. cbn [app]. split; [reflexivity|].
      cbn [List.map app] in *. rewrite Hstr. unfold str_be at 2. cbn [lay_be]. rewrite Hpc.
      split; [reflexivity|]. split; intros _; reflexivity.
    + (* rule *) apply andb_true_iff in He as [He He3]. apply andb_true_iff in He as [He1 He2].
      destruct (rule_print p x xs He1 He2 He3) as (r & Hrr & Hpr).
      cbn [block_element_to_biscuit fst snd]. rewrite Hrr. cbn [bind].
      destruct (IH (add_rule b0 r) Hs Hl) as (fs & rs & cs & Hb & Hstr & Hf & Hr).
      specialize (Hf Hcls). subst fs.
      exists [], (r :: rs), cs. cbn [add_rule b_facts b_rules b_checks] in Hb. rewrite Hb.
      rewrite <- app_assoc. cbn [app]. split; [reflexivity|].
      cbn [List.map app] in *. rewrite Hstr. unfold str_be at 2. cbn [lay_be]. rewrite Hpr.
      split; [reflexivity|]. split; [intros _; reflexivity|]. intros Hx. cbn in Hx. discriminate Hx.
    + (* fact *) destruct (pred_print p He) as (q & Hq & Hpq).
      cbn [block_element_to_biscuit]. rewrite Hq. cbn [bind].
      destruct (IH (add_fact b0 q) Hs Hl) as (fs & rs & cs & Hb & Hstr & Hf & Hr).
      exists (q :: fs), rs, cs. cbn [add_fact b_facts b_rules b_checks] in Hb. rewrite Hb.
      rewrite <- app_assoc. cbn [app]. split; [reflexivity|].
      cbn [List.map app] in *. rewrite Hstr. unfold str_be at 2. cbn [lay_be]. rewrite Hpq.
      split; [reflexivity|]. split; [intros Hx; cbn in Hx; discriminate Hx|].
      intros Hx. cbn in Hx. discriminate Hx.
Qed.

Definition lay_block (B : Block) : list item :=
  List.concat (List.map (fun e => lay_be e ++ [IT t_semi]) (bl_body B)).

Lemma up_lay_semi l : up_semi up_be l [] = toks_i (List.concat (List.map (fun e => lay_be e ++ [IT t_semi]) l)).
Proof.
  induction l as [|e l IH]; [reflexivity|].
  cbn [up_semi List.map List.concat]. rewrite up_lay_be, !toks_i_app, IH. cbn [toks_i].
  repeat rewrite <- app_assoc. reflexivity.
Qed.

Lemma flat_lay_semi l :
  flat_i (List.concat (List.map (fun e => lay_be e ++ [IT t_semi]) l))
  = List.concat (List.map (fun s => s ++ S_semi) (List.map str_be l)).
Proof.
  induction l as [|e l IH]; [reflexivity|].
  cbn [List.map List.concat]. rewrite !flat_i_app, IH. cbn [flat_i]. unfold str_be.
  repeat rewrite <- app_assoc. reflexivity.
Qed.

(* parsing a text given as items, with arbitrary layout *)
Lemma parse_block_items B l ps :
  wfb_block B = true -> toks_i l = up_block B -> lexable_i_any l = true ->
  parse_block (flat_i l) ps = block_to_biscuit ps B.
Proof.
  intros Hwf Hmap Hlex. unfold parse_block. rewrite (lex_items_any l Hlex), Hmap. cbn [bind].
  rewrite (run_ok parse_block_g (up_block B) B); [reflexivity|].
  apply parse_unparse_block. apply fits_block_wf. exact Hwf.
Qed.

(* the text the printers emit for a block of the printable domain is the layout [lay_block] *)
Lemma printed_block_text B b :
  sorted3 (bl_body B) = true -> forallb pr_be (bl_body B) = true -> block_to_biscuit [] B = Ok b ->
  reassemble (print_block sidx b) = flat_i (lay_block B).
Proof.
  intros Hsorted Hpr Hb.
  destruct (block_print (bl_body B) empty_block Hsorted Hpr) as (fs & rs & cs & Hconv & Hstr & _ & _).
  unfold block_to_biscuit in Hb. rewrite Hconv in Hb. cbn [empty_block b_facts b_rules b_checks app] in Hb.
  injection Hb as <-.
  unfold reassemble, print_block, lay_block. cbn [pr_facts pr_rules pr_checks b_facts b_rules b_checks].
  rewrite Hstr, flat_lay_semi. reflexivity.
Qed.

Lemma toks_lay_block B : bl_comments B = [] -> toks_i (lay_block B) = up_block B.
Proof. intros Hcs. unfold lay_block, up_block. rewrite Hcs. cbn [up_comments]. symmetry. apply up_lay_semi. Qed.

(* C15: the text printed for a block parses back to the block.
   [B] is the block's content as a grammar tree in the printers' order (facts, rules,
   checks; predicates before expressions); [pr_be] is the printable domain of the
   property, [wfb_block] and [lexable_i] the side conditions of the parser and lexer
   round trips, all three computable. *)
Theorem C15_roundtrip : forall B b,
  bl_comments B = [] -> sorted3 (bl_body B) = true -> forallb pr_be (bl_body B) = true ->
  wfb_block B = true -> lexable_i (lay_block B) = true ->
  block_to_biscuit [] B = Ok b ->
  parse_block (reassemble (print_block sidx b)) [] = Ok b.
Proof.
  intros B b Hcs Hsorted Hpr Hwf Hlex Hb.
  rewrite (printed_block_text B b Hsorted Hpr Hb).
  rewrite (parse_block_items B (lay_block B) [] Hwf (toks_lay_block B Hcs) (lexable_i_any_of _ Hlex)).
  exact Hb.
Qed.

(* ... and so does every other layout of the printed tokens: any text [flat_i l] (arbitrary
   runs of spaces, tabs, \n, \r anywhere between the tokens, [lexable_i_any]) whose tokens
   are those of the printed text *)
Theorem C15_roundtrip_relayout : forall B b l,
  bl_comments B = [] -> sorted3 (bl_body B) = true -> forallb pr_be (bl_body B) = true ->
  wfb_block B = true -> lexable_i (lay_block B) = true ->
  block_to_biscuit [] B = Ok b ->
  lexable_i_any l = true -> lex (reassemble (print_block sidx b)) = Ok (toks_i l) ->
  parse_block (flat_i l) [] = Ok b.
Proof.
  intros B b l Hcs Hsorted Hpr Hwf Hlex Hb Hany Htoks.
  rewrite (printed_block_text B b Hsorted Hpr Hb), (lex_items _ Hlex), (toks_lay_block B Hcs) in Htoks.
  injection Htoks as Htoks.
  rewrite (parse_block_items B l [] Hwf (eq_sym Htoks) Hany). exact Hb.
Qed.
End PrintProofs.

(* non-vacuity: a block with facts, rules with expressions of every level, and checks *)
Definition ex_block_text : string :=
  "right(""file1"", ""read"");owner(""alice"", hex:0aff, [1, 2, 3]);valid($f) <- resource($f), owner($u, $f), $u == ""alice"" || !$f.starts_with(""/tmp"") && 1 + 2 * 3 - 4 / 2 <= [1, 2].length();check if time($t), $t < 2030-01-01T00:00:00Z or admin(true), ($t + 1).contains([false]);".
Definition ex_block : Block :=
  match lex (bs ex_block_text) with
  | Ok ts => match run parse_block_g ts with Ok b => b | _ => MkBlock [] [] end
  | _ => MkBlock [] []
  end.
Example C15_roundtrip_nonvacuous :
  bl_comments ex_block = [] /\ sorted3 (bl_body ex_block) = true /\ forallb pr_be (bl_body ex_block) = true /\
  wfb_block ex_block = true /\ lexable_i (lay_block ex_block) = true /\
  is_ok (block_to_biscuit [] ex_block) = true /\ List.length (bl_body ex_block) = 4%nat /\
  flat_i (lay_block ex_block) = bs ex_block_text.
Proof. vm_compute. repeat split. Qed.

(* why each exclusion of the printable domain is needed *)
Definition fact_block (t : term) : block :=
  {| b_facts := [{| p_name := bs "a"; p_terms := [t] |}]; b_rules := []; b_checks := [] |}.
Definition reparse (b : block) : res block := parse_block (reassemble (print_block (fun _ => 1024) b)) [].
Definition same_block (r : res block) (b : block) : bool :=
  match r with
  | Ok b' => list_eqb pred_seqb (b_facts b') (b_facts b)
  | _ => false
  end.

Example C15_domain_is_tight :
  (* in the domain: fine *)
  same_block (reparse (fact_block (TA (AStr (bs "x"))))) (fact_block (TA (AStr (bs "x")))) = true /\
  same_block (reparse (fact_block (TSet [AInt 1; AInt 2]))) (fact_block (TSet [AInt 1; AInt 2])) = true /\
  (* a string starting with hex: is read back as bytes *)
  reparse (fact_block (TA (AStr (bs "hex:41")))) = Ok (fact_block (TA (ABytes [65]))) /\
  (* a quote inside a string, a set of strings (printed by index), a date after 9999 *)
  reparse (fact_block (TA (AStr [97; 34; 98]))) = Err EParse /\
  reparse (fact_block (TSet [AStr (bs "x")])) = Err EParse /\
  reparse (fact_block (TA (ADate 253402300800))) = Err EParse /\
  (* a set whose elements are not in printed order comes back reordered *)
  reparse (fact_block (TSet [AInt 2; AInt 1])) = Ok (fact_block (TSet [AInt 1; AInt 2])) /\
  reparse (fact_block (TSet [AInt 10; AInt 9])) = Ok (fact_block (TSet [AInt 10; AInt 9])).
Proof. vm_compute. repeat split. Qed.

(* negative integers are NOT an exclusion (tag @("-":Operator? Int)): the printed "-5" lexes as
   the Operator "-" and the Int "5" and is read back as the integer, down to MinInt64 *)
Example C15_negative_int_roundtrips :
  same_block (reparse (fact_block (TA (AInt (-5))))) (fact_block (TA (AInt (-5)))) = true /\
  reparse (fact_block (TA (AInt (-5)))) = Ok (fact_block (TA (AInt (-5)))) /\
  reparse (fact_block (TA (AInt (-9223372036854775808)))) = Ok (fact_block (TA (AInt (-9223372036854775808)))) /\
  (* in a set the elements are printed in string order: "-2" before "1" *)
  reparse (fact_block (TSet [AInt (-2); AInt 1])) = Ok (fact_block (TSet [AInt (-2); AInt 1])) /\
  reparse (fact_block (TSet [AInt 1; AInt (-2)])) = Ok (fact_block (TSet [AInt (-2); AInt 1])) /\
  lex (reassemble (print_block (fun _ => 1024) (fact_block (TA (AInt (-5)))))) =
    Ok [Tok KIdent (bs "a"); t_lparen; t_minus; Tok KInt (bs "5"); t_rparen; t_semi].
Proof. vm_compute. repeat split. Qed.

(* the string "!" is NOT an exclusion (tag @("!":Punct)?): as a whole expression, as an operand
   and under a negation it is printed as the String literal and read back as the string *)
Definition bang_str_block : block :=
  {| b_facts := []; b_rules := [];
     b_checks := [[{| r_head := query_head; r_body := [];
                      r_exprs := [[OVal (TA (AStr [33]))];
                                  [OVal (TA (AVar (bs "a"))); OVal (TA (AStr [33])); OBin BEqual];
                                  [OVal (TA (AStr [33])); OUn UNegate]] |}]] |}.
Example C15_bang_string_roundtrips : reparse bang_str_block = Ok bang_str_block.
Proof. vm_compute. reflexivity. Qed.

(* ================================================================== *)
(* lexability of the printers' layouts from per-token conditions        *)
(* ================================================================== *)
Definition item_ok (x : item) (nx : option N) : bool :=
  match x with
  | IT t => tok_ok t nx && forallb in_domain (src t)
  | IW c => ((c =? 32) || (c =? 10)) && nonws_nx nx
  end.
Definition next_byte (l : list item) (nx : option N) : option N :=
  match l with [] => nx | y :: _ => first_byte y end.
(* every item is fine given the first byte of what follows it; [nx] follows the list *)
Fixpoint lex_loc (l : list item) (nx : option N) : bool :=
  match l with
  | [] => true
  | x :: l' => item_ok x (next_byte l' nx) && lex_loc l' nx
  end.

Lemma next_byte_app a b nx : next_byte (a ++ b) nx = next_byte a (next_byte b nx).
Proof. destruct a; reflexivity. Qed.
Lemma lex_loc_app a b nx : lex_loc (a ++ b) nx = lex_loc a (next_byte b nx) && lex_loc b nx.
Proof.
  induction a as [|x a IH]; [reflexivity|]. cbn [app lex_loc]. rewrite IH, next_byte_app, andb_assoc. reflexivity.
Qed.

Lemma lex_loc_follow l : lex_loc l None = true -> follow (flat_i l) = next_byte l None.
Proof.
  destruct l as [|[t|c] l]; [reflexivity| |reflexivity]. cbn [lex_loc item_ok]. intros H.
  apply andb_true_iff in H as [H _]. apply andb_true_iff in H as [H _].
  pose proof (tok_ok_src_nonempty t _ H) as Hne. cbn [flat_i next_byte first_byte].
  destruct (src t); [congruence|reflexivity].
Qed.

Lemma lex_loc_lexable : forall l, lex_loc l None = true -> lexable_i l = true.
Proof.
  induction l as [|x l IH]; [reflexivity|]. cbn [lex_loc]. intros H. apply andb_true_iff in H as [Hx Hl].
  pose proof (lex_loc_follow l Hl) as Hf. specialize (IH Hl).
  destruct x as [t|c]; cbn [lexable_i item_ok] in *.
  - apply andb_true_iff in Hx as [Ht Hd]. rewrite Hf, Ht, Hd, IH. reflexivity.
  - apply andb_true_iff in Hx as [Hc Hn]. rewrite Hc, IH.
    assert (Hh : hd_nonws (flat_i l) = nonws_nx (follow (flat_i l))) by (destruct (flat_i l); reflexivity).
    rewrite Hh, Hf, Hn. reflexivity.
Qed.

(* the contexts the printers put an operand in: end of text, " ", ")", ",", ";", ".", "]" *)
Definition safe_list : list (option N) := [None; Some 32; Some 41; Some 44; Some 59; Some 46; Some 93].
Definition safe (nx : option N) : bool :=
  match nx with None => true | Some c => existsb (N.eqb c) [32; 41; 44; 59; 46; 93] end.
Definition tok_safe (t : token) : bool :=
  forallb (tok_ok t) safe_list && forallb in_domain (src t).

Lemma tok_safe_ok t nx : tok_safe t = true -> safe nx = true -> item_ok (IT t) nx = true.
Proof.
  unfold tok_safe, item_ok. intros H Hs. apply andb_true_iff in H as [H Hd]. rewrite Hd, andb_true_r.
  cbn [safe_list forallb] in H.
  repeat match goal with Hx : (_ && _) = true |- _ => apply andb_true_iff in Hx; destruct Hx end.
  destruct nx as [c|]; [|assumption]. cbn [safe existsb] in Hs.
  repeat (apply orb_true_iff in Hs; destruct Hs as [Hs|Hs]; [apply N.eqb_eq in Hs; subst c; assumption|]).
  discriminate.
Qed.


Definition head_nonws (l : list item) : bool :=
  match l with x :: _ => nonws_nx (first_byte x) && negb (is_nil l) | [] => false end.

(* punctuation and keywords that are lexable whatever follows *)
Lemma item_ok_any t : (forall nx, tok_ok t nx = true) -> forallb in_domain (src t) = true -> forall nx, item_ok (IT t) nx = true.
Proof. intros H Hd nx. cbn [item_ok]. rewrite H, Hd. reflexivity. Qed.
Lemma ok_lparen nx : item_ok (IT t_lparen) nx = true. Proof. reflexivity. Qed.
Lemma ok_rparen nx : item_ok (IT t_rparen) nx = true. Proof. reflexivity. Qed.
Lemma ok_lbrack nx : item_ok (IT t_lbrack) nx = true. Proof. reflexivity. Qed.
Lemma ok_rbrack nx : item_ok (IT t_rbrack) nx = true. Proof. reflexivity. Qed.
Lemma ok_comma nx : item_ok (IT t_comma) nx = true. Proof. reflexivity. Qed.
Lemma ok_semi nx : item_ok (IT t_semi) nx = true. Proof. reflexivity. Qed.
Lemma ok_bang nx : item_ok (IT t_bang) nx = true. Proof. reflexivity. Qed.
Lemma ok_dot nx : item_ok (IT t_dot) nx = true. Proof. reflexivity. Qed.
Lemma ok_check_if nx : item_ok (IT t_check_if) nx = true. Proof. reflexivity. Qed.
Lemma ok_sp nx : nonws_nx nx = true -> item_ok (IW 32) nx = true.
Proof. intros H. cbn. exact H. Qed.

(* ---------- terms ---------- *)
Fixpoint ls_term (t : gterm) : bool :=
  match t with
  | GSet x xs => ls_term x && ls_terms xs
  | _ => tok_safe (term_tok t)
  end
with ls_terms (xs : gterms) : bool :=
  match xs with GNil => true | GCons y ys => ls_term y && ls_terms ys end.

Lemma tok_safe_first t : tok_safe t = true -> nonws_nx (first_byte (IT t)) = true.
Proof.
  unfold tok_safe. intros H. apply andb_true_iff in H as [H _]. cbn [safe_list forallb] in H.
  apply andb_true_iff in H as [H _]. exact (tok_ok_first t None H).
Qed.

Lemma head_term t : ls_term t = true -> head_nonws (lay_term t) = true.
Proof.
  destruct t as [n|n|h|s|s|z|b|x xs]; cbn [ls_term lay_term]; unfold sign_items, neg_term;
    try destruct (z <? 0)%Z; cbn [app head_nonws]; intros H;
    try (rewrite (tok_safe_first _ H); reflexivity); reflexivity.
Qed.

Lemma ok_minus nx : item_ok (IT t_minus) nx = true. Proof. reflexivity. Qed.

Lemma next_commas xs nx : safe nx = true -> safe (next_byte (lay_commas xs) nx) = true.
Proof. intros H. destruct xs; [exact H|reflexivity]. Qed.

Lemma term_lex_all :
  (forall t, ls_term t = true -> forall nx, safe nx = true -> lex_loc (lay_term t) nx = true) /\
  (forall xs, ls_terms xs = true -> forall nx, safe nx = true -> lex_loc (lay_commas xs) nx = true).
Proof.
  apply gterm_mutind;
    try (intros; cbn [lay_term]; unfold sign_items, neg_term; cbn [app lex_loc next_byte];
         rewrite tok_safe_ok by assumption; reflexivity).
  - (* GInt: "-" is lexable whatever follows, the digits as before *)
    intros z H nx Hnx. cbn [ls_term term_tok] in H. cbn [lay_term term_tok]. unfold sign_items, neg_term.
    destruct (z <? 0)%Z; cbn [app lex_loc next_byte]; rewrite ?ok_minus, tok_safe_ok by assumption; reflexivity.
  - intros x IHx xs IHxs H nx Hnx. cbn [ls_term] in H. apply andb_true_iff in H as [Hx Hxs].
    cbn [lay_term lex_loc]. rewrite ok_lbrack. cbn [andb].
    rewrite lex_loc_app, lex_loc_app. cbn [lex_loc next_byte]. rewrite ok_rbrack.
    rewrite (IHxs Hxs (first_byte (IT t_rbrack)) eq_refl).
    rewrite IHx; [reflexivity|exact Hx|].
    rewrite next_byte_app. apply next_commas. reflexivity.
  - intros _ nx _. reflexivity.
  - intros y IHy ys IHys H nx Hnx. cbn [ls_terms] in H. apply andb_true_iff in H as [Hy Hys].
    cbn [lay_commas lex_loc]. cbn [next_byte first_byte]. rewrite ok_comma. cbn [andb].
    rewrite lex_loc_app, (IHys Hys nx Hnx), (IHy Hy) by (apply next_commas; exact Hnx).
    rewrite next_byte_app.
    pose proof (head_term y Hy) as Hh. destruct (lay_term y) as [|i l]; [discriminate|].
    cbn [head_nonws] in Hh. apply andb_true_iff in Hh as [Hh _].
    cbn [next_byte]. rewrite (ok_sp _ Hh). reflexivity.
Qed.

(* ---------- expressions ---------- *)
Definition leaf_safe (o : gop) : Prop := match o with GVal t => ls_term t = true | _ => True end.
Notation LS ops := (Forall leaf_safe ops).

Lemma lex_op t l nx :
  nonws_nx (first_byte (IT t)) = true -> item_ok (IT t) (Some 32) = true ->
  head_nonws l = true -> lex_loc l nx = true -> lex_loc (IW 32 :: IT t :: IW 32 :: l) nx = true.
Proof.
  intros H1 H2 H3 H4. destruct l as [|i l]; [discriminate|].
  cbn [head_nonws] in H3. apply andb_true_iff in H3 as [H3 _].
  cbn [lex_loc next_byte] in *. rewrite (ok_sp _ H1). cbn [first_byte] in *. rewrite H2, (ok_sp _ H3).
  exact H4.
Qed.

Lemma head_app a b : head_nonws a = true -> head_nonws (a ++ b) = true.
Proof. destruct a; [discriminate|]. cbn. intros H. exact H. Qed.

Lemma lex_cat a b nx :
  lex_loc a (next_byte b nx) = true -> lex_loc b nx = true -> lex_loc (a ++ b) nx = true.
Proof. intros H1 H2. rewrite lex_loc_app, H1, H2. reflexivity. Qed.

Lemma LS_app a b : LS (a ++ b) -> LS a /\ LS b.
Proof. apply Forall_app. Qed.

Lemma expr_lex_all :
  (forall e, LS (to_ops e) -> forall nx, safe nx = true ->
     lex_loc (lay_expression e) nx = true /\ head_nonws (lay_expression e) = true) /\
  (forall r, LS (ops_o1 r) -> forall nx, safe nx = true ->
     lex_loc (lay_o1 r) nx = true /\ safe (next_byte (lay_o1 r) nx) = true) /\
  (forall e, LS (ops_e1 e) -> forall nx, safe nx = true ->
     lex_loc (lay_e1 e) nx = true /\ head_nonws (lay_e1 e) = true) /\
  (forall r, LS (ops_o2 r) -> forall nx, safe nx = true ->
     lex_loc (lay_o2 r) nx = true /\ safe (next_byte (lay_o2 r) nx) = true) /\
  (forall e, LS (ops_e2 e) -> forall nx, safe nx = true ->
     lex_loc (lay_e2 e) nx = true /\ head_nonws (lay_e2 e) = true) /\
  (forall r, LS (ops_o3 r) -> forall nx, safe nx = true ->
     lex_loc (lay_o3 r) nx = true /\ safe (next_byte (lay_o3 r) nx) = true) /\
  (forall e, LS (ops_e3 e) -> forall nx, safe nx = true ->
     lex_loc (lay_e3 e) nx = true /\ head_nonws (lay_e3 e) = true) /\
  (forall r, LS (ops_o4 r) -> forall nx, safe nx = true ->
     lex_loc (lay_o4 r) nx = true /\ safe (next_byte (lay_o4 r) nx) = true) /\
  (forall e, LS (ops_e4 e) -> forall nx, safe nx = true ->
     lex_loc (lay_e4 e) nx = true /\ head_nonws (lay_e4 e) = true) /\
  (forall r, LS (ops_o5 r) -> forall nx, safe nx = true ->
     lex_loc (lay_o5 r) nx = true /\ safe (next_byte (lay_o5 r) nx) = true) /\
  (forall e, LS (ops_e5 e) -> forall nx, safe nx = true ->
     lex_loc (lay_e5 e) nx = true /\ head_nonws (lay_e5 e) = true) /\
  (forall e, LS (ops_e6 e) -> forall nx, safe nx = true ->
     lex_loc (lay_e6 e) nx = true /\ head_nonws (lay_e6 e) = true) /\
  (forall r, LS (ops_o7 r) -> forall nx, safe nx = true ->
     lex_loc (lay_o7 r) nx = true /\ safe (next_byte (lay_o7 r) nx) = true) /\
  (forall a, LS (ops_oe a) -> lex_loc (lay_oe a) (Some 41) = true) /\
  (forall t, LS (ops_et t) -> forall nx, safe nx = true ->
     lex_loc (lay_et t) nx = true /\ head_nonws (lay_et t) = true).
Proof.
  apply expr_mutind.
  - (* Expression *) intros l L r R H nx Hnx. cbn [to_ops] in H. apply LS_app in H as [Hl Hr].
    destruct (R Hr nx Hnx) as [R1 R2]. destruct (L Hl _ R2) as [L1 L2].
    cbn [lay_expression]. split; [apply lex_cat; assumption|apply head_app; exact L2].
  - intros _ nx Hnx. split; [reflexivity|exact Hnx].
  - (* O1Cons *) intros e E r R H nx Hnx. cbn [ops_o1] in H. apply LS_app in H as [He H].
    apply LS_app in H as [_ Hr]. destruct (R Hr nx Hnx) as [R1 R2]. destruct (E He _ R2) as [E1 E2].
    cbn [lay_o1]. split; [|reflexivity].
    apply lex_op; [reflexivity|reflexivity|apply head_app; exact E2|apply lex_cat; assumption].
  - intros l L r R H nx Hnx. cbn [ops_e1] in H. apply LS_app in H as [Hl Hr].
    destruct (R Hr nx Hnx) as [R1 R2]. destruct (L Hl _ R2) as [L1 L2].
    cbn [lay_e1]. split; [apply lex_cat; assumption|apply head_app; exact L2].
  - intros _ nx Hnx. split; [reflexivity|exact Hnx].
  - intros e E r R H nx Hnx. cbn [ops_o2] in H. apply LS_app in H as [He H].
    apply LS_app in H as [_ Hr]. destruct (R Hr nx Hnx) as [R1 R2]. destruct (E He _ R2) as [E1 E2].
    cbn [lay_o2]. split; [|reflexivity].
    apply lex_op; [reflexivity|reflexivity|apply head_app; exact E2|apply lex_cat; assumption].
  - intros l L r R H nx Hnx. cbn [ops_e2] in H. apply LS_app in H as [Hl Hr].
    destruct (R Hr nx Hnx) as [R1 R2]. destruct (L Hl _ R2) as [L1 L2].
    cbn [lay_e2]. split; [apply lex_cat; assumption|apply head_app; exact L2].
  - intros _ nx Hnx. split; [reflexivity|exact Hnx].
  - (* O3Some *) intros o e E H nx Hnx. cbn [ops_o3] in H. apply LS_app in H as [He _].
    destruct (E He nx Hnx) as [E1 E2]. cbn [lay_o3]. split; [|reflexivity].
    apply lex_op; [destruct o; reflexivity|destruct o; reflexivity|exact E2|exact E1].
  - intros l L r R H nx Hnx. cbn [ops_e3] in H. apply LS_app in H as [Hl Hr].
    destruct (R Hr nx Hnx) as [R1 R2]. destruct (L Hl _ R2) as [L1 L2].
    cbn [lay_e3]. split; [apply lex_cat; assumption|apply head_app; exact L2].
  - intros _ nx Hnx. split; [reflexivity|exact Hnx].
  - intros o e E r R H nx Hnx. cbn [ops_o4] in H. apply LS_app in H as [He H].
    apply LS_app in H as [_ Hr]. destruct (R Hr nx Hnx) as [R1 R2]. destruct (E He _ R2) as [E1 E2].
    cbn [lay_o4]. split; [|reflexivity].
    apply lex_op; [destruct o; reflexivity|destruct o; reflexivity|apply head_app; exact E2|apply lex_cat; assumption].
  - intros l L r R H nx Hnx. cbn [ops_e4] in H. apply LS_app in H as [Hl Hr].
    destruct (R Hr nx Hnx) as [R1 R2]. destruct (L Hl _ R2) as [L1 L2].
    cbn [lay_e4]. split; [apply lex_cat; assumption|apply head_app; exact L2].
  - intros _ nx Hnx. split; [reflexivity|exact Hnx].
  - intros o e E r R H nx Hnx. cbn [ops_o5] in H. apply LS_app in H as [He H].
    apply LS_app in H as [_ Hr]. destruct (R Hr nx Hnx) as [R1 R2]. destruct (E He _ R2) as [E1 E2].
    cbn [lay_o5]. split; [|reflexivity].
    apply lex_op; [destruct o; reflexivity|destruct o; reflexivity|apply head_app; exact E2|apply lex_cat; assumption].
  - (* Expr5 *) intros neg e E H nx Hnx. cbn [ops_e5] in H. apply LS_app in H as [He _].
    destruct (E He nx Hnx) as [E1 E2]. cbn [lay_e5]. destruct neg; cbn [app].
    + split; [|reflexivity]. cbn [lex_loc]. rewrite ok_bang, E1. reflexivity.
    + split; assumption.
  - intros l L r R H nx Hnx. cbn [ops_e6] in H. apply LS_app in H as [Hl Hr].
    destruct (R Hr nx Hnx) as [R1 R2]. destruct (L Hl _ R2) as [L1 L2].
    cbn [lay_e6]. split; [apply lex_cat; assumption|apply head_app; exact L2].
  - intros _ nx Hnx. split; [reflexivity|exact Hnx].
  - (* O7Cons *) intros m a A r R H nx Hnx. cbn [ops_o7] in H. apply LS_app in H as [Ha H].
    apply LS_app in H as [_ Hr]. destruct (R Hr nx Hnx) as [R1 R2]. specialize (A Ha).
    cbn [lay_o7]. split; [|reflexivity].
    cbn [lex_loc next_byte]. rewrite ok_dot. cbn [andb].
    assert (Hm : item_ok (IT (t_method m)) (first_byte (IT t_lparen)) = true) by (destruct m; reflexivity).
    rewrite Hm, ok_lparen. cbn [andb].
    apply lex_cat; [exact A|]. cbn [lex_loc]. rewrite ok_rparen, R1. reflexivity.
  - reflexivity.
  - intros e E H. cbn [ops_oe] in H. cbn [lay_oe]. exact (proj1 (E H (Some 41) eq_refl)).
  - (* ETTerm *) intros t H nx Hnx. cbn [ops_et] in H. inversion H as [|o l Ht _]; subst o l. cbn [leaf_safe] in Ht.
    cbn [lay_et]. split; [apply (proj1 term_lex_all); assumption|apply head_term; exact Ht].
  - (* ETParen *) intros a A H nx Hnx. cbn [lay_et]. split; [|reflexivity].
    assert (Ha : LS (ops_oe a)).
    { destruct a as [|e]; [constructor|]. cbn [ops_et] in H. apply LS_app in H as [H _]. exact H. }
    cbn [lex_loc]. rewrite ok_lparen. cbn [andb]. apply lex_cat; [exact (A Ha)|].
    cbn [lex_loc]. rewrite ok_rparen. reflexivity.
Qed.

(* ---------- predicates, bodies, checks, blocks ---------- *)
Definition name_ok (n : bytes) : bool := tok_ok (Tok KIdent n) (Some 40) && forallb in_domain n.
Definition ls_pred (p : Predicate) : bool := name_ok (pr_name p) && ls_terms (pr_ids p).

Lemma pred_lex p nx : ls_pred p = true -> lex_loc (lay_pred p) nx = true /\ head_nonws (lay_pred p) = true.
Proof.
  destruct p as [name ids]. unfold ls_pred, lay_pred. cbn [pr_name pr_ids]. intros H.
  apply andb_true_iff in H as [Hn Hids]. unfold name_ok in Hn. apply andb_true_iff in Hn as [Hn1 Hn2]. split.
  - assert (Hname : item_ok (IT (Tok KIdent name)) (Some 40) = true).
    { cbn [item_ok]. change (src (Tok KIdent name)) with name. rewrite Hn1, Hn2. reflexivity. }
    cbn [lex_loc next_byte]. change (first_byte (IT t_lparen)) with (Some 40).
    rewrite Hname, ok_lparen. cbn [andb].
    apply lex_cat; [|cbn [lex_loc]; rewrite ok_rparen; reflexivity].
    destruct ids as [|x xs]; [reflexivity|]. cbn [ls_terms] in Hids. apply andb_true_iff in Hids as [Hx Hxs].
    cbn [lay_ids next_byte]. change (first_byte (IT t_rparen)) with (Some 41).
    apply lex_cat; [|apply (proj2 term_lex_all); [exact Hxs|reflexivity]].
    apply (proj1 term_lex_all); [exact Hx|]. apply next_commas. reflexivity.
  - cbn [head_nonws]. rewrite (tok_ok_first _ _ Hn1). reflexivity.
Qed.

Definition leaf_safe_b (o : gop) : bool := match o with GVal t => ls_term t | _ => true end.
Lemma leaf_safe_LS l : forallb leaf_safe_b l = true -> LS l.
Proof.
  intros H. apply Forall_forall. intros o Hin. rewrite forallb_forall in H. specialize (H o Hin).
  destruct o; [exact H|exact I|exact I].
Qed.

Definition ls_re (x : RuleElement) : bool :=
  match x with REPred p => ls_pred p | REExpr e => forallb leaf_safe_b (to_ops e) end.

Lemma re_lex x nx : ls_re x = true -> safe nx = true ->
  lex_loc (lay_re x) nx = true /\ head_nonws (lay_re x) = true.
Proof.
  destruct x as [p|e]; cbn [ls_re lay_re]; intros H Hnx.
  - apply pred_lex. exact H.
  - apply (proj1 expr_lex_all); [apply leaf_safe_LS; exact H|exact Hnx].
Qed.

Lemma join_lex (sep : list item) :
  (forall nx', safe (next_byte sep nx') = true) ->
  (forall l nx', head_nonws l = true -> lex_loc l nx' = true -> lex_loc (sep ++ l) nx' = true) ->
  forall ls, ls <> [] ->
    Forall (fun l => forall nx', safe nx' = true -> lex_loc l nx' = true /\ head_nonws l = true) ls ->
    forall nx, safe nx = true ->
    lex_loc (lay_join sep ls) nx = true /\ head_nonws (lay_join sep ls) = true.
Proof.
  intros Hs1 Hs2. induction ls as [|x [|y ls] IH]; intros Hne Hall nx Hnx; [congruence| |].
  - inversion Hall as [|x0 l0 Hx _]; subst x0 l0. cbn [lay_join]. apply Hx. exact Hnx.
  - inversion Hall as [|x0 l0 Hx Hrest]; subst x0 l0. rewrite lay_join_cons2.
    destruct (IH ltac:(discriminate) Hrest nx Hnx) as [I1 I2].
    destruct (Hx (next_byte (sep ++ lay_join sep (y :: ls)) nx)) as [X1 X2].
    { rewrite next_byte_app. apply Hs1. }
    split; [|apply head_app; exact X2].
    apply lex_cat; [exact X1|]. apply Hs2; assumption.
Qed.

Lemma comma_sep_1 nx' : safe (next_byte [IT t_comma; IW 32] nx') = true. Proof. reflexivity. Qed.
Lemma comma_sep_2 l nx' :
  head_nonws l = true -> lex_loc l nx' = true -> lex_loc ([IT t_comma; IW 32] ++ l) nx' = true.
Proof.
  intros H1 H2. destruct l as [|i l]; [discriminate|]. cbn [head_nonws] in H1. apply andb_true_iff in H1 as [H1 _].
  cbn [app lex_loc next_byte] in *. rewrite ok_comma, (ok_sp _ H1). exact H2.
Qed.
Lemma or_sep_1 nx' : safe (next_byte [IW 32; IT t_or; IW 32] nx') = true. Proof. reflexivity. Qed.
Lemma or_sep_2 l nx' :
  head_nonws l = true -> lex_loc l nx' = true -> lex_loc ([IW 32; IT t_or; IW 32] ++ l) nx' = true.
Proof. intros H1 H2. cbn [app]. apply lex_op; [reflexivity|reflexivity|exact H1|exact H2]. Qed.

Definition ls_body (l : list RuleElement) : bool := forallb ls_re l.

Lemma body_lex x xs nx : ls_body (x :: xs) = true -> safe nx = true ->
  lex_loc (lay_body (x :: xs)) nx = true /\ head_nonws (lay_body (x :: xs)) = true.
Proof.
  intros H Hnx. unfold lay_body.
  apply (join_lex [IT t_comma; IW 32] comma_sep_1 comma_sep_2); [discriminate| |exact Hnx].
  apply Forall_forall. intros l Hin. apply in_map_iff in Hin as (y & <- & Hy).
  unfold ls_body in H. rewrite forallb_forall in H. intros nx' Hnx'. apply re_lex; [apply H; exact Hy|exact Hnx'].
Qed.

Definition ls_cq (q : CheckQuery) : bool := ls_body (cq_first q :: cq_more q).
Definition ls_check (c : Check) : bool := forallb ls_cq (ck_first c :: ck_more c).

Lemma check_lex c nx : ls_check c = true -> safe nx = true ->
  lex_loc (lay_check c) nx = true /\ head_nonws (lay_check c) = true.
Proof.
  intros H Hnx. unfold lay_check. split; [|reflexivity].
  destruct (join_lex [IW 32; IT t_or; IW 32] or_sep_1 or_sep_2 (List.map lay_cq (ck_first c :: ck_more c))
              ltac:(discriminate)) with (nx := nx) as [J1 J2]; [|exact Hnx|].
  - apply Forall_forall. intros l Hin. apply in_map_iff in Hin as (q & <- & Hq).
    unfold ls_check in H. rewrite forallb_forall in H. intros nx' Hnx'. unfold lay_cq. apply body_lex; [apply H; exact Hq|exact Hnx'].
  - destruct (lay_join [IW 32; IT t_or; IW 32] (List.map lay_cq (ck_first c :: ck_more c))) as [|i l] eqn:E; [discriminate|].
    cbn [head_nonws] in J2. apply andb_true_iff in J2 as [J2 _].
    cbn [lex_loc next_byte]. rewrite ok_check_if, (ok_sp _ J2). exact J1.
Qed.

Definition ls_be (e : BlockElement) : bool :=
  match e with
  | BECheck c => ls_check c
  | BEPred p None => ls_pred p
  | BEPred p (Some (x, xs)) => ls_pred p && ls_body (x :: xs)
  end.

Lemma be_lex e nx : ls_be e = true -> safe nx = true ->
  lex_loc (lay_be e) nx = true /\ head_nonws (lay_be e) = true.
Proof.
  destruct e as [c|p [[x xs]|]]; cbn [ls_be lay_be]; intros H Hnx.
  - apply check_lex; assumption.
  - apply andb_true_iff in H as [Hp Hb]. destruct (body_lex x xs nx Hb Hnx) as [B1 B2].
    destruct (pred_lex p (Some 32) Hp) as [P1 P2]. split; [|apply head_app; exact P2].
    apply lex_cat; [exact P1|]. apply lex_op; [reflexivity|reflexivity|exact B2|exact B1].
  - apply pred_lex. exact H.
Qed.

Definition ls_block (B : Block) : bool := forallb ls_be (bl_body B).

Lemma block_lex_list : forall l, forallb ls_be l = true ->
  lex_loc (List.concat (List.map (fun e => lay_be e ++ [IT t_semi]) l)) None = true.
Proof.
  induction l as [|e l IH]; intros H; [reflexivity|].
  cbn [forallb] in H. apply andb_true_iff in H as [He Hl]. cbn [List.map List.concat].
  apply lex_cat; [|apply IH; exact Hl].
  apply lex_cat; [exact (proj1 (be_lex e (Some 59) He eq_refl))|].
  cbn [lex_loc]. rewrite ok_semi. reflexivity.
Qed.

(* the printed layout of a block whose tokens are individually safe is lexable *)
Theorem lay_block_lexable B : ls_block B = true -> lexable_i (lay_block B) = true.
Proof. intros H. apply lex_loc_lexable. apply block_lex_list. exact H. Qed.

(* the printable domain of C15, as one computable condition on the block's grammar tree:
   no comments, printers' order, printable terms/expressions (pr_be), the parser's
   (wfb_block) and the lexer's (ls_block) per-token side conditions *)
Definition printable_block (B : Block) : bool :=
  is_nil (bl_comments B) && sorted3 (bl_body B) && forallb pr_be (bl_body B) && wfb_block B && ls_block B.

Theorem C15_roundtrip_structural : forall sidx B b,
  printable_block B = true -> block_to_biscuit [] B = Ok b ->
  parse_block (reassemble (print_block sidx b)) [] = Ok b.
Proof.
  intros sidx B b H Hb. unfold printable_block in H.
  repeat match goal with Hx : (_ && _) = true |- _ => apply andb_true_iff in Hx; destruct Hx end.
  apply (C15_roundtrip sidx B b); try assumption.
  - destruct (bl_comments B); [reflexivity|discriminate].
  - apply lay_block_lexable. assumption.
Qed.

(* the printed text under any other layout of its tokens *)
Theorem C15_roundtrip_any_layout : forall sidx B b l,
  printable_block B = true -> block_to_biscuit [] B = Ok b ->
  lexable_i_any l = true -> lex (reassemble (print_block sidx b)) = Ok (toks_i l) ->
  parse_block (flat_i l) [] = Ok b.
Proof.
  intros sidx B b l H Hb Hany Htoks. unfold printable_block in H.
  repeat match goal with Hx : (_ && _) = true |- _ => apply andb_true_iff in Hx; destruct Hx end.
  apply (C15_roundtrip_relayout sidx B b l); try assumption.
  - destruct (bl_comments B); [reflexivity|discriminate].
  - apply lay_block_lexable. assumption.
Qed.

Example C15_roundtrip_structural_nonvacuous :
  printable_block ex_block = true /\ is_ok (block_to_biscuit [] ex_block) = true.
Proof. vm_compute. split; reflexivity. Qed.

(* non-vacuity with negative integers: facts, a set, rule and check expressions; the text the
   printers emit ("-" immediately followed by the digits, binary operators between spaces) *)
Definition ex_neg_block_text : string :=
  "f(-1, [-3, 2], -9223372036854775808);g($a) <- h($a, -5), $a - -1 == 0, $a < -2 || !-3 == $a;check if k($a), -4 * -2 <= $a + -6;".
Definition ex_neg_block : Block :=
  match lex (bs ex_neg_block_text) with
  | Ok ts => match run parse_block_g ts with Ok b => b | _ => MkBlock [] [] end
  | _ => MkBlock [] []
  end.
Example C15_roundtrip_negative_nonvacuous :
  printable_block ex_neg_block = true /\ List.length (bl_body ex_neg_block) = 3%nat /\
  flat_i (lay_block ex_neg_block) = bs ex_neg_block_text /\
  exists b, block_to_biscuit [] ex_neg_block = Ok b /\ reparse b = Ok b /\
            reassemble (print_block (fun _ => 1024) b) = flat_i (lay_block ex_neg_block).
Proof.
  split; [vm_compute; reflexivity|]. split; [vm_compute; reflexivity|]. split; [vm_compute; reflexivity|].
  eexists. split; [vm_compute; reflexivity|]. split; vm_compute; reflexivity.
Qed.

(* non-vacuity of [C15_roundtrip_any_layout]: the printed text of [ex_block] with every space
   replaced by tab, \r, \n, space, two newlines after every ";" and a leading \r *)
Definition wild_items (l : list item) : list item :=
  IW 13 :: List.concat (List.map (fun x =>
    match x with
    | IW _ => [IW 9; IW 13; IW 10; IW 32]
    | IT t => if token_eqb t t_semi then [IT t; IW 10; IW 10] else [IT t]
    end) l).
Example C15_roundtrip_any_layout_nonvacuous :
  let l := wild_items (lay_block ex_block) in
  printable_block ex_block = true /\ lexable_i_any l = true /\ lexable_i l = false /\
  (List.length (flat_i (lay_block ex_block)) < List.length (flat_i l))%nat /\
  exists b, block_to_biscuit [] ex_block = Ok b /\
            lex (reassemble (print_block (fun _ => 1024) b)) = Ok (toks_i l) /\
            parse_block (flat_i l) [] = Ok b.
Proof.
  split; [vm_compute; reflexivity|]. split; [vm_compute; reflexivity|]. split; [vm_compute; reflexivity|].
  split; [vm_compute; lia|].
  eexists. split; [vm_compute; reflexivity|]. split; vm_compute; reflexivity.
Qed.

(* ================================================================== *)
(* every parsed block has a grammar tree in the printers' order         *)
(* ================================================================== *)
Definition is_pred (x : RuleElement) : bool := match x with REPred _ => true | _ => false end.
Definition norm_body (l : list RuleElement) : list RuleElement := filter is_pred l ++ filter is_expr l.

Lemma body_app ps : forall l1 l2 q1 o1 q2 o2,
  body_to_biscuit ps l1 = Ok (q1, o1) -> body_to_biscuit ps l2 = Ok (q2, o2) ->
  body_to_biscuit ps (l1 ++ l2) = Ok (q1 ++ q2, o1 ++ o2).
Proof.
  induction l1 as [|[p|e] l1 IH]; intros l2 q1 o1 q2 o2 H1 H2.
  - cbn in H1. injection H1 as <- <-. exact H2.
  - cbn [body_to_biscuit app] in *. destruct (pred_to_biscuit ps p) as [q| |]; cbn [bind] in *; try discriminate.
    destruct (body_to_biscuit ps l1) as [[qa oa]| |] eqn:E; cbn [bind fst snd] in *; try discriminate.
    injection H1 as <- <-. rewrite (IH l2 qa oa q2 o2 eq_refl H2). reflexivity.
  - cbn [body_to_biscuit app] in *. destruct (expr_to_biscuit ps e) as [x| |]; cbn [bind] in *; try discriminate.
    destruct (body_to_biscuit ps l1) as [[qa oa]| |] eqn:E; cbn [bind fst snd] in *; try discriminate.
    injection H1 as <- <-. rewrite (IH l2 qa oa q2 o2 eq_refl H2). reflexivity.
Qed.

Lemma body_split ps : forall l qs os,
  body_to_biscuit ps l = Ok (qs, os) ->
  body_to_biscuit ps (filter is_pred l) = Ok (qs, []) /\ body_to_biscuit ps (filter is_expr l) = Ok ([], os).
Proof.
  induction l as [|[p|e] l IH]; intros qs os H.
  - cbn in H. injection H as <- <-. split; reflexivity.
  - cbn [body_to_biscuit] in H. destruct (pred_to_biscuit ps p) as [q| |] eqn:Ep; cbn [bind] in H; try discriminate.
    destruct (body_to_biscuit ps l) as [[qa oa]| |] eqn:E; cbn [bind fst snd] in H; try discriminate.
    injection H as <- <-. destruct (IH qa oa eq_refl) as [I1 I2].
    cbn [filter is_pred is_expr body_to_biscuit]. rewrite Ep. cbn [bind]. rewrite I1. cbn [bind fst snd].
    split; [reflexivity|exact I2].
  - cbn [body_to_biscuit] in H. destruct (expr_to_biscuit ps e) as [x| |] eqn:Ee; cbn [bind] in H; try discriminate.
    destruct (body_to_biscuit ps l) as [[qa oa]| |] eqn:E; cbn [bind fst snd] in H; try discriminate.
    injection H as <- <-. destruct (IH qa oa eq_refl) as [I1 I2].
    cbn [filter is_pred is_expr body_to_biscuit]. rewrite Ee. cbn [bind]. rewrite I2. cbn [bind fst snd].
    split; [exact I1|reflexivity].
Qed.

Lemma norm_body_conv ps l qs os :
  body_to_biscuit ps l = Ok (qs, os) -> body_to_biscuit ps (norm_body l) = Ok (qs, os).
Proof.
  intros H. destruct (body_split ps l qs os H) as [H1 H2]. unfold norm_body.
  rewrite (body_app ps _ _ _ _ _ _ H1 H2), app_nil_r. reflexivity.
Qed.

Lemma norm_body_nf l : nf_elems (norm_body l) = true.
Proof.
  unfold norm_body. induction l as [|[p|e] l IH]; [reflexivity| |].
  - cbn [filter is_pred is_expr app nf_elems]. exact IH.
  - cbn [filter is_pred is_expr]. clear IH.
    assert (H : forall l1 l2, forallb is_pred l1 = true -> forallb is_expr l2 = true -> nf_elems (l1 ++ l2) = true).
    { induction l1 as [|[p|e'] l1 IH1]; intros l2 H1 H2; [apply exprs_nf; exact H2| |discriminate].
      cbn [app nf_elems]. apply IH1; [exact H1|exact H2]. }
    apply H.
    + apply forallb_forall. intros x Hx. apply filter_In in Hx. tauto.
    + cbn [forallb is_expr]. apply forallb_forall. intros x Hx. apply filter_In in Hx. tauto.
Qed.

Lemma norm_body_nonempty x xs : norm_body (x :: xs) <> [].
Proof. unfold norm_body. destruct x; cbn [filter is_pred is_expr]; [discriminate|]. destruct (filter is_pred xs); discriminate. Qed.

Definition norm_cq (q : CheckQuery) : CheckQuery :=
  match norm_body (cq_first q :: cq_more q) with
  | x :: xs => MkCheckQuery x xs
  | [] => q
  end.
Lemma norm_cq_conv ps q r : query_to_biscuit ps q = Ok r -> query_to_biscuit ps (norm_cq q) = Ok r.
Proof.
  unfold query_to_biscuit, norm_cq. intros H.
  destruct (body_to_biscuit ps (cq_first q :: cq_more q)) as [[qs os]| |] eqn:E; cbn [bind] in H; try discriminate.
  pose proof (norm_body_conv ps _ _ _ E) as En.
  destruct (norm_body (cq_first q :: cq_more q)) as [|x xs] eqn:Eb; [exfalso; exact (norm_body_nonempty _ _ Eb)|].
  cbn [cq_first cq_more]. rewrite En. exact H.
Qed.
Lemma norm_cq_nf q : nf_elems (cq_first (norm_cq q) :: cq_more (norm_cq q)) = true.
Proof.
  unfold norm_cq. pose proof (norm_body_nf (cq_first q :: cq_more q)) as H.
  destruct (norm_body (cq_first q :: cq_more q)) as [|x xs] eqn:Eb; [exfalso; exact (norm_body_nonempty _ _ Eb)|].
  exact H.
Qed.

Lemma norm_queries_conv ps : forall l rs,
  queries_to_biscuit ps l = Ok rs -> queries_to_biscuit ps (List.map norm_cq l) = Ok rs.
Proof.
  induction l as [|q l IH]; intros rs H; [exact H|].
  cbn [queries_to_biscuit List.map] in *.
  destruct (query_to_biscuit ps q) as [r| |] eqn:E; cbn [bind] in H; try discriminate.
  rewrite (norm_cq_conv ps q r E). cbn [bind].
  destruct (queries_to_biscuit ps l) as [rs'| |] eqn:E2; cbn [bind] in H; try discriminate.
  rewrite (IH rs' eq_refl). exact H.
Qed.

Definition norm_check (c : Check) : Check := MkCheck (norm_cq (ck_first c)) (List.map norm_cq (ck_more c)).
Lemma norm_check_conv ps c x : check_to_biscuit ps c = Ok x -> check_to_biscuit ps (norm_check c) = Ok x.
Proof. unfold check_to_biscuit, norm_check. cbn [ck_first ck_more]. apply (norm_queries_conv ps (ck_first c :: ck_more c)). Qed.

Definition norm_be (e : BlockElement) : BlockElement :=
  match e with
  | BECheck c => BECheck (norm_check c)
  | BEPred p None => e
  | BEPred p (Some (x, xs)) =>
      match norm_body (x :: xs) with
      | y :: ys => BEPred p (Some (y, ys))
      | [] => e
      end
  end.
Lemma norm_be_conv ps b0 e b :
  block_element_to_biscuit ps b0 e = Ok b -> block_element_to_biscuit ps b0 (norm_be e) = Ok b.
Proof.
  destruct e as [c|p [[x xs]|]]; cbn [norm_be block_element_to_biscuit]; intros H.
  - destruct (check_to_biscuit ps c) as [xc| |] eqn:E; cbn [bind] in H; try discriminate.
    rewrite (norm_check_conv ps c xc E). exact H.
  - destruct (norm_body (x :: xs)) as [|y ys] eqn:Eb; [exfalso; exact (norm_body_nonempty _ _ Eb)|].
    cbn [block_element_to_biscuit fst snd] in *. unfold rule_parts_to_biscuit in *.
    destruct (body_to_biscuit ps (x :: xs)) as [[qs os]| |] eqn:E; cbn [bind] in H; try discriminate.
    pose proof (norm_body_conv ps _ _ _ E) as En. rewrite Eb in En. rewrite En. exact H.
  - exact H.
Qed.
Lemma norm_be_class e : be_class (norm_be e) = be_class e.
Proof.
  destruct e as [c|p [[x xs]|]]; cbn [norm_be]; try reflexivity.
  destruct (norm_body (x :: xs)); reflexivity.
Qed.

(* block level: the three result lists depend only on the order within each class *)
Definition classed (k : N) (l : list BlockElement) : list BlockElement :=
  filter (fun e => be_class e =? k) l.
Definition norm_elems (l : list BlockElement) : list BlockElement :=
  let l' := List.map norm_be l in classed 0 l' ++ classed 1 l' ++ classed 2 l'.
Definition norm_block (B : Block) : Block := MkBlock [] (norm_elems (bl_body B)).

(* the conversion of a list of elements, as the three lists it appends *)
Fixpoint conv3 (ps : params) (l : list BlockElement) : res (list pred * list rule * list check) :=
  match l with
  | [] => Ok ([], [], [])
  | e :: l' =>
      do b1 <- block_element_to_biscuit ps empty_block e;
      do r <- conv3 ps l';
      Ok (b_facts b1 ++ fst (fst r), b_rules b1 ++ snd (fst r), b_checks b1 ++ snd r)
  end.

Definition bplus (b0 b1 : block) : block :=
  {| b_facts := b_facts b0 ++ b_facts b1; b_rules := b_rules b0 ++ b_rules b1; b_checks := b_checks b0 ++ b_checks b1 |}.

(* an element adds to exactly one list, according to its class *)
Lemma be_conv_shape ps b0 e b :
  block_element_to_biscuit ps b0 e = Ok b ->
  exists b1, block_element_to_biscuit ps empty_block e = Ok b1 /\ b = bplus b0 b1 /\
             (be_class e = 0 -> b_rules b1 = [] /\ b_checks b1 = []) /\
             (be_class e = 1 -> b_facts b1 = [] /\ b_checks b1 = []) /\
             (be_class e = 2 -> b_facts b1 = [] /\ b_rules b1 = []).
Proof.
  destruct e as [c|p [[x xs]|]]; cbn [block_element_to_biscuit be_class]; intros H.
  - destruct (check_to_biscuit ps c) as [xc| |]; cbn [bind] in *; try discriminate. injection H as <-.
    eexists. split; [reflexivity|]. unfold bplus, add_check. cbn. rewrite !app_nil_r.
    repeat split; try reflexivity; intros; discriminate.
  - destruct (rule_parts_to_biscuit ps p (fst (x, xs) :: snd (x, xs))) as [r| |]; cbn [bind] in *; try discriminate.
    injection H as <-. eexists. split; [reflexivity|]. unfold bplus, add_rule. cbn. rewrite !app_nil_r.
    repeat split; try reflexivity; intros; discriminate.
  - destruct (pred_to_biscuit ps p) as [q| |]; cbn [bind] in *; try discriminate. injection H as <-.
    eexists. split; [reflexivity|]. unfold bplus, add_fact. cbn. rewrite !app_nil_r.
    repeat split; try reflexivity; intros; discriminate.
Qed.

Lemma be_conv_plus ps b0 e b1 :
  block_element_to_biscuit ps empty_block e = Ok b1 -> block_element_to_biscuit ps b0 e = Ok (bplus b0 b1).
Proof.
  destruct e as [c|p [[x xs]|]]; cbn [block_element_to_biscuit]; intros H.
  - destruct (check_to_biscuit ps c) as [xc| |]; cbn [bind] in *; try discriminate. injection H as <-.
    unfold bplus, add_check. cbn. rewrite !app_nil_r. reflexivity.
  - destruct (rule_parts_to_biscuit ps p (fst (x, xs) :: snd (x, xs))) as [r| |]; cbn [bind] in *; try discriminate.
    injection H as <-. unfold bplus, add_rule. cbn. rewrite !app_nil_r. reflexivity.
  - destruct (pred_to_biscuit ps p) as [q| |]; cbn [bind] in *; try discriminate. injection H as <-.
    unfold bplus, add_fact. cbn. rewrite !app_nil_r. reflexivity.
Qed.

Definition of3 (r : list pred * list rule * list check) : block :=
  {| b_facts := fst (fst r); b_rules := snd (fst r); b_checks := snd r |}.

Lemma bplus_assoc a b c : bplus (bplus a b) c = bplus a (bplus b c).
Proof. unfold bplus. cbn. rewrite !app_assoc. reflexivity. Qed.

Lemma bes_conv3 ps : forall l b0 b,
  block_elements_to_biscuit ps b0 l = Ok b ->
  exists r, conv3 ps l = Ok r /\ b = bplus b0 (of3 r).
Proof.
  induction l as [|e l IH]; intros b0 b H.
  - cbn in H. injection H as <-. exists ([], [], []). split; [reflexivity|].
    unfold bplus, of3. cbn. rewrite !app_nil_r. destruct b0; reflexivity.
  - cbn [block_elements_to_biscuit] in H.
    destruct (block_element_to_biscuit ps b0 e) as [b'| |] eqn:E; cbn [bind] in H; try discriminate.
    destruct (be_conv_shape ps b0 e b' E) as (b1 & E1 & -> & _).
    destruct (IH _ _ H) as (r & Hr & ->).
    cbn [conv3]. rewrite E1. cbn [bind]. rewrite Hr. cbn [bind]. eexists. split; [reflexivity|].
    rewrite bplus_assoc. reflexivity.
Qed.

Lemma conv3_bes ps : forall l b0 r,
  conv3 ps l = Ok r -> block_elements_to_biscuit ps b0 l = Ok (bplus b0 (of3 r)).
Proof.
  induction l as [|e l IH]; intros b0 r H.
  - cbn in H. injection H as <-. cbn. unfold bplus, of3. cbn. rewrite !app_nil_r. destruct b0; reflexivity.
  - cbn [conv3] in H.
    destruct (block_element_to_biscuit ps empty_block e) as [b1| |] eqn:E; cbn [bind] in H; try discriminate.
    destruct (conv3 ps l) as [r'| |] eqn:E2; cbn [bind] in H; try discriminate. injection H as <-.
    cbn [block_elements_to_biscuit]. rewrite (be_conv_plus ps b0 e b1 E). cbn [bind].
    rewrite (IH (bplus b0 b1) r' eq_refl). rewrite bplus_assoc. reflexivity.
Qed.

Lemma conv3_app ps : forall l1 l2 r1 r2,
  conv3 ps l1 = Ok r1 -> conv3 ps l2 = Ok r2 ->
  conv3 ps (l1 ++ l2) = Ok (fst (fst r1) ++ fst (fst r2), snd (fst r1) ++ snd (fst r2), snd r1 ++ snd r2).
Proof.
  induction l1 as [|e l1 IH]; intros l2 r1 r2 H1 H2.
  - cbn in H1. injection H1 as <-. cbn. rewrite H2. destruct r2 as [[a b] c]. reflexivity.
  - cbn [conv3 app] in *.
    destruct (block_element_to_biscuit ps empty_block e) as [b1| |]; cbn [bind] in *; try discriminate.
    destruct (conv3 ps l1) as [r'| |] eqn:E; cbn [bind] in *; try discriminate. injection H1 as <-.
    rewrite (IH l2 r' r2 eq_refl H2). cbn [bind fst snd]. rewrite !app_assoc. reflexivity.
Qed.

(* the elements of one class, converted alone, give that class's list *)
Lemma conv3_classed ps : forall l r,
  conv3 ps l = Ok r ->
  conv3 ps (classed 0 l) = Ok (fst (fst r), [], []) /\
  conv3 ps (classed 1 l) = Ok ([], snd (fst r), []) /\
  conv3 ps (classed 2 l) = Ok ([], [], snd r).
Proof.
  induction l as [|e l IH]; intros r H.
  - cbn in H. injection H as <-. repeat split; reflexivity.
  - cbn [conv3] in H.
    destruct (block_element_to_biscuit ps empty_block e) as [b1| |] eqn:E; cbn [bind] in H; try discriminate.
    destruct (conv3 ps l) as [r'| |] eqn:E2; cbn [bind] in H; try discriminate. injection H as <-.
    destruct (IH r' eq_refl) as (I0 & I1 & I2).
    destruct (be_conv_shape ps empty_block e b1 E) as (b1' & E1 & _ & S0 & S1 & S2).
    rewrite E in E1. injection E1 as <-.
    unfold classed in *. cbn [filter fst snd].
    destruct e as [c|p [[x xs]|]]; cbn [be_class N.eqb Pos.eqb] in *.
    + destruct (S2 eq_refl) as [F R]. rewrite F, R. cbn [app conv3]. rewrite E. cbn [bind]. rewrite I2. cbn [bind fst snd].
      rewrite F, R. repeat split; try assumption; reflexivity.
    + destruct (S1 eq_refl) as [F C]. rewrite F, C. cbn [app conv3]. rewrite E. cbn [bind]. rewrite I1. cbn [bind fst snd].
      rewrite F, C. repeat split; try assumption; try reflexivity; rewrite ?app_nil_r; reflexivity.
    + destruct (S0 eq_refl) as [R C]. rewrite R, C. cbn [app conv3]. rewrite E. cbn [bind]. rewrite I0. cbn [bind fst snd].
      rewrite R, C. repeat split; try assumption; try reflexivity.
Qed.

Lemma conv3_norm ps : forall l r, conv3 ps l = Ok r -> conv3 ps (List.map norm_be l) = Ok r.
Proof.
  induction l as [|e l IH]; intros r H; [exact H|].
  cbn [conv3 List.map] in *.
  destruct (block_element_to_biscuit ps empty_block e) as [b1| |] eqn:E; cbn [bind] in H; try discriminate.
  rewrite (norm_be_conv ps empty_block e b1 E). cbn [bind].
  destruct (conv3 ps l) as [r'| |] eqn:E2; cbn [bind] in H; try discriminate.
  rewrite (IH r' eq_refl). exact H.
Qed.

(* C15, "from_grammar": whatever tree the parser built, the normalised tree denotes
   the same block *)
Theorem norm_block_conv : forall ps G b,
  block_to_biscuit ps G = Ok b -> block_to_biscuit ps (norm_block G) = Ok b.
Proof.
  intros ps G b H. unfold block_to_biscuit, norm_block in *. cbn [bl_body].
  destruct (bes_conv3 ps _ _ _ H) as (r & Hr & ->).
  pose proof (conv3_norm ps _ _ Hr) as Hn.
  destruct (conv3_classed ps _ _ Hn) as (C0 & C1 & C2).
  unfold norm_elems.
  pose proof (conv3_app ps _ _ _ _ C1 C2) as C12. cbn [fst snd app] in C12.
  pose proof (conv3_app ps _ _ _ _ C0 C12) as C012. cbn [fst snd app] in C012.
  rewrite !app_nil_r in C012.
  rewrite (conv3_bes ps _ empty_block _ C012). unfold of3. cbn [fst snd]. destruct r as [[a c] d]. reflexivity.
Qed.

Lemma norm_block_sorted G : sorted3 (bl_body (norm_block G)) = true.
Proof.
  unfold norm_block, norm_elems. cbn [bl_body]. set (l := List.map norm_be (bl_body G)).
  assert (H : forall l0 l1 l2,
            forallb (fun e => be_class e =? 0) l0 = true -> forallb (fun e => be_class e =? 1) l1 = true ->
            forallb (fun e => be_class e =? 2) l2 = true -> sorted3 (l0 ++ l1 ++ l2) = true).
  { assert (H2 : forall l2, forallb (fun e => be_class e =? 2) l2 = true -> sorted3 l2 = true).
    { induction l2 as [|e l2 IH2]; intros Hc; [reflexivity|]. cbn [forallb] in Hc. apply andb_true_iff in Hc as [He Hc].
      cbn [sorted3]. rewrite (IH2 Hc), andb_true_r. apply N.eqb_eq in He. rewrite He.
      apply (forallb_weaken (fun e' => be_class e' =? 2)); [|exact Hc]. intros a Ha. apply N.eqb_eq in Ha. rewrite Ha. reflexivity. }
    assert (H1 : forall l1 l2, forallb (fun e => be_class e =? 1) l1 = true ->
                 forallb (fun e => be_class e =? 2) l2 = true -> sorted3 (l1 ++ l2) = true).
    { induction l1 as [|e l1 IH1]; intros l2 Hc1 Hc2; [exact (H2 l2 Hc2)|]. cbn [forallb] in Hc1.
      apply andb_true_iff in Hc1 as [He Hc1]. cbn [app sorted3]. rewrite (IH1 l2 Hc1 Hc2), andb_true_r.
      apply N.eqb_eq in He. rewrite He. rewrite forallb_app. apply andb_true_iff. split.
      - apply (forallb_weaken (fun e' => be_class e' =? 1)); [|exact Hc1]. intros a Ha. apply N.eqb_eq in Ha. rewrite Ha. reflexivity.
      - apply (forallb_weaken (fun e' => be_class e' =? 2)); [|exact Hc2]. intros a Ha. apply N.eqb_eq in Ha. rewrite Ha. reflexivity. }
    induction l0 as [|e l0 IH0]; intros l1 l2 Hc0 Hc1 Hc2; [exact (H1 l1 l2 Hc1 Hc2)|]. cbn [forallb] in Hc0.
    apply andb_true_iff in Hc0 as [He Hc0]. cbn [app sorted3]. rewrite (IH0 l1 l2 Hc0 Hc1 Hc2), andb_true_r.
    apply N.eqb_eq in He. rewrite He. apply forallb_forall. intros a _. apply N.leb_le. lia. }
  apply H; unfold classed; apply forallb_forall; intros x Hx; apply filter_In in Hx; tauto.
Qed.

(* C15 for every block the parser produces: print it, parse the printed text *)
Theorem C15_roundtrip_from_grammar : forall sidx G b,
  block_to_biscuit [] G = Ok b -> printable_block (norm_block G) = true ->
  parse_block (reassemble (print_block sidx b)) [] = Ok b.
Proof.
  intros sidx G b Hb Hp. apply (C15_roundtrip_structural sidx (norm_block G) b Hp).
  apply norm_block_conv. exact Hb.
Qed.

(* the dates the printer emits are in the printable domain *)
Lemma date_ok_fmt d : (0 <= d < 253402300800)%Z -> date_ok (fmt_rfc3339 d) = true.
Proof.
  intros H. unfold date_ok. rewrite (rfc3339_roundtrip d H).
  apply andb_true_iff. split; [apply andb_true_iff; split; [apply Z.leb_le|apply Z.ltb_lt]; lia|apply bytes_eqb_refl].
Qed.

(* non-vacuity of the from_grammar form: a text whose elements and rule bodies are NOT in
   the printers' order; its block is printed in the printers' order and parses back *)
Definition ex_unordered_text : string :=
  "check if a(1), $x < 2, b($x) or c(3); r($x) <- $x.contains(""s""), s($x, [10, 2]), !false; f(1, hex:00ff, 2021-05-06T07:08:09Z);".
Definition ex_unordered : Block :=
  match lex (bs ex_unordered_text) with
  | Ok ts => match run parse_block_g ts with Ok b => b | _ => MkBlock [] [] end
  | _ => MkBlock [] []
  end.
Definition ex_unordered_b : block :=
  match block_to_biscuit [] ex_unordered with Ok b => b | _ => empty_block end.
Example C15_from_grammar_nonvacuous :
  sorted3 (bl_body ex_unordered) = false /\
  printable_block (norm_block ex_unordered) = true /\
  is_ok (block_to_biscuit [] ex_unordered) = true /\
  reassemble (print_block (fun _ => 0) ex_unordered_b)
  = bs "f(1, hex:00ff, 2021-05-06T07:08:09Z);r($x) <- s($x, [10, 2]), $x.contains(""s""), !false;check if a(1), b($x), $x < 2 or c(3);".
Proof. vm_compute. repeat split. Qed.

(* ================================================================== *)
(* Assumptions                                                          *)
(* ================================================================== *)
Print Assumptions C14_to_ops_postfix.
Print Assumptions parse_unparse_expr.
Print Assumptions parse_unparse_term.
Print Assumptions parse_unparse_predicate.
Print Assumptions parse_unparse_rule_element.
Print Assumptions parse_unparse_check_query.
Print Assumptions parse_unparse_check.
Print Assumptions parse_unparse_policy.
Print Assumptions parse_unparse_rule.
Print Assumptions parse_unparse_block_element.
Print Assumptions parse_unparse_block.
Print Assumptions parse_unparse_authorizer.
Print Assumptions lex_render.
Print Assumptions lex_items.
Print Assumptions lex_items_any.
Print Assumptions lex_render_any.
Print Assumptions tok_ok_before_layout.
Print Assumptions C14_parse_unparse_fact_any_layout.
Print Assumptions C14_parse_unparse_rule_any_layout.
Print Assumptions C14_parse_unparse_check_any_layout.
Print Assumptions C14_parse_unparse_policy_any_layout.
Print Assumptions C14_parse_unparse_block_any_layout.
Print Assumptions C14_parse_unparse_authorizer_any_layout.
Print Assumptions C14_any_layout_check_nonvacuous.
Print Assumptions C14_any_layout_block_nonvacuous.
Print Assumptions C14_comments_only_leading.
Print Assumptions C15_roundtrip_any_layout.
Print Assumptions C15_roundtrip_any_layout_nonvacuous.
Print Assumptions C14_parse_unparse_fact.
Print Assumptions C14_parse_unparse_rule.
Print Assumptions C14_parse_unparse_check.
Print Assumptions C14_parse_unparse_policy.
Print Assumptions C14_parse_unparse_block.
Print Assumptions C14_parse_unparse_authorizer.
Print Assumptions C14_comparison_consumes_one.
Print Assumptions C14_rejects_chained_comparison.
Print Assumptions C14_rejects_double_negation.
Print Assumptions C14_variable_in_set.
Print Assumptions C14_variable_param_in_set.
Print Assumptions C14_unbound_parameter.
Print Assumptions C14_bad_term_in_predicate.
Print Assumptions C14_bad_term_in_expression.
Print Assumptions lex_total.
Print Assumptions parse_fact_total.
Print Assumptions parse_rule_total.
Print Assumptions parse_check_total.
Print Assumptions parse_policy_total.
Print Assumptions parse_block_total.
Print Assumptions parse_authorizer_total.
Print Assumptions civil_roundtrip.
Print Assumptions rfc3339_roundtrip.
Print Assumptions C15_print_expr.
Print Assumptions C15_roundtrip.
Print Assumptions lay_block_lexable.
Print Assumptions C15_roundtrip_structural.
Print Assumptions norm_block_conv.
Print Assumptions C15_roundtrip_from_grammar.
Print Assumptions bang_string_parses.
Print Assumptions bang_still_negates.
Print Assumptions C15_bang_string_roundtrips.
Print Assumptions neg_int_facts.
Print Assumptions neg_int_expressions.
Print Assumptions C15_negative_int_roundtrips.
Print Assumptions C15_roundtrip_negative_nonvacuous.
Print Assumptions int_magnitude_decimal.
Print Assumptions parse_int_decimal.
Print Assumptions parse_neg_int_decimal.
Print Assumptions digit_head_no_literal.
Print Assumptions decimal_int_examples.
