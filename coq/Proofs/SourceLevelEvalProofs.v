(* SourceLevelEvalProofs.v — corollaries about the definition that /verif/genfn regenerates from
   the text of Expression.Evaluate (coq/GeneratedFn.v: go_Expression_Evaluate), obtained through
   its equality with the model's eval_D (Proofs/GenFnEvalProofs.v).

   [set_ops_eq rx]: the equalities of the four set operators (Equal, Contains, Intersection,
   Union) with their arms of eval_binary_D, proved in Proofs/GenFnSetProofs.v; they are a premise
   here so that this file does not depend on that one. *)
From Coq Require Import ZifyN ZifyNat ZifyBool.
From BV Require Import Base Term Expr DTerm Symbols Datalog Authz Wire Token DEval GoSem GeneratedFn.
From BV Require Import ExprProofs SymbolsProofs DEvalProofs GenFnProofs GenFnEvalProofs.
Local Open Scope Z_scope.

Definition set_ops_eq (rx : bytes -> bytes -> option bool) : Prop :=
  (forall (t : table) (l r : dterm), wf_dterm l -> wf_dterm r -> len_ok t ->
     eval_binary_D rx t BEqual l r = (t, go_Equal_Eval l r t)) /\
  (forall (t : table) (l r : dterm), wf_dterm l -> wf_dterm r -> len_ok t ->
     eval_binary_D rx t BContains l r = (t, go_Contains_Eval l r t)) /\
  (forall (t : table) (l r : dterm), wf_dterm l -> wf_dterm r -> len_ok t ->
     eval_binary_D rx t BIntersection l r = (t, go_Intersection_Eval l r t)) /\
  (forall (t : table) (l r : dterm), wf_dterm l -> wf_dterm r -> len_ok t ->
     eval_binary_D rx t BUnion l r = (t, go_Union_Eval l r t)).

(* the equality, with the hypotheses in one place *)
Theorem src_evaluate_is_model : forall rx (b : dbindings) (t : table) (e : dexpr),
  rx_uniform rx -> set_ops_eq rx -> run_pre rx b t [] e ->
  go_Expression_Evaluate rx e b t = eval_D rx t e b.
Proof.
  intros rx b t e Hrx (H1 & H2 & H3 & H4) Hpre.
  exact (go_Expression_Evaluate_eq rx Hrx H1 H2 H3 H4 b t e Hpre).
Qed.

(* ------------------------------------------------------------------ *)
(** * The model's stack machine does not panic (no premise on the table or on the operands) *)

Lemma eval_unary_D_no_panic t u v n : eval_unary_D t u v <> Panic n.
Proof. destruct u; destruct v as [[x|x|x|x|x|x]|x]; cbn [eval_unary_D]; congruence. Qed.

Lemma dchecked_no_panic z n : dchecked z <> Panic n.
Proof. unfold dchecked. destruct (in_int64 z); congruence. Qed.

Lemma eval_binary_D_no_panic rx t o l r n : snd (eval_binary_D rx t o l r) <> Panic n.
Proof.
  destruct o; cbn [eval_binary_D]; unfold dcmp_op, dstr_op, dint_op;
    destruct l as [[x|x|x|x|x|x]|x]; destruct r as [[y|y|y|y|y|y]|y]; cbn [snd fst dterm_type datom_type ttype_eqb negb];
    try congruence;
    try (apply dchecked_no_panic);
    repeat match goal with
    | |- context [let '(_, _) := ?p in _] => destruct p
    | |- context [if ?c then _ else _] => destruct c
    | |- context [match ?x with Some _ => _ | None => _ end] => destruct x
    end; cbn [snd]; first [ congruence | apply dchecked_no_panic ].
Qed.

Lemma step_D_no_panic rx t b st o n : snd (step_D rx t b st o) <> Panic n.
Proof.
  destruct o as [x|u|bo]; cbn [step_D].
  - destruct x as [[v|z|s|d|y|y]|l]; cbn [snd]; try apply push_D_no_panic.
    destruct (dlookup b v); [apply push_D_no_panic | congruence].
  - destruct st as [|v st]; cbn [snd]; [congruence|].
    assert (H := eval_unary_D_no_panic t u v). destruct (eval_unary_D t u v); cbn [bind];
      [apply push_D_no_panic | congruence | intros E; apply (H site); congruence].
  - destruct st as [|r [|l st]]; cbn [snd]; try congruence.
    assert (H := eval_binary_D_no_panic rx t bo l r). destruct (eval_binary_D rx t bo l r) as [t' x].
    cbn [snd] in *. destruct x; cbn [bind]; [apply push_D_no_panic | congruence | intros E; apply (H site); congruence].
Qed.

Lemma run_ops_D_no_panic rx b : forall e t st n, snd (run_ops_D rx t b st e) <> Panic n.
Proof.
  induction e as [|o e IH]; intros t st n; cbn [run_ops_D]; [cbn [snd]; congruence|].
  assert (H := step_D_no_panic rx t b st o). destruct (step_D rx t b st o) as [t' [st'|x|m]]; cbn [snd] in *.
  - apply IH.
  - congruence.
  - exfalso. apply (H m). reflexivity.
Qed.

Theorem eval_D_no_panic : forall rx t e b n, snd (eval_D rx t e b) <> Panic n.
Proof.
  intros rx t e b n. unfold eval_D. assert (H := run_ops_D_no_panic rx b e t []).
  destruct (run_ops_D rx t b [] e) as [t' [st|x|m]]; cbn [snd] in *.
  - destruct st as [|v [|w st]]; cbn [snd]; congruence.
  - congruence.
  - exfalso. apply (H m). reflexivity.
Qed.

(* Evaluate never panics: no index out of range in Pop, no failed type assertion on an Op
   or on a Term, for any op sequence whose operands stay in range *)
Theorem src_evaluate_total : forall rx (b : dbindings) (t : table) (e : dexpr) (n : N),
  rx_uniform rx -> set_ops_eq rx -> run_pre rx b t [] e ->
  snd (go_Expression_Evaluate rx e b t) <> Panic n.
Proof.
  intros rx b t e n Hrx Hs Hpre. rewrite (src_evaluate_is_model rx b t e Hrx Hs Hpre).
  apply eval_D_no_panic.
Qed.

(* an op sequence that is not the postfix form of an expression tree is an error: the
   S-level theorem (ExprProofs.not_postfix_is_error) through the refinement of the D level
   (DEvalProofs.eval_D_refines) and the equality *)
Theorem src_evaluate_malformed_is_error : forall rx (b : dbindings) (t : table) (e : dexpr),
  rx_uniform rx -> set_ops_eq rx -> run_pre rx b t [] e ->
  table_wf t -> CL closed_bnd t b -> CL closed_op t e ->
  (forall tr, map (resolve_op t) e <> postfix tr) ->
  exists x, snd (go_Expression_Evaluate rx e b t) = Err x.
Proof.
  intros rx b t e Hrx Hs Hpre W Cb Ce Hmal. rewrite (src_evaluate_is_model rx b t e Hrx Hs Hpre).
  destruct (eval_D rx t e b) as [t' r] eqn:E.
  destruct (eval_D_refines rx t e b t' r W Cb Ce E) as (_ & _ & H).
  destruct (not_postfix_is_error rx (map (resolve_op t) e) (map (resolve_bnd t) b) Hmal) as [x Hx].
  cbn [snd]. destruct r as [v|y|m].
  - destruct H as [_ H]. congruence.
  - eauto.
  - congruence.
Qed.

(* ------------------------------------------------------------------ *)
(** * Integer arithmetic through the whole machine: the exact result or an error, never a wrapped value *)

Definition arith_exact (o : binop) (a b : Z) : Z :=
  match o with BAdd => a + b | BSub => a - b | BMul => a * b | _ => Z.quot a b end.

Lemma push_D_small st v : (length st < 1000)%nat -> push_D st v = Ok (v :: st).
Proof.
  intros H. unfold push_D. rewrite max_stack_1000.
  destruct (Nat.leb_spec 1000 (length st)) as [H'|H']; [lia | reflexivity].
Qed.

Theorem src_evaluate_never_wrapped : forall rx (bnd : dbindings) (t : table) (a b : Z) (o : binop) (v : dterm),
  rx_uniform rx -> set_ops_eq rx -> in_i64 a -> in_i64 b -> table_fits t ->
  o = BAdd \/ o = BSub \/ o = BMul \/ o = BDiv ->
  snd (go_Expression_Evaluate rx [DOVal (DA (DInt a)); DOVal (DA (DInt b)); DOBin o] bnd t) = Ok v ->
  v = DA (DInt (arith_exact o a b)) /\ in_int64 (arith_exact o a b) = true /\ (o = BDiv -> b <> 0).
Proof.
  intros rx bnd t a b o v Hrx Hs Ha Hb Ht Ho E.
  assert (Hpre : run_pre rx bnd t [] [DOVal (DA (DInt a)); DOVal (DA (DInt b)); DOBin o]).
  { cbn [run_pre step_D]. rewrite push_D_small by (cbn [length]; lia).
    cbn [run_pre step_D]. rewrite push_D_small by (cbn [length]; lia).
    unfold step_pre. cbn [wf_dterm wf_datom].
    repeat split; try assumption; try (unfold in_i64 in Ha, Hb; lia).
    destruct (let '(t', x) := eval_binary_D rx t o (DA (DInt a)) (DA (DInt b)) in (t', do v0 <- x; push_D [] v0))
      as [t' [st'|x|n]]; exact I. }
  rewrite (src_evaluate_is_model rx bnd t _ Hrx Hs Hpre) in E.
  unfold eval_D in E. cbn [run_ops_D step_D] in E. rewrite push_D_small in E by (cbn [length]; lia).
  cbn [run_ops_D step_D] in E. rewrite push_D_small in E by (cbn [length]; lia).
  cbn [run_ops_D step_D] in E.
  destruct Ho as [->|[->|[->| ->]]]; cbn [eval_binary_D dint_op arith_exact] in E |- *; unfold dchecked in E.
  - destruct (in_int64 (a + b)) eqn:Ei; cbn [bind] in E; [|discriminate].
    rewrite push_D_small in E by (cbn [length]; lia). cbn [snd] in E. injection E as <-.
    repeat split. discriminate.
  - destruct (in_int64 (a - b)) eqn:Ei; cbn [bind] in E; [|discriminate].
    rewrite push_D_small in E by (cbn [length]; lia). cbn [snd] in E. injection E as <-.
    repeat split. discriminate.
  - destruct (in_int64 (a * b)) eqn:Ei; cbn [bind] in E; [|discriminate].
    rewrite push_D_small in E by (cbn [length]; lia). cbn [snd] in E. injection E as <-.
    repeat split. discriminate.
  - destruct (Z.eqb_spec b 0) as [Eb|Eb]; cbn [bind] in E; [discriminate|].
    destruct (in_int64 (Z.quot a b)) eqn:Ei; cbn [bind] in E; [|discriminate].
    rewrite push_D_small in E by (cbn [length]; lia). cbn [snd] in E. injection E as <-.
    repeat split. intros _. exact Eb.
Qed.

Print Assumptions src_evaluate_is_model.
Print Assumptions eval_D_no_panic.
Print Assumptions src_evaluate_total.
Print Assumptions src_evaluate_malformed_is_error.
Print Assumptions src_evaluate_never_wrapped.
