(* WireProofs.v — lemmas about Model/Wire.v: varint and field-list round trips,
   fuel irrelevance, and the round trips of the three top-level messages
   (Block, Biscuit, AuthorizerPolicies) through encode / decode / convert. *)
From Coq Require Import ZifyN ZifyNat ZifyBool.
From BV Require Import Base Term DTerm Chain Wire.
From BV Require Generated.
Ltac Zify.zify_post_hook ::= Z.div_mod_to_equations.
Local Open Scope N_scope.

(* ------------------------------------------------------------------ *)
(** * 1. varints *)

Lemma decode_varint_k_encode k n r :
  n < 128 ^ N.of_nat (S k) ->
  decode_varint_k (S k) (encode_varint_k (S k) n ++ r) = Some (n, r).
Proof.
  revert n. induction k as [|k IH]; intros n Hn.
  - change (128 ^ N.of_nat 1) with 128 in Hn. apply N.ltb_lt in Hn.
    cbn [encode_varint_k]. rewrite Hn. cbn [app decode_varint_k]. rewrite Hn. reflexivity.
  - remember (S k) as k1 eqn:Hk1.
    cbn [encode_varint_k]. destruct (n <? 128) eqn:E.
    + cbn [app decode_varint_k]. rewrite E. reflexivity.
    + apply N.ltb_ge in E.
      cbn [app decode_varint_k].
      assert (H1 : (128 + n mod 128 <? 128) = false) by (apply N.ltb_ge; lia).
      rewrite H1.
      rewrite Nat2N.inj_succ, N.pow_succ_r' in Hn.
      rewrite IH.
      * f_equal. f_equal. lia.
      * set (P := 128 ^ N.of_nat k1) in *. clearbody P. lia.
Qed.

Lemma pow128_10 : 128 ^ N.of_nat 10 = 1180591620717411303424.
Proof. vm_compute. reflexivity. Qed.

Theorem varint_roundtrip n r :
  n < two64 -> decode_varint (encode_varint n ++ r) = Some (n, r).
Proof.
  intros Hn. unfold decode_varint, encode_varint.
  rewrite (decode_varint_k_encode 9).
  - apply N.ltb_lt in Hn. rewrite Hn. reflexivity.
  - rewrite pow128_10. unfold two64 in Hn. lia.
Qed.

Example varint_roundtrip_nonvacuous :
  18446744073709551615 < two64 /\
  decode_varint (encode_varint 18446744073709551615 ++ [7]) = Some (18446744073709551615, [7]).
Proof. split; vm_compute; reflexivity. Qed.

Lemma encode_varint_nonempty n : exists b tl, encode_varint n = b :: tl.
Proof.
  unfold encode_varint. cbn [encode_varint_k]. destruct (n <? 128); eauto.
Qed.

Lemma decode_varint_k_shorter k bs v r :
  decode_varint_k k bs = Some (v, r) -> (length r < length bs)%nat.
Proof.
  revert bs v r. induction k as [|k IH]; intros bs v r H; [destruct bs; discriminate|].
  destruct bs as [|b bs']; [discriminate|]. cbn [decode_varint_k] in H.
  destruct (b <? 128).
  - injection H as _ <-. cbn. lia.
  - destruct (decode_varint_k k bs') as [[v' r']|] eqn:E; [|discriminate].
    injection H as _ <-. apply IH in E. cbn. lia.
Qed.

Lemma decode_varint_shorter bs v r :
  decode_varint bs = Some (v, r) -> (length r < length bs)%nat.
Proof.
  unfold decode_varint. destruct (decode_varint_k 10 bs) as [[v' r']|] eqn:E; [|discriminate].
  destruct (v' <? two64); [|discriminate]. intros H. injection H as _ <-.
  eapply decode_varint_k_shorter; eauto.
Qed.

(* ------------------------------------------------------------------ *)
(** * 2. field lists *)

Lemma lenN_app {A} (a b : list A) : lenN (a ++ b) = lenN a + lenN b.
Proof. rewrite !lenN_length, app_length. lia. Qed.

Lemma splitN_app a r : splitN (lenN a) (a ++ r) = Some (a, r).
Proof.
  induction a as [|x a IH].
  - cbn [lenN app]. destruct r; reflexivity.
  - cbn [lenN app splitN].
    assert (H : (1 + lenN a =? 0) = false) by (apply N.eqb_neq; lia).
    rewrite H. replace (1 + lenN a - 1) with (lenN a) by lia. rewrite IH. reflexivity.
Qed.

Lemma splitN_app_len n a r : lenN a = n -> splitN n (a ++ r) = Some (a, r).
Proof. intros <-. apply splitN_app. Qed.

Lemma splitN_shorter n bs a r : splitN n bs = Some (a, r) -> (length r <= length bs)%nat.
Proof.
  revert n a r. induction bs as [|b bs IH]; intros n a r H.
  - cbn in H. destruct (n =? 0); [|discriminate]. injection H as _ <-. lia.
  - cbn [splitN] in H. destruct (n =? 0).
    + injection H as _ <-. lia.
    + destruct (splitN (n - 1) bs) as [[a' r']|] eqn:E; [|discriminate].
      injection H as _ <-. apply IH in E. cbn. lia.
Qed.

Definition wf_field (f : wfield) : Prop :=
  valid_fnum (fst f) = true /\
  match snd f with
  | WVarint n => n < two64
  | WFixed64 b => length b = 8%nat
  | WBytes b => lenN b < two64
  | WFixed32 b => length b = 4%nat
  end.

Lemma valid_fnum_range num : valid_fnum num = true <-> 1 <= num < two29.
Proof.
  unfold valid_fnum. rewrite andb_true_iff, negb_true_iff, N.eqb_neq, N.ltb_lt. lia.
Qed.

Lemma two64_eq : two64 = 2 ^ 64.
Proof. reflexivity. Qed.
Lemma two29_eq : two29 = 2 ^ 29.
Proof. reflexivity. Qed.

(* [wf_field] in arithmetic form *)
Lemma wf_field_spec num v :
  wf_field (num, v) <->
  (1 <= num < 2 ^ 29 /\
   match v with
   | WVarint n => n < 2 ^ 64
   | WFixed64 b => length b = 8%nat
   | WBytes b => N.of_nat (length b) < 2 ^ 64
   | WFixed32 b => length b = 4%nat
   end).
Proof.
  unfold wf_field. cbn [fst snd]. rewrite valid_fnum_range, <- two29_eq, <- two64_eq.
  destruct v; rewrite ?lenN_length; tauto.
Qed.

Lemma tag_div num wt : wt < 8 -> (num * 8 + wt) / 8 = num.
Proof. intros H. lia. Qed.
Lemma tag_mod num wt : wt < 8 -> (num * 8 + wt) mod 8 = wt.
Proof. intros H. lia. Qed.

Lemma decode_body_encode_field rec skip f rest :
  wf_field f ->
  decode_body rec skip (encode_field f ++ rest) = cons_opt f (rec rest).
Proof.
  destruct f as [num v]. intros [Hn Hv]. cbn [fst snd] in Hn, Hv.
  pose proof (proj1 (valid_fnum_range num) Hn) as Hr. unfold two29 in Hr.
  unfold decode_body, encode_field.
  destruct v as [n|b|b|b]; rewrite <- ?app_assoc.
  - replace (num * 8) with (num * 8 + 0) by lia.
    rewrite varint_roundtrip by (unfold two64; lia).
    rewrite tag_div, tag_mod by lia. rewrite Hn. cbn [negb].
    rewrite varint_roundtrip by exact Hv. reflexivity.
  - rewrite varint_roundtrip by (unfold two64; lia).
    rewrite tag_div, tag_mod by lia. rewrite Hn. cbn [negb].
    rewrite (splitN_app_len 8) by (rewrite lenN_length, Hv; reflexivity). reflexivity.
  - rewrite varint_roundtrip by (unfold two64; lia).
    rewrite tag_div, tag_mod by lia. rewrite Hn. cbn [negb].
    rewrite varint_roundtrip by exact Hv.
    rewrite splitN_app. reflexivity.
  - rewrite varint_roundtrip by (unfold two64; lia).
    rewrite tag_div, tag_mod by lia. rewrite Hn. cbn [negb].
    rewrite (splitN_app_len 4) by (rewrite lenN_length, Hv; reflexivity). reflexivity.
Qed.

Lemma encode_field_nonempty f : exists b tl, encode_field f = b :: tl.
Proof.
  destruct f as [num v]. unfold encode_field.
  destruct v as [n|b|b|b];
    match goal with |- context [encode_varint ?t ++ _] =>
      destruct (encode_varint_nonempty t) as (x & tl & ->) end; cbn [app]; eauto.
Qed.

Lemma decode_fields_k_nil fuel : decode_fields_k fuel [] = Some [].
Proof. destruct fuel; reflexivity. Qed.

Lemma fields_roundtrip_k fs : forall fuel,
  Forall wf_field fs -> (length fs <= fuel)%nat ->
  decode_fields_k fuel (encode_fields fs) = Some fs.
Proof.
  induction fs as [|f fs IH]; intros fuel Hwf Hlen.
  - apply decode_fields_k_nil.
  - inversion Hwf as [|? ? Hf Hfs]; subst.
    destruct fuel as [|fuel]; [cbn in Hlen; lia|].
    cbn [encode_fields].
    destruct (encode_field_nonempty f) as (b & tl & E).
    assert (Hu : decode_fields_k (S fuel) (encode_field f ++ encode_fields fs) =
                 decode_body (decode_fields_k fuel) (skip_group fuel)
                   (encode_field f ++ encode_fields fs)).
    { rewrite E. reflexivity. }
    rewrite Hu, decode_body_encode_field by exact Hf.
    rewrite IH; [reflexivity | exact Hfs | cbn in Hlen; lia].
Qed.

Lemma encode_fields_length fs : (length fs <= length (encode_fields fs))%nat.
Proof.
  induction fs as [|f fs IH]; [cbn; lia|].
  cbn [encode_fields]. destruct (encode_field_nonempty f) as (b & tl & ->).
  rewrite app_length. cbn [length]. lia.
Qed.

Theorem fields_roundtrip fs :
  Forall wf_field fs -> decode_fields (encode_fields fs) = Some fs.
Proof.
  intros H. unfold decode_fields. apply fields_roundtrip_k; [exact H|].
  pose proof (encode_fields_length fs). lia.
Qed.

Example fields_roundtrip_nonvacuous :
  let fs := [(1, WVarint 300); (536870911, WBytes [1;2;3]); (2, WFixed64 [1;2;3;4;5;6;7;8]);
             (3, WFixed32 [9;9;9;9]); (4, WBytes [])] in
  Forall wf_field fs /\ decode_fields (encode_fields fs) = Some fs.
Proof.
  split.
  - repeat constructor; vm_compute; reflexivity.
  - vm_compute. reflexivity.
Qed.

(* ------------------------------------------------------------------ *)
(** * 3. The fuel of [decode_fields] cannot run out *)

Ltac case_wt t :=
  destruct t as [|[[[?|?|]|[?|?|]|]|[[?|?|]|[?|?|]|]|]].

Lemma skip_body_shorter rec num bs r :
  (forall n x x', rec n x = Some x' -> (length x' < length x)%nat) ->
  skip_body rec num bs = Some r -> (length r < length bs)%nat.
Proof.
  intros Hrec. unfold skip_body.
  destruct (decode_varint bs) as [[tag r0]|] eqn:E; [|discriminate].
  apply decode_varint_shorter in E.
  destruct (negb (valid_fnum (tag / 8))); [discriminate|].
  case_wt (tag mod 8); try discriminate.
  - (* 0 *) destruct (decode_varint r0) as [[v r1]|] eqn:E1; [|discriminate].
    apply decode_varint_shorter in E1. intros H. apply Hrec in H. lia.
  - (* 5 *) destruct (splitN 4 r0) as [[p r1]|] eqn:E1; [|discriminate].
    apply splitN_shorter in E1. intros H. apply Hrec in H. lia.
  - (* 3 *) destruct (rec (tag / 8) r0) as [r1|] eqn:E1; [|discriminate].
    apply Hrec in E1. intros H. apply Hrec in H. lia.
  - (* 4 *) destruct (tag / 8 =? num); [|discriminate]. intros H. injection H as <-. lia.
  - (* 2 *) destruct (decode_varint r0) as [[len r1]|] eqn:E1; [|discriminate].
    apply decode_varint_shorter in E1.
    destruct (splitN len r1) as [[p r2]|] eqn:E2; [|discriminate].
    apply splitN_shorter in E2. intros H. apply Hrec in H. lia.
  - (* 1 *) destruct (splitN 8 r0) as [[p r1]|] eqn:E1; [|discriminate].
    apply splitN_shorter in E1. intros H. apply Hrec in H. lia.
Qed.

Lemma skip_group_shorter f : forall num bs r,
  skip_group f num bs = Some r -> (length r < length bs)%nat.
Proof.
  induction f as [|f IH]; intros num bs r H; [discriminate|].
  cbn [skip_group] in H. eapply skip_body_shorter; [|exact H].
  intros n x x' Hx. eapply IH; eauto.
Qed.

Lemma skip_body_ext rec1 rec2 num bs :
  (forall n x x', rec1 n x = Some x' -> (length x' < length x)%nat) ->
  (forall n x, (length x < length bs)%nat -> rec1 n x = rec2 n x) ->
  skip_body rec1 num bs = skip_body rec2 num bs.
Proof.
  intros Hsh Hext. unfold skip_body.
  destruct (decode_varint bs) as [[tag r0]|] eqn:E; [|reflexivity].
  apply decode_varint_shorter in E.
  destruct (negb (valid_fnum (tag / 8))); [reflexivity|].
  case_wt (tag mod 8); try reflexivity.
  - destruct (decode_varint r0) as [[v r1]|] eqn:E1; [|reflexivity].
    apply decode_varint_shorter in E1. apply Hext. lia.
  - destruct (splitN 4 r0) as [[p r1]|] eqn:E1; [|reflexivity].
    apply splitN_shorter in E1. apply Hext. lia.
  - rewrite <- (Hext (tag / 8) r0) by lia.
    destruct (rec1 (tag / 8) r0) as [r1|] eqn:E1; [|reflexivity].
    apply Hsh in E1. apply Hext. lia.
  - destruct (decode_varint r0) as [[len r1]|] eqn:E1; [|reflexivity].
    apply decode_varint_shorter in E1.
    destruct (splitN len r1) as [[p r2]|] eqn:E2; [|reflexivity].
    apply splitN_shorter in E2. apply Hext. lia.
  - destruct (splitN 8 r0) as [[p r1]|] eqn:E1; [|reflexivity].
    apply splitN_shorter in E1. apply Hext. lia.
Qed.

Lemma skip_group_fuel f1 : forall f2 num bs,
  (length bs < f1)%nat -> (length bs < f2)%nat ->
  skip_group f1 num bs = skip_group f2 num bs.
Proof.
  induction f1 as [|f1 IH]; intros f2 num bs H1 H2; [lia|].
  destruct f2 as [|f2]; [lia|].
  cbn [skip_group]. apply skip_body_ext.
  - intros n x x' Hx. eapply skip_group_shorter; eauto.
  - intros n x Hx. apply IH; lia.
Qed.

Lemma decode_body_ext rec1 rec2 skip1 skip2 bs :
  (forall n x x', skip1 n x = Some x' -> (length x' < length x)%nat) ->
  (forall n x, (length x < length bs)%nat -> skip1 n x = skip2 n x) ->
  (forall x, (length x < length bs)%nat -> rec1 x = rec2 x) ->
  decode_body rec1 skip1 bs = decode_body rec2 skip2 bs.
Proof.
  intros Hsh Hskip Hrec. unfold decode_body.
  destruct (decode_varint bs) as [[tag r0]|] eqn:E; [|reflexivity].
  apply decode_varint_shorter in E.
  destruct (negb (valid_fnum (tag / 8))); [reflexivity|].
  case_wt (tag mod 8); try reflexivity.
  - destruct (decode_varint r0) as [[v r1]|] eqn:E1; [|reflexivity].
    apply decode_varint_shorter in E1. rewrite Hrec by lia. reflexivity.
  - destruct (splitN 4 r0) as [[p r1]|] eqn:E1; [|reflexivity].
    apply splitN_shorter in E1. rewrite Hrec by lia. reflexivity.
  - rewrite <- (Hskip (tag / 8) r0) by lia.
    destruct (skip1 (tag / 8) r0) as [r1|] eqn:E1; [|reflexivity].
    apply Hsh in E1. apply Hrec. lia.
  - destruct (decode_varint r0) as [[len r1]|] eqn:E1; [|reflexivity].
    apply decode_varint_shorter in E1.
    destruct (splitN len r1) as [[p r2]|] eqn:E2; [|reflexivity].
    apply splitN_shorter in E2. rewrite Hrec by lia. reflexivity.
  - destruct (splitN 8 r0) as [[p r1]|] eqn:E1; [|reflexivity].
    apply splitN_shorter in E1. rewrite Hrec by lia. reflexivity.
Qed.

(* any two fuels above the input length give the same result: the [None]
   of fuel exhaustion is never what [decode_fields] returns *)
Theorem decode_fields_k_fuel f1 : forall f2 bs,
  (length bs < f1)%nat -> (length bs < f2)%nat ->
  decode_fields_k f1 bs = decode_fields_k f2 bs.
Proof.
  induction f1 as [|f1 IH]; intros f2 bs H1 H2; [lia|].
  destruct f2 as [|f2]; [lia|].
  destruct bs as [|b bs]; [reflexivity|].
  cbn [decode_fields_k]. apply decode_body_ext.
  - intros n x x' Hx. eapply skip_group_shorter; eauto.
  - intros n x Hx. apply skip_group_fuel; lia.
  - intros x Hx. apply IH; lia.
Qed.

Corollary decode_fields_any_fuel fuel bs :
  (length bs < fuel)%nat -> decode_fields_k fuel bs = decode_fields bs.
Proof. intros H. unfold decode_fields. apply decode_fields_k_fuel; lia. Qed.

(* ------------------------------------------------------------------ *)
(** * 4. Generic tools for the typed level *)

Definition small (bs : bytes) : Prop := lenN bs < two64.

Definition wf_scalar (f : wfield) : Prop :=
  valid_fnum (fst f) = true /\
  match snd f with
  | WVarint n => n < two64
  | WFixed64 b => length b = 8%nat
  | WBytes _ => True
  | WFixed32 b => length b = 4%nat
  end.

Lemma encode_fields_app a b : encode_fields (a ++ b) = encode_fields a ++ encode_fields b.
Proof.
  induction a as [|f a IH]; [reflexivity|]. cbn [app encode_fields]. rewrite IH, app_assoc. reflexivity.
Qed.

Lemma small_app a b : small (a ++ b) -> small a /\ small b.
Proof. unfold small. rewrite lenN_app. lia. Qed.

Lemma small_payload fs n b : small (encode_fields fs) -> In (n, WBytes b) fs -> small b.
Proof.
  induction fs as [|f fs IH]; intros Hs Hin; [destruct Hin|].
  cbn [encode_fields] in Hs. apply small_app in Hs as [Hf Hfs].
  destruct Hin as [->|Hin]; [|auto].
  unfold encode_field in Hf. apply small_app in Hf as [_ Hf]. apply small_app in Hf as [_ Hf].
  exact Hf.
Qed.

Lemma wf_fields_small fs :
  small (encode_fields fs) -> Forall wf_scalar fs -> Forall wf_field fs.
Proof.
  intros Hs Hsc. apply Forall_forall. intros [n v] Hin.
  pose proof (proj1 (Forall_forall _ _) Hsc _ Hin) as [H1 H2]. cbn [fst snd] in H1, H2.
  split; [exact H1|]. cbn [snd]. destruct v as [x|b|b|b]; try exact H2.
  eapply small_payload; eauto.
Qed.

Lemma sub_encode {S : Type} fs (k : list wfield -> option S) :
  Forall wf_field fs -> sub (encode_fields fs) k = k fs.
Proof. intros H. unfold sub. rewrite fields_roundtrip by exact H. reflexivity. Qed.

Lemma fold_opt_app {S : Type} (step : S -> wfield -> option S) l1 l2 st :
  fold_opt step (l1 ++ l2) st =
  match fold_opt step l1 st with Some st' => fold_opt step l2 st' | None => None end.
Proof.
  revert st. induction l1 as [|f l1 IH]; intros st; [reflexivity|].
  cbn [app fold_opt]. destruct (step st f); [apply IH|reflexivity].
Qed.

(* a run of occurrences of one repeated field appends to that field *)
Lemma fold_opt_repeated {S A B : Type} (step : S -> wfield -> option S)
    (g : A -> wfield) (h : A -> B) (get : S -> list B) (set : S -> list B -> S) xs :
  (forall st, set st (get st) = st) ->
  (forall st l, get (set st l) = l) ->
  (forall st l l', set (set st l) l' = set st l') ->
  (forall x st, In x xs -> step st (g x) = Some (set st (get st ++ [h x]))) ->
  forall st, fold_opt step (map g xs) st = Some (set st (get st ++ map h xs)).
Proof.
  intros L1 L2 L3. induction xs as [|x xs IH]; intros Hstep st.
  - cbn. rewrite app_nil_r, L1. reflexivity.
  - cbn [map fold_opt]. rewrite Hstep by (left; reflexivity).
    rewrite IH by (intros y st' Hy; apply Hstep; right; exact Hy).
    rewrite L2, L3, <- app_assoc. reflexivity.
Qed.

Lemma mapM_map {A B : Type} (f : B -> res A) (g : A -> B) l :
  (forall x, In x l -> f (g x) = Ok x) -> mapM f (map g l) = Ok l.
Proof.
  induction l as [|x l IH]; intros H; [reflexivity|].
  cbn [map mapM]. rewrite H by (left; reflexivity). cbn [bind].
  rewrite IH by (intros y Hy; apply H; right; exact Hy). reflexivity.
Qed.

Lemma Forall_In {A} (P : A -> Prop) l x : Forall P l -> In x l -> P x.
Proof. intros H. apply Forall_forall. exact H. Qed.

Lemma forallb_In {A} (p : A -> bool) l x : forallb p l = true -> In x l -> p x = true.
Proof. intros H. apply forallb_forall. exact H. Qed.

Lemma two_le_S d : (2 <= d)%nat -> exists d', d = S (S d').
Proof. intros H. destruct d as [|[|d']]; try lia. eauto. Qed.

(* scalar round trips *)
Lemma u32_small v : v < two32 -> u32 v = v.
Proof. intros H. unfold u32. apply N.mod_small. exact H. Qed.

Lemma enum_roundtrip n : n < two32 -> enum_of (enc_enum n) = n.
Proof.
  intros H. unfold enum_of, enc_enum, two31, two32, two64 in *.
  destruct (n <? 2147483648) eqn:E; [apply N.mod_small; lia|].
  apply N.ltb_ge in E. lia.
Qed.

Lemma enc_enum_small n : n < two32 -> enc_enum n < two64.
Proof.
  intros H. unfold enc_enum, two31, two32, two64 in *. destruct (n <? 2147483648); lia.
Qed.

Lemma int64_roundtrip z :
  (- 9223372036854775808 <= z < 9223372036854775808)%Z -> to_int64 (of_int64 z) = z.
Proof.
  intros H. unfold to_int64, of_int64, two63, two64.
  destruct (z <? 0)%Z eqn:E.
  - assert (H1 : (Z.to_N (z + Z.of_N 18446744073709551616) <? 9223372036854775808) = false)
      by (apply N.ltb_ge; lia).
    rewrite H1. lia.
  - assert (H1 : (Z.to_N z <? 9223372036854775808) = true) by (apply N.ltb_lt; lia).
    rewrite H1. lia.
Qed.

Lemma of_int64_small z :
  (- 9223372036854775808 <= z < 9223372036854775808)%Z -> of_int64 z < two64.
Proof. intros H. unfold of_int64, two64. destruct (z <? 0)%Z eqn:E; lia. Qed.

Lemma bool_roundtrip b : dec_bool (enc_bool b) = b.
Proof. destruct b; reflexivity. Qed.

(* ------------------------------------------------------------------ *)
(** * 5. TermV2 *)

Definition wf_datom (a : datom) : Prop :=
  match a with
  | DVar v => v < two32
  | DInt z => (- 9223372036854775808 <= z < 9223372036854775808)%Z
  | DStr s => s < two64
  | DDate d => d < two64
  | DBytes _ => True
  | DBool _ => True
  end.
Definition wf_dterm (t : dterm) : Prop :=
  match t with DA a => wf_datom a | DSet l => Forall wf_datom l end.

Definition pb_of_atom (a : datom) : pterm :=
  match a with
  | DVar v => PTvar v | DInt z => PTint z | DStr s => PTstr s | DDate d => PTdate d
  | DBytes b => PTbytes b | DBool b => PTbool b
  end.
Definition pb_of_term (t : dterm) : pterm :=
  match t with DA a => pb_of_atom a | DSet l => PTset (map pb_of_atom l) end.

Lemma two32_lt_two64 v : v < two32 -> v < two64.
Proof. unfold two32, two64. lia. Qed.

Lemma wf_scalar_atom a : wf_datom a -> Forall wf_scalar (fields_atom a).
Proof.
  intros H. destruct a as [v|z|s|d|b|b]; cbn [fields_atom]; (constructor; [|constructor]);
    (split; [reflexivity|]); cbn [snd fv fb]; cbn [wf_datom] in H; auto.
  - apply two32_lt_two64. exact H.
  - apply of_int64_small. exact H.
  - destruct b; unfold two64; cbn; lia.
Qed.

Lemma parse_atom d st a :
  wf_datom a -> p_term (S d) st (fields_atom a) = Some (pb_of_atom a).
Proof.
  intros H. destruct a as [v|z|s|dt|b|b]; cbn [wf_datom] in H; cbn.
  - rewrite u32_small by exact H. reflexivity.
  - rewrite int64_roundtrip by exact H. reflexivity.
  - reflexivity.
  - reflexivity.
  - reflexivity.
  - destruct b; reflexivity.
Qed.

Arguments sub : simpl never.
Arguments encode_fields : simpl never.
Arguments decode_fields : simpl never.

Lemma small_fm fs n inner : small (encode_fields fs) -> In (fm n inner) fs -> small (encode_fields inner).
Proof. intros Hs Hin. eapply small_payload; eauto. Qed.

Lemma wf_fields_atom a :
  wf_datom a -> small (encode_fields (fields_atom a)) -> Forall wf_field (fields_atom a).
Proof. intros H Hs. apply wf_fields_small; [exact Hs|]. apply wf_scalar_atom. exact H. Qed.

Definition set_fields (l : list datom) : list wfield :=
  map (fun a => fm fn_termset_set (fields_atom a)) l.

Lemma wf_fields_set l :
  Forall wf_datom l -> small (encode_fields (set_fields l)) -> Forall wf_field (set_fields l).
Proof.
  intros H Hs. apply wf_fields_small; [exact Hs|]. unfold set_fields.
  apply Forall_forall. intros f Hin. apply in_map_iff in Hin as (a & <- & _).
  split; [reflexivity | exact I].
Qed.

Lemma wf_fields_term t :
  wf_dterm t -> small (encode_fields (fields_term t)) -> Forall wf_field (fields_term t).
Proof.
  intros H Hs. destruct t as [a|l].
  - apply wf_fields_atom; assumption.
  - apply wf_fields_small; [exact Hs|]. cbn [fields_term].
    constructor; [|constructor]. split; [reflexivity | exact I].
Qed.

Lemma parse_set d l :
  Forall wf_datom l -> small (encode_fields (set_fields l)) ->
  fold_opt (step_termset (p_term (S d))) (set_fields l) [] = Some (map pb_of_atom l).
Proof.
  intros H Hs. unfold set_fields.
  rewrite (fold_opt_repeated (step_termset (p_term (S d))) _ pb_of_atom (fun s => s) (fun _ s => s));
    try reflexivity.
  intros a acc Hin. unfold step_termset, fm. cbn [fst snd].
  change (fn_termset_set =? fn_termset_set) with true. cbn match.
  assert (Hsa : small (encode_fields (fields_atom a))).
  { eapply small_fm; [exact Hs|]. apply in_map_iff. exists a. split; [reflexivity | exact Hin]. }
  pose proof (Forall_In _ _ _ H Hin) as Ha.
  rewrite sub_encode by (apply wf_fields_atom; assumption).
  rewrite parse_atom by exact Ha. reflexivity.
Qed.

Lemma p_term_S d st fs : p_term (S d) st fs = fold_opt (step_term (p_term d)) fs st.
Proof. reflexivity. Qed.

Lemma step_term_set rec st p :
  step_term rec st (fn_term_set, WBytes p) =
  match sub p (fun sfs => fold_opt (step_termset rec) sfs (term_set_state st)) with
  | Some l => Some (PTset l)
  | None => None
  end.
Proof. reflexivity. Qed.

Lemma parse_term d t :
  wf_dterm t -> small (encode_fields (fields_term t)) ->
  p_term (S (S d)) PTnone (fields_term t) = Some (pb_of_term t).
Proof.
  intros H Hs. destruct t as [a|l].
  - apply parse_atom. exact H.
  - cbn [fields_term pb_of_term]. fold (set_fields l). fold (set_fields l) in Hs.
    rewrite p_term_S. cbn [fold_opt]. unfold fm. rewrite step_term_set.
    assert (Hsl : small (encode_fields (set_fields l))).
    { eapply small_fm; [exact Hs|]. left. reflexivity. }
    rewrite sub_encode by (apply wf_fields_set; assumption).
    cbn [term_set_state].
    rewrite parse_set by assumption. reflexivity.
Qed.

(* conversion back *)
Lemma kind_of_atom a : pterm_kind (pb_of_atom a) = datom_kind a.
Proof. destruct a; reflexivity. Qed.

Lemma conv_atom_pb a : conv_atom (pb_of_atom a) = Ok a.
Proof. destruct a; reflexivity. Qed.

Lemma conv_term_pb t : term_ok t = true -> conv_term (pb_of_term t) = Ok t.
Proof.
  intros H. destruct t as [a|l].
  - destruct a; reflexivity.
  - destruct l as [|a l]; [discriminate|].
    cbn [term_ok] in H. apply andb_true_iff in H as [H1 H2].
    cbn [pb_of_term map conv_term]. rewrite kind_of_atom.
    assert (E7 : (datom_kind a =? 7) = false) by (destruct a; reflexivity).
    apply negb_true_iff in H1. rewrite H1, E7. cbn [orb].
    assert (E : forallb (fun y => pterm_kind y =? datom_kind a) (pb_of_atom a :: map pb_of_atom l) = true).
    { change (pb_of_atom a :: map pb_of_atom l) with (map pb_of_atom (a :: l)).
      rewrite forallb_forall. intros y Hy. apply in_map_iff in Hy as (x & <- & Hx).
      rewrite kind_of_atom. exact (forallb_In _ _ _ H2 Hx). }
    rewrite E. cbn [negb].
    change (pb_of_atom a :: map pb_of_atom l) with (map pb_of_atom (a :: l)).
    rewrite mapM_map by (intros x _; apply conv_atom_pb). reflexivity.
Qed.

(* ------------------------------------------------------------------ *)
(** * 6. PredicateV2, FactV2 *)

Definition wf_dpred (p : dpred) : Prop := dp_name p < two64 /\ Forall wf_dterm (dp_terms p).

Definition pb_of_pred (p : dpred) : ppred :=
  {| pp_name := Some (dp_name p); pp_terms := map pb_of_term (dp_terms p) |}.

Lemma wf_fields_pred p :
  wf_dpred p -> small (encode_fields (fields_pred p)) -> Forall wf_field (fields_pred p).
Proof.
  intros [Hn Ht] Hs. apply wf_fields_small; [exact Hs|]. unfold fields_pred.
  constructor; [split; [reflexivity | exact Hn]|].
  apply Forall_forall. intros f Hin. apply in_map_iff in Hin as (t & <- & _).
  split; [reflexivity | exact I].
Qed.

Lemma step_pred_name d st x :
  step_pred d st (fv fn_pred_name x) = Some {| pp_name := Some x; pp_terms := pp_terms st |}.
Proof. reflexivity. Qed.
Lemma step_pred_term d st p :
  step_pred d st (fn_pred_terms, WBytes p) =
  match sub p (p_term d PTnone) with
  | Some t => Some {| pp_name := pp_name st; pp_terms := pp_terms st ++ [t] |}
  | None => None
  end.
Proof. reflexivity. Qed.

Lemma parse_pred d p :
  (2 <= d)%nat -> wf_dpred p -> small (encode_fields (fields_pred p)) ->
  p_pred d init_pred (fields_pred p) = Some (pb_of_pred p).
Proof.
  intros Hd [Hn Ht] Hs. destruct (two_le_S d Hd) as (d' & ->).
  unfold p_pred, fields_pred. cbn [fold_opt]. rewrite step_pred_name.
  rewrite (fold_opt_repeated (step_pred (S (S d'))) _ pb_of_term pp_terms
             (fun st l => {| pp_name := pp_name st; pp_terms := l |}));
    [reflexivity | intros []; reflexivity | reflexivity | reflexivity |].
  intros t st Hin. unfold fm. rewrite step_pred_term.
  assert (Hst : small (encode_fields (fields_term t))).
  { eapply small_fm; [exact Hs|]. right. apply in_map_iff. exists t. split; [reflexivity|exact Hin]. }
  pose proof (Forall_In _ _ _ Ht Hin) as Hwt.
  rewrite sub_encode by (apply wf_fields_term; assumption).
  rewrite parse_term by assumption. reflexivity.
Qed.

Lemma conv_pred_pb p : pred_ok p = true -> conv_pred (pb_of_pred p) = Ok p.
Proof.
  intros H. unfold conv_pred, pb_of_pred. cbn [pp_terms pp_name].
  rewrite mapM_map by (intros t Ht; apply conv_term_pb; exact (forallb_In _ _ _ H Ht)).
  cbn [bind]. destruct p; reflexivity.
Qed.

Lemma req_pred_pb p : req_pred (pb_of_pred p) = true.
Proof. reflexivity. Qed.

Lemma wf_fields_fact p :
  small (encode_fields (fields_fact p)) -> Forall wf_field (fields_fact p).
Proof.
  intros Hs. apply wf_fields_small; [exact Hs|].
  constructor; [|constructor]. split; [reflexivity | exact I].
Qed.

Lemma step_fact_pred d st p :
  step_fact d st (fn_fact_predicate, WBytes p) =
  match sub p (p_pred d (opt_pred st)) with
  | Some pp => Some (Some pp)
  | None => None
  end.
Proof. reflexivity. Qed.

Lemma parse_fact d p :
  (2 <= d)%nat -> wf_dpred p -> small (encode_fields (fields_fact p)) ->
  p_fact d None (fields_fact p) = Some (Some (pb_of_pred p)).
Proof.
  intros Hd Hw Hs. unfold p_fact, fields_fact, fm. cbn [fold_opt]. rewrite step_fact_pred.
  assert (Hsp : small (encode_fields (fields_pred p))).
  { eapply small_fm; [exact Hs|]. left. reflexivity. }
  rewrite sub_encode by (apply wf_fields_pred; assumption).
  cbn [opt_pred]. rewrite parse_pred by assumption. reflexivity.
Qed.

(* ------------------------------------------------------------------ *)
(** * 7. Op, ExpressionV2, RuleV2, CheckV2 *)

Definition wf_dop (o : dop) : Prop := match o with DOVal t => wf_dterm t | _ => True end.
Definition wf_drule (r : drule) : Prop :=
  wf_dpred (dr_head r) /\ Forall wf_dpred (dr_body r) /\ Forall (Forall wf_dop) (dr_exprs r).

Definition pb_of_op (o : dop) : pop :=
  match o with
  | DOVal t => POval (pb_of_term t)
  | DOUn u => POun (Some (opt_kind (unop_to_kind u)))
  | DOBin b => PObin (Some (opt_kind (binop_to_kind b)))
  end.
Definition pb_of_rule (r : drule) : prule :=
  {| pr_head := Some (pb_of_pred (dr_head r));
     pr_body := map pb_of_pred (dr_body r);
     pr_exprs := map (map pb_of_op) (dr_exprs r) |}.

Lemma forallb_map_true {A B} (p : B -> bool) (g : A -> B) l :
  (forall x, In x l -> p (g x) = true) -> forallb p (map g l) = true.
Proof.
  intros H. apply forallb_forall. intros y Hy. apply in_map_iff in Hy as (x & <- & Hx). auto.
Qed.

Lemma wf_fields_single n inner fs :
  fs = [fm n inner] -> valid_fnum n = true -> small (encode_fields fs) -> Forall wf_field fs.
Proof.
  intros -> Hn Hs. apply wf_fields_small; [exact Hs|].
  constructor; [|constructor]. split; [exact Hn | exact I].
Qed.

Lemma wf_fields_op o : small (encode_fields (fields_op o)) -> Forall wf_field (fields_op o).
Proof.
  intros Hs. destruct o as [t|u|b]; eapply wf_fields_single; try exact Hs; reflexivity.
Qed.

Lemma unop_kind_facts u :
  op_ok (DOUn u) = true ->
  let k := opt_kind (unop_to_kind u) in
  enc_enum k < two64 /\ enum_of (enc_enum k) = k /\ kind_to_unop k = Some u.
Proof.
  intros H. destruct u; cbn in H; try discriminate; repeat split; reflexivity.
Qed.

Lemma binop_kind_facts b :
  op_ok (DOBin b) = true ->
  let k := opt_kind (binop_to_kind b) in
  enc_enum k < two64 /\ enum_of (enc_enum k) = k /\ kind_to_binop k = Some b.
Proof.
  intros H. destruct b; cbn in H; try discriminate; repeat split; reflexivity.
Qed.

Lemma step_op_value d st p :
  step_op d st (fn_op_value, WBytes p) =
  match sub p (p_term d (match st with POval t => t | _ => PTnone end)) with
  | Some t => Some (POval t)
  | None => None
  end.
Proof. reflexivity. Qed.
Lemma step_op_unary d st p :
  step_op d st (fn_op_unary, WBytes p) =
  match sub p (p_kind fn_opunary_kind (match st with POun k => k | _ => None end)) with
  | Some k => Some (POun k)
  | None => None
  end.
Proof. reflexivity. Qed.
Lemma step_op_binary d st p :
  step_op d st (fn_op_binary, WBytes p) =
  match sub p (p_kind fn_opbinary_kind (match st with PObin k => k | _ => None end)) with
  | Some k => Some (PObin k)
  | None => None
  end.
Proof. reflexivity. Qed.

Lemma parse_op d o :
  (2 <= d)%nat -> wf_dop o -> op_ok o = true -> small (encode_fields (fields_op o)) ->
  p_op d POnone (fields_op o) = Some (pb_of_op o).
Proof.
  intros Hd Hw Hok Hs. destruct (two_le_S d Hd) as (d' & ->).
  destruct o as [t|u|b]; unfold p_op; cbn [fields_op fold_opt pb_of_op]; unfold fm.
  - rewrite step_op_value.
    assert (Hst : small (encode_fields (fields_term t))).
    { eapply small_fm; [exact Hs|]. left. reflexivity. }
    rewrite sub_encode by (apply wf_fields_term; assumption).
    rewrite parse_term by assumption. reflexivity.
  - rewrite step_op_unary.
    destruct (unop_kind_facts u Hok) as (H1 & H2 & _).
    rewrite sub_encode.
    + unfold p_kind. cbn [fold_opt]. unfold step_kind, fv.
      rewrite N.eqb_refl, H2. reflexivity.
    + constructor; [|constructor]. split; [reflexivity | exact H1].
  - rewrite step_op_binary.
    destruct (binop_kind_facts b Hok) as (H1 & H2 & _).
    rewrite sub_encode.
    + unfold p_kind. cbn [fold_opt]. unfold step_kind, fv.
      rewrite N.eqb_refl, H2. reflexivity.
    + constructor; [|constructor]. split; [reflexivity | exact H1].
Qed.

Lemma conv_op_pb o : op_ok o = true -> conv_op (pb_of_op o) = Ok o.
Proof.
  intros H. destruct o as [t|u|b]; cbn [pb_of_op conv_op].
  - rewrite conv_term_pb by exact H. reflexivity.
  - destruct (unop_kind_facts u H) as (_ & _ & ->). reflexivity.
  - destruct (binop_kind_facts b H) as (_ & _ & ->). reflexivity.
Qed.

Lemma req_op_pb o : req_op (pb_of_op o) = true.
Proof. destruct o; reflexivity. Qed.

(* ExpressionV2 *)
Lemma wf_fields_expr e : small (encode_fields (fields_expr e)) -> Forall wf_field (fields_expr e).
Proof.
  intros Hs. apply wf_fields_small; [exact Hs|]. unfold fields_expr.
  apply Forall_forall. intros f Hin. apply in_map_iff in Hin as (o & <- & _).
  split; [reflexivity | exact I].
Qed.

Lemma step_expr_op d st p :
  step_expr d st (fn_expr_ops, WBytes p) =
  match sub p (p_op d POnone) with Some o => Some (st ++ [o]) | None => None end.
Proof. reflexivity. Qed.

Lemma parse_expr d e :
  (2 <= d)%nat -> Forall wf_dop e -> forallb op_ok e = true ->
  small (encode_fields (fields_expr e)) ->
  p_expr d [] (fields_expr e) = Some (map pb_of_op e).
Proof.
  intros Hd Hw Hok Hs. unfold p_expr, fields_expr.
  rewrite (fold_opt_repeated (step_expr d) _ pb_of_op (fun s => s) (fun _ s => s));
    try reflexivity.
  intros o st Hin. unfold fm. rewrite step_expr_op.
  assert (Hso : small (encode_fields (fields_op o))).
  { eapply small_fm; [exact Hs|]. apply in_map_iff. exists o. split; [reflexivity|exact Hin]. }
  rewrite sub_encode by (apply wf_fields_op; assumption).
  rewrite parse_op; [reflexivity | exact Hd | exact (Forall_In _ _ _ Hw Hin)
                    | exact (forallb_In _ _ _ Hok Hin) | exact Hso].
Qed.

(* RuleV2 *)
Lemma wf_fields_rule r : small (encode_fields (fields_rule r)) -> Forall wf_field (fields_rule r).
Proof.
  intros Hs. apply wf_fields_small; [exact Hs|]. unfold fields_rule.
  constructor; [split; [reflexivity | exact I]|].
  apply Forall_app. split; apply Forall_forall; intros f Hin;
    apply in_map_iff in Hin as (x & <- & _); (split; [reflexivity | exact I]).
Qed.

Lemma step_rule_head d st p :
  step_rule d st (fn_rule_head, WBytes p) =
  match sub p (p_pred d (opt_pred (pr_head st))) with
  | Some h => Some {| pr_head := Some h; pr_body := pr_body st; pr_exprs := pr_exprs st |}
  | None => None
  end.
Proof. reflexivity. Qed.
Lemma step_rule_body d st p :
  step_rule d st (fn_rule_body, WBytes p) =
  match sub p (p_pred d init_pred) with
  | Some b => Some {| pr_head := pr_head st; pr_body := pr_body st ++ [b]; pr_exprs := pr_exprs st |}
  | None => None
  end.
Proof. reflexivity. Qed.
Lemma step_rule_expr d st p :
  step_rule d st (fn_rule_expressions, WBytes p) =
  match sub p (p_expr d []) with
  | Some e => Some {| pr_head := pr_head st; pr_body := pr_body st; pr_exprs := pr_exprs st ++ [e] |}
  | None => None
  end.
Proof. reflexivity. Qed.

Lemma parse_rule d r :
  (2 <= d)%nat -> wf_drule r -> rule_ok r = true -> small (encode_fields (fields_rule r)) ->
  p_rule d init_rule (fields_rule r) = Some (pb_of_rule r).
Proof.
  intros Hd (Hh & Hb & He) Hok Hs.
  unfold rule_ok in Hok. apply andb_true_iff in Hok as [Hok Hokh].
  apply andb_true_iff in Hok as [Hokb Hoke].
  unfold p_rule, fields_rule. cbn [fold_opt]. unfold fm at 1. rewrite step_rule_head.
  assert (Hsh : small (encode_fields (fields_pred (dr_head r)))).
  { eapply small_fm; [exact Hs|]. left. reflexivity. }
  rewrite sub_encode by (apply wf_fields_pred; assumption).
  cbn [init_rule pr_head opt_pred]. rewrite parse_pred by assumption.
  rewrite fold_opt_app.
  rewrite (fold_opt_repeated (step_rule d) _ pb_of_pred pr_body
             (fun st l => {| pr_head := pr_head st; pr_body := l; pr_exprs := pr_exprs st |}));
    [| intros []; reflexivity | reflexivity | reflexivity |].
  2:{ intros p st Hin. unfold fm. rewrite step_rule_body.
      assert (Hsp : small (encode_fields (fields_pred p))).
      { eapply small_fm; [exact Hs|]. right. apply in_or_app. left.
        apply in_map_iff. exists p. split; [reflexivity|exact Hin]. }
      pose proof (Forall_In _ _ _ Hb Hin) as Hwp.
      rewrite sub_encode by (apply wf_fields_pred; assumption).
      rewrite parse_pred by assumption. reflexivity. }
  rewrite (fold_opt_repeated (step_rule d) _ (map pb_of_op) pr_exprs
             (fun st l => {| pr_head := pr_head st; pr_body := pr_body st; pr_exprs := l |}));
    [reflexivity | intros []; reflexivity | reflexivity | reflexivity |].
  intros e st Hin. unfold fm. rewrite step_rule_expr.
  assert (Hse : small (encode_fields (fields_expr e))).
  { eapply small_fm; [exact Hs|]. right. apply in_or_app. right.
    apply in_map_iff. exists e. split; [reflexivity|exact Hin]. }
  rewrite sub_encode by (apply wf_fields_expr; assumption).
  rewrite parse_expr; [reflexivity | exact Hd | exact (Forall_In _ _ _ He Hin)
                      | exact (forallb_In _ _ _ Hoke Hin) | exact Hse].
Qed.

Lemma conv_rule_pb r : rule_ok r = true -> conv_rule (pb_of_rule r) = Ok r.
Proof.
  intros Hok. unfold rule_ok in Hok. apply andb_true_iff in Hok as [Hok Hokh].
  apply andb_true_iff in Hok as [Hokb Hoke].
  unfold conv_rule, pb_of_rule. cbn [pr_body pr_exprs pr_head].
  rewrite mapM_map by (intros p Hp; apply conv_pred_pb; exact (forallb_In _ _ _ Hokb Hp)).
  cbn [bind].
  rewrite mapM_map.
  2:{ intros e Hin. unfold conv_expr. apply mapM_map. intros o Ho. apply conv_op_pb.
      exact (forallb_In _ _ _ (forallb_In _ _ _ Hoke Hin) Ho). }
  cbn [bind]. rewrite conv_pred_pb by exact Hokh. cbn [bind]. destruct r; reflexivity.
Qed.

Lemma req_rule_pb r : req_rule (pb_of_rule r) = true.
Proof.
  unfold req_rule, pb_of_rule. cbn [pr_head pr_body pr_exprs]. rewrite req_pred_pb.
  rewrite forallb_map_true by (intros; apply req_pred_pb).
  rewrite forallb_map_true; [reflexivity|].
  intros e _. apply forallb_map_true. intros o _. apply req_op_pb.
Qed.

(* repeated RuleV2 (CheckV2.queries, Policy.queries) *)
Lemma step_rules_rule fn d st p :
  step_rules fn d st (fn, WBytes p) =
  match sub p (p_rule d init_rule) with Some r => Some (st ++ [r]) | None => None end.
Proof. unfold step_rules. rewrite N.eqb_refl. reflexivity. Qed.

Definition rules_fields (fn : N) (rs : list drule) : list wfield :=
  map (fun r => fm fn (fields_rule r)) rs.

Lemma wf_fields_rules fn rs :
  valid_fnum fn = true -> small (encode_fields (rules_fields fn rs)) ->
  Forall wf_field (rules_fields fn rs).
Proof.
  intros Hfn Hs. apply wf_fields_small; [exact Hs|]. unfold rules_fields.
  apply Forall_forall. intros f Hin. apply in_map_iff in Hin as (x & <- & _).
  split; [exact Hfn | exact I].
Qed.

Lemma parse_rules fn d rs st :
  (2 <= d)%nat -> Forall wf_drule rs -> forallb rule_ok rs = true ->
  small (encode_fields (rules_fields fn rs)) ->
  fold_opt (step_rules fn d) (rules_fields fn rs) st = Some (st ++ map pb_of_rule rs).
Proof.
  intros Hd Hw Hok Hs. unfold rules_fields.
  rewrite (fold_opt_repeated (step_rules fn d) _ pb_of_rule (fun s => s) (fun _ s => s));
    try reflexivity.
  intros r st' Hin. unfold fm. rewrite step_rules_rule.
  assert (Hsr : small (encode_fields (fields_rule r))).
  { eapply small_fm; [exact Hs|]. apply in_map_iff. exists r. split; [reflexivity|exact Hin]. }
  rewrite sub_encode by (apply wf_fields_rule; assumption).
  rewrite parse_rule; [reflexivity | exact Hd | exact (Forall_In _ _ _ Hw Hin)
                      | exact (forallb_In _ _ _ Hok Hin) | exact Hsr].
Qed.

Lemma conv_check_pb c : forallb rule_ok c = true -> conv_check (map pb_of_rule c) = Ok c.
Proof.
  intros H. unfold conv_check. apply mapM_map. intros r Hr. apply conv_rule_pb.
  exact (forallb_In _ _ _ H Hr).
Qed.

Lemma req_check_pb c : req_check (map pb_of_rule c) = true.
Proof. unfold req_check. apply forallb_map_true. intros; apply req_rule_pb. Qed.

(* ------------------------------------------------------------------ *)
(** * 8. Block *)

Definition wf_dblock (b : dblock) : Prop :=
  db_version b = 3 /\
  Forall wf_dpred (db_facts b) /\ Forall wf_drule (db_rules b) /\
  Forall (Forall wf_drule) (db_checks b) /\
  small (encode_fields (fields_block b)).

Definition pb_of_block (b : dblock) : pblock :=
  {| pb_symbols := db_symbols b;
     pb_context := Some (db_context b);
     pb_version := Some (db_version b);
     pb_facts := map (fun p => Some (pb_of_pred p)) (db_facts b);
     pb_rules := map pb_of_rule (db_rules b);
     pb_checks := map (map pb_of_rule) (db_checks b) |}.

Lemma wf_fields_map (g : N) {A} (mk : A -> wval) (l : list A) :
  valid_fnum g = true -> (forall x, match mk x with WBytes _ => True | _ => False end) ->
  Forall wf_scalar (map (fun x => (g, mk x)) l).
Proof.
  intros Hg Hmk. apply Forall_forall. intros f Hin. apply in_map_iff in Hin as (x & <- & _).
  split; [exact Hg|]. cbn [snd]. specialize (Hmk x). destruct (mk x); tauto.
Qed.

Lemma wf_fields_block b :
  db_version b = 3 -> small (encode_fields (fields_block b)) -> Forall wf_field (fields_block b).
Proof.
  intros Hv Hs. apply wf_fields_small; [exact Hs|]. unfold fields_block.
  apply Forall_app. split.
  { apply (wf_fields_map fn_block_symbols (fun s => WBytes s)); [reflexivity | intros; exact I]. }
  apply Forall_app. split.
  { constructor; [split; [reflexivity | exact I]|].
    constructor; [|constructor]. split; [reflexivity|]. cbn [snd fv]. rewrite Hv. reflexivity. }
  apply Forall_app. split.
  { apply (wf_fields_map fn_block_facts (fun p => WBytes (encode_fields (fields_fact p))));
      [reflexivity | intros; exact I]. }
  apply Forall_app. split.
  { apply (wf_fields_map fn_block_rules (fun r => WBytes (encode_fields (fields_rule r))));
      [reflexivity | intros; exact I]. }
  apply (wf_fields_map fn_block_checks (fun c => WBytes (encode_fields (fields_check c))));
    [reflexivity | intros; exact I].
Qed.

Lemma step_block_symbol d st s :
  step_block d st (fb fn_block_symbols s) =
  Some {| pb_symbols := pb_symbols st ++ [s]; pb_context := pb_context st;
          pb_version := pb_version st; pb_facts := pb_facts st;
          pb_rules := pb_rules st; pb_checks := pb_checks st |}.
Proof. reflexivity. Qed.
Lemma step_block_context d st s :
  step_block d st (fb fn_block_context s) =
  Some {| pb_symbols := pb_symbols st; pb_context := Some s;
          pb_version := pb_version st; pb_facts := pb_facts st;
          pb_rules := pb_rules st; pb_checks := pb_checks st |}.
Proof. reflexivity. Qed.
Lemma step_block_version d st x :
  step_block d st (fv fn_block_version x) =
  Some {| pb_symbols := pb_symbols st; pb_context := pb_context st;
          pb_version := Some (u32 x); pb_facts := pb_facts st;
          pb_rules := pb_rules st; pb_checks := pb_checks st |}.
Proof. reflexivity. Qed.
Lemma step_block_fact d st p :
  step_block d st (fn_block_facts, WBytes p) =
  match sub p (p_fact d None) with
  | Some x => Some {| pb_symbols := pb_symbols st; pb_context := pb_context st;
                      pb_version := pb_version st; pb_facts := pb_facts st ++ [x];
                      pb_rules := pb_rules st; pb_checks := pb_checks st |}
  | None => None
  end.
Proof. reflexivity. Qed.
Lemma step_block_rule d st p :
  step_block d st (fn_block_rules, WBytes p) =
  match sub p (p_rule d init_rule) with
  | Some x => Some {| pb_symbols := pb_symbols st; pb_context := pb_context st;
                      pb_version := pb_version st; pb_facts := pb_facts st;
                      pb_rules := pb_rules st ++ [x]; pb_checks := pb_checks st |}
  | None => None
  end.
Proof. reflexivity. Qed.
Lemma step_block_check d st p :
  step_block d st (fn_block_checks, WBytes p) =
  match sub p (p_check d []) with
  | Some x => Some {| pb_symbols := pb_symbols st; pb_context := pb_context st;
                      pb_version := pb_version st; pb_facts := pb_facts st;
                      pb_rules := pb_rules st; pb_checks := pb_checks st ++ [x] |}
  | None => None
  end.
Proof. reflexivity. Qed.

Lemma parse_check d c :
  (2 <= d)%nat -> Forall wf_drule c -> forallb rule_ok c = true ->
  small (encode_fields (fields_check c)) ->
  p_check d [] (fields_check c) = Some (map pb_of_rule c).
Proof.
  intros Hd Hw Hok Hs. unfold p_check. change (fields_check c) with (rules_fields fn_check_queries c).
  rewrite parse_rules by assumption. reflexivity.
Qed.

Lemma in_app3 {A} (x : A) a b c : In x c -> In x (a ++ b ++ c).
Proof. intros H. apply in_or_app. right. apply in_or_app. right. exact H. Qed.

Lemma parse_block_fields d b :
  (2 <= d)%nat -> wf_dblock b -> block_ok b = true ->
  p_block d init_block (fields_block b) = Some (pb_of_block b).
Proof.
  intros Hd (Hv & Hf & Hr & Hc & Hs) Hok.
  unfold block_ok in Hok. apply andb_true_iff in Hok as [Hok Hokc].
  apply andb_true_iff in Hok as [Hokf Hokr].
  unfold p_block, fields_block in *.
  rewrite fold_opt_app.
  rewrite (fold_opt_repeated (step_block d) (fb fn_block_symbols) (fun s => s) pb_symbols
             (fun st l => {| pb_symbols := l; pb_context := pb_context st;
                             pb_version := pb_version st; pb_facts := pb_facts st;
                             pb_rules := pb_rules st; pb_checks := pb_checks st |}));
    [| intros []; reflexivity | reflexivity | reflexivity | intros; apply step_block_symbol].
  cbn [app fold_opt]. rewrite step_block_context, step_block_version.
  rewrite fold_opt_app.
  rewrite (fold_opt_repeated (step_block d) _ (fun p => Some (pb_of_pred p)) pb_facts
             (fun st l => {| pb_symbols := pb_symbols st; pb_context := pb_context st;
                             pb_version := pb_version st; pb_facts := l;
                             pb_rules := pb_rules st; pb_checks := pb_checks st |}));
    [| intros []; reflexivity | reflexivity | reflexivity |].
  2:{ intros p st Hin. unfold fm at 1. rewrite step_block_fact.
      assert (Hsp : small (encode_fields (fields_fact p))).
      { eapply small_fm; [exact Hs|]. apply in_app3. apply in_or_app. left.
        apply in_map_iff. exists p. split; [reflexivity|exact Hin]. }
      rewrite sub_encode by (apply wf_fields_fact; assumption).
      rewrite parse_fact; [reflexivity | exact Hd | exact (Forall_In _ _ _ Hf Hin) | exact Hsp]. }
  rewrite fold_opt_app.
  rewrite (fold_opt_repeated (step_block d) _ pb_of_rule pb_rules
             (fun st l => {| pb_symbols := pb_symbols st; pb_context := pb_context st;
                             pb_version := pb_version st; pb_facts := pb_facts st;
                             pb_rules := l; pb_checks := pb_checks st |}));
    [| intros []; reflexivity | reflexivity | reflexivity |].
  2:{ intros r st Hin. unfold fm at 1. rewrite step_block_rule.
      assert (Hsr : small (encode_fields (fields_rule r))).
      { eapply small_fm; [exact Hs|]. apply in_app3. apply in_or_app. right.
        apply in_or_app. left. apply in_map_iff. exists r. split; [reflexivity|exact Hin]. }
      rewrite sub_encode by (apply wf_fields_rule; assumption).
      rewrite parse_rule; [reflexivity | exact Hd | exact (Forall_In _ _ _ Hr Hin)
                          | exact (forallb_In _ _ _ Hokr Hin) | exact Hsr]. }
  rewrite (fold_opt_repeated (step_block d) _ (map pb_of_rule) pb_checks
             (fun st l => {| pb_symbols := pb_symbols st; pb_context := pb_context st;
                             pb_version := pb_version st; pb_facts := pb_facts st;
                             pb_rules := pb_rules st; pb_checks := l |}));
    [| intros []; reflexivity | reflexivity | reflexivity |].
  2:{ intros c st Hin. unfold fm at 1. rewrite step_block_check.
      assert (Hsc : small (encode_fields (fields_check c))).
      { eapply small_fm; [exact Hs|]. apply in_app3. apply in_or_app. right.
        apply in_or_app. right. apply in_map_iff. exists c. split; [reflexivity|exact Hin]. }
      rewrite sub_encode
        by (apply (wf_fields_rules fn_check_queries c); [reflexivity | exact Hsc]).
      rewrite parse_check; [reflexivity | exact Hd | exact (Forall_In _ _ _ Hc Hin)
                           | exact (forallb_In _ _ _ Hokc Hin) | exact Hsc]. }
  cbn [pb_symbols pb_context pb_version pb_facts pb_rules pb_checks init_block app].
  rewrite map_id. unfold pb_of_block. rewrite Hv. reflexivity.
Qed.

Lemma req_block_pb b : req_block (pb_of_block b) = true.
Proof.
  unfold req_block, pb_of_block. cbn [pb_facts pb_rules pb_checks].
  rewrite forallb_map_true by (intros; apply req_pred_pb).
  rewrite forallb_map_true by (intros; apply req_rule_pb).
  rewrite forallb_map_true by (intros; apply req_check_pb). reflexivity.
Qed.

Lemma conv_block_pb b :
  db_version b = 3 -> block_ok b = true -> conv_block (pb_of_block b) = Ok b.
Proof.
  intros Hv Hok. unfold block_ok in Hok. apply andb_true_iff in Hok as [Hok Hokc].
  apply andb_true_iff in Hok as [Hokf Hokr].
  unfold conv_block, pb_of_block.
  cbn [pb_version pb_facts pb_rules pb_checks pb_symbols pb_context]. rewrite Hv.
  change (3 <? Generated.min_schema_version) with false.
  change (Generated.max_schema_version <? 3) with false.
  change (negb (3 =? block_switch_version)) with false. cbn match.
  rewrite mapM_map
    by (intros p Hp; cbn [conv_fact]; apply conv_pred_pb; exact (forallb_In _ _ _ Hokf Hp)).
  cbn [bind].
  rewrite mapM_map by (intros r Hr; apply conv_rule_pb; exact (forallb_In _ _ _ Hokr Hr)).
  cbn [bind].
  rewrite mapM_map by (intros c Hc; apply conv_check_pb; exact (forallb_In _ _ _ Hokc Hc)).
  cbn [bind]. destruct b; cbn in *; subst; reflexivity.
Qed.

Lemma lenN_depth bs : (2 <= depth_for bs)%nat.
Proof. unfold depth_for. lia. Qed.

Theorem block_roundtrip b bs :
  wf_dblock b -> enc_block b = Ok bs -> dec_block bs = Ok b.
Proof.
  intros Hw He. unfold enc_block in He.
  destruct (block_ok b) eqn:Hok; [|discriminate]. injection He as <-.
  pose proof Hw as (Hv & _ & _ & _ & Hs).
  unfold dec_block, parse_block, unmarshal_msg.
  rewrite fields_roundtrip by (apply wf_fields_block; assumption).
  rewrite parse_block_fields by (auto using lenN_depth).
  rewrite req_block_pb. cbn [orb bind]. apply conv_block_pb; assumption.
Qed.

Definition example_block : dblock :=
  {| db_symbols := [[97]; []]; db_context := [99; 116; 120]; db_version := 3;
     db_facts := [{| dp_name := 1024; dp_terms := [DA (DInt (-1)); DSet [DStr 3; DStr 1025];
                                                  DA (DBool true); DA (DBytes []); DA (DDate 1700000000)] |}];
     db_rules := [{| dr_head := {| dp_name := 2; dp_terms := [DA (DVar 5)] |};
                     dr_body := [{| dp_name := 2; dp_terms := [DA (DVar 5)] |}];
                     dr_exprs := [[DOVal (DA (DVar 5)); DOVal (DA (DInt 3)); DOBin BLessThan; DOUn UParens];
                                  [DOVal (DSet [DInt 1; DInt (-9223372036854775808)]); DOUn ULength]] |}];
     db_checks := [[{| dr_head := {| dp_name := 27; dp_terms := [] |};
                       dr_body := [{| dp_name := 0; dp_terms := [DA (DStr 18446744073709551615)] |}];
                       dr_exprs := [] |}]] |}.

Ltac wf_tac :=
  repeat (split || constructor); try exact I; try (vm_compute; reflexivity); try (cbn; lia).

Example block_roundtrip_nonvacuous :
  wf_dblock example_block /\ exists bs, enc_block example_block = Ok bs /\ dec_block bs = Ok example_block.
Proof.
  split; [wf_tac|].
  exists (match enc_block example_block with Ok bs => bs | _ => [] end).
  split; vm_compute; reflexivity.
Qed.

(* ------------------------------------------------------------------ *)
(** * 9. Version gate and totality of [dec_block] *)

Theorem dec_block_version bs b : dec_block bs = Ok b -> db_version b = 3.
Proof.
  unfold dec_block. destruct (parse_block bs) as [pb|e|s]; cbn [bind]; try discriminate.
  unfold conv_block.
  set (v := match pb_version pb with Some v => v | None => 0 end).
  destruct (v <? Generated.min_schema_version); [discriminate|].
  destruct (Generated.max_schema_version <? v); [discriminate|].
  destruct (v =? block_switch_version) eqn:E; cbn [negb]; [|discriminate].
  apply N.eqb_eq in E.
  destruct (mapM conv_fact (pb_facts pb)); cbn [bind]; try discriminate.
  destruct (mapM conv_rule (pb_rules pb)); cbn [bind]; try discriminate.
  destruct (mapM conv_check (pb_checks pb)); cbn [bind]; try discriminate.
  intros H. injection H as <-. cbn [db_version]. exact E.
Qed.

(* the generated bounds leave exactly that version *)
Lemma schema_version_window :
  Generated.min_schema_version = 3 /\ Generated.max_schema_version = 3.
Proof. split; reflexivity. Qed.

Lemma dec_block_version_generated bs b :
  dec_block bs = Ok b ->
  Generated.min_schema_version <= db_version b <= Generated.max_schema_version.
Proof.
  intros H. rewrite (dec_block_version _ _ H).
  destruct schema_version_window as [-> ->]. lia.
Qed.

Definition np {A} (r : res A) : Prop := is_panic r = false.

Lemma np_bind {A B} (r : res A) (f : A -> res B) : np r -> (forall a, np (f a)) -> np (bind r f).
Proof. intros Hr Hf. destruct r; cbn; auto. Qed.

Lemma np_mapM {A B} (f : A -> res B) l : (forall x, np (f x)) -> np (mapM f l).
Proof.
  intros Hf. induction l as [|x l IH]; [reflexivity|]. cbn [mapM].
  apply np_bind; [apply Hf|]. intros y. apply np_bind; [exact IH|]. intros ys. reflexivity.
Qed.

Lemma np_not_panic {A} (r : res A) : np r -> forall s, r <> Panic s.
Proof. intros H s E. rewrite E in H. discriminate. Qed.

Lemma np_conv_atom t : np (conv_atom t).
Proof. destruct t; reflexivity. Qed.

Lemma np_conv_term t : np (conv_term t).
Proof.
  destruct t as [|n|z|n|n|b|b|l]; try reflexivity.
  cbn [conv_term]. destruct l as [|x l]; [reflexivity|].
  destruct ((pterm_kind x =? 1) || (pterm_kind x =? 7)); [reflexivity|].
  destruct (negb (forallb (fun y => pterm_kind y =? pterm_kind x) (x :: l))); [reflexivity|].
  apply np_bind; [apply np_mapM; apply np_conv_atom | reflexivity].
Qed.

Lemma np_conv_pred p : np (conv_pred p).
Proof.
  unfold conv_pred. apply np_bind; [apply np_mapM; apply np_conv_term|].
  intros ts. destruct (pp_name p); reflexivity.
Qed.

Lemma np_conv_fact f : np (conv_fact f).
Proof. destruct f; [apply np_conv_pred | reflexivity]. Qed.

Lemma np_conv_op o : np (conv_op o).
Proof.
  destruct o as [|t|[k|]|[k|]]; cbn [conv_op]; try reflexivity.
  - apply np_bind; [apply np_conv_term | reflexivity].
  - destruct (kind_to_unop k); reflexivity.
  - destruct (kind_to_binop k); reflexivity.
Qed.

Lemma np_conv_rule r : np (conv_rule r).
Proof.
  unfold conv_rule. apply np_bind; [apply np_mapM; apply np_conv_pred|]. intros body.
  apply np_bind; [apply np_mapM; intros e; apply np_mapM; apply np_conv_op|]. intros exprs.
  destruct (pr_head r); [|reflexivity]. apply np_bind; [apply np_conv_pred | reflexivity].
Qed.

Lemma np_conv_check c : np (conv_check c).
Proof. apply np_mapM. apply np_conv_rule. Qed.

Lemma np_conv_block b : np (conv_block b).
Proof.
  unfold conv_block.
  destruct (_ <? Generated.min_schema_version); [reflexivity|].
  destruct (Generated.max_schema_version <? _); [reflexivity|].
  destruct (negb _); [reflexivity|].
  apply np_bind; [apply np_mapM; apply np_conv_fact|]. intros facts.
  apply np_bind; [apply np_mapM; apply np_conv_rule|]. intros rules.
  apply np_bind; [apply np_mapM; apply np_conv_check|]. intros checks. reflexivity.
Qed.

Lemma np_unmarshal_msg {X} p req fast bs : np (@unmarshal_msg X p req fast bs).
Proof.
  unfold unmarshal_msg. destruct (decode_fields bs); [|reflexivity].
  destruct (p l); [|reflexivity]. destruct (req x || fast l); reflexivity.
Qed.

Lemma np_dec_block bs : np (dec_block bs).
Proof.
  unfold dec_block. apply np_bind; [apply np_unmarshal_msg | apply np_conv_block].
Qed.

Theorem dec_block_no_panic bs s : dec_block bs <> Panic s.
Proof. apply np_not_panic. apply np_dec_block. Qed.

(* ------------------------------------------------------------------ *)
(** * 10. Biscuit (the signed envelope) *)

Definition wf_sblock (s : sblock) : Prop := sb_alg s < two32.
Definition wf_container (c : container) : Prop :=
  match c_rootid c with Some r => r < two32 | None => True end /\
  wf_sblock (c_auth c) /\ Forall wf_sblock (c_blocks c) /\
  small (enc_container c).

Definition pb_of_sblock (s : sblock) : psblock :=
  {| ps_block := Some (sb_block s);
     ps_key := Some {| pk_alg := Some (sb_alg s); pk_key := Some (sb_key s) |};
     ps_sig := Some (sb_sig s) |}.
Definition pb_of_container (c : container) : pbiscuit :=
  {| pbi_rootid := c_rootid c;
     pbi_auth := Some (pb_of_sblock (c_auth c));
     pbi_blocks := map pb_of_sblock (c_blocks c);
     pbi_proof := Some (c_proof c) |}.

Definition pubkey_fields (s : sblock) : list wfield :=
  [fv fn_pk_algorithm (enc_enum (sb_alg s)); fb fn_pk_key (sb_key s)].

Lemma wf_fields_pubkey s :
  wf_sblock s -> small (encode_fields (pubkey_fields s)) -> Forall wf_field (pubkey_fields s).
Proof.
  intros Hw Hs. apply wf_fields_small; [exact Hs|].
  constructor; [split; [reflexivity | apply enc_enum_small; exact Hw]|].
  constructor; [|constructor]. split; [reflexivity | exact I].
Qed.

Lemma wf_fields_sblock s : small (encode_fields (fields_sblock s)) -> Forall wf_field (fields_sblock s).
Proof.
  intros Hs. apply wf_fields_small; [exact Hs|].
  repeat (constructor; [split; [reflexivity | exact I]|]). constructor.
Qed.

Lemma step_sblock_block st b :
  step_sblock st (fb fn_sb_block b) =
  Some {| ps_block := Some b; ps_key := ps_key st; ps_sig := ps_sig st |}.
Proof. reflexivity. Qed.
Lemma step_sblock_key st p :
  step_sblock st (fn_sb_nextKey, WBytes p) =
  match sub p (p_pubkey (match ps_key st with Some k => k | None => init_pubkey end)) with
  | Some k => Some {| ps_block := ps_block st; ps_key := Some k; ps_sig := ps_sig st |}
  | None => None
  end.
Proof. reflexivity. Qed.
Lemma step_sblock_sig st b :
  step_sblock st (fb fn_sb_signature b) =
  Some {| ps_block := ps_block st; ps_key := ps_key st; ps_sig := Some b |}.
Proof. reflexivity. Qed.

Lemma parse_pubkey s :
  wf_sblock s ->
  p_pubkey init_pubkey (pubkey_fields s) =
  Some {| pk_alg := Some (sb_alg s); pk_key := Some (sb_key s) |}.
Proof.
  intros Hw. unfold p_pubkey, pubkey_fields. cbn [fold_opt].
  change (step_pubkey init_pubkey (fv fn_pk_algorithm (enc_enum (sb_alg s))))
    with (Some {| pk_alg := Some (enum_of (enc_enum (sb_alg s))); pk_key := None |}).
  cbn match. rewrite enum_roundtrip by exact Hw. reflexivity.
Qed.

Lemma parse_sblock s :
  wf_sblock s -> small (encode_fields (fields_sblock s)) ->
  p_sblock init_sblock (fields_sblock s) = Some (pb_of_sblock s).
Proof.
  intros Hw Hs. unfold p_sblock, fields_sblock in *. cbn [fold_opt].
  rewrite step_sblock_block. unfold fm. rewrite step_sblock_key. fold (pubkey_fields s) in *.
  assert (Hsk : small (encode_fields (pubkey_fields s))).
  { eapply small_fm; [exact Hs|]. right. left. reflexivity. }
  rewrite sub_encode by (apply wf_fields_pubkey; assumption).
  cbn [ps_key init_sblock]. rewrite parse_pubkey by exact Hw.
  rewrite step_sblock_sig. reflexivity.
Qed.

Lemma conv_sblock_pb s : conv_sblock (pb_of_sblock s) = Ok s.
Proof. destruct s; reflexivity. Qed.

Lemma req_sblock_pb s : req_sblock (pb_of_sblock s) = true.
Proof. reflexivity. Qed.

Lemma parse_proof p : p_proof PNone (fields_proof p) = Some p.
Proof. destruct p; reflexivity. Qed.

Lemma wf_fields_proof p : small (encode_fields (fields_proof p)) -> Forall wf_field (fields_proof p).
Proof.
  intros Hs. apply wf_fields_small; [exact Hs|].
  destruct p; repeat constructor.
Qed.

Lemma step_biscuit_rootid st x :
  step_biscuit st (fv fn_biscuit_rootKeyId x) =
  Some {| pbi_rootid := Some (u32 x); pbi_auth := pbi_auth st;
          pbi_blocks := pbi_blocks st; pbi_proof := pbi_proof st |}.
Proof. reflexivity. Qed.
Lemma step_biscuit_auth st p :
  step_biscuit st (fn_biscuit_authority, WBytes p) =
  match sub p (p_sblock (match pbi_auth st with Some a => a | None => init_sblock end)) with
  | Some a => Some {| pbi_rootid := pbi_rootid st; pbi_auth := Some a;
                      pbi_blocks := pbi_blocks st; pbi_proof := pbi_proof st |}
  | None => None
  end.
Proof. reflexivity. Qed.
Lemma step_biscuit_block st p :
  step_biscuit st (fn_biscuit_blocks, WBytes p) =
  match sub p (p_sblock init_sblock) with
  | Some b => Some {| pbi_rootid := pbi_rootid st; pbi_auth := pbi_auth st;
                      pbi_blocks := pbi_blocks st ++ [b]; pbi_proof := pbi_proof st |}
  | None => None
  end.
Proof. reflexivity. Qed.
Lemma step_biscuit_proof st p :
  step_biscuit st (fn_biscuit_proof, WBytes p) =
  match sub p (p_proof (match pbi_proof st with Some x => x | None => PNone end)) with
  | Some x => Some {| pbi_rootid := pbi_rootid st; pbi_auth := pbi_auth st;
                      pbi_blocks := pbi_blocks st; pbi_proof := Some x |}
  | None => None
  end.
Proof. reflexivity. Qed.

Definition rootid_fields (o : option N) : list wfield :=
  match o with Some r => [fv fn_biscuit_rootKeyId r] | None => [] end.

Lemma wf_fields_container c :
  wf_container c -> Forall wf_field (fields_container c).
Proof.
  intros (Hr & _ & _ & Hs). apply wf_fields_small; [exact Hs|]. unfold fields_container.
  apply Forall_app. split.
  { destruct (c_rootid c) as [r|]; [|constructor].
    constructor; [|constructor]. split; [reflexivity | apply two32_lt_two64; exact Hr]. }
  apply Forall_app. split.
  { constructor; [|constructor]. split; [reflexivity | exact I]. }
  apply Forall_app. split.
  { apply (wf_fields_map fn_biscuit_blocks (fun b => WBytes (encode_fields (fields_sblock b))));
      [reflexivity | intros; exact I]. }
  constructor; [|constructor]. split; [reflexivity | exact I].
Qed.

Lemma parse_container_fields c :
  wf_container c -> p_biscuit init_biscuit (fields_container c) = Some (pb_of_container c).
Proof.
  intros (Hr & Ha & Hb & Hs). unfold enc_container in Hs.
  unfold p_biscuit, fields_container in *. fold (rootid_fields (c_rootid c)) in *.
  rewrite fold_opt_app.
  assert (E1 : fold_opt step_biscuit (rootid_fields (c_rootid c)) init_biscuit =
               Some {| pbi_rootid := c_rootid c; pbi_auth := None; pbi_blocks := []; pbi_proof := None |}).
  { destruct (c_rootid c) as [r|]; [|reflexivity]. cbn [rootid_fields fold_opt].
    rewrite step_biscuit_rootid, u32_small by exact Hr. reflexivity. }
  rewrite E1. cbn [app fold_opt]. unfold fm at 1. rewrite step_biscuit_auth.
  assert (Hsa : small (encode_fields (fields_sblock (c_auth c)))).
  { eapply small_fm; [exact Hs|]. apply in_or_app. right. left. reflexivity. }
  rewrite sub_encode by (apply wf_fields_sblock; assumption).
  cbn [pbi_auth]. rewrite parse_sblock by assumption.
  rewrite fold_opt_app.
  rewrite (fold_opt_repeated step_biscuit _ pb_of_sblock pbi_blocks
             (fun st l => {| pbi_rootid := pbi_rootid st; pbi_auth := pbi_auth st;
                             pbi_blocks := l; pbi_proof := pbi_proof st |}));
    [| intros []; reflexivity | reflexivity | reflexivity |].
  2:{ intros b st Hin. unfold fm at 1. rewrite step_biscuit_block.
      assert (Hsb : small (encode_fields (fields_sblock b))).
      { eapply small_fm; [exact Hs|]. apply in_or_app. right. cbn [app]. right.
        apply in_or_app. left.
        apply in_map_iff. exists b. split; [reflexivity|exact Hin]. }
      rewrite sub_encode by (apply wf_fields_sblock; assumption).
      rewrite parse_sblock; [reflexivity | exact (Forall_In _ _ _ Hb Hin) | exact Hsb]. }
  cbn [fold_opt]. unfold fm. rewrite step_biscuit_proof.
  assert (Hsp : small (encode_fields (fields_proof (c_proof c)))).
  { eapply small_fm; [exact Hs|]. apply in_or_app. right. cbn [app]. right.
    apply in_or_app. right. left. reflexivity. }
  rewrite sub_encode by (apply wf_fields_proof; assumption).
  cbn [pbi_proof pbi_rootid pbi_auth pbi_blocks app]. rewrite parse_proof. reflexivity.
Qed.

Lemma req_biscuit_pb c : req_biscuit (pb_of_container c) = true.
Proof.
  unfold req_biscuit, pb_of_container. cbn [pbi_auth pbi_blocks pbi_proof].
  rewrite req_sblock_pb. rewrite forallb_map_true by (intros; apply req_sblock_pb). reflexivity.
Qed.

Lemma conv_biscuit_pb c : conv_biscuit (pb_of_container c) = Ok c.
Proof.
  unfold conv_biscuit, pb_of_container. cbn [pbi_auth pbi_proof pbi_blocks pbi_rootid].
  rewrite conv_sblock_pb. cbn [bind].
  rewrite mapM_map by (intros; apply conv_sblock_pb). cbn [bind]. destruct c; reflexivity.
Qed.

Theorem container_roundtrip c : wf_container c -> dec_container (enc_container c) = Ok c.
Proof.
  intros Hw. unfold dec_container, parse_biscuit, unmarshal_msg, enc_container.
  rewrite fields_roundtrip by (apply wf_fields_container; exact Hw).
  rewrite parse_container_fields by exact Hw.
  rewrite req_biscuit_pb. cbn [orb bind]. apply conv_biscuit_pb.
Qed.

Definition example_container : container :=
  {| c_rootid := Some 4294967295;
     c_auth := {| sb_block := [24; 3]; sb_alg := 0; sb_key := repeat 7 32; sb_sig := repeat 9 64 |};
     c_blocks := [{| sb_block := []; sb_alg := 4294967295; sb_key := [1]; sb_sig := [] |};
                  {| sb_block := [1;2;3]; sb_alg := 1; sb_key := repeat 1 32; sb_sig := repeat 2 64 |}];
     c_proof := PFinalSig (repeat 3 64) |}.

Example container_roundtrip_nonvacuous :
  wf_container example_container /\
  dec_container (enc_container example_container) = Ok example_container.
Proof. split; [wf_tac | vm_compute; reflexivity]. Qed.

(* ------------------------------------------------------------------ *)
(** * 11. AuthorizerPolicies *)

Definition wf_policy (p : N * list drule) : Prop := fst p < two32 /\ Forall wf_drule (snd p).
Definition wf_policies (a : policies) : Prop :=
  match ap_version a with Some v => v < two32 | None => True end /\
  Forall wf_dpred (ap_facts a) /\ Forall wf_drule (ap_rules a) /\
  Forall (Forall wf_drule) (ap_checks a) /\ Forall wf_policy (ap_policies a) /\
  small (encode_fields (fields_policies a)).

Definition pb_of_policy (p : N * list drule) : ppolicy :=
  {| ppo_queries := map pb_of_rule (snd p); ppo_kind := Some (fst p) |}.
Definition pb_of_policies (a : policies) : ppolicies :=
  {| pa_symbols := ap_symbols a;
     pa_version := ap_version a;
     pa_facts := map (fun p => Some (pb_of_pred p)) (ap_facts a);
     pa_rules := map pb_of_rule (ap_rules a);
     pa_checks := map (map pb_of_rule) (ap_checks a);
     pa_policies := map pb_of_policy (ap_policies a) |}.

Lemma wf_fields_policy p :
  wf_policy p -> small (encode_fields (fields_policy p)) -> Forall wf_field (fields_policy p).
Proof.
  intros [Hk _] Hs. apply wf_fields_small; [exact Hs|]. unfold fields_policy.
  apply Forall_app. split.
  { apply (wf_fields_map fn_policy_queries (fun r => WBytes (encode_fields (fields_rule r))));
      [reflexivity | intros; exact I]. }
  constructor; [|constructor]. split; [reflexivity | apply enc_enum_small; exact Hk].
Qed.

Lemma step_policy_query d st p :
  step_policy d st (fn_policy_queries, WBytes p) =
  match sub p (p_rule d init_rule) with
  | Some r => Some {| ppo_queries := ppo_queries st ++ [r]; ppo_kind := ppo_kind st |}
  | None => None
  end.
Proof. reflexivity. Qed.
Lemma step_policy_kind d st x :
  step_policy d st (fv fn_policy_kind x) =
  Some {| ppo_queries := ppo_queries st; ppo_kind := Some (enum_of x) |}.
Proof. reflexivity. Qed.

Lemma parse_policy d p :
  (2 <= d)%nat -> wf_policy p -> forallb rule_ok (snd p) = true ->
  small (encode_fields (fields_policy p)) ->
  p_policy d init_policy (fields_policy p) = Some (pb_of_policy p).
Proof.
  intros Hd [Hk Hq] Hok Hs. unfold p_policy, fields_policy in *.
  rewrite fold_opt_app.
  rewrite (fold_opt_repeated (step_policy d) _ pb_of_rule ppo_queries
             (fun st l => {| ppo_queries := l; ppo_kind := ppo_kind st |}));
    [| intros []; reflexivity | reflexivity | reflexivity |].
  2:{ intros r st Hin. unfold fm at 1. rewrite step_policy_query.
      assert (Hsr : small (encode_fields (fields_rule r))).
      { eapply small_fm; [exact Hs|]. apply in_or_app. left.
        apply in_map_iff. exists r. split; [reflexivity|exact Hin]. }
      rewrite sub_encode by (apply wf_fields_rule; assumption).
      rewrite parse_rule; [reflexivity | exact Hd | exact (Forall_In _ _ _ Hq Hin)
                          | exact (forallb_In _ _ _ Hok Hin) | exact Hsr]. }
  cbn [fold_opt]. rewrite step_policy_kind, enum_roundtrip by exact Hk. reflexivity.
Qed.

Lemma conv_policy_pb p : forallb rule_ok (snd p) = true -> conv_policy (pb_of_policy p) = Ok p.
Proof.
  intros H. unfold conv_policy, pb_of_policy. cbn [ppo_kind ppo_queries].
  rewrite mapM_map by (intros r Hr; apply conv_rule_pb; exact (forallb_In _ _ _ H Hr)).
  cbn [bind]. destruct p; reflexivity.
Qed.

Lemma req_policy_pb p : req_policy (pb_of_policy p) = true.
Proof.
  unfold req_policy, pb_of_policy. cbn [ppo_queries ppo_kind].
  rewrite forallb_map_true by (intros; apply req_rule_pb). reflexivity.
Qed.

Definition version_fields (o : option N) : list wfield :=
  match o with Some v => [fv fn_ap_version v] | None => [] end.

Lemma wf_fields_policies a :
  wf_policies a -> Forall wf_field (fields_policies a).
Proof.
  intros (Hv & _ & _ & _ & _ & Hs). apply wf_fields_small; [exact Hs|]. unfold fields_policies.
  apply Forall_app. split.
  { apply (wf_fields_map fn_ap_symbols (fun s => WBytes s)); [reflexivity | intros; exact I]. }
  apply Forall_app. split.
  { destruct (ap_version a) as [v|]; [|constructor].
    constructor; [|constructor]. split; [reflexivity | apply two32_lt_two64; exact Hv]. }
  apply Forall_app. split.
  { apply (wf_fields_map fn_ap_facts (fun p => WBytes (encode_fields (fields_fact p))));
      [reflexivity | intros; exact I]. }
  apply Forall_app. split.
  { apply (wf_fields_map fn_ap_rules (fun r => WBytes (encode_fields (fields_rule r))));
      [reflexivity | intros; exact I]. }
  apply Forall_app. split.
  { apply (wf_fields_map fn_ap_checks (fun c => WBytes (encode_fields (fields_check c))));
      [reflexivity | intros; exact I]. }
  apply (wf_fields_map fn_ap_policies (fun p => WBytes (encode_fields (fields_policy p))));
    [reflexivity | intros; exact I].
Qed.

Lemma step_policies_symbol d st s :
  step_policies d st (fb fn_ap_symbols s) =
  Some {| pa_symbols := pa_symbols st ++ [s]; pa_version := pa_version st;
          pa_facts := pa_facts st; pa_rules := pa_rules st;
          pa_checks := pa_checks st; pa_policies := pa_policies st |}.
Proof. reflexivity. Qed.
Lemma step_policies_version d st x :
  step_policies d st (fv fn_ap_version x) =
  Some {| pa_symbols := pa_symbols st; pa_version := Some (u32 x);
          pa_facts := pa_facts st; pa_rules := pa_rules st;
          pa_checks := pa_checks st; pa_policies := pa_policies st |}.
Proof. reflexivity. Qed.
Lemma step_policies_fact d st p :
  step_policies d st (fn_ap_facts, WBytes p) =
  match sub p (p_fact d None) with
  | Some x => Some {| pa_symbols := pa_symbols st; pa_version := pa_version st;
                      pa_facts := pa_facts st ++ [x]; pa_rules := pa_rules st;
                      pa_checks := pa_checks st; pa_policies := pa_policies st |}
  | None => None
  end.
Proof. reflexivity. Qed.
Lemma step_policies_rule d st p :
  step_policies d st (fn_ap_rules, WBytes p) =
  match sub p (p_rule d init_rule) with
  | Some x => Some {| pa_symbols := pa_symbols st; pa_version := pa_version st;
                      pa_facts := pa_facts st; pa_rules := pa_rules st ++ [x];
                      pa_checks := pa_checks st; pa_policies := pa_policies st |}
  | None => None
  end.
Proof. reflexivity. Qed.
Lemma step_policies_check d st p :
  step_policies d st (fn_ap_checks, WBytes p) =
  match sub p (p_check d []) with
  | Some x => Some {| pa_symbols := pa_symbols st; pa_version := pa_version st;
                      pa_facts := pa_facts st; pa_rules := pa_rules st;
                      pa_checks := pa_checks st ++ [x]; pa_policies := pa_policies st |}
  | None => None
  end.
Proof. reflexivity. Qed.
Lemma step_policies_policy d st p :
  step_policies d st (fn_ap_policies, WBytes p) =
  match sub p (p_policy d init_policy) with
  | Some x => Some {| pa_symbols := pa_symbols st; pa_version := pa_version st;
                      pa_facts := pa_facts st; pa_rules := pa_rules st;
                      pa_checks := pa_checks st; pa_policies := pa_policies st ++ [x] |}
  | None => None
  end.
Proof. reflexivity. Qed.

Lemma in_app_r2 {A} (x : A) a b c : In x c -> In x (a ++ b ++ c).
Proof. apply in_app3. Qed.

Lemma parse_policies_fields d a :
  (2 <= d)%nat -> wf_policies a -> policies_ok a = true ->
  p_policies d init_policies (fields_policies a) = Some (pb_of_policies a).
Proof.
  intros Hd (Hv & Hf & Hr & Hc & Hp & Hs) Hok.
  unfold policies_ok in Hok. apply andb_true_iff in Hok as [Hok Hokp].
  apply andb_true_iff in Hok as [Hok Hokc]. apply andb_true_iff in Hok as [Hokf Hokr].
  unfold p_policies, fields_policies in *. fold (version_fields (ap_version a)) in *.
  rewrite fold_opt_app.
  rewrite (fold_opt_repeated (step_policies d) (fb fn_ap_symbols) (fun s => s) pa_symbols
             (fun st l => {| pa_symbols := l; pa_version := pa_version st;
                             pa_facts := pa_facts st; pa_rules := pa_rules st;
                             pa_checks := pa_checks st; pa_policies := pa_policies st |}));
    [| intros []; reflexivity | reflexivity | reflexivity | intros; apply step_policies_symbol].
  rewrite fold_opt_app.
  match goal with |- context [fold_opt (step_policies d) (version_fields (ap_version a)) ?st] =>
    assert (E1 : fold_opt (step_policies d) (version_fields (ap_version a)) st =
                 Some {| pa_symbols := pa_symbols st; pa_version := ap_version a;
                         pa_facts := pa_facts st; pa_rules := pa_rules st;
                         pa_checks := pa_checks st; pa_policies := pa_policies st |}) end.
  { destruct (ap_version a) as [v|]; [|reflexivity]. cbn [version_fields fold_opt].
    rewrite step_policies_version, u32_small by exact Hv. reflexivity. }
  rewrite E1. clear E1.
  rewrite fold_opt_app.
  rewrite (fold_opt_repeated (step_policies d) _ (fun p => Some (pb_of_pred p)) pa_facts
             (fun st l => {| pa_symbols := pa_symbols st; pa_version := pa_version st;
                             pa_facts := l; pa_rules := pa_rules st;
                             pa_checks := pa_checks st; pa_policies := pa_policies st |}));
    [| intros []; reflexivity | reflexivity | reflexivity |].
  2:{ intros p st Hin. unfold fm at 1. rewrite step_policies_fact.
      assert (Hsp : small (encode_fields (fields_fact p))).
      { eapply small_fm; [exact Hs|]. apply in_app3. apply in_or_app. left.
        apply in_map_iff. exists p. split; [reflexivity|exact Hin]. }
      rewrite sub_encode by (apply wf_fields_fact; assumption).
      rewrite parse_fact; [reflexivity | exact Hd | exact (Forall_In _ _ _ Hf Hin) | exact Hsp]. }
  rewrite fold_opt_app.
  rewrite (fold_opt_repeated (step_policies d) _ pb_of_rule pa_rules
             (fun st l => {| pa_symbols := pa_symbols st; pa_version := pa_version st;
                             pa_facts := pa_facts st; pa_rules := l;
                             pa_checks := pa_checks st; pa_policies := pa_policies st |}));
    [| intros []; reflexivity | reflexivity | reflexivity |].
  2:{ intros r st Hin. unfold fm at 1. rewrite step_policies_rule.
      assert (Hsr : small (encode_fields (fields_rule r))).
      { eapply small_fm; [exact Hs|]. apply in_app3. apply in_or_app. right.
        apply in_or_app. left. apply in_map_iff. exists r. split; [reflexivity|exact Hin]. }
      rewrite sub_encode by (apply wf_fields_rule; assumption).
      rewrite parse_rule; [reflexivity | exact Hd | exact (Forall_In _ _ _ Hr Hin)
                          | exact (forallb_In _ _ _ Hokr Hin) | exact Hsr]. }
  rewrite fold_opt_app.
  rewrite (fold_opt_repeated (step_policies d) _ (map pb_of_rule) pa_checks
             (fun st l => {| pa_symbols := pa_symbols st; pa_version := pa_version st;
                             pa_facts := pa_facts st; pa_rules := pa_rules st;
                             pa_checks := l; pa_policies := pa_policies st |}));
    [| intros []; reflexivity | reflexivity | reflexivity |].
  2:{ intros c st Hin. unfold fm at 1. rewrite step_policies_check.
      assert (Hsc : small (encode_fields (fields_check c))).
      { eapply small_fm; [exact Hs|]. apply in_app3. apply in_or_app. right.
        apply in_or_app. right. apply in_or_app. left.
        apply in_map_iff. exists c. split; [reflexivity|exact Hin]. }
      rewrite sub_encode
        by (apply (wf_fields_rules fn_check_queries c); [reflexivity | exact Hsc]).
      rewrite parse_check; [reflexivity | exact Hd | exact (Forall_In _ _ _ Hc Hin)
                           | exact (forallb_In _ _ _ Hokc Hin) | exact Hsc]. }
  rewrite (fold_opt_repeated (step_policies d) _ pb_of_policy pa_policies
             (fun st l => {| pa_symbols := pa_symbols st; pa_version := pa_version st;
                             pa_facts := pa_facts st; pa_rules := pa_rules st;
                             pa_checks := pa_checks st; pa_policies := l |}));
    [| intros []; reflexivity | reflexivity | reflexivity |].
  2:{ intros p st Hin. unfold fm at 1. rewrite step_policies_policy.
      assert (Hsp : small (encode_fields (fields_policy p))).
      { eapply small_fm; [exact Hs|]. apply in_app3. apply in_or_app. right.
        apply in_or_app. right. apply in_or_app. right.
        apply in_map_iff. exists p. split; [reflexivity|exact Hin]. }
      pose proof (Forall_In _ _ _ Hp Hin) as Hwp.
      rewrite sub_encode by (apply wf_fields_policy; assumption).
      rewrite parse_policy; [reflexivity | exact Hd | exact Hwp
                            | exact (forallb_In _ _ _ Hokp Hin) | exact Hsp]. }
  cbn [pa_symbols pa_version pa_facts pa_rules pa_checks pa_policies init_policies app].
  rewrite map_id. reflexivity.
Qed.

Lemma req_policies_pb a : req_policies (pb_of_policies a) = true.
Proof.
  unfold req_policies, pb_of_policies. cbn [pa_facts pa_rules pa_checks pa_policies].
  rewrite forallb_map_true by (intros; apply req_pred_pb).
  rewrite forallb_map_true by (intros; apply req_rule_pb).
  rewrite forallb_map_true by (intros; apply req_check_pb).
  rewrite forallb_map_true by (intros; apply req_policy_pb). reflexivity.
Qed.

Lemma conv_policies_pb a : policies_ok a = true -> conv_policies (pb_of_policies a) = Ok a.
Proof.
  intros Hok. unfold policies_ok in Hok. apply andb_true_iff in Hok as [Hok Hokp].
  apply andb_true_iff in Hok as [Hok Hokc]. apply andb_true_iff in Hok as [Hokf Hokr].
  unfold conv_policies, pb_of_policies.
  cbn [pa_symbols pa_version pa_facts pa_rules pa_checks pa_policies].
  rewrite mapM_map
    by (intros p Hp; cbn [conv_fact]; apply conv_pred_pb; exact (forallb_In _ _ _ Hokf Hp)).
  cbn [bind].
  rewrite mapM_map by (intros r Hr; apply conv_rule_pb; exact (forallb_In _ _ _ Hokr Hr)).
  cbn [bind].
  rewrite mapM_map by (intros c Hc; apply conv_check_pb; exact (forallb_In _ _ _ Hokc Hc)).
  cbn [bind].
  rewrite mapM_map
    by (intros p Hp; apply conv_policy_pb; exact (forallb_In _ _ _ Hokp Hp)).
  cbn [bind]. destruct a; reflexivity.
Qed.

Theorem policies_roundtrip a bs :
  wf_policies a -> enc_policies a = Ok bs -> dec_policies bs = Ok a.
Proof.
  intros Hw He. unfold enc_policies in He.
  destruct (policies_ok a) eqn:Hok; [|discriminate]. injection He as <-.
  unfold dec_policies, parse_policies, unmarshal_msg.
  rewrite fields_roundtrip by (apply wf_fields_policies; exact Hw).
  rewrite parse_policies_fields by (auto using lenN_depth).
  rewrite req_policies_pb. cbn [orb bind]. apply conv_policies_pb. exact Hok.
Qed.

Definition example_policies : policies :=
  {| ap_symbols := [[112]; [113; 114]];
     ap_version := Some 3;
     ap_facts := db_facts example_block;
     ap_rules := db_rules example_block;
     ap_checks := db_checks example_block;
     ap_policies := [(0, db_rules example_block); (1, []); (4294967295, db_rules example_block)] |}.

Example policies_roundtrip_nonvacuous :
  wf_policies example_policies /\
  dec_policies (match enc_policies example_policies with Ok bs => bs | _ => [] end) = Ok example_policies /\
  is_ok (enc_policies example_policies) = true.
Proof. split; [wf_tac | split; vm_compute; reflexivity]. Qed.

(* ------------------------------------------------------------------ *)
(** * 12. Totality of the other entry points *)

Lemma np_conv_sblock s : np (conv_sblock s).
Proof.
  unfold conv_sblock. destruct (ps_block s), (ps_key s) as [k|], (ps_sig s); try reflexivity.
  destruct (pk_alg k), (pk_key k); reflexivity.
Qed.

Lemma np_dec_container bs : np (dec_container bs).
Proof.
  unfold dec_container. apply np_bind; [apply np_unmarshal_msg|]. intros b.
  unfold conv_biscuit. destruct (pbi_auth b); [|reflexivity]. destruct (pbi_proof b); [|reflexivity].
  apply np_bind; [apply np_conv_sblock|]. intros a.
  apply np_bind; [apply np_mapM; apply np_conv_sblock | reflexivity].
Qed.

Theorem dec_container_no_panic bs s : dec_container bs <> Panic s.
Proof. apply np_not_panic. apply np_dec_container. Qed.

Lemma np_gate_and_decode sb : np (gate_and_decode sb).
Proof.
  unfold gate_and_decode.
  destruct (negb (length (sb_key sb) =? 32)%nat); [reflexivity|].
  destruct (negb (length (sb_sig sb) =? 64)%nat); [reflexivity|]. apply np_dec_block.
Qed.

Theorem unmarshal_no_panic bs s : unmarshal bs <> Panic s.
Proof.
  apply np_not_panic. unfold unmarshal.
  apply np_bind; [apply np_dec_container|]. intros c.
  apply np_bind; [apply np_gate_and_decode|]. intros a.
  apply np_bind; [apply np_mapM; apply np_gate_and_decode | reflexivity].
Qed.

Lemma np_conv_policy p : np (conv_policy p).
Proof.
  unfold conv_policy. destruct (ppo_kind p); [|reflexivity].
  apply np_bind; [apply np_mapM; apply np_conv_rule | reflexivity].
Qed.

Theorem dec_policies_no_panic bs s : dec_policies bs <> Panic s.
Proof.
  apply np_not_panic. unfold dec_policies. apply np_bind; [apply np_unmarshal_msg|]. intros a.
  unfold conv_policies.
  apply np_bind; [apply np_mapM; apply np_conv_fact|]. intros facts.
  apply np_bind; [apply np_mapM; apply np_conv_rule|]. intros rules.
  apply np_bind; [apply np_mapM; apply np_conv_check|]. intros checks.
  apply np_bind; [apply np_mapM; apply np_conv_policy | reflexivity].
Qed.

(* Unmarshal's gates, in its order: on success every announced key is 32
   bytes and every block signature 64 bytes, and each block decodes to the
   returned content *)
Theorem unmarshal_ok bs c a blocks :
  unmarshal bs = Ok (c, a, blocks) ->
  dec_container bs = Ok c /\
  Forall (fun sb => length (sb_key sb) = 32%nat /\ length (sb_sig sb) = 64%nat)
         (c_auth c :: c_blocks c) /\
  dec_block (sb_block (c_auth c)) = Ok a /\
  mapM (fun sb => dec_block (sb_block sb)) (c_blocks c) = Ok blocks.
Proof.
  unfold unmarshal. destruct (dec_container bs) as [c0| |]; cbn [bind]; try discriminate.
  destruct (gate_and_decode (c_auth c0)) as [a0| |] eqn:Ea; cbn [bind]; try discriminate.
  destruct (mapM gate_and_decode (c_blocks c0)) as [bl| |] eqn:Eb; cbn [bind]; try discriminate.
  intros H. injection H as <- <- <-.
  assert (G : forall sb d, gate_and_decode sb = Ok d ->
              (length (sb_key sb) = 32%nat /\ length (sb_sig sb) = 64%nat) /\
              dec_block (sb_block sb) = Ok d).
  { intros sb d. unfold gate_and_decode.
    destruct (length (sb_key sb) =? 32)%nat eqn:E1; cbn [negb]; [|discriminate].
    destruct (length (sb_sig sb) =? 64)%nat eqn:E2; cbn [negb]; [|discriminate].
    apply Nat.eqb_eq in E1, E2. auto. }
  split; [reflexivity|].
  destruct (G _ _ Ea) as [Ga Da].
  assert (M : forall l r, mapM gate_and_decode l = Ok r ->
              Forall (fun sb => length (sb_key sb) = 32%nat /\ length (sb_sig sb) = 64%nat) l /\
              mapM (fun sb => dec_block (sb_block sb)) l = Ok r).
  { induction l as [|x l IH]; intros r Hr.
    - cbn in Hr. injection Hr as <-. split; [constructor | reflexivity].
    - cbn [mapM] in Hr. destruct (gate_and_decode x) as [d| |] eqn:Ex; cbn [bind] in Hr; try discriminate.
      destruct (mapM gate_and_decode l) as [r'| |] eqn:El; cbn [bind] in Hr; try discriminate.
      injection Hr as <-. destruct (G _ _ Ex) as [Gx Dx]. destruct (IH _ eq_refl) as [F1 F2].
      split; [constructor; assumption|]. cbn [mapM]. rewrite Dx, F2. reflexivity. }
  destruct (M _ _ Eb) as [F1 F2].
  split; [constructor; assumption|]. split; assumption.
Qed.

Example unmarshal_nonvacuous :
  exists bs c a blocks, unmarshal bs = Ok (c, a, blocks) /\ length blocks = 1%nat.
Proof.
  pose (blk := match enc_block example_block with Ok b => b | _ => [] end).
  pose (c := {| c_rootid := None;
                c_auth := {| sb_block := blk; sb_alg := 0; sb_key := repeat 7 32; sb_sig := repeat 9 64 |};
                c_blocks := [{| sb_block := [24; 3]; sb_alg := 0; sb_key := repeat 1 32; sb_sig := repeat 2 64 |}];
                c_proof := PNextSecret (repeat 5 32) |}).
  exists (enc_container c), c, example_block,
    [{| db_symbols := []; db_context := []; db_version := 3; db_facts := []; db_rules := []; db_checks := [] |}].
  split; vm_compute; reflexivity.
Qed.

(* ------------------------------------------------------------------ *)
Print Assumptions varint_roundtrip.
Print Assumptions fields_roundtrip.
Print Assumptions decode_fields_k_fuel.
Print Assumptions block_roundtrip.
Print Assumptions container_roundtrip.
Print Assumptions policies_roundtrip.
Print Assumptions dec_block_version.
Print Assumptions dec_block_no_panic.
Print Assumptions dec_container_no_panic.
Print Assumptions unmarshal_no_panic.
Print Assumptions dec_policies_no_panic.
Print Assumptions unmarshal_ok.
