(* GenFnProofs.v — the definitions that /verif/genfn regenerates from the Go source
   text (coq/GeneratedFn.v) are EQUAL to the hand-written model functions
   (Model/Symbols.v, Model/DEval.v), for all inputs in the ranges of the Go types.

   The proofs are written against the MEANING of the generated terms, not their
   shape: one script ([go_solve]) unfolds the generated definition, the prelude
   and the model, splits every conditional, and closes the leaves by linear
   arithmetic; loops are handled by giving the loop a specification in terms of
   the model's list functions and proving it by induction with the same script.
   A harmless reshaping of the Go function is proved by the same script; a change
   of behaviour is not (notes/GENFN.md records the self-test). *)
From Coq Require Import ZifyN ZifyNat ZifyBool.
From BV Require Import Base Term Expr DTerm Symbols Datalog Authz Wire Token DEval GoSem.
From BV Require Import GeneratedFn.
From BV Require Generated.

Ltac Zify.zify_post_hook ::= Z.to_euclidean_division_equations.

Local Open Scope Z_scope.

(* ------------------------------------------------------------------ *)
(** * 0. Ranges of the Go types *)

(* len(s) is an int *)
Definition len_ok {A} (l : list A) : Prop := len_int l < two63.
(* OFFSET + len of the table (+ 1 for the appended symbol) is computed in int: a []string
   of that length (16 bytes per element) does not fit in any address space *)
Definition table_fits (t : table) : Prop := len_int t + 1025 < two63.

Definition wf_datom (a : datom) : Prop :=
  match a with
  | DVar v => in_u32 v
  | DInt z => in_i64 z
  | DStr s => in_u64 s
  | DDate d => in_u64 d
  | DBytes _ => True
  | DBool _ => True
  end.
Definition wf_dterm (x : dterm) : Prop :=
  match x with DA a => wf_datom a | DSet l => Forall wf_datom l /\ len_ok l end.

(* ------------------------------------------------------------------ *)
(** * 0b. Truncated division of an int64 *)

Lemma quot_abs_le a b : b <> 0 -> Z.abs (a ÷ b) <= Z.abs a.
Proof.
  intros Hb. rewrite <- Z.quot_abs by exact Hb.
  rewrite Z.quot_div_nonneg by lia.
  apply Z.div_le_upper_bound; [lia|]. nia.
Qed.

(* the quotient of an int64 leaves the range of int64 only as MinInt64 / -1 *)
Lemma quot_range a b : - 9223372036854775808 <= a < 9223372036854775808 -> b <> 0 ->
  - 9223372036854775808 <= a ÷ b <= 9223372036854775808 /\
  (a ÷ b = 9223372036854775808 -> a = - 9223372036854775808 /\ b = -1).
Proof.
  intros Ha Hb. assert (H := quot_abs_le a b Hb). split; [lia|].
  intros E. assert (Ea : a = - 9223372036854775808) by lia. split; [exact Ea|].
  subst a.
  destruct (Z.eq_dec b (-1)) as [E1|E1]; [exact E1|]. exfalso.
  destruct (Z.eq_dec b 1) as [E2|E2]. { subst b. rewrite Z.quot_1_r in E. lia. }
  assert (H2 : Z.abs (-9223372036854775808 ÷ b) <= 4611686018427387904).
  { rewrite <- Z.quot_abs by exact Hb. rewrite Z.quot_div_nonneg by lia.
    apply Z.div_le_upper_bound; lia. }
  lia.
Qed.

(* ------------------------------------------------------------------ *)
(** * 1. The script *)

Ltac go_consts :=
  unfold len_ok, table_fits, in_i64, in_u64, in_u32, in_u8, wf_dterm, wf_datom in *;
  unfold i64_add, i64_sub, i64_mul, i64_neg, u64_add, u64_sub, u64_mul, u32_add, u32_sub, u32_mul,
    i64_quo, i64_rem, u64_quo, u64_rem, i64_shl, u64_shl,
    wrap_int, wrap_i64, wrap_i32, wrap_u64, wrap_u32, wrap_u8, in_int64, int64_min, int64_max,
    two63, two64, two32, offset, Generated.sym_offset, go_OFFSET, len_int in *.

(* peel equal constructors off both sides of an equation (f_equal goes too far:
   it also decomposes arithmetic) *)
Ltac go_feq :=
  repeat match goal with
  | |- (_, _) = (_, _) => apply f_equal2
  | |- Ok _ = Ok _ => apply f_equal
  | |- Some _ = Some _ => apply f_equal
  | |- Done _ = Done _ => apply f_equal
  | |- Continue _ = Continue _ => apply f_equal
  | |- DA _ = DA _ => apply f_equal
  | |- DSet _ = DSet _ => apply f_equal
  | |- DInt _ = DInt _ => apply f_equal
  | |- DStr _ = DStr _ => apply f_equal
  | |- DDate _ = DDate _ => apply f_equal
  | |- DVar _ = DVar _ => apply f_equal
  | |- DBool _ = DBool _ => apply f_equal
  | |- DBytes _ = DBytes _ => apply f_equal
  end; try reflexivity.

(* what is known about every quotient a / b of the goal whose dividend is an int64 *)
Ltac go_quot_facts :=
  repeat match goal with
  | |- context [Z.quot ?a ?b] =>
      lazymatch goal with
      | _ : b <> 0 -> _ /\ (Z.quot a b = _ -> _) |- _ => fail
      | _ =>
          let Q := fresh "Hq" in
          assert (Q : b <> 0 ->
                      - 9223372036854775808 <= Z.quot a b <= 9223372036854775808 /\
                      (Z.quot a b = 9223372036854775808 -> a = - 9223372036854775808 /\ b = -1))
            by (apply quot_range; lia)
      end
  end.

(* a leaf: equal outcomes, equal up to arithmetic, or contradictory conditions *)
Ltac go_leaf :=
  first
    [ reflexivity
    | congruence
    | go_consts; go_quot_facts; first [ lia | exfalso; lia | go_feq; lia ] ].

(* the partial operations of the prelude (division, make) are conditionals *)
Ltac go_partial := unfold i64_quo, i64_rem, u64_quo, u64_rem, make_list.

(* split one conditional of the goal *)
Ltac go_split1 :=
  match goal with
  | |- context [if ?c then _ else _] => let E := fresh "Hc" in destruct c eqn:E
  | |- context [match ?x with Some _ => _ | None => _ end] => let E := fresh "Ho" in destruct x eqn:E
  | |- context [match ?x with Ok _ => _ | Err _ => _ | Panic _ => _ end] => let E := fresh "Hr" in destruct x eqn:E
  | |- context [match ?x with Lt => _ | Eq => _ | Gt => _ end] => let E := fresh "Hk" in destruct x eqn:E
  end.

Ltac go_red := cbv beta iota zeta.

Ltac go_splits := go_red; repeat (go_split1; go_red).

(* ------------------------------------------------------------------ *)
(** * 2. Lists: Go indexing, slicing, make+copy against the model's nthN / firstn / skipn *)

Lemma len_int_length {A} (l : list A) : len_int l = Z.of_nat (length l).
Proof. unfold len_int. rewrite lenN_length. lia. Qed.

Lemma len_int_nonneg {A} (l : list A) : 0 <= len_int l.
Proof. unfold len_int. lia. Qed.

Lemma len_int_cons {A} (x : A) l : len_int (x :: l) = 1 + len_int l.
Proof. unfold len_int. cbn [lenN]. lia. Qed.

Lemma len_int_app {A} (a b : list A) : len_int (a ++ b) = len_int a + len_int b.
Proof. rewrite !len_int_length, app_length. lia. Qed.

Lemma idx_from_nthN {A} (l : list A) : forall z, 0 <= z -> idx_from l z = nthN l (Z.to_N z).
Proof.
  induction l as [|x l IH]; intros z Hz; [reflexivity|].
  cbn [idx_from nthN]. destruct (Z.eqb_spec z 0) as [E|E].
  - subst z. reflexivity.
  - destruct (N.eqb_spec (Z.to_N z) 0) as [E'|E']; [lia|].
    rewrite IH by lia. f_equal. lia.
Qed.

Lemma nthN_none_iff {A} (l : list A) : forall n, nthN l n = None <-> (lenN l <= n)%N.
Proof.
  induction l as [|x l IH]; intros n; cbn [nthN lenN].
  - split; [lia | reflexivity].
  - destruct (N.eqb_spec n 0) as [E|E].
    + split; [discriminate | lia].
    + rewrite IH. lia.
Qed.

(* l[z] for every z: in range it is the model's nthN *)
Lemma idx_spec {A} (l : list A) z :
  idx l z = if (0 <=? z) && (z <? len_int l) then nthN l (Z.to_N z) else None.
Proof.
  unfold idx. destruct (Z.ltb_spec z 0) as [H|H].
  - destruct (Z.leb_spec 0 z) as [H'|H']; [lia | reflexivity].
  - destruct (Z.leb_spec 0 z) as [H'|H']; [|lia]. cbn [andb].
    rewrite idx_from_nthN by lia.
    destruct (Z.ltb_spec z (len_int l)) as [H2|H2]; [reflexivity|].
    apply nthN_none_iff. unfold len_int in H2. lia.
Qed.

Lemma nthN_in_range {A} (l : list A) n : (n < lenN l)%N -> exists x, nthN l n = Some x.
Proof.
  intros H. destruct (nthN l n) as [x|] eqn:E; [eauto|].
  apply nthN_none_iff in E. lia.
Qed.

Lemma copy_list_fresh {A} (z : A) (l : list A) : copy_list (repeat z (length l)) l = l.
Proof.
  unfold copy_list. rewrite repeat_length, Nat.min_id, firstn_all, skipn_all2.
  - apply app_nil_r.
  - rewrite repeat_length. lia.
Qed.

Lemma bytes_eqb_sym a b : bytes_eqb a b = bytes_eqb b a.
Proof.
  destruct (bytes_eqb a b) eqn:E.
  - apply bytes_eqb_eq in E. subst b. symmetry. apply bytes_eqb_refl.
  - destruct (bytes_eqb b a) eqn:E'; [|reflexivity].
    apply bytes_eqb_eq in E'. subst b. rewrite bytes_eqb_refl in E. discriminate.
Qed.

(* rewrite the list primitives of the prelude into the model's; then the script applies *)
Ltac go_lists := rewrite ?idx_spec; go_partial.

(* two readings nthN l a / nthN l b of the same list at provably equal indexes *)
Ltac go_same_index :=
  repeat match goal with
  | |- context [nthN ?l ?a] =>
      match goal with
      | |- context [nthN l ?b] =>
          lazymatch a with b => fail | _ => idtac end;
          let E := fresh "Hidx" in
          assert (E : a = b) by (go_consts; lia);
          rewrite E; clear E
      end
  end.

Lemma nthN_some_lt {A} (l : list A) n x : nthN l n = Some x -> (n < lenN l)%N.
Proof.
  intros H. destruct (N.ltb_spec n (lenN l)) as [L|L]; [exact L|].
  apply nthN_none_iff in L. congruence.
Qed.

(* what a reading of nthN says about the index *)
Ltac go_nth_range :=
  repeat match goal with
  | H : nthN ?l ?n = None |- _ => apply nthN_none_iff in H
  | H : nthN ?l ?n = Some ?x |- _ =>
      lazymatch goal with
      | _ : (n < lenN l)%N |- _ => fail
      | _ => let L := fresh "Hlt" in assert (L := nthN_some_lt l n x H)
      end
  end.

Ltac go_split_if :=
  match goal with
  | |- context [if ?c then _ else _] => let E := fresh "Hc" in destruct c eqn:E
  end.

Ltac go_solve :=
  go_lists; go_red; repeat (go_split_if; go_red);
  try reflexivity;
  try (go_same_index; go_splits;
       first [ reflexivity | congruence | go_nth_range; go_leaf ]).

(* ------------------------------------------------------------------ *)
(** * 3. Package-level values *)

Lemma go_DEFAULT_SYMBOLS_eq : go_DEFAULT_SYMBOLS = defaults.
Proof. vm_compute. reflexivity. Qed.
Print Assumptions go_DEFAULT_SYMBOLS_eq.

Lemma go_OFFSET_eq : go_OFFSET = Z.of_N offset.
Proof. reflexivity. Qed.
Print Assumptions go_OFFSET_eq.

Lemma len_int_defaults : len_int defaults = 28.
Proof. vm_compute. reflexivity. Qed.
Lemma lenN_defaults' : lenN defaults = 28%N.
Proof. vm_compute. reflexivity. Qed.

(* the two "<invalid ... %d>" strings, rebuilt from the format string in the source *)
Lemma fmt_invalid_symbol n :
  ([60;105;110;118;97;108;105;100;32;115;121;109;98;111;108;32]%N ++ fmt_d_N n ++ [62]%N) = invalid_symbol n.
Proof. reflexivity. Qed.
Lemma fmt_invalid_variable n :
  ([60;105;110;118;97;108;105;100;32;118;97;114;105;97;98;108;101;32]%N ++ fmt_d_N n ++ [62]%N) = invalid_variable n.
Proof. reflexivity. Qed.

(* ------------------------------------------------------------------ *)
(** * 4. (A) datalog/symbol.go *)

Ltac go_symbols_pre :=
  rewrite ?go_DEFAULT_SYMBOLS_eq, ?len_int_defaults;
  repeat match goal with
  | |- context [?a ++ fmt_d_N ?n ++ ?b] =>
      first [ change (a ++ fmt_d_N n ++ b) with (invalid_symbol n)
            | change (a ++ fmt_d_N n ++ b) with (invalid_variable n) ]
  end.

(** SymbolTable.Str *)
Theorem go_SymbolTable_Str_eq : forall (t : table) (i : N),
  in_u64 i -> len_ok t -> go_SymbolTable_Str t i = Ok (sym_str t i).
Proof.
  intros t i Hi Ht. unfold go_SymbolTable_Str, sym_str. go_symbols_pre.
  assert (Hd := lenN_defaults'). assert (Hn := len_int_nonneg t).
  go_solve.
Qed.
Print Assumptions go_SymbolTable_Str_eq.
Global Opaque go_SymbolTable_Str.

Example go_SymbolTable_Str_ex :
  go_SymbolTable_Str [[97;98]%N] 1024%N = Ok [97;98]%N /\
  go_SymbolTable_Str [[97;98]%N] 27%N = Ok [113;117;101;114;121]%N /\
  go_SymbolTable_Str [[97;98]%N] 28%N = Ok (invalid_symbol 28) /\
  go_SymbolTable_Str [[97;98]%N] 1025%N = Ok (invalid_symbol 1025) /\
  go_SymbolTable_Str [[97;98]%N] 18446744073709551615%N = Ok (invalid_symbol 18446744073709551615).
Proof. vm_compute. repeat split. Qed.

(** SymbolTable.Var *)
Theorem go_SymbolTable_Var_eq : forall (t : table) (v : N),
  in_u32 v -> len_ok t -> go_SymbolTable_Var t v = Ok (sym_var t v).
Proof.
  intros t v Hv Ht. unfold go_SymbolTable_Var, sym_var. go_symbols_pre.
  assert (Hd := lenN_defaults'). assert (Hn := len_int_nonneg t).
  go_solve.
Qed.
Print Assumptions go_SymbolTable_Var_eq.
Global Opaque go_SymbolTable_Var.

Example go_SymbolTable_Var_ex :
  go_SymbolTable_Var [[97;98]%N] 1024%N = Ok [97;98]%N /\
  go_SymbolTable_Var [[97;98]%N] 28%N = Ok (invalid_variable 28) /\
  go_SymbolTable_Var [[97;98]%N] 4294967295%N = Ok (invalid_variable 4294967295).
Proof. vm_compute. repeat split. Qed.

(* ------------------------------------------------------------------ *)
(** ** Loops *)

(* the first position (counted from i) of an element that satisfies p: what a
   [for i, v := range l { if p(v) { return f(i) } }] loop computes *)
Fixpoint find_from {A} (p : A -> bool) (l : list A) (i : Z) : option Z :=
  match l with
  | [] => None
  | x :: l' => if p x then Some i else find_from p l' (i + 1)
  end.

Lemma find_from_bounds {A} (p : A -> bool) (l : list A) : forall i j,
  find_from p l i = Some j -> i <= j < i + len_int l.
Proof.
  induction l as [|x l IH]; intros i j H; cbn [find_from] in H; [discriminate|].
  rewrite len_int_cons. assert (Hn := len_int_nonneg l).
  destruct (p x).
  - assert (i = j) by congruence. lia.
  - apply IH in H. lia.
Qed.

Lemma index_of_find_from s (l : list bytes) : forall n,
  index_of bytes_eqb s l n = option_map Z.to_N (find_from (fun v => bytes_eqb v s) l (Z.of_N n)).
Proof.
  induction l as [|x l IH]; intros n; cbn [index_of find_from]; [reflexivity|].
  rewrite (bytes_eqb_sym s x). destruct (bytes_eqb x s).
  - cbn [option_map]. f_equal. lia.
  - rewrite IH. do 2 f_equal. lia.
Qed.

Ltac go_units := repeat match goal with u : unit |- _ => destruct u end.

(* one iteration against the specification: split the conditionals of the body,
   use the induction hypothesis where the loop goes on *)
Ltac go_loop_step IH :=
  go_red; repeat (go_split_if; go_red); go_units;
  try reflexivity;
  try (rewrite IH; go_red; try reflexivity).

(* [go_loop L SPEC]: the loop over L in the goal satisfies
   range_from body i l st = SPEC l i st for all l, i, st; replace it by SPEC *)
Ltac go_loop L SPEC :=
  match goal with
  | |- context [range_loop ?body L ?s0] =>
      let H := fresh "Hloop" in
      assert (H : forall l' i st, range_from body i l' st = SPEC l' i st);
      [ let ll := fresh "ll" in let x := fresh "x" in let IH := fresh "IH" in
        let i := fresh "i" in let st := fresh "st" in
        intro ll; induction ll as [|x ll IH]; intros i st; cbn [range_from find_from fold_left];
        [ go_units; try reflexivity | go_loop_step IH ]
      | change (range_loop body L s0) with (range_from body 0 L s0); rewrite H; clear H ]
  end.

(* positions found by find_from lie inside the list *)
Ltac go_find_bounds :=
  repeat match goal with
  | H : find_from ?p ?l ?i = Some ?j |- _ =>
      lazymatch goal with
      | _ : i <= j < i + len_int l |- _ => fail
      | _ => let B := fresh "Hb" in assert (B := find_from_bounds p l i j H)
      end
  end.

Ltac go_split_finds :=
  repeat match goal with
  | |- context [find_from ?p ?l ?i] => let E := fresh "Hf" in destruct (find_from p l i) eqn:E
  end.

(** *** Loop lemmas, independent of where the loop stands and of what it returns *)

(* SEARCH: a body that looks at the element only through [v == s], goes on with
   the loop-carried variables unchanged when the test fails, and leaves the
   function when it succeeds.  Whatever it returns then ([body j s st]: an index,
   a pair (index, found), a term, with or without the table) is kept as it is. *)
Lemma range_from_search {S R} (s : bytes) (body : Z -> bytes -> S -> step S R) :
  (forall i v st, body i v st = if bytes_eqb v s then body i s st else Continue st) ->
  (forall i st, exists r, body i s st = Done r) ->
  forall l i st,
    range_from body i l st =
    match find_from (fun v => bytes_eqb v s) l i with
    | Some j => body j s st
    | None => Continue st
    end.
Proof.
  intros H1 H2 l. induction l as [|x l IH]; intros i st; cbn [range_from find_from]; [reflexivity|].
  rewrite H1. destruct (bytes_eqb x s).
  - destruct (H2 i st) as [r E]. rewrite E. reflexivity.
  - apply IH.
Qed.

(* FOLD: a body that always goes on, with loop-carried variables [g st v], as long
   as an invariant P of the variables and the rest of the list holds *)
Lemma range_from_fold {A S R} (g : S -> A -> S) (P : S -> list A -> Prop)
    (body : Z -> A -> S -> step S R) :
  (forall i v st l, P st (v :: l) -> body i v st = Continue (g st v) /\ P (g st v) l) ->
  forall l i st, P st l -> range_from body i l st = Continue (fold_left g l st).
Proof.
  intros H l. induction l as [|x l IH]; intros i st HP; cbn [range_from fold_left]; [reflexivity|].
  destruct (H i x st l HP) as [E HP']. rewrite E. apply IH. exact HP'.
Qed.

(* the two hypotheses of [range_from_search], for the body found in the goal *)
Ltac go_search_body s :=
  let i := fresh "i" in let v := fresh "v" in let st := fresh "st" in
  intros i v st; go_units; go_red; rewrite ?(bytes_eqb_sym s v); rewrite ?bytes_eqb_refl;
  destruct (bytes_eqb v s); cbn [negb andb orb]; go_red; reflexivity.
Ltac go_search_done s :=
  let i := fresh "i" in let st := fresh "st" in
  intros i st; go_red; rewrite ?bytes_eqb_refl; cbn [negb andb orb]; go_red; eexists; reflexivity.

(* replace EVERY loop of the goal that searches for s, wherever it stands (in the
   function itself or in a helper that has been unfolded) *)
Ltac go_search_loop1 s :=
  match goal with
  | |- context [range_loop ?body ?L ?s0] =>
      let H1 := fresh "Hbody" in let H2 := fresh "Hdone" in
      assert (H1 : forall i v st, body i v st = if bytes_eqb v s then body i s st else Continue st)
        by go_search_body s;
      assert (H2 : forall i st, exists r, body i s st = Done r) by go_search_done s;
      change (range_loop body L s0) with (range_from body 0 L s0);
      rewrite (range_from_search s body H1 H2 L 0 s0); clear H1 H2;
      go_red; rewrite ?bytes_eqb_refl; cbn [negb andb orb]; go_red
  end.
Ltac go_search_loops s := repeat go_search_loop1 s.

(* [go_fold_loop g P]: replace a loop of the goal by fold_left g, under the invariant P *)
Ltac go_fold_loop g P side :=
  match goal with
  | |- context [range_loop ?body ?L ?s0] =>
      let H := fresh "Hfold" in
      assert (H : forall i v st l, P st (v :: l) -> body i v st = Continue (g st v) /\ P (g st v) l);
      [ side
      | change (range_loop body L s0) with (range_from body 0 L s0);
        rewrite (range_from_fold g P body H L 0 s0); [ clear H; go_red | clear H ] ]
  end.

(* the functions below: unfold the function and every helper it calls (hint
   database [go_fn]; functions already proved are opaque and stay), replace the
   loops, then compare with the model's index_of through find_from *)
Ltac go_lookup s :=
  autounfold with go_fn; go_symbols_pre; go_red;
  go_search_loops s;
  rewrite !index_of_find_from; change (Z.of_N 0) with 0;
  let Hd := fresh "Hd" in assert (Hd := len_int_defaults);
  go_split_finds; go_find_bounds; cbn [option_map fst snd]; go_red;
  rewrite ?len_int_app; change (len_int [s]) with 1;
  go_leaf.

(** SymbolTable.Sym: the index of s as a String term, nil when s is unknown *)
Theorem go_SymbolTable_Sym_eq : forall (t : table) (s : bytes),
  table_fits t ->
  go_SymbolTable_Sym t s = Ok (option_map (fun i => DA (DStr i)) (sym_find t s)).
Proof.
  intros t s Ht. unfold go_SymbolTable_Sym, sym_find. go_lookup s.
Qed.
Print Assumptions go_SymbolTable_Sym_eq.
Global Opaque go_SymbolTable_Sym.

Example go_SymbolTable_Sym_ex :
  go_SymbolTable_Sym [[97;98]%N; [99]%N] [99]%N = Ok (Some (DA (DStr 1025))) /\
  go_SymbolTable_Sym [[97;98]%N; [99]%N] [114;101;97;100]%N = Ok (Some (DA (DStr 0))) /\
  go_SymbolTable_Sym [[97;98]%N; [99]%N] [100]%N = Ok None.
Proof. vm_compute. repeat split. Qed.

(** SymbolTable.Insert *)
Theorem go_SymbolTable_Insert_eq : forall (t : table) (s : bytes),
  table_fits t ->
  go_SymbolTable_Insert t s = (fst (sym_insert t s), Ok (snd (sym_insert t s))).
Proof.
  intros t s Ht. unfold go_SymbolTable_Insert, sym_insert, sym_find. go_lookup s.
Qed.
Print Assumptions go_SymbolTable_Insert_eq.
Global Opaque go_SymbolTable_Insert.

Example go_SymbolTable_Insert_ex :
  go_SymbolTable_Insert [[97;98]%N] [99]%N = ([[97;98]%N; [99]%N], Ok 1025%N) /\
  go_SymbolTable_Insert [[97;98]%N] [97;98]%N = ([[97;98]%N], Ok 1024%N) /\
  go_SymbolTable_Insert [[97;98]%N] [119;114;105;116;101]%N = ([[97;98]%N], Ok 1%N).
Proof. vm_compute. repeat split. Qed.

(** SymbolTable.Extend: Insert in a loop, the table is the loop-carried variable *)
Lemma sym_insert_len t s : len_int t <= len_int (fst (sym_insert t s)) <= len_int t + 1.
Proof.
  unfold sym_insert. destruct (sym_find t s); cbn [fst]; [lia|].
  rewrite len_int_app. change (len_int [s]) with 1. lia.
Qed.

Theorem go_SymbolTable_Extend_eq : forall (t other : table),
  len_int t + len_int other + 1025 < two63 ->
  go_SymbolTable_Extend t other = (sym_extend t other, Ok tt).
Proof.
  intros t other Hfit. unfold go_SymbolTable_Extend, sym_extend. autounfold with go_fn. go_red.
  go_fold_loop (fun (t : table) (s : bytes) => fst (sym_insert t s))
               (fun (st : table) (l : list bytes) => len_int st + len_int l + 1025 < two63)
               ltac:(let i := fresh "i" in let v := fresh "v" in let st := fresh "st" in
                     let l := fresh "l" in let HP := fresh "HP" in
                     intros i v st l HP; rewrite len_int_cons in HP;
                     assert (Hl := len_int_nonneg l); assert (Hi := sym_insert_len st v);
                     go_red; rewrite go_SymbolTable_Insert_eq by (go_consts; lia);
                     go_red; split; [reflexivity | lia]).
  - reflexivity.
  - exact Hfit.
Qed.
Print Assumptions go_SymbolTable_Extend_eq.

Example go_SymbolTable_Extend_ex :
  go_SymbolTable_Extend [[97]%N] [[98]%N; [97]%N; [114;101;97;100]%N; [99]%N] = ([[97]%N; [98]%N; [99]%N], Ok tt).
Proof. vm_compute. reflexivity. Qed.

(** SymbolTable.SplitOff (the model takes the split point as a nat; the model's
    panic site is 2, the generated code's is [site_panic]) *)
Lemma slice_firstn_skipn {A} (l : list A) (n : nat) : (n <= length l)%nat ->
  slice l (Z.of_nat n) (len_int l) = Some (skipn n l) /\ slice l 0 (Z.of_nat n) = Some (firstn n l).
Proof.
  intros H. unfold slice. rewrite !len_int_length.
  split.
  - replace ((0 <=? Z.of_nat n) && (Z.of_nat n <=? Z.of_nat (length l)) && (Z.of_nat (length l) <=? Z.of_nat (length l))) with true by lia.
    rewrite Nat2Z.id. f_equal.
    replace (Z.to_nat (Z.of_nat (length l) - Z.of_nat n)) with (length (skipn n l)) by (rewrite skipn_length; lia).
    apply firstn_all.
  - replace ((0 <=? 0) && (0 <=? Z.of_nat n) && (Z.of_nat n <=? Z.of_nat (length l))) with true by lia.
    change (Z.to_nat 0) with 0%nat. cbn [skipn]. do 2 f_equal. lia.
Qed.

Theorem go_SymbolTable_SplitOff_eq : forall (t : table) (n : nat),
  len_ok t ->
  go_SymbolTable_SplitOff t (Z.of_nat n) =
  match sym_split_off t n with
  | Ok (kept, new) => (kept, Ok new)
  | Err e => (t, Err e)
  | Panic _ => (t, Panic site_panic)
  end.
Proof.
  intros t n Ht. unfold go_SymbolTable_SplitOff, sym_split_off.
  destruct (Nat.ltb_spec (length t) n) as [H|H].
  - replace (len_int t <? Z.of_nat n) with true by (rewrite len_int_length; lia). reflexivity.
  - replace (len_int t <? Z.of_nat n) with false by (rewrite len_int_length; lia).
    destruct (slice_firstn_skipn t n H) as [H1 H2]. rewrite H1, H2.
    unfold make_list, i64_sub.
    replace (wrap_i64 (len_int t - Z.of_nat n)) with (Z.of_nat (length (skipn n t))).
    2:{ unfold len_ok in Ht. rewrite skipn_length, len_int_length. rewrite len_int_length in Ht.
        unfold wrap_i64, two63, two64 in *. lia. }
    replace (Z.of_nat (length (skipn n t)) <? 0) with false by lia.
    rewrite Nat2Z.id, copy_list_fresh. reflexivity.
Qed.
Print Assumptions go_SymbolTable_SplitOff_eq.

Example go_SymbolTable_SplitOff_ex :
  go_SymbolTable_SplitOff [[97]%N; [98]%N; [99]%N] 1 = ([[97]%N], Ok [[98]%N; [99]%N]) /\
  go_SymbolTable_SplitOff [[97]%N; [98]%N; [99]%N] 4 = ([[97]%N; [98]%N; [99]%N], Panic site_panic) /\
  go_SymbolTable_SplitOff [[97]%N; [98]%N; [99]%N] (-1) = ([[97]%N; [98]%N; [99]%N], Panic site_slice).
Proof. vm_compute. repeat split. Qed.

(** SymbolTable.Clone, SymbolTable.Len *)
Theorem go_SymbolTable_Clone_eq : forall (t : table), go_SymbolTable_Clone t = Ok t.
Proof.
  intros t. unfold go_SymbolTable_Clone, make_list.
  assert (Hn := len_int_nonneg t). replace (len_int t <? 0) with false by lia.
  rewrite len_int_length, Nat2Z.id, copy_list_fresh. reflexivity.
Qed.
Print Assumptions go_SymbolTable_Clone_eq.

Theorem go_SymbolTable_Len_eq : forall (t : table), go_SymbolTable_Len t = Ok (Z.of_nat (length t)).
Proof. intros t. unfold go_SymbolTable_Len. rewrite len_int_length. reflexivity. Qed.
Print Assumptions go_SymbolTable_Len_eq.

Example go_SymbolTable_Clone_Len_ex :
  go_SymbolTable_Clone [[97]%N; [98]%N] = Ok [[97]%N; [98]%N] /\ go_SymbolTable_Len [[97]%N; [98]%N] = Ok 2.
Proof. vm_compute. split; reflexivity. Qed.

(* ------------------------------------------------------------------ *)
(** * 5. (B) datalog/expressions.go: integers, comparisons, booleans *)

(* calls of functions that are already proved are replaced by the model function
   (each is made opaque right after its theorem, so that [autounfold] leaves the calls in place);
   every other generated definition (helpers, Type(), dispatch on the dynamic
   type) is unfolded through the hint database that GeneratedFn.v fills *)
Ltac go_side := first [ assumption | go_consts; lia ].
Ltac go_calls :=
  rewrite ?go_SymbolTable_Str_eq by go_side;
  rewrite ?go_SymbolTable_Insert_eq by go_side.

Ltac go_model :=
  unfold eval_binary_D, eval_unary_D, dcmp_op, dstr_op, dint_op, dchecked.

Ltac go_tags := cbn [N.eqb Pos.eqb negb andb orb].

Ltac go_eval :=
  cbn [wf_dterm wf_datom] in *;
  go_model; autounfold with go_fn; go_calls; go_partial;
  go_red; go_tags; rewrite ?Z.gtb_ltb, ?Z.geb_leb, ?len_int_length;
  repeat (go_split1; go_red; go_tags);
  go_leaf.

Ltac go_eval_binary l r :=
  destruct l as [[lv|lz|ls|ld|lb|lb]|ll]; destruct r as [[rv|rz|rs|rd|rb|rb]|rl]; go_eval.
Ltac go_eval_unary v :=
  destruct v as [[vv|vz|vs|vd|vb|vb]|vl]; go_eval.

(** Add: integers with the overflow check through math/big; two strings insert
    their concatenation into the table (the only operator that changes it) *)
Theorem go_Add_Eval_eq : forall rx (t : table) (l r : dterm),
  wf_dterm l -> wf_dterm r -> table_fits t ->
  go_Add_Eval l r t = eval_binary_D rx t BAdd l r.
Proof.
  intros rx t l r Hl Hr Ht. assert (Hlen : len_ok t) by (go_consts; lia).
  destruct l as [[lv|lz|ls|ld|lb|lb]|ll]; destruct r as [[rv|rz|rs|rd|rb|rb]|rl];
    try solve [go_eval].
  cbn [wf_dterm wf_datom] in *. go_model. unfold go_Add_Eval. go_calls. go_red.
  destruct (sym_insert t (sym_str t ls ++ sym_str t rs)) as [t' i]. reflexivity.
Qed.
Print Assumptions go_Add_Eval_eq.

Example go_Add_Eval_ex :
  go_Add_Eval (DA (DInt 9223372036854775807)) (DA (DInt 1)) [] = ([], Err EOverflow) /\
  go_Add_Eval (DA (DInt (-5))) (DA (DInt 7)) [] = ([], Ok (DA (DInt 2))) /\
  go_Add_Eval (DA (DStr 1024)) (DA (DStr 0)) [[97]%N] = ([[97]%N; [97;114;101;97;100]%N], Ok (DA (DStr 1025))) /\
  go_Add_Eval (DA (DStr 1024)) (DA (DInt 0)) [[97]%N] = ([[97]%N], Err EIllTyped).
Proof. vm_compute. repeat split. Qed.

Theorem go_Sub_Eval_eq : forall rx (t : table) (l r : dterm),
  eval_binary_D rx t BSub l r = (t, go_Sub_Eval l r t).
Proof. intros rx t l r. go_eval_binary l r. Qed.
Print Assumptions go_Sub_Eval_eq.

Theorem go_Mul_Eval_eq : forall rx (t : table) (l r : dterm),
  eval_binary_D rx t BMul l r = (t, go_Mul_Eval l r t).
Proof. intros rx t l r. go_eval_binary l r. Qed.
Print Assumptions go_Mul_Eval_eq.

(* Div needs the dividend in the range of int64: the quotient of an int64 by an
   int64 leaves the range only for MinInt64 / -1 *)
Theorem go_Div_Eval_eq : forall rx (t : table) (l r : dterm),
  wf_dterm l ->
  eval_binary_D rx t BDiv l r = (t, go_Div_Eval l r t).
Proof. intros rx t l r Hl. go_eval_binary l r. Qed.
Print Assumptions go_Div_Eval_eq.

Example go_arith_ex :
  go_Sub_Eval (DA (DInt (-9223372036854775808))) (DA (DInt 1)) [] = Err EOverflow /\
  go_Mul_Eval (DA (DInt 4294967296)) (DA (DInt 2147483648)) [] = Err EOverflow /\
  go_Mul_Eval (DA (DInt 4294967296)) (DA (DInt (-2147483648))) [] = Ok (DA (DInt (-9223372036854775808))) /\
  go_Div_Eval (DA (DInt (-9223372036854775808))) (DA (DInt (-1))) [] = Err EOverflow /\
  go_Div_Eval (DA (DInt (-7))) (DA (DInt 2)) [] = Ok (DA (DInt (-3))) /\
  go_Div_Eval (DA (DInt 7)) (DA (DInt 0)) [] = Err EDivZero /\
  go_Div_Eval (DA (DInt 7)) (DA (DBool true)) [] = Err EIllTyped.
Proof. vm_compute. repeat split. Qed.

Theorem go_LessThan_Eval_eq : forall rx (t : table) (l r : dterm),
  eval_binary_D rx t BLessThan l r = (t, go_LessThan_Eval l r t).
Proof. intros rx t l r. go_eval_binary l r. Qed.
Print Assumptions go_LessThan_Eval_eq.

Theorem go_LessOrEqual_Eval_eq : forall rx (t : table) (l r : dterm),
  eval_binary_D rx t BLessOrEqual l r = (t, go_LessOrEqual_Eval l r t).
Proof. intros rx t l r. go_eval_binary l r. Qed.
Print Assumptions go_LessOrEqual_Eval_eq.

Theorem go_GreaterThan_Eval_eq : forall rx (t : table) (l r : dterm),
  eval_binary_D rx t BGreaterThan l r = (t, go_GreaterThan_Eval l r t).
Proof. intros rx t l r. go_eval_binary l r. Qed.
Print Assumptions go_GreaterThan_Eval_eq.

Theorem go_GreaterOrEqual_Eval_eq : forall rx (t : table) (l r : dterm),
  eval_binary_D rx t BGreaterOrEqual l r = (t, go_GreaterOrEqual_Eval l r t).
Proof. intros rx t l r. go_eval_binary l r. Qed.
Print Assumptions go_GreaterOrEqual_Eval_eq.

Example go_cmp_ex :
  go_LessThan_Eval (DA (DInt (-1))) (DA (DInt 0)) [] = Ok (DA (DBool true)) /\
  go_LessThan_Eval (DA (DDate 5)) (DA (DDate 5)) [] = Ok (DA (DBool false)) /\
  go_LessOrEqual_Eval (DA (DDate 5)) (DA (DDate 5)) [] = Ok (DA (DBool true)) /\
  go_GreaterThan_Eval (DA (DInt 3)) (DA (DInt 2)) [] = Ok (DA (DBool true)) /\
  go_GreaterOrEqual_Eval (DA (DInt 1)) (DA (DDate 1)) [] = Err EIllTyped /\
  go_GreaterOrEqual_Eval (DA (DStr 1)) (DA (DStr 1)) [] = Err EIllTyped.
Proof. vm_compute. repeat split. Qed.

Theorem go_And_Eval_eq : forall rx (t : table) (l r : dterm),
  eval_binary_D rx t BAnd l r = (t, go_And_Eval l r t).
Proof. intros rx t l r. go_eval_binary l r. Qed.
Print Assumptions go_And_Eval_eq.

Theorem go_Or_Eval_eq : forall rx (t : table) (l r : dterm),
  eval_binary_D rx t BOr l r = (t, go_Or_Eval l r t).
Proof. intros rx t l r. go_eval_binary l r. Qed.
Print Assumptions go_Or_Eval_eq.

Theorem go_Negate_Eval_eq : forall (t : table) (v : dterm),
  go_Negate_Eval v t = eval_unary_D t UNegate v.
Proof. intros t v. go_eval_unary v. Qed.
Print Assumptions go_Negate_Eval_eq.

Theorem go_Parens_Eval_eq : forall (t : table) (v : dterm),
  go_Parens_Eval v t = eval_unary_D t UParens v.
Proof. intros t v. go_eval_unary v. Qed.
Print Assumptions go_Parens_Eval_eq.

Example go_bool_ex :
  go_And_Eval (DA (DBool true)) (DA (DBool false)) [] = Ok (DA (DBool false)) /\
  go_Or_Eval (DA (DBool true)) (DA (DBool false)) [] = Ok (DA (DBool true)) /\
  go_Or_Eval (DA (DBool true)) (DA (DInt 1)) [] = Err EIllTyped /\
  go_Negate_Eval (DA (DBool true)) [] = Ok (DA (DBool false)) /\
  go_Negate_Eval (DSet []) [] = Err EIllTyped /\
  go_Parens_Eval (DSet []) [] = Ok (DSet []).
Proof. vm_compute. repeat split. Qed.

(* ------------------------------------------------------------------ *)
(** * 6. (C) strings through the table: Length, Prefix, Suffix, Regex *)

Theorem go_Length_Eval_eq : forall (t : table) (v : dterm),
  wf_dterm v -> len_ok t ->
  go_Length_Eval v t = eval_unary_D t ULength v.
Proof. intros t v Hv Ht. go_eval_unary v. Qed.
Print Assumptions go_Length_Eval_eq.

Theorem go_Prefix_Eval_eq : forall rx (t : table) (l r : dterm),
  wf_dterm l -> wf_dterm r -> len_ok t ->
  eval_binary_D rx t BPrefix l r = (t, go_Prefix_Eval l r t).
Proof. intros rx t l r Hl Hr Ht. go_eval_binary l r. Qed.
Print Assumptions go_Prefix_Eval_eq.

Theorem go_Suffix_Eval_eq : forall rx (t : table) (l r : dterm),
  wf_dterm l -> wf_dterm r -> len_ok t ->
  eval_binary_D rx t BSuffix l r = (t, go_Suffix_Eval l r t).
Proof. intros rx t l r Hl Hr Ht. go_eval_binary l r. Qed.
Print Assumptions go_Suffix_Eval_eq.

Example go_strings_ex :
  go_Length_Eval (DA (DStr 1024)) [[97;98;99]%N] = Ok (DA (DInt 3)) /\
  go_Length_Eval (DA (DStr 1025)) [[97;98;99]%N] = Ok (DA (DInt 21)) /\
  go_Length_Eval (DSet [DInt 1; DInt 1]) [] = Ok (DA (DInt 2)) /\
  go_Length_Eval (DA (DInt 1)) [] = Err EIllTyped /\
  go_Prefix_Eval (DA (DStr 1024)) (DA (DStr 1025)) [[97;98;99]%N; [97;98]%N] = Ok (DA (DBool true)) /\
  go_Suffix_Eval (DA (DStr 1024)) (DA (DStr 1025)) [[97;98;99]%N; [97;98]%N] = Ok (DA (DBool false)) /\
  go_Suffix_Eval (DA (DStr 1024)) (DA (DInt 1)) [] = Err EIllTyped.
Proof. vm_compute. repeat split. Qed.

(* regexp.Compile does not look at the subject: the oracle [rx pattern subject]
   of Model/Expr.v says "does not compile" for one subject iff for all *)
Definition rx_uniform (rx : bytes -> bytes -> option bool) : Prop :=
  forall p s, rx p s = None <-> rx p [] = None.

Theorem go_Regex_Eval_eq : forall rx (t : table) (l r : dterm),
  rx_uniform rx -> wf_dterm l -> wf_dterm r -> len_ok t ->
  eval_binary_D rx t BRegex l r = (t, go_Regex_Eval rx l r t).
Proof.
  intros rx t l r Hrx Hl Hr Ht.
  destruct l as [[lv|lz|ls|ld|lb|lb]|ll]; destruct r as [[rv|rz|rs|rd|rb|rb]|rl]; try solve [go_eval].
  cbn [wf_dterm wf_datom] in *. go_model. unfold go_Regex_Eval. go_calls. go_red.
  unfold rx_compile_err, rx_match.
  assert (Hu := Hrx (sym_str t rs) (sym_str t ls)).
  destruct (rx (sym_str t rs) []) as [b0|] eqn:E0; destruct (rx (sym_str t rs) (sym_str t ls)) as [b|] eqn:E;
    go_red; try reflexivity.
  - destruct Hu as [Hu _]. specialize (Hu eq_refl). discriminate.
  - destruct Hu as [_ Hu]. specialize (Hu eq_refl). discriminate.
Qed.
Print Assumptions go_Regex_Eval_eq.

Example go_Regex_Eval_ex :
  let rx := fun p s => if bytes_eqb p [40]%N then None else Some (bytes_eqb p s) in
  go_Regex_Eval rx (DA (DStr 1024)) (DA (DStr 1024)) [[97]%N] = Ok (DA (DBool true)) /\
  go_Regex_Eval rx (DA (DStr 1024)) (DA (DStr 1025)) [[97]%N; [40]%N] = Err ERegex /\
  go_Regex_Eval rx (DA (DStr 1024)) (DA (DInt 1)) [[97]%N] = Err EIllTyped.
Proof. vm_compute. repeat split. Qed.
