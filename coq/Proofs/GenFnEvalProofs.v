(* GenFnEvalProofs.v — stage D of the source-level tie: the definition that /verif/genfn
   regenerates from the text of the method Evaluate of Expression (datalog/expressions.go), with
   stack.Push / stack.Pop and the dispatch over Op / UnaryOpFunc / BinaryOpFunc
   (coq/GeneratedFn.v: go_Expression_Evaluate, go_stack_Push, go_stack_Pop, go_Op_Type,
   go_UnaryOpFunc_Eval, go_BinaryOpFunc_Eval) is EQUAL to the index-level model of the
   stack machine (Model/DEval.v: eval_D / run_ops_D / step_D / push_D), for ALL op
   sequences and all bindings, whenever the operands met during the run are in the ranges of
   the Go types.

   The Go stack is a slice whose TOP IS ITS LAST element; the model's stack is a list
   whose top is its head: the two are related by [rev].

   The four set operators (Equal, Contains, Intersection, Union) are proved by another
   file (Proofs/GenFnSetProofs.v); here their equalities are explicit hypotheses of the
   Section, so that the theorems can be instantiated with them.

   The scripts follow Proofs/GenFnProofs.v: the case analysis is the MODEL's (op, stack
   shape, operand shape); the generated side is only unfolded (hint database go_fn),
   rewritten with the theorems of the functions it calls, and reduced.  Nothing refers to
   a bound name or to the order of the branches of the generated term. *)
From Coq Require Import ZifyN ZifyNat ZifyBool.
From BV Require Import Base Term Expr DTerm Symbols Datalog Authz Wire Token DEval GoSem.
From BV Require Import GeneratedFn GenFnProofs.
From BV Require Generated.

Ltac Zify.zify_post_hook ::= Z.to_euclidean_division_equations.

Local Open Scope Z_scope.

(* ------------------------------------------------------------------ *)
(** * 1. Slices whose last element is read / dropped *)

Lemma idx_from_app_last {A} (l : list A) (v : A) : idx_from (l ++ [v]) (len_int l) = Some v.
Proof.
  induction l as [|x l IH].
  - reflexivity.
  - rewrite len_int_cons. cbn [app idx_from]. assert (Hn := len_int_nonneg l).
    destruct (Z.eqb_spec (1 + len_int l) 0) as [E|E]; [lia|].
    replace (1 + len_int l - 1) with (len_int l) by lia. exact IH.
Qed.

Lemma idx_app_last {A} (l : list A) (v : A) (i : Z) : i = len_int l -> idx (l ++ [v]) i = Some v.
Proof.
  intros ->. unfold idx. assert (Hn := len_int_nonneg l).
  destruct (Z.ltb_spec (len_int l) 0) as [H|H]; [lia|]. apply idx_from_app_last.
Qed.

Lemma slice_app_last {A} (l : list A) (v : A) (j : Z) : j = len_int l -> slice (l ++ [v]) 0 j = Some l.
Proof.
  intros ->. unfold slice. rewrite len_int_app. change (len_int [v]) with 1.
  assert (Hn := len_int_nonneg l).
  replace ((0 <=? 0) && (0 <=? len_int l) && (len_int l <=? len_int l + 1)) with true by lia.
  f_equal. change (Z.to_nat 0) with 0%nat. cbn [skipn].
  rewrite Z.sub_0_r, len_int_length, Nat2Z.id.
  rewrite firstn_app, Nat.sub_diag, firstn_all. cbn [firstn]. apply app_nil_r.
Qed.

Lemma max_stack_1000 : max_stack = 1000%nat.
Proof. reflexivity. Qed.

(* ------------------------------------------------------------------ *)
(** * 2. stack.Push / stack.Pop: the Go stack is [rev] of the model's *)

Theorem go_stack_Push_eq : forall (st : list dterm) (v : dterm),
  go_stack_Push (rev st) v =
  match push_D st v with
  | Ok st' => (rev st', Ok tt)
  | Err e => (rev st, Err e)
  | Panic n => (rev st, Panic n)
  end.
Proof.
  intros st v. unfold push_D. autounfold with go_fn. rewrite max_stack_1000.
  rewrite ?len_int_length, ?rev_length. go_red.
  destruct (Nat.leb_spec 1000 (length st)) as [H|H]; go_red;
    repeat (go_split_if; go_red); cbn [rev]; first [reflexivity | exfalso; lia].
Qed.
Print Assumptions go_stack_Push_eq.

Example go_stack_Push_ex :
  go_stack_Push [DA (DInt 1); DA (DInt 2)] (DA (DInt 3)) = ([DA (DInt 1); DA (DInt 2); DA (DInt 3)], Ok tt) /\
  go_stack_Push (repeat (DA (DInt 0)) 999) (DA (DInt 3)) = (repeat (DA (DInt 0)) 999 ++ [DA (DInt 3)], Ok tt) /\
  go_stack_Push (repeat (DA (DInt 0)) 1000) (DA (DInt 3)) = (repeat (DA (DInt 0)) 1000, Err EIllTyped).
Proof. vm_compute. repeat split. Qed.

Theorem go_stack_Pop_eq : forall (st : list dterm),
  len_ok st ->
  go_stack_Pop (rev st) =
  match st with
  | [] => (rev st, Err EIllTyped)
  | v :: st' => (rev st', Ok v)
  end.
Proof.
  intros st Hlen. unfold len_ok in Hlen. rewrite len_int_length in Hlen.
  autounfold with go_fn. destruct st as [|v st'].
  - cbn [rev]. change (len_int (@nil dterm)) with 0. go_red. go_splits; first [reflexivity | discriminate | lia].
  - cbn [rev length] in *. rewrite !len_int_app. change (len_int [v]) with 1.
    assert (Hn := len_int_nonneg (rev st')).
    assert (Hl : len_int (rev st') = Z.of_nat (length st')) by (rewrite len_int_length, rev_length; reflexivity).
    rewrite ?(idx_app_last (rev st') v) by (go_consts; lia).
    rewrite ?(slice_app_last (rev st') v) by (go_consts; lia).
    go_red. go_splits; first [reflexivity | exfalso; go_consts; lia].
Qed.
Print Assumptions go_stack_Pop_eq.

Example go_stack_Pop_ex :
  go_stack_Pop [DA (DInt 1); DA (DInt 2); DA (DInt 3)] = ([DA (DInt 1); DA (DInt 2)], Ok (DA (DInt 3))) /\
  go_stack_Pop [] = ([], Err EIllTyped).
Proof. vm_compute. repeat split. Qed.

Global Opaque go_stack_Push go_stack_Pop.

(* ------------------------------------------------------------------ *)
(** * 3. The dispatch over the implementors of Op, UnaryOpFunc, BinaryOpFunc *)

(* go_Op_Type (op.Type() through the interface Op) needs no theorem: it is unfolded through
   go_fn where it occurs; a version of Evaluate that dispatches with a type switch does not
   even generate it, so nothing here names it *)

Theorem go_UnaryOpFunc_Eval_eq : forall (t : table) (u : unop) (v : dterm),
  wf_dterm v -> len_ok t -> go_UnaryOpFunc_Eval u v t = eval_unary_D t u v.
Proof.
  intros t u v Hv Ht. destruct u; unfold go_UnaryOpFunc_Eval;
    first [ apply go_Negate_Eval_eq | apply go_Parens_Eval_eq | apply go_Length_Eval_eq; assumption ].
Qed.
Print Assumptions go_UnaryOpFunc_Eval_eq.
Global Opaque go_UnaryOpFunc_Eval.

Section Eval.
  Variable rx : bytes -> bytes -> option bool.
  (* regexp.Compile does not look at the subject (GenFnProofs.go_Regex_Eval_eq) *)
  Hypothesis Hrx : rx_uniform rx.

  (* the four set operators, proved in Proofs/GenFnSetProofs.v *)
  Hypothesis H_Equal : forall (t : table) (l r : dterm), wf_dterm l -> wf_dterm r -> len_ok t ->
    eval_binary_D rx t BEqual l r = (t, go_Equal_Eval l r t).
  Hypothesis H_Contains : forall (t : table) (l r : dterm), wf_dterm l -> wf_dterm r -> len_ok t ->
    eval_binary_D rx t BContains l r = (t, go_Contains_Eval l r t).
  Hypothesis H_Intersection : forall (t : table) (l r : dterm), wf_dterm l -> wf_dterm r -> len_ok t ->
    eval_binary_D rx t BIntersection l r = (t, go_Intersection_Eval l r t).
  Hypothesis H_Union : forall (t : table) (l r : dterm), wf_dterm l -> wf_dterm r -> len_ok t ->
    eval_binary_D rx t BUnion l r = (t, go_Union_Eval l r t).

  Theorem go_BinaryOpFunc_Eval_eq : forall (t : table) (o : binop) (l r : dterm),
    wf_dterm l -> wf_dterm r -> table_fits t ->
    go_BinaryOpFunc_Eval rx o l r t = eval_binary_D rx t o l r.
  Proof.
    intros t o l r Hl Hr Ht. assert (Hlen : len_ok t) by (go_consts; lia).
    destruct o; unfold go_BinaryOpFunc_Eval;
      first
        [ apply go_Add_Eval_eq; assumption
        | symmetry;
          first [ apply go_LessThan_Eval_eq | apply go_LessOrEqual_Eval_eq | apply go_GreaterThan_Eval_eq
                | apply go_GreaterOrEqual_Eval_eq | apply go_Sub_Eval_eq | apply go_Mul_Eval_eq
                | apply go_And_Eval_eq | apply go_Or_Eval_eq
                | apply go_Div_Eval_eq; assumption
                | apply go_Prefix_Eval_eq; assumption | apply go_Suffix_Eval_eq; assumption
                | apply go_Regex_Eval_eq; assumption
                | apply H_Equal; assumption | apply H_Contains; assumption
                | apply H_Intersection; assumption | apply H_Union; assumption ] ].
  Qed.
  Opaque go_BinaryOpFunc_Eval.

  (* ------------------------------------------------------------------ *)
  (** * 4. A range loop that leaves the function early against a model that stops early *)

  Section RangeSim.
    Context {A S R M : Type}.
    Variable body : Z -> A -> S -> step S R.
    Variable mstep : M -> A -> M + R.      (* inl: go on with the new model state; inr: the result *)
    Variable abs : M -> S.                 (* the loop-carried variables that represent a model state *)
    Variable P : M -> list A -> Prop.      (* what holds of the state and of the rest of the list *)

    Fixpoint mrun (m : M) (l : list A) : M + R :=
      match l with
      | [] => inl m
      | x :: l' => match mstep m x with inl m' => mrun m' l' | inr r => inr r end
      end.

    Hypothesis Hstep : forall i x l m, P m (x :: l) ->
      body i x (abs m) = match mstep m x with inl m' => Continue (abs m') | inr r => Done r end /\
      match mstep m x with inl m' => P m' l | inr _ => True end.

    Lemma range_from_sim : forall l i m, P m l ->
      range_from body i l (abs m) = match mrun m l with inl m' => Continue (abs m') | inr r => Done r end.
    Proof.
      induction l as [|x l IH]; intros i m HP; cbn [range_from mrun]; [reflexivity|].
      destruct (Hstep i x l m HP) as [E HP']. rewrite E.
      destruct (mstep m x) as [m'|r]; [apply IH; exact HP' | reflexivity].
    Qed.
  End RangeSim.

  (* ------------------------------------------------------------------ *)
  (** * 5. The ranges of the Go types along a run *)

  Variable b : dbindings.

  (* before one operation: the table is small enough for OFFSET + len to be an int, and
     the operands the operation pops are in the ranges of their Go types *)
  Definition step_pre (t : table) (st : list dterm) (o : dop) : Prop :=
    table_fits t /\
    match o, st with
    | DOUn _, v :: _ => wf_dterm v
    | DOBin _, r :: l :: _ => wf_dterm l /\ wf_dterm r
    | _, _ => True
    end.

  (* ... at every step of the model's run *)
  Fixpoint run_pre (t : table) (st : list dterm) (e : dexpr) : Prop :=
    match e with
    | [] => True
    | o :: e' =>
        step_pre t st o /\
        match step_D rx t b st o with
        | (t', Ok st') => run_pre t' st' e'
        | _ => True
        end
    end.

  Definition stop_of (r : res (list dterm)) : res dterm :=
    match r with Ok _ => Err EOther | Err x => Err x | Panic n => Panic n end.

  Definition mstep_D (m : table * list dterm) (o : dop) : (table * list dterm) + (table * res dterm) :=
    match step_D rx (fst m) b (snd m) o with
    | (t', Ok st') => inl (t', st')
    | (t', r) => inr (t', stop_of r)
    end.

  Definition abs_D (m : table * list dterm) : list dterm * table := (rev (snd m), fst m).

  Definition P_D (m : table * list dterm) (e : dexpr) : Prop :=
    run_pre (fst m) (snd m) e /\ (length (snd m) <= max_stack)%nat.

  Lemma push_D_len st v st' : push_D st v = Ok st' -> (length st' <= max_stack)%nat /\ st' = v :: st.
  Proof.
    unfold push_D. destruct (Nat.leb_spec max_stack (length st)) as [H|H]; [discriminate|].
    intros E. injection E as <-. cbn [length]. split; [lia | reflexivity].
  Qed.

  (* the only error of Push is the overflow, which Evaluate reports as its own error of
     the same class ("stack overflow"); Push does not panic *)
  Lemma push_D_err st v e : push_D st v = Err e -> e = EIllTyped.
  Proof. unfold push_D. destruct (max_stack <=? length st)%nat; congruence. Qed.
  Lemma push_D_no_panic st v n : push_D st v <> Panic n.
  Proof. unfold push_D. destruct (max_stack <=? length st)%nat; congruence. Qed.

  Lemma step_D_len t st o t' st' :
    (length st <= max_stack)%nat -> step_D rx t b st o = (t', Ok st') -> (length st' <= max_stack)%nat.
  Proof.
    intros Hlen E. destruct o as [x|u|bo].
    - assert (E' : exists y, push_D st y = Ok st').
      { cbn [step_D] in E. destruct x as [[v|z|s|d|y|y]|l]; injection E as _ E; try solve [eauto].
        destruct (dlookup b v) as [y|]; [eauto | discriminate]. }
      destruct E' as [y E']. apply push_D_len in E'. tauto.
    - cbn [step_D] in E. destruct st as [|v st0]; [discriminate|]. injection E as _ E.
      destruct (eval_unary_D t u v) as [y|x|n]; cbn [bind] in E; try discriminate.
      apply push_D_len in E. tauto.
    - cbn [step_D] in E. destruct st as [|r [|l st0]]; try discriminate.
      destruct (eval_binary_D rx t bo l r) as [t2 x]. injection E as _ E.
      destruct x as [y|x|n]; cbn [bind] in E; try discriminate.
      apply push_D_len in E. tauto.
  Qed.

  (* the model's result through [mrun] *)
  Lemma eval_D_mrun : forall e t st,
    match run_ops_D rx t b st e with
    | (t', Ok [v]) => (t', Ok v)
    | (t', Ok _) => (t', Err EIllTyped)
    | (t', Err x) => (t', Err x)
    | (t', Panic n) => (t', Panic n)
    end =
    match mrun mstep_D (t, st) e with
    | inl (t', [v]) => (t', Ok v)
    | inl (t', _) => (t', Err EIllTyped)
    | inr r => r
    end.
  Proof.
    induction e as [|o e IH]; intros t st; cbn [run_ops_D mrun].
    - destruct st as [|v [|w st]]; reflexivity.
    - unfold mstep_D. cbn [fst snd]. destruct (step_D rx t b st o) as [t' [st'|x|n]]; cbn [stop_of].
      + apply IH.
      + reflexivity.
      + reflexivity.
  Qed.

  (* ------------------------------------------------------------------ *)
  (** * 6. One iteration of the loop of Evaluate = one [step_D] *)

  Ltac ev_side :=
    first [ assumption
          | unfold len_ok; rewrite len_int_length; cbn [length] in *; rewrite max_stack_1000 in *; go_consts; lia
          | go_consts; lia ].

  (* calls of functions already proved *)
  Ltac ev_calls :=
    rewrite ?go_stack_Push_eq;
    rewrite ?go_stack_Pop_eq by ev_side;
    rewrite ?go_UnaryOpFunc_Eval_eq by ev_side;
    rewrite ?go_BinaryOpFunc_Eval_eq by ev_side.

  (* the model's calls, shared by both sides *)
  Ltac ev_split_model :=
    match goal with
    | |- context [push_D ?st ?v] =>
        let E := fresh "Hpush" in
        destruct (push_D st v) eqn:E;
        [ | apply push_D_err in E; subst | exfalso; exact (push_D_no_panic _ _ _ E) ]
    | |- context [eval_unary_D ?t ?u ?v] => let E := fresh "Hun" in destruct (eval_unary_D t u v) eqn:E
    | |- context [eval_binary_D ?r ?t ?o ?x ?y] =>
        let E := fresh "Hbin" in let t' := fresh "t'" in let x' := fresh "x'" in
        destruct (eval_binary_D r t o x y) as [t' x'] eqn:E; destruct x'
    | |- context [dlookup ?m ?k] => let E := fresh "Hlook" in destruct (dlookup m k) eqn:E
    end.

  Ltac ev_red := go_red; go_tags; unfold mstep_D, abs_D; cbn [step_D bind fst snd stop_of].

  Ltac ev_go := repeat (ev_red; ev_calls; ev_red; try ev_split_model); ev_red; try reflexivity.

  Definition go_step_spec (body : Z -> dop -> (list dterm * table) -> step (list dterm * table) (table * res dterm)) : Prop :=
    forall i o e m, P_D m (o :: e) ->
      body i o (abs_D m) = match mstep_D m o with inl m' => Continue (abs_D m') | inr r => Done r end /\
      match mstep_D m o with inl m' => P_D m' e | inr _ => True end.

  (* the second half: the ranges are kept (a statement about the model only) *)
  Lemma P_D_step o e m : P_D m (o :: e) -> match mstep_D m o with inl m' => P_D m' e | inr _ => True end.
  Proof.
    destruct m as [t st]. unfold P_D, mstep_D. cbn [fst snd run_pre]. intros [[_ Hrun] Hlen].
    destruct (step_D rx t b st o) as [t' [st'|x|n]] eqn:E; cbn [fst snd]; [|exact I|exact I].
    split; [exact Hrun | eapply step_D_len; eassumption].
  Qed.

  (* ------------------------------------------------------------------ *)
  (** * 7. Expression.Evaluate *)

  Theorem go_Expression_Evaluate_eq : forall (t : table) (e : dexpr),
    run_pre t [] e ->
    go_Expression_Evaluate rx e b t = eval_D rx t e b.
  Proof.
    intros t e Hpre. unfold eval_D. rewrite (eval_D_mrun e t []).
    unfold go_Expression_Evaluate. autounfold with go_fn.
    match goal with
    | |- context [range_loop ?body ?L ?s0] =>
        assert (Hbody : go_step_spec body);
        [ | change (range_loop body L s0) with (range_from body 0 L (abs_D (t, [])));
            rewrite (range_from_sim body mstep_D abs_D P_D Hbody e 0 (t, []));
            [ clear Hbody | split; [exact Hpre | cbn [snd length]; lia] ] ]
    end.
    - (* one iteration *)
      intros i o e0 [t0 st] HP. split; [| apply (P_D_step o e0 (t0, st) HP)].
      destruct HP as [[[Hfit Hops] _] Hlen]. cbn [fst snd] in Hfit, Hops, Hlen.
      assert (Hlent : len_ok t0) by (go_consts; lia).
      unfold abs_D at 1. cbn [fst snd].
      destruct o as [x|u|bo].
      + (* a value: variables are looked up in the bindings *)
        destruct x as [[v|z|s|d|y|y]|l]; ev_go.
      + (* a unary operation *)
        destruct st as [|v st0]; [ev_go|]. cbn [length] in Hlen.
        assert (Hst0 : len_ok st0) by ev_side.
        ev_go.
      + (* a binary operation: right is popped first *)
        destruct st as [|r [|l st0]].
        * ev_go.
        * cbn [length] in Hlen. ev_go.
        * destruct Hops as [Hl Hr]. cbn [length] in Hlen.
          assert (Hst0 : len_ok st0) by ev_side.
          assert (Hst1 : len_ok (l :: st0)) by ev_side.
          ev_go.
    - (* after the loop: exactly one value must be left *)
      destruct (mrun mstep_D (t, []) e) as [[t' st']|r] eqn:Erun; go_red; [|reflexivity].
      unfold abs_D. cbn [fst snd]. go_red.
      rewrite ?len_int_length, ?rev_length.
      destruct st' as [|v [|w st'']]; cbn [length].
      + go_splits; first [reflexivity | exfalso; lia].
      + change (Z.of_nat 1) with 1. go_red. cbn [Z.eqb Pos.eqb negb]. go_red.
        rewrite ?go_stack_Pop_eq by (unfold len_ok; rewrite len_int_length; cbn [length]; go_consts; lia).
        go_red. reflexivity.
      + go_splits; first [reflexivity | exfalso; lia].
  Qed.
End Eval.

Global Opaque go_BinaryOpFunc_Eval.

Print Assumptions go_BinaryOpFunc_Eval_eq.
Print Assumptions range_from_sim.
Print Assumptions go_Expression_Evaluate_eq.

(* ------------------------------------------------------------------ *)
(** * 8. The range hypothesis [run_pre] is decidable on concrete inputs *)

Definition wf_datomb (a : datom) : bool :=
  match a with
  | DVar v => (v <? 4294967296)%N
  | DInt z => (- two63 <=? z) && (z <? two63)
  | DStr s => (s <? 18446744073709551616)%N
  | DDate d => (d <? 18446744073709551616)%N
  | DBytes _ => true
  | DBool _ => true
  end.
Definition wf_dtermb (x : dterm) : bool :=
  match x with DA a => wf_datomb a | DSet l => forallb wf_datomb l && (len_int l <? two63) end.
Definition step_preb (t : table) (st : list dterm) (o : dop) : bool :=
  (len_int t + 1025 <? two63) &&
  match o, st with
  | DOUn _, v :: _ => wf_dtermb v
  | DOBin _, r :: l :: _ => wf_dtermb l && wf_dtermb r
  | _, _ => true
  end.
Fixpoint run_preb rx (b : dbindings) (t : table) (st : list dterm) (e : dexpr) : bool :=
  match e with
  | [] => true
  | o :: e' =>
      step_preb t st o &&
      match step_D rx t b st o with
      | (t', Ok st') => run_preb rx b t' st' e'
      | _ => true
      end
  end.

Lemma wf_datomb_sound a : wf_datomb a = true -> wf_datom a.
Proof. destruct a; cbn [wf_datomb wf_datom]; unfold in_u32, in_u64, in_i64; intros H; try exact I; lia. Qed.
Lemma wf_dtermb_sound x : wf_dtermb x = true -> wf_dterm x.
Proof.
  destruct x as [a|l]; cbn [wf_dtermb wf_dterm]; [apply wf_datomb_sound|].
  intros H. apply andb_true_iff in H as [H1 H2]. split; [|unfold len_ok; lia].
  rewrite forallb_forall in H1. apply Forall_forall. intros a Ha. apply wf_datomb_sound, H1, Ha.
Qed.
Lemma step_preb_sound t st o : step_preb t st o = true -> step_pre t st o.
Proof.
  unfold step_preb, step_pre. intros H. apply andb_true_iff in H as [H1 H2].
  split; [unfold table_fits; lia|].
  destruct o as [x|u|bo]; [exact I | |].
  - destruct st as [|v st]; [exact I | apply wf_dtermb_sound, H2].
  - destruct st as [|r [|l st]]; try exact I. apply andb_true_iff in H2 as [H2 H3].
    split; apply wf_dtermb_sound; assumption.
Qed.
Lemma run_preb_sound rx b : forall e t st, run_preb rx b t st e = true -> run_pre rx b t st e.
Proof.
  induction e as [|o e IH]; intros t st H; cbn [run_preb run_pre] in *; [exact I|].
  apply andb_true_iff in H as [H1 H2]. split; [apply step_preb_sound, H1|].
  destruct (step_D rx t b st o) as [t' [st'|x|n]]; [apply IH, H2 | exact I | exact I].
Qed.

(* ------------------------------------------------------------------ *)
(** * 9. Examples, evaluated on the generated definition *)

Definition rx_ex : bytes -> bytes -> option bool := fun p s => if bytes_eqb p [40]%N then None else Some (bytes_eqb p s).
Definition e_1_plus_2_times_3 : dexpr :=
  [DOVal (DA (DInt 1)); DOVal (DA (DInt 2)); DOVal (DA (DInt 3)); DOBin BMul; DOBin BAdd].

(* the hypothesis of the theorem is satisfiable (non-vacuity), also with a variable and a string concatenation *)
Example run_pre_ex :
  run_pre rx_ex [] [] [] e_1_plus_2_times_3 /\
  run_pre rx_ex [(7%N, DA (DStr 1024))] [[97]%N] []
    [DOVal (DA (DVar 7)); DOVal (DA (DStr 0)); DOBin BAdd; DOUn ULength; DOVal (DA (DInt 5)); DOBin BEqual].
Proof. split; apply run_preb_sound; vm_compute; reflexivity. Qed.

Example go_Expression_Evaluate_ex :
  (* 1 + 2 * 3 in postfix *)
  go_Expression_Evaluate rx_ex e_1_plus_2_times_3 [] [] = ([], Ok (DA (DInt 7))) /\
  (* an unknown variable; a known one *)
  go_Expression_Evaluate rx_ex [DOVal (DA (DVar 7))] [] [] = ([], Err EUnknownVar) /\
  go_Expression_Evaluate rx_ex [DOVal (DA (DVar 7))] [(7%N, DA (DBool true))] [] = ([], Ok (DA (DBool true))) /\
  (* stack underflow: unary on an empty stack, binary on one value *)
  go_Expression_Evaluate rx_ex [DOUn UNegate] [] [] = ([], Err EIllTyped) /\
  go_Expression_Evaluate rx_ex [DOVal (DA (DInt 1)); DOBin BAdd] [] [] = ([], Err EIllTyped) /\
  (* nothing / two values left *)
  go_Expression_Evaluate rx_ex [] [] [] = ([], Err EIllTyped) /\
  go_Expression_Evaluate rx_ex [DOVal (DA (DInt 1)); DOVal (DA (DInt 2))] [] [] = ([], Err EIllTyped) /\
  (* left and right are not exchanged *)
  go_Expression_Evaluate rx_ex [DOVal (DA (DInt 7)); DOVal (DA (DInt 2)); DOBin BSub] [] [] = ([], Ok (DA (DInt 5))) /\
  (* a string concatenation extends the table, also when the expression fails afterwards *)
  go_Expression_Evaluate rx_ex [DOVal (DA (DStr 1024)); DOVal (DA (DStr 0)); DOBin BAdd] [] [[97]%N]
    = ([[97]%N; [97;114;101;97;100]%N], Ok (DA (DStr 1025))) /\
  go_Expression_Evaluate rx_ex [DOVal (DA (DStr 1024)); DOVal (DA (DStr 0)); DOBin BAdd; DOUn UNegate] [] [[97]%N]
    = ([[97]%N; [97;114;101;97;100]%N], Err EIllTyped) /\
  (* 1000 pushes fit, the 1001st overflows *)
  go_Expression_Evaluate rx_ex (repeat (DOVal (DA (DInt 0))) 1001) [] [] = ([], Err EIllTyped) /\
  snd (go_Expression_Evaluate rx_ex (repeat (DOVal (DA (DInt 0))) 1000 ++ repeat (DOBin BAdd) 999) [] []) = Ok (DA (DInt 0)) /\
  (* errors of the operators keep their class *)
  go_Expression_Evaluate rx_ex [DOVal (DA (DInt 1)); DOVal (DA (DInt 0)); DOBin BDiv] [] [] = ([], Err EDivZero) /\
  go_Expression_Evaluate rx_ex [DOVal (DA (DInt 9223372036854775807)); DOVal (DA (DInt 1)); DOBin BAdd] [] [] = ([], Err EOverflow) /\
  go_Expression_Evaluate rx_ex [DOVal (DA (DStr 1024)); DOVal (DA (DStr 1025)); DOBin BRegex] [] [[97]%N; [40]%N] = ([[97]%N; [40]%N], Err ERegex) /\
  (* the set operators through the dispatch *)
  go_Expression_Evaluate rx_ex [DOVal (DSet [DInt 1; DInt 2]); DOVal (DSet [DInt 2; DInt 3]); DOBin BIntersection;
                                DOVal (DA (DInt 2)); DOBin BContains] [] [] = ([], Ok (DA (DBool true))).
Proof. vm_compute. repeat split. Qed.

(* the same inputs on the model (both sides of the theorem computed) *)
Example eval_D_ex :
  eval_D rx_ex [] e_1_plus_2_times_3 [] = ([], Ok (DA (DInt 7))) /\
  eval_D rx_ex [] [DOVal (DA (DVar 7))] [] = ([], Err EUnknownVar) /\
  eval_D rx_ex [] (repeat (DOVal (DA (DInt 0))) 1001) [] = ([], Err EIllTyped) /\
  eval_D rx_ex [[97]%N] [DOVal (DA (DStr 1024)); DOVal (DA (DStr 0)); DOBin BAdd; DOUn UNegate] []
    = ([[97]%N; [97;114;101;97;100]%N], Err EIllTyped).
Proof. vm_compute. repeat split. Qed.
