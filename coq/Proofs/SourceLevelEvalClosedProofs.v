(* SourceLevelEvalClosedProofs.v — the premise [set_ops_eq rx] of the Evaluate theorems
   (Proofs/SourceLevelEvalProofs.v) is discharged with the equalities of the four set operators
   proved in Proofs/GenFnSetProofs.v.  What remains as hypotheses of the source-level statements
   about go_Expression_Evaluate: the regex oracle's uniformity [rx_uniform] and the range condition
   [run_pre]. *)
From BV Require Import Base Term Expr DTerm Symbols DEval GoSem GeneratedFn.
From BV Require Import ExprProofs SymbolsProofs DEvalProofs GenFnProofs GenFnSetProofs GenFnEvalProofs SourceLevelEvalProofs.
Local Open Scope Z_scope.

Theorem set_ops_eq_holds : forall rx, set_ops_eq rx.
Proof.
  intro rx. unfold set_ops_eq. repeat split.
  - intros t l r _ _ _. exact (go_Equal_Eval_eq rx t l r).
  - intros t l r Hl Hr Ht. exact (go_Contains_Eval_eq rx t l r Hl Hr Ht).
  - intros t l r _ _ _. exact (go_Intersection_Eval_eq rx t l r).
  - intros t l r _ _ _. exact (go_Union_Eval_eq rx t l r).
Qed.

Theorem src_evaluate_is_model_closed : forall rx (b : dbindings) (t : table) (e : dexpr),
  rx_uniform rx -> run_pre rx b t [] e ->
  go_Expression_Evaluate rx e b t = eval_D rx t e b.
Proof. intros rx b t e Hrx Hpre. exact (src_evaluate_is_model rx b t e Hrx (set_ops_eq_holds rx) Hpre). Qed.

Theorem src_evaluate_total_closed : forall rx (b : dbindings) (t : table) (e : dexpr) (n : N),
  rx_uniform rx -> run_pre rx b t [] e ->
  snd (go_Expression_Evaluate rx e b t) <> Panic n.
Proof. intros rx b t e n Hrx Hpre. exact (src_evaluate_total rx b t e n Hrx (set_ops_eq_holds rx) Hpre). Qed.

Theorem src_evaluate_malformed_is_error_closed : forall rx (b : dbindings) (t : table) (e : dexpr),
  rx_uniform rx -> run_pre rx b t [] e ->
  table_wf t -> CL closed_bnd t b -> CL closed_op t e ->
  (forall tr, map (resolve_op t) e <> postfix tr) ->
  exists x, snd (go_Expression_Evaluate rx e b t) = Err x.
Proof.
  intros rx b t e Hrx Hpre Hwf Hb He Hn.
  exact (src_evaluate_malformed_is_error rx b t e Hrx (set_ops_eq_holds rx) Hpre Hwf Hb He Hn).
Qed.

Theorem src_evaluate_never_wrapped_closed : forall rx (bnd : dbindings) (t : table) (a b : Z) (o : binop) (v : dterm),
  rx_uniform rx -> in_i64 a -> in_i64 b -> table_fits t ->
  o = BAdd \/ o = BSub \/ o = BMul \/ o = BDiv ->
  snd (go_Expression_Evaluate rx [DOVal (DA (DInt a)); DOVal (DA (DInt b)); DOBin o] bnd t) = Ok v ->
  v = DA (DInt (arith_exact o a b)) /\ in_int64 (arith_exact o a b) = true /\ (o = BDiv -> b <> 0).
Proof.
  intros rx bnd t a b o v Hrx Ha Hb Ht Ho Hv.
  exact (src_evaluate_never_wrapped rx bnd t a b o v Hrx (set_ops_eq_holds rx) Ha Hb Ht Ho Hv).
Qed.
