(* SourceLevelSetProofs.v — corollaries of Proofs/GenFnSetProofs.v that state PROPERTIES of the set
   operators directly about the definitions regenerated from the Go source text
   (coq/GeneratedFn.v: go_Equal_Eval, go_Contains_Eval, go_Intersection_Eval, go_Union_Eval),
   without mentioning the hand-written model: what Properties/C06_source_level_sets.v quotes.

   Equality of elements is Term.Equal; on the elements of a Set (atoms) it is Leibniz equality of
   the representation ([datom_eqb_eq]), so "no repeated element up to Equal" is [NoDup]. *)
From Coq Require Import ZifyN ZifyNat ZifyBool.
From BV Require Import Base Term Expr DTerm Symbols Datalog Authz Wire Token DEval GoSem.
From BV Require Import GeneratedFn GenFnProofs GenFnSetProofs SourceLevelProofs.
Local Open Scope Z_scope.

(* ------------------------------------------------------------------ *)
(** * Facts about the model's list functions (used through the equality theorems only) *)

Lemma dset_contains_In (s : list datom) (a : datom) : dset_contains s a = true <-> In a s.
Proof.
  unfold dset_contains. rewrite existsb_exists. split.
  - intros [x [Hin Hx]]. apply datom_eqb_eq in Hx. subst x. exact Hin.
  - intros Hin. exists a. split; [exact Hin | apply datom_eqb_refl].
Qed.

Lemma dset_contains_false (s : list datom) (a : datom) : dset_contains s a = false <-> ~ In a s.
Proof.
  rewrite <- dset_contains_In. destruct (dset_contains s a); split; intros H; try reflexivity;
    try discriminate; try (intros H'; discriminate H'). exfalso. apply H. reflexivity.
Qed.

Lemma NoDup_snoc {A} (l : list A) (a : A) : NoDup l -> ~ In a l -> NoDup (l ++ [a]).
Proof.
  intros Hnd Hin. induction l as [|x l IH]; cbn [app].
  - constructor; [intros [] | constructor].
  - inversion Hnd as [|x' l' Hx Hl]; subst x' l'. constructor.
    + rewrite in_app_iff. cbn [In]. intros [H|[H|[]]]; [exact (Hx H)|].
      apply Hin. left. symmetry. exact H.
    + apply IH; [exact Hl|]. intros H. apply Hin. right. exact H.
Qed.

Lemma dset_add_spec (acc : list datom) (a : datom) :
  NoDup acc -> NoDup (dset_add acc a) /\ (forall x, In x (dset_add acc a) <-> In x acc \/ x = a).
Proof.
  intros Hnd. unfold dset_add. destruct (dset_contains acc a) eqn:E.
  - split; [exact Hnd|]. intros x. split; [intros H; left; exact H|].
    intros [H|H]; [exact H|]. subst x. apply dset_contains_In. exact E.
  - apply dset_contains_false in E. split.
    + apply NoDup_snoc; assumption.
    + intros x. rewrite in_app_iff. cbn [In]. split.
      * intros [H|[H|[]]]; [left; exact H | right; symmetry; exact H].
      * intros [H|H]; [left; exact H | right; left; symmetry; exact H].
Qed.

Lemma fold_dset_add_spec (l : list datom) : forall acc,
  NoDup acc ->
  NoDup (fold_left dset_add l acc) /\ (forall x, In x (fold_left dset_add l acc) <-> In x acc \/ In x l).
Proof.
  induction l as [|a l IH]; intros acc Hnd; cbn [fold_left].
  - split; [exact Hnd|]. intros x. cbn [In]. split; [intros H; left; exact H | intros [H|[]]; exact H].
  - destruct (dset_add_spec acc a Hnd) as [Hnd' Hin'].
    destruct (IH (dset_add acc a) Hnd') as [Hnd'' Hin'']. split; [exact Hnd''|].
    intros x. rewrite Hin'', Hin'. cbn [In]. split.
    + intros [[H|H]|H]; [left; exact H | right; left; symmetry; exact H | right; right; exact H].
    + intros [H|[H|H]]; [left; left; exact H | left; right; symmetry; exact H | right; exact H].
Qed.

Lemma dset_union_spec (a b : list datom) :
  NoDup (dset_union a b) /\ (forall x, In x (dset_union a b) <-> In x a \/ In x b).
Proof.
  unfold dset_union.
  destruct (fold_dset_add_spec a [] (NoDup_nil _)) as [H1 I1].
  destruct (fold_dset_add_spec b _ H1) as [H2 I2]. split; [exact H2|].
  intros x. rewrite I2, I1. cbn [In]. split.
  - intros [[[]|H]|H]; [left; exact H | right; exact H].
  - intros [H|H]; [left; right; exact H | right; exact H].
Qed.

Lemma fold_dset_inter_spec (t l : list datom) : forall acc,
  NoDup acc ->
  let r := fold_left (fun acc a => if dset_contains t a then dset_add acc a else acc) l acc in
  NoDup r /\ (forall x, In x r <-> In x acc \/ (In x l /\ In x t)).
Proof.
  induction l as [|a l IH]; intros acc Hnd; cbn [fold_left].
  - split; [exact Hnd|]. intros x. cbn [In]. split; [intros H; left; exact H | intros [H|[[] _]]; exact H].
  - destruct (dset_contains t a) eqn:E.
    + apply dset_contains_In in E.
      destruct (dset_add_spec acc a Hnd) as [Hnd' Hin'].
      destruct (IH (dset_add acc a) Hnd') as [Hnd'' Hin'']. split; [exact Hnd''|].
      intros x. rewrite Hin'', Hin'. cbn [In]. split.
      * intros [[H|H]|[H1 H2]]; [left; exact H | subst x; right; split; [left; reflexivity | exact E]
                                | right; split; [right; exact H1 | exact H2]].
      * intros [H|[[H|H] H2]]; [left; left; exact H | left; right; symmetry; exact H | right; split; assumption].
    + apply dset_contains_false in E.
      destruct (IH acc Hnd) as [Hnd'' Hin'']. split; [exact Hnd''|].
      intros x. rewrite Hin''. cbn [In]. split.
      * intros [H|[H1 H2]]; [left; exact H | right; split; [right; exact H1 | exact H2]].
      * intros [H|[[H|H] H2]]; [left; exact H | subst x; exfalso; exact (E H2) | right; split; assumption].
Qed.

Lemma dset_intersect_spec (a b : list datom) :
  NoDup (dset_intersect a b) /\ (forall x, In x (dset_intersect a b) <-> In x a /\ In x b).
Proof.
  unfold dset_intersect.
  destruct (fold_dset_inter_spec b a [] (NoDup_nil _)) as [H1 I1]. split; [exact H1|].
  intros x. rewrite I1. cbn [In]. split; [intros [[]|H]; exact H | intros H; right; exact H].
Qed.

Lemma forallb_existsb_incl (s c : list datom) :
  forallb (fun x => existsb (fun y => datom_eqb y x) c) s = true <-> (forall x, In x s -> In x c).
Proof.
  rewrite forallb_forall. split; intros H x Hx.
  - apply dset_contains_In. exact (H x Hx).
  - apply (proj2 (dset_contains_In c x)). exact (H x Hx).
Qed.

Lemma dset_equal_spec (s c : list datom) :
  dset_equal s c = true <-> length s = length c /\ (forall x, In x s <-> In x c).
Proof.
  unfold dset_equal. rewrite !Bool.andb_true_iff, Nat.eqb_eq, !forallb_existsb_incl. split.
  - intros [[H1 H2] H3]. split; [symmetry; exact H1|]. intros x. split; [apply H2 | apply H3].
  - intros [H1 H2]. split; [split; [symmetry; exact H1|]|]; intros x Hx; apply H2; exact Hx.
Qed.

Lemma dset_equal_sym (s c : list datom) : dset_equal s c = dset_equal c s.
Proof.
  unfold dset_equal. rewrite (Nat.eqb_sym (length c) (length s)).
  destruct (Nat.eqb (length s) (length c)); cbn [andb]; [apply Bool.andb_comm | reflexivity].
Qed.

Lemma dterm_geqb_sym (x y : dterm) : dterm_geqb x y = dterm_geqb y x.
Proof.
  destruct x as [a|s]; destruct y as [b|c]; cbn [dterm_geqb]; try reflexivity.
  - apply datom_eqb_sym.
  - apply dset_equal_sym.
Qed.

(* ------------------------------------------------------------------ *)
(** * The set operators as written in the source *)

(** Intersection / Union: a Set without repeated element, with exactly the expected members *)
Lemma src_intersection_spec : forall (a b : list datom) (t : table),
  exists s, go_Intersection_Eval (DSet a) (DSet b) t = Ok (DSet s) /\
            NoDup s /\ (forall x, In x s <-> In x a /\ In x b).
Proof.
  intros a b t. exists (dset_intersect a b).
  pose proof (pair_snd_eq _ _ _ (go_Intersection_Eval_eq no_rx t (DSet a) (DSet b))) as H.
  cbn [eval_binary_D] in H. split; [symmetry; exact H | apply dset_intersect_spec].
Qed.

Lemma src_union_spec : forall (a b : list datom) (t : table),
  exists s, go_Union_Eval (DSet a) (DSet b) t = Ok (DSet s) /\
            NoDup s /\ (forall x, In x s <-> In x a \/ In x b).
Proof.
  intros a b t. exists (dset_union a b).
  pose proof (pair_snd_eq _ _ _ (go_Union_Eval_eq no_rx t (DSet a) (DSet b))) as H.
  cbn [eval_binary_D] in H. split; [symmetry; exact H | apply dset_union_spec].
Qed.

(* whatever the operands: a result is a Set and it has no repeated element *)
Lemma src_intersection_no_repeats : forall (l r : dterm) (t : table) (v : dterm),
  go_Intersection_Eval l r t = Ok v -> exists s, v = DSet s /\ NoDup s.
Proof.
  intros l r t v Hv.
  pose proof (pair_snd_eq _ _ _ (go_Intersection_Eval_eq no_rx t l r)) as H. rewrite Hv in H.
  cbn [eval_binary_D] in H.
  destruct l as [la|a]; [discriminate H|]. destruct r as [ra|b]; [discriminate H|].
  injection H as H. exists (dset_intersect a b). split; [symmetry; exact H | apply dset_intersect_spec].
Qed.

Lemma src_union_no_repeats : forall (l r : dterm) (t : table) (v : dterm),
  go_Union_Eval l r t = Ok v -> exists s, v = DSet s /\ NoDup s.
Proof.
  intros l r t v Hv.
  pose proof (pair_snd_eq _ _ _ (go_Union_Eval_eq no_rx t l r)) as H. rewrite Hv in H.
  cbn [eval_binary_D] in H.
  destruct l as [la|a]; [discriminate H|]. destruct r as [ra|b]; [discriminate H|].
  injection H as H. exists (dset_union a b). split; [symmetry; exact H | apply dset_union_spec].
Qed.

(** no operand pair in the ranges of the Go types makes a set operator panic *)
Lemma src_set_ops_no_panic : forall (t : table) (l r : dterm) (n : N),
  wf_dterm l -> wf_dterm r -> len_ok t ->
  go_Equal_Eval l r t <> Panic n /\ go_Contains_Eval l r t <> Panic n /\
  go_Intersection_Eval l r t <> Panic n /\ go_Union_Eval l r t <> Panic n.
Proof.
  intros t l r n Hl Hr Ht.
  pose proof (pair_snd_eq _ _ _ (go_Equal_Eval_eq no_rx t l r)) as He.
  pose proof (pair_snd_eq _ _ _ (go_Contains_Eval_eq no_rx t l r Hl Hr Ht)) as Hc.
  pose proof (pair_snd_eq _ _ _ (go_Intersection_Eval_eq no_rx t l r)) as Hi.
  pose proof (pair_snd_eq _ _ _ (go_Union_Eval_eq no_rx t l r)) as Hu.
  rewrite <- He, <- Hc, <- Hi, <- Hu. clear He Hc Hi Hu.
  repeat split;
    destruct l as [[lv|lz|ls|ld|lb|lb]|ll]; destruct r as [[rv|rz|rs|rd|rb|rb]|rl];
    cbn [dterm_type datom_type ttype_eqb negb]; discriminate.
Qed.

(** Equal: symmetric in its operands (same outcome, error included) *)
Lemma src_equal_symmetric : forall (l r : dterm) (t : table),
  go_Equal_Eval l r t = go_Equal_Eval r l t.
Proof.
  intros l r t.
  pose proof (pair_snd_eq _ _ _ (go_Equal_Eval_eq no_rx t l r)) as H1.
  pose proof (pair_snd_eq _ _ _ (go_Equal_Eval_eq no_rx t r l)) as H2.
  rewrite <- H1, <- H2. clear H1 H2. rewrite (dterm_geqb_sym r l).
  destruct l as [[lv|lz|ls|ld|lb|lb]|ll]; destruct r as [[rv|rz|rs|rd|rb|rb]|rl]; reflexivity.
Qed.

(* two Sets are Equal exactly when they have the same length and the same members;
   two elements of the same type other than Variable exactly when they are the same value *)
Lemma src_equal_sets_spec : forall (a b : list datom) (t : table),
  exists v, go_Equal_Eval (DSet a) (DSet b) t = Ok (DA (DBool v)) /\
            (v = true <-> length a = length b /\ (forall x, In x a <-> In x b)).
Proof.
  intros a b t. exists (dset_equal a b).
  pose proof (pair_snd_eq _ _ _ (go_Equal_Eval_eq no_rx t (DSet a) (DSet b))) as H.
  split; [symmetry; exact H | apply dset_equal_spec].
Qed.

Lemma src_equal_atoms_spec : forall (a b : datom) (t : table),
  datom_type a = datom_type b -> datom_type a <> TyVar ->
  exists v, go_Equal_Eval (DA a) (DA b) t = Ok (DA (DBool v)) /\ (v = true <-> a = b).
Proof.
  intros a b t Hty Hvar. exists (datom_eqb a b).
  pose proof (pair_snd_eq _ _ _ (go_Equal_Eval_eq no_rx t (DA a) (DA b))) as H.
  split; [|apply datom_eqb_eq]. rewrite <- H. cbn [dterm_type]. rewrite <- Hty.
  destruct a as [x|x|x|x|x|x]; cbn [datom_type ttype_eqb negb]; try reflexivity.
  exfalso. apply Hvar. reflexivity.
Qed.

Lemma src_equal_mismatch : forall (l r : dterm) (t : table),
  dterm_type l <> dterm_type r -> go_Equal_Eval l r t = Err EIllTyped.
Proof.
  intros l r t Hty.
  pose proof (pair_snd_eq _ _ _ (go_Equal_Eval_eq no_rx t l r)) as H. rewrite <- H.
  destruct l as [[lv|lz|ls|ld|lb|lb]|ll]; destruct r as [[rv|rz|rs|rd|rb|rb]|rl];
    cbn [dterm_type datom_type] in *; try reflexivity; exfalso; apply Hty; reflexivity.
Qed.

(** Contains: membership of an element, inclusion of a set, substring of a string *)
Lemma src_contains_spec : forall (s : list datom) (t : table),
  (forall a, datom_type a <> TyVar ->
     exists v, go_Contains_Eval (DSet s) (DA a) t = Ok (DA (DBool v)) /\ (v = true <-> In a s)) /\
  (forall c,
     exists v, go_Contains_Eval (DSet s) (DSet c) t = Ok (DA (DBool v)) /\
               (v = true <-> forall x, In x c -> In x s)) /\
  (forall a, go_Contains_Eval (DSet s) (DA (DVar a)) t = Err EIllTyped).
Proof.
  intros s t. split; [|split].
  - intros a Hvar. exists (dset_contains s a).
    pose proof (pair_snd_eq _ _ _ (go_Contains_Eval_set_eq no_rx t s (DA a))) as H.
    split; [|apply dset_contains_In]. rewrite <- H. cbn [dterm_type].
    rewrite <- dset_contains_flip.
    destruct a as [x|x|x|x|x|x]; cbn [datom_type]; try reflexivity.
    exfalso. apply Hvar. reflexivity.
  - intros c. exists (forallb (fun e => existsb (fun x => datom_eqb x e) s) c).
    pose proof (pair_snd_eq _ _ _ (go_Contains_Eval_set_eq no_rx t s (DSet c))) as H.
    split; [symmetry; exact H | apply forallb_existsb_incl].
  - intros a. symmetry. exact (pair_snd_eq _ _ _ (go_Contains_Eval_set_eq no_rx t s (DA (DVar a)))).
Qed.

Lemma src_contains_strings : forall (t : table) (a b : N) (x y : bytes),
  in_u64 a -> in_u64 b -> len_ok t ->
  go_SymbolTable_Str t a = Ok x -> go_SymbolTable_Str t b = Ok y ->
  go_Contains_Eval (DA (DStr a)) (DA (DStr b)) t = Ok (DA (DBool (contains_sub x y))).
Proof.
  intros t a b x y Ha Hb Ht Hx Hy.
  rewrite (go_SymbolTable_Str_eq t a Ha Ht) in Hx. rewrite (go_SymbolTable_Str_eq t b Hb Ht) in Hy.
  injection Hx as Hx. injection Hy as Hy. subst x y.
  symmetry. exact (pair_snd_eq _ _ _ (go_Contains_Eval_eq no_rx t (DA (DStr a)) (DA (DStr b)) Ha Hb Ht)).
Qed.

(* a left operand that is neither a Set nor a String, or a String against anything else: an error *)
Lemma src_contains_ill_typed : forall (t : table) (a : datom) (r : dterm),
  wf_dterm (DA a) -> wf_dterm r -> len_ok t ->
  (forall x y, ~ (a = DStr x /\ r = DA (DStr y))) ->
  go_Contains_Eval (DA a) r t = Err EIllTyped.
Proof.
  intros t a r Ha Hr Ht Hns.
  pose proof (pair_snd_eq _ _ _ (go_Contains_Eval_eq no_rx t (DA a) r Ha Hr Ht)) as H. rewrite <- H.
  destruct a as [x|x|x|x|x|x]; destruct r as [[rv|rz|rs|rd|rb|rb]|rl];
    cbn [dterm_type datom_type]; try reflexivity.
  exfalso. apply (Hns x rs). split; reflexivity.
Qed.

Print Assumptions src_intersection_spec.
Print Assumptions src_union_spec.
Print Assumptions src_intersection_no_repeats.
Print Assumptions src_union_no_repeats.
Print Assumptions src_set_ops_no_panic.
Print Assumptions src_equal_symmetric.
Print Assumptions src_equal_sets_spec.
Print Assumptions src_equal_atoms_spec.
Print Assumptions src_equal_mismatch.
Print Assumptions src_contains_spec.
Print Assumptions src_contains_strings.
Print Assumptions src_contains_ill_typed.

(* non-vacuity: the hypotheses of the statements above hold of concrete operands, and the
   generated definitions compute the stated outcomes on them (repeated elements, mixed types,
   one-directional inclusion, boundary indexes) *)
Example src_set_ops_ex :
  go_Intersection_Eval (DSet [DInt 1; DInt 2; DInt 1; DStr 2]) (DSet [DStr 2; DInt 1; DInt 1]) [] = Ok (DSet [DInt 1; DStr 2]) /\
  go_Union_Eval (DSet [DInt 1; DInt 1]) (DSet [DInt 1; DStr 1; DStr 1]) [] = Ok (DSet [DInt 1; DStr 1]) /\
  go_Equal_Eval (DSet [DInt 1; DInt 1]) (DSet [DInt 1; DInt 2]) [] = Ok (DA (DBool false)) /\
  go_Equal_Eval (DSet [DInt 1; DInt 2]) (DSet [DInt 1; DInt 1]) [] = Ok (DA (DBool false)) /\
  go_Equal_Eval (DSet [DInt 2; DInt 1]) (DSet [DInt 1; DInt 2]) [] = Ok (DA (DBool true)) /\
  go_Equal_Eval (DA (DStr 18446744073709551615)) (DA (DStr 18446744073709551615)) [] = Ok (DA (DBool true)) /\
  go_Equal_Eval (DA (DInt 1)) (DSet [DInt 1]) [] = Err EIllTyped /\
  go_Contains_Eval (DSet [DInt 1; DInt 2]) (DSet [DInt 2; DInt 2]) [] = Ok (DA (DBool true)) /\
  go_Contains_Eval (DSet [DInt 1; DInt 2]) (DSet [DInt 2; DInt 3]) [] = Ok (DA (DBool false)) /\
  go_Contains_Eval (DSet [DBytes [1]%N]) (DA (DBytes [1]%N)) [] = Ok (DA (DBool true)) /\
  go_Contains_Eval (DSet [DInt 1]) (DA (DVar 0)) [] = Err EIllTyped /\
  go_Contains_Eval (DA (DStr 1024)) (DA (DStr 18446744073709551615)) [[97]%N] = Ok (DA (DBool false)).
Proof. vm_compute. repeat split. Qed.

Example src_set_ops_hyps_ex :
  wf_dterm (DSet [DInt 1; DStr 18446744073709551615; DVar 4294967295]) /\
  wf_dterm (DA (DInt (-9223372036854775808))) /\ len_ok [[97]%N] /\
  datom_type (DInt 1) = datom_type (DInt 2) /\ datom_type (DInt 1) <> TyVar /\
  dterm_type (DA (DInt 1)) <> dterm_type (DSet [DInt 1]) /\
  (forall x y, ~ (DInt 1 = DStr x /\ DA (DInt 1) = DA (DStr y))).
Proof.
  split; [|split; [|split; [|split; [|split; [|split]]]]].
  - cbn [wf_dterm]. split.
    + constructor; [|constructor; [|constructor; [|constructor]]]; vm_compute; split; try reflexivity;
        intros H; discriminate H.
    + vm_compute. reflexivity.
  - vm_compute. split; [intros H; discriminate H | reflexivity].
  - vm_compute. reflexivity.
  - reflexivity.
  - intros H. discriminate H.
  - intros H. discriminate H.
  - intros x y [H _]. discriminate H.
Qed.
