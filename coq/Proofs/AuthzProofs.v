(* AuthzProofs.v — structural theorems about Model/Authz.v (authorizer.go:
   Authorize / Query / Reset):  C02 (attenuation only restricts), C03 (block
   scoping), C04 (decision procedure, structural part), C13 (reset), and the
   authorizer half of C11 (a run error is never masked).

   Nothing here depends on Proofs/DatalogProofs.v: the only facts about [run]
   that are needed ("the world only grows") are proved locally. *)
From BV Require Import Base Term Expr Datalog Authz.

Definition empty_block : block := {| b_facts := []; b_rules := []; b_checks := [] |}.

Section AuthzProofs.
Variable rx : bytes -> bytes -> option bool.

(* ------------------------------------------------------------------ *)
(** * The world only grows *)

Lemma insert_fact_incl (fs : list pred) (g f : pred) : In f fs -> In f (insert_fact fs g).
Proof.
  intro H. unfold insert_fact. destruct (fact_in g fs); [exact H|].
  apply in_or_app. left. exact H.
Qed.

Lemma insert_all_incl (nf : list pred) :
  forall (fs : list pred) (f : pred), In f fs -> In f (fold_left insert_fact nf fs).
Proof.
  induction nf as [|g nf IH]; intros fs f H; cbn [fold_left]; [exact H|].
  apply IH. apply insert_fact_incl. exact H.
Qed.

Lemma run_loop_incl (fuel : nat) (mf : N) (rs : list rule) :
  forall (fs fs' : list pred) (e : option err),
    run_loop rx fuel mf rs fs = (fs', e) -> forall f, In f fs -> In f fs'.
Proof.
  induction fuel as [|fuel IH]; intros fs fs' e H f Hf; cbn [run_loop] in H.
  - inversion H; subst. exact Hf.
  - destruct (apply_rules rx rs fs []) as [nf [e0|]].
    + inversion H; subst. exact Hf.
    + cbv zeta in H.
      destruct (mf <=? lenN (insert_all fs nf)).
      * inversion H; subst. apply insert_all_incl. exact Hf.
      * destruct (Nat.eqb (length (insert_all fs nf)) (length fs)).
        -- inversion H; subst. apply insert_all_incl. exact Hf.
        -- apply (IH _ _ _ H). apply insert_all_incl. exact Hf.
Qed.

(* holds whether or not the run ends with an error *)
Lemma run_incl (lim : limits) (rs : list rule) (fs fs' : list pred) (e : option err) :
  run rx lim rs fs = (fs', e) -> forall f, In f fs -> In f fs'.
Proof. unfold run. apply run_loop_incl. Qed.

(* ------------------------------------------------------------------ *)
(** * Checks and policies *)

Definition checks_ok (fs : list pred) (cs : list check) : bool := forallb (check_holds rx fs) cs.

Lemma failed_checks_nil (o : origin) (fs : list pred) (cs : list check) (i : N) :
  failed_checks rx o fs cs i = [] <-> checks_ok fs cs = true.
Proof.
  revert i. induction cs as [|c cs IH]; intros i; cbn [failed_checks checks_ok forallb].
  - split; reflexivity.
  - destruct (check_holds rx fs c); cbn [app andb].
    + apply IH.
    + split; intro H; discriminate H.
Qed.

Lemma failed_checks_origin (o : origin) (fs : list pred) (cs : list check) :
  forall (i : N) (p : origin * N), In p (failed_checks rx o fs cs i) -> fst p = o.
Proof.
  induction cs as [|c cs IH]; intros i p H; cbn [failed_checks] in H; [destruct H|].
  apply in_app_or in H. destruct H as [H|H]; [|exact (IH _ _ H)].
  destruct (check_holds rx fs c); [destruct H|].
  destruct H as [H|H]; [subst p; reflexivity | destruct H].
Qed.

(* the origin tag is only a label *)
Lemma failed_checks_relabel (o o' : origin) (fs : list pred) (cs : list check) :
  forall i : N, failed_checks rx o' fs cs i = map (fun p => (o', snd p)) (failed_checks rx o fs cs i).
Proof.
  induction cs as [|c cs IH]; intros i; cbn [failed_checks]; [reflexivity|].
  rewrite map_app, <- IH. destruct (check_holds rx fs c); reflexivity.
Qed.

Lemma length_nonzero {A} (l : list A) : negb (Nat.eqb (length l) 0) = true <-> l <> [].
Proof. destruct l as [|x l]; cbn; split; intro H; try discriminate; try reflexivity; congruence. Qed.

Theorem C04_or_is_disjunction (fs : list pred) (c : check) :
  check_holds rx fs c = true <-> exists q, In q c /\ query_rule rx q fs <> [].
Proof.
  unfold check_holds. rewrite existsb_exists. split; intros [q [Hq H]]; exists q; split; try exact Hq.
  - apply length_nonzero. exact H.
  - apply length_nonzero. exact H.
Qed.

Theorem C04_first_match (fs : list pred) (ps1 ps2 : list policy) (p : policy) :
  (forall p', In p' ps1 -> check_holds rx fs (pol_queries p') = false) ->
  check_holds rx fs (pol_queries p) = true ->
  policy_result rx fs (ps1 ++ p :: ps2) = Some (pol_kind p).
Proof.
  intros H1 Hp. induction ps1 as [|p1 ps1 IH]; cbn [app policy_result].
  - rewrite Hp. reflexivity.
  - rewrite (H1 p1 (or_introl eq_refl)). apply IH. intros p' Hin. apply H1. right. exact Hin.
Qed.

Theorem C04_no_match (fs : list pred) (ps : list policy) :
  (forall p, In p ps -> check_holds rx fs (pol_queries p) = false) ->
  policy_result rx fs ps = None.
Proof.
  intros H. induction ps as [|p ps IH]; cbn [policy_result]; [reflexivity|].
  rewrite (H p (or_introl eq_refl)). apply IH. intros p' Hin. apply H. right. exact Hin.
Qed.

(* converse directions: the result determines which policy matched *)
Lemma policy_result_some (fs : list pred) (ps : list policy) (k : pkind) :
  policy_result rx fs ps = Some k ->
  exists ps1 p ps2, ps = ps1 ++ p :: ps2 /\ pol_kind p = k /\
    check_holds rx fs (pol_queries p) = true /\
    (forall p', In p' ps1 -> check_holds rx fs (pol_queries p') = false).
Proof.
  induction ps as [|p ps IH]; cbn [policy_result]; intro H; [discriminate H|].
  destruct (check_holds rx fs (pol_queries p)) eqn:Hp.
  - exists [], p, ps. inversion H; subst. repeat split; auto. intros p' Hin. destruct Hin.
  - destruct (IH H) as [ps1 [p0 [ps2 [-> [Hk [H0 Hpre]]]]]].
    exists (p :: ps1), p0, ps2. repeat split; auto.
    intros p' [<-|Hin]; [exact Hp | apply Hpre; exact Hin].
Qed.

Lemma policy_result_none (fs : list pred) (ps : list policy) :
  policy_result rx fs ps = None -> forall p, In p ps -> check_holds rx fs (pol_queries p) = false.
Proof.
  induction ps as [|p0 ps IH]; cbn [policy_result]; intros H p Hin; [destruct Hin|].
  destruct (check_holds rx fs (pol_queries p0)) eqn:Hp; [discriminate H|].
  destruct Hin as [<-|Hin]; [exact Hp | apply IH; assumption].
Qed.

(* ------------------------------------------------------------------ *)
(** * One block alone, and the blocks phase block by block (C03) *)

Definition block_world (lim : limits) (fs : list pred) (b : block) : list pred * option err :=
  run rx lim (b_rules b) (fold_left insert_fact (b_facts b) fs).

(* the result of processing one block alone: run error, or its failed checks *)
Definition block_outcome (lim : limits) (fs : list pred) (b : block) (i : N)
  : res (list (origin * N)) :=
  match block_world lim fs b with
  | (_, Some e) => Err e
  | (w, None) => Ok (failed_checks rx (FromBlock i) w (b_checks b) 0)
  end.

Lemma block_outcome_ok (lim : limits) (fs : list pred) (b : block) (i : N) :
  snd (block_world lim fs b) = None <-> exists l, block_outcome lim fs b i = Ok l.
Proof.
  unfold block_outcome. destruct (block_world lim fs b) as [w [e|]]; cbn [snd]; split; intro H.
  - discriminate H.
  - destruct H as [l H]. discriminate H.
  - eexists. reflexivity.
  - reflexivity.
Qed.

Lemma block_outcome_err (lim : limits) (fs : list pred) (b : block) (i : N) (e : err) :
  snd (block_world lim fs b) = Some e <-> block_outcome lim fs b i = Err e.
Proof.
  unfold block_outcome. destruct (block_world lim fs b) as [w [e0|]]; cbn [snd]; split; intro H;
    try discriminate H; congruence.
Qed.

Lemma block_outcome_no_panic (lim : limits) (fs : list pred) (b : block) (i : N) (s : N) :
  block_outcome lim fs b i <> Panic s.
Proof. unfold block_outcome. destruct (block_world lim fs b) as [w [e|]]; discriminate. Qed.

Lemma blocks_phase_cons (lim : limits) (fs : list pred) (b : block) (bs : list block) (i : N) :
  blocks_phase rx lim fs (b :: bs) i =
  do l <- block_outcome lim fs b i; do rest <- blocks_phase rx lim fs bs (i + 1); Ok (l ++ rest).
Proof.
  cbn [blocks_phase]. unfold block_outcome, block_world.
  destruct (run rx lim (b_rules b) (fold_left insert_fact (b_facts b) fs)) as [w [e|]]; reflexivity.
Qed.

Lemma blocks_phase_app_eq (lim : limits) (fs : list pred) (bs1 : list block) :
  forall (bs2 : list block) (i : N),
    blocks_phase rx lim fs (bs1 ++ bs2) i =
    do l1 <- blocks_phase rx lim fs bs1 i;
    do l2 <- blocks_phase rx lim fs bs2 (i + lenN bs1);
    Ok (l1 ++ l2).
Proof.
  induction bs1 as [|b bs1 IH]; intros bs2 i.
  - cbn [app lenN blocks_phase bind]. rewrite N.add_0_r.
    destruct (blocks_phase rx lim fs bs2 i); reflexivity.
  - rewrite <- app_comm_cons. rewrite !blocks_phase_cons. rewrite IH.
    replace (i + 1 + lenN bs1) with (i + lenN (b :: bs1)) by (cbn [lenN]; lia).
    destruct (block_outcome lim fs b i) as [l|e|s]; cbn [bind]; try reflexivity.
    destruct (blocks_phase rx lim fs bs1 (i + 1)) as [l1|e|s]; cbn [bind]; try reflexivity.
    destruct (blocks_phase rx lim fs bs2 (i + lenN (b :: bs1))) as [l2|e|s]; cbn [bind]; try reflexivity.
    rewrite app_assoc. reflexivity.
Qed.

Lemma blocks_phase_single (lim : limits) (fs : list pred) (b : block) (i : N) :
  blocks_phase rx lim fs [b] i = block_outcome lim fs b i.
Proof.
  rewrite blocks_phase_cons. cbn [blocks_phase bind].
  destruct (block_outcome lim fs b i) as [l|e|s]; cbn [bind]; try reflexivity.
  rewrite app_nil_r. reflexivity.
Qed.

Lemma blocks_phase_snoc (lim : limits) (fs : list pred) (bs : list block) (b : block) (i : N) :
  blocks_phase rx lim fs (bs ++ [b]) i =
  do l1 <- blocks_phase rx lim fs bs i;
  do l2 <- block_outcome lim fs b (i + lenN bs);
  Ok (l1 ++ l2).
Proof. rewrite blocks_phase_app_eq, blocks_phase_single. reflexivity. Qed.

Lemma blocks_phase_no_panic (lim : limits) (fs : list pred) (bs : list block) :
  forall (i : N) (s : N), blocks_phase rx lim fs bs i <> Panic s.
Proof.
  induction bs as [|b bs IH]; intros i s; [discriminate|].
  rewrite blocks_phase_cons. pose proof (block_outcome_no_panic lim fs b i) as Hb.
  destruct (block_outcome lim fs b i) as [l|e|s0]; cbn [bind]; try discriminate.
  - specialize (IH (i + 1)). destruct (blocks_phase rx lim fs bs (i + 1)) as [l1|e|s1]; cbn [bind];
      try discriminate. intro H. apply (IH s1). congruence.
  - exfalso. apply (Hb s0). reflexivity.
Qed.

(** C02.1 *)
Theorem blocks_phase_app (lim : limits) (fs : list pred) (bs : list block) (b : block) (i : N)
        (errs : list (origin * N)) :
  blocks_phase rx lim fs (bs ++ [b]) i = Ok errs ->
  exists e1 e2, blocks_phase rx lim fs bs i = Ok e1 /\ errs = e1 ++ e2 /\
                block_outcome lim fs b (i + lenN bs) = Ok e2.
Proof.
  rewrite blocks_phase_snoc.
  destruct (blocks_phase rx lim fs bs i) as [e1|e|s]; cbn [bind]; try discriminate.
  destruct (block_outcome lim fs b (i + lenN bs)) as [e2|e|s]; cbn [bind]; try discriminate.
  intro H. inversion H; subst. exists e1, e2. auto.
Qed.

(* per-block outcomes with positions, and how they combine *)
Fixpoint outcomes (lim : limits) (fs : list pred) (bs : list block) (i : N)
  : list (res (list (origin * N))) :=
  match bs with
  | [] => []
  | b :: bs' => block_outcome lim fs b i :: outcomes lim fs bs' (i + 1)
  end.

Fixpoint combine_outcomes (outs : list (res (list (origin * N)))) : res (list (origin * N)) :=
  match outs with
  | [] => Ok []
  | o :: outs' => do l <- o; do rest <- combine_outcomes outs'; Ok (l ++ rest)
  end.

(** C03.4 : the blocks phase is determined block by block *)
Theorem blocks_phase_independent (lim : limits) (fs : list pred) (bs : list block) :
  forall i : N, blocks_phase rx lim fs bs i = combine_outcomes (outcomes lim fs bs i).
Proof.
  induction bs as [|b bs IH]; intros i; [reflexivity|].
  rewrite blocks_phase_cons. cbn [outcomes combine_outcomes]. rewrite IH. reflexivity.
Qed.

Lemma combine_all_ok (outs : list (res (list (origin * N)))) (ls : list (list (origin * N))) :
  Forall2 (fun o l => o = Ok l) outs ls -> combine_outcomes outs = Ok (concat ls).
Proof.
  intro H. induction H as [|o l outs ls Ho H IH]; [reflexivity|].
  cbn [combine_outcomes concat]. rewrite Ho, IH. reflexivity.
Qed.

Lemma combine_first_err (pre post : list (res (list (origin * N)))) (e : err) :
  Forall (fun o => exists l, o = Ok l) pre -> combine_outcomes (pre ++ Err e :: post) = Err e.
Proof.
  intro H. induction H as [|o pre [l Ho] H IH]; [reflexivity|].
  cbn [app combine_outcomes]. rewrite Ho, IH. reflexivity.
Qed.

(* and these two cases are exhaustive *)
Lemma combine_cases (outs : list (res (list (origin * N)))) :
  (forall s, ~ In (Panic s) outs) ->
  (exists ls, Forall2 (fun o l => o = Ok l) outs ls) \/
  (exists pre e post, outs = pre ++ Err e :: post /\ Forall (fun o => exists l, o = Ok l) pre).
Proof.
  induction outs as [|o outs IH]; intro Hp.
  - left. exists []. constructor.
  - destruct o as [l|e|s].
    + destruct IH as [[ls H]|[pre [e [post [-> H]]]]].
      * intros s Hin. apply (Hp s). right. exact Hin.
      * left. exists (l :: ls). constructor; [reflexivity | exact H].
      * right. exists (Ok l :: pre), e, post. split; [reflexivity|].
        constructor; [exists l; reflexivity | exact H].
    + right. exists [], e, outs. split; [reflexivity | constructor].
    + exfalso. apply (Hp s). left. reflexivity.
Qed.

Lemma outcomes_no_panic (lim : limits) (fs : list pred) (bs : list block) :
  forall (i : N) (s : N), ~ In (Panic s) (outcomes lim fs bs i).
Proof.
  induction bs as [|b bs IH]; intros i s H; cbn [outcomes] in H; [destruct H|].
  destruct H as [H|H]; [exact (block_outcome_no_panic _ _ _ _ _ H) | exact (IH _ _ H)].
Qed.

Lemma outcomes_app (lim : limits) (fs : list pred) (bs1 : list block) :
  forall (bs2 : list block) (i : N),
    outcomes lim fs (bs1 ++ bs2) i = outcomes lim fs bs1 i ++ outcomes lim fs bs2 (i + lenN bs1).
Proof.
  induction bs1 as [|b bs1 IH]; intros bs2 i.
  - cbn [app outcomes lenN]. rewrite N.add_0_r. reflexivity.
  - rewrite <- app_comm_cons. cbn [outcomes]. rewrite IH.
    replace (i + 1 + lenN bs1) with (i + lenN (b :: bs1)) by (cbn [lenN]; lia). reflexivity.
Qed.

Lemma outcomes_length (lim : limits) (fs : list pred) (bs : list block) :
  forall i : N, length (outcomes lim fs bs i) = length bs.
Proof. induction bs as [|b bs IH]; intros i; cbn [outcomes length]; [reflexivity | rewrite IH; reflexivity]. Qed.

Lemma outcomes_nth (lim : limits) (fs : list pred) (bs : list block) :
  forall (i : N) (k : nat),
    nth_error (outcomes lim fs bs i) k =
    option_map (fun b => block_outcome lim fs b (i + N.of_nat k)) (nth_error bs k).
Proof.
  induction bs as [|b bs IH]; intros i k.
  - destruct k; reflexivity.
  - destruct k as [|k]; cbn [outcomes nth_error option_map].
    + rewrite N.add_0_r. reflexivity.
    + rewrite IH. replace (i + 1 + N.of_nat k) with (i + N.of_nat (S k)) by lia. reflexivity.
Qed.

(** C03.6a : replacing one block changes no outcome but that block's.  (No
    hypothesis relating [b] and [b'] is needed: the other outcomes do not depend
    on block k at all, checks included.) *)
Theorem C03_other_blocks_unaffected (lim : limits) (fs : list pred) (pre post : list block)
        (b b' : block) (i : N) :
  outcomes lim fs (pre ++ [b] ++ post) i =
    outcomes lim fs pre i ++ [block_outcome lim fs b (i + lenN pre)]
      ++ outcomes lim fs post (i + lenN pre + 1)
  /\ outcomes lim fs (pre ++ [b'] ++ post) i =
    outcomes lim fs pre i ++ [block_outcome lim fs b' (i + lenN pre)]
      ++ outcomes lim fs post (i + lenN pre + 1).
Proof. split; rewrite outcomes_app; reflexivity. Qed.

Corollary C03_other_blocks_unaffected_nth (lim : limits) (fs : list pred) (pre post : list block)
          (b b' : block) (i : N) (k : nat) :
  k <> length pre ->
  nth_error (outcomes lim fs (pre ++ [b] ++ post) i) k =
  nth_error (outcomes lim fs (pre ++ [b'] ++ post) i) k.
Proof.
  intro Hk. rewrite !outcomes_nth.
  assert (H : nth_error (pre ++ [b] ++ post) k = nth_error (pre ++ [b'] ++ post) k).
  { destruct (Nat.ltb k (length pre)) eqn:Hlt.
    - apply Nat.ltb_lt in Hlt. rewrite !nth_error_app1 by exact Hlt. reflexivity.
    - apply Nat.ltb_ge in Hlt.
      rewrite (nth_error_app2 pre ([b] ++ post) Hlt), (nth_error_app2 pre ([b'] ++ post) Hlt).
      destruct (k - length pre)%nat as [|m] eqn:Hm; [exfalso; lia | reflexivity]. }
  rewrite H. reflexivity.
Qed.

(* a check-free block that runs without error contributes nothing *)
Lemma block_outcome_check_free (lim : limits) (fs : list pred) (b : block) (i : N) :
  b_checks b = [] -> snd (block_world lim fs b) = None -> block_outcome lim fs b i = Ok [].
Proof.
  intros Hc Hw. unfold block_outcome. destruct (block_world lim fs b) as [w [e|]]; cbn [snd] in Hw.
  - discriminate Hw.
  - rewrite Hc. reflexivity.
Qed.

Lemma blocks_phase_replace_check_free (lim : limits) (fs : list pred) (pre post : list block)
      (b b' : block) (i : N) :
  b_checks b = [] -> b_checks b' = [] ->
  snd (block_world lim fs b) = None -> snd (block_world lim fs b') = None ->
  blocks_phase rx lim fs (pre ++ [b] ++ post) i = blocks_phase rx lim fs (pre ++ [b'] ++ post) i.
Proof.
  intros Hc Hc' Hw Hw'. rewrite !blocks_phase_independent.
  destruct (C03_other_blocks_unaffected lim fs pre post b b' i) as [-> ->].
  rewrite !block_outcome_check_free by assumption. reflexivity.
Qed.

(** C03.8 : authority-level facts are in every block's world *)
Theorem C03_authority_visible (lim : limits) (fs : list pred) (b : block) (fs' : list pred) :
  run rx lim (b_rules b) (fold_left insert_fact (b_facts b) fs) = (fs', None) ->
  forall f, In f fs -> In f fs'.
Proof.
  intros H f Hf. apply (run_incl _ _ _ _ _ H). apply insert_all_incl. exact Hf.
Qed.

(* block worlds given explicitly *)
Fixpoint blocks_failed (bs : list block) (ws : list (list pred)) (i : N) : list (origin * N) :=
  match bs, ws with
  | b :: bs', w :: ws' => failed_checks rx (FromBlock i) w (b_checks b) 0 ++ blocks_failed bs' ws' (i + 1)
  | _, _ => []
  end.

Definition block_worlds (lim : limits) (fs : list pred) (bs : list block) (ws : list (list pred)) : Prop :=
  Forall2 (fun b w => block_world lim fs b = (w, None)) bs ws.

Lemma Forall2_len {A B} (R : A -> B -> Prop) (l : list A) (l' : list B) :
  Forall2 R l l' -> length l = length l'.
Proof. intro H. induction H as [|x y l l' Hxy H IH]; cbn [length]; [reflexivity | rewrite IH; reflexivity]. Qed.

Lemma blocks_phase_worlds (lim : limits) (fs : list pred) (bs : list block) (ws : list (list pred)) :
  block_worlds lim fs bs ws -> forall i, blocks_phase rx lim fs bs i = Ok (blocks_failed bs ws i).
Proof.
  intro H. induction H as [|b w bs ws Hb H IH]; intros i; [reflexivity|].
  rewrite blocks_phase_cons. unfold block_outcome. rewrite Hb, IH. reflexivity.
Qed.

Lemma blocks_failed_nil (bs : list block) :
  forall (ws : list (list pred)) (i : N), length bs = length ws ->
    (blocks_failed bs ws i = [] <-> Forall2 (fun b w => checks_ok w (b_checks b) = true) bs ws).
Proof.
  induction bs as [|b bs IH]; intros [|w ws] i Hl; try discriminate Hl; cbn [blocks_failed].
  - split; intro H; [constructor | reflexivity].
  - injection Hl as Hl. split; intro H.
    + apply app_eq_nil in H. destruct H as [H1 H2]. constructor.
      * apply (failed_checks_nil (FromBlock i) w (b_checks b) 0). exact H1.
      * apply (IH ws (i + 1) Hl). exact H2.
    + inversion H as [|b0 w0 bs0 ws0 H1 H2]; subst.
      apply (failed_checks_nil (FromBlock i) _ _ 0) in H1. apply (IH ws (i + 1) Hl) in H2.
      rewrite H1, H2. reflexivity.
Qed.

Lemma blocks_phase_err_in (lim : limits) (fs : list pred) (bs : list block) :
  forall (i : N) (b : block) (e : err), In b bs -> snd (block_world lim fs b) = Some e ->
    exists e', blocks_phase rx lim fs bs i = Err e'.
Proof.
  induction bs as [|b0 bs IH]; intros i b e Hin He; [destruct Hin|].
  rewrite blocks_phase_cons. destruct (block_outcome lim fs b0 i) as [l|e0|s] eqn:Ho; cbn [bind].
  - destruct Hin as [<-|Hin].
    + assert (Hn : snd (block_world lim fs b0) = None) by (apply (block_outcome_ok lim fs b0 i); eauto).
      congruence.
    + destruct (IH (i + 1) b e Hin He) as [e' ->]. exists e'. reflexivity.
  - exists e0. reflexivity.
  - exfalso. exact (block_outcome_no_panic _ _ _ _ _ Ho).
Qed.

Lemma blocks_phase_first_err (lim : limits) (fs : list pred) (pre post : list block) (b : block)
      (e : err) (i : N) :
  Forall (fun b0 => snd (block_world lim fs b0) = None) pre ->
  snd (block_world lim fs b) = Some e ->
  blocks_phase rx lim fs (pre ++ b :: post) i = Err e.
Proof.
  intros Hpre He. rewrite blocks_phase_independent, outcomes_app. cbn [outcomes].
  apply (block_outcome_err lim fs b (i + lenN pre)) in He. rewrite He.
  apply combine_first_err. clear He. revert i.
  induction Hpre as [|b0 pre Hb0 Hpre IH]; intros i; cbn [outcomes]; constructor.
  - apply (block_outcome_ok lim fs b0 i). exact Hb0.
  - apply IH.
Qed.

Lemma blocks_phase_ok_all (lim : limits) (fs : list pred) (bs : list block) :
  forall (i : N) (l : list (origin * N)), blocks_phase rx lim fs bs i = Ok l ->
    Forall (fun b => snd (block_world lim fs b) = None) bs.
Proof.
  induction bs as [|b bs IH]; intros i l H; constructor.
  - rewrite blocks_phase_cons in H. apply (block_outcome_ok lim fs b i).
    destruct (block_outcome lim fs b i) as [l0|e|s]; [eauto | discriminate H | discriminate H].
  - rewrite blocks_phase_cons in H. destruct (block_outcome lim fs b i) as [l0|e|s]; try discriminate H.
    cbn [bind] in H. destruct (blocks_phase rx lim fs bs (i + 1)) as [l1|e|s] eqn:H1; try discriminate H.
    exact (IH _ _ H1).
Qed.

(* ------------------------------------------------------------------ *)
(** * authorize, factored through the authority phase *)

Definition auth_world (auth : block) (a : astate) : list pred * option err :=
  run rx (a_limits a) (a_rules a ++ b_rules auth) (fold_left insert_fact (b_facts auth) (a_facts a)).

Definition mk_state (a : astate) (fs : list pred) (rs : list rule) : astate :=
  {| a_facts := fs; a_rules := rs; a_checks := a_checks a; a_policies := a_policies a;
     a_dirty := true; a_limits := a_limits a |}.

Definition policy_verdict (p : option pkind) : verdict :=
  match p with Some Allow => VSuccess | Some Deny => VPolicyDenied | None => VNoMatchingPolicy end.

Definition verdict_of (errs : list (origin * N)) (pol : option pkind) : verdict :=
  match errs with [] => policy_verdict pol | _ :: _ => VChecksFailed errs end.

(* everything authorize computes before looking at a later block *)
Definition authority_phase (auth : block) (a : astate)
  : (list pred * option err) * list (origin * N) * list (origin * N) * option pkind :=
  let w := auth_world auth a in
  (w,
   failed_checks rx FromAuthorizer (fst w) (a_checks a) 0,
   failed_checks rx (FromBlock 0) (fst w) (b_checks auth) 0,
   policy_result rx (fst w) (a_policies a)).

(* the rest of authorize: a function of the authority phase and the later blocks *)
Definition authz_finish (a : astate) (rules0 : list rule)
           (ph : (list pred * option err) * list (origin * N) * list (origin * N) * option pkind)
           (bs : list block) : astate * verdict :=
  match ph with
  | (fs, Some e, _, _, _) => (mk_state a fs rules0, VRunError e)
  | (fs, None, errs1, errs2, pol) =>
      (mk_state a fs [],
       match blocks_phase rx (a_limits a) fs bs 1 with
       | Err e => VRunError e
       | Panic _ => VRunError EOther
       | Ok errs3 => verdict_of (errs1 ++ errs2 ++ errs3) pol
       end)
  end.

Lemma authorize_factors (tok : list block) (a : astate) :
  authorize rx tok a =
  authz_finish a (a_rules a ++ b_rules (hd empty_block tok))
               (authority_phase (hd empty_block tok) a) (tl tok).
Proof.
  unfold authorize, authz_finish, authority_phase, auth_world, mk_state, empty_block.
  cbv zeta.
  destruct (run rx (a_limits a) (a_rules a ++ b_rules (hd _ tok))
                (fold_left insert_fact (b_facts (hd _ tok)) (a_facts a))) as [fs [e|]];
    cbn [fst]; [reflexivity|].
  destruct (blocks_phase rx (a_limits a) fs (tl tok) 1) as [errs3|e|s]; reflexivity.
Qed.

(** C03.5 : the authority phase does not see the later blocks: [authorize]
    is [authz_finish] of an [authority_phase] that has no [bs] argument. *)
Theorem C03_authority_phase_blind (auth : block) (bs bs' : list block) (a : astate) :
  authorize rx (auth :: bs) a =
    authz_finish a (a_rules a ++ b_rules auth) (authority_phase auth a) bs
  /\ authorize rx (auth :: bs') a =
    authz_finish a (a_rules a ++ b_rules auth) (authority_phase auth a) bs'.
Proof. split; apply authorize_factors. Qed.

(* working form *)
Lemma authorize_cons (auth : block) (bs : list block) (a : astate) :
  authorize rx (auth :: bs) a =
  match auth_world auth a with
  | (fs, Some e) => (mk_state a fs (a_rules a ++ b_rules auth), VRunError e)
  | (fs, None) =>
      (mk_state a fs [],
       match blocks_phase rx (a_limits a) fs bs 1 with
       | Err e => VRunError e
       | Panic _ => VRunError EOther
       | Ok errs3 =>
           verdict_of (failed_checks rx FromAuthorizer fs (a_checks a) 0 ++
                       failed_checks rx (FromBlock 0) fs (b_checks auth) 0 ++ errs3)
                      (policy_result rx fs (a_policies a))
       end)
  end.
Proof.
  rewrite authorize_factors. cbn [hd tl]. unfold authz_finish, authority_phase.
  destruct (auth_world auth a) as [fs [e|]]; reflexivity.
Qed.

(** C03.7 : the state left by authorize does not depend on the later blocks *)
Theorem authorize_state_blind (auth : block) (bs bs' : list block) (a : astate) :
  fst (authorize rx (auth :: bs) a) = fst (authorize rx (auth :: bs') a).
Proof. rewrite !authorize_cons. destruct (auth_world auth a) as [fs [e|]]; reflexivity. Qed.

Theorem C03_queries_blind (auth : block) (bs bs' : list block) (a : astate) (q : rule) :
  query rx (fst (authorize rx (auth :: bs) a)) q = query rx (fst (authorize rx (auth :: bs') a)) q.
Proof. rewrite (authorize_state_blind auth bs bs' a). reflexivity. Qed.

Corollary C03_queries_blind_result (auth : block) (bs bs' : list block) (a : astate) (q : rule) :
  snd (query rx (fst (authorize rx (auth :: bs) a)) q) =
  snd (query rx (fst (authorize rx (auth :: bs') a)) q).
Proof. rewrite (C03_queries_blind auth bs bs' a q). reflexivity. Qed.

(** C03.6b *)
Theorem C03_block_facts_local (auth : block) (pre post : list block) (b b' : block) (a : astate) :
  b_checks b = [] -> b_checks b' = [] ->
  snd (block_world (a_limits a) (fst (auth_world auth a)) b) = None ->
  snd (block_world (a_limits a) (fst (auth_world auth a)) b') = None ->
  authorize rx (auth :: pre ++ [b] ++ post) a = authorize rx (auth :: pre ++ [b'] ++ post) a.
Proof.
  intros Hc Hc' Hw Hw'. rewrite !authorize_cons.
  destruct (auth_world auth a) as [fs [e|]]; [reflexivity|]. cbn [fst] in Hw, Hw'.
  rewrite (blocks_phase_replace_check_free (a_limits a) fs pre post b b' 1 Hc Hc' Hw Hw').
  reflexivity.
Qed.

Corollary C03_block_facts_local_verdict (auth : block) (pre post : list block) (b b' : block)
          (a : astate) (l l' : list (origin * N)) :
  b_checks b = [] -> b_checks b' = [] ->
  block_outcome (a_limits a) (fst (auth_world auth a)) b (1 + lenN pre) = Ok l ->
  block_outcome (a_limits a) (fst (auth_world auth a)) b' (1 + lenN pre) = Ok l' ->
  snd (authorize rx (auth :: pre ++ [b] ++ post) a) = snd (authorize rx (auth :: pre ++ [b'] ++ post) a).
Proof.
  intros Hc Hc' Ho Ho'. rewrite (C03_block_facts_local auth pre post b b' a); auto.
  - apply (block_outcome_ok _ _ b (1 + lenN pre)). eauto.
  - apply (block_outcome_ok _ _ b' (1 + lenN pre)). eauto.
Qed.

(** C03.6c : inserting (rather than replacing) a check-free block: the verdict
    is the same up to the renumbering of the later blocks in the failed-check
    list. *)
Definition bump_origin (p : origin * N) : origin * N :=
  match fst p with FromBlock j => (FromBlock (j + 1), snd p) | FromAuthorizer => p end.

Definition shift_origin (k : N) (p : origin * N) : origin * N :=
  match fst p with
  | FromBlock j => if k <=? j then (FromBlock (j + 1), snd p) else p
  | FromAuthorizer => p
  end.

Definition shift_verdict (k : N) (v : verdict) : verdict :=
  match v with VChecksFailed l => VChecksFailed (map (shift_origin k) l) | _ => v end.

Definition map_res {A B} (f : A -> B) (r : res A) : res B :=
  match r with Ok x => Ok (f x) | Err e => Err e | Panic s => Panic s end.

Lemma block_outcome_origin (lim : limits) (fs : list pred) (b : block) (i : N)
      (l : list (origin * N)) :
  block_outcome lim fs b i = Ok l -> forall p, In p l -> fst p = FromBlock i.
Proof.
  unfold block_outcome. destruct (block_world lim fs b) as [w [e|]]; intro H; [discriminate H|].
  inversion H; subst. intros p Hp. exact (failed_checks_origin _ _ _ _ _ Hp).
Qed.

Lemma block_outcome_bump (lim : limits) (fs : list pred) (b : block) (i : N) :
  block_outcome lim fs b (i + 1) = map_res (map bump_origin) (block_outcome lim fs b i).
Proof.
  unfold block_outcome. destruct (block_world lim fs b) as [w [e|]]; cbn [map_res]; [reflexivity|].
  f_equal. rewrite (failed_checks_relabel (FromBlock i) (FromBlock (i + 1))).
  apply map_ext_in. intros p Hp. apply failed_checks_origin in Hp.
  unfold bump_origin. rewrite Hp. reflexivity.
Qed.

Lemma blocks_phase_bump (lim : limits) (fs : list pred) (bs : list block) :
  forall i : N,
    blocks_phase rx lim fs bs (i + 1) = map_res (map bump_origin) (blocks_phase rx lim fs bs i).
Proof.
  induction bs as [|b bs IH]; intros i; [reflexivity|].
  rewrite !blocks_phase_cons, block_outcome_bump, IH.
  destruct (block_outcome lim fs b i) as [l|e|s]; cbn [map_res bind]; try reflexivity.
  destruct (blocks_phase rx lim fs bs (i + 1)) as [l1|e|s]; cbn [map_res bind]; try reflexivity.
  rewrite map_app. reflexivity.
Qed.

Lemma blocks_phase_origins (lim : limits) (fs : list pred) (bs : list block) :
  forall (i : N) (l : list (origin * N)), blocks_phase rx lim fs bs i = Ok l ->
    forall p, In p l -> exists j, fst p = FromBlock j /\ i <= j /\ j < i + lenN bs.
Proof.
  induction bs as [|b bs IH]; intros i l H p Hp.
  - cbn [blocks_phase] in H. inversion H; subst. destruct Hp.
  - rewrite blocks_phase_cons in H.
    destruct (block_outcome lim fs b i) as [l0|e|s] eqn:Ho; cbn [bind] in H; try discriminate H.
    destruct (blocks_phase rx lim fs bs (i + 1)) as [l1|e|s] eqn:Hr; cbn [bind] in H; try discriminate H.
    inversion H; subst. apply in_app_or in Hp. destruct Hp as [Hp|Hp].
    + exists i. split; [exact (block_outcome_origin _ _ _ _ _ Ho p Hp)|]. cbn [lenN]. lia.
    + destruct (IH _ _ Hr p Hp) as [j [Hj [H1 H2]]]. exists j. split; [exact Hj|]. cbn [lenN]. lia.
Qed.

Lemma map_id_in {A} (f : A -> A) (l : list A) : (forall x, In x l -> f x = x) -> map f l = l.
Proof.
  intro H. induction l as [|x l IH]; cbn [map]; [reflexivity|].
  rewrite (H x (or_introl eq_refl)), IH; [reflexivity|]. intros y Hy. apply H. right. exact Hy.
Qed.

Lemma shift_verdict_of (k : N) (errs : list (origin * N)) (pol : option pkind) :
  shift_verdict k (verdict_of errs pol) = verdict_of (map (shift_origin k) errs) pol.
Proof. destruct errs as [|x l]; [destruct pol as [[|]|]|]; reflexivity. Qed.

Theorem C03_block_insert_renumber (auth : block) (pre post : list block) (b : block) (a : astate) :
  b_checks b = [] ->
  snd (block_world (a_limits a) (fst (auth_world auth a)) b) = None ->
  snd (authorize rx (auth :: pre ++ [b] ++ post) a) =
  shift_verdict (1 + lenN pre) (snd (authorize rx (auth :: pre ++ post) a)).
Proof.
  intros Hc Hw. rewrite !authorize_cons.
  destruct (auth_world auth a) as [fs [e|]]; [reflexivity|]. cbn [fst snd] in *.
  rewrite (blocks_phase_app_eq _ _ pre ([b] ++ post)), (blocks_phase_app_eq _ _ pre post).
  cbn [app]. rewrite (blocks_phase_cons _ _ b post).
  rewrite (block_outcome_check_free _ _ _ _ Hc Hw). cbn [bind]. rewrite blocks_phase_bump.
  destruct (blocks_phase rx (a_limits a) fs pre 1) as [l1|e|s] eqn:H1; cbn [bind]; try reflexivity.
  destruct (blocks_phase rx (a_limits a) fs post (1 + lenN pre)) as [l2|e|s] eqn:H2;
    cbn [bind map_res app]; try reflexivity.
  rewrite shift_verdict_of, !map_app. f_equal.
  rewrite (map_id_in (shift_origin (1 + lenN pre)) (failed_checks rx FromAuthorizer fs (a_checks a) 0)).
  2:{ intros p Hp. apply failed_checks_origin in Hp. unfold shift_origin. rewrite Hp. reflexivity. }
  rewrite (map_id_in (shift_origin (1 + lenN pre)) (failed_checks rx (FromBlock 0) fs (b_checks auth) 0)).
  2:{ intros p Hp. apply failed_checks_origin in Hp. unfold shift_origin. rewrite Hp.
      replace (1 + lenN pre <=? 0) with false; [reflexivity|]. symmetry. apply N.leb_gt. lia. }
  rewrite (map_id_in (shift_origin (1 + lenN pre)) l1).
  2:{ intros p Hp. destruct (blocks_phase_origins _ _ _ _ _ H1 p Hp) as [j [Hj [Ha Hb]]].
      unfold shift_origin. rewrite Hj.
      replace (1 + lenN pre <=? j) with false; [reflexivity|]. symmetry. apply N.leb_gt. exact Hb. }
  do 3 f_equal. apply map_ext_in. intros p Hp.
  destruct (blocks_phase_origins _ _ _ _ _ H2 p Hp) as [j [Hj [Ha Hb]]].
  unfold shift_origin, bump_origin. rewrite Hj.
  replace (1 + lenN pre <=? j) with true; [reflexivity|]. symmetry. apply N.leb_le. exact Ha.
Qed.

(* ------------------------------------------------------------------ *)
(** * C02 : appending a block *)

(* what one more block does to a verdict *)
Definition extend_verdict (v : verdict) (out : res (list (origin * N))) : verdict :=
  match v with
  | VRunError e => VRunError e
  | VChecksFailed l =>
      match out with
      | Ok l' => VChecksFailed (l ++ l')
      | Err e => VRunError e
      | Panic _ => VRunError EOther
      end
  | _ =>
      match out with
      | Ok [] => v
      | Ok (x :: l') => VChecksFailed (x :: l')
      | Err e => VRunError e
      | Panic _ => VRunError EOther
      end
  end.

Lemma verdict_of_app (E l' : list (origin * N)) (pol : option pkind) :
  verdict_of (E ++ l') pol = extend_verdict (verdict_of E pol) (Ok l').
Proof.
  destruct E as [|x E]; cbn [app verdict_of].
  - destruct pol as [[|]|]; destruct l' as [|y l']; reflexivity.
  - reflexivity.
Qed.

Lemma verdict_of_err (E : list (origin * N)) (pol : option pkind) (e : err) :
  VRunError e = extend_verdict (verdict_of E pol) (Err e).
Proof. destruct E as [|x E]; [destruct pol as [[|]|]|]; reflexivity. Qed.

Lemma verdict_of_panic (E : list (origin * N)) (pol : option pkind) (s : N) :
  VRunError EOther = extend_verdict (verdict_of E pol) (Panic s).
Proof. destruct E as [|x E]; [destruct pol as [[|]|]|]; reflexivity. Qed.

(** the exact effect of one appended block *)
Theorem authorize_extend (auth : block) (bs : list block) (B : block) (a : astate) :
  snd (authorize rx ((auth :: bs) ++ [B]) a) =
  extend_verdict (snd (authorize rx (auth :: bs) a))
                 (block_outcome (a_limits a) (fst (auth_world auth a)) B (1 + lenN bs)).
Proof.
  rewrite <- app_comm_cons. rewrite !authorize_cons.
  destruct (auth_world auth a) as [fs [e|]]; cbn [fst snd]; [reflexivity|].
  rewrite blocks_phase_snoc.
  destruct (blocks_phase rx (a_limits a) fs bs 1) as [e1|e|s]; cbn [bind]; try reflexivity.
  destruct (block_outcome (a_limits a) fs B (1 + lenN bs)) as [l'|e|s]; cbn [bind].
  - rewrite <- verdict_of_app. rewrite <- !app_assoc. reflexivity.
  - apply verdict_of_err.
  - apply verdict_of_panic.
Qed.

Corollary authorize_extend_tok (T : list block) (B : block) (a : astate) :
  T <> [] ->
  snd (authorize rx (T ++ [B]) a) =
  extend_verdict (snd (authorize rx T a))
                 (block_outcome (a_limits a) (fst (auth_world (hd empty_block T) a)) B (lenN T)).
Proof.
  destruct T as [|auth bs]; intro HT; [congruence|]. cbn [hd lenN]. apply authorize_extend.
Qed.

Lemma extend_verdict_success (v : verdict) (out : res (list (origin * N))) :
  extend_verdict v out = VSuccess -> v = VSuccess.
Proof.
  destruct v as [| | |l|e]; destruct out as [[|x l']|e'|s]; cbn [extend_verdict]; intro H;
    try discriminate H; reflexivity.
Qed.

(** C02.2 *)
Theorem C02_monotone (T : list block) (B : block) (a : astate) :
  T <> [] -> snd (authorize rx (T ++ [B]) a) = VSuccess -> snd (authorize rx T a) = VSuccess.
Proof.
  intros HT H. rewrite (authorize_extend_tok T B a HT) in H. exact (extend_verdict_success _ _ H).
Qed.

(** C02.3 *)
Theorem C02_no_content_helps (T : list block) (B : block) (a : astate) :
  T <> [] -> snd (authorize rx T a) <> VSuccess -> snd (authorize rx (T ++ [B]) a) <> VSuccess.
Proof. intros HT Hn H. apply Hn. exact (C02_monotone T B a HT H). Qed.

(** the structural fact, in disjunctive form *)
Theorem authorize_prefix (T : list block) (B : block) (a : astate) :
  T <> [] ->
  match snd (authorize rx T a) with
  | VRunError e => snd (authorize rx (T ++ [B]) a) = VRunError e
  | VChecksFailed l =>
      (exists l', snd (authorize rx (T ++ [B]) a) = VChecksFailed (l ++ l')) \/
      (exists e, snd (authorize rx (T ++ [B]) a) = VRunError e)
  | v =>
      snd (authorize rx (T ++ [B]) a) = v \/
      (exists l', l' <> [] /\ snd (authorize rx (T ++ [B]) a) = VChecksFailed l') \/
      (exists e, snd (authorize rx (T ++ [B]) a) = VRunError e)
  end.
Proof.
  intro HT. rewrite (authorize_extend_tok T B a HT).
  destruct (snd (authorize rx T a)) as [| | |l|e];
    destruct (block_outcome (a_limits a) (fst (auth_world (hd empty_block T) a)) B (lenN T))
      as [[|x l']|e'|s]; cbn [extend_verdict]; eauto;
    right; left; exists (x :: l'); (split; [discriminate | reflexivity]).
Qed.

(* a verdict of T that is not success stays "not success"; a checks-failed
   list is only ever extended, a run error is final *)
Corollary authorize_prefix_checks_failed (T : list block) (B : block) (a : astate)
          (l : list (origin * N)) :
  T <> [] -> snd (authorize rx T a) = VChecksFailed l ->
  (exists l', snd (authorize rx (T ++ [B]) a) = VChecksFailed (l ++ l')) \/
  (exists e, snd (authorize rx (T ++ [B]) a) = VRunError e).
Proof. intros HT H. pose proof (authorize_prefix T B a HT) as P. rewrite H in P. exact P. Qed.

Corollary authorize_prefix_run_error (T : list block) (B : block) (a : astate) (e : err) :
  T <> [] -> snd (authorize rx T a) = VRunError e -> snd (authorize rx (T ++ [B]) a) = VRunError e.
Proof. intros HT H. pose proof (authorize_prefix T B a HT) as P. rewrite H in P. exact P. Qed.

(* ------------------------------------------------------------------ *)
(** * C04 : the verdict as an explicit function of the check and policy results *)

Definition all_failed (auth : block) (bs : list block) (a : astate) (fs : list pred)
           (ws : list (list pred)) : list (origin * N) :=
  failed_checks rx FromAuthorizer fs (a_checks a) 0 ++
  failed_checks rx (FromBlock 0) fs (b_checks auth) 0 ++
  blocks_failed bs ws 1.

Definition all_checks_ok (auth : block) (bs : list block) (a : astate) (fs : list pred)
           (ws : list (list pred)) : Prop :=
  checks_ok fs (a_checks a) = true /\ checks_ok fs (b_checks auth) = true /\
  Forall2 (fun b w => checks_ok w (b_checks b) = true) bs ws.

(** C04.10 *)
Theorem C04_verdict_structure (auth : block) (bs : list block) (a : astate) (fs : list pred)
        (ws : list (list pred)) :
  auth_world auth a = (fs, None) -> block_worlds (a_limits a) fs bs ws ->
  snd (authorize rx (auth :: bs) a) =
  match all_failed auth bs a fs ws with
  | [] => match policy_result rx fs (a_policies a) with
          | Some Allow => VSuccess
          | Some Deny => VPolicyDenied
          | None => VNoMatchingPolicy
          end
  | l => VChecksFailed l
  end.
Proof.
  intros Hw Hb. rewrite authorize_cons, Hw. cbn [snd].
  rewrite (blocks_phase_worlds _ _ _ _ Hb 1). unfold all_failed, verdict_of.
  destruct (failed_checks rx FromAuthorizer fs (a_checks a) 0 ++
            failed_checks rx (FromBlock 0) fs (b_checks auth) 0 ++ blocks_failed bs ws 1);
    reflexivity.
Qed.

Lemma all_failed_nil (auth : block) (bs : list block) (a : astate) (fs : list pred)
      (ws : list (list pred)) :
  length bs = length ws ->
  (all_failed auth bs a fs ws = [] <-> all_checks_ok auth bs a fs ws).
Proof.
  intro Hl. unfold all_failed, all_checks_ok.
  rewrite <- (failed_checks_nil FromAuthorizer fs (a_checks a) 0).
  rewrite <- (failed_checks_nil (FromBlock 0) fs (b_checks auth) 0).
  rewrite <- (blocks_failed_nil bs ws 1 Hl). split.
  - intro H. apply app_eq_nil in H. destruct H as [H1 H]. apply app_eq_nil in H. tauto.
  - intros [H1 [H2 H3]]. rewrite H1, H2, H3. reflexivity.
Qed.

(** C04.11 *)
Theorem C04_precedence (auth : block) (bs : list block) (a : astate) (fs : list pred)
        (ws : list (list pred)) :
  auth_world auth a = (fs, None) -> block_worlds (a_limits a) fs bs ws ->
  all_failed auth bs a fs ws <> [] ->
  snd (authorize rx (auth :: bs) a) = VChecksFailed (all_failed auth bs a fs ws).
Proof.
  intros Hw Hb Hne. rewrite (C04_verdict_structure auth bs a fs ws Hw Hb).
  destruct (all_failed auth bs a fs ws); [congruence | reflexivity].
Qed.

Theorem C04_decision (auth : block) (bs : list block) (a : astate) (fs : list pred)
        (ws : list (list pred)) :
  auth_world auth a = (fs, None) -> block_worlds (a_limits a) fs bs ws ->
  (all_checks_ok auth bs a fs ws ->
   snd (authorize rx (auth :: bs) a) = policy_verdict (policy_result rx fs (a_policies a))) /\
  (~ all_checks_ok auth bs a fs ws ->
   exists l, l <> [] /\ snd (authorize rx (auth :: bs) a) = VChecksFailed l).
Proof.
  intros Hw Hb. rewrite (C04_verdict_structure auth bs a fs ws Hw Hb).
  assert (Hl : length bs = length ws) by (exact (Forall2_len _ _ _ Hb)).
  pose proof (all_failed_nil auth bs a fs ws Hl) as Hiff.
  destruct (all_failed auth bs a fs ws) as [|x l]; split; intro H.
  - reflexivity.
  - exfalso. apply H. apply Hiff. reflexivity.
  - apply Hiff in H. discriminate H.
  - exists (x :: l). split; [discriminate | reflexivity].
Qed.

Lemma authorize_verdict_of (auth : block) (bs : list block) (a : astate) (fs : list pred)
      (ws : list (list pred)) :
  auth_world auth a = (fs, None) -> block_worlds (a_limits a) fs bs ws ->
  snd (authorize rx (auth :: bs) a) =
  verdict_of (all_failed auth bs a fs ws) (policy_result rx fs (a_policies a)).
Proof.
  intros Hw Hb. rewrite authorize_cons, Hw. cbn [snd].
  rewrite (blocks_phase_worlds _ _ _ _ Hb 1). reflexivity.
Qed.

Lemma verdict_of_policy (errs : list (origin * N)) (pol k : option pkind) :
  verdict_of errs pol = policy_verdict k <-> errs = [] /\ pol = k.
Proof.
  destruct errs as [|x l]; cbn [verdict_of].
  - destruct pol as [[|]|]; destruct k as [[|]|]; cbn [policy_verdict]; split; intro H;
      first [discriminate H | split; reflexivity | reflexivity | (destruct H as [_ H]; discriminate H)].
  - destruct k as [[|]|]; cbn [policy_verdict]; split; intro H;
      first [discriminate H | (destruct H as [H _]; discriminate H)].
Qed.

(* policy outcomes are reported exactly when every check holds *)
Theorem C04_policy_verdict_iff (auth : block) (bs : list block) (a : astate) (fs : list pred)
        (ws : list (list pred)) (k : option pkind) :
  auth_world auth a = (fs, None) -> block_worlds (a_limits a) fs bs ws ->
  (snd (authorize rx (auth :: bs) a) = policy_verdict k <->
   all_checks_ok auth bs a fs ws /\ policy_result rx fs (a_policies a) = k).
Proof.
  intros Hw Hb. rewrite (authorize_verdict_of auth bs a fs ws Hw Hb), verdict_of_policy.
  rewrite (all_failed_nil auth bs a fs ws (Forall2_len _ _ _ Hb)). reflexivity.
Qed.

Theorem C04_success_iff (auth : block) (bs : list block) (a : astate) (fs : list pred)
        (ws : list (list pred)) :
  auth_world auth a = (fs, None) -> block_worlds (a_limits a) fs bs ws ->
  (snd (authorize rx (auth :: bs) a) = VSuccess <->
   all_checks_ok auth bs a fs ws /\ policy_result rx fs (a_policies a) = Some Allow).
Proof. exact (C04_policy_verdict_iff auth bs a fs ws (Some Allow)). Qed.

Theorem C04_denied_iff (auth : block) (bs : list block) (a : astate) (fs : list pred)
        (ws : list (list pred)) :
  auth_world auth a = (fs, None) -> block_worlds (a_limits a) fs bs ws ->
  (snd (authorize rx (auth :: bs) a) = VPolicyDenied <->
   all_checks_ok auth bs a fs ws /\ policy_result rx fs (a_policies a) = Some Deny).
Proof. exact (C04_policy_verdict_iff auth bs a fs ws (Some Deny)). Qed.

Theorem C04_no_matching_iff (auth : block) (bs : list block) (a : astate) (fs : list pred)
        (ws : list (list pred)) :
  auth_world auth a = (fs, None) -> block_worlds (a_limits a) fs bs ws ->
  (snd (authorize rx (auth :: bs) a) = VNoMatchingPolicy <->
   all_checks_ok auth bs a fs ws /\ policy_result rx fs (a_policies a) = None).
Proof. exact (C04_policy_verdict_iff auth bs a fs ws None). Qed.

(** C04.12 : run errors *)
Theorem C04_run_error_authority (auth : block) (bs : list block) (a : astate) (fs : list pred)
        (e : err) :
  auth_world auth a = (fs, Some e) -> snd (authorize rx (auth :: bs) a) = VRunError e.
Proof. intro Hw. rewrite authorize_cons, Hw. reflexivity. Qed.

Theorem C04_run_error_block (auth : block) (pre post : list block) (b : block) (a : astate)
        (fs : list pred) (e : err) :
  auth_world auth a = (fs, None) ->
  Forall (fun b0 => snd (block_world (a_limits a) fs b0) = None) pre ->
  snd (block_world (a_limits a) fs b) = Some e ->
  snd (authorize rx (auth :: pre ++ b :: post) a) = VRunError e.
Proof.
  intros Hw Hpre He. rewrite authorize_cons, Hw. cbn [snd].
  rewrite (blocks_phase_first_err (a_limits a) fs pre post b e 1 Hpre He). reflexivity.
Qed.

(* any run inside authorize that errs makes the verdict a run error *)
Theorem C04_run_error_wins (auth : block) (bs : list block) (a : astate) :
  (exists e, snd (auth_world auth a) = Some e) \/
  (exists b e, In b bs /\ snd (block_world (a_limits a) (fst (auth_world auth a)) b) = Some e) ->
  exists e', snd (authorize rx (auth :: bs) a) = VRunError e'.
Proof.
  intro H. rewrite authorize_cons. destruct (auth_world auth a) as [fs [e0|]]; cbn [fst snd] in *.
  - exists e0. reflexivity.
  - destruct H as [[e H]|[b [e [Hin He]]]]; [discriminate H|].
    destruct (blocks_phase_err_in (a_limits a) fs bs 1 b e Hin He) as [e' ->].
    exists e'. reflexivity.
Qed.

Corollary C11_authorize_fails_on_limit (auth : block) (bs : list block) (a : astate) :
  (exists e, snd (auth_world auth a) = Some e) \/
  (exists b e, In b bs /\ snd (block_world (a_limits a) (fst (auth_world auth a)) b) = Some e) ->
  snd (authorize rx (auth :: bs) a) <> VSuccess.
Proof. intro H. destruct (C04_run_error_wins auth bs a H) as [e' ->]. discriminate. Qed.

(* conversely: success means every run inside authorize ended without error *)
Theorem authorize_success_runs_ok (auth : block) (bs : list block) (a : astate) :
  snd (authorize rx (auth :: bs) a) = VSuccess ->
  snd (auth_world auth a) = None /\
  Forall (fun b => snd (block_world (a_limits a) (fst (auth_world auth a)) b) = None) bs.
Proof.
  rewrite authorize_cons. destruct (auth_world auth a) as [fs [e0|]]; cbn [fst snd]; intro H.
  - discriminate H.
  - split; [reflexivity|].
    destruct (blocks_phase rx (a_limits a) fs bs 1) as [l|e|s] eqn:Hb; try discriminate H.
    exact (blocks_phase_ok_all _ _ _ _ _ Hb).
Qed.

(* ------------------------------------------------------------------ *)
(** * C13 : histories and Reset *)

Notation astep := (astep rx).
Notation aobserve := (aobserve rx).
Notation atrace := (atrace rx).

Lemma authorize_limits (tok : list block) (a : astate) :
  a_limits (fst (authorize rx tok a)) = a_limits a.
Proof.
  rewrite authorize_factors. unfold authz_finish.
  destruct (authority_phase (hd empty_block tok) a) as [[[[fs [e|]] errs1] errs2] pol]; reflexivity.
Qed.

Lemma query_limits (a : astate) (q : rule) : a_limits (fst (query rx a q)) = a_limits a.
Proof.
  unfold query. destruct (run rx (a_limits a) (a_rules a) (a_facts a)) as [fs [e|]]; reflexivity.
Qed.

Lemma astep_limits (tok : list block) (a : astate) (o : aop) : a_limits (astep tok a o) = a_limits a.
Proof.
  destruct o as [f|r|c|p| |q| ]; cbn [astep]; try reflexivity.
  - apply authorize_limits.
  - apply query_limits.
Qed.

Theorem limits_invariant (tok : list block) (ops : list aop) :
  forall a : astate, a_limits (fold_left (astep tok) ops a) = a_limits a.
Proof.
  induction ops as [|o ops IH]; intro a; cbn [fold_left]; [reflexivity|].
  rewrite IH. apply astep_limits.
Qed.

Theorem C13_reset_fresh (tok : list block) (ops : list aop) (lim : limits) :
  reset (fold_left (astep tok) ops (fresh lim)) = fresh lim.
Proof. unfold reset. rewrite limits_invariant. reflexivity. Qed.

Corollary C13_rounds (tok : list block) (ops1 ops2 : list aop) (lim : limits) :
  fold_left (astep tok) ops2 (reset (fold_left (astep tok) ops1 (fresh lim))) =
  fold_left (astep tok) ops2 (fresh lim).
Proof. rewrite C13_reset_fresh. reflexivity. Qed.

Corollary C13_rounds_outputs (tok : list block) (ops1 ops2 : list aop) (lim : limits) :
  atrace tok ops2 (reset (fold_left (astep tok) ops1 (fresh lim))) = atrace tok ops2 (fresh lim).
Proof. rewrite C13_reset_fresh. reflexivity. Qed.

Corollary C13_later_observation (tok : list block) (ops1 ops2 : list aop) (lim : limits) (o : aop) :
  aobserve tok (fold_left (astep tok) ops2 (reset (fold_left (astep tok) ops1 (fresh lim)))) o =
  aobserve tok (fold_left (astep tok) ops2 (fresh lim)) o.
Proof. rewrite C13_rounds. reflexivity. Qed.

(* Reset in the middle of a history: everything before it is forgotten *)
Corollary C13_history_cut (tok : list block) (ops1 ops2 : list aop) (lim : limits) :
  fold_left (astep tok) (ops1 ++ OReset :: ops2) (fresh lim) = fold_left (astep tok) ops2 (fresh lim).
Proof.
  rewrite fold_left_app. cbn [fold_left astep]. apply C13_rounds.
Qed.

End AuthzProofs.

(* ------------------------------------------------------------------ *)
(** * Non-vacuity: concrete tokens and authorizers (all by vm_compute) *)

Definition rx0 : bytes -> bytes -> option bool := fun _ _ => None.
Definition lim0 : limits := {| max_facts := 1000; max_iterations := 100 |}.

Definition s_right : bytes := [114; 105; 103; 104; 116].
Definition s_file1 : bytes := [102; 105; 108; 101; 49].
Definition s_file2 : bytes := [102; 105; 108; 101; 50].
Definition s_read : bytes := [114; 101; 97; 100].
Definition s_write : bytes := [119; 114; 105; 116; 101].
Definition s_query : bytes := [113; 117; 101; 114; 121].
Definition s_operation : bytes := [111; 112; 101; 114; 97; 116; 105; 111; 110].
Definition s_x : bytes := [120].

Definition right_fact (f op : bytes) : pred :=
  {| p_name := s_right; p_terms := [TA (AStr f); TA (AStr op)] |}.
Definition op_fact (o : bytes) : pred := {| p_name := s_operation; p_terms := [TA (AStr o)] |}.
Definition q_of (body : list pred) : rule :=
  {| r_head := {| p_name := s_query; p_terms := [] |}; r_body := body; r_exprs := [] |}.

(* authority: right("file1","read"); check if right("file1","read") *)
Definition auth_ex : block :=
  {| b_facts := [right_fact s_file1 s_read]; b_rules := [];
     b_checks := [[q_of [right_fact s_file1 s_read]]] |}.
Definition allow_file1 : policy :=
  {| pol_kind := Allow; pol_queries := [q_of [right_fact s_file1 s_read]] |}.
Definition deny_file1 : policy :=
  {| pol_kind := Deny; pol_queries := [q_of [right_fact s_file1 s_read]] |}.
Definition a_ex : astate := add_policy (fresh lim0) allow_file1.

(* later blocks *)
Definition blk_ok : block :=          (* check if right("file1","read") : passes *)
  {| b_facts := []; b_rules := []; b_checks := [[q_of [right_fact s_file1 s_read]]] |}.
Definition blk_bad : block :=         (* check if right("file2","read") : fails *)
  {| b_facts := []; b_rules := []; b_checks := [[q_of [right_fact s_file2 s_read]]] |}.
Definition blk_free : block :=        (* check-free, carries right("file2","read") and a rule deriving right("file2","write") *)
  {| b_facts := [right_fact s_file2 s_read];
     b_rules := [{| r_head := right_fact s_file2 s_write; r_body := [right_fact s_file2 s_read]; r_exprs := [] |}];
     b_checks := [] |}.
Definition blk_err : block :=         (* rule with an unbound head variable: ErrInvalidRule at run *)
  {| b_facts := [];
     b_rules := [{| r_head := {| p_name := s_right; p_terms := [TA (AVar s_x)] |};
                    r_body := [right_fact s_file1 s_read]; r_exprs := [] |}];
     b_checks := [] |}.

(* the two examples asked for *)
Example ex_success : snd (authorize rx0 [auth_ex] a_ex) = VSuccess.
Proof. vm_compute. reflexivity. Qed.

Example ex_checks_failed :
  snd (authorize rx0 ([auth_ex] ++ [blk_bad]) a_ex) = VChecksFailed [(FromBlock 1, 0)].
Proof. vm_compute. reflexivity. Qed.

(* C02_monotone: its hypotheses hold for a non-trivial token *)
Example ex_C02_monotone_hyp :
  [auth_ex; blk_free] <> [] /\ snd (authorize rx0 ([auth_ex; blk_free] ++ [blk_ok]) a_ex) = VSuccess.
Proof. split; [discriminate | vm_compute; reflexivity]. Qed.

(* C02_no_content_helps: a refused token stays refused when the holder appends
   a block carrying exactly the fact the failing check asks for *)
Example ex_C02_no_content_helps :
  snd (authorize rx0 [auth_ex; blk_bad] a_ex) = VChecksFailed [(FromBlock 1, 0)] /\
  snd (authorize rx0 ([auth_ex; blk_bad] ++ [blk_free]) a_ex) = VChecksFailed [(FromBlock 1, 0)].
Proof. split; vm_compute; reflexivity. Qed.

(* T <> [] is needed: with an empty T the appended block becomes the authority *)
Example C02_monotone_empty_token_refuted :
  snd (authorize rx0 ([] ++ [auth_ex]) a_ex) = VSuccess /\
  snd (authorize rx0 [] a_ex) = VNoMatchingPolicy.
Proof. split; vm_compute; reflexivity. Qed.

(* authorize_prefix, the three kinds of extension *)
Example ex_prefix_run_error :
  snd (authorize rx0 [auth_ex; blk_err] a_ex) = VRunError EInvalidRule /\
  snd (authorize rx0 ([auth_ex; blk_err] ++ [blk_ok]) a_ex) = VRunError EInvalidRule.
Proof. split; vm_compute; reflexivity. Qed.

Example ex_prefix_checks_extended :
  snd (authorize rx0 ([auth_ex; blk_bad] ++ [blk_bad]) a_ex) =
  VChecksFailed ([(FromBlock 1, 0)] ++ [(FromBlock 2, 0)]).
Proof. vm_compute. reflexivity. Qed.

Example ex_prefix_checks_then_error :
  snd (authorize rx0 ([auth_ex; blk_bad] ++ [blk_err]) a_ex) = VRunError EInvalidRule.
Proof. vm_compute. reflexivity. Qed.

(* blocks_phase_app / blocks_phase_independent *)
Example ex_blocks_phase :
  blocks_phase rx0 lim0 [right_fact s_file1 s_read] ([blk_bad; blk_free] ++ [blk_bad]) 1
  = Ok [(FromBlock 1, 0); (FromBlock 3, 0)]
  /\ outcomes rx0 lim0 [right_fact s_file1 s_read] [blk_bad; blk_free; blk_bad] 1
  = [Ok [(FromBlock 1, 0)]; Ok []; Ok [(FromBlock 3, 0)]]
  /\ outcomes rx0 lim0 [right_fact s_file1 s_read] [blk_bad; blk_err; blk_bad] 1
  = [Ok [(FromBlock 1, 0)]; Err EInvalidRule; Ok [(FromBlock 3, 0)]]
  /\ blocks_phase rx0 lim0 [right_fact s_file1 s_read] [blk_bad; blk_err; blk_bad] 1 = Err EInvalidRule.
Proof. repeat split; vm_compute; reflexivity. Qed.

(* C03_block_facts_local: hypotheses hold for a block that carries the very
   fact a later block's check asks for; the later check still fails *)
Example ex_C03_block_facts_local_hyp :
  b_checks blk_free = [] /\ b_checks empty_block = [] /\
  snd (block_world rx0 (a_limits a_ex) (fst (auth_world rx0 auth_ex a_ex)) blk_free) = None /\
  snd (block_world rx0 (a_limits a_ex) (fst (auth_world rx0 auth_ex a_ex)) empty_block) = None /\
  fst (block_world rx0 (a_limits a_ex) (fst (auth_world rx0 auth_ex a_ex)) blk_free)
    = [right_fact s_file1 s_read; right_fact s_file2 s_read; right_fact s_file2 s_write] /\
  snd (authorize rx0 (auth_ex :: [] ++ [blk_free] ++ [blk_bad]) a_ex) = VChecksFailed [(FromBlock 2, 0)] /\
  snd (authorize rx0 (auth_ex :: [] ++ [empty_block] ++ [blk_bad]) a_ex) = VChecksFailed [(FromBlock 2, 0)].
Proof. repeat split; vm_compute; reflexivity. Qed.

(* C03_block_insert_renumber *)
Example ex_C03_insert :
  snd (authorize rx0 (auth_ex :: [blk_bad] ++ [blk_bad]) a_ex)
    = VChecksFailed [(FromBlock 1, 0); (FromBlock 2, 0)] /\
  snd (authorize rx0 (auth_ex :: [blk_bad] ++ [blk_free] ++ [blk_bad]) a_ex)
    = VChecksFailed [(FromBlock 1, 0); (FromBlock 3, 0)].
Proof. split; vm_compute; reflexivity. Qed.

(* C03_queries_blind: a query after authorize sees the authority facts only *)
Definition q_rights : rule :=
  {| r_head := {| p_name := s_query; p_terms := [TA (AVar s_x)] |};
     r_body := [{| p_name := s_right; p_terms := [TA (AVar s_x); TA (AStr s_read)] |}];
     r_exprs := [] |}.
Example ex_C03_queries_blind :
  snd (query rx0 (fst (authorize rx0 [auth_ex; blk_free] a_ex)) q_rights)
  = Ok [{| p_name := s_query; p_terms := [TA (AStr s_file1)] |}].
Proof. vm_compute. reflexivity. Qed.

(* C03_authority_visible: hypothesis satisfiable *)
Example ex_C03_authority_visible_hyp :
  run rx0 lim0 (b_rules blk_free) (fold_left insert_fact (b_facts blk_free) [right_fact s_file1 s_read])
  = ([right_fact s_file1 s_read; right_fact s_file2 s_read; right_fact s_file2 s_write], None).
Proof. vm_compute. reflexivity. Qed.

(* C04_verdict_structure / C04_precedence / C04_decision: hypotheses satisfiable,
   with a failing block check and a matching allow policy *)
Example ex_C04_hyps :
  auth_world rx0 auth_ex a_ex = ([right_fact s_file1 s_read], None) /\
  block_worlds rx0 (a_limits a_ex) [right_fact s_file1 s_read] [blk_free; blk_bad]
    [[right_fact s_file1 s_read; right_fact s_file2 s_read; right_fact s_file2 s_write];
     [right_fact s_file1 s_read]] /\
  all_failed rx0 auth_ex [blk_free; blk_bad] a_ex [right_fact s_file1 s_read]
    [[right_fact s_file1 s_read; right_fact s_file2 s_read; right_fact s_file2 s_write];
     [right_fact s_file1 s_read]] = [(FromBlock 2, 0)] /\
  policy_result rx0 [right_fact s_file1 s_read] (a_policies a_ex) = Some Allow.
Proof.
  split; [vm_compute; reflexivity|]. split.
  - constructor; [vm_compute; reflexivity|]. constructor; [vm_compute; reflexivity | constructor].
  - split; vm_compute; reflexivity.
Qed.

(* the four policy-side outcomes, and precedence of a failed check over a deny *)
Example ex_C04_outcomes :
  snd (authorize rx0 [auth_ex] (add_policy (add_policy (fresh lim0) deny_file1) allow_file1)) = VPolicyDenied /\
  snd (authorize rx0 [auth_ex] (add_policy (add_policy (fresh lim0) allow_file1) deny_file1)) = VSuccess /\
  snd (authorize rx0 [auth_ex] (fresh lim0)) = VNoMatchingPolicy /\
  snd (authorize rx0 [auth_ex; blk_bad] (add_policy (fresh lim0) deny_file1)) = VChecksFailed [(FromBlock 1, 0)] /\
  snd (authorize rx0 [auth_ex] (add_check a_ex [q_of [right_fact s_file2 s_read]; q_of [right_fact s_file1 s_read]])) = VSuccess /\
  snd (authorize rx0 [auth_ex] (add_check a_ex [q_of [right_fact s_file2 s_read]])) = VChecksFailed [(FromAuthorizer, 0)].
Proof. repeat split; vm_compute; reflexivity. Qed.

(* C04_run_error_wins / C11_authorize_fails_on_limit: both kinds of hypothesis *)
Definition a_tight : astate := add_policy (fresh {| max_facts := 1; max_iterations := 100 |}) allow_file1.
Definition a_noiter : astate := add_policy (fresh {| max_facts := 1000; max_iterations := 0 |}) allow_file1.
Example ex_C11_authority_limit :
  snd (auth_world rx0 auth_ex a_tight) = Some EMaxFacts /\
  snd (authorize rx0 [auth_ex] a_tight) = VRunError EMaxFacts /\
  snd (authorize rx0 [auth_ex] a_noiter) = VRunError EMaxIterations.
Proof. repeat split; vm_compute; reflexivity. Qed.

Definition a_tight3 : astate := add_policy (fresh {| max_facts := 3; max_iterations := 100 |}) allow_file1.
Example ex_C11_block_limit :
  snd (auth_world rx0 auth_ex a_tight3) = None /\
  In blk_free [blk_bad; blk_free] /\
  snd (block_world rx0 (a_limits a_tight3) (fst (auth_world rx0 auth_ex a_tight3)) blk_free) = Some EMaxFacts /\
  snd (authorize rx0 [auth_ex] a_tight3) = VSuccess /\
  snd (authorize rx0 [auth_ex; blk_bad; blk_free] a_tight3) = VRunError EMaxFacts.
Proof.
  split; [vm_compute; reflexivity|]. split; [right; left; reflexivity|].
  repeat split; vm_compute; reflexivity.
Qed.

(* C13: the scenario of finding F12.  Round 1 adds operation("read") and is
   accepted; after Reset, round 2 adds operation("write") and is refused, as on
   a fresh authorizer; without the Reset the first round's fact leaks. *)
Definition tok_op : list block :=
  [{| b_facts := []; b_rules := []; b_checks := [[q_of [op_fact s_read]]] |}].
Definition allow_any_op : policy :=
  {| pol_kind := Allow;
     pol_queries := [q_of [{| p_name := s_operation; p_terms := [TA (AVar s_x)] |}]] |}.
Definition round1 : list aop := [OAddFact (op_fact s_read); OAddPolicy allow_any_op; OAuthorize].
Definition round2 : list aop := [OAddFact (op_fact s_write); OAddPolicy allow_any_op; OAuthorize].

Example ex_C13_rounds :
  atrace rx0 tok_op (round1 ++ [OReset] ++ round2) (fresh lim0)
    = [OutNone; OutNone; OutVerdict VSuccess; OutNone;
       OutNone; OutNone; OutVerdict (VChecksFailed [(FromBlock 0, 0)])] /\
  atrace rx0 tok_op round2 (fresh lim0)
    = [OutNone; OutNone; OutVerdict (VChecksFailed [(FromBlock 0, 0)])] /\
  atrace rx0 tok_op (round1 ++ round2) (fresh lim0)
    = [OutNone; OutNone; OutVerdict VSuccess; OutNone; OutNone; OutVerdict VSuccess] /\
  a_facts (fold_left (astep rx0 tok_op) round1 (fresh lim0)) = [op_fact s_read].
Proof. repeat split; vm_compute; reflexivity. Qed.

(* ------------------------------------------------------------------ *)
Print Assumptions blocks_phase_app.
Print Assumptions C02_monotone.
Print Assumptions C02_no_content_helps.
Print Assumptions authorize_extend.
Print Assumptions authorize_prefix.
Print Assumptions blocks_phase_independent.
Print Assumptions C03_authority_phase_blind.
Print Assumptions C03_other_blocks_unaffected.
Print Assumptions C03_other_blocks_unaffected_nth.
Print Assumptions C03_block_facts_local.
Print Assumptions C03_block_facts_local_verdict.
Print Assumptions C03_block_insert_renumber.
Print Assumptions authorize_state_blind.
Print Assumptions C03_queries_blind.
Print Assumptions C03_authority_visible.
Print Assumptions failed_checks_nil.
Print Assumptions C04_verdict_structure.
Print Assumptions C04_precedence.
Print Assumptions C04_decision.
Print Assumptions C04_success_iff.
Print Assumptions C04_first_match.
Print Assumptions C04_no_match.
Print Assumptions C04_or_is_disjunction.
Print Assumptions C04_run_error_authority.
Print Assumptions C04_run_error_block.
Print Assumptions C04_run_error_wins.
Print Assumptions C11_authorize_fails_on_limit.
Print Assumptions authorize_success_runs_ok.
Print Assumptions limits_invariant.
Print Assumptions C13_reset_fresh.
Print Assumptions C13_rounds.
Print Assumptions C13_rounds_outputs.
