(* TokenProofs.v — C07 (the bytes carry exactly the caller's Datalog) and C08
   (tokens and blocks are immutable values, siblings are independent) over the
   models Token.v / History.v. *)
From BV Require Import Base Term DTerm Symbols Chain Wire Token History.
From BV Require Import WireProofs SymbolsProofs.
From BV Require Generated.

(* ------------------------------------------------------------------ *)
(** * 0. List helpers *)

Lemma ok_inj {A} (a b : A) : Ok a = Ok b -> a = b.
Proof. intros H. injection H as H. exact H. Qed.

Lemma Forall_map_iff {A B} (f : A -> B) (P : B -> Prop) l : Forall P (map f l) <-> Forall (fun x => P (f x)) l.
Proof.
  induction l as [|x l IH]; cbn [map]; split; intros H; try constructor;
    inversion H as [|? ? H1 H2]; subst; try assumption; apply IH; assumption.
Qed.

Lemma Forall_forallb {A} (f : A -> bool) l : Forall (fun x => f x = true) l <-> forallb f l = true.
Proof.
  induction l as [|x l IH]; cbn [forallb]; split; intros H; try constructor; try reflexivity.
  - inversion H as [|? ? H1 H2]; subst. rewrite H1. apply IH. exact H2.
  - apply andb_true_iff in H as [H1 _]. exact H1.
  - apply andb_true_iff in H as [_ H2]. apply IH. exact H2.
Qed.

Lemma Forall_imp {A} (P Q : A -> Prop) l : (forall x, P x -> Q x) -> Forall P l -> Forall Q l.
Proof. intros H F. induction F as [|x l Hx Hl IH]; constructor; auto. Qed.

Lemma Forall_app_iff {A} (P : A -> Prop) a b : Forall P (a ++ b) <-> Forall P a /\ Forall P b.
Proof.
  induction a as [|x a IH]; cbn [app].
  - split; [intros H; split; [constructor | exact H] | intros [_ H]; exact H].
  - split.
    + intros H. inversion H as [|? ? H1 H2]; subst. apply IH in H2 as [H2 H3]. split; [constructor|]; assumption.
    + intros [H H3]. inversion H as [|? ? H1 H2]; subst. constructor; [exact H1|]. apply IH. split; assumption.
Qed.

Lemma map_ext_Forall {A B} (f g : A -> B) l : Forall (fun x => f x = g x) l -> map f l = map g l.
Proof. induction 1 as [|x l Hx Hl IH]; cbn [map]; [reflexivity | rewrite Hx, IH; reflexivity]. Qed.

Lemma mapM_app {A B} (f : A -> res B) l1 l2 r1 r2 :
  mapM f l1 = Ok r1 -> mapM f l2 = Ok r2 -> mapM f (l1 ++ l2) = Ok (r1 ++ r2).
Proof.
  revert r1. induction l1 as [|x l1 IH]; intros r1 H1 H2; cbn [mapM app] in *.
  - apply ok_inj in H1. subst r1. exact H2.
  - destruct (f x) as [y| |]; cbn [bind] in *; try discriminate.
    destruct (mapM f l1) as [ys| |]; cbn [bind] in *; try discriminate.
    apply ok_inj in H1. subst r1. rewrite (IH ys eq_refl H2). reflexivity.
Qed.

(* ------------------------------------------------------------------ *)
(** * 1. Block.checkSymbols (the boolean closedness of Token.v)

   [dX_closed lim] only asks every index to be below [lim]; the [closed_X] of
   SymbolsProofs (every index designates a string) is stronger.  Resolution of a
   value closed below the end of a table is the same in every extension of that
   table: later symbols cannot capture earlier content. *)

Lemma ltb_of_valid t i : valid_index t i -> (i <? offset + lenN t) = true.
Proof. intros H. apply N.ltb_lt. apply valid_index_lt. exact H. Qed.

Lemma datom_closed_of t a : closed_atom t a -> datom_closed (offset + lenN t) a = true.
Proof. destruct a; cbn [closed_atom datom_closed]; auto using ltb_of_valid. Qed.
Lemma dterm_closed_of t x : closed_term t x -> dterm_closed (offset + lenN t) x = true.
Proof.
  destruct x as [a|l]; cbn [closed_term dterm_closed]; [apply datom_closed_of|].
  intros H. apply Forall_forallb. eapply Forall_imp; [|exact H]. apply datom_closed_of.
Qed.
Lemma dpred_closed_of t p : closed_pred t p -> dpred_closed (offset + lenN t) p = true.
Proof.
  intros [H1 H2]. unfold dpred_closed. rewrite (ltb_of_valid _ _ H1). cbn [andb].
  apply Forall_forallb. eapply Forall_imp; [|exact H2]. apply dterm_closed_of.
Qed.
Lemma dop_closed_of t o : closed_op t o -> dop_closed (offset + lenN t) o = true.
Proof. destruct o; cbn [closed_op dop_closed]; auto using dterm_closed_of. Qed.
Lemma drule_closed_of t r : closed_rule t r -> drule_closed (offset + lenN t) r = true.
Proof.
  intros (H1 & H2 & H3). unfold drule_closed. rewrite (dpred_closed_of _ _ H1). cbn [andb].
  apply andb_true_iff. split.
  - apply Forall_forallb. eapply Forall_imp; [|exact H2]. apply dpred_closed_of.
  - apply Forall_forallb. eapply Forall_imp; [|exact H3]. intros e He.
    apply Forall_forallb. eapply Forall_imp; [|exact He]. apply dop_closed_of.
Qed.
Lemma dblock_closed_of t b : closed_block t b -> dblock_closed (offset + lenN t) b = true.
Proof.
  intros (H1 & H2 & H3). unfold dblock_closed. apply andb_true_iff. split; [apply andb_true_iff; split|].
  - apply Forall_forallb. eapply Forall_imp; [|exact H1]. apply dpred_closed_of.
  - apply Forall_forallb. eapply Forall_imp; [|exact H2]. apply drule_closed_of.
  - apply Forall_forallb. eapply Forall_imp; [|exact H3]. intros c Hc.
    apply Forall_forallb. eapply Forall_imp; [|exact Hc]. apply drule_closed_of.
Qed.

Section BoolClosed.
  Variables (lim : N) (t l : table).
  Hypothesis Hlim : lim <= offset + lenN t.

  Lemma str_below i : (i <? lim) = true -> sym_str (t ++ l) i = sym_str t i.
  Proof. intros H. apply N.ltb_lt in H. apply sym_str_extend_lt. lia. Qed.

  Lemma datom_closed_resolve a : datom_closed lim a = true -> resolve_atom (t ++ l) a = resolve_atom t a.
  Proof. destruct a; cbn [datom_closed resolve_atom]; intros H; try reflexivity; rewrite str_below by exact H; reflexivity. Qed.
  Lemma dterm_closed_resolve x : dterm_closed lim x = true -> resolve_term (t ++ l) x = resolve_term t x.
  Proof.
    destruct x as [a|s]; cbn [dterm_closed resolve_term]; intros H; f_equal; [apply datom_closed_resolve; exact H|].
    apply map_ext_Forall. apply Forall_forallb in H. eapply Forall_imp; [|exact H]. apply datom_closed_resolve.
  Qed.
  Lemma dpred_closed_resolve p : dpred_closed lim p = true -> resolve_pred (t ++ l) p = resolve_pred t p.
  Proof.
    unfold dpred_closed, resolve_pred. intros H. apply andb_true_iff in H as [H1 H2].
    rewrite str_below by exact H1. f_equal.
    apply map_ext_Forall. apply Forall_forallb in H2. eapply Forall_imp; [|exact H2]. apply dterm_closed_resolve.
  Qed.
  Lemma dop_closed_resolve o : dop_closed lim o = true -> resolve_op (t ++ l) o = resolve_op t o.
  Proof. destruct o; cbn [dop_closed resolve_op]; intros H; try reflexivity. f_equal. apply dterm_closed_resolve. exact H. Qed.
  Lemma drule_closed_resolve r : drule_closed lim r = true -> resolve_rule (t ++ l) r = resolve_rule t r.
  Proof.
    unfold drule_closed, resolve_rule. intros H. apply andb_true_iff in H as [H H3]. apply andb_true_iff in H as [H1 H2].
    f_equal.
    - apply dpred_closed_resolve. exact H1.
    - apply map_ext_Forall. apply Forall_forallb in H2. eapply Forall_imp; [|exact H2]. apply dpred_closed_resolve.
    - apply map_ext_Forall. apply Forall_forallb in H3. eapply Forall_imp; [|exact H3]. intros e He.
      apply map_ext_Forall. apply Forall_forallb in He. eapply Forall_imp; [|exact He]. apply dop_closed_resolve.
  Qed.
  Lemma dblock_closed_resolve b : dblock_closed lim b = true -> resolve_block (t ++ l) b = resolve_block t b.
  Proof.
    unfold dblock_closed, resolve_block. intros H. apply andb_true_iff in H as [H H3]. apply andb_true_iff in H as [H1 H2].
    f_equal.
    - apply map_ext_Forall. apply Forall_forallb in H1. eapply Forall_imp; [|exact H1]. apply dpred_closed_resolve.
    - apply map_ext_Forall. apply Forall_forallb in H2. eapply Forall_imp; [|exact H2]. apply drule_closed_resolve.
    - apply map_ext_Forall. apply Forall_forallb in H3. eapply Forall_imp; [|exact H3]. intros c Hc.
      unfold resolve_check.
      apply map_ext_Forall. apply Forall_forallb in Hc. eapply Forall_imp; [|exact Hc]. apply drule_closed_resolve.
  Qed.
End BoolClosed.

(* numeric bounds the wire format needs, from closedness below a small table *)
Section Bounds.
  Variable lim : N.
  Hypothesis Hlim : lim <= 4294967296.

  Definition wf_atom_c (a : atom) : Prop :=
    match a with
    | AInt z => (- 9223372036854775808 <= z < 9223372036854775808)%Z
    | ADate d => d < two64
    | _ => True
    end.
  Definition wf_term_c (x : term) : Prop :=
    match x with TA a => wf_atom_c a | TSet s => Forall wf_atom_c s end.
  Definition wf_pred_c (p : pred) : Prop := Forall wf_term_c (p_terms p).
  Definition wf_op_c (o : op) : Prop := match o with OVal x => wf_term_c x | _ => True end.
  Definition wf_rule_c (r : rule) : Prop :=
    wf_pred_c (r_head r) /\ Forall wf_pred_c (r_body r) /\ Forall (Forall wf_op_c) (r_exprs r).
  Definition wf_block_c (b : block) : Prop :=
    Forall wf_pred_c (b_facts b) /\ Forall wf_rule_c (b_rules b) /\ Forall (Forall wf_rule_c) (b_checks b).

  Variable t : table.

  Lemma wf_datom_of a : datom_closed lim a = true -> wf_atom_c (resolve_atom t a) -> wf_datom a.
  Proof.
    destruct a; cbn [datom_closed resolve_atom wf_atom_c wf_datom]; intros H W; try exact I; try exact W.
    - apply N.ltb_lt in H. unfold two32. lia.
    - apply N.ltb_lt in H. unfold two64. lia.
  Qed.
  Lemma wf_dterm_of x : dterm_closed lim x = true -> wf_term_c (resolve_term t x) -> wf_dterm x.
  Proof.
    destruct x as [a|s]; cbn [dterm_closed resolve_term wf_term_c wf_dterm]; [apply wf_datom_of|].
    intros H W. apply Forall_forallb in H. apply Forall_map_iff in W.
    induction s as [|a s IH]; [constructor|]. inversion H; inversion W; subst.
    constructor; [apply wf_datom_of; assumption | apply IH; assumption].
  Qed.
  Lemma wf_dpred_of p : dpred_closed lim p = true -> wf_pred_c (resolve_pred t p) -> wf_dpred p.
  Proof.
    unfold dpred_closed, wf_pred_c, resolve_pred, wf_dpred. cbn [p_terms]. intros H W.
    apply andb_true_iff in H as [H1 H2]. apply N.ltb_lt in H1. split; [unfold two64; lia|].
    apply Forall_forallb in H2. apply Forall_map_iff in W.
    induction (dp_terms p) as [|x s IH]; [constructor|]. inversion H2; inversion W; subst.
    constructor; [apply wf_dterm_of; assumption | apply IH; assumption].
  Qed.
  Lemma wf_dpreds_of ps : forallb (dpred_closed lim) ps = true -> Forall wf_pred_c (map (resolve_pred t) ps) ->
    Forall wf_dpred ps.
  Proof.
    intros H W. apply Forall_forallb in H. apply Forall_map_iff in W.
    induction ps as [|x s IH]; [constructor|]. inversion H; inversion W; subst.
    constructor; [apply wf_dpred_of; assumption | apply IH; assumption].
  Qed.
  Lemma wf_dop_of o : dop_closed lim o = true -> wf_op_c (resolve_op t o) -> wf_dop o.
  Proof. destruct o; cbn [dop_closed resolve_op wf_op_c wf_dop]; auto using wf_dterm_of. Qed.
  Lemma wf_drule_of r : drule_closed lim r = true -> wf_rule_c (resolve_rule t r) -> wf_drule r.
  Proof.
    unfold drule_closed, wf_rule_c, resolve_rule, wf_drule. cbn [r_head r_body r_exprs].
    intros H (W1 & W2 & W3). apply andb_true_iff in H as [H H3]. apply andb_true_iff in H as [H1 H2].
    split; [apply wf_dpred_of; assumption|]. split; [apply wf_dpreds_of; assumption|].
    apply Forall_forallb in H3. apply Forall_map_iff in W3.
    induction (dr_exprs r) as [|e es IH]; [constructor|]. inversion H3 as [|? ? He Hes]; inversion W3 as [|? ? We Wes]; subst.
    constructor; [|apply IH; assumption]. clear IH Hes Wes H3 W3.
    apply Forall_forallb in He. apply Forall_map_iff in We.
    induction e as [|o e IH]; [constructor|]. inversion He; inversion We; subst.
    constructor; [apply wf_dop_of; assumption | apply IH; assumption].
  Qed.
  Lemma wf_drules_of rs : forallb (drule_closed lim) rs = true -> Forall wf_rule_c (map (resolve_rule t) rs) ->
    Forall wf_drule rs.
  Proof.
    intros H W. apply Forall_forallb in H. apply Forall_map_iff in W.
    induction rs as [|x s IH]; [constructor|]. inversion H; inversion W; subst.
    constructor; [apply wf_drule_of; assumption | apply IH; assumption].
  Qed.
  Lemma wf_dblock_parts_of b : dblock_closed lim b = true -> wf_block_c (resolve_block t b) ->
    Forall wf_dpred (db_facts b) /\ Forall wf_drule (db_rules b) /\ Forall (Forall wf_drule) (db_checks b).
  Proof.
    unfold dblock_closed, wf_block_c, resolve_block. cbn [b_facts b_rules b_checks].
    intros H (W1 & W2 & W3). apply andb_true_iff in H as [H H3]. apply andb_true_iff in H as [H1 H2].
    split; [apply wf_dpreds_of; assumption|]. split; [apply wf_drules_of; assumption|].
    apply Forall_forallb in H3. apply Forall_map_iff in W3.
    induction (db_checks b) as [|c cs IH]; [constructor|]. inversion H3; inversion W3; subst.
    constructor; [apply wf_drules_of; assumption | apply IH; assumption].
  Qed.
End Bounds.

(* ------------------------------------------------------------------ *)
(** * 2. What a builder holds is what its caller supplied

   Builder and BlockBuilder share their Datalog part: a table and three lists.
   The supplied content is defined from the caller's point of view: a fact counts
   when AddFact returned nil (a duplicate is refused with an error and not stored),
   rules and checks always count. *)

Inductive bop := BFact (f : pred) | BRule (r : rule) | BCheck (c : check) | BContext (s : bytes).

Record core := { k_syms : table; k_facts : list dpred; k_rules : list drule; k_checks : list dcheck }.

Definition core_step (k : core) (o : bop) : core * bool :=
  match o with
  | BFact f =>
      let '(t, d) := intern_pred (k_syms k) f in
      if dfact_in d (k_facts k)
      then ({| k_syms := t; k_facts := k_facts k; k_rules := k_rules k; k_checks := k_checks k |}, false)
      else ({| k_syms := t; k_facts := k_facts k ++ [d]; k_rules := k_rules k; k_checks := k_checks k |}, true)
  | BRule r =>
      let '(t, d) := intern_rule (k_syms k) r in
      ({| k_syms := t; k_facts := k_facts k; k_rules := k_rules k ++ [d]; k_checks := k_checks k |}, true)
  | BCheck c =>
      let '(t, d) := intern_check (k_syms k) c in
      ({| k_syms := t; k_facts := k_facts k; k_rules := k_rules k; k_checks := k_checks k ++ [d] |}, true)
  | BContext _ => (k, true)
  end.

Definition empty_block : block := {| b_facts := []; b_rules := []; b_checks := [] |}.

Definition content_step (c : block) (o : bop) (accepted : bool) : block :=
  match o with
  | BFact f => if accepted then {| b_facts := b_facts c ++ [f]; b_rules := b_rules c; b_checks := b_checks c |} else c
  | BRule r => {| b_facts := b_facts c; b_rules := b_rules c ++ [r]; b_checks := b_checks c |}
  | BCheck k => {| b_facts := b_facts c; b_rules := b_rules c; b_checks := b_checks c ++ [k] |}
  | BContext _ => c
  end.

Fixpoint core_exec (k : core) (c : block) (ops : list bop) : core * block :=
  match ops with
  | [] => (k, c)
  | o :: ops' => let '(k', acc) := core_step k o in core_exec k' (content_step c o acc) ops'
  end.

Definition core_of_table (base : table) : core := {| k_syms := base; k_facts := []; k_rules := []; k_checks := [] |}.

(* the S-level content the caller supplied to a builder created over [base] *)
Definition supplied (base : table) (ops : list bop) : block := snd (core_exec (core_of_table base) empty_block ops).
Definition final_context (ops : list bop) : bytes :=
  fold_left (fun c o => match o with BContext s => s | _ => c end) ops [].

Definition core_closed (k : core) : Prop :=
  Forall (closed_pred (k_syms k)) (k_facts k) /\ Forall (closed_rule (k_syms k)) (k_rules k) /\
  Forall (closed_check (k_syms k)) (k_checks k).
Definition core_resolve (k : core) : block :=
  {| b_facts := map (resolve_pred (k_syms k)) (k_facts k); b_rules := map (resolve_rule (k_syms k)) (k_rules k);
     b_checks := map (resolve_check (k_syms k)) (k_checks k) |}.

(* the invariant, relative to smallness of the current table *)
Definition core_inv (k : core) (c : block) : Prop :=
  small_table (k_syms k) -> core_closed k /\ core_resolve k = c.

Lemma core_stable t l fs rs cs :
  Forall (closed_pred t) fs -> Forall (closed_rule t) rs -> Forall (closed_check t) cs ->
  (Forall (closed_pred (t ++ l)) fs /\ Forall (closed_rule (t ++ l)) rs /\ Forall (closed_check (t ++ l)) cs) /\
  map (resolve_pred (t ++ l)) fs = map (resolve_pred t) fs /\
  map (resolve_rule (t ++ l)) rs = map (resolve_rule t) rs /\
  map (resolve_check (t ++ l)) cs = map (resolve_check t) cs.
Proof.
  intros H1 H2 H3.
  destruct (stable_list _ _ stable_pred t l _ H1) as [C1 Q1].
  destruct (stable_list _ _ stable_rule t l _ H2) as [C2 Q2].
  destruct (stable_list _ _ stable_check t l _ H3) as [C3 Q3]. cbv beta in *. tauto.
Qed.

Lemma core_step_spec k o k' acc :
  core_step k o = (k', acc) ->
  (exists l, k_syms k' = k_syms k ++ l) /\ (table_wf (k_syms k) -> table_wf (k_syms k')) /\
  forall c, core_inv k c -> core_inv k' (content_step c o acc).
Proof.
  destruct k as [t fs rs cs]. destruct o as [f|r|c0|s]; cbn [core_step k_syms k_facts k_rules k_checks].
  - destruct (intern_pred t f) as [t1 d] eqn:E. destruct (good_pred _ _ _ _ E) as ([l P] & W & R).
    assert (G : forall c, core_inv {| k_syms := t; k_facts := fs; k_rules := rs; k_checks := cs |} c ->
                small_table t1 ->
                (Forall (closed_pred t1) fs /\ Forall (closed_rule t1) rs /\ Forall (closed_check t1) cs) /\
                {| b_facts := map (resolve_pred t1) fs; b_rules := map (resolve_rule t1) rs;
                   b_checks := map (resolve_check t1) cs |} = c).
    { intros c I Hs. assert (Hs0 : small_table t) by (rewrite P in Hs; eapply small_table_app; exact Hs).
      destruct (I Hs0) as [(C1 & C2 & C3) Q]. cbn [k_syms k_facts k_rules k_checks] in *.
      destruct (core_stable t l _ _ _ C1 C2 C3) as (C & Q1 & Q2 & Q3). rewrite <- P in C, Q1, Q2, Q3.
      split; [exact C|]. rewrite Q1, Q2, Q3. exact Q. }
    destruct (dfact_in d fs); intros H; apply pair_inj in H as [<- <-]; cbn [k_syms];
      (split; [exists l; exact P|]); (split; [exact W|]); intros c I Hs; cbn [k_syms] in Hs;
      destruct (G c I Hs) as [(C1 & C2 & C3) Q]; unfold core_closed, core_resolve;
      cbn [k_syms k_facts k_rules k_checks content_step].
    + split; [tauto | exact Q].
    + destruct (R Hs) as [Cd Qd]. split; [split; [apply Forall_app_iff; split; [exact C1 | constructor; [exact Cd | constructor]]|tauto]|].
      rewrite map_app. cbn [map]. rewrite Qd. subst c. reflexivity.
  - destruct (intern_rule t r) as [t1 d] eqn:E. destruct (good_rule _ _ _ _ E) as ([l P] & W & R).
    intros H; apply pair_inj in H as [<- <-]; cbn [k_syms].
    split; [exists l; exact P|]. split; [exact W|]. intros c I Hs. cbn [k_syms] in Hs.
    assert (Hs0 : small_table t) by (rewrite P in Hs; eapply small_table_app; exact Hs).
    destruct (I Hs0) as [(C1 & C2 & C3) Q]. cbn [k_syms k_facts k_rules k_checks] in *.
    destruct (core_stable t l _ _ _ C1 C2 C3) as ((C1' & C2' & C3') & Q1 & Q2 & Q3). rewrite <- P in *.
    destruct (R Hs) as [Cd Qd]. unfold core_closed, core_resolve. cbn [k_syms k_facts k_rules k_checks content_step].
    split; [split; [exact C1' | split; [apply Forall_app_iff; split; [exact C2' | constructor; [exact Cd | constructor]] | exact C3']]|].
    rewrite map_app. cbn [map]. rewrite Qd, Q1, Q2, Q3. subst c. reflexivity.
  - destruct (intern_check t c0) as [t1 d] eqn:E. destruct (good_check _ _ _ _ E) as ([l P] & W & R).
    intros H; apply pair_inj in H as [<- <-]; cbn [k_syms].
    split; [exists l; exact P|]. split; [exact W|]. intros c I Hs. cbn [k_syms] in Hs.
    assert (Hs0 : small_table t) by (rewrite P in Hs; eapply small_table_app; exact Hs).
    destruct (I Hs0) as [(C1 & C2 & C3) Q]. cbn [k_syms k_facts k_rules k_checks] in *.
    destruct (core_stable t l _ _ _ C1 C2 C3) as ((C1' & C2' & C3') & Q1 & Q2 & Q3). rewrite <- P in *.
    destruct (R Hs) as [Cd Qd]. unfold core_closed, core_resolve. cbn [k_syms k_facts k_rules k_checks content_step].
    split; [split; [exact C1' | split; [exact C2' | apply Forall_app_iff; split; [exact C3' | constructor; [exact Cd | constructor]]]]|].
    rewrite map_app. cbn [map]. rewrite Qd, Q1, Q2, Q3. subst c. reflexivity.
  - intros H; apply pair_inj in H as [<- <-]. cbn [k_syms content_step].
    split; [exists []; rewrite app_nil_r; reflexivity|]. split; [tauto|]. tauto.
Qed.

Lemma core_exec_spec ops : forall k c k' c',
  core_exec k c ops = (k', c') ->
  (exists l, k_syms k' = k_syms k ++ l) /\ (table_wf (k_syms k) -> table_wf (k_syms k')) /\
  (core_inv k c -> core_inv k' c').
Proof.
  induction ops as [|o ops IH]; intros k c k' c' H; cbn [core_exec] in H.
  - apply pair_inj in H as [<- <-]. split; [exists []; rewrite app_nil_r; reflexivity | tauto].
  - destruct (core_step k o) as [k1 acc] eqn:E. destruct (core_step_spec _ _ _ _ E) as ([l1 P1] & W1 & I1).
    destruct (IH _ _ _ _ H) as ([l2 P2] & W2 & I2).
    split; [exists (l1 ++ l2); rewrite P2, P1, app_assoc; reflexivity|]. split; [tauto|]. auto.
Qed.

Lemma core_inv_init base : core_inv (core_of_table base) empty_block.
Proof. intros _. split; [repeat split; constructor | reflexivity]. Qed.

(* ---------- Builder ---------- *)
Definition bu_step (b : builder) (o : bop) : builder :=
  match o with
  | BFact f => fst (bu_add_fact b f)
  | BRule r => bu_add_rule b r
  | BCheck c => bu_add_check b c
  | BContext s => bu_set_context b s
  end.
Definition bu_exec (b : builder) (ops : list bop) : builder := fold_left bu_step ops b.
Definition bu_core (b : builder) : core :=
  {| k_syms := bu_syms b; k_facts := bu_facts b; k_rules := bu_rules b; k_checks := bu_checks b |}.

Lemma bu_step_core b o :
  bu_core (bu_step b o) = fst (core_step (bu_core b) o) /\
  bu_start (bu_step b o) = bu_start b /\ bu_rootid (bu_step b o) = bu_rootid b /\
  bu_context (bu_step b o) = match o with BContext s => s | _ => bu_context b end.
Proof.
  destruct o as [f|r|c|s]; cbn [bu_step core_step bu_core k_syms k_facts].
  - unfold bu_add_fact. destruct (intern_pred (bu_syms b) f) as [t d].
    destruct (dfact_in d (bu_facts b)); cbn; auto.
  - unfold bu_add_rule. destruct (intern_rule (bu_syms b) r) as [t d]. cbn. auto.
  - unfold bu_add_check. destruct (intern_check (bu_syms b) c) as [t d]. cbn. auto.
  - cbn. auto.
Qed.

(* AddFact's error is exactly "not accepted" *)
Lemma bu_add_fact_result b f :
  snd (bu_add_fact b f) = if snd (core_step (bu_core b) (BFact f)) then Ok tt else Err EDuplicateFact.
Proof.
  unfold bu_add_fact. cbn [core_step bu_core k_syms k_facts]. destruct (intern_pred (bu_syms b) f) as [t d].
  destruct (dfact_in d (bu_facts b)); reflexivity.
Qed.

Lemma bu_exec_core ops : forall b c,
  bu_core (bu_exec b ops) = fst (core_exec (bu_core b) c ops) /\
  bu_start (bu_exec b ops) = bu_start b /\ bu_rootid (bu_exec b ops) = bu_rootid b /\
  bu_context (bu_exec b ops) = fold_left (fun c o => match o with BContext s => s | _ => c end) ops (bu_context b).
Proof.
  induction ops as [|o ops IH]; intros b c; cbn [bu_exec fold_left core_exec]; [auto|].
  destruct (bu_step_core b o) as (E1 & E2 & E3 & E4).
  destruct (core_step (bu_core b) o) as [k1 acc] eqn:E. cbn [fst] in E1.
  destruct (IH (bu_step b o) (content_step c o acc)) as (F1 & F2 & F3 & F4). fold (bu_exec (bu_step b o) ops).
  rewrite F1, F2, F3, F4, E1, E2, E3, E4. auto.
Qed.

Lemma core_exec_content_indep ops : forall k c1 c2, fst (core_exec k c1 ops) = fst (core_exec k c2 ops).
Proof.
  induction ops as [|o ops IH]; intros k c1 c2; cbn [core_exec]; [reflexivity|].
  destruct (core_step k o) as [k1 acc]. apply IH.
Qed.

(* item 4 for Builder *)
Theorem builder_content base rid ops :
  let b := bu_exec (new_builder base rid) ops in
  bu_start b = length base /\ (exists l, bu_syms b = base ++ l) /\ bu_rootid b = rid /\
  bu_context b = final_context ops /\
  (table_wf base -> table_wf (bu_syms b)) /\
  (small_table (bu_syms b) ->
     Forall (closed_pred (bu_syms b)) (bu_facts b) /\ Forall (closed_rule (bu_syms b)) (bu_rules b) /\
     Forall (closed_check (bu_syms b)) (bu_checks b) /\
     map (resolve_pred (bu_syms b)) (bu_facts b) = b_facts (supplied base ops) /\
     map (resolve_rule (bu_syms b)) (bu_rules b) = b_rules (supplied base ops) /\
     map (resolve_check (bu_syms b)) (bu_checks b) = b_checks (supplied base ops)).
Proof.
  cbv zeta. destruct (bu_exec_core ops (new_builder base rid) empty_block) as (E1 & E2 & E3 & E4).
  change (bu_core (new_builder base rid)) with (core_of_table base) in E1.
  destruct (core_exec (core_of_table base) empty_block ops) as [k c] eqn:E.
  destruct (core_exec_spec _ _ _ _ _ E) as (P & W & I). cbn [fst] in E1.
  assert (Es : bu_syms (bu_exec (new_builder base rid) ops) = k_syms k) by (rewrite <- E1; reflexivity).
  assert (Ef : bu_facts (bu_exec (new_builder base rid) ops) = k_facts k) by (rewrite <- E1; reflexivity).
  assert (Er : bu_rules (bu_exec (new_builder base rid) ops) = k_rules k) by (rewrite <- E1; reflexivity).
  assert (Ec : bu_checks (bu_exec (new_builder base rid) ops) = k_checks k) by (rewrite <- E1; reflexivity).
  rewrite Es, Ef, Er, Ec. unfold supplied. rewrite E. cbn [snd].
  split; [exact E2|]. split; [exact P|]. split; [exact E3|]. split; [exact E4|]. split; [exact W|].
  intros Hs. destruct (I (core_inv_init base) Hs) as [(C1 & C2 & C3) Q]. subst c.
  unfold core_resolve. cbn [b_facts b_rules b_checks]. tauto.
Qed.

(* ---------- BlockBuilder ---------- *)
Definition bb_step (b : bbuilder) (o : bop) : bbuilder :=
  match o with
  | BFact f => fst (bb_add_fact b f)
  | BRule r => bb_add_rule b r
  | BCheck c => bb_add_check b c
  | BContext s => bb_set_context b s
  end.
Definition bb_exec (b : bbuilder) (ops : list bop) : bbuilder := fold_left bb_step ops b.
Definition bb_core (b : bbuilder) : core :=
  {| k_syms := bb_syms b; k_facts := bb_facts b; k_rules := bb_rules b; k_checks := bb_checks b |}.

Lemma bb_step_core b o :
  bb_core (bb_step b o) = fst (core_step (bb_core b) o) /\
  bb_start (bb_step b o) = bb_start b /\
  bb_context (bb_step b o) = match o with BContext s => s | _ => bb_context b end.
Proof.
  destruct o as [f|r|c|s]; cbn [bb_step core_step bb_core k_syms k_facts].
  - unfold bb_add_fact. destruct (intern_pred (bb_syms b) f) as [t d].
    destruct (dfact_in d (bb_facts b)); cbn; auto.
  - unfold bb_add_rule. destruct (intern_rule (bb_syms b) r) as [t d]. cbn. auto.
  - unfold bb_add_check. destruct (intern_check (bb_syms b) c) as [t d]. cbn. auto.
  - cbn. auto.
Qed.

Lemma bb_add_fact_result b f :
  snd (bb_add_fact b f) = if snd (core_step (bb_core b) (BFact f)) then Ok tt else Err EDuplicateFact.
Proof.
  unfold bb_add_fact. cbn [core_step bb_core k_syms k_facts]. destruct (intern_pred (bb_syms b) f) as [t d].
  destruct (dfact_in d (bb_facts b)); reflexivity.
Qed.

Lemma bb_exec_core ops : forall b c,
  bb_core (bb_exec b ops) = fst (core_exec (bb_core b) c ops) /\
  bb_start (bb_exec b ops) = bb_start b /\
  bb_context (bb_exec b ops) = fold_left (fun c o => match o with BContext s => s | _ => c end) ops (bb_context b).
Proof.
  induction ops as [|o ops IH]; intros b c; cbn [bb_exec fold_left core_exec]; [auto|].
  destruct (bb_step_core b o) as (E1 & E2 & E4).
  destruct (core_step (bb_core b) o) as [k1 acc] eqn:E. cbn [fst] in E1.
  destruct (IH (bb_step b o) (content_step c o acc)) as (F1 & F2 & F4). fold (bb_exec (bb_step b o) ops).
  rewrite F1, F2, F4, E1, E2, E4. auto.
Qed.

(* item 4 for BlockBuilder *)
Theorem bbuilder_content base ops :
  let b := bb_exec (new_bbuilder base) ops in
  bb_start b = length base /\ (exists l, bb_syms b = base ++ l) /\
  bb_context b = final_context ops /\
  (table_wf base -> table_wf (bb_syms b)) /\
  (small_table (bb_syms b) ->
     Forall (closed_pred (bb_syms b)) (bb_facts b) /\ Forall (closed_rule (bb_syms b)) (bb_rules b) /\
     Forall (closed_check (bb_syms b)) (bb_checks b) /\
     map (resolve_pred (bb_syms b)) (bb_facts b) = b_facts (supplied base ops) /\
     map (resolve_rule (bb_syms b)) (bb_rules b) = b_rules (supplied base ops) /\
     map (resolve_check (bb_syms b)) (bb_checks b) = b_checks (supplied base ops)).
Proof.
  cbv zeta. destruct (bb_exec_core ops (new_bbuilder base) empty_block) as (E1 & E2 & E4).
  change (bb_core (new_bbuilder base)) with (core_of_table base) in E1.
  destruct (core_exec (core_of_table base) empty_block ops) as [k c] eqn:E.
  destruct (core_exec_spec _ _ _ _ _ E) as (P & W & I). cbn [fst] in E1.
  assert (Es : bb_syms (bb_exec (new_bbuilder base) ops) = k_syms k) by (rewrite <- E1; reflexivity).
  assert (Ef : bb_facts (bb_exec (new_bbuilder base) ops) = k_facts k) by (rewrite <- E1; reflexivity).
  assert (Er : bb_rules (bb_exec (new_bbuilder base) ops) = k_rules k) by (rewrite <- E1; reflexivity).
  assert (Ec : bb_checks (bb_exec (new_bbuilder base) ops) = k_checks k) by (rewrite <- E1; reflexivity).
  rewrite Es, Ef, Er, Ec. unfold supplied. rewrite E. cbn [snd].
  split; [exact E2|]. split; [exact P|]. split; [exact E4|]. split; [exact W|].
  intros Hs. destruct (I (core_inv_init base) Hs) as [(C1 & C2 & C3) Q]. subst c.
  unfold core_resolve. cbn [b_facts b_rules b_checks]. tauto.
Qed.

(* ------------------------------------------------------------------ *)
(** * 3. Tokens: the independent decoder and the token invariant *)

Definition all_blocks (t : token) : list dblock := tk_authority t :: tk_blocks t.
Definition all_sblocks (c : container) : list sblock := c_auth c :: c_blocks c.
Definition syms_of (bs : list dblock) : table := concat (map db_symbols bs).

(* what a reader gets out of one block: Datalog content, context, version *)
Definition dblock_view (t : table) (b : dblock) : block * bytes * N := (resolve_block t b, db_context b, db_version b).

(* The reader of the property's first sentence.  It knows the wire schema
   (dec_container, dec_block), the default table and the offset (inside the
   resolve functions), and the rule "each block brings its own new symbols, appended to
   those of the earlier blocks"; block k is resolved with the table of blocks
   0..k ONLY.  It does not call the model of the library's Unmarshal. *)
Fixpoint view_cumul (t : table) (bs : list dblock) : list (block * bytes * N) :=
  match bs with
  | [] => []
  | b :: bs' => let t' := t ++ db_symbols b in dblock_view t' b :: view_cumul t' bs'
  end.
Definition independent_decode (base : table) (bs : bytes) : res (list (block * bytes * N)) :=
  do c <- dec_container bs;
  do blocks <- mapM (fun sb => dec_block (sb_block sb)) (all_sblocks c);
  Ok (view_cumul base blocks).

(* every block uses only indexes below the end of the table at its position *)
Fixpoint bclosed_cumul (t : table) (bs : list dblock) : Prop :=
  match bs with
  | [] => True
  | b :: bs' => dblock_closed (offset + lenN (t ++ db_symbols b)) b = true /\ bclosed_cumul (t ++ db_symbols b) bs'
  end.

Lemma syms_of_cons b bs : syms_of (b :: bs) = db_symbols b ++ syms_of bs.
Proof. reflexivity. Qed.
Lemma syms_of_app a b : syms_of (a ++ b) = syms_of a ++ syms_of b.
Proof. unfold syms_of. rewrite map_app, concat_app. reflexivity. Qed.

Lemma bclosed_resolve_ext bs : forall t ext, bclosed_cumul t bs ->
  map (resolve_block ((t ++ syms_of bs) ++ ext)) bs = map (resolve_block (t ++ syms_of bs)) bs.
Proof.
  induction bs as [|b bs IH]; intros t ext H; [reflexivity|]. destruct H as [H1 H2].
  cbn [map]. rewrite syms_of_cons. f_equal.
  - rewrite (app_assoc t), <- (app_assoc (t ++ db_symbols b)).
    rewrite (dblock_closed_resolve _ (t ++ db_symbols b) _ (N.le_refl _) _ H1).
    rewrite (dblock_closed_resolve _ (t ++ db_symbols b) _ (N.le_refl _) _ H1). reflexivity.
  - rewrite (app_assoc t). apply IH. exact H2.
Qed.

Lemma view_cumul_closed bs : forall t, bclosed_cumul t bs ->
  view_cumul t bs = map (dblock_view (t ++ syms_of bs)) bs.
Proof.
  induction bs as [|b bs IH]; intros t H; [reflexivity|]. destruct H as [H1 H2].
  cbn [view_cumul map]. rewrite syms_of_cons, (app_assoc t). f_equal.
  - unfold dblock_view. rewrite (dblock_closed_resolve _ (t ++ db_symbols b) _ (N.le_refl _) _ H1). reflexivity.
  - apply IH. exact H2.
Qed.

Lemma bclosed_cumul_app bs : forall t b, bclosed_cumul t bs ->
  dblock_closed (offset + lenN ((t ++ syms_of bs) ++ db_symbols b)) b = true -> bclosed_cumul t (bs ++ [b]).
Proof.
  induction bs as [|x bs IH]; intros t b H Hb; cbn [app bclosed_cumul].
  - unfold syms_of in Hb. cbn [map concat] in Hb. rewrite app_nil_r in Hb. split; [exact Hb | exact I].
  - destruct H as [H1 H2]. split; [exact H1|]. apply IH; [exact H2|].
    rewrite syms_of_cons, (app_assoc t) in Hb. exact Hb.
Qed.

(* The invariant of tokens produced by Build / Append (of a block built once from
   CreateBlock of that token) / Seal / reload, over the base table [base]
   ([] for the default builder and the default Unmarshal). *)
Definition token_inv (base : table) (tok : token) : Prop :=
  tk_symbols tok = base ++ syms_of (all_blocks tok) /\
  table_wf (tk_symbols tok) /\
  bclosed_cumul base (all_blocks tok) /\
  mapM (fun sb => dec_block (sb_block sb)) (all_sblocks (tk_container tok)) = Ok (all_blocks tok) /\
  match c_rootid (tk_container tok) with Some r => r < two32 | None => True end /\
  Forall wf_sblock (all_sblocks (tk_container tok)).

(* the size gates of Unmarshal *)
Definition sized (tok : token) : Prop :=
  Forall (fun sb => length (sb_key sb) = 32%nat /\ length (sb_sig sb) = 64%nat) (all_sblocks (tk_container tok)).

Lemma token_inv_wf_container base tok :
  token_inv base tok -> small (tk_serialize tok) -> wf_container (tk_container tok).
Proof.
  intros (_ & _ & _ & _ & Hr & Ha) Hs. inversion Ha as [|? ? Ha1 Ha2]; subst.
  unfold wf_container. tauto.
Qed.

Theorem independent_decode_inv base tok :
  token_inv base tok -> small (tk_serialize tok) ->
  independent_decode base (tk_serialize tok) = Ok (map (dblock_view (tk_symbols tok)) (all_blocks tok)).
Proof.
  intros I Hs. pose proof (token_inv_wf_container _ _ I Hs) as Wc.
  destruct I as (E & _ & C & D & _ & _).
  unfold independent_decode, tk_serialize. rewrite (container_roundtrip _ Wc). cbn [bind].
  rewrite D. cbn [bind]. rewrite (view_cumul_closed _ _ C), E. reflexivity.
Qed.

Lemma map_view_resolve t bs : map (fun v => fst (fst v)) (map (dblock_view t) bs) = map (resolve_block t) bs.
Proof. rewrite map_map. reflexivity. Qed.

Corollary independent_decode_content base tok :
  token_inv base tok -> small (tk_serialize tok) ->
  exists views, independent_decode base (tk_serialize tok) = Ok views /\
                map (fun v => fst (fst v)) views = resolve_token tok.
Proof.
  intros I Hs. eexists. split; [apply independent_decode_inv; assumption|]. apply map_view_resolve.
Qed.

(* ---------- unmarshal_blocks ---------- *)
Definition utable (t : table) (bs : list dblock) : table :=
  fold_left (fun t b => sym_extend t (db_symbols b)) bs t.
Fixpoint uclosed (t : table) (bs : list dblock) : Prop :=
  match bs with
  | [] => True
  | b :: bs' => let t' := sym_extend t (db_symbols b) in
                dblock_closed (offset + lenN t') b = true /\ uclosed t' bs'
  end.

Lemma unmarshal_blocks_spec sbs : forall t bs t',
  unmarshal_blocks t sbs = Ok (bs, t') ->
  mapM (fun sb => dec_block (sb_block sb)) sbs = Ok bs /\ t' = utable t bs /\ uclosed t bs /\
  Forall (fun sb => length (sb_key sb) = 32%nat /\ length (sb_sig sb) = 64%nat) sbs.
Proof.
  induction sbs as [|sb sbs IH]; intros t bs t' H; cbn [unmarshal_blocks] in H.
  - apply ok_inj in H. apply pair_inj in H as [<- <-]. repeat split; constructor.
  - destruct (gate_and_decode sb) as [b| |] eqn:Eg; cbn [bind] in H; try discriminate.
    destruct (dblock_closed (offset + lenN (sym_extend t (db_symbols b))) b) eqn:Ec; cbn [negb] in H; [|discriminate].
    destruct (unmarshal_blocks (sym_extend t (db_symbols b)) sbs) as [[bs1 t1]| |] eqn:Eu; cbn [bind] in H; try discriminate.
    apply ok_inj in H. cbn [fst snd] in H. apply pair_inj in H as [<- <-].
    destruct (IH _ _ _ Eu) as (M & T & U & S).
    unfold gate_and_decode in Eg.
    destruct (length (sb_key sb) =? 32)%nat eqn:E1; cbn [negb] in Eg; [|discriminate].
    destruct (length (sb_sig sb) =? 64)%nat eqn:E2; cbn [negb] in Eg; [|discriminate].
    apply Nat.eqb_eq in E1, E2.
    cbn [mapM]. rewrite Eg. cbn [bind]. rewrite M. cbn [bind].
    split; [reflexivity|]. split; [exact T|]. split; [split; assumption|]. constructor; [split|]; assumption.
Qed.

Lemma utable_wf bs : forall t, table_wf (t ++ syms_of bs) -> utable t bs = t ++ syms_of bs.
Proof.
  induction bs as [|b bs IH]; intros t W; cbn [utable fold_left].
  - unfold syms_of. cbn [map concat]. rewrite app_nil_r. reflexivity.
  - rewrite syms_of_cons, app_assoc in *. rewrite sym_extend_app by (eapply table_wf_app_l; exact W).
    apply IH. exact W.
Qed.

Lemma unmarshal_blocks_accepts sbs : forall t bs,
  mapM (fun sb => dec_block (sb_block sb)) sbs = Ok bs ->
  Forall (fun sb => length (sb_key sb) = 32%nat /\ length (sb_sig sb) = 64%nat) sbs ->
  bclosed_cumul t bs -> table_wf (t ++ syms_of bs) ->
  unmarshal_blocks t sbs = Ok (bs, t ++ syms_of bs).
Proof.
  induction sbs as [|sb sbs IH]; intros t bs M S C W; cbn [mapM] in M.
  - apply ok_inj in M. subst bs. unfold syms_of. cbn [map concat unmarshal_blocks]. rewrite app_nil_r. reflexivity.
  - destruct (dec_block (sb_block sb)) as [b| |] eqn:Ed; cbn [bind] in M; try discriminate.
    destruct (mapM (fun sb0 => dec_block (sb_block sb0)) sbs) as [bs1| |] eqn:Em; cbn [bind] in M; try discriminate.
    apply ok_inj in M. subst bs. inversion S as [|? ? [S1 S2] S3]; subst. destruct C as [C1 C2].
    rewrite syms_of_cons, app_assoc in *.
    cbn [unmarshal_blocks]. unfold gate_and_decode. rewrite S1, S2, !Nat.eqb_refl. cbn [negb]. rewrite Ed. cbn [bind].
    rewrite sym_extend_app by (eapply table_wf_app_l; exact W). rewrite C1. cbn [negb].
    rewrite (IH _ _ eq_refl S3 C2 W). reflexivity.
Qed.

Section TokProofs.
  Variable pub : bytes -> bytes.
  Variable sign : bytes -> bytes -> bytes.

  (* ---------- C07_reload ---------- *)
  Theorem C07_reload base tok tok' :
    token_inv base tok -> small (tk_serialize tok) ->
    tk_unmarshal_with base (tk_serialize tok) = Ok tok' -> tok' = tok.
  Proof.
    intros I Hs H. pose proof (token_inv_wf_container _ _ I Hs) as Wc.
    destruct I as (E & W & C & D & _ & _).
    unfold tk_unmarshal_with, tk_serialize in H. rewrite (container_roundtrip _ Wc) in H. cbn [bind] in H.
    destruct (unmarshal_blocks base (c_auth (tk_container tok) :: c_blocks (tk_container tok))) as [[bs t]| |] eqn:Eu;
      cbn [bind] in H; try discriminate.
    destruct (unmarshal_blocks_spec _ _ _ _ Eu) as (M & T & _ & _).
    unfold all_sblocks in D. rewrite D in M. apply ok_inj in M. subst bs.
    rewrite utable_wf in T by (rewrite <- E; exact W). rewrite <- E in T. subst t.
    cbn [fst snd all_blocks] in H. apply ok_inj in H. subst tok'. destruct tok; reflexivity.
  Qed.

  Corollary C07_reload_observations base tok tok' :
    token_inv base tok -> small (tk_serialize tok) ->
    tk_unmarshal_with base (tk_serialize tok) = Ok tok' ->
    tk_authority tok' = tk_authority tok /\ tk_blocks tok' = tk_blocks tok /\
    tk_container tok' = tk_container tok /\ tk_symbols tok' = tk_symbols tok /\
    tk_serialize tok' = tk_serialize tok /\ resolve_token tok' = resolve_token tok /\
    revocation_ids (tk_container tok') = revocation_ids (tk_container tok) /\
    c_rootid (tk_container tok') = c_rootid (tk_container tok) /\
    token_inv base tok'.
  Proof. intros I Hs H. rewrite (C07_reload _ _ _ I Hs H). repeat split; try reflexivity; apply I. Qed.

  (* ... and the reload is accepted when keys and signatures have their sizes *)
  Theorem C07_reload_accepts base tok :
    token_inv base tok -> sized tok -> small (tk_serialize tok) ->
    tk_unmarshal_with base (tk_serialize tok) = Ok tok.
  Proof.
    intros I S Hs. pose proof (token_inv_wf_container _ _ I Hs) as Wc.
    destruct I as (E & W & C & D & _ & _).
    unfold tk_unmarshal_with, tk_serialize. rewrite (container_roundtrip _ Wc). cbn [bind].
    change (c_auth (tk_container tok) :: c_blocks (tk_container tok)) with (all_sblocks (tk_container tok)).
    rewrite (unmarshal_blocks_accepts _ base (all_blocks tok) D S C) by (rewrite <- E; exact W).
    cbn [bind fst snd all_blocks]. rewrite <- E. destruct tok; reflexivity.
  Qed.

  (* ---------- the version gate and the symbol check, for every accepted token ---------- *)
  Lemma mapM_dec_version sbs : forall bs,
    mapM (fun sb => dec_block (sb_block sb)) sbs = Ok bs -> Forall (fun b => db_version b = 3) bs.
  Proof.
    induction sbs as [|sb sbs IH]; intros bs M; cbn [mapM] in M.
    - apply ok_inj in M. subst bs. constructor.
    - destruct (dec_block (sb_block sb)) as [b| |] eqn:Ed; cbn [bind] in M; try discriminate.
      destruct (mapM (fun sb0 => dec_block (sb_block sb0)) sbs) as [bs1| |] eqn:Em; cbn [bind] in M; try discriminate.
      apply ok_inj in M. subst bs. constructor; [eapply dec_block_version; exact Ed | apply IH; reflexivity].
  Qed.

  Theorem C07_unmarshal_closed base bs t :
    tk_unmarshal_with base bs = Ok t ->
    uclosed base (all_blocks t) /\ tk_symbols t = utable base (all_blocks t) /\
    Forall (fun b => db_version b = 3) (all_blocks t) /\ sized t /\
    dec_container bs = Ok (tk_container t) /\
    mapM (fun sb => dec_block (sb_block sb)) (all_sblocks (tk_container t)) = Ok (all_blocks t).
  Proof.
    unfold tk_unmarshal_with. intros H.
    destruct (dec_container bs) as [c| |] eqn:Ec; cbn [bind] in H; try discriminate.
    destruct (unmarshal_blocks base (c_auth c :: c_blocks c)) as [[l t1]| |] eqn:Eu; cbn [bind] in H; try discriminate.
    cbn [fst snd] in H. destruct l as [|a l]; [discriminate|]. apply ok_inj in H. subst t.
    destruct (unmarshal_blocks_spec _ _ _ _ Eu) as (M & T & U & S).
    unfold all_blocks, sized, all_sblocks. cbn [tk_authority tk_blocks tk_symbols tk_container].
    split; [exact U|]. split; [exact T|]. split; [eapply mapM_dec_version; exact M|]. split; [exact S|].
    split; [reflexivity | exact M].
  Qed.

  Corollary C07_version_gate bs t :
    tk_unmarshal bs = Ok t -> Forall (fun b => db_version b = 3) (all_blocks t).
  Proof. intros H. apply (C07_unmarshal_closed [] bs t H). Qed.

  (* no capture: the table at the position of a block is a prefix of every later
     table, and resolving the block through any extension of it gives the same content *)
  Lemma sym_extend_prefix l : forall t, exists r, sym_extend t l = t ++ r.
  Proof.
    unfold sym_extend. induction l as [|s l IH]; intros t; cbn [fold_left].
    - exists []. rewrite app_nil_r. reflexivity.
    - destruct (sym_insert t s) as [t1 i] eqn:E. destruct (sym_insert_prefix _ _ _ _ E) as [r1 ->].
      cbn [fst]. destruct (IH (t ++ r1)) as [r2 ->]. exists (r1 ++ r2). rewrite app_assoc. reflexivity.
  Qed.
  Lemma utable_prefix bs : forall t, exists r, utable t bs = t ++ r.
  Proof.
    induction bs as [|b bs IH]; intros t; cbn [utable fold_left].
    - exists []. rewrite app_nil_r. reflexivity.
    - destruct (sym_extend_prefix (db_symbols b) t) as [r1 E]. rewrite E.
      destruct (IH (t ++ r1)) as [r2 E2]. unfold utable in E2. rewrite E2.
      exists (r1 ++ r2). rewrite app_assoc. reflexivity.
  Qed.

  Theorem uclosed_no_capture bs : forall t i b,
    uclosed t bs -> nth_error bs i = Some b ->
    let ti := utable t (firstn (S i) bs) in
    (exists rest, utable t bs = ti ++ rest) /\
    forall ext, resolve_block (ti ++ ext) b = resolve_block ti b.
  Proof.
    induction bs as [|x bs IH]; intros t i b U Hn; [destruct i; discriminate|].
    destruct U as [U1 U2]. destruct i as [|i]; cbn [nth_error] in Hn.
    - apply some_inj in Hn. subst x. cbn [firstn utable fold_left]. split.
      + apply (utable_prefix bs).
      + intros ext. apply (dblock_closed_resolve _ _ _ (N.le_refl _) _ U1).
    - cbn zeta. change (utable t (firstn (S (S i)) (x :: bs))) with (utable (sym_extend t (db_symbols x)) (firstn (S i) bs)).
      change (utable t (x :: bs)) with (utable (sym_extend t (db_symbols x)) bs).
      apply IH; assumption.
  Qed.

  (* stated on accepted tokens: whatever is appended later, every block of the
     token keeps the content it had under the token's own table *)
  Theorem C07_no_capture base bs t ext :
    tk_unmarshal_with base bs = Ok t ->
    map (resolve_block (tk_symbols t ++ ext)) (all_blocks t) = resolve_token t.
  Proof.
    intros H. destruct (C07_unmarshal_closed _ _ _ H) as (U & T & _). unfold resolve_token. fold (all_blocks t).
    apply map_ext_Forall. apply Forall_forall. intros b Hb.
    apply In_nth_error in Hb as [i Hi].
    destruct (uclosed_no_capture _ _ _ _ U Hi) as [[rest R] N]. cbv zeta in N.
    rewrite T, R, <- app_assoc, N, <- (app_nil_r (utable base (firstn (S i) (all_blocks t)) ++ rest)), <- app_assoc, N.
    reflexivity.
  Qed.

  Corollary C07_append_keeps_meaning base bs t blk src t' src' :
    tk_unmarshal_with base bs = Ok t -> tk_append pub sign t blk src = Ok (t', src') ->
    firstn (length (all_blocks t)) (resolve_token t') = resolve_token t.
  Proof.
    intros H A. unfold tk_append in A.
    destruct (c_proof (tk_container t)) as [s| |]; try discriminate.
    destruct (negb (length s =? 32)%nat); [discriminate|].
    destruct (negb (sym_disjoint (tk_symbols t) (db_symbols blk))); [discriminate|].
    destruct (gen_seed src) as [ks| |]; cbn [bind] in A; try discriminate.
    destruct (enc_block blk) as [eb| |]; cbn [bind] in A; try discriminate.
    destruct (append pub sign (tk_container t) eb src) as [r| |]; cbn [bind] in A; try discriminate.
    apply ok_inj in A. apply pair_inj in A as [<- _].
    unfold resolve_token. cbn [tk_authority tk_blocks tk_symbols].
    destruct (sym_extend_prefix (db_symbols blk) (tk_symbols t)) as [r1 ->].
    change (tk_authority t :: tk_blocks t ++ [blk]) with (all_blocks t ++ [blk]).
    rewrite map_app, firstn_app, firstn_all2 by (rewrite map_length; apply Nat.le_refl).
    rewrite map_length, Nat.sub_diag. cbn [firstn]. rewrite app_nil_r.
    apply (C07_no_capture _ _ _ r1 H).
  Qed.

  (* ---------- Build ---------- *)
  Lemma firstn_app_len {A} (a b : list A) : firstn (length a) (a ++ b) = a.
  Proof. induction a as [|x a IH]; cbn [length firstn app]; [destruct b; reflexivity | rewrite IH; reflexivity]. Qed.
  Lemma skipn_app_len {A} (a b : list A) : skipn (length a) (a ++ b) = b.
  Proof. induction a as [|x a IH]; cbn [length skipn app]; [reflexivity | exact IH]. Qed.

  Lemma enc_block_bytes b bs : enc_block b = Ok bs -> bs = encode_fields (fields_block b).
  Proof. unfold enc_block. destruct (block_ok b); [|discriminate]. intros H. apply ok_inj in H. auto. Qed.

  Lemma new_biscuit_ok root_seed rid base blk src tok src' :
    new_biscuit pub sign root_seed rid base blk src = Ok (tok, src') ->
    sym_disjoint base (db_symbols blk) = true /\
    exists bs seed, enc_block blk = Ok bs /\ gen_seed src = Ok (seed, src') /\
      tok = {| tk_authority := blk; tk_blocks := []; tk_symbols := sym_extend base (db_symbols blk);
               tk_container := {| c_rootid := rid;
                                  c_auth := {| sb_block := bs; sb_alg := 0; sb_key := pub seed;
                                               sb_sig := sign root_seed (bs ++ le32 0 ++ pub seed) |};
                                  c_blocks := []; c_proof := PNextSecret seed |} |}.
  Proof.
    unfold new_biscuit. destruct (sym_disjoint base (db_symbols blk)); cbn [negb]; [|discriminate].
    destruct (gen_seed src) as [[seed s']| |] eqn:Eg; cbn [bind]; try discriminate.
    destruct (enc_block blk) as [bs| |]; cbn [bind]; try discriminate.
    unfold build. rewrite Eg. cbn [bind fst snd]. intros H. apply ok_inj in H. apply pair_inj in H as [<- <-].
    split; [reflexivity|]. exists bs, seed. repeat split.
  Qed.

  Lemma block_decodes t blk bs :
    closed_block t blk -> small_table t -> db_version blk = 3 -> wf_block_c (resolve_block t blk) ->
    enc_block blk = Ok bs -> small bs -> dec_block bs = Ok blk.
  Proof.
    intros C Hs V W E Sb. apply (block_roundtrip blk bs); [|exact E].
    pose proof (wf_dblock_parts_of (offset + lenN t) Hs t blk (dblock_closed_of _ _ C) W) as (W1 & W2 & W3).
    rewrite (enc_block_bytes _ _ E) in Sb. unfold wf_dblock. tauto.
  Qed.

  Definition rid_ok (rid : option N) : Prop := match rid with Some r => r < two32 | None => True end.

  Theorem C07_content_build root_seed base rid ops src tok src' :
    let b := bu_exec (new_builder base rid) ops in
    table_wf base -> small_table (bu_syms b) ->
    bu_build pub sign root_seed b src = Ok (tok, src') ->
    tk_symbols tok = bu_syms b /\ tk_blocks tok = [] /\
    tk_symbols tok = base ++ db_symbols (tk_authority tok) /\
    table_wf (tk_symbols tok) /\ closed_block (tk_symbols tok) (tk_authority tok) /\
    resolve_token tok = [supplied base ops] /\
    db_context (tk_authority tok) = final_context ops /\ db_version (tk_authority tok) = 3 /\
    c_rootid (tk_container tok) = rid /\ c_blocks (tk_container tok) = [] /\
    sb_alg (c_auth (tk_container tok)) = 0 /\
    enc_block (tk_authority tok) = Ok (sb_block (c_auth (tk_container tok))) /\
    (exists seed, sb_key (c_auth (tk_container tok)) = pub seed) /\
    (exists m, sb_sig (c_auth (tk_container tok)) = sign root_seed m).
  Proof.
    cbv zeta. intros Wb Hs H.
    destruct (builder_content base rid ops) as (Est & [l El] & Erid & Ectx & W & R). cbv zeta in *.
    destruct (R Hs) as (C1 & C2 & C3 & Q1 & Q2 & Q3). specialize (W Wb).
    set (b := bu_exec (new_builder base rid) ops) in *.
    unfold bu_build in H. rewrite Est, El in H.
    assert (L : (length (base ++ l) <? length base)%nat = false).
    { apply Nat.ltb_ge. rewrite app_length. apply Nat.le_add_r. }
    rewrite L, firstn_app_len, skipn_app_len in H.
    apply new_biscuit_ok in H as (_ & bs & seed & Eb & _ & ->).
    cbn [tk_symbols tk_blocks tk_authority tk_container db_symbols db_context db_version c_rootid c_blocks c_auth
         sb_alg sb_block sb_key sb_sig].
    rewrite El in W. rewrite (sym_extend_app _ _ W), <- El.
    split; [reflexivity|]. split; [reflexivity|]. split; [reflexivity|]. split; [rewrite El; exact W|].
    split; [unfold closed_block; cbn [db_facts db_rules db_checks]; tauto|].
    split; [unfold resolve_token, resolve_block; cbn [tk_authority tk_blocks tk_symbols map db_facts db_rules db_checks];
            rewrite Q1, Q2, Q3; destruct (supplied base ops); reflexivity|].
    split; [exact Ectx|]. split; [reflexivity|]. split; [exact Erid|]. split; [reflexivity|]. split; [reflexivity|].
    split; [exact Eb|]. split; eexists; reflexivity.
  Qed.

  Theorem C07_build_inv root_seed base rid ops src tok src' :
    let b := bu_exec (new_builder base rid) ops in
    table_wf base -> small_table (bu_syms b) ->
    bu_build pub sign root_seed b src = Ok (tok, src') ->
    wf_block_c (supplied base ops) -> rid_ok rid -> small (sb_block (c_auth (tk_container tok))) ->
    token_inv base tok /\ dec_block (sb_block (c_auth (tk_container tok))) = Ok (tk_authority tok).
  Proof.
    cbv zeta. intros Wb Hs H Wc Hr Sb.
    destruct (C07_content_build _ _ _ _ _ _ _ Wb Hs H)
      as (E1 & E2 & E3 & W & C & R & Ectx & V & Erid & Ebl & Ealg & Eenc & _ & _).
    assert (D : dec_block (sb_block (c_auth (tk_container tok))) = Ok (tk_authority tok)).
    { apply (block_decodes (tk_symbols tok)); try assumption.
      - rewrite E1. exact Hs.
      - unfold resolve_token in R. rewrite E2 in R. cbn [map] in R. apply (f_equal (hd empty_block)) in R.
        cbn [hd] in R. rewrite R. exact Wc. }
    split; [|exact D]. unfold token_inv, all_blocks, all_sblocks. rewrite E2, Ebl, Erid.
    split; [unfold syms_of; cbn [map concat]; rewrite app_nil_r; exact E3|]. split; [exact W|].
    split; [cbn [bclosed_cumul]; split; [rewrite <- E3; apply dblock_closed_of; exact C | exact I]|].
    split; [cbn [mapM]; rewrite D; reflexivity|]. split; [exact Hr|].
    constructor; [unfold wf_sblock; rewrite Ealg; reflexivity | constructor].
  Qed.

  Corollary C07_build_decode root_seed base rid ops src tok src' :
    let b := bu_exec (new_builder base rid) ops in
    table_wf base -> small_table (bu_syms b) ->
    bu_build pub sign root_seed b src = Ok (tok, src') ->
    wf_block_c (supplied base ops) -> rid_ok rid -> small (sb_block (c_auth (tk_container tok))) ->
    small (tk_serialize tok) ->
    independent_decode base (tk_serialize tok) = Ok [(supplied base ops, final_context ops, 3)].
  Proof.
    cbv zeta. intros Wb Hs H Wc Hr Sb Ss.
    destruct (C07_build_inv _ _ _ _ _ _ _ Wb Hs H Wc Hr Sb) as [I _].
    destruct (C07_content_build _ _ _ _ _ _ _ Wb Hs H) as (_ & E2 & _ & _ & _ & R & Ectx & V & _).
    rewrite (independent_decode_inv _ _ I Ss). unfold all_blocks. rewrite E2. cbn [map]. unfold dblock_view.
    unfold resolve_token in R. rewrite E2 in R. cbn [map] in R. apply (f_equal (hd empty_block)) in R. cbn [hd] in R.
    rewrite R, Ectx, V. reflexivity.
  Qed.

  Lemma build_sized root_seed base rid ops src tok src' :
    (forall s, length (pub s) = 32%nat) -> (forall k m, length (sign k m) = 64%nat) ->
    table_wf base -> small_table (bu_syms (bu_exec (new_builder base rid) ops)) ->
    bu_build pub sign root_seed (bu_exec (new_builder base rid) ops) src = Ok (tok, src') -> sized tok.
  Proof.
    intros Hp Hsg Wb Hs H.
    destruct (C07_content_build _ _ _ _ _ _ _ Wb Hs H) as (_ & _ & _ & _ & _ & _ & _ & _ & _ & Ebl & _ & _ & [seed Ek] & [m Em]).
    unfold sized, all_sblocks. rewrite Ebl. constructor; [|constructor]. rewrite Ek, Em. split; [apply Hp | apply Hsg].
  Qed.

  (* ---------- Append ---------- *)
  Lemma tk_append_ok tok blk src tok' src' :
    tk_append pub sign tok blk src = Ok (tok', src') ->
    sym_disjoint (tk_symbols tok) (db_symbols blk) = true /\
    exists s bs seed, c_proof (tk_container tok) = PNextSecret s /\ enc_block blk = Ok bs /\
      tok' = {| tk_authority := tk_authority tok; tk_blocks := tk_blocks tok ++ [blk];
                tk_symbols := sym_extend (tk_symbols tok) (db_symbols blk);
                tk_container := {| c_rootid := c_rootid (tk_container tok); c_auth := c_auth (tk_container tok);
                                   c_blocks := c_blocks (tk_container tok) ++
                                     [{| sb_block := bs; sb_alg := 0; sb_key := pub seed;
                                         sb_sig := sign s (bs ++ le32 0 ++ pub seed) |}];
                                   c_proof := PNextSecret seed |} |}.
  Proof.
    unfold tk_append. destruct (c_proof (tk_container tok)) as [s| |] eqn:Ep; try discriminate.
    destruct (length s =? 32)%nat eqn:El; cbn [negb]; [|discriminate].
    destruct (sym_disjoint (tk_symbols tok) (db_symbols blk)); cbn [negb]; [|discriminate].
    destruct (gen_seed src) as [[seed s']| |] eqn:Eg; cbn [bind]; try discriminate.
    destruct (enc_block blk) as [bs| |]; cbn [bind]; try discriminate.
    unfold append. rewrite Ep, El. cbn [negb]. rewrite Eg. cbn [bind fst snd].
    intros H. apply ok_inj in H. apply pair_inj in H as [<- <-].
    split; [reflexivity|]. exists s, bs, seed. repeat split.
  Qed.

  Lemma bb_build_ok base ops blk bb' :
    let bb := bb_exec (new_bbuilder base) ops in
    bb_build bb = Ok (blk, bb') ->
    bb_syms bb = base ++ db_symbols blk /\ db_context blk = final_context ops /\ db_version blk = 3 /\
    db_facts blk = bb_facts bb /\ db_rules blk = bb_rules bb /\ db_checks blk = bb_checks bb /\
    bb_syms bb' = db_symbols blk /\ bb_start bb' = length base.
  Proof.
    cbv zeta. destruct (bbuilder_content base ops) as (Est & [l El] & Ectx & _). cbv zeta in *.
    unfold bb_build. rewrite Est, El.
    assert (L : (length (base ++ l) <? length base)%nat = false).
    { apply Nat.ltb_ge. rewrite app_length. apply Nat.le_add_r. }
    rewrite L, skipn_app_len. intros H. apply ok_inj in H. apply pair_inj in H as [<- <-].
    cbn. repeat split; try reflexivity. exact Ectx.
  Qed.

  Theorem C07_content_append base tok ops blk bb' src tok' src' :
    let bb := bb_exec (create_block tok) ops in
    token_inv base tok -> small_table (bb_syms bb) ->
    bb_build bb = Ok (blk, bb') ->
    tk_append pub sign tok blk src = Ok (tok', src') ->
    tk_symbols tok' = tk_symbols tok ++ db_symbols blk /\
    tk_authority tok' = tk_authority tok /\ tk_blocks tok' = tk_blocks tok ++ [blk] /\
    resolve_token tok' = resolve_token tok ++ [supplied (tk_symbols tok) ops] /\
    db_context blk = final_context ops /\ db_version blk = 3 /\
    (wf_block_c (supplied (tk_symbols tok) ops) -> small (sb_block (last_sblock (tk_container tok'))) ->
     token_inv base tok' /\ dec_block (sb_block (last_sblock (tk_container tok'))) = Ok blk).
  Proof.
    cbv zeta. unfold create_block. intros I Hs Hb Ha.
    destruct (bb_build_ok _ _ _ _ Hb) as (Es & Ectx & V & Ef & Er & Ec & _ & _).
    destruct (bbuilder_content (tk_symbols tok) ops) as (_ & _ & _ & W & R). cbv zeta in *.
    destruct I as (E & Wt & C & D & Hr & Ha').
    specialize (W Wt). destruct (R Hs) as (C1 & C2 & C3 & Q1 & Q2 & Q3).
    set (bb := bb_exec (new_bbuilder (tk_symbols tok)) ops) in *.
    rewrite Es in *. rewrite <- Ef in C1, Q1. rewrite <- Er in C2, Q2. rewrite <- Ec in C3, Q3.
    assert (Cb : closed_block (tk_symbols tok ++ db_symbols blk) blk) by (unfold closed_block; tauto).
    assert (Rb : resolve_block (tk_symbols tok ++ db_symbols blk) blk = supplied (tk_symbols tok) ops).
    { unfold resolve_block. rewrite Q1, Q2, Q3. destruct (supplied (tk_symbols tok) ops); reflexivity. }
    apply tk_append_ok in Ha as (_ & s & bs & seed & Ep & Eb & ->).
    cbn [tk_symbols tk_authority tk_blocks tk_container]. rewrite (sym_extend_app _ _ W).
    split; [reflexivity|]. split; [reflexivity|]. split; [reflexivity|].
    assert (Rt : map (resolve_block (tk_symbols tok ++ db_symbols blk)) (all_blocks tok) = resolve_token tok).
    { unfold resolve_token. fold (all_blocks tok). rewrite E. apply bclosed_resolve_ext. exact C. }
    split.
    { unfold resolve_token. cbn [tk_symbols tk_authority tk_blocks].
      change (tk_authority tok :: tk_blocks tok ++ [blk]) with (all_blocks tok ++ [blk]).
      rewrite map_app, Rt. cbn [map]. rewrite Rb. reflexivity. }
    split; [exact Ectx|]. split; [exact V|].
    intros Wc Sb. unfold last_sblock in Sb |- *. cbn [c_blocks c_auth] in Sb |- *. rewrite last_last in Sb |- *.
    cbn [sb_block] in Sb |- *.
    assert (Db : dec_block bs = Ok blk).
    { apply (block_decodes (tk_symbols tok ++ db_symbols blk)); try assumption. rewrite Rb. exact Wc. }
    split; [|exact Db]. unfold token_inv, all_blocks, all_sblocks.
    cbn [tk_symbols tk_authority tk_blocks tk_container c_rootid c_auth c_blocks].
    change (tk_authority tok :: tk_blocks tok ++ [blk]) with (all_blocks tok ++ [blk]).
    change (c_auth (tk_container tok) :: c_blocks (tk_container tok) ++
              [{| sb_block := bs; sb_alg := 0; sb_key := pub seed; sb_sig := sign s (bs ++ le32 0 ++ pub seed) |}])
      with (all_sblocks (tk_container tok) ++
              [{| sb_block := bs; sb_alg := 0; sb_key := pub seed; sb_sig := sign s (bs ++ le32 0 ++ pub seed) |}]).
    split.
    { rewrite syms_of_app, E, <- app_assoc. unfold syms_of at 3. cbn [map concat]. rewrite app_nil_r. reflexivity. }
    split; [exact W|].
    split.
    { apply bclosed_cumul_app; [exact C|]. rewrite <- E. apply dblock_closed_of. exact Cb. }
    split.
    { apply mapM_app; [exact D|]. cbn [mapM sb_block]. rewrite Db. reflexivity. }
    split; [exact Hr|]. apply Forall_app_iff. split; [exact Ha'|]. constructor; [reflexivity | constructor].
  Qed.

  Corollary C07_append_decode base tok ops blk bb' src tok' src' :
    let bb := bb_exec (create_block tok) ops in
    token_inv base tok -> small_table (bb_syms bb) ->
    bb_build bb = Ok (blk, bb') ->
    tk_append pub sign tok blk src = Ok (tok', src') ->
    wf_block_c (supplied (tk_symbols tok) ops) -> small (sb_block (last_sblock (tk_container tok'))) ->
    small (tk_serialize tok') ->
    independent_decode base (tk_serialize tok') =
      Ok (map (dblock_view (tk_symbols tok)) (all_blocks tok) ++ [(supplied (tk_symbols tok) ops, final_context ops, 3)]).
  Proof.
    cbv zeta. intros I Hs Hb Ha Wc Sb Ss.
    destruct (C07_content_append _ _ _ _ _ _ _ _ I Hs Hb Ha) as (E1 & E2 & E3 & R & Ectx & V & K).
    destruct (K Wc Sb) as [I' _]. rewrite (independent_decode_inv _ _ I' Ss).
    unfold all_blocks at 1. rewrite E2, E3.
    change (tk_authority tok :: tk_blocks tok ++ [blk]) with (all_blocks tok ++ [blk]).
    rewrite map_app. cbn [map].
    assert (Z : resolve_block (tk_symbols tok') blk = supplied (tk_symbols tok) ops).
    { unfold resolve_token in R. rewrite E2, E3 in R.
      change (tk_authority tok :: tk_blocks tok ++ [blk]) with (all_blocks tok ++ [blk]) in R.
      rewrite map_app in R. cbn [map] in R. fold (all_blocks tok) in R.
      assert (L : forall (a a' : list block) x y, length a = length a' -> a ++ [x] = a' ++ [y] -> x = y).
      { intros a. induction a as [|z a IHa]; intros [|z' a'] x y Hl Hxy; cbn [length app] in *; try discriminate.
        - congruence.
        - apply (IHa a'); [lia | congruence]. }
      apply (L _ _ _ _ (eq_trans (map_length _ _) (eq_sym (map_length _ _))) R). }
    unfold dblock_view at 2. rewrite Z, Ectx, V. f_equal. f_equal.
    destruct I as (E & _ & C & _). apply map_ext_Forall.
    pose proof (bclosed_resolve_ext _ base (db_symbols blk) C) as X. rewrite <- E, <- E1 in X.
    apply Forall_forall. intros b Hb'. unfold dblock_view. f_equal. f_equal.
    assert (Y : forall (l : list dblock) (f g : dblock -> block), map f l = map g l -> forall x, In x l -> f x = g x).
    { intros l. induction l as [|y l IHl]; intros f g Hm x Hx; [destruct Hx|].
      cbn [map] in Hm. destruct Hx as [<-|Hx]; [congruence|]. apply IHl; [congruence | exact Hx]. }
    exact (Y _ _ _ X b Hb').
  Qed.

  Lemma append_sized tok blk src tok' src' :
    (forall s, length (pub s) = 32%nat) -> (forall k m, length (sign k m) = 64%nat) ->
    sized tok -> tk_append pub sign tok blk src = Ok (tok', src') -> sized tok'.
  Proof.
    intros Hp Hsg S Ha. apply tk_append_ok in Ha as (_ & s & bs & seed & _ & _ & ->).
    unfold sized, all_sblocks in *. cbn [tk_container c_auth c_blocks].
    rewrite app_comm_cons. apply Forall_app_iff. split; [exact S|]. constructor; [|constructor].
    cbn [sb_key sb_sig]. split; [apply Hp | apply Hsg].
  Qed.

  (* ---------- Seal ---------- *)
  Theorem C07_seal_inv base tok tok' :
    token_inv base tok -> tk_seal sign tok = Ok tok' ->
    tk_authority tok' = tk_authority tok /\ tk_blocks tok' = tk_blocks tok /\ tk_symbols tok' = tk_symbols tok /\
    resolve_token tok' = resolve_token tok /\
    revocation_ids (tk_container tok') = revocation_ids (tk_container tok) /\
    c_rootid (tk_container tok') = c_rootid (tk_container tok) /\ token_inv base tok'.
  Proof.
    intros I H. unfold tk_seal, seal in H.
    destruct (c_proof (tk_container tok)) as [s| |]; cbn [bind] in H; try discriminate.
    destruct (negb (length s =? 32)%nat); cbn [bind] in H; [discriminate|].
    apply ok_inj in H. subst tok'. repeat split; try reflexivity; apply I.
  Qed.

  (* ------------------------------------------------------------------ *)
  (** * 4. C08: histories *)
  Variable root_seed : bytes.

  Ltac hstep_cases :=
    repeat match goal with
           | |- context [match ?x with _ => _ end] => destruct x eqn:?
           end.

  Lemma hstep_prefix s o s' out :
    hstep pub sign root_seed s o = (s', out) ->
    (exists l, hs_tokens s' = hs_tokens s ++ l) /\ (exists l, hs_blocks s' = hs_blocks s ++ l).
  Proof.
    destruct o; unfold hstep; hstep_cases; intros H; apply pair_inj in H as [<- <-];
      cbn [hs_tokens hs_blocks with_builders with_bbuilders add_block add_token];
      split; first [ exists []; rewrite app_nil_r; reflexivity | eexists; reflexivity ].
  Qed.

  Lemma hstep_tokens_prefix s o s' out :
    hstep pub sign root_seed s o = (s', out) -> exists l, hs_tokens s' = hs_tokens s ++ l.
  Proof. intros H. apply (hstep_prefix _ _ _ _ H). Qed.
  Lemma hstep_blocks_prefix s o s' out :
    hstep pub sign root_seed s o = (s', out) -> exists l, hs_blocks s' = hs_blocks s ++ l.
  Proof. intros H. apply (hstep_prefix _ _ _ _ H). Qed.

  Lemma hrun_prefix ops : forall s s' outs,
    hrun pub sign root_seed s ops = (s', outs) ->
    (exists l, hs_tokens s' = hs_tokens s ++ l) /\ (exists l, hs_blocks s' = hs_blocks s ++ l).
  Proof.
    induction ops as [|o ops IH]; intros s s' outs H; cbn [hrun] in H.
    - apply pair_inj in H as [<- <-]. split; exists []; rewrite app_nil_r; reflexivity.
    - destruct (hstep pub sign root_seed s o) as [s1 out] eqn:E1.
      destruct (hrun pub sign root_seed s1 ops) as [s2 outs2] eqn:E2. apply pair_inj in H as [<- <-].
      destruct (hstep_prefix _ _ _ _ E1) as [[l1 P1] [m1 Q1]]. destruct (IH _ _ _ E2) as [[l2 P2] [m2 Q2]].
      split; [exists (l1 ++ l2); rewrite P2, P1, app_assoc | exists (m1 ++ m2); rewrite Q2, Q1, app_assoc]; reflexivity.
  Qed.

  Lemma nth_error_app_some {A} (l l' : list A) i x : nth_error l i = Some x -> nth_error (l ++ l') i = Some x.
  Proof.
    intros H. rewrite nth_error_app1; [exact H|]. apply nth_error_Some. rewrite H. discriminate.
  Qed.

  (* No operation of any history changes a token or a block that already exists:
     every observation of it (printed form, bytes, revocation ids, decoded
     content, verdicts), being a function of the value, is unchanged. *)
  Theorem C08_frame ops s s' outs :
    hrun pub sign root_seed s ops = (s', outs) ->
    (forall i t, nth_error (hs_tokens s) i = Some t -> nth_error (hs_tokens s') i = Some t) /\
    (forall i b, nth_error (hs_blocks s) i = Some b -> nth_error (hs_blocks s') i = Some b).
  Proof.
    intros H. destruct (hrun_prefix _ _ _ _ H) as [[l P] [m Q]]. rewrite P, Q.
    split; intros i x Hx; apply nth_error_app_some; exact Hx.
  Qed.

  (* ---------- the state of block builder j depends only on the operations on j ---------- *)
  Inductive bbop := PAdd (o : bop) | PBuild.
  Definition proj1 (j : nat) (o : hop) : option bbop :=
    match o with
    | HBbAddFact k f => if Nat.eqb k j then Some (PAdd (BFact f)) else None
    | HBbAddRule k r => if Nat.eqb k j then Some (PAdd (BRule r)) else None
    | HBbAddCheck k c => if Nat.eqb k j then Some (PAdd (BCheck c)) else None
    | HBbSetContext k x => if Nat.eqb k j then Some (PAdd (BContext x)) else None
    | HBbBuild k => if Nat.eqb k j then Some PBuild else None
    | _ => None
    end.
  Fixpoint ops_on_bbuilder (j : nat) (ops : list hop) : list bbop :=
    match ops with
    | [] => []
    | o :: ops' => match proj1 j o with Some p => p :: ops_on_bbuilder j ops' | None => ops_on_bbuilder j ops' end
    end.
  Definition bbop_step (b : bbuilder) (o : bbop) : bbuilder :=
    match o with
    | PAdd a => bb_step b a
    | PBuild => match bb_build b with Ok (_, b') => b' | _ => b end
    end.

  Lemma nth_error_set_nth_same {A} (l : list A) : forall i x y, nth_error l i = Some y -> nth_error (set_nth l i x) i = Some x.
  Proof.
    induction l as [|z l IH]; intros [|i] x y H; cbn [nth_error set_nth] in *; try discriminate; [reflexivity|].
    eapply IH. exact H.
  Qed.
  Lemma nth_error_set_nth_other {A} (l : list A) : forall i j x, i <> j -> nth_error (set_nth l i x) j = nth_error l j.
  Proof.
    induction l as [|z l IH]; intros [|i] [|j] x H; cbn [nth_error set_nth]; try reflexivity; [contradiction|].
    apply IH. intros ->. apply H. reflexivity.
  Qed.

  Lemma hstep_bb_proj s o s' out j b :
    hstep pub sign root_seed s o = (s', out) -> nth_error (hs_bbuilders s) j = Some b ->
    nth_error (hs_bbuilders s') j = Some (match proj1 j o with Some p => bbop_step b p | None => b end).
  Proof.
    intros H Hj.
    destruct o; unfold hstep in H; cbn [proj1];
      try (revert H; hstep_cases; intros H; apply pair_inj in H as [<- <-];
           cbn [hs_bbuilders with_builders with_bbuilders add_block add_token];
           first [ exact Hj | apply nth_error_app_some; exact Hj ]).
    - (* HBbAddFact *)
      destruct (Nat.eqb_spec j0 j) as [->|Ne].
      + rewrite Hj in H. destruct (bb_add_fact b f) as [b' r] eqn:E. apply pair_inj in H as [<- <-].
        cbn [hs_bbuilders with_bbuilders bbop_step bb_step]. rewrite E. cbn [fst].
        eapply nth_error_set_nth_same. exact Hj.
      + revert H; hstep_cases; intros H; apply pair_inj in H as [<- <-]; cbn [hs_bbuilders with_bbuilders];
          [rewrite nth_error_set_nth_other by exact Ne|]; exact Hj.
    - destruct (Nat.eqb_spec j0 j) as [->|Ne].
      + rewrite Hj in H. apply pair_inj in H as [<- <-].
        cbn [hs_bbuilders with_bbuilders bbop_step bb_step]. eapply nth_error_set_nth_same. exact Hj.
      + revert H; hstep_cases; intros H; apply pair_inj in H as [<- <-]; cbn [hs_bbuilders with_bbuilders];
          [rewrite nth_error_set_nth_other by exact Ne|]; exact Hj.
    - destruct (Nat.eqb_spec j0 j) as [->|Ne].
      + rewrite Hj in H. apply pair_inj in H as [<- <-].
        cbn [hs_bbuilders with_bbuilders bbop_step bb_step]. eapply nth_error_set_nth_same. exact Hj.
      + revert H; hstep_cases; intros H; apply pair_inj in H as [<- <-]; cbn [hs_bbuilders with_bbuilders];
          [rewrite nth_error_set_nth_other by exact Ne|]; exact Hj.
    - destruct (Nat.eqb_spec j0 j) as [->|Ne].
      + rewrite Hj in H. apply pair_inj in H as [<- <-].
        cbn [hs_bbuilders with_bbuilders bbop_step bb_step]. eapply nth_error_set_nth_same. exact Hj.
      + revert H; hstep_cases; intros H; apply pair_inj in H as [<- <-]; cbn [hs_bbuilders with_bbuilders];
          [rewrite nth_error_set_nth_other by exact Ne|]; exact Hj.
    - (* HBbBuild *)
      destruct (Nat.eqb_spec j0 j) as [->|Ne].
      + rewrite Hj in H. cbn [bbop_step]. destruct (bb_build b) as [[blk b']| |]; apply pair_inj in H as [<- <-];
          cbn [hs_bbuilders with_bbuilders add_block]; [eapply nth_error_set_nth_same| |]; exact Hj.
      + revert H; hstep_cases; intros H; apply pair_inj in H as [<- <-];
          cbn [hs_bbuilders with_bbuilders add_block];
          try rewrite nth_error_set_nth_other by exact Ne; exact Hj.
  Qed.

  (* independence: an operation that does not mention builder j leaves it alone *)
  Corollary hstep_bb_indep s o s' out j b :
    hstep pub sign root_seed s o = (s', out) -> proj1 j o = None ->
    nth_error (hs_bbuilders s) j = Some b -> nth_error (hs_bbuilders s') j = Some b.
  Proof. intros H P Hj. pose proof (hstep_bb_proj _ _ _ _ _ _ H Hj) as X. rewrite P in X. exact X. Qed.

  Theorem hrun_bb_proj ops : forall s s' outs j b,
    hrun pub sign root_seed s ops = (s', outs) -> nth_error (hs_bbuilders s) j = Some b ->
    nth_error (hs_bbuilders s') j = Some (fold_left bbop_step (ops_on_bbuilder j ops) b).
  Proof.
    induction ops as [|o ops IH]; intros s s' outs j b H Hj; cbn [hrun] in H.
    - apply pair_inj in H as [<- <-]. exact Hj.
    - destruct (hstep pub sign root_seed s o) as [s1 out] eqn:E1.
      destruct (hrun pub sign root_seed s1 ops) as [s2 outs2] eqn:E2. apply pair_inj in H as [<- <-].
      pose proof (hstep_bb_proj _ _ _ _ _ _ E1 Hj) as X. cbn [ops_on_bbuilder].
      destruct (proj1 j o) as [p|]; cbn [fold_left]; eapply IH; eassumption.
  Qed.

  Lemma hrun_app a : forall s b,
    hrun pub sign root_seed s (a ++ b) =
    let '(s1, o1) := hrun pub sign root_seed s a in
    let '(s2, o2) := hrun pub sign root_seed s1 b in (s2, o1 ++ o2).
  Proof.
    induction a as [|o a IH]; intros s b; cbn [app hrun].
    - destruct (hrun pub sign root_seed s b); reflexivity.
    - destruct (hstep pub sign root_seed s o) as [s1 out]. rewrite IH.
      destruct (hrun pub sign root_seed s1 a) as [s2 o2]. destruct (hrun pub sign root_seed s2 b) as [s3 o3]. reflexivity.
  Qed.

  Lemma hrun_outs_length ops : forall s s' outs, hrun pub sign root_seed s ops = (s', outs) -> length outs = length ops.
  Proof.
    induction ops as [|o ops IH]; intros s s' outs H; cbn [hrun] in H.
    - apply pair_inj in H as [_ <-]. reflexivity.
    - destruct (hstep pub sign root_seed s o) as [s1 out]. destruct (hrun pub sign root_seed s1 ops) as [s2 o2] eqn:E.
      apply pair_inj in H as [_ <-]. cbn [length]. f_equal. eapply IH. exact E.
  Qed.

  (* the add operations a history applies to builder j *)
  Fixpoint own_adds (j : nat) (ops : list hop) : list bop :=
    match ops with
    | [] => []
    | o :: ops' => match proj1 j o with Some (PAdd a) => a :: own_adds j ops' | _ => own_adds j ops' end
    end.
  Definition no_build (j : nat) (ops : list hop) : Prop := Forall (fun o => proj1 j o <> Some PBuild) ops.

  Lemma proj_no_build j ops : no_build j ops -> ops_on_bbuilder j ops = map PAdd (own_adds j ops).
  Proof.
    induction 1 as [|o ops Ho Hops IH]; cbn [ops_on_bbuilder own_adds]; [reflexivity|].
    destruct (proj1 j o) as [[a|]|]; [cbn [map]; rewrite IH; reflexivity | contradiction | exact IH].
  Qed.
  Lemma fold_adds l : forall b, fold_left bbop_step (map PAdd l) b = bb_exec b l.
  Proof. induction l as [|a l IH]; intros b; cbn [map fold_left bb_exec]; [reflexivity | apply IH]. Qed.

  Lemma built_block_content base ops :
    let bb := bb_exec (new_bbuilder base) ops in
    table_wf base -> small_table (bb_syms bb) ->
    exists blk bb', bb_build bb = Ok (blk, bb') /\
      bb_syms bb = base ++ db_symbols blk /\ table_wf (base ++ db_symbols blk) /\
      sym_extend base (db_symbols blk) = base ++ db_symbols blk /\
      closed_block (base ++ db_symbols blk) blk /\
      resolve_block (base ++ db_symbols blk) blk = supplied base ops /\
      db_context blk = final_context ops /\ db_version blk = 3.
  Proof.
    cbv zeta. intros Wb Hs.
    destruct (bbuilder_content base ops) as (Est & [l El] & Ectx & W & R). cbv zeta in *.
    specialize (W Wb). destruct (R Hs) as (C1 & C2 & C3 & Q1 & Q2 & Q3).
    destruct (bb_build (bb_exec (new_bbuilder base) ops)) as [[blk bb']| |] eqn:Hb.
    - destruct (bb_build_ok _ _ _ _ Hb) as (Es & Ec & V & Ef & Er & Ek & _ & _).
      exists blk, bb'. rewrite Es in *. rewrite <- Ef in C1, Q1. rewrite <- Er in C2, Q2. rewrite <- Ek in C3, Q3.
      split; [reflexivity|]. split; [reflexivity|]. split; [exact W|]. split; [apply sym_extend_app; exact W|].
      split; [unfold closed_block; tauto|].
      split; [unfold resolve_block; rewrite Q1, Q2, Q3; destruct (supplied base ops); reflexivity|].
      split; assumption.
    - exfalso. unfold bb_build in Hb. destruct (length (bb_syms (bb_exec (new_bbuilder base) ops)) <? bb_start (bb_exec (new_bbuilder base) ops))%nat; discriminate.
    - exfalso. unfold bb_build in Hb. rewrite Est, El in Hb.
      assert (L : (length (base ++ l) <? length base)%nat = false).
      { apply Nat.ltb_ge. rewrite app_length. apply Nat.le_add_r. }
      rewrite L in Hb. discriminate.
  Qed.

  (* One block builder created from [tok], in ANY history: the block its first
     Build produces resolves, under the parent's table extended with the block's
     own symbols, to exactly what was added to THAT builder. *)
  Theorem C08_own_content j tok pre post s s' outs :
    nth_error (hs_bbuilders s) j = Some (create_block tok) ->
    hrun pub sign root_seed s (pre ++ HBbBuild j :: post) = (s', outs) ->
    no_build j pre ->
    let adds := own_adds j pre in
    table_wf (tk_symbols tok) -> small_table (bb_syms (bb_exec (create_block tok) adds)) ->
    nth_error outs (length pre) = Some HDone /\
    exists k blk, nth_error (hs_blocks s') k = Some blk /\ (length (hs_blocks s) <= k)%nat /\
      resolve_block (sym_extend (tk_symbols tok) (db_symbols blk)) blk = supplied (tk_symbols tok) adds /\
      closed_block (sym_extend (tk_symbols tok) (db_symbols blk)) blk /\
      db_context blk = final_context adds /\ db_version blk = 3.
  Proof.
    cbv zeta. intros Hj H Nb Wt Hs. rewrite hrun_app in H.
    destruct (hrun pub sign root_seed s pre) as [s1 o1] eqn:E1.
    pose proof (hrun_bb_proj _ _ _ _ _ _ E1 Hj) as Hj1. rewrite (proj_no_build _ _ Nb), fold_adds in Hj1.
    cbn [hrun] in H. destruct (hstep pub sign root_seed s1 (HBbBuild j)) as [s2 out] eqn:E2.
    destruct (hrun pub sign root_seed s2 post) as [s3 o3] eqn:E3. apply pair_inj in H as [<- <-].
    unfold create_block in *.
    destruct (built_block_content (tk_symbols tok) (own_adds j pre) Wt Hs) as (blk & bb' & Hb & Es & W & Ex & C & R & Ec & V).
    unfold hstep in E2. rewrite Hj1, Hb in E2. apply pair_inj in E2 as [<- <-].
    split.
    { rewrite nth_error_app2 by (rewrite (hrun_outs_length _ _ _ _ E1); apply Nat.le_refl).
      rewrite (hrun_outs_length _ _ _ _ E1), Nat.sub_diag. reflexivity. }
    exists (length (hs_blocks s1)), blk.
    destruct (hrun_prefix _ _ _ _ E1) as [_ [m1 Q1]].
    split.
    { apply (C08_frame _ _ _ _ E3). cbn [hs_blocks add_block with_bbuilders].
      rewrite nth_error_app2 by apply Nat.le_refl. rewrite Nat.sub_diag. reflexivity. }
    split; [rewrite Q1, app_length; apply Nat.le_add_r|]. rewrite Ex. tauto.
  Qed.

  (* Two block builders created from the same token, then any interleaving of
     operations on them and on everything else: each one's first Build yields
     exactly the content its own caller added. *)
  Theorem C08_siblings t tok rest s s' outs :
    nth_error (hs_tokens s) t = Some tok ->
    hrun pub sign root_seed s (HCreateBlock t :: HCreateBlock t :: rest) = (s', outs) ->
    table_wf (tk_symbols tok) ->
    forall j, j = length (hs_bbuilders s) \/ j = S (length (hs_bbuilders s)) ->
    forall pre post, rest = pre ++ HBbBuild j :: post -> no_build j pre ->
    let adds := own_adds j pre in
    small_table (bb_syms (bb_exec (create_block tok) adds)) ->
    nth_error outs (2 + length pre) = Some HDone /\
    exists k blk, nth_error (hs_blocks s') k = Some blk /\
      resolve_block (sym_extend (tk_symbols tok) (db_symbols blk)) blk = supplied (tk_symbols tok) adds /\
      db_context blk = final_context adds /\ db_version blk = 3.
  Proof.
    cbv zeta. intros Ht H Wt j Hj pre post -> Nb Hs.
    cbn [hrun] in H. unfold hstep at 1 in H. rewrite Ht in H.
    set (s1 := with_bbuilders s (hs_bbuilders s ++ [create_block tok])) in H.
    unfold hstep at 1 in H. change (hs_tokens s1) with (hs_tokens s) in H. rewrite Ht in H.
    set (s2 := with_bbuilders s1 (hs_bbuilders s1 ++ [create_block tok])) in H.
    destruct (hrun pub sign root_seed s2 (pre ++ HBbBuild j :: post)) as [s3 o3] eqn:E. apply pair_inj in H as [<- <-].
    assert (Hn : nth_error (hs_bbuilders s2) j = Some (create_block tok)).
    { unfold s2, s1. cbn [hs_bbuilders with_bbuilders]. destruct Hj as [-> | ->].
      - rewrite <- app_assoc. rewrite nth_error_app2 by apply Nat.le_refl. rewrite Nat.sub_diag. reflexivity.
      - rewrite nth_error_app2 by (rewrite app_length; cbn [length]; lia).
        rewrite app_length. cbn [length]. replace (S (length (hs_bbuilders s)) - (length (hs_bbuilders s) + 1))%nat with 0%nat by lia.
        reflexivity. }
    destruct (C08_own_content _ _ _ _ _ _ _ Hn E Nb Wt Hs) as (O & k & blk & Hk & _ & R & _ & Ec & V).
    split; [exact O|]. exists k, blk. tauto.
  Qed.
End TokProofs.

(* ------------------------------------------------------------------ *)
(** * 5. Concrete histories: non-vacuity, and the double Build *)

Definition xpub (s : bytes) : bytes := s.
Definition xsign (k m : bytes) : bytes := firstn 64 (k ++ m ++ repeat 0 64).
Definition s_file1 : bytes := [102;105;108;101;49].
Definition s_alice : bytes := [97;108;105;99;101].
Definition s_right : bytes := [114;105;103;104;116].
Definition s_read : bytes := [114;101;97;100].
Definition s_owner : bytes := [111;119;110;101;114].
Definition s_foo : bytes := [102;111;111].
Definition s_bar : bytes := [98;97;114].
Definition s_query : bytes := [113;117;101;114;121].
Definition f1 : pred := {| p_name := s_right; p_terms := [TA (AStr s_file1); TA (AStr s_read)] |}.
Definition f2 : pred := {| p_name := s_owner; p_terms := [TA (AStr s_alice)] |}.
Definition g1 : pred := {| p_name := s_foo; p_terms := [TA (AInt 1)] |}.
Definition h1 : pred := {| p_name := s_bar; p_terms := [TA (AInt 1)] |}.
Definition h2 : pred := {| p_name := s_bar; p_terms := [TA (AStr s_file1)] |}.
Definition c1 : check := [{| r_head := {| p_name := s_query; p_terms := [] |};
                             r_body := [{| p_name := s_foo; p_terms := [TA (AVar [120])] |}]; r_exprs := [] |}].

(* build a token with two facts (a third, duplicate, is refused); create two
   block builders from it; interleave their adds; build both; append the first;
   reload; then Build each block builder a second time *)
Definition ex_hist : list hop :=
  [HNewBuilder [] None; HBuAddFact 0 f1; HBuAddFact 0 f2; HBuAddFact 0 f1; HBuBuild 0 (repeat 7 32);
   HCreateBlock 0; HCreateBlock 0; HBbAddFact 0 g1; HBbAddFact 1 h1; HBbAddCheck 0 c1; HBbAddFact 1 h2;
   HBbBuild 0; HBbBuild 1; HAppend 0 0 (repeat 9 32); HReload 1; HBbBuild 0; HBbBuild 1].
Definition ex_run : hstate * list hout := hrun xpub xsign (repeat 1 32) hinit ex_hist.

Definition blk_auth : block := {| b_facts := [f1; f2]; b_rules := []; b_checks := [] |}.
Definition blk_one : block := {| b_facts := [g1]; b_rules := []; b_checks := [c1] |}.
Definition blk_two : block := {| b_facts := [h1; h2]; b_rules := []; b_checks := [] |}.

Example C08_example_outs :
  snd ex_run = [HDone; HDone; HDone; HFail EDuplicateFact; HDone; HDone; HDone; HDone; HDone; HDone; HDone;
                HDone; HDone; HDone; HDone; HDone; HPanicked].
Proof. vm_compute. reflexivity. Qed.

Example C08_example_content :
  map resolve_token (hs_tokens (fst ex_run)) = [[blk_auth]; [blk_auth; blk_one]; [blk_auth; blk_one]] /\
  map (fun t => independent_decode [] (tk_serialize t)) (hs_tokens (fst ex_run)) =
    [Ok [(blk_auth, [], 3)]; Ok [(blk_auth, [], 3); (blk_one, [], 3)]; Ok [(blk_auth, [], 3); (blk_one, [], 3)]] /\
  (* the sibling that was not appended holds exactly its own content *)
  match nth_error (hs_tokens (fst ex_run)) 0, nth_error (hs_blocks (fst ex_run)) 1 with
  | Some tok, Some blk => resolve_block (sym_extend (tk_symbols tok) (db_symbols blk)) blk = blk_two
  | _, _ => False
  end.
Proof. split; [vm_compute; reflexivity|]. split; vm_compute; reflexivity. Qed.

(* Build twice on one block builder: the builder's table was replaced by the
   split-off part (builder.go blockBuilder.Build), so the second Build either
   panics ("split index out of bound") or yields a block that declares no
   symbols and whose indexes resolve to nothing. *)
Theorem C08_rebuild_refuted :
  nth_error (snd ex_run) 11 = Some HDone /\ nth_error (snd ex_run) 15 = Some HDone /\
  nth_error (snd ex_run) 12 = Some HDone /\ nth_error (snd ex_run) 16 = Some HPanicked /\
  match nth_error (hs_tokens (fst ex_run)) 0, nth_error (hs_blocks (fst ex_run)) 0, nth_error (hs_blocks (fst ex_run)) 2 with
  | Some tok, Some first, Some second =>
      resolve_block (sym_extend (tk_symbols tok) (db_symbols first)) first = blk_one /\
      db_symbols second = [] /\
      b_facts (resolve_block (sym_extend (tk_symbols tok) (db_symbols second)) second) =
        [{| p_name := invalid_symbol 1026; p_terms := [TA (AInt 1)] |}]
  | _, _, _ => False
  end.
Proof. do 4 (split; [vm_compute; reflexivity|]). vm_compute. split; [reflexivity|]. split; reflexivity. Qed.

(* non-vacuity of the hypotheses of the C07 theorems, on the same objects *)
Definition ex_ops0 : list bop := [BFact f1; BFact f2; BFact f1].
Definition ex_dummy_block : dblock :=
  {| db_symbols := []; db_context := []; db_version := 0; db_facts := []; db_rules := []; db_checks := [] |}.
Definition ex_dummy : token :=
  {| tk_authority := ex_dummy_block; tk_blocks := []; tk_symbols := [];
     tk_container := {| c_rootid := None; c_auth := {| sb_block := []; sb_alg := 0; sb_key := []; sb_sig := [] |};
                        c_blocks := []; c_proof := PNone |} |}.
Definition ex_tok0 : token :=
  match bu_build xpub xsign (repeat 1 32) (bu_exec (new_builder [] None) ex_ops0) (repeat 7 32) with
  | Ok (t, _) => t | _ => ex_dummy end.
Definition ex_ops1 : list bop := [BFact g1; BCheck c1].
Definition ex_blk1 : dblock :=
  match bb_build (bb_exec (create_block ex_tok0) ex_ops1) with Ok (b, _) => b | _ => ex_dummy_block end.
Definition ex_tok1 : token :=
  match tk_append xpub xsign ex_tok0 ex_blk1 (repeat 9 32) with Ok (t, _) => t | _ => ex_dummy end.

Ltac wfc_tac := repeat first [exact I | split | constructor | (cbn; lia)].

Example C07_build_nonvacuous :
  bu_build xpub xsign (repeat 1 32) (bu_exec (new_builder [] None) ex_ops0) (repeat 7 32) = Ok (ex_tok0, []) /\
  table_wf [] /\ small_table (bu_syms (bu_exec (new_builder [] None) ex_ops0)) /\
  supplied [] ex_ops0 = blk_auth /\ wf_block_c (supplied [] ex_ops0) /\ rid_ok None /\
  small (sb_block (c_auth (tk_container ex_tok0))) /\ small (tk_serialize ex_tok0) /\
  token_inv [] ex_tok0 /\ sized ex_tok0 /\
  independent_decode [] (tk_serialize ex_tok0) = Ok [(blk_auth, [], 3)] /\
  tk_unmarshal (tk_serialize ex_tok0) = Ok ex_tok0.
Proof.
  assert (B : bu_build xpub xsign (repeat 1 32) (bu_exec (new_builder [] None) ex_ops0) (repeat 7 32) = Ok (ex_tok0, []))
    by (vm_compute; reflexivity).
  assert (Hs : small_table (bu_syms (bu_exec (new_builder [] None) ex_ops0))) by (vm_compute; discriminate).
  assert (Q : supplied [] ex_ops0 = blk_auth) by (vm_compute; reflexivity).
  assert (Wc : wf_block_c (supplied [] ex_ops0)) by (rewrite Q; wfc_tac).
  assert (S1 : small (sb_block (c_auth (tk_container ex_tok0)))) by (vm_compute; reflexivity).
  assert (S2 : small (tk_serialize ex_tok0)) by (vm_compute; reflexivity).
  destruct (C07_build_inv xpub xsign _ _ _ _ _ _ _ table_wf_nil Hs B Wc I S1) as [Inv _].
  assert (Sz : sized ex_tok0) by (unfold sized; vm_compute; repeat constructor).
  split; [exact B|]. split; [exact table_wf_nil|]. split; [exact Hs|]. split; [exact Q|]. split; [exact Wc|].
  split; [exact I|]. split; [exact S1|]. split; [exact S2|]. split; [exact Inv|]. split; [exact Sz|].
  split.
  - rewrite <- Q. change [] with (final_context ex_ops0) at 3.
    apply (C07_build_decode xpub xsign _ _ _ _ _ _ _ table_wf_nil Hs B Wc I S1 S2).
  - apply (C07_reload_accepts [] ex_tok0 Inv Sz S2).
Qed.

Example C07_append_nonvacuous :
  bb_build (bb_exec (create_block ex_tok0) ex_ops1) = Ok (ex_blk1, snd (match bb_build (bb_exec (create_block ex_tok0) ex_ops1) with Ok r => r | _ => (ex_dummy_block, create_block ex_tok0) end)) /\
  tk_append xpub xsign ex_tok0 ex_blk1 (repeat 9 32) = Ok (ex_tok1, []) /\
  token_inv [] ex_tok0 /\ small_table (bb_syms (bb_exec (create_block ex_tok0) ex_ops1)) /\
  supplied (tk_symbols ex_tok0) ex_ops1 = blk_one /\
  token_inv [] ex_tok1 /\ resolve_token ex_tok1 = [blk_auth; blk_one] /\
  independent_decode [] (tk_serialize ex_tok1) = Ok [(blk_auth, [], 3); (blk_one, [], 3)] /\
  tk_unmarshal (tk_serialize ex_tok1) = Ok ex_tok1.
Proof.
  destruct C07_build_nonvacuous as (_ & _ & _ & _ & _ & _ & _ & _ & Inv & Sz & _ & _).
  set (bb' := snd (match bb_build (bb_exec (create_block ex_tok0) ex_ops1) with Ok r => r | _ => (ex_dummy_block, create_block ex_tok0) end)).
  assert (B : bb_build (bb_exec (create_block ex_tok0) ex_ops1) = Ok (ex_blk1, bb')) by (vm_compute; reflexivity).
  assert (A : tk_append xpub xsign ex_tok0 ex_blk1 (repeat 9 32) = Ok (ex_tok1, [])) by (vm_compute; reflexivity).
  assert (Hs : small_table (bb_syms (bb_exec (create_block ex_tok0) ex_ops1))) by (vm_compute; discriminate).
  assert (Q : supplied (tk_symbols ex_tok0) ex_ops1 = blk_one) by (vm_compute; reflexivity).
  assert (Wc : wf_block_c (supplied (tk_symbols ex_tok0) ex_ops1)) by (rewrite Q; wfc_tac).
  assert (S1 : small (sb_block (last_sblock (tk_container ex_tok1)))) by (vm_compute; reflexivity).
  assert (S2 : small (tk_serialize ex_tok1)) by (vm_compute; reflexivity).
  destruct (C07_content_append xpub xsign [] ex_tok0 ex_ops1 ex_blk1 bb' _ ex_tok1 [] Inv Hs B A)
    as (_ & _ & _ & R & _ & _ & K).
  destruct (K Wc S1) as [Inv1 _].
  assert (Sz1 : sized ex_tok1) by (unfold sized; vm_compute; repeat constructor).
  assert (R0 : resolve_token ex_tok0 = [blk_auth]) by (vm_compute; reflexivity).
  split; [exact B|]. split; [exact A|]. split; [exact Inv|]. split; [exact Hs|]. split; [exact Q|].
  split; [exact Inv1|]. split; [rewrite R, R0, Q; reflexivity|]. split.
  - rewrite (C07_append_decode xpub xsign [] ex_tok0 ex_ops1 ex_blk1 bb' _ ex_tok1 [] Inv Hs B A Wc S1 S2).
    rewrite Q. vm_compute. reflexivity.
  - apply (C07_reload_accepts [] ex_tok1 Inv1 Sz1 S2).
Qed.

(* Unmarshal's table is built with Extend (Insert de-duplicates): on a foreign
   token whose second block re-declares a symbol of the first, the library's
   table is shorter than the concatenation the published rule prescribes, and an
   index of the second block means different strings to the two readers.  The
   token is accepted (ErrMissingSymbols does not apply: 1025 is below the end). *)
Definition ex_dup_auth : dblock :=
  {| db_symbols := [[97]]; db_context := []; db_version := 3; db_facts := []; db_rules := []; db_checks := [] |}.
Definition ex_dup_blk : dblock :=
  {| db_symbols := [[97]; [98]]; db_context := []; db_version := 3;
     db_facts := [{| dp_name := 1025; dp_terms := [] |}]; db_rules := []; db_checks := [] |}.
Definition ex_dup_bytes : bytes :=
  let eb b := match enc_block b with Ok x => x | _ => [] end in
  enc_container {| c_rootid := None;
                   c_auth := {| sb_block := eb ex_dup_auth; sb_alg := 0; sb_key := repeat 1 32; sb_sig := repeat 2 64 |};
                   c_blocks := [{| sb_block := eb ex_dup_blk; sb_alg := 0; sb_key := repeat 3 32; sb_sig := repeat 4 64 |}];
                   c_proof := PNextSecret (repeat 3 32) |}.
Example unmarshal_redeclared_symbol_diverges :
  match tk_unmarshal ex_dup_bytes with
  | Ok t => tk_symbols t = [[97]; [98]] /\
            map (fun b => map p_name (b_facts b)) (resolve_token t) = [[]; [[98]]]
  | _ => False
  end /\
  match independent_decode [] ex_dup_bytes with
  | Ok vs => map (fun v => map p_name (b_facts (fst (fst v)))) vs = [[]; [[97]]]
  | _ => False
  end.
Proof. split; vm_compute; [split|]; reflexivity. Qed.

(* ------------------------------------------------------------------ *)
Print Assumptions builder_content.
Print Assumptions bbuilder_content.
Print Assumptions independent_decode_inv.
Print Assumptions C07_content_build.
Print Assumptions C07_build_inv.
Print Assumptions C07_build_decode.
Print Assumptions C07_content_append.
Print Assumptions C07_append_decode.
Print Assumptions C07_seal_inv.
Print Assumptions C07_reload.
Print Assumptions C07_reload_observations.
Print Assumptions C07_reload_accepts.
Print Assumptions C07_unmarshal_closed.
Print Assumptions C07_version_gate.
Print Assumptions uclosed_no_capture.
Print Assumptions C07_no_capture.
Print Assumptions C07_append_keeps_meaning.
Print Assumptions C08_frame.
Print Assumptions hstep_bb_indep.
Print Assumptions hrun_bb_proj.
Print Assumptions C08_own_content.
Print Assumptions C08_siblings.
Print Assumptions C08_rebuild_refuted.
Print Assumptions C07_build_nonvacuous.
Print Assumptions C07_append_nonvacuous.

(* ------------------------------------------------------------------ *)
(** * 6. Go's Equal on indexes is Equal on contents

   FactSet.Insert / GetBlockID compare D-level predicates by index; under a
   well-formed table and on closed values this is the S-level Predicate.Equal of
   the resolved values.  Hence the builders' duplicate test is the S-level one,
   and the supplied content has a description that does not mention indexes. *)

Section EqualCorr.
  Variable t : table.
  Hypothesis W : table_wf t.

  Lemma str_eqb x y : valid_index t x -> valid_index t y -> bytes_eqb (sym_str t x) (sym_str t y) = N.eqb x y.
  Proof.
    intros Hx Hy. destruct (N.eqb_spec x y) as [->|Ne]; [apply bytes_eqb_refl|].
    destruct (bytes_eqb (sym_str t x) (sym_str t y)) eqn:E; [|reflexivity].
    apply bytes_eqb_eq in E. exfalso. apply Ne. eapply sym_str_inj; eassumption.
  Qed.

  Lemma datom_eqb_resolve a b : closed_atom t a -> closed_atom t b ->
    atom_eqb (resolve_atom t a) (resolve_atom t b) = datom_eqb a b.
  Proof.
    destruct a, b; cbn [closed_atom resolve_atom atom_eqb datom_eqb]; intros Ha Hb; try reflexivity;
      apply str_eqb; assumption.
  Qed.

  Lemma existsb_ext_Forall {A} (f g : A -> bool) l : Forall (fun x => f x = g x) l -> existsb f l = existsb g l.
  Proof. induction 1 as [|x l Hx Hl IH]; cbn [existsb]; [reflexivity | rewrite Hx, IH; reflexivity]. Qed.
  Lemma forallb_ext_Forall {A} (f g : A -> bool) l : Forall (fun x => f x = g x) l -> forallb f l = forallb g l.
  Proof. induction 1 as [|x l Hx Hl IH]; cbn [forallb]; [reflexivity | rewrite Hx, IH; reflexivity]. Qed.
  Lemma existsb_map {A B} (f : B -> bool) (g : A -> B) l : existsb f (map g l) = existsb (fun x => f (g x)) l.
  Proof. induction l as [|x l IH]; cbn [map existsb]; [reflexivity | rewrite IH; reflexivity]. Qed.
  Lemma forallb_map {A B} (f : B -> bool) (g : A -> B) l : forallb f (map g l) = forallb (fun x => f (g x)) l.
  Proof. induction l as [|x l IH]; cbn [map forallb]; [reflexivity | rewrite IH; reflexivity]. Qed.

  Lemma dset_equal_resolve s c : Forall (closed_atom t) s -> Forall (closed_atom t) c ->
    set_equal (map (resolve_atom t) s) (map (resolve_atom t) c) = dset_equal s c.
  Proof.
    intros Hs Hc. unfold set_equal, dset_equal. rewrite !map_length. f_equal; [f_equal|].
    - rewrite forallb_map. apply forallb_ext_Forall. eapply Forall_imp; [|exact Hs]. intros a Ha.
      unfold set_contains. rewrite existsb_map. apply existsb_ext_Forall.
      eapply Forall_imp; [|exact Hc]. intros b Hb. apply datom_eqb_resolve; assumption.
    - rewrite forallb_map. apply forallb_ext_Forall. eapply Forall_imp; [|exact Hc]. intros a Ha.
      unfold set_contains. rewrite existsb_map. apply existsb_ext_Forall.
      eapply Forall_imp; [|exact Hs]. intros b Hb. apply datom_eqb_resolve; assumption.
  Qed.

  Lemma dterm_geqb_resolve a b : closed_term t a -> closed_term t b ->
    term_eqb (resolve_term t a) (resolve_term t b) = dterm_geqb a b.
  Proof.
    destruct a as [a|s], b as [b|c]; cbn [closed_term resolve_term term_eqb dterm_geqb]; intros Ha Hb;
      try reflexivity; [apply datom_eqb_resolve | apply dset_equal_resolve]; assumption.
  Qed.

  Lemma dterms_geqb_resolve l1 : forall l2, Forall (closed_term t) l1 -> Forall (closed_term t) l2 ->
    list_eqb term_eqb (map (resolve_term t) l1) (map (resolve_term t) l2) = list_eqb dterm_geqb l1 l2.
  Proof.
    induction l1 as [|a l1 IH]; intros [|b l2] H1 H2; cbn [map list_eqb]; try reflexivity.
    inversion H1; inversion H2; subst. rewrite dterm_geqb_resolve, IH by assumption. reflexivity.
  Qed.

  Lemma dpred_geqb_resolve p q : closed_pred t p -> closed_pred t q ->
    pred_eqb (resolve_pred t p) (resolve_pred t q) = dpred_geqb p q.
  Proof.
    intros [P1 P2] [Q1 Q2]. unfold pred_eqb, dpred_geqb, resolve_pred. cbn [p_name p_terms].
    rewrite str_eqb, dterms_geqb_resolve by assumption. reflexivity.
  Qed.

  Lemma dfact_in_resolve d fs : closed_pred t d -> Forall (closed_pred t) fs ->
    fact_in (resolve_pred t d) (map (resolve_pred t) fs) = dfact_in d fs.
  Proof.
    intros Hd Hfs. unfold fact_in, dfact_in. rewrite existsb_map. apply existsb_ext_Forall.
    eapply Forall_imp; [|exact Hfs]. intros g Hg. apply dpred_geqb_resolve; assumption.
  Qed.
End EqualCorr.

(* the supplied content, without indexes: FactSet.Insert on contents *)
Definition content_step_S (c : block) (o : bop) : block :=
  content_step c o (match o with BFact f => negb (fact_in f (b_facts c)) | _ => true end).
Definition supplied_S (ops : list bop) : block := fold_left content_step_S ops empty_block.

Lemma core_step_accepts k o k' acc c :
  core_step k o = (k', acc) -> table_wf (k_syms k) -> small_table (k_syms k') -> core_inv k c ->
  content_step c o acc = content_step_S c o.
Proof.
  destruct k as [t fs rs cs]. unfold content_step_S.
  destruct o as [f|r|c0|s]; cbn [core_step k_syms k_facts k_rules k_checks]; intros H Wt Hs I.
  - destruct (intern_pred t f) as [t1 d] eqn:E. destruct (good_pred _ _ _ _ E) as ([l P] & W & R).
    assert (Et : k_syms k' = t1) by (destruct (dfact_in d fs); apply pair_inj in H as [<- _]; reflexivity).
    rewrite Et in Hs. assert (Hs0 : small_table t) by (rewrite P in Hs; eapply small_table_app; exact Hs).
    destruct (I Hs0) as [(C1 & _ & _) Q]. cbn [k_syms k_facts] in C1. destruct (R Hs) as [Cd Qd].
    destruct (stable_list _ _ stable_pred t l _ C1) as [C1' Q1]. cbv beta in Q1. rewrite <- P in C1', Q1.
    assert (Ef : b_facts c = map (resolve_pred t1) fs) by (rewrite <- Q, Q1; reflexivity).
    assert (X : fact_in f (map (resolve_pred t1) fs) = dfact_in d fs).
    { rewrite <- Qd. apply dfact_in_resolve; [exact (W Wt) | exact Cd | exact C1']. }
    rewrite Ef, X.
    destruct (dfact_in d fs); apply pair_inj in H as [_ <-]; reflexivity.
  - destruct (intern_rule t r). apply pair_inj in H as [_ <-]. reflexivity.
  - destruct (intern_check t c0). apply pair_inj in H as [_ <-]. reflexivity.
  - apply pair_inj in H as [_ <-]. reflexivity.
Qed.

Lemma core_exec_S ops : forall k c k' c',
  core_exec k c ops = (k', c') -> table_wf (k_syms k) -> small_table (k_syms k') -> core_inv k c ->
  c' = fold_left content_step_S ops c.
Proof.
  induction ops as [|o ops IH]; intros k c k' c' H Wt Hs I; cbn [core_exec fold_left] in *.
  - apply pair_inj in H as [_ <-]. reflexivity.
  - destruct (core_step k o) as [k1 acc] eqn:E. destruct (core_step_spec _ _ _ _ E) as (_ & W1 & I1).
    destruct (core_exec_spec _ _ _ _ _ H) as ([l2 P2] & _ & _).
    assert (Hs1 : small_table (k_syms k1)) by (rewrite P2 in Hs; eapply small_table_app; exact Hs).
    rewrite <- (core_step_accepts _ _ _ _ c E Wt Hs1 I). apply (IH _ _ _ _ H (W1 Wt) Hs (I1 _ I)).
Qed.

(* what a builder over [base] was supplied with is determined by the calls alone:
   the base table, and every index, have disappeared from the description *)
Theorem supplied_is_S base ops :
  table_wf base -> small_table (k_syms (fst (core_exec (core_of_table base) empty_block ops))) ->
  supplied base ops = supplied_S ops.
Proof.
  intros Wb Hs. unfold supplied, supplied_S.
  destruct (core_exec (core_of_table base) empty_block ops) as [k c] eqn:E. cbn [fst snd] in *.
  apply (core_exec_S _ _ _ _ _ E Wb Hs (core_inv_init base)).
Qed.

Lemma bu_exec_syms base rid ops :
  bu_syms (bu_exec (new_builder base rid) ops) = k_syms (fst (core_exec (core_of_table base) empty_block ops)).
Proof.
  destruct (bu_exec_core ops (new_builder base rid) empty_block) as (E1 & _).
  change (bu_core (new_builder base rid)) with (core_of_table base) in E1. rewrite <- E1. reflexivity.
Qed.
Lemma bb_exec_syms base ops :
  bb_syms (bb_exec (new_bbuilder base) ops) = k_syms (fst (core_exec (core_of_table base) empty_block ops)).
Proof.
  destruct (bb_exec_core ops (new_bbuilder base) empty_block) as (E1 & _).
  change (bb_core (new_bbuilder base)) with (core_of_table base) in E1. rewrite <- E1. reflexivity.
Qed.

Corollary supplied_builder base rid ops :
  table_wf base -> small_table (bu_syms (bu_exec (new_builder base rid) ops)) -> supplied base ops = supplied_S ops.
Proof. intros Wb Hs. rewrite bu_exec_syms in Hs. apply supplied_is_S; assumption. Qed.
Corollary supplied_bbuilder base ops :
  table_wf base -> small_table (bb_syms (bb_exec (new_bbuilder base) ops)) -> supplied base ops = supplied_S ops.
Proof. intros Wb Hs. rewrite bb_exec_syms in Hs. apply supplied_is_S; assumption. Qed.

Example supplied_S_example :
  supplied_S ex_ops0 = blk_auth /\ supplied_S ex_ops1 = blk_one /\
  supplied_S [BFact h1; BContext [1]; BFact h2; BFact h1] = blk_two.
Proof. repeat split; vm_compute; reflexivity. Qed.

Print Assumptions dpred_geqb_resolve.
Print Assumptions dfact_in_resolve.
Print Assumptions supplied_is_S.
