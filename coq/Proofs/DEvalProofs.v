(* DEvalProofs.v — the index level (Model/DEval.v) refines the S level
   (Expr/Datalog/Authz): resolving through the authorizer's symbol table commutes
   with every step of evaluation.

   Invariants carried: the table is well formed ([table_wf]: no repeated and no
   default string — what Insert maintains), every index held by a D-level value
   is valid in it ([closed_*]), the table only grows ([ext]).  Under these,
   index equality IS string equality ([str_eqb_res]), which is the content of
   "interning is injective". *)
From Coq Require Import Arith PeanoNat.
From BV Require Import Base Term Expr Datalog Authz DTerm Symbols Wire Token DEval.
From BV Require Import SymbolsProofs.

(* ------------------------------------------------------------------ *)
(** * 0. Extension of tables, and the relation "d is closed in t and resolves to s" *)

Definition ext (t t' : table) : Prop := exists l, t' = t ++ l.

Lemma ext_refl t : ext t t.
Proof. exists []. rewrite app_nil_r. reflexivity. Qed.
Lemma ext_trans a b c : ext a b -> ext b c -> ext a c.
Proof. intros [l1 ->] [l2 ->]. exists (l1 ++ l2). rewrite app_assoc. reflexivity. Qed.
Lemma ext_small t t' : ext t t' -> small_table t' -> small_table t.
Proof. intros [l ->]. apply small_table_app. Qed.

Definition rel {D A} (C : table -> D -> Prop) (R : table -> D -> A) (t : table) (d : D) (a : A) : Prop :=
  C t d /\ R t d = a.

Lemma rel_mono {D A} (C : table -> D -> Prop) (R : table -> D -> A) :
  stable C R -> forall t t' d a, ext t t' -> rel C R t d a -> rel C R t' d a.
Proof.
  intros S t t' d a [l ->] [H1 H2]. destruct (S t l d H1) as [S1 S2].
  split; [exact S1 | rewrite S2; exact H2].
Qed.

Lemma rel_self {D A} (C : table -> D -> Prop) (R : table -> D -> A) t d : C t d -> rel C R t d (R t d).
Proof. intros H. split; [exact H | reflexivity]. Qed.

(* lists *)
Definition CL {D} (C : table -> D -> Prop) (t : table) : list D -> Prop := Forall (C t).
Definition RL {D A} (R : table -> D -> A) (t : table) : list D -> list A := map (R t).

Lemma stable_L {D A} (C : table -> D -> Prop) (R : table -> D -> A) : stable C R -> stable (CL C) (RL R).
Proof. exact (stable_list C R). Qed.

Lemma rel_nil {D A} (C : table -> D -> Prop) (R : table -> D -> A) t : rel (CL C) (RL R) t [] [].
Proof. split; [constructor | reflexivity]. Qed.

Lemma rel_cons {D A} (C : table -> D -> Prop) (R : table -> D -> A) t d ds a l :
  rel C R t d a -> rel (CL C) (RL R) t ds l -> rel (CL C) (RL R) t (d :: ds) (a :: l).
Proof. intros [H1 H2] [H3 H4]. split; [constructor; assumption|]. unfold RL in *. cbn [map]. congruence. Qed.

Lemma rel_cons_inv {D A} (C : table -> D -> Prop) (R : table -> D -> A) t d ds l :
  rel (CL C) (RL R) t (d :: ds) l ->
  exists a l', l = a :: l' /\ rel C R t d a /\ rel (CL C) (RL R) t ds l'.
Proof.
  intros [H1 H2]. apply Forall_cons_iff in H1 as [Hd Hds]. unfold RL in H2. cbn [map] in H2.
  exists (R t d), (map (R t) ds). split; [symmetry; exact H2|].
  split; split; try assumption; reflexivity.
Qed.

Lemma rel_nil_inv {D A} (C : table -> D -> Prop) (R : table -> D -> A) t l :
  rel (CL C) (RL R) t [] l -> l = [].
Proof. intros [_ H]. symmetry. exact H. Qed.

Lemma rel_app {D A} (C : table -> D -> Prop) (R : table -> D -> A) t d1 d2 l1 l2 :
  rel (CL C) (RL R) t d1 l1 -> rel (CL C) (RL R) t d2 l2 -> rel (CL C) (RL R) t (d1 ++ d2) (l1 ++ l2).
Proof.
  intros [H1 H2] [H3 H4]. split; [apply Forall_app; split; assumption|].
  unfold RL in *. rewrite map_app. congruence.
Qed.

Lemma rel_length {D A} (C : table -> D -> Prop) (R : table -> D -> A) t ds l :
  rel (CL C) (RL R) t ds l -> length l = length ds.
Proof. intros [_ <-]. unfold RL. apply map_length. Qed.

(* the instances *)
Notation rel_atom := (rel closed_atom resolve_atom).
Notation rel_atoms := (rel (CL closed_atom) (RL resolve_atom)).
Notation rel_term := (rel closed_term resolve_term).
Notation rel_terms := (rel (CL closed_term) (RL resolve_term)).
Notation rel_pred := (rel closed_pred resolve_pred).
Notation rel_preds := (rel (CL closed_pred) (RL resolve_pred)).
Notation rel_combos := (rel (CL (CL closed_pred)) (RL (RL resolve_pred))).
Notation rel_op := (rel closed_op resolve_op).
Notation rel_expr := (rel (CL closed_op) (RL resolve_op)).
Notation rel_exprs := (rel (CL (CL closed_op)) (RL (RL resolve_op))).
Notation rel_rule := (rel closed_rule resolve_rule).
Notation rel_rules := (rel (CL closed_rule) (RL resolve_rule)).

(* bindings: the key is a variable index *)
Definition closed_bnd (t : table) (kv : N * dterm) : Prop := valid_index t (fst kv) /\ closed_term t (snd kv).
Definition resolve_bnd (t : table) (kv : N * dterm) : bytes * term := (sym_str t (fst kv), resolve_term t (snd kv)).
Lemma stable_bnd : stable closed_bnd resolve_bnd.
Proof.
  intros t l [k v] [H1 H2]. cbn [fst snd] in *. destruct (stable_term t l v H2) as [C Q].
  unfold closed_bnd, resolve_bnd. cbn [fst snd]. split; [split; [apply valid_index_app; exact H1 | exact C]|].
  rewrite Q, sym_str_extend by exact H1. reflexivity.
Qed.
Notation rel_bind := (rel (CL closed_bnd) (RL resolve_bnd)).

Lemma closed_rule_expr_eq t r :
  closed_rule t r <-> closed_pred t (dr_head r) /\ CL closed_pred t (dr_body r) /\ CL (CL closed_op) t (dr_exprs r).
Proof. reflexivity. Qed.

(* ------------------------------------------------------------------ *)
(** * 1. Index equality is string equality (interning is injective) *)

Theorem str_eqb_res t i j :
  table_wf t -> valid_index t i -> valid_index t j -> bytes_eqb (sym_str t i) (sym_str t j) = N.eqb i j.
Proof.
  intros W Hi Hj. destruct (N.eqb_spec i j) as [->|Hn]; [apply bytes_eqb_refl|].
  destruct (bytes_eqb (sym_str t i) (sym_str t j)) eqn:E; [|reflexivity].
  apply bytes_eqb_eq in E. apply (sym_str_inj t i j W Hi Hj) in E. contradiction.
Qed.

(* the two directions spelled out *)
Corollary intern_injective t s1 s2 t1 t2 i j :
  table_wf t -> sym_insert t s1 = (t1, i) -> sym_insert t1 s2 = (t2, j) -> (N.eqb i j = bytes_eqb s1 s2).
Proof.
  intros W H1 H2. pose proof (sym_insert_inj _ _ _ _ _ _ _ W H1 H2) as [A B].
  destruct (N.eqb_spec i j) as [E|E], (bytes_eqb s1 s2) eqn:F; try reflexivity.
  - apply A in E. subst. rewrite bytes_eqb_refl in F. discriminate.
  - apply bytes_eqb_eq in F. apply B in F. contradiction.
Qed.

Corollary resolve_after_intern t s t' i ext' : sym_insert t s = (t', i) -> sym_str (t' ++ ext') i = s.
Proof.
  intros H. rewrite sym_str_extend by (eapply sym_insert_valid; exact H). eapply sym_insert_str. exact H.
Qed.

Lemma atom_eqb_res t a b :
  table_wf t -> closed_atom t a -> closed_atom t b ->
  atom_eqb (resolve_atom t a) (resolve_atom t b) = datom_eqb a b.
Proof.
  intros W Ha Hb. destruct a as [x|x|x|x|x|x], b as [y|y|y|y|y|y];
    cbn [resolve_atom atom_eqb datom_eqb closed_atom] in *; try reflexivity; apply str_eqb_res; assumption.
Qed.

Lemma existsb_map_ext {A B} (f : A -> B) (p : B -> bool) (q : A -> bool) l :
  Forall (fun x => p (f x) = q x) l -> existsb p (map f l) = existsb q l.
Proof. induction 1 as [|x l Hx Hl IH]; [reflexivity|]. cbn [map existsb]. rewrite Hx, IH. reflexivity. Qed.
Lemma forallb_map_ext {A B} (f : A -> B) (p : B -> bool) (q : A -> bool) l :
  Forall (fun x => p (f x) = q x) l -> forallb p (map f l) = forallb q l.
Proof. induction 1 as [|x l Hx Hl IH]; [reflexivity|]. cbn [map forallb]. rewrite Hx, IH. reflexivity. Qed.
Lemma filter_map_ext {A B} (f : A -> B) (p : B -> bool) (q : A -> bool) l :
  Forall (fun x => p (f x) = q x) l -> filter p (map f l) = map f (filter q l).
Proof.
  induction 1 as [|x l Hx Hl IH]; [reflexivity|]. cbn [map filter]. rewrite Hx, IH.
  destruct (q x); reflexivity.
Qed.

Lemma set_contains_res t s a :
  table_wf t -> Forall (closed_atom t) s -> closed_atom t a ->
  set_contains (map (resolve_atom t) s) (resolve_atom t a) = dset_contains s a.
Proof.
  intros W Hs Ha. unfold set_contains, dset_contains. apply existsb_map_ext.
  eapply Forall_impl; [|exact Hs]. intros x Hx. apply atom_eqb_res; assumption.
Qed.

Lemma set_contains_flip_res t s a :
  table_wf t -> Forall (closed_atom t) s -> closed_atom t a ->
  existsb (fun x => atom_eqb (resolve_atom t a) x) (map (resolve_atom t) s) = existsb (fun x => datom_eqb a x) s.
Proof.
  intros W Hs Ha. apply existsb_map_ext.
  eapply Forall_impl; [|exact Hs]. intros x Hx. apply atom_eqb_res; assumption.
Qed.

Lemma set_incl_res t s c :
  table_wf t -> Forall (closed_atom t) s -> Forall (closed_atom t) c ->
  forallb (fun e => existsb (fun x => atom_eqb x e) (map (resolve_atom t) c)) (map (resolve_atom t) s) =
  forallb (fun e => existsb (fun x => datom_eqb x e) c) s.
Proof.
  intros W Hs Hc. apply forallb_map_ext. eapply Forall_impl; [|exact Hs]. intros x Hx.
  apply (set_contains_res t c x W Hc Hx).
Qed.

Lemma set_equal_res t s c :
  table_wf t -> Forall (closed_atom t) s -> Forall (closed_atom t) c ->
  set_equal (map (resolve_atom t) s) (map (resolve_atom t) c) = dset_equal s c.
Proof.
  intros W Hs Hc. unfold set_equal, dset_equal. rewrite !map_length.
  unfold set_contains. rewrite (set_incl_res t s c W Hs Hc), (set_incl_res t c s W Hc Hs). reflexivity.
Qed.

Lemma term_eqb_res t x y :
  table_wf t -> closed_term t x -> closed_term t y ->
  term_eqb (resolve_term t x) (resolve_term t y) = dterm_geqb x y.
Proof.
  intros W Hx Hy. destruct x as [a|s], y as [b|c]; cbn [resolve_term term_eqb dterm_geqb closed_term] in *;
    try reflexivity; [apply atom_eqb_res | apply set_equal_res]; assumption.
Qed.

Lemma list_eqb_map_ext {A B} (C : A -> Prop) (f : A -> B) (p : B -> B -> bool) (q : A -> A -> bool) :
  (forall x y, C x -> C y -> p (f x) (f y) = q x y) ->
  forall a b, Forall C a -> Forall C b -> list_eqb p (map f a) (map f b) = list_eqb q a b.
Proof.
  intros H a. induction a as [|x a IH]; intros [|y b] Ha Hb; cbn [map list_eqb]; try reflexivity.
  inversion Ha as [|? ? Hx Ha']; subst. inversion Hb as [|? ? Hy Hb']; subst.
  rewrite (H x y Hx Hy), (IH b Ha' Hb'). reflexivity.
Qed.

Lemma pred_eqb_res t p q :
  table_wf t -> closed_pred t p -> closed_pred t q ->
  pred_eqb (resolve_pred t p) (resolve_pred t q) = dpred_geqb p q.
Proof.
  intros W [Hp1 Hp2] [Hq1 Hq2]. unfold pred_eqb, dpred_geqb, resolve_pred. cbn [p_name p_terms].
  rewrite (str_eqb_res t _ _ W Hp1 Hq1).
  rewrite (list_eqb_map_ext (closed_term t) (resolve_term t) term_eqb dterm_geqb
             (fun x y Hx Hy => term_eqb_res t x y W Hx Hy) _ _ Hp2 Hq2). reflexivity.
Qed.

Lemma fact_in_res t f fs :
  table_wf t -> closed_pred t f -> Forall (closed_pred t) fs ->
  fact_in (resolve_pred t f) (map (resolve_pred t) fs) = dfact_in f fs.
Proof.
  intros W Hf Hfs. unfold fact_in, dfact_in. apply existsb_map_ext.
  eapply Forall_impl; [|exact Hfs]. intros g Hg. apply pred_eqb_res; assumption.
Qed.

Lemma insert_fact_res t fs f l a :
  table_wf t -> rel_preds t fs l -> rel_pred t f a -> rel_preds t (dinsert_fact fs f) (insert_fact l a).
Proof.
  intros W [H1 <-] [H2 <-]. unfold dinsert_fact, insert_fact, RL. rewrite (fact_in_res t f fs W H2 H1).
  destruct (dfact_in f fs).
  - split; [exact H1 | reflexivity].
  - split; [apply Forall_app; split; [exact H1 | constructor; [exact H2 | constructor]]|].
    rewrite map_app. reflexivity.
Qed.

Lemma insert_all_res t nf : forall fs l nl,
  table_wf t -> rel_preds t fs l -> rel_preds t nf nl -> rel_preds t (dinsert_all fs nf) (insert_all l nl).
Proof.
  induction nf as [|f nf IH]; intros fs l nl W Hfs Hnf.
  - apply rel_nil_inv in Hnf. subst nl. exact Hfs.
  - apply rel_cons_inv in Hnf as (a & nl' & -> & Hf & Hnf). unfold dinsert_all, insert_all. cbn [fold_left].
    apply IH; [exact W | apply insert_fact_res; assumption | exact Hnf].
Qed.

(* sets *)
Lemma set_add_res t acc a :
  table_wf t -> Forall (closed_atom t) acc -> closed_atom t a ->
  Forall (closed_atom t) (dset_add acc a) /\
  map (resolve_atom t) (dset_add acc a) = set_add (map (resolve_atom t) acc) (resolve_atom t a).
Proof.
  intros W H1 H2. unfold dset_add, set_add. rewrite (set_contains_res t acc a W H1 H2).
  destruct (dset_contains acc a); [split; [exact H1 | reflexivity]|].
  split; [apply Forall_app; split; [exact H1 | constructor; [exact H2 | constructor]]|].
  rewrite map_app. reflexivity.
Qed.

Lemma set_add_fold_res t s : forall acc,
  table_wf t -> Forall (closed_atom t) s -> Forall (closed_atom t) acc ->
  Forall (closed_atom t) (fold_left dset_add s acc) /\
  map (resolve_atom t) (fold_left dset_add s acc) =
  fold_left set_add (map (resolve_atom t) s) (map (resolve_atom t) acc).
Proof.
  induction s as [|a s IH]; intros acc W Hs Hacc; [split; [exact Hacc | reflexivity]|].
  inversion Hs as [|? ? Ha Hs']; subst. cbn [fold_left map].
  destruct (set_add_res t acc a W Hacc Ha) as [C Q]. rewrite <- Q. apply IH; assumption.
Qed.

Lemma set_union_res t a b :
  table_wf t -> Forall (closed_atom t) a -> Forall (closed_atom t) b ->
  Forall (closed_atom t) (dset_union a b) /\
  map (resolve_atom t) (dset_union a b) = set_union (map (resolve_atom t) a) (map (resolve_atom t) b).
Proof.
  intros W Ha Hb. unfold dset_union, set_union.
  destruct (set_add_fold_res t a [] W Ha (Forall_nil _)) as [C1 Q1]. cbn [map] in Q1. rewrite <- Q1.
  apply set_add_fold_res; assumption.
Qed.

Lemma set_intersect_fold_res t c s : forall acc,
  table_wf t -> Forall (closed_atom t) c -> Forall (closed_atom t) s -> Forall (closed_atom t) acc ->
  Forall (closed_atom t) (fold_left (fun acc a => if dset_contains c a then dset_add acc a else acc) s acc) /\
  map (resolve_atom t) (fold_left (fun acc a => if dset_contains c a then dset_add acc a else acc) s acc) =
  fold_left (fun acc a => if set_contains (map (resolve_atom t) c) a then set_add acc a else acc)
            (map (resolve_atom t) s) (map (resolve_atom t) acc).
Proof.
  induction s as [|a s IH]; intros acc W Hc Hs Hacc; [split; [exact Hacc | reflexivity]|].
  inversion Hs as [|? ? Ha Hs']; subst. cbn [fold_left map].
  rewrite (set_contains_res t c a W Hc Ha). destruct (dset_contains c a).
  - destruct (set_add_res t acc a W Hacc Ha) as [C Q]. rewrite <- Q. apply IH; assumption.
  - apply IH; assumption.
Qed.

Lemma set_intersect_res t a b :
  table_wf t -> Forall (closed_atom t) a -> Forall (closed_atom t) b ->
  Forall (closed_atom t) (dset_intersect a b) /\
  map (resolve_atom t) (dset_intersect a b) = set_intersect (map (resolve_atom t) a) (map (resolve_atom t) b).
Proof.
  intros W Ha Hb. unfold dset_intersect, set_intersect.
  apply (set_intersect_fold_res t b a [] W Hb Ha (Forall_nil _)).
Qed.

(* Match *)
Lemma is_var_res t x : is_var (resolve_term t x) = dis_var x.
Proof. destruct x as [[v|z|s|d|b|b]|l]; reflexivity. Qed.

Lemma terms_match_res t a : forall b,
  table_wf t -> Forall (closed_term t) a -> Forall (closed_term t) b ->
  terms_match (map (resolve_term t) a) (map (resolve_term t) b) = dterms_match a b.
Proof.
  induction a as [|x a IH]; intros [|y b] W Ha Hb; cbn [map terms_match dterms_match]; try reflexivity.
  inversion Ha as [|? ? Hx Ha']; subst. inversion Hb as [|? ? Hy Hb']; subst.
  rewrite !is_var_res, (term_eqb_res t x y W Hx Hy), (IH b W Ha' Hb'). reflexivity.
Qed.

Lemma pred_match_res t f p :
  table_wf t -> closed_pred t f -> closed_pred t p ->
  pred_match (resolve_pred t f) (resolve_pred t p) = dpred_match f p.
Proof.
  intros W [Hf1 Hf2] [Hp1 Hp2]. unfold pred_match, dpred_match, resolve_pred. cbn [p_name p_terms].
  rewrite (str_eqb_res t _ _ W Hf1 Hp1), (terms_match_res t _ _ W Hf2 Hp2). reflexivity.
Qed.

(* ------------------------------------------------------------------ *)
(** * 2. Expressions *)

Definition res_rel {D A} (C : table -> D -> Prop) (R : table -> D -> A) (t : table) (r : res D) (s : res A) : Prop :=
  match r with
  | Ok v => C t v /\ s = Ok (R t v)
  | Err e => s = Err e
  | Panic n => s = Panic n
  end.

Lemma res_rel_mono {D A} (C : table -> D -> Prop) (R : table -> D -> A) :
  stable C R -> forall t t' r s, ext t t' -> res_rel C R t r s -> res_rel C R t' r s.
Proof.
  intros S t t' [v|e|n] s [l ->] H; cbn [res_rel] in *; try exact H.
  destruct H as [H1 H2]. destruct (S t l v H1) as [S1 S2]. split; [exact S1 | rewrite S2; exact H2].
Qed.

Lemma term_type_res t x : term_type (resolve_term t x) = dterm_type x.
Proof. destruct x as [[v|z|s|d|b|b]|l]; reflexivity. Qed.

Lemma lookup_res t b bs v :
  table_wf t -> rel_bind t b bs -> valid_index t v ->
  lookup bs (sym_str t v) = option_map (resolve_term t) (dlookup b v) /\
  (forall x, dlookup b v = Some x -> closed_term t x).
Proof.
  intros W [C <-] Hv. induction b as [|[k x] b IH]; [split; [reflexivity | discriminate]|].
  apply Forall_cons_iff in C as [[Hk Hx] C]. cbn [fst snd] in Hk, Hx. specialize (IH C).
  unfold RL. cbn [map resolve_bnd fst snd lookup dlookup]. rewrite (str_eqb_res t k v W Hk Hv).
  destruct (N.eqb k v).
  - split; [reflexivity|]. intros y E. apply some_inj in E. subst y. exact Hx.
  - exact IH.
Qed.

Lemma dchecked_ref t z : res_rel closed_term resolve_term t (dchecked z) (checked z).
Proof. unfold dchecked, checked. destruct (in_int64 z); cbn [res_rel]; [split; [exact I | reflexivity] | reflexivity]. Qed.

Lemma eval_unary_ref t u v :
  closed_term t v -> res_rel closed_term resolve_term t (eval_unary_D t u v) (eval_unary u (resolve_term t v)).
Proof.
  intros Hv. destruct u; destruct v as [[x|x|x|x|x|x]|l];
    cbn [eval_unary_D eval_unary resolve_term resolve_atom res_rel closed_term closed_atom];
    try reflexivity; try (split; [first [exact I | exact Hv] | reflexivity]).
  split; [exact I|]. rewrite map_length. reflexivity.
Qed.

Lemma dcmp_op_ref t fi fd l r :
  res_rel closed_term resolve_term t (dcmp_op fi fd l r) (cmp_op fi fd (resolve_term t l) (resolve_term t r)).
Proof.
  destruct l as [[x|x|x|x|x|x]|l], r as [[y|y|y|y|y|y]|r];
    cbn [dcmp_op cmp_op resolve_term resolve_atom res_rel closed_term closed_atom];
    try reflexivity; (split; [exact I | reflexivity]).
Qed.

Lemma dstr_op_ref t f l r :
  res_rel closed_term resolve_term t (dstr_op t f l r) (str_op f (resolve_term t l) (resolve_term t r)).
Proof.
  destruct l as [[x|x|x|x|x|x]|l], r as [[y|y|y|y|y|y]|r];
    cbn [dstr_op str_op resolve_term resolve_atom res_rel closed_term closed_atom];
    try reflexivity; (split; [exact I | reflexivity]).
Qed.

Lemma dint_op_ref t f g l r :
  (forall a b, res_rel closed_term resolve_term t (f a b) (g a b)) ->
  res_rel closed_term resolve_term t (dint_op f l r) (int_op g (resolve_term t l) (resolve_term t r)).
Proof.
  intros H. destruct l as [[x|x|x|x|x|x]|l], r as [[y|y|y|y|y|y]|r];
    cbn [dint_op int_op resolve_term resolve_atom res_rel closed_term closed_atom];
    try reflexivity. apply H.
Qed.

Section Ref.
  Variable rx : bytes -> bytes -> option bool.

  Notation tres := (res_rel closed_term resolve_term).
  Notation sres := (res_rel (CL closed_term) (RL resolve_term)).

  Lemma pure_case t t' (x : res dterm) r s :
    table_wf t -> (t, x) = (t', r) -> tres t x s -> ext t t' /\ table_wf t' /\ tres t' r s.
  Proof. intros W E H. apply pair_inj in E as [<- <-]. split; [apply ext_refl|]. split; assumption. Qed.

  Theorem eval_binary_ref t o l r t' res :
    table_wf t -> closed_term t l -> closed_term t r ->
    eval_binary_D rx t o l r = (t', res) ->
    ext t t' /\ table_wf t' /\ tres t' res (eval_binary rx o (resolve_term t l) (resolve_term t r)).
  Proof.
    intros W Hl Hr E. destruct o; cbn [eval_binary_D] in E.
    - eapply pure_case; [exact W | exact E | apply dcmp_op_ref].
    - eapply pure_case; [exact W | exact E | apply dcmp_op_ref].
    - eapply pure_case; [exact W | exact E | apply dcmp_op_ref].
    - eapply pure_case; [exact W | exact E | apply dcmp_op_ref].
    - (* Equal *)
      eapply pure_case; [exact W | exact E |]. cbn [eval_binary]. rewrite !term_type_res.
      destruct (negb (ttype_eqb (dterm_type l) (dterm_type r))); [reflexivity|].
      destruct (dterm_type l); cbn [res_rel]; try reflexivity;
        (split; [exact I|]; rewrite (term_eqb_res t l r W Hl Hr); reflexivity).
    - (* Contains *)
      eapply pure_case; [exact W | exact E |]. cbn [eval_binary].
      destruct l as [[x|x|x|x|x|x]|s]; cbn [resolve_term resolve_atom];
        try (rewrite term_type_res; destruct (dterm_type r); reflexivity).
      + destruct r as [[y|y|y|y|y|y]|c]; cbn [resolve_term resolve_atom res_rel]; try reflexivity.
        split; [exact I | reflexivity].
      + rewrite term_type_res. cbn [closed_term] in Hl.
        destruct r as [a|c]; cbn [dterm_type resolve_term closed_term] in *.
        * destruct a as [y|y|y|y|y|y]; cbn [datom_type resolve_atom res_rel]; try reflexivity;
            (split; [exact I|]; rewrite <- (set_contains_flip_res t s _ W Hl Hr); reflexivity).
        * cbn [res_rel]. split; [exact I|]. rewrite (set_incl_res t c s W Hr Hl). reflexivity.
    - eapply pure_case; [exact W | exact E | apply dstr_op_ref].
    - eapply pure_case; [exact W | exact E | apply dstr_op_ref].
    - (* Regex *)
      eapply pure_case; [exact W | exact E |]. cbn [eval_binary].
      destruct l as [[x|x|x|x|x|x]|l], r as [[y|y|y|y|y|y]|r];
        cbn [resolve_term resolve_atom res_rel]; try reflexivity.
      destruct (rx (sym_str t y) (sym_str t x)) as [b|]; cbn [res_rel]; [split; [exact I | reflexivity] | reflexivity].
    - (* Add *)
      cbn [eval_binary].
      destruct l as [[x|x|x|x|x|x]|l];
        try (eapply pure_case; [exact W | exact E | apply dint_op_ref; intros a b; apply dchecked_ref]).
      + destruct r as [[y|y|y|y|y|y]|r];
          try (eapply pure_case; [exact W | exact E | reflexivity]).
        destruct (sym_insert t (sym_str t x ++ sym_str t y)) as [t1 i] eqn:Ei.
        apply pair_inj in E as [<- <-].
        split; [eapply sym_insert_prefix; exact Ei|]. split; [eapply sym_insert_nodup; [exact Ei | exact W]|].
        cbn [res_rel closed_term closed_atom resolve_term resolve_atom].
        split; [eapply sym_insert_valid; exact Ei|]. rewrite (sym_insert_str _ _ _ _ Ei). reflexivity.
    - eapply pure_case; [exact W | exact E | apply dint_op_ref; intros a b; apply dchecked_ref].
    - eapply pure_case; [exact W | exact E | apply dint_op_ref; intros a b; apply dchecked_ref].
    - eapply pure_case; [exact W | exact E | apply dint_op_ref; intros a b].
      destruct (Z.eqb b 0); [reflexivity | apply dchecked_ref].
    - eapply pure_case; [exact W | exact E |]. cbn [eval_binary].
      destruct l as [[x|x|x|x|x|x]|l], r as [[y|y|y|y|y|y]|r];
        cbn [resolve_term resolve_atom res_rel]; try reflexivity. split; [exact I | reflexivity].
    - eapply pure_case; [exact W | exact E |]. cbn [eval_binary].
      destruct l as [[x|x|x|x|x|x]|l], r as [[y|y|y|y|y|y]|r];
        cbn [resolve_term resolve_atom res_rel]; try reflexivity. split; [exact I | reflexivity].
    - eapply pure_case; [exact W | exact E |]. cbn [eval_binary].
      destruct l as [[x|x|x|x|x|x]|l], r as [[y|y|y|y|y|y]|r];
        cbn [resolve_term resolve_atom res_rel]; try reflexivity.
      cbn [closed_term] in *. destruct (set_intersect_res t l r W Hl Hr) as [C Q].
      split; [exact C | rewrite Q; reflexivity].
    - eapply pure_case; [exact W | exact E |]. cbn [eval_binary].
      destruct l as [[x|x|x|x|x|x]|l], r as [[y|y|y|y|y|y]|r];
        cbn [resolve_term resolve_atom res_rel]; try reflexivity.
      cbn [closed_term] in *. destruct (set_union_res t l r W Hl Hr) as [C Q].
      split; [exact C | rewrite Q; reflexivity].
  Qed.

  Lemma push_ref t st v sts :
    rel_terms t st sts -> closed_term t v -> sres t (push_D st v) (push sts (resolve_term t v)).
  Proof.
    intros [C <-] Hv. unfold push_D, push, RL. rewrite map_length.
    destruct (max_stack <=? length st)%nat; cbn [res_rel]; [reflexivity|].
    split; [constructor; assumption | reflexivity].
  Qed.

  Lemma step_ref t b st o t' r bs sts os :
    table_wf t -> rel_bind t b bs -> rel_terms t st sts -> rel_op t o os ->
    step_D rx t b st o = (t', r) ->
    ext t t' /\ table_wf t' /\ sres t' r (step rx bs sts os).
  Proof.
    intros W Hb Hst [Co <-] E. destruct o as [x|u|bo]; cbn [step_D resolve_op] in *.
    - assert (P : forall y, closed_term t y -> (t, push_D st y) = (t', r) ->
                  ext t t' /\ table_wf t' /\ sres t' r (push sts (resolve_term t y))).
      { intros y Hy E'. apply pair_inj in E' as [<- <-]. split; [apply ext_refl|]. split; [exact W|].
        apply push_ref; assumption. }
      cbn [closed_op] in Co.
      destruct x as [[v|z|s|d|c|c]|l]; try (cbn [step resolve_term resolve_atom]; apply (P _ Co E)).
      cbn [closed_term closed_atom] in Co. cbn [step resolve_term resolve_atom].
      destruct (lookup_res t b bs v W Hb Co) as [L1 L2]. rewrite L1.
      destruct (dlookup b v) as [y|]; cbn [option_map].
      + apply (P y (L2 y eq_refl) E).
      + apply pair_inj in E as [<- <-]. split; [apply ext_refl|]. split; [exact W | reflexivity].
    - apply pair_inj in E as [<- <-]. split; [apply ext_refl|]. split; [exact W|].
      destruct Hst as [Cst <-]. destruct st as [|v st]; [reflexivity|].
      apply Forall_cons_iff in Cst as [Cv Cst]. unfold RL. cbn [map step].
      pose proof (eval_unary_ref t u v Cv) as H. destruct (eval_unary_D t u v) as [y|e|n]; cbn [res_rel] in H.
      + destruct H as [Cy ->]. cbn [bind]. apply push_ref; [split; [exact Cst | reflexivity] | exact Cy].
      + rewrite H. reflexivity.
      + rewrite H. reflexivity.
    - destruct Hst as [Cst <-].
      destruct st as [|y [|x st]]; unfold RL; cbn [map step];
        try (apply pair_inj in E as [<- <-]; split; [apply ext_refl|]; split; [exact W | reflexivity]).
      apply Forall_cons_iff in Cst as [Cy Cst]. apply Forall_cons_iff in Cst as [Cx Cst].
      destruct (eval_binary_D rx t bo x y) as [t1 res] eqn:Eb. apply pair_inj in E as [<- <-].
      destruct (eval_binary_ref t bo x y t1 res W Cx Cy Eb) as (X & W1 & H).
      split; [exact X|]. split; [exact W1|].
      destruct res as [v|e|n]; cbn [res_rel] in H.
      + destruct H as [Cv ->]. cbn [bind]. apply push_ref; [|exact Cv].
        apply (rel_mono _ _ (stable_L _ _ stable_term) t t1 _ _ X). split; [exact Cst | reflexivity].
      + rewrite H. reflexivity.
      + rewrite H. reflexivity.
  Qed.

  Lemma run_ops_ref e : forall t b st t' r bs sts es,
    table_wf t -> rel_bind t b bs -> rel_terms t st sts -> rel_expr t e es ->
    run_ops_D rx t b st e = (t', r) ->
    ext t t' /\ table_wf t' /\ sres t' r (run_ops rx bs sts es).
  Proof.
    induction e as [|o e IH]; intros t b st t' r bs sts es W Hb Hst He E; cbn [run_ops_D] in E.
    - apply rel_nil_inv in He. subst es. apply pair_inj in E as [<- <-].
      split; [apply ext_refl|]. split; [exact W|]. destruct Hst as [C <-]. split; [exact C | reflexivity].
    - apply rel_cons_inv in He as (os & es' & -> & Ho & He). cbn [run_ops].
      destruct (step_D rx t b st o) as [t1 r1] eqn:Es.
      destruct (step_ref t b st o t1 r1 bs sts os W Hb Hst Ho Es) as (X1 & W1 & H1).
      destruct r1 as [st1|x|n]; cbn [res_rel] in H1.
      + destruct H1 as [C1 ->]. cbn [bind].
        destruct (IH t1 b st1 t' r bs (RL resolve_term t1 st1) es' W1
                    (rel_mono _ _ (stable_L _ _ stable_bnd) _ _ _ _ X1 Hb)
                    (rel_self _ _ _ _ C1)
                    (rel_mono _ _ (stable_L _ _ stable_op) _ _ _ _ X1 He) E) as (X2 & W2 & H2).
        split; [eapply ext_trans; eassumption|]. split; assumption.
      + apply pair_inj in E as [<- <-]. rewrite H1. split; [exact X1|]. split; [exact W1 | reflexivity].
      + apply pair_inj in E as [<- <-]. rewrite H1. split; [exact X1|]. split; [exact W1 | reflexivity].
  Qed.

  (* eval_D_refines *)
  Theorem eval_ref t e b t' r bs es :
    table_wf t -> rel_bind t b bs -> rel_expr t e es ->
    eval_D rx t e b = (t', r) ->
    ext t t' /\ table_wf t' /\ tres t' r (eval rx es bs).
  Proof.
    intros W Hb He E. unfold eval_D in E. destruct (run_ops_D rx t b [] e) as [t1 r1] eqn:Er.
    destruct (run_ops_ref e t b [] t1 r1 bs [] es W Hb (rel_nil _ _ _) He Er) as (X & W1 & H).
    unfold eval. destruct r1 as [st|x|n]; cbn [res_rel] in H.
    - destruct H as [C ->]. cbn [bind].
      destruct st as [|v [|w st]]; apply pair_inj in E as [<- <-]; split; try exact X; split; try exact W1;
        unfold RL; cbn [map res_rel]; try reflexivity.
      apply Forall_cons_iff in C as [Cv _]. split; [exact Cv | reflexivity].
    - apply pair_inj in E as [<- <-]. rewrite H. split; [exact X|]. split; [exact W1 | reflexivity].
    - apply pair_inj in E as [<- <-]. rewrite H. split; [exact X|]. split; [exact W1 | reflexivity].
  Qed.
End Ref.

(* ------------------------------------------------------------------ *)
(** * 3. Matching, rule application, Run, QueryRule *)

Definition opt_rel {D A} (C : table -> D -> Prop) (R : table -> D -> A) (t : table) (o : option D) (s : option A) : Prop :=
  match o with
  | Some d => C t d /\ s = Some (R t d)
  | None => s = None
  end.

Lemma rel_pred_parts t p ps :
  rel_pred t p ps -> rel_terms t (dp_terms p) (p_terms ps) /\ valid_index t (dp_name p) /\ p_name ps = sym_str t (dp_name p).
Proof. intros [[H1 H2] <-]. split; [split; [exact H2 | reflexivity]|]. split; [exact H1 | reflexivity]. Qed.

Lemma rel_rule_parts t r rs :
  rel_rule t r rs ->
  rel_pred t (dr_head r) (r_head rs) /\ rel_preds t (dr_body r) (r_body rs) /\ rel_exprs t (dr_exprs r) (r_exprs rs).
Proof.
  intros [(H1 & H2 & H3) <-]. split; [split; [exact H1 | reflexivity]|].
  split; split; try assumption; reflexivity.
Qed.

Lemma lenN_map {A B} (f : A -> B) l : lenN (map f l) = lenN l.
Proof. rewrite !lenN_length, map_length. reflexivity. Qed.

Lemma bind_terms_ref t pt : forall ft b pts fts bs,
  table_wf t -> rel_terms t pt pts -> rel_terms t ft fts -> rel_bind t b bs ->
  opt_rel (CL closed_bnd) (RL resolve_bnd) t (bind_terms_D pt ft b) (bind_terms pts fts bs).
Proof.
  induction pt as [|x pt IH]; intros ft b pts fts bs W Hp Hf Hb.
  - apply rel_nil_inv in Hp. subst pts. cbn [bind_terms_D bind_terms opt_rel].
    destruct Hb as [C <-]. split; [exact C | reflexivity].
  - apply rel_cons_inv in Hp as (xs & pts' & -> & [Cx <-] & Hp).
    destruct ft as [|v ft].
    + apply rel_nil_inv in Hf. subst fts. destruct Hb as [C <-].
      destruct x as [[k|z|s|d|c|c]|l]; cbn [bind_terms_D bind_terms opt_rel resolve_term resolve_atom];
        (split; [exact C | reflexivity]).
    + apply rel_cons_inv in Hf as (vs & fts' & -> & [Cv <-] & Hf).
      destruct x as [[k|z|s|d|c|c]|l]; cbn [bind_terms_D bind_terms resolve_term resolve_atom];
        try (apply IH; assumption).
      cbn [closed_term closed_atom] in Cx.
      destruct (lookup_res t b bs k W Hb Cx) as [L1 L2]. rewrite L1.
      destruct (dlookup b k) as [ex|]; cbn [option_map].
      * rewrite (term_eqb_res t v ex W Cv (L2 ex eq_refl)).
        destruct (dterm_geqb v ex); [apply IH; assumption | reflexivity].
      * apply IH; try assumption. apply rel_app; [exact Hb|].
        split; [constructor; [split; assumption | constructor] | reflexivity].
Qed.

Lemma bind_all_ref t ps : forall fs b pss fss bs,
  table_wf t -> rel_preds t ps pss -> rel_preds t fs fss -> rel_bind t b bs ->
  opt_rel (CL closed_bnd) (RL resolve_bnd) t (bind_all_D ps fs b) (bind_all pss fss bs).
Proof.
  induction ps as [|p ps IH]; intros fs b pss fss bs W Hp Hf Hb.
  - apply rel_nil_inv in Hp. subst pss. cbn [bind_all_D bind_all opt_rel].
    destruct Hb as [C <-]. split; [exact C | reflexivity].
  - apply rel_cons_inv in Hp as (p1 & pss' & -> & Hp1 & Hp). destruct fs as [|f fs].
    + apply rel_nil_inv in Hf. subst fss. cbn [bind_all_D bind_all opt_rel].
      destruct Hb as [C <-]. split; [exact C | reflexivity].
    + apply rel_cons_inv in Hf as (f1 & fss' & -> & Hf1 & Hf). cbn [bind_all_D bind_all].
      destruct (rel_pred_parts _ _ _ Hp1) as (Tp & _ & _). destruct (rel_pred_parts _ _ _ Hf1) as (Tf & _ & _).
      pose proof (bind_terms_ref t _ _ b _ _ bs W Tp Tf Hb) as H.
      destruct (bind_terms_D (dp_terms p) (dp_terms f) b) as [b'|]; cbn [opt_rel] in H.
      * destruct H as [C ->]. apply IH; try assumption. split; [exact C | reflexivity].
      * rewrite H. reflexivity.
Qed.

Lemma flat_cons_res {D A} (f : D -> A) (cD : list (list D)) l :
  map (map f) (flat_map (fun x => map (cons x) cD) l) =
  flat_map (fun x => map (cons x) (map (map f) cD)) (map f l).
Proof.
  induction l as [|x l IH]; [reflexivity|]. cbn [flat_map map]. rewrite map_app, IH. f_equal.
  rewrite !map_map. reflexivity.
Qed.

Lemma flat_cons_closed {D} (P : D -> Prop) (cD : list (list D)) l :
  Forall P l -> Forall (Forall P) cD -> Forall (Forall P) (flat_map (fun x => map (cons x) cD) l).
Proof.
  intros Hl Hc. induction Hl as [|x l Hx Hl IH]; [constructor|]. cbn [flat_map]. apply Forall_app. split; [|exact IH].
  apply Forall_map. eapply Forall_impl; [|exact Hc]. intros c Hcc. constructor; assumption.
Qed.

Lemma filter_Forall {A} (P : A -> Prop) f l : Forall P l -> Forall P (filter f l).
Proof.
  induction 1 as [|x l Hx Hl IH]; [constructor|]. cbn [filter]. destruct (f x); [constructor; assumption | exact IH].
Qed.

Lemma combos_ref t ps : forall facts pss fss,
  table_wf t -> rel_preds t ps pss -> rel_preds t facts fss ->
  rel_combos t (combos_D ps facts) (combos pss fss).
Proof.
  induction ps as [|p ps IH]; intros facts pss fss W Hp Hf.
  - apply rel_nil_inv in Hp. subst pss. cbn [combos_D combos].
    split; [constructor; [constructor | constructor] | reflexivity].
  - apply rel_cons_inv in Hp as (p1 & pss' & -> & [Cp <-] & Hp).
    destruct (IH facts pss' fss W Hp Hf) as [Cc Qc]. destruct Hf as [Cf <-].
    cbn [combos_D combos]. split.
    + apply flat_cons_closed; [apply filter_Forall; exact Cf | exact Cc].
    + unfold RL at 1 2. rewrite flat_cons_res. unfold RL in Qc. rewrite Qc.
      unfold RL. rewrite (filter_map_ext (resolve_pred t) (fun f => pred_match f (resolve_pred t p))
                            (fun f => dpred_match f p)); [reflexivity|].
      eapply Forall_impl; [|exact Cf]. intros f Hf. apply pred_match_res; assumption.
Qed.

Lemma inst_terms_ref t ts : forall b tss bs,
  table_wf t -> rel_terms t ts tss -> rel_bind t b bs ->
  opt_rel (CL closed_term) (RL resolve_term) t (inst_terms_D ts b) (inst_terms tss bs).
Proof.
  induction ts as [|x ts IH]; intros b tss bs W Ht Hb.
  - apply rel_nil_inv in Ht. subst tss. cbn [inst_terms_D inst_terms opt_rel]. split; [constructor | reflexivity].
  - apply rel_cons_inv in Ht as (xs & tss' & -> & [Cx <-] & Ht). specialize (IH b tss' bs W Ht Hb).
    assert (P : forall y, closed_term t y ->
              opt_rel (CL closed_term) (RL resolve_term) t
                (match inst_terms_D ts b with Some r => Some (y :: r) | None => None end)
                (match inst_terms tss' bs with Some r => Some (resolve_term t y :: r) | None => None end)).
    { intros y Hy. destruct (inst_terms_D ts b) as [r|]; cbn [opt_rel] in *.
      - destruct IH as [C ->]. split; [constructor; assumption | reflexivity].
      - rewrite IH. reflexivity. }
    destruct x as [[k|z|s|d|c|c]|l]; cbn [inst_terms_D inst_terms resolve_term resolve_atom];
      try (apply (P _ Cx)).
    cbn [closed_term closed_atom] in Cx. destruct (lookup_res t b bs k W Hb Cx) as [L1 L2]. rewrite L1.
    destruct (dlookup b k) as [v|]; cbn [option_map]; [apply (P v (L2 v eq_refl)) | reflexivity].
Qed.

Lemma inst_head_ref t h b hs bs :
  table_wf t -> rel_pred t h hs -> rel_bind t b bs ->
  opt_rel closed_pred resolve_pred t (inst_head_D h b) (inst_head hs bs).
Proof.
  intros W Hh Hb. destruct (rel_pred_parts _ _ _ Hh) as (Ht & Hn & En).
  unfold inst_head_D, inst_head. pose proof (inst_terms_ref t _ b _ bs W Ht Hb) as H.
  destruct (inst_terms_D (dp_terms h) b) as [ts|]; cbn [opt_rel] in *.
  - destruct H as [C ->]. split; [split; [exact Hn | exact C]|]. rewrite En. reflexivity.
  - rewrite H. reflexivity.
Qed.

Section Ref2.
  Variable rx : bytes -> bytes -> option bool.

  Lemma eval_exprs_ref es : forall t b t' r bs ess,
    table_wf t -> rel_bind t b bs -> rel_exprs t es ess ->
    eval_exprs_D rx t es b = (t', r) ->
    ext t t' /\ table_wf t' /\ eval_exprs rx ess bs = r.
  Proof.
    induction es as [|e es IH]; intros t b t' r bs ess W Hb He E; cbn [eval_exprs_D] in E.
    - apply rel_nil_inv in He. subst ess. apply pair_inj in E as [<- <-].
      split; [apply ext_refl|]. split; [exact W | reflexivity].
    - apply rel_cons_inv in He as (e1 & ess' & -> & He1 & He). cbn [eval_exprs].
      destruct (eval_D rx t e b) as [t1 r1] eqn:Ee.
      destruct (eval_ref rx t e b t1 r1 bs e1 W Hb He1 Ee) as (X1 & W1 & H1).
      destruct r1 as [v|x|n]; cbn [res_rel] in H1.
      + destruct H1 as [Cv ->]. cbn [bind].
        change (TA (ABool true)) with (resolve_term t1 (DA (DBool true))).
        rewrite (term_eqb_res t1 v (DA (DBool true)) W1 Cv I).
        destruct (dterm_geqb v (DA (DBool true))).
        * destruct (IH t1 b t' r bs ess' W1 (rel_mono _ _ (stable_L _ _ stable_bnd) _ _ _ _ X1 Hb)
                      (rel_mono _ _ (stable_L _ _ (stable_L _ _ stable_op)) _ _ _ _ X1 He) E) as (X2 & W2 & H2).
          split; [eapply ext_trans; eassumption|]. split; assumption.
        * apply pair_inj in E as [<- <-]. split; [exact X1|]. split; [exact W1 | reflexivity].
      + apply pair_inj in E as [<- <-]. rewrite H1. split; [exact X1|]. split; [exact W1 | reflexivity].
      + apply pair_inj in E as [<- <-]. rewrite H1. split; [exact X1|]. split; [exact W1 | reflexivity].
  Qed.

  Lemma consume_ref cs : forall t r acc t' acc' e rs css accs,
    table_wf t -> rel_rule t r rs -> rel_combos t cs css -> rel_preds t acc accs ->
    consume_D rx t r cs acc = (t', (acc', e)) ->
    ext t t' /\ table_wf t' /\ CL closed_pred t' acc' /\
    consume rx rs css accs = (RL resolve_pred t' acc', e).
  Proof.
    induction cs as [|c cs IH]; intros t r acc t' acc' e rs css accs W Hr Hc Ha E; cbn [consume_D] in E.
    - apply rel_nil_inv in Hc. subst css. apply pair_inj in E as [<- E]. apply pair_inj in E as [<- <-].
      split; [apply ext_refl|]. split; [exact W|]. destruct Ha as [C <-]. split; [exact C | reflexivity].
    - apply rel_cons_inv in Hc as (c1 & css' & -> & Hc1 & Hc). cbn [consume].
      destruct (rel_rule_parts _ _ _ Hr) as (Hh & Hbd & Hex).
      pose proof (bind_all_ref t _ c [] _ c1 [] W Hbd Hc1 (rel_nil _ _ _)) as Hb.
      destruct (bind_all_D (dr_body r) c []) as [b|]; cbn [opt_rel] in Hb.
      + destruct Hb as [Cb ->].
        destruct (eval_exprs_D rx t (dr_exprs r) b) as [t1 r1] eqn:Ee.
        destruct (eval_exprs_ref _ t b t1 r1 _ _ W (rel_self _ _ _ _ Cb) Hex Ee) as (X1 & W1 & ->).
        pose proof (rel_mono _ _ stable_rule _ _ _ _ X1 Hr) as Hr1.
        pose proof (rel_mono _ _ (stable_L _ _ (stable_L _ _ stable_pred)) _ _ _ _ X1 Hc) as Hc1'.
        pose proof (rel_mono _ _ (stable_L _ _ stable_pred) _ _ _ _ X1 Ha) as Ha1.
        destruct r1 as [[|]|x|n].
        * pose proof (rel_mono _ _ (stable_L _ _ stable_bnd) _ _ _ _ X1 (rel_self _ _ _ _ Cb)) as Hb1.
          pose proof (inst_head_ref t1 _ b _ _ W1 (rel_mono _ _ stable_pred _ _ _ _ X1 Hh) Hb1) as Hi.
          destruct (inst_head_D (dr_head r) b) as [f|]; cbn [opt_rel] in Hi.
          -- destruct Hi as [Cf ->].
             destruct (IH t1 r (dinsert_fact acc f) t' acc' e rs css' _ W1 Hr1 Hc1'
                         (insert_fact_res t1 acc f _ _ W1 Ha1 (rel_self _ _ _ _ Cf)) E) as (X2 & W2 & H2).
             split; [eapply ext_trans; eassumption|]. split; assumption.
          -- rewrite Hi. apply pair_inj in E as [<- E]. apply pair_inj in E as [<- <-].
             split; [exact X1|]. split; [exact W1|]. destruct Ha1 as [C <-]. split; [exact C | reflexivity].
        * destruct (IH t1 r acc t' acc' e rs css' accs W1 Hr1 Hc1' Ha1 E) as (X2 & W2 & H2).
          split; [eapply ext_trans; eassumption|]. split; assumption.
        * apply pair_inj in E as [<- E]. apply pair_inj in E as [<- <-].
          split; [exact X1|]. split; [exact W1|]. destruct Ha1 as [C <-]. split; [exact C | reflexivity].
        * apply pair_inj in E as [<- E]. apply pair_inj in E as [<- <-].
          split; [exact X1|]. split; [exact W1|]. destruct Ha1 as [C <-]. split; [exact C | reflexivity].
      + rewrite Hb. apply (IH t r acc t' acc' e rs css' accs W Hr Hc Ha E).
  Qed.

  Lemma apply_rule_ref t r facts acc t' acc' e rs fss accs :
    table_wf t -> rel_rule t r rs -> rel_preds t facts fss -> rel_preds t acc accs ->
    apply_rule_D rx t r facts acc = (t', (acc', e)) ->
    ext t t' /\ table_wf t' /\ CL closed_pred t' acc' /\
    apply_rule rx rs fss accs = (RL resolve_pred t' acc', e).
  Proof.
    intros W Hr Hf Ha E. unfold apply_rule_D in E. unfold apply_rule.
    destruct (rel_rule_parts _ _ _ Hr) as (_ & Hbd & _).
    apply (consume_ref _ t r acc t' acc' e rs _ accs W Hr (combos_ref t _ _ _ _ W Hbd Hf) Ha E).
  Qed.

  (* query_D_refines, at the level of World.QueryRule *)
  Theorem query_rule_ref t r facts t' res rs fss :
    table_wf t -> rel_rule t r rs -> rel_preds t facts fss ->
    query_rule_D rx t r facts = (t', res) ->
    ext t t' /\ table_wf t' /\ rel_preds t' res (query_rule rx rs fss).
  Proof.
    intros W Hr Hf E. unfold query_rule_D in E.
    destruct (apply_rule_D rx t r facts []) as [t1 [fs e]] eqn:Ea. apply pair_inj in E as [<- <-].
    destruct (apply_rule_ref t r facts [] t1 fs e rs fss [] W Hr Hf (rel_nil _ _ _) Ea) as (X & W1 & C & Q).
    split; [exact X|]. split; [exact W1|]. unfold query_rule. rewrite Q. split; [exact C | reflexivity].
  Qed.

  Lemma apply_rules_ref rs : forall t facts acc t' acc' e rss fss accs,
    table_wf t -> rel_rules t rs rss -> rel_preds t facts fss -> rel_preds t acc accs ->
    apply_rules_D rx t rs facts acc = (t', (acc', e)) ->
    ext t t' /\ table_wf t' /\ CL closed_pred t' acc' /\
    apply_rules rx rss fss accs = (RL resolve_pred t' acc', e).
  Proof.
    induction rs as [|r rs IH]; intros t facts acc t' acc' e rss fss accs W Hr Hf Ha E; cbn [apply_rules_D] in E.
    - apply rel_nil_inv in Hr. subst rss. apply pair_inj in E as [<- E]. apply pair_inj in E as [<- <-].
      split; [apply ext_refl|]. split; [exact W|]. destruct Ha as [C <-]. split; [exact C | reflexivity].
    - apply rel_cons_inv in Hr as (r1 & rss' & -> & Hr1 & Hr). cbn [apply_rules].
      destruct (apply_rule_D rx t r facts acc) as [t1 [acc1 e1]] eqn:Ea.
      destruct (apply_rule_ref t r facts acc t1 acc1 e1 r1 fss accs W Hr1 Hf Ha Ea) as (X1 & W1 & C1 & ->).
      destruct e1 as [x|].
      + apply pair_inj in E as [<- E]. apply pair_inj in E as [<- <-].
        split; [exact X1|]. split; [exact W1|]. split; [exact C1 | reflexivity].
      + destruct (IH t1 facts acc1 t' acc' e rss' fss _ W1
                    (rel_mono _ _ (stable_L _ _ stable_rule) _ _ _ _ X1 Hr)
                    (rel_mono _ _ (stable_L _ _ stable_pred) _ _ _ _ X1 Hf)
                    (rel_self _ _ _ _ C1) E) as (X2 & W2 & H2).
        split; [eapply ext_trans; eassumption|]. split; assumption.
  Qed.

  Lemma run_loop_ref mf fuel : forall t rs facts t' facts' e rss fss,
    table_wf t -> rel_rules t rs rss -> rel_preds t facts fss ->
    run_loop_D rx fuel mf t rs facts = (t', (facts', e)) ->
    ext t t' /\ table_wf t' /\ CL closed_pred t' facts' /\
    run_loop rx fuel mf rss fss = (RL resolve_pred t' facts', e).
  Proof.
    induction fuel as [|fuel IH]; intros t rs facts t' facts' e rss fss W Hr Hf E; cbn [run_loop_D] in E.
    - apply pair_inj in E as [<- E]. apply pair_inj in E as [<- <-].
      split; [apply ext_refl|]. split; [exact W|]. destruct Hf as [C <-]. split; [exact C | reflexivity].
    - cbn [run_loop].
      destruct (apply_rules_D rx t rs facts []) as [t1 [nf e1]] eqn:Ea.
      destruct (apply_rules_ref rs t facts [] t1 nf e1 rss fss [] W Hr Hf (rel_nil _ _ _) Ea) as (X1 & W1 & C1 & ->).
      pose proof (rel_mono _ _ (stable_L _ _ stable_pred) _ _ _ _ X1 Hf) as Hf1.
      destruct e1 as [x|].
      + apply pair_inj in E as [<- E]. apply pair_inj in E as [<- <-].
        split; [exact X1|]. split; [exact W1|]. destruct Hf1 as [C <-]. split; [exact C | reflexivity].
      + pose proof (insert_all_res t1 nf facts fss _ W1 Hf1 (rel_self _ _ _ _ C1)) as Hi.
        destruct Hi as [Ci Qi]. cbv zeta in E. cbv zeta.
        assert (L1 : lenN (insert_all fss (RL resolve_pred t1 nf)) = lenN (dinsert_all facts nf))
          by (rewrite <- Qi; apply lenN_map).
        assert (L2 : length (insert_all fss (RL resolve_pred t1 nf)) = length (dinsert_all facts nf))
          by (rewrite <- Qi; apply map_length).
        assert (L3 : length fss = length facts) by (eapply rel_length; exact Hf1).
        rewrite L1, L2, L3.
        destruct (mf <=? lenN (dinsert_all facts nf)).
        * apply pair_inj in E as [<- E]. apply pair_inj in E as [<- <-].
          split; [exact X1|]. split; [exact W1|]. split; [exact Ci | rewrite Qi; reflexivity].
        * destruct (Nat.eqb (length (dinsert_all facts nf)) (length facts)).
          -- apply pair_inj in E as [<- E]. apply pair_inj in E as [<- <-].
             split; [exact X1|]. split; [exact W1|]. split; [exact Ci | rewrite Qi; reflexivity].
          -- destruct (IH t1 rs (dinsert_all facts nf) t' facts' e rss _ W1
                         (rel_mono _ _ (stable_L _ _ stable_rule) _ _ _ _ X1 Hr)
                         (conj Ci Qi) E) as (X2 & W2 & H2).
             split; [eapply ext_trans; eassumption|]. split; assumption.
  Qed.

  (* run_D_refines *)
  Theorem run_ref lim t rs facts t' facts' e rss fss :
    table_wf t -> rel_rules t rs rss -> rel_preds t facts fss ->
    run_D rx lim t rs facts = (t', (facts', e)) ->
    ext t t' /\ table_wf t' /\ CL closed_pred t' facts' /\
    run rx lim rss fss = (RL resolve_pred t' facts', e).
  Proof. intros W Hr Hf E. unfold run_D in E. unfold run. eapply run_loop_ref; eassumption. Qed.
End Ref2.

(* ------------------------------------------------------------------ *)
(** * 4. The table only grows — unconditionally.
      (Needed separately: the refinement of the interning steps asks for
      [small_table] of the tables they produce, which is derived from the
      smallness of the FINAL table and these unconditional extension facts.) *)

Lemma good_ext {A D} (intern : table -> A -> table * D) C R t a t' d :
  good intern C R -> intern t a = (t', d) -> ext t t'.
Proof. intros G H. exact (good_prefix intern C R t a t' d G H). Qed.

Lemma good_rel {A D} (intern : table -> A -> table * D) C R t a t' d :
  good intern C R -> intern t a = (t', d) -> table_wf t -> small_table t' ->
  ext t t' /\ table_wf t' /\ rel C R t' d a.
Proof.
  intros G H W Hs. destruct (G _ _ _ _ H) as (P & Wf & Q). split; [exact P|]. split; [exact (Wf W)|].
  exact (Q Hs).
Qed.

Lemma good_rules : good intern_rules (CL closed_rule) (RL resolve_rule).
Proof. exact good_check. Qed.

Section Ext.
  Variable rx : bytes -> bytes -> option bool.

  Lemma eval_binary_D_ext t o l r t' res : eval_binary_D rx t o l r = (t', res) -> ext t t'.
  Proof.
    intros E. destruct o; cbn [eval_binary_D] in E;
      try (apply pair_inj in E as [<- _]; apply ext_refl).
    destruct l as [[x|x|x|x|x|x]|l]; try (apply pair_inj in E as [<- _]; apply ext_refl).
    destruct r as [[y|y|y|y|y|y]|r]; try (apply pair_inj in E as [<- _]; apply ext_refl).
    destruct (sym_insert t (sym_str t x ++ sym_str t y)) as [t1 i] eqn:Ei.
    apply pair_inj in E as [<- _]. eapply sym_insert_prefix. exact Ei.
  Qed.

  Lemma step_D_ext t b st o t' r : step_D rx t b st o = (t', r) -> ext t t'.
  Proof.
    intros E. destruct o as [x|u|bo]; cbn [step_D] in E.
    - destruct x as [[v|z|s|d|c|c]|l]; apply pair_inj in E as [<- _]; apply ext_refl.
    - apply pair_inj in E as [<- _]. apply ext_refl.
    - destruct st as [|y [|x st]]; try (apply pair_inj in E as [<- _]; apply ext_refl).
      destruct (eval_binary_D rx t bo x y) as [t1 res] eqn:Eb. apply pair_inj in E as [<- _].
      eapply eval_binary_D_ext. exact Eb.
  Qed.

  Lemma run_ops_D_ext e : forall t b st t' r, run_ops_D rx t b st e = (t', r) -> ext t t'.
  Proof.
    induction e as [|o e IH]; intros t b st t' r E; cbn [run_ops_D] in E.
    - apply pair_inj in E as [<- _]. apply ext_refl.
    - destruct (step_D rx t b st o) as [t1 [st1|x|n]] eqn:Es; pose proof (step_D_ext _ _ _ _ _ _ Es) as X.
      + eapply ext_trans; [exact X | eapply IH; exact E].
      + apply pair_inj in E as [<- _]. exact X.
      + apply pair_inj in E as [<- _]. exact X.
  Qed.

  Lemma eval_D_ext t e b t' r : eval_D rx t e b = (t', r) -> ext t t'.
  Proof.
    unfold eval_D. intros E. destruct (run_ops_D rx t b [] e) as [t1 r1] eqn:Er.
    pose proof (run_ops_D_ext _ _ _ _ _ _ Er) as X.
    destruct r1 as [[|v [|w st]]|x|n]; apply pair_inj in E as [<- _]; exact X.
  Qed.

  Lemma eval_exprs_D_ext es : forall t b t' r, eval_exprs_D rx t es b = (t', r) -> ext t t'.
  Proof.
    induction es as [|e es IH]; intros t b t' r E; cbn [eval_exprs_D] in E.
    - apply pair_inj in E as [<- _]. apply ext_refl.
    - destruct (eval_D rx t e b) as [t1 [v|x|n]] eqn:Ee; pose proof (eval_D_ext _ _ _ _ _ Ee) as X.
      + destruct (dterm_geqb v (DA (DBool true))).
        * eapply ext_trans; [exact X | eapply IH; exact E].
        * apply pair_inj in E as [<- _]. exact X.
      + apply pair_inj in E as [<- _]. exact X.
      + apply pair_inj in E as [<- _]. exact X.
  Qed.

  Lemma consume_D_ext cs : forall t r acc t' out, consume_D rx t r cs acc = (t', out) -> ext t t'.
  Proof.
    induction cs as [|c cs IH]; intros t r acc t' out E; cbn [consume_D] in E.
    - apply pair_inj in E as [<- _]. apply ext_refl.
    - destruct (bind_all_D (dr_body r) c []) as [b|]; [|eapply IH; exact E].
      destruct (eval_exprs_D rx t (dr_exprs r) b) as [t1 [[|]|x|n]] eqn:Ee;
        pose proof (eval_exprs_D_ext _ _ _ _ _ Ee) as X.
      + destruct (inst_head_D (dr_head r) b) as [f|].
        * eapply ext_trans; [exact X | eapply IH; exact E].
        * apply pair_inj in E as [<- _]. exact X.
      + eapply ext_trans; [exact X | eapply IH; exact E].
      + apply pair_inj in E as [<- _]. exact X.
      + apply pair_inj in E as [<- _]. exact X.
  Qed.

  Lemma apply_rule_D_ext t r facts acc t' out : apply_rule_D rx t r facts acc = (t', out) -> ext t t'.
  Proof. apply consume_D_ext. Qed.

  Lemma query_rule_D_ext t r facts t' res : query_rule_D rx t r facts = (t', res) -> ext t t'.
  Proof.
    unfold query_rule_D. destruct (apply_rule_D rx t r facts []) as [t1 [fs e]] eqn:Ea. intros E.
    apply pair_inj in E as [<- _]. eapply apply_rule_D_ext. exact Ea.
  Qed.

  Lemma apply_rules_D_ext rs : forall t facts acc t' out, apply_rules_D rx t rs facts acc = (t', out) -> ext t t'.
  Proof.
    induction rs as [|r rs IH]; intros t facts acc t' out E; cbn [apply_rules_D] in E.
    - apply pair_inj in E as [<- _]. apply ext_refl.
    - destruct (apply_rule_D rx t r facts acc) as [t1 [acc1 [x|]]] eqn:Ea;
        pose proof (apply_rule_D_ext _ _ _ _ _ _ Ea) as X.
      + apply pair_inj in E as [<- _]. exact X.
      + eapply ext_trans; [exact X | eapply IH; exact E].
  Qed.

  Lemma run_loop_D_ext mf fuel : forall t rs facts t' out, run_loop_D rx fuel mf t rs facts = (t', out) -> ext t t'.
  Proof.
    induction fuel as [|fuel IH]; intros t rs facts t' out E; cbn [run_loop_D] in E.
    - apply pair_inj in E as [<- _]. apply ext_refl.
    - destruct (apply_rules_D rx t rs facts []) as [t1 [nf [x|]]] eqn:Ea;
        pose proof (apply_rules_D_ext _ _ _ _ _ _ Ea) as X.
      + apply pair_inj in E as [<- _]. exact X.
      + cbv zeta in E. destruct (mf <=? lenN (dinsert_all facts nf)).
        * apply pair_inj in E as [<- _]. exact X.
        * destruct (Nat.eqb (length (dinsert_all facts nf)) (length facts)).
          -- apply pair_inj in E as [<- _]. exact X.
          -- eapply ext_trans; [exact X | eapply IH; exact E].
  Qed.

  Lemma run_D_ext lim t rs facts t' out : run_D rx lim t rs facts = (t', out) -> ext t t'.
  Proof. apply run_loop_D_ext. Qed.

  Lemma add_facts_D_ext fs : forall t facts t' facts', add_facts_D t facts fs = (t', facts') -> ext t t'.
  Proof.
    induction fs as [|f fs IH]; intros t facts t' facts' E; cbn [add_facts_D] in E.
    - apply pair_inj in E as [<- _]. apply ext_refl.
    - destruct (intern_pred t f) as [t1 d] eqn:Ei.
      eapply ext_trans; [exact (good_ext _ _ _ _ _ _ _ good_pred Ei) | eapply IH; exact E].
  Qed.

  Lemma check_holds_D_ext c : forall t facts t' ok, check_holds_D rx t facts c = (t', ok) -> ext t t'.
  Proof.
    induction c as [|q c IH]; intros t facts t' ok E; cbn [check_holds_D] in E.
    - apply pair_inj in E as [<- _]. apply ext_refl.
    - destruct (query_rule_D rx t q facts) as [t1 fs] eqn:Eq. pose proof (query_rule_D_ext _ _ _ _ _ Eq) as X.
      destruct (negb (Nat.eqb (length fs) 0)).
      + apply pair_inj in E as [<- _]. exact X.
      + eapply ext_trans; [exact X | eapply IH; exact E].
  Qed.

  Lemma failed_checks_D_ext cs : forall t o facts i t' errs,
    failed_checks_D rx t o facts cs i = (t', errs) -> ext t t'.
  Proof.
    induction cs as [|c cs IH]; intros t o facts i t' errs E; cbn [failed_checks_D] in E.
    - apply pair_inj in E as [<- _]. apply ext_refl.
    - destruct (intern_check t c) as [t1 dc] eqn:E1. destruct (check_holds_D rx t1 facts dc) as [t2 ok] eqn:E2.
      destruct (failed_checks_D rx t2 o facts cs (i + 1)) as [t3 rest] eqn:E3. apply pair_inj in E as [<- _].
      eapply ext_trans; [exact (good_ext _ _ _ _ _ _ _ good_check E1)|].
      eapply ext_trans; [exact (check_holds_D_ext _ _ _ _ _ E2) | eapply IH; exact E3].
  Qed.

  Lemma policy_queries_D_ext qs : forall t facts t' ok, policy_queries_D rx t facts qs = (t', ok) -> ext t t'.
  Proof.
    induction qs as [|q qs IH]; intros t facts t' ok E; cbn [policy_queries_D] in E.
    - apply pair_inj in E as [<- _]. apply ext_refl.
    - destruct (intern_rule t q) as [t1 dq] eqn:E1. destruct (query_rule_D rx t1 dq facts) as [t2 fs] eqn:E2.
      pose proof (ext_trans _ _ _ (good_ext _ _ _ _ _ _ _ good_rule E1) (query_rule_D_ext _ _ _ _ _ E2)) as X.
      destruct (negb (Nat.eqb (length fs) 0)).
      + apply pair_inj in E as [<- _]. exact X.
      + eapply ext_trans; [exact X | eapply IH; exact E].
  Qed.

  Lemma policy_result_D_ext ps : forall t facts t' r, policy_result_D rx t facts ps = (t', r) -> ext t t'.
  Proof.
    induction ps as [|p ps IH]; intros t facts t' r E; cbn [policy_result_D] in E.
    - apply pair_inj in E as [<- _]. apply ext_refl.
    - destruct (policy_queries_D rx t facts (pol_queries p)) as [t1 ok] eqn:E1.
      pose proof (policy_queries_D_ext _ _ _ _ _ E1) as X. destruct ok.
      + apply pair_inj in E as [<- _]. exact X.
      + eapply ext_trans; [exact X | eapply IH; exact E].
  Qed.

  Lemma blocks_phase_D_ext bs : forall lim tt t wfacts i t' r,
    blocks_phase_D rx lim tt t wfacts bs i = (t', r) -> ext t t'.
  Proof.
    induction bs as [|b bs IH]; intros lim tt t wfacts i t' r E; cbn [blocks_phase_D] in E.
    - apply pair_inj in E as [<- _]. apply ext_refl.
    - destruct (add_facts_D t wfacts (map (resolve_pred tt) (db_facts b))) as [t1 bf] eqn:E1.
      destruct (intern_rules t1 (map (resolve_rule tt) (db_rules b))) as [t2 rs] eqn:E2.
      destruct (run_D rx lim t2 rs bf) as [t3 [bf' oe]] eqn:E3.
      pose proof (ext_trans _ _ _ (add_facts_D_ext _ _ _ _ _ E1)
                   (ext_trans _ _ _ (good_ext _ _ _ _ _ _ _ good_rules E2) (run_D_ext _ _ _ _ _ _ E3))) as X.
      destruct oe as [e|]; [apply pair_inj in E as [<- _]; exact X|].
      destruct (failed_checks_D rx t3 (FromBlock i) bf' (map (resolve_check tt) (db_checks b)) 0) as [t4 errs] eqn:E4.
      destruct (blocks_phase_D rx lim tt t4 wfacts bs (i + 1)) as [t5 r5] eqn:E5.
      pose proof (ext_trans _ _ _ X (ext_trans _ _ _ (failed_checks_D_ext _ _ _ _ _ _ _ E4) (IH _ _ _ _ _ _ _ E5))) as X5.
      destruct r5 as [rest|e|n]; apply pair_inj in E as [<- _]; exact X5.
  Qed.
End Ext.

(* ------------------------------------------------------------------ *)
(** * 5. The authorizer *)

Definition state_rel (s : dstate) (a : astate) : Prop :=
  table_wf (d_syms s) /\ CL closed_pred (d_syms s) (d_facts s) /\ CL closed_rule (d_syms s) (d_rules s) /\
  resolve_state s = a.

Section Ref3.
  Variable rx : bytes -> bytes -> option bool.

  Lemma add_facts_ref fs : forall t facts t' facts' fss,
    table_wf t -> rel_preds t facts fss -> add_facts_D t facts fs = (t', facts') -> small_table t' ->
    ext t t' /\ table_wf t' /\ rel_preds t' facts' (fold_left insert_fact fs fss).
  Proof.
    induction fs as [|f fs IH]; intros t facts t' facts' fss W Hf E Hs; cbn [add_facts_D] in E.
    - apply pair_inj in E as [<- <-]. split; [apply ext_refl|]. split; [exact W | exact Hf].
    - destruct (intern_pred t f) as [t1 d] eqn:Ei. cbn [fold_left].
      pose proof (ext_small _ _ (add_facts_D_ext _ _ _ _ _ E) Hs) as Hs1.
      destruct (good_rel _ _ _ _ _ _ _ good_pred Ei W Hs1) as (X1 & W1 & Hd).
      destruct (IH t1 (dinsert_fact facts d) t' facts' (insert_fact fss f) W1
                  (insert_fact_res t1 _ _ _ _ W1 (rel_mono _ _ (stable_L _ _ stable_pred) _ _ _ _ X1 Hf) Hd) E Hs)
        as (X2 & W2 & H2).
      split; [eapply ext_trans; eassumption|]. split; assumption.
  Qed.

  Lemma check_holds_ref c : forall t facts t' ok cs fss,
    table_wf t -> rel_rules t c cs -> rel_preds t facts fss ->
    check_holds_D rx t facts c = (t', ok) ->
    ext t t' /\ table_wf t' /\ check_holds rx fss cs = ok.
  Proof.
    induction c as [|q c IH]; intros t facts t' ok cs fss W Hc Hf E; cbn [check_holds_D] in E.
    - apply rel_nil_inv in Hc. subst cs. apply pair_inj in E as [<- <-].
      split; [apply ext_refl|]. split; [exact W | reflexivity].
    - apply rel_cons_inv in Hc as (q1 & cs' & -> & Hq & Hc). unfold check_holds. cbn [existsb].
      destruct (query_rule_D rx t q facts) as [t1 fs] eqn:Eq.
      destruct (query_rule_ref rx t q facts t1 fs q1 fss W Hq Hf Eq) as (X1 & W1 & Hres).
      rewrite (rel_length _ _ _ _ _ Hres).
      destruct (negb (Nat.eqb (length fs) 0)).
      + apply pair_inj in E as [<- <-]. split; [exact X1|]. split; [exact W1 | reflexivity].
      + cbn [orb].
        destruct (IH t1 facts t' ok cs' fss W1 (rel_mono _ _ (stable_L _ _ stable_rule) _ _ _ _ X1 Hc)
                    (rel_mono _ _ (stable_L _ _ stable_pred) _ _ _ _ X1 Hf) E) as (X2 & W2 & H2).
        split; [eapply ext_trans; eassumption|]. split; [exact W2 | exact H2].
  Qed.

  Lemma failed_checks_ref cs : forall t o facts i t' errs fss,
    table_wf t -> rel_preds t facts fss ->
    failed_checks_D rx t o facts cs i = (t', errs) -> small_table t' ->
    ext t t' /\ table_wf t' /\ failed_checks rx o fss cs i = errs.
  Proof.
    induction cs as [|c cs IH]; intros t o facts i t' errs fss W Hf E Hs; cbn [failed_checks_D] in E.
    - apply pair_inj in E as [<- <-]. split; [apply ext_refl|]. split; [exact W | reflexivity].
    - destruct (intern_check t c) as [t1 dc] eqn:E1. destruct (check_holds_D rx t1 facts dc) as [t2 ok] eqn:E2.
      destruct (failed_checks_D rx t2 o facts cs (i + 1)) as [t3 rest] eqn:E3. apply pair_inj in E as [<- <-].
      pose proof (ext_small _ _ (failed_checks_D_ext _ _ _ _ _ _ _ _ E3) Hs) as Hs2.
      pose proof (ext_small _ _ (check_holds_D_ext _ _ _ _ _ _ E2) Hs2) as Hs1.
      destruct (good_rel _ _ _ _ _ _ _ good_check E1 W Hs1) as (X1 & W1 & Hd).
      pose proof (rel_mono _ _ (stable_L _ _ stable_pred) _ _ _ _ X1 Hf) as Hf1.
      destruct (check_holds_ref dc t1 facts t2 ok c fss W1 Hd Hf1 E2) as (X2 & W2 & Hok).
      destruct (IH t2 o facts (i + 1) t3 rest fss W2
                  (rel_mono _ _ (stable_L _ _ stable_pred) _ _ _ _ X2 Hf1) E3 Hs) as (X3 & W3 & H3).
      split; [eapply ext_trans; [exact X1 | eapply ext_trans; eassumption]|]. split; [exact W3|].
      cbn [failed_checks]. rewrite Hok, H3. reflexivity.
  Qed.

  Lemma policy_queries_ref qs : forall t facts t' ok fss,
    table_wf t -> rel_preds t facts fss ->
    policy_queries_D rx t facts qs = (t', ok) -> small_table t' ->
    ext t t' /\ table_wf t' /\ check_holds rx fss qs = ok.
  Proof.
    induction qs as [|q qs IH]; intros t facts t' ok fss W Hf E Hs; cbn [policy_queries_D] in E.
    - apply pair_inj in E as [<- <-]. split; [apply ext_refl|]. split; [exact W | reflexivity].
    - destruct (intern_rule t q) as [t1 dq] eqn:E1. destruct (query_rule_D rx t1 dq facts) as [t2 fs] eqn:E2.
      unfold check_holds. cbn [existsb].
      assert (Hs1 : small_table t1).
      { eapply ext_small; [exact (query_rule_D_ext _ _ _ _ _ _ E2)|].
        destruct (negb (Nat.eqb (length fs) 0)).
        - apply pair_inj in E as [<- _]. exact Hs.
        - eapply ext_small; [exact (policy_queries_D_ext _ _ _ _ _ _ E) | exact Hs]. }
      destruct (good_rel _ _ _ _ _ _ _ good_rule E1 W Hs1) as (X1 & W1 & Hd).
      pose proof (rel_mono _ _ (stable_L _ _ stable_pred) _ _ _ _ X1 Hf) as Hf1.
      destruct (query_rule_ref rx t1 dq facts t2 fs q fss W1 Hd Hf1 E2) as (X2 & W2 & Hres).
      rewrite (rel_length _ _ _ _ _ Hres).
      destruct (negb (Nat.eqb (length fs) 0)).
      + apply pair_inj in E as [<- <-]. split; [eapply ext_trans; eassumption|]. split; [exact W2 | reflexivity].
      + cbn [orb].
        destruct (IH t2 facts t' ok fss W2 (rel_mono _ _ (stable_L _ _ stable_pred) _ _ _ _ X2 Hf1) E Hs)
          as (X3 & W3 & H3).
        split; [eapply ext_trans; [exact X1 | eapply ext_trans; eassumption]|]. split; [exact W3 | exact H3].
  Qed.

  Lemma policy_result_ref ps : forall t facts t' r fss,
    table_wf t -> rel_preds t facts fss ->
    policy_result_D rx t facts ps = (t', r) -> small_table t' ->
    ext t t' /\ table_wf t' /\ policy_result rx fss ps = r.
  Proof.
    induction ps as [|p ps IH]; intros t facts t' r fss W Hf E Hs; cbn [policy_result_D] in E.
    - apply pair_inj in E as [<- <-]. split; [apply ext_refl|]. split; [exact W | reflexivity].
    - destruct (policy_queries_D rx t facts (pol_queries p)) as [t1 ok] eqn:E1. cbn [policy_result].
      assert (Hs1 : small_table t1).
      { destruct ok.
        - apply pair_inj in E as [<- _]. exact Hs.
        - eapply ext_small; [exact (policy_result_D_ext _ _ _ _ _ _ E) | exact Hs]. }
      destruct (policy_queries_ref _ t facts t1 ok fss W Hf E1 Hs1) as (X1 & W1 & ->).
      destruct ok.
      + apply pair_inj in E as [<- <-]. split; [exact X1|]. split; [exact W1 | reflexivity].
      + destruct (IH t1 facts t' r fss W1 (rel_mono _ _ (stable_L _ _ stable_pred) _ _ _ _ X1 Hf) E Hs)
          as (X2 & W2 & H2).
        split; [eapply ext_trans; eassumption|]. split; [exact W2 | exact H2].
  Qed.

  Lemma blocks_phase_ref bs : forall lim tt t wfacts i t' r wfs,
    table_wf t -> rel_preds t wfacts wfs ->
    blocks_phase_D rx lim tt t wfacts bs i = (t', r) -> small_table t' ->
    ext t t' /\ table_wf t' /\ blocks_phase rx lim wfs (map (resolve_block tt) bs) i = r.
  Proof.
    induction bs as [|b bs IH]; intros lim tt t wfacts i t' r wfs W Hf E Hs; cbn [blocks_phase_D] in E.
    - apply pair_inj in E as [<- <-]. split; [apply ext_refl|]. split; [exact W | reflexivity].
    - destruct (add_facts_D t wfacts (map (resolve_pred tt) (db_facts b))) as [t1 bf] eqn:E1.
      destruct (intern_rules t1 (map (resolve_rule tt) (db_rules b))) as [t2 rs] eqn:E2.
      destruct (run_D rx lim t2 rs bf) as [t3 [bf' oe]] eqn:E3.
      cbn [map blocks_phase resolve_block b_facts b_rules b_checks].
      assert (Hs3 : small_table t3).
      { destruct oe as [e|]; [apply pair_inj in E as [<- _]; exact Hs|].
        destruct (failed_checks_D rx t3 (FromBlock i) bf' (map (resolve_check tt) (db_checks b)) 0) as [t4 errs] eqn:E4.
        destruct (blocks_phase_D rx lim tt t4 wfacts bs (i + 1)) as [t5 r5] eqn:E5.
        eapply ext_small; [exact (failed_checks_D_ext _ _ _ _ _ _ _ _ E4)|].
        eapply ext_small; [exact (blocks_phase_D_ext _ _ _ _ _ _ _ _ _ E5)|].
        destruct r5 as [rest|e|n]; apply pair_inj in E as [<- _]; exact Hs. }
      pose proof (ext_small _ _ (run_D_ext _ _ _ _ _ _ _ E3) Hs3) as Hs2.
      pose proof (ext_small _ _ (good_ext _ _ _ _ _ _ _ good_rules E2) Hs2) as Hs1.
      destruct (add_facts_ref _ t wfacts t1 bf wfs W Hf E1 Hs1) as (X1 & W1 & Hbf).
      destruct (good_rel _ _ _ _ _ _ _ good_rules E2 W1 Hs2) as (X2 & W2 & Hrs).
      destruct (run_ref rx lim t2 rs bf t3 bf' oe _ _ W2 Hrs
                  (rel_mono _ _ (stable_L _ _ stable_pred) _ _ _ _ X2 Hbf) E3) as (X3 & W3 & C3 & Q3).
      rewrite Q3.
      pose proof (ext_trans _ _ _ X1 (ext_trans _ _ _ X2 X3)) as X13.
      destruct oe as [e|].
      + apply pair_inj in E as [<- <-]. split; [exact X13|]. split; [exact W3 | reflexivity].
      + destruct (failed_checks_D rx t3 (FromBlock i) bf' (map (resolve_check tt) (db_checks b)) 0) as [t4 errs] eqn:E4.
        destruct (blocks_phase_D rx lim tt t4 wfacts bs (i + 1)) as [t5 r5] eqn:E5.
        assert (Hs5 : small_table t5) by (destruct r5 as [rest|e|n]; apply pair_inj in E as [<- _]; exact Hs).
        pose proof (ext_small _ _ (blocks_phase_D_ext _ _ _ _ _ _ _ _ _ E5) Hs5) as Hs4.
        destruct (failed_checks_ref _ t3 (FromBlock i) bf' 0 t4 errs _ W3 (rel_self _ _ _ _ C3) E4 Hs4)
          as (X4 & W4 & Herrs).
        destruct (IH lim tt t4 wfacts (i + 1) t5 r5 wfs W4
                    (rel_mono _ _ (stable_L _ _ stable_pred) _ _ _ _ (ext_trans _ _ _ X13 X4) Hf) E5 Hs5)
          as (X5 & W5 & H5).
        rewrite H5, Herrs.
        assert (X15 : ext t t5) by (eapply ext_trans; [exact X13 | eapply ext_trans; eassumption]).
        destruct r5 as [rest|e|n]; apply pair_inj in E as [<- <-];
          (split; [exact X15|]; split; [exact W5 | reflexivity]).
  Qed.

  (* ---------- the add operations and Reset ---------- *)
  Theorem add_fact_D_refines s a f :
    state_rel s a -> small_table (d_syms (add_fact_D s f)) ->
    ext (d_syms s) (d_syms (add_fact_D s f)) /\ state_rel (add_fact_D s f) (add_fact a f).
  Proof.
    intros (W & Cf & Cr & <-) Hs. unfold add_fact_D in *. destruct (intern_pred (d_syms s) f) as [t d] eqn:Ei.
    cbn [d_syms] in *. destruct (good_rel _ _ _ _ _ _ _ good_pred Ei W Hs) as (X & W1 & Hd).
    pose proof (rel_mono _ _ (stable_L _ _ stable_pred) _ _ _ _ X (rel_self _ _ _ _ Cf)) as Hf1.
    destruct (insert_fact_res t _ _ _ _ W1 Hf1 Hd) as [Ci Qi].
    destruct (rel_mono _ _ (stable_L _ _ stable_rule) _ _ _ _ X (rel_self _ _ _ _ Cr)) as [Cr1 Qr1].
    split; [exact X|]. split; [exact W1|]. split; [exact Ci|]. split; [exact Cr1|].
    unfold resolve_state, add_fact. cbn [d_syms d_facts d_rules d_checks d_policies d_dirty d_limits
      a_facts a_rules a_checks a_policies a_dirty a_limits].
    unfold RL in Qi, Qr1. rewrite Qi, Qr1. reflexivity.
  Qed.

  Theorem add_rule_D_refines s a r :
    state_rel s a -> small_table (d_syms (add_rule_D s r)) ->
    ext (d_syms s) (d_syms (add_rule_D s r)) /\ state_rel (add_rule_D s r) (add_rule a r).
  Proof.
    intros (W & Cf & Cr & <-) Hs. unfold add_rule_D in *. destruct (intern_rule (d_syms s) r) as [t d] eqn:Ei.
    cbn [d_syms] in *. destruct (good_rel _ _ _ _ _ _ _ good_rule Ei W Hs) as (X & W1 & [Cd Qd]).
    destruct (rel_mono _ _ (stable_L _ _ stable_pred) _ _ _ _ X (rel_self _ _ _ _ Cf)) as [Cf1 Qf1].
    destruct (rel_mono _ _ (stable_L _ _ stable_rule) _ _ _ _ X (rel_self _ _ _ _ Cr)) as [Cr1 Qr1].
    split; [exact X|]. split; [exact W1|]. split; [exact Cf1|].
    split; [apply Forall_app; split; [exact Cr1 | constructor; [exact Cd | constructor]]|].
    unfold resolve_state, add_rule. cbn [d_syms d_facts d_rules d_checks d_policies d_dirty d_limits
      a_facts a_rules a_checks a_policies a_dirty a_limits].
    unfold RL in Qf1, Qr1. rewrite map_app, Qf1, Qr1. cbn [map]. rewrite Qd. reflexivity.
  Qed.

  Theorem add_check_D_refines s a c : state_rel s a -> state_rel (add_check_D s c) (add_check a c).
  Proof. intros (W & Cf & Cr & <-). split; [exact W|]. split; [exact Cf|]. split; [exact Cr | reflexivity]. Qed.

  Theorem add_policy_D_refines s a p : state_rel s a -> state_rel (add_policy_D s p) (add_policy a p).
  Proof. intros (W & Cf & Cr & <-). split; [exact W|]. split; [exact Cf|]. split; [exact Cr | reflexivity]. Qed.

  Theorem reset_D_refines s a : state_rel s a -> state_rel (reset_D s) (reset a).
  Proof.
    intros (W & Cf & Cr & <-). split; [apply table_wf_nil|]. split; [constructor|]. split; [constructor | reflexivity].
  Qed.

  Theorem fresh_D_refines lim : state_rel (fresh_D lim) (fresh lim).
  Proof. split; [apply table_wf_nil|]. split; [constructor|]. split; [constructor | reflexivity]. Qed.
End Ref3.

Section Ref4.
  Variable rx : bytes -> bytes -> option bool.

  Ltac sfields := cbn [d_syms d_facts d_rules d_checks d_policies d_dirty d_limits
                       a_facts a_rules a_checks a_policies a_dirty a_limits] in *.

  (* authorize_D_refines.  No hypothesis on the token is needed: its content reaches
     the authorizer's table through STRINGS (resolve with the token's table, intern
     into the authorizer's), whatever the indexes in the token are. *)
  Theorem authorize_D_refines tok s a s' v :
    state_rel s a -> authorize_D rx tok s = (s', v) -> small_table (d_syms s') ->
    ext (d_syms s) (d_syms s') /\
    state_rel s' (fst (authorize rx (resolve_token tok) a)) /\
    v = snd (authorize rx (resolve_token tok) a).
  Proof.
    intros (W & Cf & Cr & <-) E Hs. unfold authorize_D in E.
    set (tt := tk_symbols tok) in *. set (auth := tk_authority tok) in *.
    destruct (add_facts_D (d_syms s) (d_facts s) (map (resolve_pred tt) (db_facts auth))) as [t1 facts0] eqn:E1.
    destruct (intern_rules t1 (map (resolve_rule tt) (db_rules auth))) as [t2 arules] eqn:E2.
    cbv zeta in E.
    destruct (run_D rx (d_limits s) t2 (d_rules s ++ arules) facts0) as [t3 [fs oe]] eqn:E3.
    (* the S side, opened up to the first run *)
    unfold authorize, resolve_token. cbn [map hd tl]. fold tt. fold auth.
    cbn [resolve_block b_facts b_rules b_checks]. unfold resolve_state.
    cbv zeta. sfields.
    (* smallness of the intermediate tables *)
    assert (Hs3 : small_table t3).
    { destruct oe as [e|]; [apply pair_inj in E as [<- _]; exact Hs|].
      destruct (failed_checks_D rx t3 FromAuthorizer fs (d_checks s) 0) as [t4 errs1] eqn:E4.
      destruct (failed_checks_D rx t4 (FromBlock 0) fs (map (resolve_check tt) (db_checks auth)) 0) as [t5 errs2] eqn:E5.
      destruct (policy_result_D rx t5 fs (d_policies s)) as [t6 pol] eqn:E6.
      destruct (blocks_phase_D rx (d_limits s) tt t6 fs (tk_blocks tok) 1) as [t7 r7] eqn:E7.
      eapply ext_small; [exact (failed_checks_D_ext _ _ _ _ _ _ _ _ E4)|].
      eapply ext_small; [exact (failed_checks_D_ext _ _ _ _ _ _ _ _ E5)|].
      eapply ext_small; [exact (policy_result_D_ext _ _ _ _ _ _ E6)|].
      eapply ext_small; [exact (blocks_phase_D_ext _ _ _ _ _ _ _ _ _ E7)|].
      destruct r7 as [errs3|e|n]; apply pair_inj in E as [<- _]; exact Hs. }
    pose proof (ext_small _ _ (run_D_ext _ _ _ _ _ _ _ E3) Hs3) as Hs2.
    pose proof (ext_small _ _ (good_ext _ _ _ _ _ _ _ good_rules E2) Hs2) as Hs1.
    destruct (add_facts_ref _ (d_syms s) (d_facts s) t1 facts0 _ W (rel_self _ _ _ _ Cf) E1 Hs1) as (X1 & W1 & Hf0).
    destruct (good_rel _ _ _ _ _ _ _ good_rules E2 W1 Hs2) as (X2 & W2 & Har).
    pose proof (ext_trans _ _ _ X1 X2) as X02.
    pose proof (rel_app _ _ _ _ _ _ _
                  (rel_mono _ _ (stable_L _ _ stable_rule) _ _ _ _ X02 (rel_self _ _ _ _ Cr)) Har) as Hr0.
    destruct (run_ref rx (d_limits s) t2 _ facts0 t3 fs oe _ _ W2 Hr0
                (rel_mono _ _ (stable_L _ _ stable_pred) _ _ _ _ X2 Hf0) E3) as (X3 & W3 & C3 & Q3).
    unfold RL at 1 2 3 in Q3. rewrite Q3. clear Q3.
    pose proof (ext_trans _ _ _ X02 X3) as X03.
    destruct oe as [e|].
    - (* the first Run fails *)
      apply pair_inj in E as [<- <-]. sfields. split; [exact X03|]. cbn [fst snd]. split; [|reflexivity].
      destruct (rel_mono _ _ (stable_L _ _ stable_rule) _ _ _ _ X3 Hr0) as [Cr3 Qr3].
      split; [exact W3|]. split; [exact C3|]. split; [exact Cr3|].
      unfold resolve_state. sfields. unfold RL in Qr3. rewrite Qr3. reflexivity.
    - destruct (failed_checks_D rx t3 FromAuthorizer fs (d_checks s) 0) as [t4 errs1] eqn:E4.
      destruct (failed_checks_D rx t4 (FromBlock 0) fs (map (resolve_check tt) (db_checks auth)) 0) as [t5 errs2] eqn:E5.
      destruct (policy_result_D rx t5 fs (d_policies s)) as [t6 pol] eqn:E6.
      destruct (blocks_phase_D rx (d_limits s) tt t6 fs (tk_blocks tok) 1) as [t7 r7] eqn:E7.
      assert (Hs7 : small_table t7) by (destruct r7 as [errs3|e|n]; apply pair_inj in E as [<- _]; exact Hs).
      pose proof (ext_small _ _ (blocks_phase_D_ext _ _ _ _ _ _ _ _ _ E7) Hs7) as Hs6.
      pose proof (ext_small _ _ (policy_result_D_ext _ _ _ _ _ _ E6) Hs6) as Hs5.
      pose proof (ext_small _ _ (failed_checks_D_ext _ _ _ _ _ _ _ _ E5) Hs5) as Hs4.
      destruct (failed_checks_ref rx _ t3 FromAuthorizer fs 0 t4 errs1 _ W3 (rel_self _ _ _ _ C3) E4 Hs4)
        as (X4 & W4 & H4).
      pose proof (rel_mono _ _ (stable_L _ _ stable_pred) _ _ _ _ X4 (rel_self _ _ _ _ C3)) as Hfs4.
      destruct (failed_checks_ref rx _ t4 (FromBlock 0) fs 0 t5 errs2 _ W4 Hfs4 E5 Hs5) as (X5 & W5 & H5).
      pose proof (rel_mono _ _ (stable_L _ _ stable_pred) _ _ _ _ X5 Hfs4) as Hfs5.
      destruct (policy_result_ref rx _ t5 fs t6 pol _ W5 Hfs5 E6 Hs6) as (X6 & W6 & H6).
      pose proof (rel_mono _ _ (stable_L _ _ stable_pred) _ _ _ _ X6 Hfs5) as Hfs6.
      destruct (blocks_phase_ref rx _ (d_limits s) tt t6 fs 1 t7 r7 _ W6 Hfs6 E7 Hs7) as (X7 & W7 & H7).
      destruct (rel_mono _ _ (stable_L _ _ stable_pred) _ _ _ _ X7 Hfs6) as [C7 Q7].
      unfold RL in H4, H5, H6, H7. rewrite H4, H5, H6, H7.
      assert (X07 : ext (d_syms s) t7).
      { eapply ext_trans; [exact X03|]. eapply ext_trans; [exact X4|]. eapply ext_trans; [exact X5|].
        eapply ext_trans; eassumption. }
      assert (SR : forall d, state_rel
                {| d_syms := t7; d_facts := fs; d_rules := []; d_checks := d_checks s;
                   d_policies := d_policies s; d_dirty := d; d_limits := d_limits s |}
                {| a_facts := map (resolve_pred t3) fs; a_rules := []; a_checks := d_checks s;
                   a_policies := d_policies s; a_dirty := d; a_limits := d_limits s |}).
      { intros d. split; [exact W7|]. split; [exact C7|]. split; [constructor|].
        unfold resolve_state. sfields. unfold RL in Q7. rewrite Q7. reflexivity. }
      destruct r7 as [errs3|e|n]; apply pair_inj in E as [<- <-]; sfields; cbn [fst snd];
        (split; [exact X07|]; split; [apply SR | reflexivity]).
  Qed.

  (* query_D_refines *)
  Theorem query_D_refines s a q s' r :
    state_rel s a -> query_D rx s q = (s', r) -> small_table (d_syms s') ->
    ext (d_syms s) (d_syms s') /\ state_rel s' (fst (query rx a q)) /\ r = snd (query rx a q).
  Proof.
    intros (W & Cf & Cr & <-) E Hs. unfold query_D in E. unfold query, resolve_state. sfields.
    destruct (run_D rx (d_limits s) (d_syms s) (d_rules s) (d_facts s)) as [t1 [fs oe]] eqn:E1.
    destruct (run_ref rx _ _ _ _ t1 fs oe _ _ W (rel_self _ _ _ _ Cr) (rel_self _ _ _ _ Cf) E1) as (X1 & W1 & C1 & Q1).
    unfold RL at 1 2 in Q1. rewrite Q1. clear Q1.
    destruct (rel_mono _ _ (stable_L _ _ stable_rule) _ _ _ _ X1 (rel_self _ _ _ _ Cr)) as [Cr1 Qr1].
    destruct oe as [e|].
    - apply pair_inj in E as [<- <-]. sfields. cbn [fst snd]. split; [exact X1|]. split; [|reflexivity].
      split; [exact W1|]. split; [exact C1|]. split; [exact Cr1|].
      unfold resolve_state. sfields. unfold RL in Qr1. rewrite Qr1. reflexivity.
    - destruct (intern_rule t1 q) as [t2 dq] eqn:E2. destruct (query_rule_D rx t2 dq fs) as [t3 res] eqn:E3.
      apply pair_inj in E as [<- <-]. sfields. cbn [fst snd].
      pose proof (ext_small _ _ (query_rule_D_ext _ _ _ _ _ _ E3) Hs) as Hs2.
      destruct (good_rel _ _ _ _ _ _ _ good_rule E2 W1 Hs2) as (X2 & W2 & Hq).
      pose proof (rel_mono _ _ (stable_L _ _ stable_pred) _ _ _ _ X2 (rel_self _ _ _ _ C1)) as Hfs2.
      destruct (query_rule_ref rx t2 dq fs t3 res q _ W2 Hq Hfs2 E3) as (X3 & W3 & [Cres Qres]).
      pose proof (ext_trans _ _ _ X2 X3) as X13.
      destruct (rel_mono _ _ (stable_L _ _ stable_pred) _ _ _ _ X13 (rel_self _ _ _ _ C1)) as [C3 Q3].
      destruct (rel_mono _ _ (stable_L _ _ stable_rule) _ _ _ _ X13 (conj Cr1 Qr1)) as [Cr3 Qr3].
      split; [eapply ext_trans; eassumption|]. split.
      + split; [exact W3|]. split; [exact C3|]. split; [exact Cr3|].
        unfold resolve_state. sfields. unfold RL in Q3, Qr3. rewrite Q3, Qr3. reflexivity.
      + unfold RL in Qres. rewrite Qres. reflexivity.
  Qed.
End Ref4.

(* ------------------------------------------------------------------ *)
(** * 6. The statements under the names of the task, histories, and the pipeline *)

From BV Require Import Chain Corr CorrD WireProofs TokenProofs.

Section Named.
  Variable rx : bytes -> bytes -> option bool.

  (* expressions: resolution commutes with evaluation; errors are the same *)
  Theorem eval_D_refines t e b t' r :
    table_wf t -> CL closed_bnd t b -> CL closed_op t e ->
    eval_D rx t e b = (t', r) ->
    ext t t' /\ table_wf t' /\
    match r with
    | Ok v => closed_term t' v /\
              eval rx (map (resolve_op t) e) (map (resolve_bnd t) b) = Ok (resolve_term t' v)
    | Err x => eval rx (map (resolve_op t) e) (map (resolve_bnd t) b) = Err x
    | Panic n => eval rx (map (resolve_op t) e) (map (resolve_bnd t) b) = Panic n
    end.
  Proof.
    intros W Cb Ce E.
    exact (eval_ref rx t e b t' r _ _ W (rel_self _ _ _ _ Cb) (rel_self _ _ _ _ Ce) E).
  Qed.

  (* World.Run: same facts in the same order, same error, limits included *)
  Theorem run_D_refines lim t rs facts t' facts' e :
    table_wf t -> CL closed_rule t rs -> CL closed_pred t facts ->
    run_D rx lim t rs facts = (t', (facts', e)) ->
    ext t t' /\ table_wf t' /\ CL closed_pred t' facts' /\
    run rx lim (map (resolve_rule t) rs) (map (resolve_pred t) facts) = (map (resolve_pred t') facts', e).
  Proof.
    intros W Cr Cf E.
    exact (run_ref rx lim t rs facts t' facts' e _ _ W (rel_self _ _ _ _ Cr) (rel_self _ _ _ _ Cf) E).
  Qed.

  (* World.QueryRule *)
  Theorem query_rule_D_refines t r facts t' res :
    table_wf t -> closed_rule t r -> CL closed_pred t facts ->
    query_rule_D rx t r facts = (t', res) ->
    ext t t' /\ table_wf t' /\ CL closed_pred t' res /\
    query_rule rx (resolve_rule t r) (map (resolve_pred t) facts) = map (resolve_pred t') res.
  Proof.
    intros W Cr Cf E.
    destruct (query_rule_ref rx t r facts t' res _ _ W (rel_self _ _ _ _ Cr) (rel_self _ _ _ _ Cf) E)
      as (X & W1 & [C Q]).
    split; [exact X|]. split; [exact W1|]. split; [exact C | symmetry; exact Q].
  Qed.

  (* the statement with the token invariant, as asked (the invariant is not used) *)
  Corollary authorize_D_refines_inv base tok s a s' v :
    token_inv base tok -> state_rel s a ->
    authorize_D rx tok s = (s', v) -> small_table (d_syms s') ->
    v = snd (authorize rx (resolve_token tok) a) /\
    resolve_state s' = fst (authorize rx (resolve_token tok) a) /\
    table_wf (d_syms s') /\ ext (d_syms s) (d_syms s').
  Proof.
    intros _ Hs E Hsm. destruct (authorize_D_refines rx tok s a s' v Hs E Hsm) as (X & (W & _ & _ & Q) & Hv).
    split; [exact Hv|]. split; [exact Q|]. split; [exact W | exact X].
  Qed.

  (* one operation of a history *)
  Theorem astep_D_refines tok s a o :
    state_rel s a -> small_table (d_syms (astep_D rx tok s o)) ->
    state_rel (astep_D rx tok s o) (astep rx (resolve_token tok) a o) /\
    aobserve_D rx tok s o = aobserve rx (resolve_token tok) a o.
  Proof.
    intros Hs Hsm. destruct o as [f|r|c|p| |q| ]; cbn [astep_D astep aobserve_D aobserve] in *.
    - split; [apply add_fact_D_refines; assumption | reflexivity].
    - split; [apply add_rule_D_refines; assumption | reflexivity].
    - split; [apply add_check_D_refines; assumption | reflexivity].
    - split; [apply add_policy_D_refines; assumption | reflexivity].
    - destruct (authorize_D rx tok s) as [s' v] eqn:E. cbn [fst snd] in *.
      destruct (authorize_D_refines rx tok s a s' v Hs E Hsm) as (_ & H1 & H2). split; [exact H1 | rewrite H2; reflexivity].
    - destruct (query_D rx s q) as [s' r] eqn:E. cbn [fst snd] in *.
      destruct (query_D_refines rx s a q s' r Hs E Hsm) as (_ & H1 & H2). split; [exact H1 | rewrite H2; reflexivity].
    - split; [apply reset_D_refines; assumption | reflexivity].
  Qed.

  Fixpoint all_small (tok : token) (ops : list aop) (s : dstate) : Prop :=
    match ops with
    | [] => True
    | o :: ops' => small_table (d_syms (astep_D rx tok s o)) /\ all_small tok ops' (astep_D rx tok s o)
    end.

  Theorem atrace_D_refines tok ops : forall s a,
    state_rel s a -> all_small tok ops s ->
    atrace_D rx tok ops s = atrace rx (resolve_token tok) ops a.
  Proof.
    induction ops as [|o ops IH]; intros s a Hs Ha; [reflexivity|]. destruct Ha as [Ha1 Ha2].
    destruct (astep_D_refines tok s a o Hs Ha1) as [H1 H2]. cbn [atrace_D atrace]. rewrite H2. f_equal.
    apply IH; assumption.
  Qed.

  Lemma small_tableb_ok t : small_tableb t = true -> small_table t.
  Proof. unfold small_tableb, small_table. intros H. apply N.leb_le in H. exact H. Qed.

  Lemma all_smallb_ok tok ops : forall s, all_smallb rx tok ops s = true -> all_small tok ops s.
  Proof.
    induction ops as [|o ops IH]; intros s H; [exact I|]. cbn [all_smallb] in H. cbv zeta in H.
    apply andb_true_iff in H as [H1 H2]. split; [apply small_tableb_ok; exact H1 | apply IH; exact H2].
  Qed.

  (* what the harness compares: verdicts with the world afterwards, query results *)
  Theorem atrace_full_D_refines tok ops : forall s a,
    state_rel s a -> all_small tok ops s ->
    atrace_full_D rx tok ops s = atrace_full rx (resolve_token tok) ops a.
  Proof.
    induction ops as [|o ops IH]; intros s a Hs Ha; [reflexivity|]. destruct Ha as [Ha1 Ha2].
    destruct (astep_D_refines tok s a o Hs Ha1) as [H1 H2]. cbn [atrace_full_D atrace_full]. cbv zeta.
    f_equal; [|apply IH; assumption].
    destruct o as [f|r|c|p| |q| ]; try reflexivity.
    - cbn [aobserve_D aobserve] in H2. injection H2 as H2. rewrite H2. f_equal.
      destruct H1 as (_ & _ & _ & <-). reflexivity.
    - cbn [aobserve_D aobserve] in H2. injection H2 as H2. rewrite H2. reflexivity.
  Qed.
End Named.

(* the index-level pipeline check agrees with the S-level one whenever the
   authorizer's table stays below 2^32 entries along the panel (decidable:
   [all_smallb]) *)
Theorem pipe_ok_D_agrees pubt vert panel c :
  (forall t, tk_unmarshal (pc_bytes c) = Ok t ->
     all_smallb (orx (pc_rx c)) t panel (fresh_D {| max_facts := 1000; max_iterations := 100 |}) = true) ->
  pipe_ok_D pubt vert panel c = pipe_ok pubt vert panel c.
Proof.
  intros H. unfold pipe_ok_D, pipe_ok. destruct (tk_unmarshal (pc_bytes c)) as [t|e|n]; try reflexivity.
  rewrite (atrace_full_D_refines (orx (pc_rx c)) t panel _ _ (fresh_D_refines _)
             (all_smallb_ok _ _ _ _ (H t eq_refl))). reflexivity.
Qed.

(* ------------------------------------------------------------------ *)
(** * 7. Non-vacuity: a token with two blocks and fresh symbols; an authorizer with a
      rule using string concatenation and starts_with, a check, two policies *)

Definition s_root : bytes := [114;111;111;116].
Definition s_user : bytes := [117;115;101;114].     (* a default symbol *)
Definition s_res : bytes := [114;101;115].
Definition s_home : bytes := [47;104;111;109;101;47].                       (* "/home/" *)
Definition s_notes : bytes := [47;104;111;109;101;47;97;108;105;99;101;47;110;111;116;101;115].
Definition s_passwd : bytes := [47;101;116;99;47;112;97;115;115;119;100].
Definition s_home_alice : bytes := [47;104;111;109;101;47;97;108;105;99;101]. (* "/home/alice": in no token, no rule *)
Definition s_allowed : bytes := [97;108;108;111;119;101;100].
Definition s_seen : bytes := [115;101;101;110].
Definition s_tag : bytes := [116;97;103].
Definition s_blk1 : bytes := [98;108;107;49].
Definition vr : term := TA (AVar [114]).
Definition vp : term := TA (AVar [112]).
Definition vu : term := TA (AVar [117]).
Definition mkp (n : bytes) (ts : list term) : pred := {| p_name := n; p_terms := ts |}.
Definition str (s : bytes) : term := TA (AStr s).

Definition xa_ops : list bop :=
  [BFact (mkp s_root [str s_home]); BFact (mkp s_user [str s_alice]);
   BFact (mkp s_res [str s_notes]); BFact (mkp s_res [str s_passwd])].
Definition xb_ops : list bop :=
  [BFact (mkp s_tag [str s_blk1]);
   BRule {| r_head := mkp s_seen [vr]; r_body := [mkp s_allowed [vr]]; r_exprs := [] |};
   BCheck [{| r_head := mkp s_query []; r_body := [mkp s_seen [str s_notes]]; r_exprs := [] |}]].
Definition x_tok0 : token :=
  match bu_build xpub xsign (repeat 1 32) (bu_exec (new_builder [] None) xa_ops) (repeat 7 32) with
  | Ok (t, _) => t | _ => ex_dummy end.
Definition x_blk1 : dblock :=
  match bb_build (bb_exec (create_block x_tok0) xb_ops) with Ok (b, _) => b | _ => ex_dummy_block end.
Definition x_tok : token :=
  match tk_append xpub xsign x_tok0 x_blk1 (repeat 9 32) with Ok (t, _) => t | _ => ex_dummy end.

Definition x_blk_auth : block :=
  {| b_facts := [mkp s_root [str s_home]; mkp s_user [str s_alice]; mkp s_res [str s_notes]; mkp s_res [str s_passwd]];
     b_rules := []; b_checks := [] |}.
Definition x_blk_one : block :=
  {| b_facts := [mkp s_tag [str s_blk1]];
     b_rules := [{| r_head := mkp s_seen [vr]; r_body := [mkp s_allowed [vr]]; r_exprs := [] |}];
     b_checks := [[{| r_head := mkp s_query []; r_body := [mkp s_seen [str s_notes]]; r_exprs := [] |}]] |}.

(* allowed($r) <- root($p), user($u), res($r), $r.starts_with($p + $u) *)
Definition x_rule : rule :=
  {| r_head := mkp s_allowed [vr];
     r_body := [mkp s_root [vp]; mkp s_user [vu]; mkp s_res [vr]];
     r_exprs := [[OVal vr; OVal vp; OVal vu; OBin BAdd; OBin BPrefix]] |}.
Definition x_check : check := [{| r_head := mkp s_query []; r_body := [mkp s_allowed [vr]]; r_exprs := [] |}].
Definition x_deny : policy :=
  {| pol_kind := Deny;
     pol_queries := [{| r_head := mkp s_query []; r_body := [mkp s_allowed [str s_passwd]]; r_exprs := [] |}] |}.
Definition x_allow : policy :=
  {| pol_kind := Allow;
     pol_queries := [{| r_head := mkp s_query []; r_body := [mkp s_user [str s_alice]]; r_exprs := [] |}] |}.
Definition x_ops : list aop := [OAddRule x_rule; OAddCheck x_check; OAddPolicy x_deny; OAddPolicy x_allow].
Definition x_lim : limits := {| max_facts := 1000; max_iterations := 100 |}.
Definition rx0 : bytes -> bytes -> option bool := fun _ _ => None.
Definition x_sD : dstate := fold_left (astep_D rx0 x_tok) x_ops (fresh_D x_lim).
Definition x_sS : astate := fold_left (astep rx0 (resolve_token x_tok)) x_ops (fresh x_lim).
Definition x_query : rule := {| r_head := mkp s_seen [vr]; r_body := [mkp s_allowed [vr]]; r_exprs := [] |}.

Example authorize_D_nonvacuous :
  (* the token: two blocks, the second one declaring its own fresh symbols *)
  db_symbols (tk_authority x_tok) = [s_home; s_root; s_alice; s_notes; s_res; s_passwd] /\
  map db_symbols (tk_blocks x_tok) = [[s_blk1; s_tag; [114]; s_allowed; s_seen]] /\
  resolve_token x_tok = [x_blk_auth; x_blk_one] /\
  (* both levels give the same verdict and corresponding worlds *)
  snd (authorize_D rx0 x_tok x_sD) = VSuccess /\
  snd (authorize rx0 (resolve_token x_tok) x_sS) = VSuccess /\
  resolve_state (fst (authorize_D rx0 x_tok x_sD)) = fst (authorize rx0 (resolve_token x_tok) x_sS) /\
  world_D (fst (authorize_D rx0 x_tok x_sD)) =
    [mkp s_root [str s_home]; mkp s_user [str s_alice]; mkp s_res [str s_notes]; mkp s_res [str s_passwd];
     mkp s_allowed [str s_notes]] /\
  (* the table of the authorizer: its own rule's symbols, then the token's strings,
     then "/home/alice", which only evaluation (Add) produced, then block 1's *)
  d_syms (fst (authorize_D rx0 x_tok x_sD)) =
    [[112]; s_root; [117]; [114]; s_res; s_allowed; s_home; s_alice; s_notes; s_passwd; s_home_alice;
     s_blk1; s_tag; s_seen] /\
  small_table (d_syms (fst (authorize_D rx0 x_tok x_sD))) /\
  (* index-level facts: strings are indexes into that table; user = default symbol 10 *)
  d_facts (fst (authorize_D rx0 x_tok x_sD)) =
    [{| dp_name := 1025; dp_terms := [DA (DStr 1030)] |}; {| dp_name := 10; dp_terms := [DA (DStr 1031)] |};
     {| dp_name := 1028; dp_terms := [DA (DStr 1032)] |}; {| dp_name := 1028; dp_terms := [DA (DStr 1033)] |};
     {| dp_name := 1029; dp_terms := [DA (DStr 1032)] |}] /\
  (* a query afterwards *)
  snd (query_D rx0 (fst (authorize_D rx0 x_tok x_sD)) x_query) = Ok [mkp s_seen [str s_notes]] /\
  snd (query rx0 (fst (authorize rx0 (resolve_token x_tok) x_sS)) x_query) = Ok [mkp s_seen [str s_notes]].
Proof. repeat split; vm_compute; try reflexivity. discriminate. Qed.

(* the hypotheses of [authorize_D_refines(_inv)] hold for this example *)
Example authorize_D_refines_nonvacuous :
  token_inv [] x_tok /\ state_rel x_sD x_sS /\
  small_table (d_syms (fst (authorize_D rx0 x_tok x_sD))) /\
  all_small rx0 x_tok (x_ops ++ [OAuthorize; OQuery x_query]) (fresh_D x_lim).
Proof.
  assert (SR : state_rel x_sD x_sS).
  { unfold x_sD, x_sS, x_ops. cbn [fold_left].
    assert (A : forall s a o, state_rel s a -> small_tableb (d_syms (astep_D rx0 x_tok s o)) = true ->
                  state_rel (astep_D rx0 x_tok s o) (astep rx0 (resolve_token x_tok) a o)).
    { intros s a o H1 H2. apply astep_D_refines; [exact H1 | apply small_tableb_ok; exact H2]. }
    do 4 (apply A; [|vm_compute; reflexivity]). apply fresh_D_refines. }
  split; [|split; [exact SR|]; split; [vm_compute; discriminate | apply all_smallb_ok; vm_compute; reflexivity]].
  (* token_inv, by the theorems on Build and Append *)
  assert (B0 : bu_build xpub xsign (repeat 1 32) (bu_exec (new_builder [] None) xa_ops) (repeat 7 32) = Ok (x_tok0, []))
    by (vm_compute; reflexivity).
  assert (Hs0 : small_table (bu_syms (bu_exec (new_builder [] None) xa_ops))) by (vm_compute; discriminate).
  assert (Q0 : supplied [] xa_ops = x_blk_auth) by (vm_compute; reflexivity).
  assert (Wc0 : wf_block_c (supplied [] xa_ops)) by (rewrite Q0; wfc_tac).
  assert (S0 : small (sb_block (c_auth (tk_container x_tok0)))) by (vm_compute; reflexivity).
  destruct (C07_build_inv xpub xsign _ _ _ _ _ _ _ table_wf_nil Hs0 B0 Wc0 I S0) as [Inv0 _].
  set (bb' := snd (match bb_build (bb_exec (create_block x_tok0) xb_ops) with
                   | Ok r => r | _ => (ex_dummy_block, create_block x_tok0) end)).
  assert (B1 : bb_build (bb_exec (create_block x_tok0) xb_ops) = Ok (x_blk1, bb')) by (vm_compute; reflexivity).
  assert (A1 : tk_append xpub xsign x_tok0 x_blk1 (repeat 9 32) = Ok (x_tok, [])) by (vm_compute; reflexivity).
  assert (Hs1 : small_table (bb_syms (bb_exec (create_block x_tok0) xb_ops))) by (vm_compute; discriminate).
  assert (Q1 : supplied (tk_symbols x_tok0) xb_ops = x_blk_one) by (vm_compute; reflexivity).
  assert (Wc1 : wf_block_c (supplied (tk_symbols x_tok0) xb_ops)) by (rewrite Q1; wfc_tac).
  assert (S1 : small (sb_block (last_sblock (tk_container x_tok)))) by (vm_compute; reflexivity).
  destruct (C07_content_append xpub xsign [] x_tok0 xb_ops x_blk1 bb' _ x_tok [] Inv0 Hs1 B1 A1)
    as (_ & _ & _ & _ & _ & _ & K).
  destruct (K Wc1 S1) as [Inv1 _]. exact Inv1.
Qed.

(* the expression alone: "/home/alice/notes".starts_with("/home/" + "alice") in a table
   that does not hold the concatenation *)
Example eval_D_nonvacuous :
  let t := [s_home; s_alice; s_notes] in
  let e := [DOVal (DA (DStr 1026)); DOVal (DA (DStr 1024)); DOVal (DA (DStr 1025)); DOBin BAdd; DOBin BPrefix] in
  eval_D rx0 t e [] = (t ++ [s_home_alice], Ok (DA (DBool true))) /\
  eval rx0 (map (resolve_op t) e) [] = Ok (TA (ABool true)) /\
  CL closed_op t e /\ table_wf t.
Proof.
  cbv zeta. split; [vm_compute; reflexivity|]. split; [vm_compute; reflexivity|]. split.
  - unfold CL. repeat (apply Forall_cons || apply Forall_nil); cbn [closed_op closed_term closed_atom];
      try exact I; right; vm_compute; (split; [discriminate | reflexivity]).
  - split.
    + repeat constructor; cbn [In]; intuition discriminate.
    + intros s Hs Hd. revert Hd. apply (index_of_none s defaults 0).
      destruct Hs as [<-|[<-|[<-|[]]]]; vm_compute; reflexivity.
Qed.

(* ------------------------------------------------------------------ *)
(** * 8. FINDING (outside the operations above): LoadPolicies is NOT the identity at S level
      on an authorizer that already holds facts.  loadPoliciesV2 replaces v.symbols by
      base ++ saved symbols but keeps v.world: the indexes of the facts already in the
      world are silently re-bound to the loaded table.  Witness on the existing model
      Model/Snapshot.v ([load]); reproduced on the Go code (AddFact resource("file1");
      LoadPolicies(snapshot of an authorizer holding only zzz("file2")); PrintWorld shows
      resource("file2"), zzz("file2"), and `allow if resource("file2")` authorizes). *)
From BV Require Snapshot.

Definition ld_fact (n s : bytes) : pred := {| p_name := n; p_terms := [TA (AStr s)] |}.
Definition s_resource : bytes := [114;101;115;111;117;114;99;101].
Definition s_file1' : bytes := [102;105;108;101;49].
Definition s_file2' : bytes := [102;105;108;101;50].
Definition s_zzz : bytes := [122;122;122].

Example load_policies_rebinds_existing_facts :
  let recv := Snapshot.d_add_fact (Snapshot.dfresh x_lim) (ld_fact s_resource s_file1') in
  let snap := Snapshot.save (Snapshot.d_add_fact (Snapshot.dfresh x_lim) (ld_fact s_zzz s_file2')) in
  a_facts (Snapshot.sem recv) = [ld_fact s_resource s_file1'] /\
  match snap with
  | Ok bs => match Snapshot.load recv bs with
             | Ok a' => Some (a_facts (Snapshot.sem a'))
             | _ => None
             end
  | _ => None
  end = Some [ld_fact s_resource s_file2'; ld_fact s_zzz s_file2'].
Proof. cbv zeta. split; vm_compute; reflexivity. Qed.

(* ------------------------------------------------------------------ *)
Print Assumptions str_eqb_res.
Print Assumptions intern_injective.
Print Assumptions resolve_after_intern.
Print Assumptions eval_binary_ref.
Print Assumptions eval_D_refines.
Print Assumptions run_D_refines.
Print Assumptions query_rule_D_refines.
Print Assumptions authorize_D_refines.
Print Assumptions authorize_D_refines_inv.
Print Assumptions query_D_refines.
Print Assumptions add_fact_D_refines.
Print Assumptions add_rule_D_refines.
Print Assumptions add_check_D_refines.
Print Assumptions add_policy_D_refines.
Print Assumptions reset_D_refines.
Print Assumptions astep_D_refines.
Print Assumptions atrace_D_refines.
Print Assumptions atrace_full_D_refines.
Print Assumptions pipe_ok_D_agrees.
Print Assumptions authorize_D_nonvacuous.
Print Assumptions authorize_D_refines_nonvacuous.
Print Assumptions eval_D_nonvacuous.
Print Assumptions load_policies_rebinds_existing_facts.
