(* ChainProofs.v — lemmas about Model/Chain.v. *)
From BV Require Import Base Chain.

Local Open Scope nat_scope.

Fixpoint final_key (cur : bytes) (bs : list sblock) : bytes :=
  match bs with [] => cur | b :: bs' => final_key (sb_key b) bs' end.

Lemma last_default_irrel {A} (l : list A) x a b : last (x :: l) a = last (x :: l) b.
Proof. revert x. induction l as [|y l IH]; intros x; [reflexivity|]. cbn [last] in *. apply IH. Qed.

Lemma last_cons {A} (l : list A) x a : last (x :: l) a = last l x.
Proof.
  destruct l as [|y l]; [reflexivity|].
  change (last (x :: y :: l) a) with (last (y :: l) a). apply last_default_irrel.
Qed.

Lemma final_key_last a bs cur : final_key cur (a :: bs) = sb_key (last bs a).
Proof.
  cbn [final_key]. revert a. induction bs as [|b bs IH]; intros a; [reflexivity|].
  cbn [final_key]. rewrite IH. rewrite last_cons. reflexivity.
Qed.

Lemma final_key_app cur bs b : final_key cur (bs ++ [b]) = sb_key b.
Proof. revert cur. induction bs as [|x bs IH]; intros cur; cbn; auto. Qed.

Lemma app_inv_len {A} (a b c d : list A) :
  length a = length c -> a ++ b = c ++ d -> a = c /\ b = d.
Proof.
  revert c. induction a as [|x a IH]; intros [|y c] Hl H; try discriminate.
  - auto.
  - cbn in H. inversion H; subst. cbn in Hl. destruct (IH c) as [-> ->]; auto.
Qed.

Lemma app_inv_len_tail {A} (a b c d : list A) :
  length b = length d -> a ++ b = c ++ d -> a = c /\ b = d.
Proof.
  intros Hl H.
  assert (length a = length c).
  { apply (f_equal (@length A)) in H. rewrite !app_length in H. lia. }
  apply app_inv_len; auto.
Qed.

(* payload injectivity: with a 4-byte algorithm field and a 32-byte key the
   signed message determines (block bytes, algorithm bytes, key) *)
Lemma payload_injective b1 b2 :
  length (sb_key b1) = 32 -> length (sb_key b2) = 32 ->
  payload b1 = payload b2 ->
  sb_block b1 = sb_block b2 /\ le32 (sb_alg b1) = le32 (sb_alg b2) /\ sb_key b1 = sb_key b2.
Proof.
  unfold payload. intros H1 H2 H.
  apply app_inv_len_tail in H as [Hb H].
  2:{ rewrite !app_length, !le32_length. lia. }
  apply app_inv_len in H as [Ha Hk]; [auto | rewrite !le32_length; reflexivity].
Qed.

Lemma seal_payload_injective b1 b2 :
  length (sb_key b1) = 32 -> length (sb_key b2) = 32 ->
  length (sb_sig b1) = 64 -> length (sb_sig b2) = 64 ->
  seal_payload b1 = seal_payload b2 ->
  sb_block b1 = sb_block b2 /\ le32 (sb_alg b1) = le32 (sb_alg b2) /\
  sb_key b1 = sb_key b2 /\ sb_sig b1 = sb_sig b2.
Proof.
  unfold seal_payload. intros H1 H2 H3 H4 H.
  apply app_inv_len_tail in H as [Hp Hs]; [|lia].
  apply payload_injective in Hp as (? & ? & ?); auto.
Qed.

Section SigProofs.
  Variable pub : bytes -> bytes.
  Variable sign : bytes -> bytes -> bytes.
  Variable verify : bytes -> bytes -> bytes -> bool.

  Notation verify_go := (verify_go verify).
  Notation verify_link := (verify_link verify).
  Notation verify_links := (verify_links verify).
  Notation verify_proof := (verify_proof pub verify).
  Notation verify_token := (verify_token pub verify).
  Notation links_valid := (links_valid verify).
  Notation proof_valid := (proof_valid pub verify).
  Notation chain_valid := (chain_valid pub verify).
  Notation build := (build pub sign).
  Notation append := (append pub sign).
  Notation seal := (seal sign).
  Notation authorizer_for := (authorizer_for pub verify).

  (* ---------- acceptance <-> declarative chain validity ---------- *)

  Lemma verify_go_32 k m s : length k = 32 -> verify_go k m s = Ok (verify k m s).
  Proof. intros H. unfold Chain.verify_go. rewrite H. reflexivity. Qed.

  Lemma verify_link_ok cur b k :
    length cur = 32 ->
    (verify_link cur b = Ok k <->
     sb_alg b = 0%N /\ verify cur (payload b) (sb_sig b) = true /\
     length (sb_key b) = 32 /\ k = sb_key b).
  Proof.
    intros Hc. unfold Chain.verify_link. rewrite verify_go_32 by assumption.
    destruct (N.eqb_spec (sb_alg b) 0) as [Ha|Ha]; cbn [negb bind].
    2:{ split; [discriminate|]. intros [H _]. contradiction. }
    destruct (verify cur (payload b) (sb_sig b)) eqn:Hv; cbn [negb].
    2:{ split; [discriminate|]. intros (_ & H & _). discriminate. }
    destruct (Nat.eqb_spec (length (sb_key b)) 32) as [Hk|Hk]; cbn [negb].
    - split.
      + intros H; inversion H; auto.
      + intros (_ & _ & _ & ->). reflexivity.
    - split; [discriminate|]. intros (_ & _ & H & _). contradiction.
  Qed.

  Lemma verify_link_no_panic cur b s :
    length cur = 32 -> verify_link cur b <> Panic s.
  Proof.
    intros Hc. unfold Chain.verify_link. rewrite verify_go_32 by assumption.
    destruct (negb (sb_alg b =? 0)%N); [discriminate|]. cbn [bind].
    destruct (negb (verify cur (payload b) (sb_sig b))); [discriminate|].
    destruct (negb (length (sb_key b) =? 32)); discriminate.
  Qed.

  Lemma verify_links_ok bs : forall cur k,
    length cur = 32 ->
    (verify_links cur bs = Ok k <-> links_valid cur bs /\ k = final_key cur bs).
  Proof.
    induction bs as [|b bs IH]; intros cur k Hc;
      cbn [Chain.verify_links Chain.links_valid final_key].
    - split; [intros H; inversion H; auto | intros [_ ->]; reflexivity].
    - destruct (verify_link cur b) as [k1| |] eqn:Hl; cbn [bind].
      + apply verify_link_ok in Hl as (Ha & Hv & Hk & ->); [|assumption].
        rewrite (IH (sb_key b) k Hk). tauto.
      + split; [discriminate|]. intros ((Ha & Hv & Hk & _) & _).
        assert (verify_link cur b = Ok (sb_key b)) as H by (apply verify_link_ok; auto).
        congruence.
      + exfalso. eapply verify_link_no_panic; eauto.
  Qed.

  Lemma verify_links_key_len bs : forall cur k,
    length cur = 32 -> verify_links cur bs = Ok k -> length k = 32.
  Proof.
    induction bs as [|b bs IH]; intros cur k Hc; cbn [Chain.verify_links].
    - intros H; inversion H; subst; assumption.
    - destruct (verify_link cur b) as [k1| |] eqn:Hl; cbn [bind]; try discriminate.
      apply verify_link_ok in Hl as (_ & _ & Hk & ->); [|assumption]. apply IH. assumption.
  Qed.

  Lemma verify_links_no_panic bs : forall cur s,
    length cur = 32 -> verify_links cur bs <> Panic s.
  Proof.
    induction bs as [|b bs IH]; intros cur s Hc; cbn [Chain.verify_links]; [discriminate|].
    destruct (verify_link cur b) as [k1| |] eqn:Hl; cbn [bind]; try discriminate.
    - apply verify_link_ok in Hl as (_ & _ & Hk & ->); [|assumption]. apply IH. assumption.
    - exfalso. eapply verify_link_no_panic; eauto.
  Qed.

  Lemma verify_proof_ok cur c :
    length cur = 32 -> cur = sb_key (last_sblock c) ->
    (verify_proof cur c = Ok tt <-> proof_valid c).
  Proof.
    intros Hc Hk. unfold Chain.verify_proof, Chain.proof_valid.
    destruct (c_proof c) as [s|s|].
    - destruct (Nat.eqb_spec (length s) 32) as [Hs|Hs]; cbn [negb].
      + destruct (bytes_eqb cur (pub s)) eqn:He.
        * apply bytes_eqb_eq in He. split; auto. intros _. split; congruence.
        * split; [discriminate|]. intros [_ H]. rewrite <- Hk in H.
          apply bytes_eqb_eq in H. congruence.
      + split; [discriminate|]. intros [H _]. contradiction.
    - rewrite verify_go_32 by assumption. cbn [bind]. rewrite <- Hk.
      destruct (verify cur (seal_payload (last_sblock c)) s); split; auto; discriminate.
    - split; [discriminate|contradiction].
  Qed.

  Lemma verify_proof_no_panic cur c s :
    length cur = 32 -> verify_proof cur c <> Panic s.
  Proof.
    intros Hc. unfold Chain.verify_proof. destruct (c_proof c) as [x|x|]; try discriminate.
    - destruct (negb (length x =? 32)); [discriminate|].
      destruct (bytes_eqb cur (pub x)); discriminate.
    - rewrite verify_go_32 by assumption. cbn [bind].
      destruct (verify cur (seal_payload (last_sblock c)) x); discriminate.
  Qed.

  Theorem verify_token_iff_chain root c :
    length root = 32 ->
    (verify_token root c = Ok tt <-> chain_valid root c).
  Proof.
    intros Hr. unfold Chain.verify_token, Chain.chain_valid.
    destruct (verify_links root (c_auth c :: c_blocks c)) as [k| |] eqn:Hl; cbn [bind].
    - pose proof (verify_links_key_len _ _ _ Hr Hl) as Hk.
      apply verify_links_ok in Hl as [Hv ->]; [|assumption].
      rewrite final_key_last in *. fold (last_sblock c) in *.
      rewrite verify_proof_ok by auto. tauto.
    - split; [discriminate|]. intros [Hv _].
      assert (verify_links root (c_auth c :: c_blocks c) = Ok (final_key root (c_auth c :: c_blocks c))) as H
        by (apply verify_links_ok; auto).
      congruence.
    - exfalso. eapply verify_links_no_panic; eauto.
  Qed.

  Theorem verify_token_no_panic root c s :
    length root = 32 -> verify_token root c <> Panic s.
  Proof.
    intros Hr. unfold Chain.verify_token.
    destruct (verify_links root (c_auth c :: c_blocks c)) as [k| |] eqn:Hl; cbn [bind];
      try discriminate.
    - apply verify_proof_no_panic. eapply verify_links_key_len; eauto.
    - exfalso. eapply verify_links_no_panic; eauto.
  Qed.

  (* the first failing link decides the error: everything before it is valid *)
  Theorem verify_token_rejects_broken_link root c :
    length root = 32 -> ~ links_valid root (c_auth c :: c_blocks c) ->
    exists e, verify_token root c = Err e.
  Proof.
    intros Hr Hn. unfold Chain.verify_token.
    destruct (verify_links root (c_auth c :: c_blocks c)) as [k| |] eqn:Hl; cbn [bind].
    - apply verify_links_ok in Hl as [Hv _]; [contradiction|assumption].
    - eauto.
    - exfalso. eapply verify_links_no_panic; eauto.
  Qed.

  (* ---------- completeness: what the library builds verifies ---------- *)

  Hypothesis verify_sign : forall s m, verify (pub s) m (sign s m) = true.
  Hypothesis pub_len : forall s, length s = 32 -> length (pub s) = 32.

  Lemma gen_seed_ok src seed src' :
    gen_seed src = Ok (seed, src') -> seed = firstn 32 src /\ src' = skipn 32 src /\ length seed = 32.
  Proof.
    unfold gen_seed. destruct (Nat.leb_spec 32 (length src)) as [H|H]; [|discriminate].
    intros E. assert (E1 : seed = firstn 32 src) by congruence.
    assert (E2 : src' = skipn 32 src) by congruence. subst.
    split; [reflexivity|]. split; [reflexivity|]. rewrite firstn_length. lia.
  Qed.

  Lemma gen_seed_fault src : length src < 32 -> gen_seed src = Err EEntropy.
  Proof. unfold gen_seed. intros H. destruct (Nat.leb_spec 32 (length src)); [lia|reflexivity]. Qed.

  Lemma gen_seed_success src :
    32 <= length src -> gen_seed src = Ok (firstn 32 src, skipn 32 src).
  Proof. unfold gen_seed. intros H. destruct (Nat.leb_spec 32 (length src)); [reflexivity|lia]. Qed.

  Theorem build_fault root_seed rid blk src :
    length src < 32 -> build root_seed rid blk src = Err EEntropy.
  Proof. intros H. unfold Chain.build. rewrite gen_seed_fault by assumption. reflexivity. Qed.

  Theorem append_fault c blk src :
    length src < 32 ->
    (exists e, append c blk src = Err e) /\
    (forall s, c_proof c = PNextSecret s -> length s = 32 -> append c blk src = Err EEntropy).
  Proof.
    intros H. unfold Chain.append. split.
    - destruct (c_proof c) as [s|s|]; eauto.
      destruct (negb (length s =? 32)); eauto. rewrite gen_seed_fault by assumption.
      cbn [bind]. eauto.
    - intros s -> Hs. rewrite Hs.
      replace (32 =? 32) with true by reflexivity. cbn [negb].
      rewrite gen_seed_fault by assumption. reflexivity.
  Qed.

  Theorem build_success root_seed rid blk src :
    length root_seed = 32 -> 32 <= length src ->
    exists c, build root_seed rid blk src = Ok (c, skipn 32 src) /\
      c_proof c = PNextSecret (firstn 32 src) /\
      sb_key (last_sblock c) = pub (firstn 32 src) /\
      sb_block (c_auth c) = blk /\ c_blocks c = [] /\ c_rootid c = rid /\
      verify_token (pub root_seed) c = Ok tt.
  Proof.
    intros Hroot H. unfold Chain.build. rewrite gen_seed_success by assumption. cbn [bind].
    eexists. split; [reflexivity|]. cbn [c_proof c_auth c_blocks c_rootid last_sblock last sb_key sb_block].
    repeat split.
    assert (Hs : length (firstn 32 src) = 32) by (rewrite firstn_length; lia).
    apply verify_token_iff_chain; [apply pub_len; assumption|].
    unfold Chain.chain_valid, Chain.proof_valid.
    cbn [c_proof c_auth c_blocks last_sblock last Chain.links_valid sb_alg sb_key sb_sig].
    unfold payload. cbn [sb_block sb_alg sb_key].
    repeat split; auto.
  Qed.

  Lemma links_valid_app bs : forall cur b,
    links_valid cur (bs ++ [b]) <->
    links_valid cur bs /\ sb_alg b = 0%N /\
    verify (final_key cur bs) (payload b) (sb_sig b) = true /\ length (sb_key b) = 32.
  Proof.
    induction bs as [|x bs IH]; intros cur b; cbn [app Chain.links_valid final_key].
    - tauto.
    - rewrite IH. tauto.
  Qed.

  Lemma last_sblock_app c b c' :
    c_blocks c' = c_blocks c ++ [b] -> last_sblock c' = b.
  Proof. unfold last_sblock. intros ->. apply last_last. Qed.

  Theorem append_success root c blk src s :
    length root = 32 -> 32 <= length src ->
    verify_token root c = Ok tt -> c_proof c = PNextSecret s ->
    exists c' b, append c blk src = Ok (c', skipn 32 src) /\
      c_blocks c' = c_blocks c ++ [b] /\ sb_block b = blk /\
      sb_key b = pub (firstn 32 src) /\
      c_proof c' = PNextSecret (firstn 32 src) /\
      c_auth c' = c_auth c /\ c_rootid c' = c_rootid c /\
      verify_token root c' = Ok tt.
  Proof.
    intros Hr Hsrc Hv Hp.
    apply verify_token_iff_chain in Hv as [Hl Hpv]; [|assumption].
    unfold Chain.proof_valid in Hpv. rewrite Hp in Hpv. destruct Hpv as [Hs Hk].
    unfold Chain.append. rewrite Hp, Hs.
    replace (32 =? 32) with true by reflexivity. cbn [negb].
    rewrite gen_seed_success by assumption. cbn [bind].
    eexists. eexists. split; [reflexivity|].
    cbn [c_blocks c_proof c_auth c_rootid sb_block sb_key].
    repeat split.
    assert (Hs' : length (firstn 32 src) = 32) by (rewrite firstn_length; lia).
    apply verify_token_iff_chain; [assumption|].
    unfold Chain.chain_valid, Chain.proof_valid.
    cbn [c_auth c_blocks c_proof].
    split.
    - change (c_auth c :: c_blocks c ++ ?l) with ((c_auth c :: c_blocks c) ++ l).
      apply links_valid_app. split; [assumption|].
      cbn [sb_alg sb_sig sb_key]. rewrite final_key_last. fold (last_sblock c). rewrite Hk.
      unfold payload. cbn [sb_block sb_alg sb_key]. auto.
    - unfold last_sblock. cbn [c_blocks c_auth]. rewrite last_last. cbn [sb_key]. auto.
  Qed.

  Theorem seal_success root c s :
    length root = 32 -> verify_token root c = Ok tt -> c_proof c = PNextSecret s ->
    exists c', seal c = Ok c' /\
      c_blocks c' = c_blocks c /\ c_auth c' = c_auth c /\ c_rootid c' = c_rootid c /\
      (exists x, c_proof c' = PFinalSig x) /\
      verify_token root c' = Ok tt.
  Proof.
    intros Hr Hv Hp.
    apply verify_token_iff_chain in Hv as [Hl Hpv]; [|assumption].
    unfold Chain.proof_valid in Hpv. rewrite Hp in Hpv. destruct Hpv as [Hs Hk].
    unfold Chain.seal. rewrite Hp, Hs.
    replace (32 =? 32) with true by reflexivity. cbn [negb].
    eexists. split; [reflexivity|]. cbn [c_blocks c_auth c_rootid c_proof].
    repeat split; eauto.
    apply verify_token_iff_chain; [assumption|].
    unfold Chain.chain_valid, Chain.proof_valid. cbn [c_auth c_blocks c_proof].
    split; [assumption|].
    unfold last_sblock in *. cbn [c_blocks c_auth]. rewrite Hk. apply verify_sign.
  Qed.

  (* a sealed token is frozen *)
  Theorem sealed_frozen c x blk src :
    c_proof c = PFinalSig x ->
    append c blk src = Err ESealed /\ seal c = Err ESealed.
  Proof. intros H. unfold Chain.append, Chain.seal. rewrite H. auto. Qed.

  (* ---------- revocation identifiers ---------- *)
  Lemma revocation_ids_length c : length (revocation_ids c) = 1 + length (c_blocks c).
  Proof. unfold revocation_ids. cbn [length]. rewrite map_length. reflexivity. Qed.

  Lemma revocation_ids_append c blk src c' src' :
    append c blk src = Ok (c', src') ->
    exists sg, revocation_ids c' = revocation_ids c ++ [sg].
  Proof.
    unfold Chain.append. destruct (c_proof c) as [s|s|]; try discriminate.
    destruct (negb (length s =? 32)); [discriminate|].
    destruct (gen_seed src) as [[seed sr]| |]; cbn [bind]; try discriminate.
    intros H. injection H as <- _. unfold revocation_ids. cbn [c_auth c_blocks].
    rewrite map_app. cbn [map sb_sig]. eexists. rewrite app_comm_cons. reflexivity.
  Qed.

  Lemma revocation_ids_seal c c' : seal c = Ok c' -> revocation_ids c' = revocation_ids c.
  Proof.
    unfold Chain.seal. destruct (c_proof c) as [s|s|]; try discriminate.
    destruct (negb (length s =? 32)); [discriminate|].
    intros H. injection H as <-. reflexivity.
  Qed.

  (* ---------- the root key identifier travels ---------- *)
  Lemma rootid_append c blk src c' src' :
    append c blk src = Ok (c', src') -> c_rootid c' = c_rootid c.
  Proof.
    unfold Chain.append. destruct (c_proof c) as [s|s|]; try discriminate.
    destruct (negb (length s =? 32)); [discriminate|].
    destruct (gen_seed src) as [[seed sr]| |]; cbn [bind]; try discriminate.
    intros H. injection H as <- _. reflexivity.
  Qed.

  Lemma rootid_seal c c' : seal c = Ok c' -> c_rootid c' = c_rootid c.
  Proof.
    unfold Chain.seal. destruct (c_proof c) as [s|s|]; try discriminate.
    destruct (negb (length s =? 32)); [discriminate|].
    intros H. injection H as <-. reflexivity.
  Qed.

  Lemma rootid_build root_seed rid blk src c src' :
    build root_seed rid blk src = Ok (c, src') -> c_rootid c = rid.
  Proof.
    unfold Chain.build. destruct (gen_seed src) as [[seed sr]| |]; cbn [bind]; try discriminate.
    intros H. injection H as <- _. reflexivity.
  Qed.

  (* ---------- key lookup ---------- *)
  Theorem authorizer_for_exact ks c :
    authorizer_for ks c =
    match ks with
    | KSingular k => if length k =? 0 then Err ENoPublicKey else verify_token k c
    | KMap m d =>
        match (match c_rootid c with None => d | Some i => kmap_find m i end) with
        | None => Err ENoPublicKey
        | Some k => if length k =? 0 then Err ENoPublicKey else verify_token k c
        end
    end.
  Proof.
    unfold Chain.authorizer_for, select_key. destruct ks as [k|m d]; cbn [bind]; [reflexivity|].
    destruct (c_rootid c) as [i|].
    - destruct (kmap_find m i); reflexivity.
    - destruct d; reflexivity.
  Qed.

  (* ---------- histories: everything the library builds verifies ---------- *)
  Inductive chop :=
  | HBuild (rid : option N) (blk : bytes) (src : source)
  | HAppend (i : nat) (blk : bytes) (src : source)
  | HSeal (i : nat).

  Definition hstep (root_seed : bytes) (st : list container) (o : chop) : list container :=
    match o with
    | HBuild rid blk src =>
        match build root_seed rid blk src with Ok (c, _) => st ++ [c] | _ => st end
    | HAppend i blk src =>
        match nth_error st i with
        | Some p => match append p blk src with Ok (c, _) => st ++ [c] | _ => st end
        | None => st
        end
    | HSeal i =>
        match nth_error st i with
        | Some p => match seal p with Ok c => st ++ [c] | _ => st end
        | None => st
        end
    end.

  Lemma append_inv c blk src c' src' :
    append c blk src = Ok (c', src') ->
    exists s, c_proof c = PNextSecret s /\ 32 <= length src /\ src' = skipn 32 src.
  Proof.
    unfold Chain.append. destruct (c_proof c) as [s|s|]; try discriminate.
    destruct (negb (length s =? 32)); [discriminate|].
    unfold gen_seed. destruct (Nat.leb_spec 32 (length src)) as [H|H]; cbn [bind]; [|discriminate].
    intros E. exists s. repeat split; auto. congruence.
  Qed.

  Lemma seal_inv c c' : seal c = Ok c' -> exists s, c_proof c = PNextSecret s.
  Proof.
    unfold Chain.seal. destruct (c_proof c) as [s|s|]; try discriminate. eauto.
  Qed.

  Lemma build_inv root_seed rid blk src c src' :
    build root_seed rid blk src = Ok (c, src') -> 32 <= length src.
  Proof.
    unfold Chain.build, gen_seed.
    destruct (Nat.leb_spec 32 (length src)) as [H|H]; cbn [bind]; [auto|discriminate].
  Qed.

  Theorem history_complete root_seed (ops : list chop) :
    length root_seed = 32 ->
    forall st, Forall (fun c => verify_token (pub root_seed) c = Ok tt) st ->
    Forall (fun c => verify_token (pub root_seed) c = Ok tt) (fold_left (hstep root_seed) ops st).
  Proof.
    intros Hr. induction ops as [|o ops IH]; intros st Hst; cbn [fold_left]; [assumption|].
    apply IH. destruct o as [rid blk src|i blk src|i]; cbn [hstep].
    - destruct (build root_seed rid blk src) as [[c sr]| |] eqn:E; try assumption.
      apply Forall_app. split; [assumption|]. constructor; [|constructor].
      pose proof (build_inv _ _ _ _ _ _ E) as Hs.
      destruct (build_success root_seed rid blk src Hr Hs) as (c0 & E0 & _ & _ & _ & _ & _ & Hv).
      rewrite E in E0. injection E0 as <-. assumption.
    - destruct (nth_error st i) as [p|] eqn:Hn; [|assumption].
      destruct (append p blk src) as [[c sr]| |] eqn:E; try assumption.
      apply Forall_app. split; [assumption|]. constructor; [|constructor].
      destruct (append_inv _ _ _ _ _ E) as (s & Hp & Hs & _).
      assert (Hvp : verify_token (pub root_seed) p = Ok tt).
      { rewrite Forall_forall in Hst. apply Hst. eapply nth_error_In; eauto. }
      destruct (append_success (pub root_seed) p blk src s (pub_len _ Hr) Hs Hvp Hp)
        as (c0 & b0 & E0 & _ & _ & _ & _ & _ & _ & Hv).
      rewrite E in E0. injection E0 as <-. assumption.
    - destruct (nth_error st i) as [p|] eqn:Hn; [|assumption].
      destruct (seal p) as [c| |] eqn:E; try assumption.
      apply Forall_app. split; [assumption|]. constructor; [|constructor].
      destruct (seal_inv _ _ E) as (s & Hp).
      assert (Hvp : verify_token (pub root_seed) p = Ok tt).
      { rewrite Forall_forall in Hst. apply Hst. eapply nth_error_In; eauto. }
      destruct (seal_success (pub root_seed) p s (pub_len _ Hr) Hvp Hp) as (c0 & E0 & _ & _ & _ & _ & Hv).
      rewrite E in E0. injection E0 as <-. assumption.
  Qed.

  (* along every history: derived tokens keep the root key id of the token they come from,
     and their revocation ids extend the parent's *)
  Theorem history_step_preserves root_seed st o :
    forall c, In c (hstep root_seed st o) -> In c st \/
      (exists rid blk src, o = HBuild rid blk src /\ c_rootid c = rid) \/
      (exists p, In p st /\ c_rootid c = c_rootid p /\
         exists l, revocation_ids c = revocation_ids p ++ l).
  Proof.
    intros c Hc. destruct o as [rid blk src|i blk src|i]; cbn [hstep] in Hc.
    - destruct (build root_seed rid blk src) as [[c0 sr]| |] eqn:E; auto.
      apply in_app_or in Hc as [Hc|[<-|[]]]; auto.
      right. left. exists rid, blk, src. split; [reflexivity|]. eapply rootid_build; eauto.
    - destruct (nth_error st i) as [p|] eqn:Hn; auto.
      destruct (append p blk src) as [[c0 sr]| |] eqn:E; auto.
      apply in_app_or in Hc as [Hc|[<-|[]]]; auto.
      right. right. exists p. split; [eapply nth_error_In; eauto|].
      split; [eapply rootid_append; eauto|].
      destruct (revocation_ids_append _ _ _ _ _ E) as [sg Hsg]. eauto.
    - destruct (nth_error st i) as [p|] eqn:Hn; auto.
      destruct (seal p) as [c0| |] eqn:E; auto.
      apply in_app_or in Hc as [Hc|[<-|[]]]; auto.
      right. right. exists p. split; [eapply nth_error_In; eauto|].
      split; [eapply rootid_seal; eauto|].
      exists []. rewrite app_nil_r. eapply revocation_ids_seal; eauto.
  Qed.

  (* ---------- unforgeability relative to an ideal signature ledger ---------- *)
  Variable Signed : bytes -> bytes -> bytes -> Prop.   (* key, message, signature: "was produced by the key's owner" *)
  Hypothesis verify_sound : forall k m s, verify k m s = true -> Signed k m s.

  Fixpoint links_signed (cur : bytes) (bs : list sblock) : Prop :=
    match bs with
    | [] => True
    | b :: bs' => Signed cur (payload b) (sb_sig b) /\ links_signed (sb_key b) bs'
    end.

  Lemma links_valid_signed bs : forall cur, links_valid cur bs -> links_signed cur bs.
  Proof.
    induction bs as [|b bs IH]; intros cur; cbn [Chain.links_valid links_signed]; [auto|].
    intros (_ & Hv & _ & Hr). split; [apply verify_sound; assumption | apply IH; assumption].
  Qed.

  Theorem accepted_is_signed root c :
    length root = 32 -> verify_token root c = Ok tt ->
    links_signed root (c_auth c :: c_blocks c) /\
    match c_proof c with
    | PNextSecret s => sb_key (last_sblock c) = pub s
    | PFinalSig g => Signed (sb_key (last_sblock c)) (seal_payload (last_sblock c)) g
    | PNone => False
    end.
  Proof.
    intros Hr Hv. apply verify_token_iff_chain in Hv as [Hl Hp]; [|assumption].
    split; [apply links_valid_signed; assumption|].
    unfold Chain.proof_valid in Hp. destruct (c_proof c) as [s|g|]; [tauto | auto | assumption].
  Qed.

  (* contrapositive: one link nobody with the private key signed => rejected *)
  Theorem unsigned_link_rejected root c :
    length root = 32 -> ~ links_signed root (c_auth c :: c_blocks c) -> verify_token root c <> Ok tt.
  Proof. intros Hr Hn Hv. apply Hn. apply (accepted_is_signed root c Hr Hv). Qed.

  Theorem unsigned_seal_rejected root c g :
    length root = 32 -> c_proof c = PFinalSig g ->
    ~ Signed (sb_key (last_sblock c)) (seal_payload (last_sblock c)) g -> verify_token root c <> Ok tt.
  Proof.
    intros Hr Hp Hn Hv. destruct (accepted_is_signed root c Hr Hv) as [_ H]. rewrite Hp in H. auto.
  Qed.

  Theorem wrong_secret_rejected root c s :
    length root = 32 -> c_proof c = PNextSecret s -> sb_key (last_sblock c) <> pub s ->
    verify_token root c <> Ok tt.
  Proof.
    intros Hr Hp Hn Hv. destruct (accepted_is_signed root c Hr Hv) as [_ H]. rewrite Hp in H. auto.
  Qed.
End SigProofs.

Section Uniqueness.
  Variable pub : bytes -> bytes.
  Variable sign : bytes -> bytes -> bytes.
  Hypothesis pub_inj : forall s1 s2, length s1 = 32 -> length s2 = 32 -> pub s1 = pub s2 -> s1 = s2.
  Hypothesis pub_len : forall s, length s = 32 -> length (pub s) = 32.
  Hypothesis sign_inj : forall k1 m1 k2 m2, sign k1 m1 = sign k2 m2 -> k1 = k2 /\ m1 = m2.

  Theorem unique_signing_events k1 k2 blk1 blk2 seed1 seed2 :
    length seed1 = 32 -> length seed2 = 32 -> seed1 <> seed2 ->
    sign k1 (blk1 ++ le32 0 ++ pub seed1) <> sign k2 (blk2 ++ le32 0 ++ pub seed2).
  Proof.
    intros H1 H2 Hne E.
    apply sign_inj in E as [_ E].
    apply app_inv_len_tail in E as [_ E].
    2:{ rewrite !app_length, !le32_length, (pub_len _ H1), (pub_len _ H2). reflexivity. }
    apply app_inv_len in E as [_ E]; [|reflexivity].
    apply Hne. apply pub_inj; assumption.
  Qed.
End Uniqueness.

Theorem new_id_shape pub sign c blk src c' src' :
  append pub sign c blk src = Ok (c', src') ->
  exists s, c_proof c = PNextSecret s /\
    revocation_ids c' = revocation_ids c ++ [sign s (blk ++ le32 0 ++ pub (firstn 32 src))].
Proof.
  unfold append. destruct (c_proof c) as [s|s|]; try discriminate.
  destruct (negb (length s =? 32)); [discriminate|].
  unfold gen_seed. destruct (32 <=? length src); cbn [bind]; [|discriminate].
  intros E. assert (Hc : c' = {| c_rootid := c_rootid c; c_auth := c_auth c;
    c_blocks := c_blocks c ++ [{| sb_block := blk; sb_alg := 0; sb_key := pub (firstn 32 src);
                                  sb_sig := sign s (blk ++ le32 0 ++ pub (firstn 32 src)) |}];
    c_proof := PNextSecret (firstn 32 src) |}) by congruence.
  subst c'. exists s. split; [reflexivity|].
  unfold revocation_ids. cbn [c_auth c_blocks]. rewrite map_app. reflexivity.
Qed.
