(* ChainProofs.v — lemmas about Model/Chain.v. *)
From BV Require Import Base Chain.

Local Open Scope nat_scope.

Fixpoint final_key (cur : bytes) (bs : list sblock) : bytes :=
  match bs with [] => cur | b :: bs' => final_key (sb_key b) bs' end.

Lemma last_default_irrel {A} (l : list A) x a b : last (x :: l) a = last (x :: l) b.
Proof. revert x. induction l as [|y l IH]; intros x; [reflexivity|]. cbn [last] in *. apply IH. Qed.

Lemma last_cons {A} (l : list A) x a : last (x :: l) a = last l x.
Proof.
  destruct l as [|y l]; [reflexivity|].
  change (last (x :: y :: l) a) with (last (y :: l) a). apply last_default_irrel.
Qed.

Lemma final_key_last a bs cur : final_key cur (a :: bs) = sb_key (last bs a).
Proof.
  cbn [final_key]. revert a. induction bs as [|b bs IH]; intros a; [reflexivity|].
  cbn [final_key]. rewrite IH. rewrite last_cons. reflexivity.
Qed.

Lemma final_key_app cur bs b : final_key cur (bs ++ [b]) = sb_key b.
Proof. revert cur. induction bs as [|x bs IH]; intros cur; cbn; auto. Qed.

Lemma app_inv_len {A} (a b c d : list A) :
  length a = length c -> a ++ b = c ++ d -> a = c /\ b = d.
Proof.
  revert c. induction a as [|x a IH]; intros [|y c] Hl H; try discriminate.
  - auto.
  - cbn in H. inversion H; subst. cbn in Hl. destruct (IH c) as [-> ->]; auto.
Qed.

Lemma app_inv_len_tail {A} (a b c d : list A) :
  length b = length d -> a ++ b = c ++ d -> a = c /\ b = d.
Proof.
  intros Hl H.
  assert (length a = length c).
  { apply (f_equal (@length A)) in H. rewrite !app_length in H. lia. }
  apply app_inv_len; auto.
Qed.

(* payload injectivity: with a 4-byte algorithm field and a 32-byte key the
   signed message determines (block bytes, algorithm bytes, key) *)
Lemma payload_injective b1 b2 :
  length (sb_key b1) = 32 -> length (sb_key b2) = 32 ->
  payload b1 = payload b2 ->
  sb_block b1 = sb_block b2 /\ le32 (sb_alg b1) = le32 (sb_alg b2) /\ sb_key b1 = sb_key b2.
Proof.
  unfold payload. intros H1 H2 H.
  apply app_inv_len_tail in H as [Hb H].
  2:{ rewrite !app_length, !le32_length. lia. }
  apply app_inv_len in H as [Ha Hk]; [auto | rewrite !le32_length; reflexivity].
Qed.

Lemma seal_payload_injective b1 b2 :
  length (sb_key b1) = 32 -> length (sb_key b2) = 32 ->
  length (sb_sig b1) = 64 -> length (sb_sig b2) = 64 ->
  seal_payload b1 = seal_payload b2 ->
  sb_block b1 = sb_block b2 /\ le32 (sb_alg b1) = le32 (sb_alg b2) /\
  sb_key b1 = sb_key b2 /\ sb_sig b1 = sb_sig b2.
Proof.
  unfold seal_payload. intros H1 H2 H3 H4 H.
  apply app_inv_len_tail in H as [Hp Hs]; [|lia].
  apply payload_injective in Hp as (? & ? & ?); auto.
Qed.

Section SigProofs.
  Variable pub : bytes -> bytes.
  Variable sign : bytes -> bytes -> bytes.
  Variable verify : bytes -> bytes -> bytes -> bool.

  Notation verify_go := (verify_go verify).
  Notation verify_link := (verify_link verify).
  Notation verify_links := (verify_links verify).
  Notation verify_proof := (verify_proof pub verify).
  Notation verify_token := (verify_token pub verify).
  Notation links_valid := (links_valid verify).
  Notation proof_valid := (proof_valid pub verify).
  Notation chain_valid := (chain_valid pub verify).
  Notation build := (build pub sign).
  Notation append := (append pub sign).
  Notation seal := (seal sign).
  Notation authorizer_for := (authorizer_for pub verify).

  (* ---------- acceptance <-> declarative chain validity ---------- *)

  Lemma verify_go_32 k m s : length k = 32 -> verify_go k m s = Ok (verify k m s).
  Proof. intros H. unfold Chain.verify_go. rewrite H. reflexivity. Qed.

  Lemma verify_link_ok cur b k :
    length cur = 32 ->
    (verify_link cur b = Ok k <->
     sb_alg b = 0%N /\ verify cur (payload b) (sb_sig b) = true /\
     length (sb_key b) = 32 /\ k = sb_key b).
  Proof.
    intros Hc. unfold Chain.verify_link. rewrite verify_go_32 by assumption.
    destruct (N.eqb_spec (sb_alg b) 0) as [Ha|Ha]; cbn [negb bind].
    2:{ split; [discriminate|]. intros [H _]. contradiction. }
    destruct (verify cur (payload b) (sb_sig b)) eqn:Hv; cbn [negb].
    2:{ split; [discriminate|]. intros (_ & H & _). discriminate. }
    destruct (Nat.eqb_spec (length (sb_key b)) 32) as [Hk|Hk]; cbn [negb].
    - split.
      + intros H; inversion H; auto.
      + intros (_ & _ & _ & ->). reflexivity.
    - split; [discriminate|]. intros (_ & _ & H & _). contradiction.
  Qed.

  Lemma verify_link_no_panic cur b s :
    length cur = 32 -> verify_link cur b <> Panic s.
  Proof.
    intros Hc. unfold Chain.verify_link. rewrite verify_go_32 by assumption.
    destruct (negb (sb_alg b =? 0)%N); [discriminate|]. cbn [bind].
    destruct (negb (verify cur (payload b) (sb_sig b))); [discriminate|].
    destruct (negb (length (sb_key b) =? 32)); discriminate.
  Qed.

  Lemma verify_links_ok bs : forall cur k,
    length cur = 32 ->
    (verify_links cur bs = Ok k <-> links_valid cur bs /\ k = final_key cur bs).
  Proof.
    induction bs as [|b bs IH]; intros cur k Hc;
      cbn [Chain.verify_links Chain.links_valid final_key].
    - split; [intros H; inversion H; auto | intros [_ ->]; reflexivity].
    - destruct (verify_link cur b) as [k1| |] eqn:Hl; cbn [bind].
      + apply verify_link_ok in Hl as (Ha & Hv & Hk & ->); [|assumption].
        rewrite (IH (sb_key b) k Hk). tauto.
      + split; [discriminate|]. intros ((Ha & Hv & Hk & _) & _).
        assert (verify_link cur b = Ok (sb_key b)) as H by (apply verify_link_ok; auto).
        congruence.
      + exfalso. eapply verify_link_no_panic; eauto.
  Qed.

  Lemma verify_links_key_len bs : forall cur k,
    length cur = 32 -> verify_links cur bs = Ok k -> length k = 32.
  Proof.
    induction bs as [|b bs IH]; intros cur k Hc; cbn [Chain.verify_links].
    - intros H; inversion H; subst; assumption.
    - destruct (verify_link cur b) as [k1| |] eqn:Hl; cbn [bind]; try discriminate.
      apply verify_link_ok in Hl as (_ & _ & Hk & ->); [|assumption]. apply IH. assumption.
  Qed.

  Lemma verify_links_no_panic bs : forall cur s,
    length cur = 32 -> verify_links cur bs <> Panic s.
  Proof.
    induction bs as [|b bs IH]; intros cur s Hc; cbn [Chain.verify_links]; [discriminate|].
    destruct (verify_link cur b) as [k1| |] eqn:Hl; cbn [bind]; try discriminate.
    - apply verify_link_ok in Hl as (_ & _ & Hk & ->); [|assumption]. apply IH. assumption.
    - exfalso. eapply verify_link_no_panic; eauto.
  Qed.

  Lemma verify_proof_ok cur c :
    length cur = 32 -> cur = sb_key (last_sblock c) ->
    (verify_proof cur c = Ok tt <-> proof_valid c).
  Proof.
    intros Hc Hk. unfold Chain.verify_proof, Chain.proof_valid.
    destruct (c_proof c) as [s|s|].
    - destruct (Nat.eqb_spec (length s) 32) as [Hs|Hs]; cbn [negb].
      + destruct (bytes_eqb cur (pub s)) eqn:He.
        * apply bytes_eqb_eq in He. split; auto. intros _. split; congruence.
        * split; [discriminate|]. intros [_ H]. rewrite <- Hk in H.
          apply bytes_eqb_eq in H. congruence.
      + split; [discriminate|]. intros [H _]. contradiction.
    - rewrite verify_go_32 by assumption. cbn [bind]. rewrite <- Hk.
      destruct (verify cur (seal_payload (last_sblock c)) s); split; auto; discriminate.
    - split; [discriminate|contradiction].
  Qed.

  Lemma verify_proof_no_panic cur c s :
    length cur = 32 -> verify_proof cur c <> Panic s.
  Proof.
    intros Hc. unfold Chain.verify_proof. destruct (c_proof c) as [x|x|]; try discriminate.
    - destruct (negb (length x =? 32)); [discriminate|].
      destruct (bytes_eqb cur (pub x)); discriminate.
    - rewrite verify_go_32 by assumption. cbn [bind].
      destruct (verify cur (seal_payload (last_sblock c)) x); discriminate.
  Qed.

  Theorem verify_token_iff_chain root c :
    length root = 32 ->
    (verify_token root c = Ok tt <-> chain_valid root c).
  Proof.
    intros Hr. unfold Chain.verify_token, Chain.chain_valid.
    destruct (verify_links root (c_auth c :: c_blocks c)) as [k| |] eqn:Hl; cbn [bind].
    - pose proof (verify_links_key_len _ _ _ Hr Hl) as Hk.
      apply verify_links_ok in Hl as [Hv ->]; [|assumption].
      rewrite final_key_last in *. fold (last_sblock c) in *.
      rewrite verify_proof_ok by auto. tauto.
    - split; [discriminate|]. intros [Hv _].
      assert (verify_links root (c_auth c :: c_blocks c) = Ok (final_key root (c_auth c :: c_blocks c))) as H
        by (apply verify_links_ok; auto).
      congruence.
    - exfalso. eapply verify_links_no_panic; eauto.
  Qed.

  Theorem verify_token_no_panic root c s :
    length root = 32 -> verify_token root c <> Panic s.
  Proof.
    intros Hr. unfold Chain.verify_token.
    destruct (verify_links root (c_auth c :: c_blocks c)) as [k| |] eqn:Hl; cbn [bind];
      try discriminate.
    - apply verify_proof_no_panic. eapply verify_links_key_len; eauto.
    - exfalso. eapply verify_links_no_panic; eauto.
  Qed.

  (* the first failing link decides the error: everything before it is valid *)
  Theorem verify_token_rejects_broken_link root c :
    length root = 32 -> ~ links_valid root (c_auth c :: c_blocks c) ->
    exists e, verify_token root c = Err e.
  Proof.
    intros Hr Hn. unfold Chain.verify_token.
    destruct (verify_links root (c_auth c :: c_blocks c)) as [k| |] eqn:Hl; cbn [bind].
    - apply verify_links_ok in Hl as [Hv _]; [contradiction|assumption].
    - eauto.
    - exfalso. eapply verify_links_no_panic; eauto.
  Qed.

  (* ---------- completeness: what the library builds verifies ---------- *)

  Hypothesis verify_sign : forall s m, verify (pub s) m (sign s m) = true.
  Hypothesis pub_len : forall s, length s = 32 -> length (pub s) = 32.

  Lemma gen_seed_ok src seed src' :
    gen_seed src = Ok (seed, src') -> seed = firstn 32 src /\ src' = skipn 32 src /\ length seed = 32.
  Proof.
    unfold gen_seed. destruct (Nat.leb_spec 32 (length src)) as [H|H]; [|discriminate].
    intros E. assert (E1 : seed = firstn 32 src) by congruence.
    assert (E2 : src' = skipn 32 src) by congruence. subst.
    split; [reflexivity|]. split; [reflexivity|]. rewrite firstn_length. lia.
  Qed.

  Lemma gen_seed_fault src : length src < 32 -> gen_seed src = Err EEntropy.
  Proof. unfold gen_seed. intros H. destruct (Nat.leb_spec 32 (length src)); [lia|reflexivity]. Qed.

  Lemma gen_seed_success src :
    32 <= length src -> gen_seed src = Ok (firstn 32 src, skipn 32 src).
  Proof. unfold gen_seed. intros H. destruct (Nat.leb_spec 32 (length src)); [reflexivity|lia]. Qed.

  Theorem build_fault root_seed rid blk src :
    length src < 32 -> build root_seed rid blk src = Err EEntropy.
  Proof. intros H. unfold Chain.build. rewrite gen_seed_fault by assumption. reflexivity. Qed.

  Theorem append_fault c blk src :
    length src < 32 ->
    (exists e, append c blk src = Err e) /\
    (forall s, c_proof c = PNextSecret s -> length s = 32 -> append c blk src = Err EEntropy).
  Proof.
    intros H. unfold Chain.append. split.
    - destruct (c_proof c) as [s|s|]; eauto.
      destruct (negb (length s =? 32)); eauto. rewrite gen_seed_fault by assumption.
      cbn [bind]. eauto.
    - intros s -> Hs. rewrite Hs.
      replace (32 =? 32) with true by reflexivity. cbn [negb].
      rewrite gen_seed_fault by assumption. reflexivity.
  Qed.

  Theorem build_success root_seed rid blk src :
    length root_seed = 32 -> 32 <= length src ->
    exists c, build root_seed rid blk src = Ok (c, skipn 32 src) /\
      c_proof c = PNextSecret (firstn 32 src) /\
      sb_key (last_sblock c) = pub (firstn 32 src) /\
      sb_block (c_auth c) = blk /\ c_blocks c = [] /\ c_rootid c = rid /\
      verify_token (pub root_seed) c = Ok tt.
  Proof.
    intros Hroot H. unfold Chain.build. rewrite gen_seed_success by assumption. cbn [bind].
    eexists. split; [reflexivity|]. cbn [c_proof c_auth c_blocks c_rootid last_sblock last sb_key sb_block].
    repeat split.
    assert (Hs : length (firstn 32 src) = 32) by (rewrite firstn_length; lia).
    apply verify_token_iff_chain; [apply pub_len; assumption|].
    unfold Chain.chain_valid, Chain.proof_valid.
    cbn [c_proof c_auth c_blocks last_sblock last Chain.links_valid sb_alg sb_key sb_sig].
    unfold payload. cbn [sb_block sb_alg sb_key].
    repeat split; auto.
  Qed.

  Lemma links_valid_app bs : forall cur b,
    links_valid cur (bs ++ [b]) <->
    links_valid cur bs /\ sb_alg b = 0%N /\
    verify (final_key cur bs) (payload b) (sb_sig b) = true /\ length (sb_key b) = 32.
  Proof.
    induction bs as [|x bs IH]; intros cur b; cbn [app Chain.links_valid final_key].
    - tauto.
    - rewrite IH. tauto.
  Qed.

  Lemma last_sblock_app c b c' :
    c_blocks c' = c_blocks c ++ [b] -> last_sblock c' = b.
  Proof. unfold last_sblock. intros ->. apply last_last. Qed.

  Theorem append_success root c blk src s :
    length root = 32 -> 32 <= length src ->
    verify_token root c = Ok tt -> c_proof c = PNextSecret s ->
    exists c' b, append c blk src = Ok (c', skipn 32 src) /\
      c_blocks c' = c_blocks c ++ [b] /\ sb_block b = blk /\
      sb_key b = pub (firstn 32 src) /\
      c_proof c' = PNextSecret (firstn 32 src) /\
      c_auth c' = c_auth c /\ c_rootid c' = c_rootid c /\
      verify_token root c' = Ok tt.
  Proof.
    intros Hr Hsrc Hv Hp.
    apply verify_token_iff_chain in Hv as [Hl Hpv]; [|assumption].
    unfold Chain.proof_valid in Hpv. rewrite Hp in Hpv. destruct Hpv as [Hs Hk].
    unfold Chain.append. rewrite Hp, Hs.
    replace (32 =? 32) with true by reflexivity. cbn [negb].
    rewrite gen_seed_success by assumption. cbn [bind].
    eexists. eexists. split; [reflexivity|].
    cbn [c_blocks c_proof c_auth c_rootid sb_block sb_key].
    repeat split.
    assert (Hs' : length (firstn 32 src) = 32) by (rewrite firstn_length; lia).
    apply verify_token_iff_chain; [assumption|].
    unfold Chain.chain_valid, Chain.proof_valid.
    cbn [c_auth c_blocks c_proof].
    split.
    - change (c_auth c :: c_blocks c ++ ?l) with ((c_auth c :: c_blocks c) ++ l).
      apply links_valid_app. split; [assumption|].
      cbn [sb_alg sb_sig sb_key]. rewrite final_key_last. fold (last_sblock c). rewrite Hk.
      unfold payload. cbn [sb_block sb_alg sb_key]. auto.
    - unfold last_sblock. cbn [c_blocks c_auth]. rewrite last_last. cbn [sb_key]. auto.
  Qed.

  Theorem seal_success root c s :
    length root = 32 -> verify_token root c = Ok tt -> c_proof c = PNextSecret s ->
    exists c', seal c = Ok c' /\
      c_blocks c' = c_blocks c /\ c_auth c' = c_auth c /\ c_rootid c' = c_rootid c /\
      (exists x, c_proof c' = PFinalSig x) /\
      verify_token root c' = Ok tt.
  Proof.
    intros Hr Hv Hp.
    apply verify_token_iff_chain in Hv as [Hl Hpv]; [|assumption].
    unfold Chain.proof_valid in Hpv. rewrite Hp in Hpv. destruct Hpv as [Hs Hk].
    unfold Chain.seal. rewrite Hp, Hs.
    replace (32 =? 32) with true by reflexivity. cbn [negb].
    eexists. split; [reflexivity|]. cbn [c_blocks c_auth c_rootid c_proof].
    repeat split; eauto.
    apply verify_token_iff_chain; [assumption|].
    unfold Chain.chain_valid, Chain.proof_valid. cbn [c_auth c_blocks c_proof].
    split; [assumption|].
    unfold last_sblock in *. cbn [c_blocks c_auth]. rewrite Hk. apply verify_sign.
  Qed.

  (* a sealed token is frozen *)
  Theorem sealed_frozen c x blk src :
    c_proof c = PFinalSig x ->
    append c blk src = Err ESealed /\ seal c = Err ESealed.
  Proof. intros H. unfold Chain.append, Chain.seal. rewrite H. auto. Qed.

  (* ---------- revocation identifiers ---------- *)
  Lemma revocation_ids_length c : length (revocation_ids c) = 1 + length (c_blocks c).
  Proof. unfold revocation_ids. cbn [length]. rewrite map_length. reflexivity. Qed.

  Lemma revocation_ids_append c blk src c' src' :
    append c blk src = Ok (c', src') ->
    exists sg, revocation_ids c' = revocation_ids c ++ [sg].
  Proof.
    unfold Chain.append. destruct (c_proof c) as [s|s|]; try discriminate.
    destruct (negb (length s =? 32)); [discriminate|].
    destruct (gen_seed src) as [[seed sr]| |]; cbn [bind]; try discriminate.
    intros H. injection H as <- _. unfold revocation_ids. cbn [c_auth c_blocks].
    rewrite map_app. cbn [map sb_sig]. eexists. rewrite app_comm_cons. reflexivity.
  Qed.

  Lemma revocation_ids_seal c c' : seal c = Ok c' -> revocation_ids c' = revocation_ids c.
  Proof.
    unfold Chain.seal. destruct (c_proof c) as [s|s|]; try discriminate.
    destruct (negb (length s =? 32)); [discriminate|].
    intros H. injection H as <-. reflexivity.
  Qed.

  (* ---------- the root key identifier travels ---------- *)
  Lemma rootid_append c blk src c' src' :
    append c blk src = Ok (c', src') -> c_rootid c' = c_rootid c.
  Proof.
    unfold Chain.append. destruct (c_proof c) as [s|s|]; try discriminate.
    destruct (negb (length s =? 32)); [discriminate|].
    destruct (gen_seed src) as [[seed sr]| |]; cbn [bind]; try discriminate.
    intros H. injection H as <- _. reflexivity.
  Qed.

  Lemma rootid_seal c c' : seal c = Ok c' -> c_rootid c' = c_rootid c.
  Proof.
    unfold Chain.seal. destruct (c_proof c) as [s|s|]; try discriminate.
    destruct (negb (length s =? 32)); [discriminate|].
    intros H. injection H as <-. reflexivity.
  Qed.

  Lemma rootid_build root_seed rid blk src c src' :
    build root_seed rid blk src = Ok (c, src') -> c_rootid c = rid.
  Proof.
    unfold Chain.build. destruct (gen_seed src) as [[seed sr]| |]; cbn [bind]; try discriminate.
    intros H. injection H as <- _. reflexivity.
  Qed.

  (* ---------- key lookup ---------- *)
  Theorem authorizer_for_exact ks c :
    authorizer_for ks c =
    match ks with
    | KSingular k => if length k =? 0 then Err ENoPublicKey else verify_token k c
    | KMap m d =>
        match (match c_rootid c with None => d | Some i => kmap_find m i end) with
        | None => Err ENoPublicKey
        | Some k => if length k =? 0 then Err ENoPublicKey else verify_token k c
        end
    end.
  Proof.
    unfold Chain.authorizer_for, select_key. destruct ks as [k|m d]; cbn [bind]; [reflexivity|].
    destruct (c_rootid c) as [i|].
    - destruct (kmap_find m i); reflexivity.
    - destruct d; reflexivity.
  Qed.
End SigProofs.
