(* GenFnPrintProofs.v — stage F of the source-level tie: the definitions that /verif/genfn
   regenerates from the text of SymbolTable.Index (datalog/symbol.go) and of the expression
   printer of datalog/expressions.go — Expression.Print, UnaryOp.Print, BinaryOp.Print,
   stringstack.Push / Pop — are EQUAL to the model (Model/Symbols.v sym_find; Model/Printer.v
   print_unop / print_binop / print_ops), for all inputs in the ranges of the Go types.

   Term.String() (time formatting, hex, %d: not translated) is the ORACLE parameter
   [tstr : dterm -> bytes] of go_Expression_Print; every theorem holds for every tstr.

   The Go string stack is a slice whose TOP IS ITS LAST element; the model's stack is a list
   whose top is its head: the two are related by [rev], as in GenFnEvalProofs.

   The scripts follow Proofs/GenFnProofs.v: the case analysis is the MODEL's (op, stack shape);
   the generated side is only unfolded (hint database go_fn), rewritten with the theorems of the
   functions it calls, and reduced.  Nothing refers to a bound name or to the order of the
   branches of the generated term. *)
From Coq Require Import ZifyN ZifyNat ZifyBool.
From BV Require Import Base Term Expr DTerm Symbols Lexer Parser Printer GoSem.
From BV Require Import GeneratedFn GenFnProofs GenFnEvalProofs.
From BV Require Generated.

Ltac Zify.zify_post_hook ::= Z.to_euclidean_division_equations.

Local Open Scope Z_scope.

(* ------------------------------------------------------------------ *)
(** * 1. SymbolTable.Index: the index of a known string, a panic otherwise *)

Theorem go_SymbolTable_Index_eq : forall (t : table) (s : bytes),
  table_fits t ->
  go_SymbolTable_Index t s =
  match sym_find t s with Some i => Ok i | None => Panic site_panic end.
Proof.
  intros t s Ht. unfold sym_find. go_lookup s.
Qed.
Print Assumptions go_SymbolTable_Index_eq.

Example go_SymbolTable_Index_ex :
  go_SymbolTable_Index [[120]; [121]]%N [121]%N = Ok 1025%N /\
  go_SymbolTable_Index [[120]; [121]]%N [113;117;101;114;121]%N = Ok 27%N /\
  go_SymbolTable_Index [[120]; [121]]%N [122]%N = Panic site_panic.
Proof. vm_compute. repeat split. Qed.

Global Opaque go_SymbolTable_Index.

(* ------------------------------------------------------------------ *)
(** * 2. stringstack.Push / Pop: the Go stack is [rev] of the model's *)

Theorem go_stringstack_Push_eq : forall (st : list bytes) (v : bytes),
  go_stringstack_Push (rev st) v =
  if (Generated.max_stack <=? lenN st)%N then (rev st, Err EIllTyped) else (rev (v :: st), Ok tt).
Proof.
  intros st v. autounfold with go_fn.
  rewrite ?len_int_length, ?rev_length, lenN_length. go_red.
  change Generated.max_stack with 1000%N.
  destruct (N.leb_spec 1000 (N.of_nat (length st))) as [H|H]; go_red;
    repeat (go_split_if; go_red); cbn [rev]; first [reflexivity | exfalso; lia].
Qed.
Print Assumptions go_stringstack_Push_eq.

Example go_stringstack_Push_ex :
  go_stringstack_Push [[97]; [98]]%N [99]%N = ([[97]; [98]; [99]]%N, Ok tt) /\
  go_stringstack_Push (repeat [97]%N 999) [99]%N = (repeat [97]%N 999 ++ [[99]%N], Ok tt) /\
  go_stringstack_Push (repeat [97]%N 1000) [99]%N = (repeat [97]%N 1000, Err EIllTyped).
Proof. vm_compute. repeat split. Qed.

Theorem go_stringstack_Pop_eq : forall (st : list bytes),
  len_ok st ->
  go_stringstack_Pop (rev st) =
  match st with
  | [] => (rev st, Err EIllTyped)
  | v :: st' => (rev st', Ok v)
  end.
Proof.
  intros st Hlen. unfold len_ok in Hlen. rewrite len_int_length in Hlen.
  autounfold with go_fn. destruct st as [|v st'].
  - cbn [rev]. change (len_int (@nil bytes)) with 0. go_red. go_splits; first [reflexivity | discriminate | lia].
  - cbn [rev length] in *. rewrite !len_int_app. change (len_int [v]) with 1.
    assert (Hn := len_int_nonneg (rev st')).
    assert (Hl : len_int (rev st') = Z.of_nat (length st')) by (rewrite len_int_length, rev_length; reflexivity).
    rewrite ?(idx_app_last (rev st') v) by (go_consts; lia).
    rewrite ?(slice_app_last (rev st') v) by (go_consts; lia).
    go_red. go_splits; first [reflexivity | exfalso; go_consts; lia].
Qed.
Print Assumptions go_stringstack_Pop_eq.

Example go_stringstack_Pop_ex :
  go_stringstack_Pop [[97]; [98]; [99]]%N = ([[97]; [98]]%N, Ok [99]%N) /\
  go_stringstack_Pop [] = ([], Err EIllTyped).
Proof. vm_compute. repeat split. Qed.

Global Opaque go_stringstack_Push go_stringstack_Pop.

(* ------------------------------------------------------------------ *)
(** * 3. UnaryOp.Print / BinaryOp.Print: the Sprintf of every operator is the model's
      apply_fmt of the format that /verif/gen extracted into Generated.v *)

Theorem go_UnaryOp_Print_eq : forall (u : unop) (v : bytes),
  go_UnaryOp_Print u v = Ok (print_unop u v).
Proof.
  intros u v. destruct u; autounfold with go_fn; go_red; go_tags; go_red;
    unfold print_unop; cbn [unop_fmt_c fmt_negate fmt_parens fmt_length apply_fmt app];
    rewrite ?app_nil_r; reflexivity.
Qed.
Print Assumptions go_UnaryOp_Print_eq.

Example go_UnaryOp_Print_ex :
  go_UnaryOp_Print UParens [40; 97; 41]%N = Ok [40; 40; 97; 41; 41]%N /\
  go_UnaryOp_Print ULength [34; 120; 34]%N = Ok ([34; 120; 34] ++ [46;108;101;110;103;116;104;40;41])%N /\
  go_UnaryOp_Print UNegate [97]%N = Ok [33; 97]%N.
Proof. vm_compute. repeat split. Qed.

Theorem go_BinaryOp_Print_eq : forall (b : binop) (l r : bytes),
  go_BinaryOp_Print b l r = Ok (print_binop b l r).
Proof.
  intros b l r. destruct b; autounfold with go_fn; go_red; go_tags; go_red;
    unfold print_binop, binop_fmt_c; cbn [binop_index nth binop_fmt_tbl apply_fmt app];
    rewrite ?app_nil_r, <- ?app_assoc; reflexivity.
Qed.
Print Assumptions go_BinaryOp_Print_eq.

Example go_BinaryOp_Print_ex :
  go_BinaryOp_Print BGreaterThan [97]%N [98]%N = Ok [97; 32; 62; 32; 98]%N /\
  go_BinaryOp_Print BLessThan [97]%N [98]%N = Ok [97; 32; 60; 32; 98]%N /\
  go_BinaryOp_Print BContains [97]%N [98]%N = Ok ([97] ++ [46;99;111;110;116;97;105;110;115;40] ++ [98; 41])%N.
Proof. vm_compute. repeat split. Qed.

Global Opaque go_UnaryOp_Print go_BinaryOp_Print.

(* ------------------------------------------------------------------ *)
(** * 4. The model's printer generalised over the printer of terms *)

(* Printer.print_ops with the term printer as a parameter (the Go code prints at index level:
   symbols.Str / symbols.Var for strings and variables, Term.String() for the rest) *)
Fixpoint print_ops_g (pt : dterm -> bytes) (e : dexpr) (st : list bytes) (n : N) : bytes :=
  match e with
  | [] => match st with [v] => v | _ => E_result end
  | DOVal x :: e' =>
      if (Generated.max_stack <=? n)%N then E_overflow else print_ops_g pt e' (pt x :: st) (n + 1)
  | DOUn u :: e' =>
      match st with
      | v :: st' =>
          if (Generated.max_stack <=? n - 1)%N then E_overflow
          else print_ops_g pt e' (print_unop u v :: st') n
      | [] => E_unary_pop
      end
  | DOBin b :: e' =>
      match st with
      | r :: l :: st' =>
          if (Generated.max_stack <=? n - 2)%N then E_overflow
          else print_ops_g pt e' (print_binop b l r :: st') (n - 1)
      | [_] => E_bin_left
      | [] => E_bin_right
      end
  end.

(* the term printer of Expression.Print at index level *)
Definition pt_of (tstr : dterm -> bytes) (t : table) (x : dterm) : bytes :=
  match x with
  | DA (DStr s) => [34]%N ++ sym_str t s ++ [34]%N
  | DA (DVar v) => [36]%N ++ sym_var t v
  | _ => tstr x
  end.

(* print_ops_g instantiated with the S-level term printer IS the model's print_ops on the
   resolved expression *)
Lemma print_ops_g_model (sidx : bytes -> N) (t : table) (pt : dterm -> bytes) : forall (e : dexpr) st n,
  (forall x, In (DOVal x) e -> pt x = print_term sidx (resolve_term t x)) ->
  print_ops_g pt e st n = print_ops sidx (map (resolve_op t) e) st n.
Proof.
  induction e as [|o e IH]; intros st n Hpt; [reflexivity|].
  assert (He : forall x, In (DOVal x) e -> pt x = print_term sidx (resolve_term t x))
    by (intros x Hx; apply Hpt; right; exact Hx).
  destruct o as [x|u|b]; cbn [print_ops_g print_ops map resolve_op].
  - rewrite (Hpt x) by (left; reflexivity). rewrite IH by exact He. reflexivity.
  - destruct st as [|v st']; [reflexivity|]. rewrite IH by exact He. reflexivity.
  - destruct st as [|r [|l st']]; try reflexivity. rewrite IH by exact He. reflexivity.
Qed.

(* where pt_of agrees with the S-level printer: strings always; variables when the index is
   that of a known symbol (fromDatalogID resolves a variable with Str, Print with Var: the
   two differ only in the text "<invalid symbol n>" / "<invalid variable n>") *)
Lemma pt_of_str sidx tstr t s :
  pt_of tstr t (DA (DStr s)) = print_term sidx (resolve_term t (DA (DStr s))).
Proof. reflexivity. Qed.
Lemma pt_of_var_known sidx tstr t v :
  sym_var t v = sym_str t v ->
  pt_of tstr t (DA (DVar v)) = print_term sidx (resolve_term t (DA (DVar v))).
Proof. intros H. cbn [pt_of resolve_term resolve_atom print_term]. rewrite H. reflexivity. Qed.

(* one step, and the run, on a stack whose size is its length *)
Definition pstep (pt : dterm -> bytes) (o : dop) (st : list bytes) : list bytes + bytes :=
  match o with
  | DOVal x => if (Generated.max_stack <=? lenN st)%N then inr E_overflow else inl (pt x :: st)
  | DOUn u =>
      match st with
      | v :: st' => if (Generated.max_stack <=? lenN st')%N then inr E_overflow else inl (print_unop u v :: st')
      | [] => inr E_unary_pop
      end
  | DOBin b =>
      match st with
      | r :: l :: st' => if (Generated.max_stack <=? lenN st')%N then inr E_overflow else inl (print_binop b l r :: st')
      | [_] => inr E_bin_left
      | [] => inr E_bin_right
      end
  end.
Fixpoint prun (pt : dterm -> bytes) (e : dexpr) (st : list bytes) : list bytes + bytes :=
  match e with
  | [] => inl st
  | o :: e' => match pstep pt o st with inl st' => prun pt e' st' | inr r => inr r end
  end.
Definition pfinal (st : list bytes) : bytes := match st with [v] => v | _ => E_result end.

Lemma print_ops_g_prun pt : forall e st,
  print_ops_g pt e st (lenN st) = match prun pt e st with inl st' => pfinal st' | inr r => r end.
Proof.
  induction e as [|o e IH]; intros st; [reflexivity|].
  destruct o as [x|u|b]; cbn [print_ops_g prun pstep].
  - destruct (Generated.max_stack <=? lenN st)%N; [reflexivity|].
    replace (lenN st + 1)%N with (lenN (pt x :: st)) by (cbn [lenN]; lia). apply IH.
  - destruct st as [|v st']; [reflexivity|]. cbn [lenN].
    replace (1 + lenN st' - 1)%N with (lenN st') by lia.
    destruct (Generated.max_stack <=? lenN st')%N; [reflexivity|].
    replace (1 + lenN st')%N with (lenN (print_unop u v :: st')) by reflexivity. apply IH.
  - destruct st as [|r [|l st']]; try reflexivity. cbn [lenN].
    replace (1 + (1 + lenN st') - 2)%N with (lenN st') by lia.
    destruct (Generated.max_stack <=? lenN st')%N; [reflexivity|].
    replace (1 + (1 + lenN st') - 1)%N with (lenN (print_binop b l r :: st')) by (cbn [lenN]; lia). apply IH.
Qed.

Lemma pstep_len pt o st st' : (length st <= 1000)%nat -> pstep pt o st = inl st' -> (length st' <= 1000)%nat.
Proof.
  intros Hl. destruct o as [x|u|b]; cbn [pstep].
  - rewrite lenN_length. change Generated.max_stack with 1000%N.
    destruct (N.leb_spec 1000 (N.of_nat (length st))) as [H|H]; intros E; inversion E; subst; cbn [length]; lia.
  - destruct st as [|v st2]; [discriminate|]. destruct (Generated.max_stack <=? lenN st2)%N; intros E; inversion E; subst.
    cbn [length] in *. lia.
  - destruct st as [|r [|l st2]]; try discriminate. destruct (Generated.max_stack <=? lenN st2)%N; intros E; inversion E; subst.
    cbn [length] in *. lia.
Qed.

Lemma prun_len pt : forall e st st', (length st <= 1000)%nat -> prun pt e st = inl st' -> (length st' <= 1000)%nat.
Proof.
  induction e as [|o e IH]; intros st st' Hl E; cbn [prun] in E.
  - inversion E; subst; exact Hl.
  - destruct (pstep pt o st) as [st2|r] eqn:Es; [|discriminate].
    exact (IH st2 st' (pstep_len pt o st st2 Hl Es) E).
Qed.

(* a range loop whose body is one step of the printer = the model's run *)
Lemma range_from_prun (pt : dterm -> bytes) (P : dop -> Prop)
      (body : Z -> dop -> list bytes -> step (list bytes) (res bytes)) :
  (forall i o st, P o -> (length st <= 1000)%nat ->
     body i o (rev st) = match pstep pt o st with inl st' => Continue (rev st') | inr r => Done (Ok r) end) ->
  forall e i st, Forall P e -> (length st <= 1000)%nat ->
    range_from body i e (rev st) =
    match prun pt e st with inl st' => Continue (rev st') | inr r => Done (Ok r) end.
Proof.
  intros Hbody. induction e as [|o e IH]; intros i st HP Hl; cbn [range_from prun]; [reflexivity|].
  inversion HP as [|o' e' Ho He]; subst.
  rewrite (Hbody i o st Ho Hl). destruct (pstep pt o st) as [st2|r] eqn:Es; [|reflexivity].
  apply IH; [exact He | exact (pstep_len pt o st st2 Hl Es)].
Qed.

(* ------------------------------------------------------------------ *)
(** * 5. Expression.Print *)

(* the ranges of the Go types: the index of a String < 2^64, of a Variable < 2^32 *)
Definition wf_dop (o : dop) : Prop := match o with DOVal x => wf_dterm x | _ => True end.

Ltac pr_side := first [ assumption | unfold len_ok; rewrite len_int_length, ?rev_length; cbn [length] in *; go_consts; lia ].
Ltac pr_calls :=
  rewrite ?go_SymbolTable_Str_eq by pr_side;
  rewrite ?go_SymbolTable_Var_eq by pr_side;
  rewrite ?go_stringstack_Push_eq;
  rewrite ?go_stringstack_Pop_eq by pr_side;
  rewrite ?go_UnaryOp_Print_eq;
  rewrite ?go_BinaryOp_Print_eq.
Ltac pr_split :=
  match goal with
  | |- context [(Generated.max_stack <=? ?n)%N] => let E := fresh "Hfull" in destruct (Generated.max_stack <=? n)%N eqn:E
  end.
Ltac pr_go := repeat (go_red; go_tags; pr_calls; go_red; try pr_split); go_red; try first [reflexivity | discriminate | congruence].

Theorem go_Expression_Print_eq : forall (tstr : dterm -> bytes) (t : table) (e : dexpr),
  len_ok t -> Forall wf_dop e ->
  go_Expression_Print tstr e t = Ok (print_ops_g (pt_of tstr t) e [] 0).
Proof.
  intros tstr t e Ht He. unfold go_Expression_Print.
  replace (print_ops_g (pt_of tstr t) e [] 0)
    with (match prun (pt_of tstr t) e [] with inl st' => pfinal st' | inr r => r end)
    by (symmetry; exact (print_ops_g_prun (pt_of tstr t) e [])).
  match goal with
  | |- context [range_loop ?body ?L ?s0] =>
      change (range_loop body L s0) with (range_from body 0 L (rev (@nil bytes)));
      rewrite (range_from_prun (pt_of tstr t) wf_dop body);
      [ | | exact He | cbn [length]; lia ]
  end.
  - (* after the loop: exactly one string left *)
    destruct (prun (pt_of tstr t) e []) as [st'|r] eqn:E; go_red; [|reflexivity].
    assert (Hl : (length st' <= 1000)%nat) by (apply (prun_len (pt_of tstr t) e [] st'); [cbn [length]; lia | exact E]).
    rewrite len_int_length, rev_length.
    destruct st' as [|v [|w st'']]; cbn [length pfinal].
    + go_splits; first [reflexivity | exfalso; lia].
    + change (Z.of_nat 1) with 1. go_red. cbn [Z.eqb Pos.eqb negb]. go_red.
      rewrite ?go_stringstack_Pop_eq by (unfold len_ok; rewrite len_int_length; cbn [length]; go_consts; lia).
      go_red. reflexivity.
    + go_splits; first [reflexivity | exfalso; lia].
  - (* one iteration = one step of the model *)
    intros i o st Ho Hl. go_red. autounfold with go_fn. unfold pstep.
    destruct o as [x|u|b].
    + destruct x as [[v|z|s|d|bb|bb]|l]; cbn [wf_dop wf_dterm wf_datom] in Ho; cbn [pt_of]; pr_go.
    + destruct st as [|v st']; [pr_go|]. cbn [length] in Hl. pr_go.
    + destruct st as [|r [|l st']]; [pr_go | pr_go |]. cbn [length] in Hl. pr_go.
Qed.
Print Assumptions go_Expression_Print_eq.

Module PrintExamples.
Import String.
Example go_Expression_Print_ex :
  let tstr := fun x => match x with DA (DInt z) => fmt_d_Z z | _ => [63]%N end in
  let t := [[97]; [98]; [120]]%N in
  (* !(($a == 1) || ($b == 2)) in postfix *)
  go_Expression_Print tstr
    [DOVal (DA (DVar 1024)); DOVal (DA (DInt 1)); DOBin BEqual; DOUn UParens;
     DOVal (DA (DVar 1025)); DOVal (DA (DInt 2)); DOBin BEqual; DOUn UParens;
     DOBin BOr; DOUn UParens; DOUn UNegate] t = Ok (bs "!(($a == 1) || ($b == 2))"%string) /\
  (* "x".length() *)
  go_Expression_Print tstr [DOVal (DA (DStr 1026)); DOUn ULength] t
    = Ok ([34; 120; 34] ++ bs ".length()"%string)%N /\
  (* an operand that already is parenthesised keeps its parentheses and gets new ones *)
  go_Expression_Print tstr [DOVal (DA (DInt 1)); DOUn UParens; DOUn UParens] t = Ok (bs "((1))"%string) /\
  (* the three pops that fail, the overflow-free empty expression, two values left *)
  go_Expression_Print tstr [DOUn UNegate] t = Ok E_unary_pop /\
  go_Expression_Print tstr [DOBin BAdd] t = Ok E_bin_right /\
  go_Expression_Print tstr [DOVal (DA (DInt 1)); DOBin BAdd] t = Ok E_bin_left /\
  go_Expression_Print tstr [] t = Ok E_result /\
  go_Expression_Print tstr [DOVal (DA (DInt 1)); DOVal (DA (DInt 2))] t = Ok E_result /\
  (* an invalid variable index is printed, not a panic *)
  go_Expression_Print tstr [DOVal (DA (DVar 5000))] t = Ok (bs "$<invalid variable 5000>"%string).
Proof. cbv zeta. repeat split; vm_compute; reflexivity. Qed.
End PrintExamples.

Example wf_dop_ex : Forall wf_dop [DOVal (DA (DVar 1024)); DOUn UParens] /\ len_ok [[97]; [98]; [120]]%N.
Proof.
  split; [constructor; [cbn [wf_dop wf_dterm wf_datom]; go_consts; lia | constructor; [exact I | constructor]]
         | unfold len_ok; vm_compute; reflexivity].
Qed.

Global Opaque go_Expression_Print.

(* ------------------------------------------------------------------ *)
(** * 6. Corollaries for C15 *)

(* the printed text is the model's print_expr of the resolved expression, when the index-level
   term printer agrees with the S-level one on the values of the expression *)
Theorem src_print_is_model : forall (sidx : bytes -> N) (tstr : dterm -> bytes) (t : table) (e : dexpr),
  len_ok t -> Forall wf_dop e ->
  (forall x, In (DOVal x) e -> pt_of tstr t x = print_term sidx (resolve_term t x)) ->
  go_Expression_Print tstr e t = Ok (print_expr sidx (map (resolve_op t) e)).
Proof.
  intros sidx tstr t e Ht He Hpt. rewrite go_Expression_Print_eq by assumption.
  unfold print_expr. rewrite (print_ops_g_model sidx t (pt_of tstr t) e [] 0%N Hpt). reflexivity.
Qed.
Print Assumptions src_print_is_model.

(* Print returns a string on every input in range: no panic (no failed assertion, no index out
   of range in the stack), whatever the op sequence *)
Theorem src_print_total : forall (tstr : dterm -> bytes) (t : table) (e : dexpr),
  len_ok t -> Forall wf_dop e -> exists s, go_Expression_Print tstr e t = Ok s.
Proof. intros tstr t e Ht He. eexists. apply go_Expression_Print_eq; assumption. Qed.
Print Assumptions src_print_total.

(* Parens contributes exactly "(" ++ v ++ ")", whatever v is (also when v itself starts with
   "(" and ends with ")") — in UnaryOp.Print and in one step of Expression.Print *)
Theorem src_parens_printed : forall (v : bytes),
  go_UnaryOp_Print UParens v = Ok ([40]%N ++ v ++ [41]%N).
Proof. intros v. rewrite go_UnaryOp_Print_eq. reflexivity. Qed.
Print Assumptions src_parens_printed.

Lemma print_ops_g_parens : forall pt e v st n,
  print_ops_g pt (DOUn UParens :: e) (v :: st) n =
  if (Generated.max_stack <=? n - 1)%N then E_overflow
  else print_ops_g pt e (([40]%N ++ v ++ [41]%N) :: st) n.
Proof. reflexivity. Qed.

(* every binary operator prints with its own spelling *)
Definition all_binops : list binop :=
  [BLessThan; BLessOrEqual; BGreaterThan; BGreaterOrEqual; BEqual; BContains; BPrefix; BSuffix; BRegex; BAdd; BSub; BMul; BDiv; BAnd; BOr; BIntersection; BUnion].
Theorem src_operator_spellings : forall (l r : bytes),
  map (fun b => go_BinaryOp_Print b l r) all_binops =
  map Ok
    [
     (* BLessThan      "%s < %s"          *) l ++ [32;60;32]%N ++ r;
     (* BLessOrEqual   "%s <= %s"         *) l ++ [32;60;61;32]%N ++ r;
     (* BGreaterThan   "%s > %s"          *) l ++ [32;62;32]%N ++ r;
     (* BGreaterOrEqual "%s >= %s"         *) l ++ [32;62;61;32]%N ++ r;
     (* BEqual         "%s == %s"         *) l ++ [32;61;61;32]%N ++ r;
     (* BContains      "%s.contains(%s)"  *) l ++ [46;99;111;110;116;97;105;110;115;40]%N ++ r ++ [41]%N;
     (* BPrefix        "%s.starts_with(%s)" *) l ++ [46;115;116;97;114;116;115;95;119;105;116;104;40]%N ++ r ++ [41]%N;
     (* BSuffix        "%s.ends_with(%s)" *) l ++ [46;101;110;100;115;95;119;105;116;104;40]%N ++ r ++ [41]%N;
     (* BRegex         "%s.matches(%s)"   *) l ++ [46;109;97;116;99;104;101;115;40]%N ++ r ++ [41]%N;
     (* BAdd           "%s + %s"          *) l ++ [32;43;32]%N ++ r;
     (* BSub           "%s - %s"          *) l ++ [32;45;32]%N ++ r;
     (* BMul           "%s * %s"          *) l ++ [32;42;32]%N ++ r;
     (* BDiv           "%s / %s"          *) l ++ [32;47;32]%N ++ r;
     (* BAnd           "%s && %s"         *) l ++ [32;38;38;32]%N ++ r;
     (* BOr            "%s || %s"         *) l ++ [32;124;124;32]%N ++ r;
     (* BIntersection  "%s.intersection(%s)" *) l ++ [46;105;110;116;101;114;115;101;99;116;105;111;110;40]%N ++ r ++ [41]%N;
     (* BUnion         "%s.union(%s)"     *) l ++ [46;117;110;105;111;110;40]%N ++ r ++ [41]%N].
Proof.
  intros l r. unfold all_binops. cbn [map]. rewrite !go_BinaryOp_Print_eq.
  unfold print_binop, binop_fmt_c. cbn [binop_index nth binop_fmt_tbl apply_fmt app].
  rewrite ?app_nil_r, <- ?app_assoc. reflexivity.
Qed.
Print Assumptions src_operator_spellings.

Theorem src_unary_spellings : forall (v : bytes),
  map (fun u => go_UnaryOp_Print u v) [UNegate; UParens; ULength] =
  map Ok [ [33]%N ++ v; [40]%N ++ v ++ [41]%N; v ++ [46;108;101;110;103;116;104;40;41]%N ].
Proof.
  intros v. cbn [map]. rewrite !go_UnaryOp_Print_eq. unfold print_unop.
  cbn [unop_fmt_c fmt_negate fmt_parens fmt_length apply_fmt app]. rewrite ?app_nil_r. reflexivity.
Qed.
Print Assumptions src_unary_spellings.
