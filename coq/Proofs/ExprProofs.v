(* ExprProofs.v — machine-checked facts about the expression stack machine of
   Model/Expr.v (property C06): totality (no Panic), exact 64-bit arithmetic,
   the operator table as a typing/denotation theorem, the byte-level
   specification of the string functions, and the correspondence between the
   postfix op sequences the machine runs and expression trees. *)
From Coq Require Import Permutation.
From BV Require Import Base Term Expr.

Local Open Scope nat_scope.

(* ------------------------------------------------------------------ *)
(* 0. The stack bound.  [max_stack] is [N.to_nat 1000]: it is only ever  *)
(*    inspected through boolean tests decided by [vm_compute].          *)
(* ------------------------------------------------------------------ *)

Lemma max_stack_gt2 : 2 < max_stack.
Proof. apply Nat.ltb_lt. vm_compute. reflexivity. Qed.

Lemma max_stack_pos : 0 < max_stack.
Proof. pose proof max_stack_gt2 as H. lia. Qed.

Lemma push_ok (st : list term) (v : term) :
  length st < max_stack -> push st v = Ok (v :: st).
Proof.
  intros Hlt. unfold push.
  destruct (Nat.leb_spec max_stack (length st)) as [Hle|Hgt]; [lia|reflexivity].
Qed.

Lemma push_full (st : list term) (v : term) :
  max_stack <= length st -> push st v = Err EIllTyped.
Proof.
  intros Hle. unfold push.
  destruct (Nat.leb_spec max_stack (length st)) as [Hle'|Hgt]; [reflexivity|lia].
Qed.

Lemma push_no_panic (st : list term) (v : term) (s : N) : push st v <> Panic s.
Proof. unfold push. destruct (max_stack <=? length st); discriminate. Qed.

Lemma push_inv (st st' : list term) (v : term) :
  push st v = Ok st' -> st' = v :: st /\ length st < max_stack.
Proof.
  unfold push. destruct (Nat.leb_spec max_stack (length st)) as [Hle|Hgt]; intros H.
  - discriminate H.
  - injection H as H. subst st'. split; [reflexivity|assumption].
Qed.

(* ------------------------------------------------------------------ *)
(* 1. Evaluation never panics                                          *)
(* ------------------------------------------------------------------ *)

Lemma checked_no_panic z s : checked z <> Panic s.
Proof. unfold checked. destruct (in_int64 z); discriminate. Qed.

Lemma eval_unary_no_panic u v s : eval_unary u v <> Panic s.
Proof. destruct u, v as [[x|x|x|x|x|x]|x]; discriminate. Qed.

Ltac split_res :=
  unfold checked;
  repeat match goal with
         | |- context [in_int64 ?z] => destruct (in_int64 z)
         | |- context [Z.eqb ?a 0] => destruct (Z.eqb a 0)
         end.

Lemma eval_binary_no_panic rx o l r s : eval_binary rx o l r <> Panic s.
Proof.
  destruct o, l as [[x|x|x|x|x|x]|x], r as [[y|y|y|y|y|y]|y];
    cbn [eval_binary cmp_op str_op int_op term_type atom_type ttype_eqb negb];
    try discriminate; split_res; try discriminate.
  destruct (rx y x); discriminate.
Qed.

Lemma bind_no_panic {A B} (r : res A) (f : A -> res B) :
  (forall s, r <> Panic s) -> (forall a s, f a <> Panic s) -> forall s, bind r f <> Panic s.
Proof.
  intros Hr Hf s. destruct r as [a|e|s']; cbn [bind].
  - apply Hf.
  - discriminate.
  - exfalso. apply (Hr s'). reflexivity.
Qed.

Lemma step_no_panic rx b st o s : step rx b st o <> Panic s.
Proof.
  destruct o as [t|u|o]; cbn [step].
  - destruct t as [[v|z|x|d|x|x]|l]; try apply push_no_panic.
    destruct (lookup b v) as [t|]; [apply push_no_panic|discriminate].
  - destruct st as [|v st']; [discriminate|].
    apply bind_no_panic; [intro s'; apply eval_unary_no_panic|intros a s'; apply push_no_panic].
  - destruct st as [|r [|l st']]; try discriminate.
    apply bind_no_panic; [intro s'; apply eval_binary_no_panic|intros a s'; apply push_no_panic].
Qed.

Lemma run_ops_no_panic rx b e : forall st s, run_ops rx b st e <> Panic s.
Proof.
  induction e as [|o e IH]; intros st s; cbn [run_ops]; [discriminate|].
  apply bind_no_panic; [intro s'; apply step_no_panic|intros a s'; apply IH].
Qed.

Theorem eval_no_panic : forall rx e b s, eval rx e b <> Panic s.
Proof.
  intros rx e b s. unfold eval.
  apply bind_no_panic; [intro s'; apply run_ops_no_panic|].
  intros [|v [|w st]] s'; discriminate.
Qed.

(* every outcome is a value or a classified error *)
Corollary eval_total : forall rx e b, (exists v, eval rx e b = Ok v) \/ (exists x, eval rx e b = Err x).
Proof.
  intros rx e b. destruct (eval rx e b) as [v|x|s] eqn:E.
  - left. exists v. reflexivity.
  - right. exists x. reflexivity.
  - exfalso. exact (eval_no_panic rx e b s E).
Qed.

(* ------------------------------------------------------------------ *)
(* 2. Arithmetic exactness                                             *)
(* ------------------------------------------------------------------ *)

Definition exact_arith (o : binop) (a b : Z) : Z :=
  match o with
  | BAdd => (a + b)%Z
  | BSub => (a - b)%Z
  | BMul => (a * b)%Z
  | BDiv => Z.quot a b
  | _ => 0%Z
  end.

Definition arith_result (o : binop) (a b : Z) : res term :=
  if (match o with BDiv => Z.eqb b 0 | _ => false end) then Err EDivZero
  else if in_int64 (exact_arith o a b) then Ok (TA (AInt (exact_arith o a b))) else Err EOverflow.

Lemma arith_binary rx o a b :
  In o [BAdd; BSub; BMul; BDiv] ->
  eval_binary rx o (TA (AInt a)) (TA (AInt b)) = arith_result o a b.
Proof.
  intros Ho. unfold arith_result.
  destruct Ho as [Ho|[Ho|[Ho|[Ho|[]]]]]; subst o;
    cbn [eval_binary int_op exact_arith]; unfold checked; try reflexivity.
Qed.

Lemma eval_two_values rx o x y bnd :
  is_var x = false -> is_var y = false ->
  eval rx [OVal x; OVal y; OBin o] bnd =
  do v <- eval_binary rx o x y; Ok v.
Proof.
  intros Hx Hy. unfold eval. cbn [run_ops].
  assert (Sx : forall st, step rx bnd st (OVal x) = push st x).
  { intro st. destruct x as [[v|z|s|d|s|s]|l]; try reflexivity. discriminate Hx. }
  assert (Sy : forall st, step rx bnd st (OVal y) = push st y).
  { intro st. destruct y as [[v|z|s|d|s|s]|l]; try reflexivity. discriminate Hy. }
  rewrite Sx. rewrite push_ok by (exact max_stack_pos). cbn [bind].
  rewrite Sy. rewrite push_ok by (cbn [length]; pose proof max_stack_gt2 as H; lia). cbn [bind].
  cbn [step]. destruct (eval_binary rx o x y) as [v|e|s]; cbn [bind]; [|reflexivity|reflexivity].
  rewrite push_ok by (exact max_stack_pos). reflexivity.
Qed.

Theorem arith_exact : forall rx o a b bnd,
  In o [BAdd; BSub; BMul; BDiv] -> in_int64 a = true -> in_int64 b = true ->
  eval rx [OVal (TA (AInt a)); OVal (TA (AInt b)); OBin o] bnd =
  if (match o with BDiv => Z.eqb b 0 | _ => false end) then Err EDivZero
  else if in_int64 (exact_arith o a b) then Ok (TA (AInt (exact_arith o a b))) else Err EOverflow.
Proof.
  intros rx o a b bnd Ho _ _.
  rewrite eval_two_values by reflexivity.
  rewrite (arith_binary rx o a b Ho). fold (arith_result o a b).
  destruct (arith_result o a b) as [v|e|s]; reflexivity.
Qed.

Example arith_exact_nonvacuous :
  In BMul [BAdd; BSub; BMul; BDiv] /\ in_int64 3037000500 = true /\ in_int64 (-3037000500) = true /\
  eval (fun _ _ => None) [OVal (TA (AInt 3037000500)); OVal (TA (AInt (-3037000500))); OBin BMul] [] = Err EOverflow /\
  eval (fun _ _ => None) [OVal (TA (AInt 3037000499)); OVal (TA (AInt (-3037000500))); OBin BMul] []
    = Ok (TA (AInt (-9223372033963249500))).
Proof. repeat split; try (vm_compute; reflexivity). cbn [In]. auto. Qed.

(* an integer result of an arithmetic operator is always the exact result, and in range:
   whatever the operands (not only 64-bit ones), no wrapped value is produced *)
Theorem never_wrapped : forall rx o l r z,
  In o [BAdd; BSub; BMul; BDiv] -> eval_binary rx o l r = Ok (TA (AInt z)) -> in_int64 z = true.
Proof.
  intros rx o l r z Ho H.
  destruct Ho as [Ho|[Ho|[Ho|[Ho|[]]]]]; subst o;
    destruct l as [[x|x|x|x|x|x]|x], r as [[y|y|y|y|y|y]|y];
    cbn [eval_binary int_op] in H; try discriminate H; unfold checked in H.
  - destruct (in_int64 (x + y)) eqn:E; [|discriminate H]. injection H as H. subst z. exact E.
  - destruct (in_int64 (x - y)) eqn:E; [|discriminate H]. injection H as H. subst z. exact E.
  - destruct (in_int64 (x * y)) eqn:E; [|discriminate H]. injection H as H. subst z. exact E.
  - destruct (Z.eqb y 0); [discriminate H|].
    destruct (in_int64 (Z.quot x y)) eqn:E; [|discriminate H]. injection H as H. subst z. exact E.
Qed.

Theorem arith_value_exact : forall rx o a b z,
  In o [BAdd; BSub; BMul; BDiv] ->
  eval_binary rx o (TA (AInt a)) (TA (AInt b)) = Ok (TA (AInt z)) ->
  z = exact_arith o a b /\ in_int64 z = true /\ (o = BDiv -> b <> 0%Z).
Proof.
  intros rx o a b z Ho H. rewrite (arith_binary rx o a b Ho) in H. unfold arith_result in H.
  destruct (match o with BDiv => Z.eqb b 0 | _ => false end) eqn:Ed; [discriminate H|].
  destruct (in_int64 (exact_arith o a b)) eqn:E; [|discriminate H].
  injection H as H. subst z. split; [reflexivity|]. split; [exact E|].
  intros Hd Hb. subst o b. discriminate Ed.
Qed.

Example never_wrapped_nonvacuous :
  eval_binary (fun _ _ => None) BDiv (TA (AInt (-9223372036854775808))) (TA (AInt 1))
  = Ok (TA (AInt (-9223372036854775808))).
Proof. vm_compute. reflexivity. Qed.

(* ------------------------------------------------------------------ *)
(* 3. Byte-level specification of the string functions                 *)
(* ------------------------------------------------------------------ *)

Lemma has_prefix_spec : forall s p, has_prefix s p = true <-> exists r, s = p ++ r.
Proof.
  intros s p. revert s. induction p as [|y p IH]; intros s.
  - destruct s as [|x s]; cbn [has_prefix]; split; intros _; try reflexivity; eexists; reflexivity.
  - destruct s as [|x s]; cbn [has_prefix].
    + split; [intros H; discriminate H|intros [r Hr]; discriminate Hr].
    + rewrite andb_true_iff, N.eqb_eq, IH. split.
      * intros [Hxy [r Hr]]. exists r. subst x s. reflexivity.
      * intros [r Hr]. cbn [app] in Hr. injection Hr as Hx Hs. split; [exact Hx|exists r; exact Hs].
Qed.

Lemma has_suffix_spec : forall s p, has_suffix s p = true <-> exists r, s = r ++ p.
Proof.
  intros s p. unfold has_suffix. rewrite has_prefix_spec. split.
  - intros [r Hr]. exists (rev r).
    rewrite <- (rev_involutive s), Hr, rev_app_distr, rev_involutive. reflexivity.
  - intros [r Hr]. exists (rev r). subst s. apply rev_app_distr.
Qed.

Lemma contains_sub_unfold s p :
  contains_sub s p = has_prefix s p || match s with [] => false | _ :: s' => contains_sub s' p end.
Proof. destruct s; reflexivity. Qed.

Lemma contains_sub_spec : forall s p, contains_sub s p = true <-> exists a b, s = a ++ p ++ b.
Proof.
  intros s p. induction s as [|x s IH]; rewrite contains_sub_unfold, orb_true_iff, has_prefix_spec.
  - split.
    + intros [[r Hr]|H]; [|discriminate H]. exists [], r. exact Hr.
    + intros [a [b H]]. left. destruct a as [|a0 a]; [|discriminate H]. exists b. exact H.
  - rewrite IH. split.
    + intros [[r Hr]|[a [b H]]].
      * exists [], r. exact Hr.
      * exists (x :: a), b. rewrite H. reflexivity.
    + intros [a [b H]]. destruct a as [|a0 a].
      * left. exists b. exact H.
      * right. cbn [app] in H. injection H as _ H. exists a, b. exact H.
Qed.

Example string_specs_nonvacuous :
  has_prefix [1;2;3]%N [1;2]%N = true /\ has_prefix [1;2;3]%N [2]%N = false /\
  has_suffix [1;2;3]%N [2;3]%N = true /\ has_suffix [1;2;3]%N [2]%N = false /\
  contains_sub [1;2;3]%N [2]%N = true /\ contains_sub [1;2;3]%N [3;2]%N = false /\
  contains_sub [] [] = true.
Proof. vm_compute. repeat split. Qed.

(* ------------------------------------------------------------------ *)
(* 4. Structural facts about Equal and the set operations               *)
(* ------------------------------------------------------------------ *)

Lemma atom_eqb_eq a b : atom_eqb a b = true <-> a = b.
Proof.
  destruct a as [x|x|x|x|x|x], b as [y|y|y|y|y|y]; cbn [atom_eqb];
    try (split; intros H; discriminate H).
  - rewrite bytes_eqb_eq. split; intros H; [subst; reflexivity|injection H as H; exact H].
  - rewrite Z.eqb_eq. split; intros H; [subst; reflexivity|injection H as H; exact H].
  - rewrite bytes_eqb_eq. split; intros H; [subst; reflexivity|injection H as H; exact H].
  - rewrite N.eqb_eq. split; intros H; [subst; reflexivity|injection H as H; exact H].
  - rewrite bytes_eqb_eq. split; intros H; [subst; reflexivity|injection H as H; exact H].
  - rewrite Bool.eqb_true_iff. split; intros H; [subst; reflexivity|injection H as H; exact H].
Qed.

Lemma atom_eqb_refl a : atom_eqb a a = true.
Proof. apply atom_eqb_eq. reflexivity. Qed.

Lemma set_contains_In s a : set_contains s a = true <-> In a s.
Proof.
  unfold set_contains. rewrite existsb_exists. split.
  - intros [x [Hin Heq]]. apply atom_eqb_eq in Heq. subst x. exact Hin.
  - intros Hin. exists a. split; [exact Hin|apply atom_eqb_refl].
Qed.

(* [set_add]: append unless present *)
Lemma set_add_In acc a x : In x (set_add acc a) <-> In x acc \/ x = a.
Proof.
  unfold set_add. destruct (set_contains acc a) eqn:E.
  - apply set_contains_In in E. split; [intro H; left; exact H|].
    intros [H|H]; [exact H | subst x; exact E].
  - rewrite in_app_iff. cbn [In]. split; (intros [H|H]; [left; exact H | right]).
    + destruct H as [H|[]]. symmetry. exact H.
    + left. symmetry. exact H.
Qed.

Lemma set_add_NoDup acc a : NoDup acc -> NoDup (set_add acc a).
Proof.
  intro Hn. unfold set_add. destruct (set_contains acc a) eqn:E; [exact Hn|].
  apply (Permutation_NoDup (Permutation_cons_append acc a)).
  constructor; [|exact Hn]. intro Hin. apply set_contains_In in Hin. congruence.
Qed.

Lemma fold_set_add_In l : forall acc x, In x (fold_left set_add l acc) <-> In x acc \/ In x l.
Proof.
  induction l as [|a l IH]; intros acc x; cbn [fold_left In]; [tauto|].
  rewrite IH, set_add_In. split; [intros [[H|H]|H] | intros [H|[H|H]]]; auto.
Qed.

Lemma fold_set_add_NoDup l : forall acc, NoDup acc -> NoDup (fold_left set_add l acc).
Proof.
  induction l as [|a l IH]; intros acc Hn; cbn [fold_left]; [exact Hn|].
  apply IH. apply set_add_NoDup. exact Hn.
Qed.

Lemma fold_inter_In t l : forall acc x,
  In x (fold_left (fun acc a => if set_contains t a then set_add acc a else acc) l acc) <->
  In x acc \/ (In x l /\ set_contains t x = true).
Proof.
  induction l as [|a l IH]; intros acc x; cbn [fold_left In]; [tauto|].
  rewrite IH. destruct (set_contains t a) eqn:E.
  - rewrite set_add_In. split.
    + intros [[H|H]|[H1 H2]]; [left; exact H | subst x; right; auto | right; auto].
    + intros [H|[[H|H] H2]]; [left; left; exact H | left; right; symmetry; exact H | right; auto].
  - split.
    + intros [H|[H1 H2]]; [left; exact H | right; auto].
    + intros [H|[[H|H] H2]]; [left; exact H | subst x; congruence | right; auto].
Qed.

Lemma fold_inter_NoDup t l : forall acc, NoDup acc ->
  NoDup (fold_left (fun acc a => if set_contains t a then set_add acc a else acc) l acc).
Proof.
  induction l as [|a l IH]; intros acc Hn; cbn [fold_left]; [exact Hn|].
  apply IH. destruct (set_contains t a); [apply set_add_NoDup|]; exact Hn.
Qed.

(* membership: as before the repair of the operators *)
Lemma intersection_spec : forall s t x,
  In x (set_intersect s t) <-> In x s /\ set_contains t x = true.
Proof. intros s t x. unfold set_intersect. rewrite fold_inter_In. cbn [In]. tauto. Qed.

Lemma intersection_In : forall s t x, In x (set_intersect s t) <-> In x s /\ In x t.
Proof. intros s t x. rewrite intersection_spec, set_contains_In. reflexivity. Qed.

Lemma union_In : forall s t x, In x (set_union s t) <-> In x s \/ In x t.
Proof. intros s t x. unfold set_union. rewrite !fold_set_add_In. cbn [In]. tauto. Qed.

Lemma union_spec : forall s t x,
  In x (set_union s t) <-> In x s \/ (In x t /\ set_contains s x = false).
Proof.
  intros s t x. rewrite union_In. split.
  - intros [H|H]; [left; exact H|].
    destruct (set_contains s x) eqn:E.
    + left. apply set_contains_In. exact E.
    + right. split; [exact H|reflexivity].
  - intros [H|[H _]]; [left|right]; exact H.
Qed.

(* new: the results never repeat an element, whatever the operands *)
Lemma intersection_NoDup : forall s t, NoDup (set_intersect s t).
Proof. intros s t. unfold set_intersect. apply fold_inter_NoDup. constructor. Qed.

Lemma union_NoDup : forall s t, NoDup (set_union s t).
Proof. intros s t. unfold set_union. apply fold_set_add_NoDup. apply fold_set_add_NoDup. constructor. Qed.

(* the union is the concatenation with every repetition dropped *)
Lemma union_dedup : forall s t, set_union s t = fold_left set_add (s ++ t) [].
Proof. intros s t. unfold set_union. rewrite fold_left_app. reflexivity. Qed.

Lemma fold_set_add_fresh l : forall acc,
  exists l', fold_left set_add l acc = acc ++ l' /\ forall x, In x l' -> In x l /\ ~ In x acc.
Proof.
  induction l as [|a l IH]; intros acc; cbn [fold_left].
  - exists []. split; [rewrite app_nil_r; reflexivity | intros x []].
  - destruct (IH (set_add acc a)) as [l' [He Hl']]. unfold set_add in *.
    destruct (set_contains acc a) eqn:E.
    + exists l'. split; [exact He|]. intros x Hx. destruct (Hl' x Hx) as [H1 H2]. split; [right; exact H1 | exact H2].
    + exists (a :: l'). split; [rewrite He, <- app_assoc; reflexivity|].
      intros x [Hx|Hx].
      * subst x. split; [left; reflexivity|]. intro Hin. apply set_contains_In in Hin. congruence.
      * destruct (Hl' x Hx) as [H1 H2]. split; [right; exact H1|].
        intro Hin. apply H2. apply in_or_app. left. exact Hin.
Qed.

Lemma fold_set_add_NoDup_id l : forall acc, NoDup (acc ++ l) -> fold_left set_add l acc = acc ++ l.
Proof.
  induction l as [|a l IH]; intros acc Hn; cbn [fold_left]; [rewrite app_nil_r; reflexivity|].
  assert (E : set_contains acc a = false).
  { destruct (set_contains acc a) eqn:E; [|reflexivity]. apply set_contains_In in E.
    apply NoDup_remove_2 in Hn. exfalso. apply Hn. apply in_or_app. left. exact E. }
  unfold set_add. rewrite E. rewrite IH; rewrite <- app_assoc; [reflexivity | exact Hn].
Qed.

(* on a left operand without repetition the union keeps it as is and adds only new elements *)
Lemma union_prefix : forall s t, NoDup s ->
  exists t', set_union s t = s ++ t' /\ forall x, In x t' -> In x t /\ ~ In x s.
Proof.
  intros s t Hn. unfold set_union. rewrite (fold_set_add_NoDup_id s [] Hn). cbn [app].
  apply fold_set_add_fresh.
Qed.

(* the operands may repeat elements, the results do not *)
Example set_ops_drop_repeats :
  set_intersect [AInt 1; AInt 1; AInt 2] [AInt 1] = [AInt 1] /\
  set_intersect [AInt 1; AInt 2; AInt 2] [AInt 1] = [AInt 1] /\
  set_union [AInt 1] [AInt 1; AInt 1; AInt 2] = [AInt 1; AInt 2] /\
  set_union [AInt 1] [AInt 1; AInt 2; AInt 2] = [AInt 1; AInt 2] /\
  set_union [AInt 1; AInt 1] [] = [AInt 1] /\
  set_intersect [AInt 2; AInt 1; AInt 1] [AInt 1; AInt 2] = [AInt 2; AInt 1].
Proof. vm_compute. repeat split; reflexivity. Qed.

Lemma set_equal_spec s c :
  set_equal s c = true <-> length c = length s /\ incl s c /\ incl c s.
Proof.
  unfold set_equal. rewrite !andb_true_iff, Nat.eqb_eq, !forallb_forall. split.
  - intros [[Hl H] H']. split; [exact Hl|]. split; intros x Hx; apply set_contains_In.
    + apply H. exact Hx.
    + apply H'. exact Hx.
  - intros [Hl [H H']]. split; [split; [exact Hl|]|]; intros x Hx; apply set_contains_In.
    + apply H. exact Hx.
    + apply H'. exact Hx.
Qed.

(* Set.Equal is "same length and same elements", whether or not elements repeat *)
Lemma set_equal_ext s c :
  set_equal s c = true <-> length c = length s /\ (forall x, In x s <-> In x c).
Proof.
  rewrite set_equal_spec. split.
  - intros [Hl [Hi Hi']]. split; [exact Hl|]. intros x. split; [apply Hi | apply Hi'].
  - intros [Hl H]. split; [exact Hl|]. split; intros x Hx; apply H; exact Hx.
Qed.

(* kept under its old name: the NoDup hypothesis is no longer needed *)
Lemma set_equal_nodup s c :
  NoDup s -> set_equal s c = true <-> length c = length s /\ (forall x, In x s <-> In x c).
Proof. intros _. apply set_equal_ext. Qed.

(* it is symmetric, also with repeated elements; the length still counts
   repetitions, so it is finer than extensional equality of the element sets *)
Example set_equal_repeats :
  set_equal [AInt 1; AInt 1; AInt 2] [AInt 1; AInt 2; AInt 3] = false /\
  set_equal [AInt 1; AInt 2; AInt 3] [AInt 1; AInt 1; AInt 2] = false /\
  set_equal [AInt 1; AInt 1; AInt 2] [AInt 2; AInt 1; AInt 2] = true /\
  set_equal [AInt 2; AInt 1; AInt 2] [AInt 1; AInt 1; AInt 2] = true /\
  set_equal [AInt 1; AInt 1] [AInt 1] = false /\
  set_equal [AInt 1] [AInt 1; AInt 1] = false.
Proof. vm_compute. repeat split; reflexivity. Qed.

(* ------------------------------------------------------------------ *)
(* 5. The operator table                                               *)
(* ------------------------------------------------------------------ *)

(* the typing column of the table of property C06, on operand types *)
Definition well_typed_ty (o : binop) (tl tr : ttype) : bool :=
  match o, tl, tr with
  | BLessThan, TyInt, TyInt | BLessThan, TyDate, TyDate
  | BLessOrEqual, TyInt, TyInt | BLessOrEqual, TyDate, TyDate
  | BGreaterThan, TyInt, TyInt | BGreaterThan, TyDate, TyDate
  | BGreaterOrEqual, TyInt, TyInt | BGreaterOrEqual, TyDate, TyDate => true
  | BEqual, TyInt, TyInt | BEqual, TyStr, TyStr | BEqual, TyDate, TyDate
  | BEqual, TyBytes, TyBytes | BEqual, TyBool, TyBool | BEqual, TySet, TySet => true
  | BContains, TyStr, TyStr => true
  | BContains, TySet, TyInt | BContains, TySet, TyStr | BContains, TySet, TyDate
  | BContains, TySet, TyBytes | BContains, TySet, TyBool | BContains, TySet, TySet => true
  | BPrefix, TyStr, TyStr | BSuffix, TyStr, TyStr | BRegex, TyStr, TyStr => true
  | BAdd, TyStr, TyStr | BAdd, TyInt, TyInt => true
  | BSub, TyInt, TyInt | BMul, TyInt, TyInt | BDiv, TyInt, TyInt => true
  | BAnd, TyBool, TyBool | BOr, TyBool, TyBool => true
  | BIntersection, TySet, TySet | BUnion, TySet, TySet => true
  | _, _, _ => false
  end.

Definition well_typed (o : binop) (l r : term) : bool :=
  well_typed_ty o (term_type l) (term_type r).

Theorem ill_typed_is_error : forall rx o l r,
  well_typed o l r = false -> eval_binary rx o l r = Err EIllTyped.
Proof.
  intros rx o l r H.
  destruct o, l as [[x|x|x|x|x|x]|x], r as [[y|y|y|y|y|y]|y];
    try discriminate H; reflexivity.
Qed.

Theorem well_typed_result : forall rx o l r,
  well_typed o l r = true ->
  (exists v, eval_binary rx o l r = Ok v) \/ eval_binary rx o l r = Err EDivZero \/
  eval_binary rx o l r = Err EOverflow \/ eval_binary rx o l r = Err ERegex.
Proof.
  intros rx o l r H.
  destruct o, l as [[x|x|x|x|x|x]|x], r as [[y|y|y|y|y|y]|y];
    try discriminate H;
    cbn [eval_binary cmp_op str_op int_op term_type atom_type ttype_eqb negb];
    try (left; eexists; reflexivity);
    split_res;
    try (left; eexists; reflexivity);
    try (right; left; reflexivity);
    try (right; right; left; reflexivity).
  destruct (rx y x) as [m|]; [left; eexists; reflexivity|right; right; right; reflexivity].
Qed.

(* converse: the typing column is exact *)
Corollary well_typed_iff_not_ill_typed : forall rx o l r,
  well_typed o l r = true <-> eval_binary rx o l r <> Err EIllTyped.
Proof.
  intros rx o l r. split.
  - intros H E. destruct (well_typed_result rx o l r H) as [[v Hv]|[Hv|[Hv|Hv]]];
      rewrite Hv in E; discriminate E.
  - intros H. destruct (well_typed o l r) eqn:E; [reflexivity|].
    exfalso. apply H. apply ill_typed_is_error. exact E.
Qed.

Example well_typed_nonvacuous :
  well_typed BContains (TSet [ABytes [1%N]]) (TA (ABytes [1%N])) = true /\
  well_typed BContains (TSet [ABytes [1%N]]) (TA (AVar [1%N])) = false /\
  well_typed BEqual (TA (AInt 1)) (TA (ADate 1)) = false /\
  well_typed BLessThan (TA (AStr [])) (TA (AStr [])) = false.
Proof. vm_compute. repeat split. Qed.

(* a variable is never an acceptable operand *)
Lemma var_operand_ill_typed rx o l r :
  is_var l = true \/ is_var r = true -> eval_binary rx o l r = Err EIllTyped.
Proof.
  intros H. apply ill_typed_is_error.
  destruct o, l as [[x|x|x|x|x|x]|x], r as [[y|y|y|y|y|y]|y]; try reflexivity;
    destruct H as [H|H]; discriminate H.
Qed.

(* the type of the result *)
Definition result_type (o : binop) (tl : ttype) : ttype :=
  match o with
  | BAdd => tl
  | BSub | BMul | BDiv => TyInt
  | BIntersection | BUnion => TySet
  | _ => TyBool
  end.

Lemma result_typed rx o l r v :
  eval_binary rx o l r = Ok v -> term_type v = result_type o (term_type l).
Proof.
  intros H.
  destruct o, l as [[x|x|x|x|x|x]|x], r as [[y|y|y|y|y|y]|y];
    cbn [eval_binary cmp_op str_op int_op term_type atom_type ttype_eqb negb] in H;
    try discriminate H;
    try (injection H as H; subst v; reflexivity);
    unfold checked in H.
  - destruct (rx y x); [injection H as H; subst v; reflexivity|discriminate H].
  - destruct (in_int64 (x + y)); [injection H as H; subst v; reflexivity|discriminate H].
  - destruct (in_int64 (x - y)); [injection H as H; subst v; reflexivity|discriminate H].
  - destruct (in_int64 (x * y)); [injection H as H; subst v; reflexivity|discriminate H].
  - destruct (Z.eqb y 0); [discriminate H|].
    destruct (in_int64 (Z.quot x y)); [injection H as H; subst v; reflexivity|discriminate H].
Qed.

Section Table.
  Variable rx : bytes -> bytes -> option bool.
  Notation evb := (eval_binary rx).
  Notation B x := (Ok (TA (ABool x))).

  (* ordering: integers and dates *)
  Lemma lt_int a b : evb BLessThan (TA (AInt a)) (TA (AInt b)) = B (Z.ltb a b).
  Proof. reflexivity. Qed.
  Lemma le_int a b : evb BLessOrEqual (TA (AInt a)) (TA (AInt b)) = B (Z.leb a b).
  Proof. reflexivity. Qed.
  Lemma gt_int a b : evb BGreaterThan (TA (AInt a)) (TA (AInt b)) = B (Z.ltb b a).
  Proof. cbn [eval_binary cmp_op]. rewrite Z.gtb_ltb. reflexivity. Qed.
  Lemma ge_int a b : evb BGreaterOrEqual (TA (AInt a)) (TA (AInt b)) = B (Z.leb b a).
  Proof. cbn [eval_binary cmp_op]. rewrite Z.geb_leb. reflexivity. Qed.
  Lemma lt_date a b : evb BLessThan (TA (ADate a)) (TA (ADate b)) = B (N.ltb a b).
  Proof. reflexivity. Qed.
  Lemma le_date a b : evb BLessOrEqual (TA (ADate a)) (TA (ADate b)) = B (N.leb a b).
  Proof. reflexivity. Qed.
  Lemma gt_date a b : evb BGreaterThan (TA (ADate a)) (TA (ADate b)) = B (N.ltb b a).
  Proof. reflexivity. Qed.
  Lemma ge_date a b : evb BGreaterOrEqual (TA (ADate a)) (TA (ADate b)) = B (N.leb b a).
  Proof. reflexivity. Qed.

  (* equality *)
  Lemma equal_value l r :
    well_typed BEqual l r = true -> evb BEqual l r = B (term_eqb l r).
  Proof.
    intros H. destruct l as [[x|x|x|x|x|x]|x], r as [[y|y|y|y|y|y]|y];
      try discriminate H; reflexivity.
  Qed.
  Lemma equal_atom a b :
    atom_type a = atom_type b -> atom_type a <> TyVar ->
    evb BEqual (TA a) (TA b) = B (atom_eqb a b) /\ (atom_eqb a b = true <-> a = b).
  Proof.
    intros Ht Hv. split; [|apply atom_eqb_eq].
    destruct a as [x|x|x|x|x|x], b as [y|y|y|y|y|y]; try discriminate Ht;
      try reflexivity. exfalso. apply Hv. reflexivity.
  Qed.
  Lemma equal_set s t : evb BEqual (TSet s) (TSet t) = B (set_equal s t).
  Proof. reflexivity. Qed.

  (* containment *)
  Lemma contains_string a b : evb BContains (TA (AStr a)) (TA (AStr b)) = B (contains_sub a b).
  Proof. reflexivity. Qed.
  Lemma contains_member s a :
    atom_type a <> TyVar ->
    evb BContains (TSet s) (TA a) = B (existsb (fun x => atom_eqb a x) s).
  Proof.
    intros Hv. destruct a as [x|x|x|x|x|x]; try reflexivity. exfalso. apply Hv. reflexivity.
  Qed.
  Lemma contains_member_In s a :
    existsb (fun x => atom_eqb a x) s = true <-> In a s.
  Proof.
    rewrite existsb_exists. split.
    - intros [x [Hin Heq]]. apply atom_eqb_eq in Heq. subst x. exact Hin.
    - intros Hin. exists a. split; [exact Hin|apply atom_eqb_refl].
  Qed.
  Lemma contains_subset s t :
    evb BContains (TSet s) (TSet t) = B (forallb (fun e => existsb (fun x => atom_eqb x e) s) t).
  Proof. reflexivity. Qed.
  Lemma contains_subset_incl s t :
    forallb (fun e => existsb (fun x => atom_eqb x e) s) t = true <-> incl t s.
  Proof.
    rewrite forallb_forall. split.
    - intros H x Hx. apply set_contains_In. apply H. exact Hx.
    - intros H x Hx. apply (proj2 (set_contains_In s x)). apply H. exact Hx.
  Qed.

  (* set algebra *)
  Lemma intersection_value s t : evb BIntersection (TSet s) (TSet t) = Ok (TSet (set_intersect s t)).
  Proof. reflexivity. Qed.
  Lemma union_value s t : evb BUnion (TSet s) (TSet t) = Ok (TSet (set_union s t)).
  Proof. reflexivity. Qed.

  (* strings *)
  Lemma prefix_value a b : evb BPrefix (TA (AStr a)) (TA (AStr b)) = B (has_prefix a b).
  Proof. reflexivity. Qed.
  Lemma suffix_value a b : evb BSuffix (TA (AStr a)) (TA (AStr b)) = B (has_suffix a b).
  Proof. reflexivity. Qed.
  Lemma regex_value a p :
    evb BRegex (TA (AStr a)) (TA (AStr p)) =
    match rx p a with Some m => B m | None => Err ERegex end.
  Proof. reflexivity. Qed.
  Lemma concat_value a b : evb BAdd (TA (AStr a)) (TA (AStr b)) = Ok (TA (AStr (a ++ b))).
  Proof. reflexivity. Qed.

  (* arithmetic *)
  Lemma add_int a b : evb BAdd (TA (AInt a)) (TA (AInt b)) = checked (a + b).
  Proof. reflexivity. Qed.
  Lemma sub_int a b : evb BSub (TA (AInt a)) (TA (AInt b)) = checked (a - b).
  Proof. reflexivity. Qed.
  Lemma mul_int a b : evb BMul (TA (AInt a)) (TA (AInt b)) = checked (a * b).
  Proof. reflexivity. Qed.
  Lemma div_int a b :
    evb BDiv (TA (AInt a)) (TA (AInt b)) = if Z.eqb b 0 then Err EDivZero else checked (Z.quot a b).
  Proof. reflexivity. Qed.

  (* strict booleans (named *_value so as not to shadow Coq's and / or / not) *)
  Lemma and_value a b : evb BAnd (TA (ABool a)) (TA (ABool b)) = B (a && b).
  Proof. reflexivity. Qed.
  Lemma or_value a b : evb BOr (TA (ABool a)) (TA (ABool b)) = B (a || b).
  Proof. reflexivity. Qed.
End Table.

(* unary operators *)
Definition unary_well_typed (u : unop) (v : term) : bool :=
  match u, term_type v with
  | UNegate, TyBool => true
  | UParens, _ => true
  | ULength, TyStr | ULength, TyBytes | ULength, TySet => true
  | _, _ => false
  end.

Theorem unary_ill_typed_is_error : forall u v,
  unary_well_typed u v = false -> eval_unary u v = Err EIllTyped.
Proof.
  intros u v H. destruct u, v as [[x|x|x|x|x|x]|x]; try discriminate H; reflexivity.
Qed.

Theorem unary_well_typed_ok : forall u v,
  unary_well_typed u v = true -> exists r, eval_unary u v = Ok r.
Proof.
  intros u v H. destruct u, v as [[x|x|x|x|x|x]|x]; try discriminate H; eexists; reflexivity.
Qed.

Lemma not_value b : eval_unary UNegate (TA (ABool b)) = Ok (TA (ABool (negb b))).
Proof. reflexivity. Qed.
Lemma parens_value v : eval_unary UParens v = Ok v.
Proof. destruct v as [[x|x|x|x|x|x]|x]; reflexivity. Qed.
Lemma length_string s : eval_unary ULength (TA (AStr s)) = Ok (TA (AInt (Z.of_nat (length s)))).
Proof. reflexivity. Qed.
Lemma length_bytes s : eval_unary ULength (TA (ABytes s)) = Ok (TA (AInt (Z.of_nat (length s)))).
Proof. reflexivity. Qed.
Lemma length_set s : eval_unary ULength (TSet s) = Ok (TA (AInt (Z.of_nat (length s)))).
Proof. reflexivity. Qed.

Example unary_nonvacuous :
  unary_well_typed ULength (TSet [AInt 1; AInt 1]) = true /\
  eval_unary ULength (TSet [AInt 1; AInt 1]) = Ok (TA (AInt 2)) /\
  unary_well_typed UNegate (TA (AInt 0)) = false /\
  unary_well_typed ULength (TA (AInt 0)) = false.
Proof. vm_compute. repeat split. Qed.

(* ------------------------------------------------------------------ *)
(* 6. Postfix correspondence                                           *)
(* ------------------------------------------------------------------ *)

Inductive etree :=
| EVal (t : term)
| EUn (u : unop) (e : etree)
| EBin (o : binop) (l r : etree).

Fixpoint postfix (t : etree) : expr :=
  match t with
  | EVal v => [OVal v]
  | EUn u e => postfix e ++ [OUn u]
  | EBin o l r => postfix l ++ postfix r ++ [OBin o]
  end.

(* a value operand: variables are looked up in the bindings *)
Definition resolve (b : bindings) (t : term) : res term :=
  match t with
  | TA (AVar v) => match lookup b v with Some x => Ok x | None => Err EUnknownVar end
  | _ => Ok t
  end.

(* strict, left-to-right evaluation of a tree *)
Fixpoint denote (rx : bytes -> bytes -> option bool) (b : bindings) (t : etree) : res term :=
  match t with
  | EVal v => resolve b v
  | EUn u e => do x <- denote rx b e; eval_unary u x
  | EBin o l r => do x <- denote rx b l; do y <- denote rx b r; eval_binary rx o x y
  end.

(* the maximal stack height reached while running [postfix t] from an empty stack *)
Fixpoint need (t : etree) : nat :=
  match t with
  | EVal _ => 1
  | EUn _ e => need e
  | EBin _ l r => Nat.max (need l) (S (need r))
  end.

Lemma need_pos t : 1 <= need t.
Proof. induction t as [v|u e IH|o l IHl r IHr]; cbn [need]; lia. Qed.

Lemma step_val rx b st t : step rx b st (OVal t) = do x <- resolve b t; push st x.
Proof.
  destruct t as [[v|z|s|d|s|s]|l]; try reflexivity.
  cbn [step resolve]. destruct (lookup b v); reflexivity.
Qed.

Lemma postfix_run : forall rx b t st k,
  length st + need t <= max_stack ->
  run_ops rx b st (postfix t ++ k) = do v <- denote rx b t; run_ops rx b (v :: st) k.
Proof.
  intros rx b t. induction t as [v|u e IH|o l IHl r IHr]; intros st k Hb.
  - cbn [postfix app run_ops denote need] in *. rewrite step_val.
    destruct (resolve b v) as [x|err|s]; cbn [bind]; try reflexivity.
    rewrite push_ok by lia. reflexivity.
  - cbn [postfix denote need] in *. rewrite <- app_assoc. rewrite IH by exact Hb.
    destruct (denote rx b e) as [x|err|s]; cbn [bind]; try reflexivity.
    cbn [app run_ops step].
    destruct (eval_unary u x) as [y|err|s]; cbn [bind]; try reflexivity.
    pose proof (need_pos e) as Hp. rewrite push_ok by lia. reflexivity.
  - cbn [postfix denote need] in *. rewrite <- app_assoc. rewrite IHl by lia.
    destruct (denote rx b l) as [x|err|s]; cbn [bind]; try reflexivity.
    rewrite <- app_assoc. rewrite IHr by (cbn [length]; lia).
    destruct (denote rx b r) as [y|err|s]; cbn [bind]; try reflexivity.
    cbn [app run_ops step].
    destruct (eval_binary rx o x y) as [z|err|s]; cbn [bind]; try reflexivity.
    pose proof (need_pos l) as Hp. rewrite push_ok by lia. reflexivity.
Qed.

Theorem postfix_eval : forall rx b t,
  need t <= max_stack -> eval rx (postfix t) b = denote rx b t.
Proof.
  intros rx b t Hb. unfold eval.
  rewrite <- (app_nil_r (postfix t)). rewrite postfix_run by (cbn [length]; lia).
  destruct (denote rx b t) as [v|err|s]; reflexivity.
Qed.

Definition sample_tree : etree :=
  EBin BAnd
    (EBin BLessThan (EVal (TA (AVar [120%N]))) (EBin BAdd (EVal (TA (AInt 1))) (EVal (TA (AInt 2)))))
    (EUn UNegate (EBin BContains (EVal (TSet [AInt 1; AInt 2])) (EVal (TA (AVar [120%N]))))).

Example postfix_eval_nonvacuous :
  need sample_tree = 3 /\ (need sample_tree <=? max_stack) = true /\
  eval (fun _ _ => None) (postfix sample_tree) [([120%N], TA (AInt 0))] = Ok (TA (ABool true)) /\
  denote (fun _ _ => None) [([120%N], TA (AInt 0))] sample_tree = Ok (TA (ABool true)) /\
  eval (fun _ _ => None) (postfix sample_tree) [] = Err EUnknownVar.
Proof. vm_compute. repeat split. Qed.

(* the bound is necessary: a right-nested tree of height max_stack + 1 has a
   value, but the machine reports a stack overflow *)
Fixpoint right_comb (n : nat) : etree :=
  match n with
  | O => EVal (TA (AInt 0))
  | S n' => EBin BAdd (EVal (TA (AInt 0))) (right_comb n')
  end.

Example postfix_eval_bound_needed :
  need (right_comb 1000) = S max_stack /\
  eval (fun _ _ => None) (postfix (right_comb 1000)) [] = Err EIllTyped /\
  denote (fun _ _ => None) [] (right_comb 1000) = Ok (TA (AInt 0)) /\
  eval (fun _ _ => None) (postfix (right_comb 999)) [] = Ok (TA (AInt 0)).
Proof. vm_compute. repeat split. Qed.

(* Converse.  A stack of trees (top first) and the op sequence that builds it *)
Fixpoint flat (ts : list etree) : expr :=
  match ts with
  | [] => []
  | t :: ts' => flat ts' ++ postfix t
  end.

Lemma run_ops_forest : forall rx b e ts st st',
  Forall2 (fun t v => denote rx b t = Ok v) ts st ->
  run_ops rx b st e = Ok st' ->
  exists ts', flat ts ++ e = flat ts' /\ Forall2 (fun t v => denote rx b t = Ok v) ts' st'.
Proof.
  intros rx b e. induction e as [|o e IH]; intros ts st st' HF H.
  - cbn [run_ops] in H. injection H as H. subst st'. exists ts. split; [apply app_nil_r|exact HF].
  - cbn [run_ops] in H.
    destruct (step rx b st o) as [st1|err|s] eqn:Es; cbn [bind] in H; try discriminate H.
    assert (Hstep : exists ts1, flat ts ++ [o] = flat ts1 /\
                                Forall2 (fun t v => denote rx b t = Ok v) ts1 st1).
    { destruct o as [t|u|o].
      - rewrite step_val in Es.
        destruct (resolve b t) as [x|err|s] eqn:Er; cbn [bind] in Es; try discriminate Es.
        apply push_inv in Es as [Es _]. subst st1.
        exists (EVal t :: ts). split; [reflexivity|].
        constructor; [exact Er|exact HF].
      - cbn [step] in Es. destruct HF as [|t v ts0 st0 Hd HF0]; [discriminate Es|].
        destruct (eval_unary u v) as [x|err|s] eqn:Eu; cbn [bind] in Es; try discriminate Es.
        apply push_inv in Es as [Es _]. subst st1.
        exists (EUn u t :: ts0). split.
        + cbn [flat postfix]. rewrite app_assoc. reflexivity.
        + constructor; [|exact HF0]. cbn [denote]. rewrite Hd. exact Eu.
      - cbn [step] in Es. destruct HF as [|tr vr ts0 st0 Hdr HF0]; [discriminate Es|].
        destruct HF0 as [|tl vl ts1 st2 Hdl HF1]; [discriminate Es|].
        destruct (eval_binary rx o vl vr) as [x|err|s] eqn:Eb; cbn [bind] in Es; try discriminate Es.
        apply push_inv in Es as [Es _]. subst st1.
        exists (EBin o tl tr :: ts1). split.
        + cbn [flat postfix]. rewrite <- !app_assoc. reflexivity.
        + constructor; [|exact HF1]. cbn [denote]. rewrite Hdl, Hdr. exact Eb. }
    destruct Hstep as [ts1 [Hf1 HF1]].
    destruct (IH ts1 st1 st' HF1 H) as [ts' [Hf' HF']].
    exists ts'. split; [|exact HF'].
    rewrite <- Hf', <- Hf1, <- app_assoc. reflexivity.
Qed.

Lemma Forall2_single_r {A B} (R : A -> B -> Prop) (ts : list A) (v : B) :
  Forall2 R ts [v] -> exists t, ts = [t] /\ R t v.
Proof.
  intros H. inversion H as [|t c l l' HR HF Ea Ec].
  inversion HF as [El El'|]. exists t. split; [reflexivity|exact HR].
Qed.

(* a successful evaluation is the evaluation of a tree, and yields its value *)
Theorem eval_ok_denote : forall rx e b v,
  eval rx e b = Ok v -> exists t, e = postfix t /\ denote rx b t = Ok v.
Proof.
  intros rx e b v H. unfold eval in H.
  destruct (run_ops rx b [] e) as [st|err|s] eqn:Er; cbn [bind] in H; try discriminate H.
  destruct st as [|w [|w' st]]; try discriminate H. injection H as H. subst w.
  destruct (run_ops_forest rx b e [] [] [v] (Forall2_nil _) Er) as [ts [Hf HF]].
  apply Forall2_single_r in HF as [t [Hts Hd]]. subst ts.
  exists t. split; [|exact Hd]. cbn [flat app] in Hf. exact Hf.
Qed.

Theorem eval_ok_is_postfix : forall rx e b v,
  eval rx e b = Ok v -> exists t, e = postfix t.
Proof.
  intros rx e b v H. destruct (eval_ok_denote rx e b v H) as [t [Ht _]]. exists t. exact Ht.
Qed.

(* hence: a sequence that is not the postfix form of a tree is an error *)
Corollary not_postfix_is_error : forall rx e b,
  (forall t, e <> postfix t) -> exists x, eval rx e b = Err x.
Proof.
  intros rx e b Hn. destruct (eval_total rx e b) as [[v Hv]|Hx]; [|exact Hx].
  exfalso. destruct (eval_ok_is_postfix rx e b v Hv) as [t Ht]. exact (Hn t Ht).
Qed.

Example eval_ok_is_postfix_nonvacuous :
  eval (fun _ _ => None) [OVal (TA (AInt 1)); OVal (TA (AInt 2)); OBin BAdd; OUn UParens] [] = Ok (TA (AInt 3)) /\
  [OVal (TA (AInt 1)); OVal (TA (AInt 2)); OBin BAdd; OUn UParens]
  = postfix (EUn UParens (EBin BAdd (EVal (TA (AInt 1))) (EVal (TA (AInt 2))))).
Proof. vm_compute. split; reflexivity. Qed.

(* The purely syntactic side: stack heights *)
Fixpoint wf_height (e : expr) (h : nat) : option nat :=
  match e with
  | [] => Some h
  | OVal _ :: e' => wf_height e' (S h)
  | OUn _ :: e' => match h with S _ => wf_height e' h | O => None end
  | OBin _ :: e' => match h with S (S h') => wf_height e' (S h') | _ => None end
  end.

Lemma run_ops_height : forall rx b e st st',
  run_ops rx b st e = Ok st' -> wf_height e (length st) = Some (length st').
Proof.
  intros rx b e. induction e as [|o e IH]; intros st st' H; cbn [run_ops] in H.
  - injection H as H. subst st'. reflexivity.
  - destruct (step rx b st o) as [st1|err|s] eqn:Es; cbn [bind] in H; try discriminate H.
    apply IH in H. destruct o as [t|u|o].
    + rewrite step_val in Es.
      destruct (resolve b t) as [x|err|s]; cbn [bind] in Es; try discriminate Es.
      apply push_inv in Es as [Es _]. subst st1. exact H.
    + cbn [step] in Es. destruct st as [|v st0]; [discriminate Es|].
      destruct (eval_unary u v) as [x|err|s]; cbn [bind] in Es; try discriminate Es.
      apply push_inv in Es as [Es _]. subst st1. exact H.
    + cbn [step] in Es. destruct st as [|r [|l st0]]; try discriminate Es.
      destruct (eval_binary rx o l r) as [x|err|s]; cbn [bind] in Es; try discriminate Es.
      apply push_inv in Es as [Es _]. subst st1. exact H.
Qed.

Lemma wf_height_app : forall e k h,
  wf_height (e ++ k) h = match wf_height e h with Some h' => wf_height k h' | None => None end.
Proof.
  intros e k. induction e as [|o e IH]; intros h; [reflexivity|].
  destruct o as [t|u|o]; cbn [app wf_height].
  - apply IH.
  - destruct h as [|h]; [reflexivity|apply IH].
  - destruct h as [|[|h]]; try reflexivity. apply IH.
Qed.

Lemma wf_height_postfix : forall t h, wf_height (postfix t) h = Some (S h).
Proof.
  intros t. induction t as [v|u e IH|o l IHl r IHr]; intros h; cbn [postfix].
  - reflexivity.
  - rewrite wf_height_app, IH. reflexivity.
  - rewrite wf_height_app, IHl, wf_height_app, IHr. reflexivity.
Qed.

Lemma wf_height_forest : forall e ts n,
  wf_height e (length ts) = Some n -> exists ts', length ts' = n /\ flat ts ++ e = flat ts'.
Proof.
  intros e. induction e as [|o e IH]; intros ts n H.
  - cbn [wf_height] in H. injection H as H. exists ts. split; [exact H|apply app_nil_r].
  - destruct o as [t|u|o]; cbn [wf_height] in H.
    + destruct (IH (EVal t :: ts) n H) as [ts' [Hl Hf]]. exists ts'. split; [exact Hl|].
      rewrite <- Hf. cbn [flat postfix]. rewrite <- app_assoc. reflexivity.
    + destruct ts as [|x ts0]; [discriminate H|].
      destruct (IH (EUn u x :: ts0) n H) as [ts' [Hl Hf]]. exists ts'. split; [exact Hl|].
      rewrite <- Hf. cbn [flat postfix]. rewrite <- !app_assoc. reflexivity.
    + destruct ts as [|y [|x ts0]]; try discriminate H.
      destruct (IH (EBin o x y :: ts0) n H) as [ts' [Hl Hf]]. exists ts'. split; [exact Hl|].
      rewrite <- Hf. cbn [flat postfix]. rewrite <- !app_assoc. reflexivity.
Qed.

(* the postfix forms of trees are exactly the sequences of height 0 -> 1 *)
Theorem wf_height_iff_postfix : forall e, wf_height e 0 = Some 1 <-> exists t, e = postfix t.
Proof.
  intros e. split.
  - intros H. destruct (wf_height_forest e [] 1 H) as [ts [Hl Hf]].
    destruct ts as [|t [|t' ts]]; try discriminate Hl.
    exists t. exact Hf.
  - intros [t Ht]. subst e. apply wf_height_postfix.
Qed.

Corollary bad_height_is_error : forall rx e b,
  wf_height e 0 <> Some 1 -> exists x, eval rx e b = Err x.
Proof.
  intros rx e b Hn. apply not_postfix_is_error. intros t Ht. apply Hn.
  apply wf_height_iff_postfix. exists t. exact Ht.
Qed.

(* more precisely the class is EIllTyped or an operand/operator error met before the defect *)
Lemma eval_ok_height : forall rx e b v, eval rx e b = Ok v -> wf_height e 0 = Some 1.
Proof.
  intros rx e b v H. apply wf_height_iff_postfix. exact (eval_ok_is_postfix rx e b v H).
Qed.

Example wf_height_nonvacuous :
  wf_height [OVal (TA (AInt 1)); OBin BAdd] 0 = None /\
  wf_height [OVal (TA (AInt 1)); OVal (TA (AInt 1))] 0 = Some 2 /\
  wf_height (postfix sample_tree) 0 = Some 1.
Proof. vm_compute. repeat split. Qed.

(* ------------------------------------------------------------------ *)
(* 7. Witnesses                                                        *)
(* ------------------------------------------------------------------ *)

Definition rx0 : bytes -> bytes -> option bool := fun _ _ => None.

Example ex_minint_div_minus1 :
  eval rx0 [OVal (TA (AInt int64_min)); OVal (TA (AInt (-1))); OBin BDiv] [] = Err EOverflow.
Proof. vm_compute. reflexivity. Qed.

Example ex_div_zero :
  eval rx0 [OVal (TA (AInt 1)); OVal (TA (AInt 0)); OBin BDiv] [] = Err EDivZero.
Proof. vm_compute. reflexivity. Qed.

Example ex_maxint_plus1 :
  eval rx0 [OVal (TA (AInt int64_max)); OVal (TA (AInt 1)); OBin BAdd] [] = Err EOverflow.
Proof. vm_compute. reflexivity. Qed.

Example ex_minint_minus1 :
  eval rx0 [OVal (TA (AInt int64_min)); OVal (TA (AInt 1)); OBin BSub] [] = Err EOverflow.
Proof. vm_compute. reflexivity. Qed.

Example ex_minint_times_minus1 :
  eval rx0 [OVal (TA (AInt int64_min)); OVal (TA (AInt (-1))); OBin BMul] [] = Err EOverflow.
Proof. vm_compute. reflexivity. Qed.

Example ex_div_truncates_toward_zero :
  eval rx0 [OVal (TA (AInt (-7))); OVal (TA (AInt 2)); OBin BDiv] [] = Ok (TA (AInt (-3))).
Proof. vm_compute. reflexivity. Qed.

Example ex_set_of_bytes_equal :
  eval rx0 [OVal (TSet [ABytes [1%N]]); OVal (TSet [ABytes [1%N]]); OBin BEqual] [] = Ok (TA (ABool true)).
Proof. vm_compute. reflexivity. Qed.

Example ex_set_of_bytes_union_intersection :
  eval rx0 [OVal (TSet [ABytes [1%N]]); OVal (TSet [ABytes [1%N]; ABytes []]); OBin BUnion] []
    = Ok (TSet [ABytes [1%N]; ABytes []]) /\
  eval rx0 [OVal (TSet [ABytes [1%N]]); OVal (TSet [ABytes [1%N]; ABytes []]); OBin BIntersection] []
    = Ok (TSet [ABytes [1%N]]).
Proof. vm_compute. split; reflexivity. Qed.

Example ex_stack_underflow :
  eval rx0 [OVal (TA (AInt 1)); OBin BAdd] [] = Err EIllTyped /\
  eval rx0 [OUn UNegate] [] = Err EIllTyped /\
  eval rx0 [] [] = Err EIllTyped /\
  eval rx0 [OVal (TA (AInt 1)); OVal (TA (AInt 1))] [] = Err EIllTyped.
Proof. vm_compute. repeat split. Qed.

Example ex_regex_error_and_value :
  eval rx0 [OVal (TA (AStr [])); OVal (TA (AStr [40%N])); OBin BRegex] [] = Err ERegex /\
  eval (fun _ _ => Some true) [OVal (TA (AStr [])); OVal (TA (AStr [])); OBin BRegex] [] = Ok (TA (ABool true)).
Proof. vm_compute. split; reflexivity. Qed.

(* error precedence is left to right: the unknown variable on the left is
   reported, not the division by zero on the right *)
Example ex_error_order :
  eval rx0 [OVal (TA (AVar [1%N])); OVal (TA (AInt 1)); OVal (TA (AInt 0)); OBin BDiv; OBin BAdd] []
    = Err EUnknownVar /\
  eval rx0 [OVal (TA (AInt 1)); OVal (TA (AInt 0)); OBin BDiv; OVal (TA (AVar [1%N])); OBin BAdd] []
    = Err EDivZero.
Proof. vm_compute. split; reflexivity. Qed.

Print Assumptions eval_no_panic.
Print Assumptions arith_exact.
Print Assumptions never_wrapped.
Print Assumptions arith_value_exact.
Print Assumptions has_prefix_spec.
Print Assumptions has_suffix_spec.
Print Assumptions contains_sub_spec.
Print Assumptions intersection_spec.
Print Assumptions union_spec.
Print Assumptions intersection_NoDup.
Print Assumptions union_NoDup.
Print Assumptions union_prefix.
Print Assumptions set_equal_nodup.
Print Assumptions ill_typed_is_error.
Print Assumptions well_typed_result.
Print Assumptions well_typed_iff_not_ill_typed.
Print Assumptions result_typed.
Print Assumptions equal_atom.
Print Assumptions contains_member_In.
Print Assumptions contains_subset_incl.
Print Assumptions unary_ill_typed_is_error.
Print Assumptions unary_well_typed_ok.
Print Assumptions postfix_run.
Print Assumptions postfix_eval.
Print Assumptions eval_ok_denote.
Print Assumptions eval_ok_is_postfix.
Print Assumptions not_postfix_is_error.
Print Assumptions wf_height_iff_postfix.
Print Assumptions bad_height_is_error.
