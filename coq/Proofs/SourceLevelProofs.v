(* SourceLevelProofs.v — corollaries of Proofs/GenFnProofs.v that state PROPERTIES directly about the
   definitions regenerated from the Go source text (coq/GeneratedFn.v), without mentioning the
   hand-written model: exact integer arithmetic, totality of the symbol-table readers, and the
   symbol rules of Insert/Sym.  They are what Properties/C06_source_level.v, C10_source_level.v,
   C07_source_level.v and C15_source_level.v quote. *)
From Coq Require Import ZifyN ZifyNat ZifyBool.
From BV Require Import Base Term Expr DTerm Symbols Datalog Authz Wire Token DEval GoSem.
From BV Require Import GeneratedFn GenFnProofs.
Local Open Scope Z_scope.

Definition no_rx : bytes -> bytes -> option bool := fun _ _ => None.

(* the exact result, or the overflow error: what C06 demands of + - * / *)
Definition exact_or_overflow (z : Z) : res dterm :=
  if in_int64 z then Ok (DA (DInt z)) else Err EOverflow.

Lemma pair_snd_eq {A B} (a : A) (x y : B) : (a, x) = (a, y) -> x = y.
Proof. intros H. injection H as H. exact H. Qed.

Lemma src_add_exact : forall (t : table) (a b : Z),
  in_i64 a -> in_i64 b -> table_fits t ->
  go_Add_Eval (DA (DInt a)) (DA (DInt b)) t = (t, exact_or_overflow (a + b)).
Proof.
  intros t a b Ha Hb Ht.
  rewrite (go_Add_Eval_eq no_rx t (DA (DInt a)) (DA (DInt b)) Ha Hb Ht). reflexivity.
Qed.

Lemma src_sub_exact : forall (t : table) (a b : Z),
  go_Sub_Eval (DA (DInt a)) (DA (DInt b)) t = exact_or_overflow (a - b).
Proof.
  intros t a b. symmetry.
  exact (pair_snd_eq _ _ _ (go_Sub_Eval_eq no_rx t (DA (DInt a)) (DA (DInt b)))).
Qed.

Lemma src_mul_exact : forall (t : table) (a b : Z),
  go_Mul_Eval (DA (DInt a)) (DA (DInt b)) t = exact_or_overflow (a * b).
Proof.
  intros t a b. symmetry.
  exact (pair_snd_eq _ _ _ (go_Mul_Eval_eq no_rx t (DA (DInt a)) (DA (DInt b)))).
Qed.

Lemma src_div_exact : forall (t : table) (a b : Z),
  in_i64 a ->
  go_Div_Eval (DA (DInt a)) (DA (DInt b)) t =
  if Z.eqb b 0 then Err EDivZero else exact_or_overflow (Z.quot a b).
Proof.
  intros t a b Ha. symmetry.
  exact (pair_snd_eq _ _ _ (go_Div_Eval_eq no_rx t (DA (DInt a)) (DA (DInt b)) Ha)).
Qed.

(* a wrapped value is never produced: whenever the source-level evaluator answers Ok for two
   integers, the answer is the mathematical result and it is a 64-bit integer *)
Lemma src_arith_never_wrapped : forall (t : table) (a b : Z) (v : dterm),
  in_i64 a ->
  (go_Sub_Eval (DA (DInt a)) (DA (DInt b)) t = Ok v -> v = DA (DInt (a - b)) /\ in_int64 (a - b) = true) /\
  (go_Mul_Eval (DA (DInt a)) (DA (DInt b)) t = Ok v -> v = DA (DInt (a * b)) /\ in_int64 (a * b) = true) /\
  (go_Div_Eval (DA (DInt a)) (DA (DInt b)) t = Ok v -> b <> 0 /\ v = DA (DInt (Z.quot a b)) /\ in_int64 (Z.quot a b) = true).
Proof.
  intros t a b v Ha. rewrite src_sub_exact, src_mul_exact, (src_div_exact t a b Ha).
  unfold exact_or_overflow. split; [|split].
  - destruct (in_int64 (a - b)) eqn:E; intros Hv; [|discriminate].
    injection Hv as Hv. subst v. split; reflexivity.
  - destruct (in_int64 (a * b)) eqn:E; intros Hv; [|discriminate].
    injection Hv as Hv. subst v. split; reflexivity.
  - destruct (Z.eqb_spec b 0) as [Eb|Eb]; intros Hv; [discriminate|].
    destruct (in_int64 (Z.quot a b)) eqn:E; [|discriminate].
    injection Hv as Hv. subst v. split; [exact Eb|]. split; reflexivity.
Qed.

(* no operand pair makes the source-level arithmetic panic *)
Lemma src_arith_no_panic : forall (t : table) (l r : dterm) (n : N),
  wf_dterm l ->
  go_Sub_Eval l r t <> Panic n /\ go_Mul_Eval l r t <> Panic n /\ go_Div_Eval l r t <> Panic n.
Proof.
  intros t l r n Hl.
  pose proof (pair_snd_eq _ _ _ (go_Sub_Eval_eq no_rx t l r)) as Hs.
  pose proof (pair_snd_eq _ _ _ (go_Mul_Eval_eq no_rx t l r)) as Hm.
  pose proof (pair_snd_eq _ _ _ (go_Div_Eval_eq no_rx t l r Hl)) as Hd.
  rewrite <- Hs, <- Hm, <- Hd. unfold dint_op, dchecked.
  repeat split;
    destruct l as [[lv|lz|ls|ld|lb|lb]|ll]; destruct r as [[rv|rz|rs|rd|rb|rb]|rl]; try discriminate.
  - destruct (in_int64 (lz - rz)); discriminate.
  - destruct (in_int64 (lz * rz)); discriminate.
  - destruct (Z.eqb rz 0); [discriminate|]. destruct (in_int64 (Z.quot lz rz)); discriminate.
Qed.

(* SymbolTable.Str / Var as written in the source never panic, for any 64-bit (32-bit) index *)
Lemma src_str_total : forall (t : table) (i : N),
  in_u64 i -> len_ok t -> exists s, go_SymbolTable_Str t i = Ok s.
Proof. intros t i Hi Ht. exists (sym_str t i). exact (go_SymbolTable_Str_eq t i Hi Ht). Qed.

Lemma src_var_total : forall (t : table) (v : N),
  in_u32 v -> len_ok t -> exists s, go_SymbolTable_Var t v = Ok s.
Proof. intros t v Hv Ht. exists (sym_var t v). exact (go_SymbolTable_Var_eq t v Hv Ht). Qed.

(* Insert as written in the source: an index below the offset is a default symbol, the table is
   unchanged when the string is known and grows by exactly that string otherwise, and the index
   returned reads back as the string *)
Lemma src_insert_spec : forall (t : table) (s : bytes),
  table_fits t ->
  exists t' i, go_SymbolTable_Insert t s = (t', Ok i) /\
    (t' = t \/ t' = t ++ [s]) /\ sym_find t' s = Some i.
Proof.
  intros t s Ht. rewrite (go_SymbolTable_Insert_eq t s Ht).
  exists (fst (sym_insert t s)), (snd (sym_insert t s)). split; [reflexivity|].
  unfold sym_insert. destruct (sym_find t s) as [i|] eqn:E; cbn [fst snd].
  - split; [left; reflexivity | exact E].
  - split; [right; reflexivity|].
    unfold sym_find in *.
    destruct (index_of bytes_eqb s defaults 0) as [d|] eqn:Ed; [discriminate|].
    destruct (index_of bytes_eqb s t 0) as [k|] eqn:Ek; [discriminate|].
    assert (Hidx : forall (l : list bytes) n, index_of bytes_eqb s l n = None ->
                   index_of bytes_eqb s (l ++ [s]) n = Some (n + lenN l)%N).
    { clear. induction l as [|x l IH]; intros n Hn; cbn [index_of app] in *.
      - rewrite bytes_eqb_refl. f_equal. unfold lenN. cbn. lia.
      - destruct (bytes_eqb s x); [discriminate|]. rewrite (IH _ Hn). f_equal. unfold lenN. cbn [length]. lia. }
    rewrite (Hidx t 0%N Ek). f_equal.
Qed.
