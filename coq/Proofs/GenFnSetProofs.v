(* GenFnSetProofs.v — the source-level tie for the SET operators.

   [genfn -all] also translates Equal.Eval, Contains.Eval, Intersection.Eval, Union.Eval of
   datalog/expressions.go together with the methods they call (Set.Equal, Set.contains,
   Set.Intersect, Set.Union and the Equal method of the seven implementors of Term, datalog.go).
   This file proves each generated definition EQUAL to the index-level model
   (Model/DEval.v: eval_binary_D, dset_contains, dset_intersect, dset_union; Model/Token.v:
   dterm_geqb, dset_equal; Model/DTerm.v: datom_eqb), for all inputs in the ranges of the Go types.

   GeneratedFn.v must be produced by [genfn -all] (the default whitelist does not contain these
   functions).

   Method, as in GenFnProofs.v: the generated definition and its helpers are unfolded through the
   hint database [go_fn]; a function that is already proved is opaque and its calls are rewritten
   with its theorem ([go_set_calls], extended after each theorem); a loop is replaced, wherever it
   stands, by one of the lemmas below, proved once for every body that satisfies a semantic
   condition:
   - [range_from_any p r]: the body leaves the function with result r when the element satisfies
     p and goes on with the loop-carried variables unchanged otherwise;
   - [range_from_flag q] / [range_from_flag_break q]: the loop-carried variable is a flag that is
     raised when the element satisfies q (without / with a [break] at that point);
   - [range_from_fold_all g]: the body always goes on, with loop-carried variables [g st v]
     (an instance of GenFnProofs.range_from_fold).
   The condition is proved for the body found in the goal ([match goal with |- context
   [range_loop ?body ?L ?s0]]; an inner loop is replaced inside the proof of the condition of the
   outer one) by splitting the boolean tests that occur in it, so neither bound-variable names,
   nor the order of the branches ([if c {return}] / [if !c {continue}; return]), nor the
   orientation of an Equal call, nor the order of two loops matter.
   Checked on private copies of the package (HEAD of /repo): 8 harmless rewrites of these
   functions pass unchanged, 9 semantic mutations fail in the theorem about the mutated function. *)
From Coq Require Import ZifyN ZifyNat ZifyBool.
From BV Require Import Base Term Expr DTerm Symbols Datalog Authz Wire Token DEval GoSem.
From BV Require Import GeneratedFn GenFnProofs.
From BV Require Generated.

Ltac Zify.zify_post_hook ::= Z.to_euclidean_division_equations.

Local Open Scope Z_scope.

(* ------------------------------------------------------------------ *)
(** * 1. Equality of atoms *)

Lemma bool_eqb_sym (a b : bool) : Bool.eqb a b = Bool.eqb b a.
Proof. destruct a, b; reflexivity. Qed.

Lemma datom_eqb_sym (a b : datom) : datom_eqb a b = datom_eqb b a.
Proof.
  destruct a as [x|x|x|x|x|x]; destruct b as [y|y|y|y|y|y]; cbn [datom_eqb]; try reflexivity.
  - apply N.eqb_sym.
  - apply Z.eqb_sym.
  - apply N.eqb_sym.
  - apply N.eqb_sym.
  - apply bytes_eqb_sym.
  - apply bool_eqb_sym.
Qed.

Lemma datom_eqb_eq (a b : datom) : datom_eqb a b = true <-> a = b.
Proof.
  destruct a as [x|x|x|x|x|x]; destruct b as [y|y|y|y|y|y]; cbn [datom_eqb];
    try (split; [discriminate | intros H; discriminate H]).
  - rewrite N.eqb_eq. split; [intros H; subst y; reflexivity | intros H; injection H as H; exact H].
  - rewrite Z.eqb_eq. split; [intros H; subst y; reflexivity | intros H; injection H as H; exact H].
  - rewrite N.eqb_eq. split; [intros H; subst y; reflexivity | intros H; injection H as H; exact H].
  - rewrite N.eqb_eq. split; [intros H; subst y; reflexivity | intros H; injection H as H; exact H].
  - rewrite bytes_eqb_eq. split; [intros H; subst y; reflexivity | intros H; injection H as H; exact H].
  - rewrite Bool.eqb_true_iff. split; [intros H; subst y; reflexivity | intros H; injection H as H; exact H].
Qed.

Lemma datom_eqb_refl (a : datom) : datom_eqb a a = true.
Proof. apply datom_eqb_eq. reflexivity. Qed.

(* ------------------------------------------------------------------ *)
(** * 2. Loop lemmas, for every body *)

(* ANY: [for _, v := range l { if p(v) { return r } }] *)
Lemma range_from_any {A S R} (p : A -> bool) (r : R) (body : Z -> A -> S -> step S R) :
  (forall i v st, body i v st = if p v then Done r else Continue st) ->
  forall l i st, range_from body i l st = if existsb p l then Done r else Continue st.
Proof.
  intros H l. induction l as [|x l IH]; intros i st; cbn [range_from existsb]; [reflexivity|].
  rewrite H. destruct (p x); cbn [orb]; [reflexivity | apply IH].
Qed.

(* FLAG: [for _, v := range l { if q(v) { flag = true } }] *)
Lemma range_from_flag {A R} (q : A -> bool) (body : Z -> A -> bool -> step bool R) :
  (forall i v b, body i v b = Continue (q v || b)) ->
  forall l i b, range_from body i l b = Continue (existsb q l || b).
Proof.
  intros H l. induction l as [|x l IH]; intros i b; cbn [range_from existsb]; [reflexivity|].
  rewrite H, IH. f_equal. destruct (q x), (existsb q l), b; reflexivity.
Qed.

(* the same flag with a [break] once it is raised *)
Lemma range_from_flag_break {A R} (q : A -> bool) (body : Z -> A -> bool -> step bool R) :
  (forall i v b, body i v b = if q v then Break true else Continue b) ->
  forall l i b, range_from body i l b = if existsb q l then Break true else Continue b.
Proof.
  intros H l. induction l as [|x l IH]; intros i b; cbn [range_from existsb]; [reflexivity|].
  rewrite H. destruct (q x); cbn [orb]; [reflexivity | apply IH].
Qed.

(* FOLD without an invariant: the body always goes on with [g st v] *)
Lemma range_from_fold_all {A S R} (g : S -> A -> S) (body : Z -> A -> S -> step S R) :
  (forall i v st, body i v st = Continue (g st v)) ->
  forall l i st, range_from body i l st = Continue (fold_left g l st).
Proof.
  intros H l i st.
  apply (range_from_fold g (fun _ _ => True) body); [|exact I].
  intros i' v st' l' _. split; [apply H | exact I].
Qed.

Lemma existsb_negb {A} (q : A -> bool) (l : list A) :
  existsb (fun v => negb (q v)) l = negb (forallb q l).
Proof.
  induction l as [|x l IH]; cbn [existsb forallb]; [reflexivity|].
  rewrite IH. destruct (q x); reflexivity.
Qed.

Lemma existsb_ext_eq {A} (p q : A -> bool) (l : list A) :
  (forall x, p x = q x) -> existsb p l = existsb q l.
Proof.
  intros H. induction l as [|x l IH]; cbn [existsb]; [reflexivity|]. rewrite H, IH. reflexivity.
Qed.

Lemma forallb_ext_eq {A} (p q : A -> bool) (l : list A) :
  (forall x, p x = q x) -> forallb p l = forallb q l.
Proof.
  intros H. induction l as [|x l IH]; cbn [forallb]; [reflexivity|]. rewrite H, IH. reflexivity.
Qed.

(* the model's membership test, written with the operands of datom_eqb either way round *)
Lemma dset_contains_flip (s : list datom) (a : datom) :
  existsb (fun x => datom_eqb a x) s = dset_contains s a.
Proof. unfold dset_contains. apply existsb_ext_eq. intros x. apply datom_eqb_sym. Qed.

(* ------------------------------------------------------------------ *)
(** * 3. The script for bodies of loops *)

(* calls of the functions proved below; extended after each theorem *)
Ltac go_set_calls := idtac.

Lemma dterm_geqb_atoms (a b : datom) : dterm_geqb (DA a) (DA b) = datom_eqb a b.
Proof. reflexivity. Qed.

(* split every boolean test that stands in the goal (not under a binder) *)
Ltac go_bool_atom :=
  match goal with
  | |- context [dset_contains ?s ?a] => destruct (dset_contains s a)
  | |- context [datom_eqb ?a ?b] => destruct (datom_eqb a b)
  | |- context [dterm_geqb ?a ?b] => destruct (dterm_geqb a b)
  | |- context [forallb ?f ?l] => destruct (forallb f l)
  | |- context [existsb ?f ?l] => destruct (existsb f l)
  | |- context [if negb ?c then _ else _] => destruct c
  | |- context [if ?c then _ else _] => destruct c
  end.
Ltac go_bools := cbn [negb andb orb]; go_red; repeat (go_bool_atom; cbn [negb andb orb]; go_red).

(* the element [v] of the iteration goes to the right of every datom_eqb, on both sides *)
Ltac go_orient v := rewrite ?(datom_eqb_sym v).

Ltac go_body_close v :=
  go_red; go_set_calls; go_red; rewrite ?dterm_geqb_atoms; unfold dset_add, dset_contains;
  rewrite ?Bool.orb_false_r; go_orient v; go_bools; reflexivity.

(* [inner v]: what to do with the loops that stand inside the body (v: the element) *)
Ltac go_no_inner v := idtac.

Ltac go_any_loop1 p r inner :=
  match goal with
  | |- context [range_loop ?body ?L ?s0] =>
      let H := fresh "Hany" in
      assert (H : forall i v st, body i v st = if p v then Done r else Continue st)
        by (let i := fresh "i" in let v := fresh "v" in let st := fresh "st" in
            intros i v st; go_units; go_red; go_set_calls; go_red; inner v; go_body_close v);
      change (range_loop body L s0) with (range_from body 0 L s0);
      rewrite (range_from_any p r body H L 0 s0); clear H; go_red
  end.

Ltac go_flag_side v b :=
  go_red; go_set_calls; go_red; rewrite ?dterm_geqb_atoms; unfold dset_contains; go_orient v;
  go_bools; destruct b; reflexivity.
Ltac go_flag_loop1 q :=
  match goal with
  | |- context [range_loop ?body ?L ?s0] =>
      let H := fresh "Hflag" in
      first
        [ assert (H : forall i v b, body i v b = Continue (q v || b))
            by (let i := fresh "i" in let v := fresh "v" in let b := fresh "b" in
                intros i v b; go_flag_side v b);
          change (range_loop body L s0) with (range_from body 0 L s0);
          rewrite (range_from_flag q body H L 0 s0)
        | assert (H : forall i v b, body i v b = if q v then Break true else Continue b)
            by (let i := fresh "i" in let v := fresh "v" in let b := fresh "b" in
                intros i v b; go_flag_side v b);
          change (range_loop body L s0) with (range_from body 0 L s0);
          rewrite (range_from_flag_break q body H L 0 s0) ];
      clear H; go_red
  end.

Ltac go_fold_all_loop1 g :=
  match goal with
  | |- context [range_loop ?body ?L ?s0] =>
      let H := fresh "Hfold" in
      assert (H : forall i v st, body i v st = Continue (g st v))
        by (let i := fresh "i" in let v := fresh "v" in let st := fresh "st" in
            intros i v st; go_body_close v);
      change (range_loop body L s0) with (range_from body 0 L s0);
      rewrite (range_from_fold_all g body H L 0 s0); clear H; go_red
  end.

(* ------------------------------------------------------------------ *)
(** * 4. X.Equal for the six atom types, and the dispatcher over the elements of a Set *)

Ltac go_atom_equal t :=
  destruct t as [[tv|tz|ts|td|tb|tb]|tl]; autounfold with go_fn; cbn [dterm_geqb datom_eqb];
  go_red; try reflexivity;
  first [ apply f_equal; first [ apply N.eqb_sym | apply Z.eqb_sym | apply bytes_eqb_sym | apply bool_eqb_sym ]
        | go_splits; go_leaf ].

Theorem go_Variable_Equal_eq : forall (v : N) (t : dterm),
  go_Variable_Equal v t = Ok (dterm_geqb (DA (DVar v)) t).
Proof. intros v t. unfold go_Variable_Equal. go_atom_equal t. Qed.
Print Assumptions go_Variable_Equal_eq.

Theorem go_Integer_Equal_eq : forall (i : Z) (t : dterm),
  go_Integer_Equal i t = Ok (dterm_geqb (DA (DInt i)) t).
Proof. intros i t. unfold go_Integer_Equal. go_atom_equal t. Qed.
Print Assumptions go_Integer_Equal_eq.

Theorem go_String_Equal_eq : forall (s : N) (t : dterm),
  go_String_Equal s t = Ok (dterm_geqb (DA (DStr s)) t).
Proof. intros s t. unfold go_String_Equal. go_atom_equal t. Qed.
Print Assumptions go_String_Equal_eq.

Theorem go_Date_Equal_eq : forall (d : N) (t : dterm),
  go_Date_Equal d t = Ok (dterm_geqb (DA (DDate d)) t).
Proof. intros d t. unfold go_Date_Equal. go_atom_equal t. Qed.
Print Assumptions go_Date_Equal_eq.

Theorem go_Bytes_Equal_eq : forall (b : bytes) (t : dterm),
  go_Bytes_Equal b t = Ok (dterm_geqb (DA (DBytes b)) t).
Proof. intros b t. unfold go_Bytes_Equal. go_atom_equal t. Qed.
Print Assumptions go_Bytes_Equal_eq.

Theorem go_Bool_Equal_eq : forall (b : bool) (t : dterm),
  go_Bool_Equal b t = Ok (dterm_geqb (DA (DBool b)) t).
Proof. intros b t. unfold go_Bool_Equal. go_atom_equal t. Qed.
Print Assumptions go_Bool_Equal_eq.

Global Opaque go_Variable_Equal go_Integer_Equal go_String_Equal go_Date_Equal go_Bytes_Equal go_Bool_Equal.

Ltac go_set_calls ::=
  rewrite ?go_Variable_Equal_eq, ?go_Integer_Equal_eq, ?go_String_Equal_eq, ?go_Date_Equal_eq,
    ?go_Bytes_Equal_eq, ?go_Bool_Equal_eq.

Example go_atom_Equal_ex :
  go_Variable_Equal 3%N (DA (DVar 3)) = Ok true /\ go_Variable_Equal 3%N (DA (DStr 3)) = Ok false /\
  go_Integer_Equal (-1) (DA (DInt (-1))) = Ok true /\ go_Integer_Equal 1 (DA (DInt (-1))) = Ok false /\
  go_String_Equal 1024%N (DA (DStr 1024)) = Ok true /\ go_String_Equal 1024%N (DA (DDate 1024)) = Ok false /\
  go_Date_Equal 7%N (DA (DDate 7)) = Ok true /\ go_Date_Equal 7%N (DSet [DDate 7]) = Ok false /\
  go_Bytes_Equal [1;2]%N (DA (DBytes [1;2]%N)) = Ok true /\ go_Bytes_Equal [1;2]%N (DA (DBytes [1]%N)) = Ok false /\
  go_Bool_Equal true (DA (DBool true)) = Ok true /\ go_Bool_Equal true (DA (DBool false)) = Ok false.
Proof. vm_compute. repeat split. Qed.

(** the Equal method of an element of a Set (dynamic dispatch over the six atom types) *)
Theorem go_TermAtom_Equal_eq : forall (a : datom) (t : dterm),
  go_TermAtom_Equal a t = Ok (dterm_geqb (DA a) t).
Proof.
  intros a t. destruct a as [x|x|x|x|x|x]; unfold go_TermAtom_Equal; autounfold with go_fn;
    go_red; go_set_calls; reflexivity.
Qed.
Print Assumptions go_TermAtom_Equal_eq.
Global Opaque go_TermAtom_Equal.

Ltac go_set_calls ::=
  rewrite ?go_Variable_Equal_eq, ?go_Integer_Equal_eq, ?go_String_Equal_eq, ?go_Date_Equal_eq,
    ?go_Bytes_Equal_eq, ?go_Bool_Equal_eq, ?go_TermAtom_Equal_eq.

(* ------------------------------------------------------------------ *)
(** * 5. Set.contains *)

Theorem go_Set_contains_eq : forall (s : list datom) (t : dterm),
  go_Set_contains s t = Ok (existsb (fun x => dterm_geqb (DA x) t) s).
Proof.
  intros s t. unfold go_Set_contains. autounfold with go_fn. go_red.
  go_any_loop1 (fun x : datom => dterm_geqb (DA x) t) (Ok true : res bool) go_no_inner.
  go_bools; reflexivity.
Qed.
Print Assumptions go_Set_contains_eq.

(* on an element: the model's dset_contains; a Set is never an element *)
Corollary go_Set_contains_atom_eq : forall (s : list datom) (a : datom),
  go_Set_contains s (DA a) = Ok (dset_contains s a).
Proof. intros s a. rewrite go_Set_contains_eq. reflexivity. Qed.
Print Assumptions go_Set_contains_atom_eq.

Corollary go_Set_contains_set_eq : forall (s c : list datom),
  go_Set_contains s (DSet c) = Ok false.
Proof.
  intros s c. rewrite go_Set_contains_eq. f_equal.
  induction s as [|x s IH]; [reflexivity|]. cbn [existsb dterm_geqb orb]. exact IH.
Qed.
Print Assumptions go_Set_contains_set_eq.
Global Opaque go_Set_contains.

Example go_Set_contains_ex :
  go_Set_contains [DInt 1; DStr 2; DInt 3] (DA (DInt 3)) = Ok true /\
  go_Set_contains [DInt 1; DStr 2; DInt 3] (DA (DStr 3)) = Ok false /\
  go_Set_contains [] (DA (DInt 3)) = Ok false /\
  go_Set_contains [DInt 1] (DSet [DInt 1]) = Ok false.
Proof. vm_compute. repeat split. Qed.

Ltac go_set_calls ::=
  rewrite ?go_Variable_Equal_eq, ?go_Integer_Equal_eq, ?go_String_Equal_eq, ?go_Date_Equal_eq,
    ?go_Bytes_Equal_eq, ?go_Bool_Equal_eq, ?go_TermAtom_Equal_eq,
    ?go_Set_contains_atom_eq, ?go_Set_contains_set_eq, ?go_Set_contains_eq.

(* ------------------------------------------------------------------ *)
(** * 6. Set.Equal, and Equal through the interface Term *)

Lemma len_int_eqb_length {A B} (a : list A) (b : list B) :
  Z.eqb (len_int a) (len_int b) = Nat.eqb (length a) (length b).
Proof.
  rewrite !len_int_length.
  destruct (Z.eqb_spec (Z.of_nat (length a)) (Z.of_nat (length b))) as [E|E];
    destruct (Nat.eqb_spec (length a) (length b)) as [E'|E']; try reflexivity; lia.
Qed.

Theorem go_Set_Equal_eq : forall (s : list datom) (t : dterm),
  go_Set_Equal s t = Ok (dterm_geqb (DSet s) t).
Proof.
  intros s t. unfold go_Set_Equal. autounfold with go_fn. go_red.
  destruct t as [a|c]; [reflexivity|]. go_red.
  repeat first
    [ go_any_loop1 (fun v : datom => negb (dset_contains c v)) (Ok false : res bool) go_no_inner
    | go_any_loop1 (fun v : datom => negb (dset_contains s v)) (Ok false : res bool) go_no_inner ].
  cbn [dterm_geqb]. unfold dset_equal. rewrite !existsb_negb, !len_int_eqb_length.
  fold (dset_contains c) (dset_contains s).
  rewrite ?(Nat.eqb_sym (length s) (length c)).
  destruct (Nat.eqb (length c) (length s)); go_bools; reflexivity.
Qed.
Print Assumptions go_Set_Equal_eq.
Global Opaque go_Set_Equal.

Example go_Set_Equal_ex :
  go_Set_Equal [DInt 1; DInt 2] (DSet [DInt 2; DInt 1]) = Ok true /\
  go_Set_Equal [DInt 1; DInt 1] (DSet [DInt 1; DInt 2]) = Ok false /\
  go_Set_Equal [DInt 1; DInt 2] (DSet [DInt 1; DInt 1]) = Ok false /\
  go_Set_Equal [DInt 1] (DSet [DInt 1; DInt 1]) = Ok false /\
  go_Set_Equal [] (DSet []) = Ok true /\
  go_Set_Equal [DInt 1] (DA (DInt 1)) = Ok false.
Proof. vm_compute. repeat split. Qed.

Ltac go_set_calls ::=
  rewrite ?go_Variable_Equal_eq, ?go_Integer_Equal_eq, ?go_String_Equal_eq, ?go_Date_Equal_eq,
    ?go_Bytes_Equal_eq, ?go_Bool_Equal_eq, ?go_TermAtom_Equal_eq,
    ?go_Set_contains_atom_eq, ?go_Set_contains_set_eq, ?go_Set_contains_eq, ?go_Set_Equal_eq.

(** the Equal method of a Term (dynamic dispatch over the seven implementors) *)
Theorem go_Term_Equal_eq : forall (x y : dterm),
  go_Term_Equal x y = Ok (dterm_geqb x y).
Proof.
  intros x y. destruct x as [[v|v|v|v|v|v]|l]; unfold go_Term_Equal; autounfold with go_fn;
    go_red; go_set_calls; reflexivity.
Qed.
Print Assumptions go_Term_Equal_eq.
Global Opaque go_Term_Equal.

Ltac go_set_calls ::=
  rewrite ?go_Variable_Equal_eq, ?go_Integer_Equal_eq, ?go_String_Equal_eq, ?go_Date_Equal_eq,
    ?go_Bytes_Equal_eq, ?go_Bool_Equal_eq, ?go_TermAtom_Equal_eq,
    ?go_Set_contains_atom_eq, ?go_Set_contains_set_eq, ?go_Set_contains_eq, ?go_Set_Equal_eq,
    ?go_Term_Equal_eq.

(* ------------------------------------------------------------------ *)
(** * 7. Equal.Eval *)

Ltac go_set_eval :=
  cbn [wf_dterm wf_datom] in *;
  go_model; autounfold with go_fn; go_calls; go_set_calls; go_partial;
  go_red; go_tags; cbn [dterm_type datom_type ttype_eqb negb];
  repeat (go_split1; go_red; go_tags);
  go_leaf.

Theorem go_Equal_Eval_eq : forall rx (t : table) (l r : dterm),
  eval_binary_D rx t BEqual l r = (t, go_Equal_Eval l r t).
Proof.
  intros rx t l r.
  destruct l as [[lv|lz|ls|ld|lb|lb]|ll]; destruct r as [[rv|rz|rs|rd|rb|rb]|rl]; go_set_eval.
Qed.
Print Assumptions go_Equal_Eval_eq.

Example go_Equal_Eval_ex :
  go_Equal_Eval (DSet [DInt 1; DStr 2]) (DSet [DStr 2; DInt 1]) [] = Ok (DA (DBool true)) /\
  go_Equal_Eval (DSet [DInt 1; DInt 1]) (DSet [DInt 1; DInt 2]) [] = Ok (DA (DBool false)) /\
  go_Equal_Eval (DA (DStr 1024)) (DA (DStr 1024)) [] = Ok (DA (DBool true)) /\
  go_Equal_Eval (DA (DInt 1)) (DA (DStr 1)) [] = Err EIllTyped /\
  go_Equal_Eval (DA (DVar 1)) (DA (DVar 1)) [] = Err EIllTyped /\
  go_Equal_Eval (DA (DBytes [1]%N)) (DA (DBytes [1]%N)) [] = Ok (DA (DBool true)).
Proof. vm_compute. repeat split. Qed.

(* ------------------------------------------------------------------ *)
(** * 8. Contains.Eval *)

(* a set on the left, an element on the right: right.Equal(elt) for some element;
   a set on the right: every element of it is Equal to some element of the left, found by an
   inner loop that raises a flag *)
Ltac go_contains_inner v :=
  repeat go_flag_loop1 (fun x : datom => datom_eqb x v).

Ltac go_contains_loops a ls :=
  repeat first
    [ go_any_loop1 (fun x : datom => datom_eqb x a) (Ok (DA (DBool true)) : res dterm) go_no_inner
    | go_any_loop1 (fun e : datom => negb (dset_contains ls e)) (Ok (DA (DBool false)) : res dterm)
        go_contains_inner ].

(* a Set on the left: no range condition is needed (the table is not read) *)
Theorem go_Contains_Eval_set_eq : forall rx (t : table) (ll : list datom) (r : dterm),
  eval_binary_D rx t BContains (DSet ll) r = (t, go_Contains_Eval (DSet ll) r t).
Proof.
  intros rx t ll r.
  destruct r as [[rv|rz|rs|rd|rb|rb]|rl]; try solve [go_set_eval].
  (* a set and an element *)
  1-5: go_model; autounfold with go_fn; go_red; go_tags; go_red; cbn [dterm_type datom_type];
       go_set_calls; go_red;
       match goal with |- context [existsb (fun x => datom_eqb ?a x) ?L] =>
         rewrite (dset_contains_flip L a); go_contains_loops a L; unfold dset_contains; go_bools; reflexivity
       end.
  (* two sets *)
  go_model; autounfold with go_fn; go_red; go_tags; go_red; cbn [dterm_type datom_type].
  go_set_calls; go_red.
  go_contains_loops (DInt 0) ll.
  rewrite existsb_negb. unfold dset_contains. go_bools; reflexivity.
Qed.
Print Assumptions go_Contains_Eval_set_eq.

(* in general: two strings are read through the table (String indexes are uint64, len is an int) *)
Theorem go_Contains_Eval_eq : forall rx (t : table) (l r : dterm),
  wf_dterm l -> wf_dterm r -> len_ok t ->
  eval_binary_D rx t BContains l r = (t, go_Contains_Eval l r t).
Proof.
  intros rx t l r Hl Hr Ht.
  destruct l as [[lv|lz|ls|ld|lb|lb]|ll]; [| | | | | |apply go_Contains_Eval_set_eq];
    destruct r as [[rv|rz|rs|rd|rb|rb]|rl]; go_set_eval.
Qed.
Print Assumptions go_Contains_Eval_eq.

Example go_Contains_Eval_ex :
  go_Contains_Eval (DSet [DInt 1; DStr 2; DInt 3]) (DA (DInt 3)) [] = Ok (DA (DBool true)) /\
  go_Contains_Eval (DSet [DInt 1; DStr 2; DInt 3]) (DA (DStr 3)) [] = Ok (DA (DBool false)) /\
  go_Contains_Eval (DSet [DInt 1; DStr 2; DInt 3]) (DSet [DInt 3; DInt 1; DInt 3]) [] = Ok (DA (DBool true)) /\
  go_Contains_Eval (DSet [DInt 1; DStr 2; DInt 3]) (DSet [DInt 3; DInt 4]) [] = Ok (DA (DBool false)) /\
  go_Contains_Eval (DSet [DInt 1]) (DSet []) [] = Ok (DA (DBool true)) /\
  go_Contains_Eval (DSet [DInt 1]) (DA (DVar 1)) [] = Err EIllTyped /\
  go_Contains_Eval (DA (DInt 1)) (DA (DInt 1)) [] = Err EIllTyped /\
  go_Contains_Eval (DA (DStr 1024)) (DA (DStr 1025)) [[97;98;99]%N; [98;99]%N] = Ok (DA (DBool true)) /\
  go_Contains_Eval (DA (DStr 1025)) (DA (DStr 1024)) [[97;98;99]%N; [98;99]%N] = Ok (DA (DBool false)) /\
  go_Contains_Eval (DA (DStr 1024)) (DSet [DStr 1024]) [[97]%N] = Err EIllTyped.
Proof. vm_compute. repeat split. Qed.

(* ------------------------------------------------------------------ *)
(** * 9. Set.Intersect / Intersection.Eval, Set.Union / Union.Eval *)

Theorem go_Set_Intersect_eq : forall (s t : list datom),
  go_Set_Intersect s t = Ok (dset_intersect s t).
Proof.
  intros s t. unfold go_Set_Intersect, dset_intersect. autounfold with go_fn. go_red.
  go_fold_all_loop1 (fun (acc : list datom) (a : datom) => if dset_contains t a then dset_add acc a else acc).
  reflexivity.
Qed.
Print Assumptions go_Set_Intersect_eq.
Global Opaque go_Set_Intersect.

Theorem go_Set_Union_eq : forall (s t : list datom),
  go_Set_Union s t = Ok (dset_union s t).
Proof.
  intros s t. unfold go_Set_Union, dset_union. autounfold with go_fn. go_red.
  repeat go_fold_all_loop1 dset_add.
  reflexivity.
Qed.
Print Assumptions go_Set_Union_eq.
Global Opaque go_Set_Union.

Example go_Set_ops_ex :
  go_Set_Intersect [DInt 1; DInt 2; DInt 1; DInt 3; DInt 2] [DInt 2; DInt 1; DInt 4] = Ok [DInt 1; DInt 2] /\
  go_Set_Intersect [DInt 1; DStr 1] [DStr 1; DStr 1] = Ok [DStr 1] /\
  go_Set_Intersect [] [DInt 1] = Ok [] /\
  go_Set_Union [DInt 1; DInt 1; DInt 2] [DInt 2; DInt 3; DInt 3] = Ok [DInt 1; DInt 2; DInt 3] /\
  go_Set_Union [] [] = Ok [].
Proof. vm_compute. repeat split. Qed.

Ltac go_set_calls ::=
  rewrite ?go_Variable_Equal_eq, ?go_Integer_Equal_eq, ?go_String_Equal_eq, ?go_Date_Equal_eq,
    ?go_Bytes_Equal_eq, ?go_Bool_Equal_eq, ?go_TermAtom_Equal_eq,
    ?go_Set_contains_atom_eq, ?go_Set_contains_set_eq, ?go_Set_contains_eq, ?go_Set_Equal_eq,
    ?go_Term_Equal_eq, ?go_Set_Intersect_eq, ?go_Set_Union_eq.

Theorem go_Intersection_Eval_eq : forall rx (t : table) (l r : dterm),
  eval_binary_D rx t BIntersection l r = (t, go_Intersection_Eval l r t).
Proof.
  intros rx t l r.
  destruct l as [[lv|lz|ls|ld|lb|lb]|ll]; destruct r as [[rv|rz|rs|rd|rb|rb]|rl]; go_set_eval.
Qed.
Print Assumptions go_Intersection_Eval_eq.

Theorem go_Union_Eval_eq : forall rx (t : table) (l r : dterm),
  eval_binary_D rx t BUnion l r = (t, go_Union_Eval l r t).
Proof.
  intros rx t l r.
  destruct l as [[lv|lz|ls|ld|lb|lb]|ll]; destruct r as [[rv|rz|rs|rd|rb|rb]|rl]; go_set_eval.
Qed.
Print Assumptions go_Union_Eval_eq.

Example go_set_Eval_ex :
  go_Intersection_Eval (DSet [DInt 1; DInt 2; DInt 1; DInt 3]) (DSet [DInt 3; DInt 1; DInt 1]) [] = Ok (DSet [DInt 1; DInt 3]) /\
  go_Intersection_Eval (DSet [DInt 1]) (DA (DInt 1)) [] = Err EIllTyped /\
  go_Intersection_Eval (DA (DInt 1)) (DSet [DInt 1]) [] = Err EIllTyped /\
  go_Union_Eval (DSet [DStr 5; DStr 5]) (DSet [DInt 5; DStr 5; DBytes [5]%N]) [] = Ok (DSet [DStr 5; DInt 5; DBytes [5]%N]) /\
  go_Union_Eval (DSet []) (DSet []) [] = Ok (DSet []) /\
  go_Union_Eval (DSet [DInt 1]) (DA (DBool true)) [] = Err EIllTyped.
Proof. vm_compute. repeat split. Qed.
