(* SnapshotProofs.v — C18: an authorizer snapshot restores an equivalent
   authorizer; saving is refused once evaluated; loading never panics. *)
From BV Require Import Base Term DTerm Symbols Expr Datalog Authz Wire Token Snapshot.
From BV Require Import WireProofs SymbolsProofs TokenProofs.
From BV Require Generated.

(* ------------------------------------------------------------------ *)
(** * 1. Policy kinds *)

Lemma kinds_val : kind_allow = Some 0 /\ kind_deny = Some 1.
Proof. split; vm_compute; reflexivity. Qed.

Lemma pkind_roundtrip k n : pkind_to_pb k = Some n -> pb_to_pkind n = Some k /\ n < two32.
Proof.
  destruct kinds_val as [Ka Kd]. unfold pb_to_pkind. rewrite Ka, Kd.
  destruct k; cbn [pkind_to_pb]; [rewrite Ka | rewrite Kd]; intros H; apply some_inj in H; subst n;
    split; reflexivity.
Qed.

(* ------------------------------------------------------------------ *)
(** * 2. Interning the checks and the policies *)

Definition closed_policy (t : table) (p : pkind * list drule) : Prop := Forall (closed_rule t) (snd p).
Definition resolve_policy (t : table) (p : pkind * list drule) : policy :=
  {| pol_kind := fst p; pol_queries := map (resolve_rule t) (snd p) |}.

Lemma good_policy : good intern_policy closed_policy resolve_policy.
Proof.
  intros t p t' d H. unfold intern_policy in H.
  destruct (intern_rules t (pol_queries p)) as [t1 qs] eqn:E. apply pair_inj in H as [<- <-].
  destruct (good_check _ _ _ _ E) as (P & W & R). split; [exact P|]. split; [exact W|].
  intros Hs. destruct (R Hs) as [C Q]. unfold closed_policy, resolve_policy. cbn [fst snd].
  split; [exact C|]. unfold resolve_check in Q. rewrite Q. destruct p; reflexivity.
Qed.
Lemma stable_policy : stable closed_policy resolve_policy.
Proof.
  intros t l [k qs] H. destruct (stable_check t l qs H) as [C Q].
  unfold closed_policy, resolve_policy. cbn [fst snd]. split; [exact C|]. unfold resolve_check in Q. rewrite Q. reflexivity.
Qed.

Lemma intern_checks_list t l : intern_checks t l = intern_list intern_check t l.
Proof.
  revert t. induction l as [|a l IH]; intros t; cbn [intern_checks intern_list]; [reflexivity|].
  destruct (intern_check t a) as [t1 d]. rewrite IH. reflexivity.
Qed.
Lemma intern_policies_list t l : intern_policies t l = intern_list intern_policy t l.
Proof.
  revert t. induction l as [|a l IH]; intros t; cbn [intern_policies intern_list]; [reflexivity|].
  destruct (intern_policy t a) as [t1 d]. rewrite IH. reflexivity.
Qed.

(* ------------------------------------------------------------------ *)
(** * 3. The invariant of an authorizer that has only been added to *)

Definition dedup (fs : list dpred) : Prop := fold_left dinsert_fact fs [] = fs.

Lemma dedup_insert fs d : dedup fs -> dedup (dinsert_fact fs d).
Proof.
  unfold dedup. intros H.
  assert (X : dinsert_fact fs d = if dfact_in d fs then fs else fs ++ [d]) by reflexivity.
  rewrite X. destruct (dfact_in d fs) eqn:E; [exact H|].
  rewrite fold_left_app, H. cbn [fold_left]. exact X.
Qed.

Definition dinv (a : dauth) : Prop :=
  da_base a = [] /\ table_wf (da_syms a) /\ dedup (da_facts a) /\
  (small_table (da_syms a) ->
   Forall (closed_pred (da_syms a)) (da_facts a) /\ Forall (closed_rule (da_syms a)) (da_rules a)).

Lemma dinv_fresh lim : dinv (dfresh lim).
Proof. split; [reflexivity|]. split; [exact table_wf_nil|]. split; [reflexivity|]. intros _. split; constructor. Qed.

Lemma dinv_add_fact a f : dinv a -> dinv (d_add_fact a f).
Proof.
  intros (B & W & D & C). unfold d_add_fact. destruct (intern_pred (da_syms a) f) as [t d] eqn:E.
  destruct (good_pred _ _ _ _ E) as ([l P] & W' & R).
  split; [exact B|]. split; [apply W'; exact W|]. split; [apply dedup_insert; exact D|].
  cbn [da_syms da_facts da_rules]. intros Hs.
  assert (Hs0 : small_table (da_syms a)) by (rewrite P in Hs; eapply small_table_app; exact Hs).
  destruct (C Hs0) as [C1 C2]. destruct (R Hs) as [Cd _].
  destruct (stable_list _ _ stable_pred _ l _ C1) as [C1' _]. destruct (stable_list _ _ stable_rule _ l _ C2) as [C2' _].
  rewrite <- P in C1', C2'. split; [|exact C2']. unfold dinsert_fact. destruct (dfact_in d (da_facts a)); [exact C1'|].
  apply Forall_app_iff. split; [exact C1' | constructor; [exact Cd | constructor]].
Qed.
Lemma dinv_add_rule a r : dinv a -> dinv (d_add_rule a r).
Proof.
  intros (B & W & D & C). unfold d_add_rule. destruct (intern_rule (da_syms a) r) as [t d] eqn:E.
  destruct (good_rule _ _ _ _ E) as ([l P] & W' & R).
  split; [exact B|]. split; [apply W'; exact W|]. split; [exact D|].
  cbn [da_syms da_facts da_rules]. intros Hs.
  assert (Hs0 : small_table (da_syms a)) by (rewrite P in Hs; eapply small_table_app; exact Hs).
  destruct (C Hs0) as [C1 C2]. destruct (R Hs) as [Cd _].
  destruct (stable_list _ _ stable_pred _ l _ C1) as [C1' _]. destruct (stable_list _ _ stable_rule _ l _ C2) as [C2' _].
  rewrite <- P in C1', C2'. split; [exact C1'|].
  apply Forall_app_iff. split; [exact C2' | constructor; [exact Cd | constructor]].
Qed.
Lemma dinv_add_check a c : dinv a -> dinv (d_add_check a c).
Proof. intros H. exact H. Qed.
Lemma dinv_add_policy a p : dinv a -> dinv (d_add_policy a p).
Proof. intros H. exact H. Qed.

Definition is_add (o : dhop) : bool :=
  match o with DAddFact _ | DAddRule _ | DAddCheck _ | DAddPolicy _ => true | _ => false end.

Lemma dinv_adds rx tok ops : forall a, forallb is_add ops = true -> dinv a ->
  dinv (dhrun rx tok a ops) /\ da_dirty (dhrun rx tok a ops) = da_dirty a /\ da_limits (dhrun rx tok a ops) = da_limits a.
Proof.
  induction ops as [|o ops IH]; intros a Ha I; cbn [dhrun fold_left]; [auto|].
  cbn [forallb] in Ha. apply andb_true_iff in Ha as [Ho Ha]. fold (dhrun rx tok (dhstep rx tok a o) ops).
  assert (X : dinv (dhstep rx tok a o) /\ da_dirty (dhstep rx tok a o) = da_dirty a /\ da_limits (dhstep rx tok a o) = da_limits a).
  { destruct o; try discriminate; cbn [dhstep].
    - split; [apply dinv_add_fact; exact I|]. unfold d_add_fact. destruct (intern_pred (da_syms a) f). auto.
    - split; [apply dinv_add_rule; exact I|]. unfold d_add_rule. destruct (intern_rule (da_syms a) r). auto.
    - auto.
    - auto. }
  destruct X as (X1 & X2 & X3). destruct (IH _ Ha X1) as (Y1 & Y2 & Y3). rewrite Y2, Y3, X2, X3. auto.
Qed.

(* ------------------------------------------------------------------ *)
(** * 4. C18_equivalent *)

Definition wf_astate_c (s : astate) : Prop :=
  Forall wf_pred_c (a_facts s) /\ Forall wf_rule_c (a_rules s) /\ Forall (Forall wf_rule_c) (a_checks s) /\
  Forall (fun p => Forall wf_rule_c (pol_queries p)) (a_policies s).

Lemma closed_preds_bool t fs : Forall (closed_pred t) fs -> forallb (dpred_closed (offset + lenN t)) fs = true.
Proof. intros H. apply Forall_forallb. eapply Forall_imp; [|exact H]. apply dpred_closed_of. Qed.
Lemma closed_rules_bool t rs : Forall (closed_rule t) rs -> forallb (drule_closed (offset + lenN t)) rs = true.
Proof. intros H. apply Forall_forallb. eapply Forall_imp; [|exact H]. apply drule_closed_of. Qed.

Lemma mapM_policy_to_pb dpols : forall pols,
  mapM policy_to_pb dpols = Ok pols ->
  Forall2 (fun dp p => pkind_to_pb (fst dp) = Some (fst p) /\ snd p = snd dp) dpols pols.
Proof.
  induction dpols as [|dp dpols IH]; intros pols H; cbn [mapM] in H.
  - apply ok_inj in H. subst pols. constructor.
  - unfold policy_to_pb at 1 in H. destruct (pkind_to_pb (fst dp)) as [k|] eqn:E; cbn [bind] in H; [|discriminate].
    destruct (mapM policy_to_pb dpols) as [r| |]; cbn [bind] in H; try discriminate.
    apply ok_inj in H. subst pols. constructor; [split; [exact E | reflexivity] | apply IH; reflexivity].
Qed.

Definition load_policy_d (t : table) (kq : N * list drule) : res policy :=
  match pb_to_pkind (fst kq) with
  | Some kind => Ok {| pol_kind := kind; pol_queries := map (resolve_rule t) (snd kq) |}
  | None => Err EConvert
  end.

Lemma load_policy_conv t pps : forall pols,
  mapM conv_policy pps = Ok pols -> mapM (load_policy t) pps = mapM (load_policy_d t) pols.
Proof.
  induction pps as [|p pps IH]; intros pols H; cbn [mapM] in H.
  - apply ok_inj in H. subst pols. reflexivity.
  - destruct (conv_policy p) as [kq| |] eqn:E; cbn [bind] in H; try discriminate.
    destruct (mapM conv_policy pps) as [r| |]; cbn [bind] in H; try discriminate.
    apply ok_inj in H. subst pols. cbn [mapM]. rewrite (IH r eq_refl). f_equal.
    unfold conv_policy in E. unfold load_policy, load_policy_d. destruct (ppo_kind p) as [k|]; [|discriminate].
    destruct (mapM conv_rule (ppo_queries p)) as [qs| |]; cbn [bind] in E; try discriminate.
    apply ok_inj in E. subst kq. cbn [fst snd bind]. destruct (pb_to_pkind k); reflexivity.
Qed.

Lemma load_policy_d_all t dpols : forall pols,
  Forall2 (fun dp p => pkind_to_pb (fst dp) = Some (fst p) /\ snd p = snd dp) dpols pols ->
  mapM (load_policy_d t) pols = Ok (map (resolve_policy t) dpols).
Proof.
  induction 1 as [|dp p dpols pols [H1 H2] _ IH]; [reflexivity|].
  cbn [mapM map]. unfold load_policy_d at 1. destruct (pkind_roundtrip _ _ H1) as [-> _]. cbn [bind].
  rewrite IH. cbn [bind]. unfold resolve_policy. rewrite H2. reflexivity.
Qed.

Lemma conv_policies_fields pa P :
  conv_policies pa = Ok P ->
  mapM conv_fact (pa_facts pa) = Ok (ap_facts P) /\ mapM conv_rule (pa_rules pa) = Ok (ap_rules P) /\
  mapM conv_check (pa_checks pa) = Ok (ap_checks P) /\ mapM conv_policy (pa_policies pa) = Ok (ap_policies P) /\
  pa_symbols pa = ap_symbols P /\ pa_version pa = ap_version P.
Proof.
  unfold conv_policies.
  destruct (mapM conv_fact (pa_facts pa)) as [f| |]; cbn [bind]; try discriminate.
  destruct (mapM conv_rule (pa_rules pa)) as [r| |]; cbn [bind]; try discriminate.
  destruct (mapM conv_check (pa_checks pa)) as [c| |]; cbn [bind]; try discriminate.
  destruct (mapM conv_policy (pa_policies pa)) as [p| |]; cbn [bind]; try discriminate.
  intros H. apply ok_inj in H. subst P. cbn. repeat split.
Qed.

Theorem C18_equivalent a bs :
  dinv a -> save a = Ok bs ->
  small_table (da_syms (save_state a)) -> wf_astate_c (sem a) -> small bs ->
  exists a', load (dfresh (da_limits a)) bs = Ok a' /\ sem a' = sem a /\
             da_syms a' = da_syms (save_state a) /\ dinv a'.
Proof.
  intros (B & W & D & C) Hsave Hs (Wf & Wr & Wc & Wp) Sb.
  unfold sem in Wf, Wr, Wc, Wp. cbn [a_facts a_rules a_checks a_policies] in Wf, Wr, Wc, Wp.
  unfold save in Hsave. unfold save_state in Hs. destruct (da_dirty a) eqn:Ed; [discriminate|].
  unfold snapshot_of in Hsave. rewrite intern_checks_list in Hsave, Hs.
  destruct (intern_list intern_check (da_syms a) (da_checks a)) as [t1 dchecks] eqn:E1.
  rewrite intern_policies_list in Hsave, Hs.
  destruct (intern_list intern_policy t1 (da_policies a)) as [t2 dpols] eqn:E2.
  cbn [da_syms] in Hs.
  destruct (mapM policy_to_pb dpols) as [pols| |] eqn:Ek; cbn [bind] in Hsave; try discriminate.
  set (P := {| ap_symbols := t2; ap_version := Some Generated.max_schema_version; ap_facts := da_facts a;
               ap_rules := da_rules a; ap_checks := dchecks; ap_policies := pols |}) in Hsave.
  (* tables *)
  destruct (good_checks _ _ _ _ E1) as ([l1 P1] & W1 & R1).
  destruct (good_list _ _ _ good_policy stable_policy _ _ _ _ E2) as ([l2 P2] & W2 & R2).
  assert (Hs1 : small_table t1) by (rewrite P2 in Hs; eapply small_table_app; exact Hs).
  assert (Hs0 : small_table (da_syms a)) by (rewrite P1 in Hs1; eapply small_table_app; exact Hs1).
  assert (Wt2 : table_wf t2) by tauto.
  destruct (C Hs0) as [Cf Cr]. destruct (R1 Hs1) as [Cc Qc]. destruct (R2 Hs) as [Cp Qp]. cbv beta in *.
  (* everything closed in, and meaning the same under, the saved table t2 = syms ++ l1 ++ l2 *)
  assert (Pt : t2 = da_syms a ++ (l1 ++ l2)) by (rewrite P2, P1, app_assoc; reflexivity).
  destruct (stable_list _ _ stable_pred _ (l1 ++ l2) _ Cf) as [Cf2 Qf2].
  destruct (stable_list _ _ stable_rule _ (l1 ++ l2) _ Cr) as [Cr2 Qr2].
  destruct (stable_checks t1 l2 _ Cc) as [Cc2 Qc2]. cbv beta in *. rewrite <- Pt in *. rewrite <- P2 in *.
  pose proof (mapM_policy_to_pb _ _ Ek) as F2.
  (* the snapshot decodes *)
  assert (Hlim : offset + lenN t2 <= 4294967296) by exact Hs.
  assert (WP : wf_policies P).
  { unfold wf_policies, P. cbn [ap_version ap_facts ap_rules ap_checks ap_policies].
    split; [vm_compute; reflexivity|].
    split; [apply (wf_dpreds_of _ Hlim t2); [apply closed_preds_bool; exact Cf2 | rewrite Qf2; exact Wf]|].
    split; [apply (wf_drules_of _ Hlim t2); [apply closed_rules_bool; exact Cr2 | rewrite Qr2; exact Wr]|].
    split.
    { rewrite <- Qc, <- Qc2 in Wc. clear - Wc Cc2 Hlim.
      induction dchecks as [|c cs IH]; [constructor|]. cbn [map] in Wc.
      inversion Wc as [|? ? Wc1 Wc2]; inversion Cc2 as [|? ? Cc1 Cc3]; subst.
      constructor; [|apply IH; assumption].
      apply (wf_drules_of _ Hlim t2); [apply closed_rules_bool; exact Cc1 | exact Wc1]. }
    split.
    { rewrite <- Qp in Wp. clear - Wp Cp F2 Hlim. revert Wp Cp.
      induction F2 as [|dp p dpols pols [K1 K2] _ IH]; intros Wp Cp; [constructor|]. cbn [map] in Wp.
      inversion Wp as [|? ? Wp1 Wp2]; inversion Cp as [|? ? Cp1 Cp2]; subst.
      constructor; [|apply IH; assumption]. unfold wf_policy. rewrite K2.
      split; [apply (pkind_roundtrip _ _ K1)|].
      apply (wf_drules_of _ Hlim t2); [apply closed_rules_bool; exact Cp1 | exact Wp1]. }
    unfold enc_policies in Hsave. destruct (policies_ok P); [|discriminate]. apply ok_inj in Hsave.
    fold P. rewrite Hsave. exact Sb. }
  pose proof (policies_roundtrip _ _ WP Hsave) as Dec.
  unfold dec_policies in Dec. destruct (parse_policies bs) as [pa| |] eqn:Epa; cbn [bind] in Dec; try discriminate.
  destruct (conv_policies_fields _ _ Dec) as (Mf & Mr & Mc & Mp & Es & Ev).
  unfold P in Mf, Mr, Mc, Mp, Es, Ev. cbn [ap_symbols ap_version ap_facts ap_rules ap_checks ap_policies] in *.
  (* the load *)
  unfold load. rewrite Epa. cbn [bind]. rewrite Ev.
  change (Generated.max_schema_version =? 3) with true. cbn [negb].
  cbn [dfresh da_base da_facts da_rules da_dirty da_limits]. rewrite Es, (sym_extend_nil_wf _ Wt2).
  rewrite Mf, Mr, Mc. cbn [bind]. rewrite (load_policy_conv _ _ _ Mp), (load_policy_d_all t2 _ _ F2). cbn [bind].
  eexists. split; [reflexivity|]. split.
  - unfold sem. cbn [da_facts da_rules da_syms da_checks da_policies da_dirty da_limits app].
    rewrite D, Qf2, Qr2, Qc2, Qc, Qp, Ed. reflexivity.
  - split; [unfold save_state; rewrite Ed, intern_checks_list, E1, intern_policies_list, E2; reflexivity|].
    cbn [da_facts da_rules app]. rewrite D.
    split; [reflexivity|]. split; [exact Wt2|]. split; [exact D|]. cbn [da_syms da_facts da_rules]. intros _. split; assumption.
Qed.

(* hence identical outcomes and query results, for every token *)
Corollary C18_same_behaviour a bs a' rx tok q :
  dinv a -> save a = Ok bs ->
  small_table (da_syms (save_state a)) -> wf_astate_c (sem a) -> small bs ->
  load (dfresh (da_limits a)) bs = Ok a' ->
  authorize rx tok (sem a') = authorize rx tok (sem a) /\ query rx (sem a') q = query rx (sem a) q.
Proof.
  intros I S Hs Wc Sb L. destruct (C18_equivalent a bs I S Hs Wc Sb) as (a2 & L2 & E & _).
  rewrite L in L2. apply ok_inj in L2. subst a2. rewrite E. split; reflexivity.
Qed.

(* saving does not change what the authorizer means *)
Lemma save_state_sem a : dinv a -> small_table (da_syms (save_state a)) -> sem (save_state a) = sem a.
Proof.
  intros (B & W & D & C) Hs. unfold save_state in *. destruct (da_dirty a) eqn:Ed; [reflexivity|].
  rewrite intern_checks_list in *. destruct (intern_list intern_check (da_syms a) (da_checks a)) as [t1 dchecks] eqn:E1.
  rewrite intern_policies_list in *. destruct (intern_list intern_policy t1 (da_policies a)) as [t2 dpols] eqn:E2.
  cbn [da_syms] in Hs.
  destruct (good_checks _ _ _ _ E1) as ([l1 P1] & _). destruct (good_list _ _ _ good_policy stable_policy _ _ _ _ E2) as ([l2 P2] & _).
  assert (Pt : t2 = da_syms a ++ (l1 ++ l2)) by (rewrite P2, P1, app_assoc; reflexivity).
  assert (Hs0 : small_table (da_syms a)) by (rewrite Pt in Hs; eapply small_table_app; exact Hs).
  destruct (C Hs0) as [Cf Cr].
  destruct (stable_list _ _ stable_pred _ (l1 ++ l2) _ Cf) as [_ Qf2].
  destruct (stable_list _ _ stable_rule _ (l1 ++ l2) _ Cr) as [_ Qr2]. cbv beta in *. rewrite <- Pt in *.
  unfold sem. cbn [da_facts da_rules da_syms da_checks da_policies da_dirty da_limits]. rewrite Qf2, Qr2, Ed. reflexivity.
Qed.

(* ------------------------------------------------------------------ *)
(** * 5. Saving is refused once evaluated *)

Theorem C18_refused_when_evaluated a : da_dirty a = true -> save a = Err EDirty.
Proof. intros H. unfold save. rewrite H. reflexivity. Qed.

Lemma d_reintern_dirty a s : da_dirty (d_reintern a s) = a_dirty s.
Proof.
  unfold d_reintern. destruct (intern_preds (da_syms a) (a_facts s)) as [t1 fs].
  destruct (intern_rules t1 (a_rules s)) as [t2 rs]. reflexivity.
Qed.

(* Authorize sets the flag first: whatever the outcome, even a failed run *)
Theorem authorize_sets_dirty rx tok a : da_dirty (fst (d_authorize rx tok a)) = true.
Proof.
  unfold d_authorize. destruct (authorize rx tok (sem a)) as [s v] eqn:E. cbn [fst]. rewrite d_reintern_dirty.
  assert (X : a_dirty (fst (authorize rx tok (sem a))) = true).
  { unfold authorize. destruct (run rx (a_limits (sem a)) _ _) as [fs [e|]]; [reflexivity|].
    destruct (blocks_phase rx (a_limits (sem a)) fs (tl tok) 1); reflexivity. }
  rewrite E in X. exact X.
Qed.
Theorem query_sets_dirty rx a q r :
  snd (d_query rx a q) = Ok r -> da_dirty (fst (d_query rx a q)) = true.
Proof.
  unfold d_query. destruct (query rx (sem a) q) as [s r0] eqn:E. cbn [fst snd]. intros ->. rewrite d_reintern_dirty.
  unfold query in E. destruct (run rx (a_limits (sem a)) (a_rules (sem a)) (a_facts (sem a))) as [fs [e|]];
    apply pair_inj in E as [<- E2]; [discriminate | reflexivity].
Qed.
Lemma query_keeps_dirty rx a q : da_dirty a = true -> da_dirty (fst (d_query rx a q)) = true.
Proof.
  intros H. unfold d_query. destruct (query rx (sem a) q) as [s r0] eqn:E. cbn [fst]. rewrite d_reintern_dirty.
  unfold query in E. destruct (run rx (a_limits (sem a)) (a_rules (sem a)) (a_facts (sem a))) as [fs [e|]];
    apply pair_inj in E as [<- _]; [exact H | reflexivity].
Qed.

Definition is_reset (o : dhop) : bool := match o with DReset => true | _ => false end.

Lemma dirty_stays rx tok ops : forall a, da_dirty a = true -> existsb is_reset ops = false ->
  da_dirty (dhrun rx tok a ops) = true.
Proof.
  induction ops as [|o ops IH]; intros a H Hr; cbn [dhrun fold_left]; [exact H|].
  cbn [existsb] in Hr. apply orb_false_iff in Hr as [Ho Hr]. apply IH; [|exact Hr].
  destruct o; cbn [dhstep]; try discriminate.
  - unfold d_add_fact. destruct (intern_pred (da_syms a) f). exact H.
  - unfold d_add_rule. destruct (intern_rule (da_syms a) r). exact H.
  - exact H.
  - exact H.
  - apply authorize_sets_dirty.
  - apply query_keeps_dirty. exact H.
  - unfold save_state. rewrite H. exact H.
Qed.

(* in the history semantics: after any Authorize (even one whose run fails) or a
   successful Query, and until a Reset, SerializePolicies is refused *)
Theorem C18_refused_history rx tok pre post a :
  existsb is_reset post = false ->
  save (dhrun rx tok a (pre ++ DAuthorize :: post)) = Err EDirty.
Proof.
  intros Hr. apply C18_refused_when_evaluated. unfold dhrun. rewrite fold_left_app. cbn [fold_left].
  apply (dirty_stays rx tok post); [apply authorize_sets_dirty | exact Hr].
Qed.
Theorem C18_refused_history_query rx tok pre post a q r :
  snd (d_query rx (dhrun rx tok a pre) q) = Ok r -> existsb is_reset post = false ->
  save (dhrun rx tok a (pre ++ DQuery q :: post)) = Err EDirty.
Proof.
  intros Hq Hr. apply C18_refused_when_evaluated. unfold dhrun. rewrite fold_left_app. cbn [fold_left].
  apply (dirty_stays rx tok post); [|exact Hr]. cbn [dhstep]. eapply query_sets_dirty. exact Hq.
Qed.

(* ------------------------------------------------------------------ *)
(** * 6. LoadPolicies never panics *)

Definition kind_some (p : ppolicy) : Prop := is_some (ppo_kind p) = true.

Lemma fn_policy_fields_distinct : (fn_policy_queries =? fn_policy_kind) = false.
Proof. reflexivity. Qed.

Lemma step_policy_keeps d st f st' :
  step_policy d st f = Some st' -> is_some (ppo_kind st) = true -> is_some (ppo_kind st') = true.
Proof.
  destruct f as [n v]. unfold step_policy. intros E K.
  destruct (n =? fn_policy_queries); [|destruct (n =? fn_policy_kind)]; destruct v as [x0|b0|b|b0];
    try (destruct (sub b (p_rule d init_rule)); [|discriminate]);
    apply some_inj in E; subst st'; cbn [ppo_kind is_some]; try exact K; reflexivity.
Qed.

Lemma policy_kind_some d sfs : forall st x,
  fold_opt (step_policy d) sfs st = Some x ->
  is_some (ppo_kind st) = true \/ has_varint fn_policy_kind sfs = true -> is_some (ppo_kind x) = true.
Proof.
  induction sfs as [|[n v] sfs IH]; intros st x H K; cbn [fold_opt] in H.
  - apply some_inj in H. subst x. destruct K as [K|K]; [exact K | discriminate].
  - destruct (step_policy d st (n, v)) as [st'|] eqn:E; [|discriminate]. apply (IH _ _ H).
    destruct K as [K|K]; [left; eapply step_policy_keeps; eassumption|].
    unfold has_varint in K. cbn [existsb] in K. apply orb_true_iff in K as [K|K]; [|right; exact K].
    left. destruct v as [x0|b0|b|b0]; try discriminate K. apply N.eqb_eq in K. subst n.
    unfold step_policy in E. change (fn_policy_kind =? fn_policy_queries) with false in E.
    rewrite N.eqb_refl in E. apply some_inj in E. subst st'. reflexivity.
Qed.

Lemma step_policies_policies d st n v st' :
  step_policies d st (n, v) = Some st' ->
  pa_policies st' = pa_policies st \/
  ((n =? fn_ap_policies) = true /\
   exists p x, v = WBytes p /\ sub p (p_policy d init_policy) = Some x /\ pa_policies st' = pa_policies st ++ [x]).
Proof.
  unfold step_policies. intros E.
  repeat match type of E with (if ?c then _ else _) = _ => destruct c eqn:? end;
    destruct v as [x0|b0|b|b0];
    repeat match type of E with (match ?c with Some _ => _ | None => _ end) = _ => destruct c eqn:? end;
    try discriminate; apply some_inj in E; subst st'; cbn [pa_policies]; try (left; reflexivity).
  right. split; [reflexivity|]. eexists _, _. split; [reflexivity|]. split; [eassumption | reflexivity].
Qed.

Lemma fold_policies_kinds d fs : forall st pa,
  fold_opt (step_policies d) fs st = Some pa ->
  all_sub fn_ap_policies fast_policy fs = true ->
  Forall kind_some (pa_policies st) -> Forall kind_some (pa_policies pa).
Proof.
  unfold all_sub. induction fs as [|[n v] fs IH]; intros st pa H A F; cbn [fold_opt] in H.
  - apply some_inj in H. subst pa. exact F.
  - destruct (step_policies d st (n, v)) as [st'|] eqn:E; [|discriminate].
    cbn [forallb] in A. apply andb_true_iff in A as [A1 A2]. apply (IH _ _ H A2).
    destruct (step_policies_policies _ _ _ _ _ E) as [Eq | (En & p & x & -> & Es & Eq)]; rewrite Eq; [exact F|].
    apply Forall_app_iff. split; [exact F|]. constructor; [|constructor].
    rewrite En in A1. unfold sub in Es. destruct (decode_fields p) as [sfs|]; [|discriminate].
    unfold fast_policy in A1. apply andb_true_iff in A1 as [A1 _].
    unfold p_policy in Es. unfold kind_some. eapply policy_kind_some; [exact Es | right; exact A1].
Qed.

(* a parsed Policy always has its kind: the nil dereference is unreachable *)
Lemma parse_policies_kinds bs pa : parse_policies bs = Ok pa -> Forall kind_some (pa_policies pa).
Proof.
  unfold parse_policies, unmarshal_msg. destruct (decode_fields bs) as [fs|]; [|discriminate].
  destruct (p_policies (depth_for bs) init_policies fs) as [x|] eqn:Ep; [|discriminate].
  destruct (req_policies x || fast_policies fs) eqn:Er; [|discriminate]. intros H. apply ok_inj in H. subst x.
  apply orb_true_iff in Er as [Er|Er].
  - unfold req_policies in Er. apply andb_true_iff in Er as [_ Er]. apply Forall_forallb in Er.
    eapply Forall_imp; [|exact Er]. intros p Hp. unfold req_policy in Hp. apply andb_true_iff in Hp as [_ Hp]. exact Hp.
  - unfold fast_policies in Er. apply andb_true_iff in Er as [_ Er].
    unfold p_policies in Ep. apply (fold_policies_kinds _ _ _ _ Ep Er). constructor.
Qed.

Lemma np_load_policy t p : kind_some p -> np (load_policy t p).
Proof.
  unfold kind_some, load_policy. destruct (ppo_kind p) as [k|]; [|discriminate]. intros _.
  destruct (pb_to_pkind k); [|reflexivity]. apply np_bind; [apply np_mapM; apply np_conv_rule | reflexivity].
Qed.
Lemma np_mapM_Forall {A B} (f : A -> res B) l : Forall (fun x => np (f x)) l -> np (mapM f l).
Proof.
  induction 1 as [|x l Hx Hl IH]; [reflexivity|]. cbn [mapM]. apply np_bind; [exact Hx|]. intros y.
  apply np_bind; [exact IH | reflexivity].
Qed.

Theorem C18_load_total a bs s : load a bs <> Panic s.
Proof.
  apply np_not_panic. unfold load. destruct (parse_policies bs) as [pa|e|s0] eqn:Ep; cbn [bind].
  - destruct (negb ((match pa_version pa with Some v => v | None => 0 end) =? 3)); [reflexivity|].
    apply np_bind; [apply np_mapM; apply np_conv_fact|]. intros facts.
    apply np_bind; [apply np_mapM; apply np_conv_rule|]. intros rules.
    apply np_bind; [apply np_mapM; apply np_conv_check|]. intros checks.
    apply np_bind; [|reflexivity]. apply np_mapM_Forall.
    eapply Forall_imp; [|apply (parse_policies_kinds _ _ Ep)]. intros p. apply np_load_policy.
  - reflexivity.
  - exfalso. pose proof (np_unmarshal_msg (p_policies (depth_for bs) init_policies) req_policies fast_policies bs) as X.
    unfold parse_policies in Ep. rewrite Ep in X. discriminate.
Qed.

(* ------------------------------------------------------------------ *)
(** * 6b. The D-level authorizer refines the S-level one of Authz.v: [sem]
      commutes with the add operations (FactSet.Insert on indexes is
      FactSet.Insert on contents, by TokenProofs.dfact_in_resolve) *)

Lemma sem_add_fact a f :
  dinv a -> small_table (da_syms (d_add_fact a f)) -> sem (d_add_fact a f) = add_fact (sem a) f.
Proof.
  intros (B & W & D & C). unfold d_add_fact. destruct (intern_pred (da_syms a) f) as [t d] eqn:E.
  destruct (good_pred _ _ _ _ E) as ([l P] & W' & R). cbn [da_syms]. intros Hs.
  assert (Hs0 : small_table (da_syms a)) by (rewrite P in Hs; eapply small_table_app; exact Hs).
  destruct (C Hs0) as [C1 C2]. destruct (R Hs) as [Cd Qd].
  destruct (stable_list _ _ stable_pred _ l _ C1) as [C1' Q1]. destruct (stable_list _ _ stable_rule _ l _ C2) as [_ Q2].
  cbv beta in *. rewrite <- P in *.
  unfold sem, add_fact. cbn [da_facts da_rules da_syms da_checks da_policies da_dirty da_limits a_facts a_rules a_checks a_policies a_dirty a_limits].
  rewrite Q2. f_equal. rewrite <- Q1. unfold insert_fact.
  assert (X : fact_in f (map (resolve_pred t) (da_facts a)) = dfact_in d (da_facts a)).
  { rewrite <- Qd. apply dfact_in_resolve; [exact (W' W) | exact Cd | exact C1']. }
  rewrite X. unfold dinsert_fact.
  destruct (dfact_in d (da_facts a)); [reflexivity|]. rewrite map_app. cbn [map]. rewrite Qd. reflexivity.
Qed.

Lemma sem_add_rule a r :
  dinv a -> small_table (da_syms (d_add_rule a r)) -> sem (d_add_rule a r) = add_rule (sem a) r.
Proof.
  intros (B & W & D & C). unfold d_add_rule. destruct (intern_rule (da_syms a) r) as [t d] eqn:E.
  destruct (good_rule _ _ _ _ E) as ([l P] & W' & R). cbn [da_syms]. intros Hs.
  assert (Hs0 : small_table (da_syms a)) by (rewrite P in Hs; eapply small_table_app; exact Hs).
  destruct (C Hs0) as [C1 C2]. destruct (R Hs) as [Cd Qd].
  destruct (stable_list _ _ stable_pred _ l _ C1) as [_ Q1]. destruct (stable_list _ _ stable_rule _ l _ C2) as [_ Q2].
  cbv beta in *. rewrite <- P in *.
  unfold sem, add_rule. cbn [da_facts da_rules da_syms da_checks da_policies da_dirty da_limits a_facts a_rules a_checks a_policies a_dirty a_limits].
  rewrite Q1, map_app, Q2. cbn [map]. rewrite Qd. reflexivity.
Qed.

Definition aop_of (o : dhop) : aop :=
  match o with
  | DAddFact f => OAddFact f | DAddRule r => OAddRule r | DAddCheck c => OAddCheck c | DAddPolicy p => OAddPolicy p
  | DAuthorize => OAuthorize | DQuery q => OQuery q | DReset => OReset | DSave => OReset
  end.

Lemma dhstep_add_prefix rx tok a o : is_add o = true -> exists l, da_syms (dhstep rx tok a o) = da_syms a ++ l.
Proof.
  destruct o; try discriminate; intros _; cbn [dhstep].
  - unfold d_add_fact. destruct (intern_pred (da_syms a) f) as [t d] eqn:E. apply (good_prefix _ _ _ _ _ _ _ good_pred E).
  - unfold d_add_rule. destruct (intern_rule (da_syms a) r) as [t d] eqn:E. apply (good_prefix _ _ _ _ _ _ _ good_rule E).
  - exists []. rewrite app_nil_r. reflexivity.
  - exists []. rewrite app_nil_r. reflexivity.
Qed.
Lemma dhrun_adds_prefix rx tok ops : forall a, forallb is_add ops = true ->
  exists l, da_syms (dhrun rx tok a ops) = da_syms a ++ l.
Proof.
  induction ops as [|o ops IH]; intros a Ha; cbn [dhrun fold_left].
  - exists []. rewrite app_nil_r. reflexivity.
  - cbn [forallb] in Ha. apply andb_true_iff in Ha as [Ho Ha]. fold (dhrun rx tok (dhstep rx tok a o) ops).
    destruct (IH (dhstep rx tok a o) Ha) as [l2 P2]. destruct (dhstep_add_prefix rx tok a o Ho) as [l1 P1].
    exists (l1 ++ l2). rewrite P2, P1, app_assoc. reflexivity.
Qed.

Theorem sem_adds rx tok ops : forall a,
  forallb is_add ops = true -> dinv a -> small_table (da_syms (dhrun rx tok a ops)) ->
  sem (dhrun rx tok a ops) = fold_left (astep rx tok) (map aop_of ops) (sem a).
Proof.
  induction ops as [|o ops IH]; intros a Ha I Hs; cbn [dhrun fold_left map]; [reflexivity|].
  cbn [forallb] in Ha. apply andb_true_iff in Ha as [Ho Ha]. fold (dhrun rx tok (dhstep rx tok a o) ops) in *.
  destruct (dhrun_adds_prefix rx tok ops (dhstep rx tok a o) Ha) as [l P].
  assert (Hs1 : small_table (da_syms (dhstep rx tok a o))).
  { cbn [dhrun fold_left] in Hs. fold (dhrun rx tok (dhstep rx tok a o) ops) in Hs. rewrite P in Hs. eapply small_table_app. exact Hs. }
  assert (E : sem (dhstep rx tok a o) = astep rx tok (sem a) (aop_of o) /\ dinv (dhstep rx tok a o)).
  { destruct o; try discriminate; cbn [dhstep aop_of astep] in *.
    - split; [apply sem_add_fact; assumption | apply dinv_add_fact; exact I].
    - split; [apply sem_add_rule; assumption | apply dinv_add_rule; exact I].
    - split; [reflexivity | exact I].
    - split; [reflexivity | exact I]. }
  destruct E as [E I1]. rewrite <- E. apply IH; try assumption.
Qed.

(* ------------------------------------------------------------------ *)
(** * 7. Examples *)

Definition ex_lim : limits := {| max_facts := 1000; max_iterations := 100 |}.
Definition ex_rx (_ _ : bytes) : option bool := None.
Definition ex_q (name : bytes) : rule :=
  {| r_head := {| p_name := s_query; p_terms := [] |};
     r_body := [{| p_name := name; p_terms := [TA (AVar [120])] |}]; r_exprs := [] |}.
Definition ex_rule1 : rule :=
  {| r_head := {| p_name := s_bar; p_terms := [TA (AVar [120])] |};
     r_body := [{| p_name := s_owner; p_terms := [TA (AVar [120])] |}];
     r_exprs := [[OVal (TSet [AStr s_alice; AStr s_file1]); OVal (TA (AVar [120])); OBin BContains]] |}.
Definition ex_adds : list dhop :=
  [DAddFact f1; DAddFact f2; DAddFact f1; DAddRule ex_rule1; DAddCheck [ex_q s_bar];
   DAddPolicy {| pol_kind := Deny; pol_queries := [ex_q s_foo] |};
   DAddPolicy {| pol_kind := Allow; pol_queries := [ex_q s_right; ex_q s_bar] |}].
Definition ex_auth : dauth := dhrun ex_rx [] (dfresh ex_lim) ex_adds.
Definition ex_bytes : bytes := match save ex_auth with Ok bs => bs | _ => [] end.

Example kinds_example : pkind_to_pb Allow = Some 0 /\ pkind_to_pb Deny = Some 1 /\ pb_to_pkind 5 = None.
Proof. repeat split; vm_compute; reflexivity. Qed.

(* the hypotheses of C18_equivalent hold on a non-trivial authorizer; its checks and
   policies bring symbols ("foo", "x", "bar" is known) that are interned only at save time *)
Example C18_equivalent_nonvacuous :
  dinv ex_auth /\ save ex_auth = Ok ex_bytes /\ da_syms ex_auth = [s_file1; s_alice; [120]; s_bar] /\
  da_syms (save_state ex_auth) = [s_file1; s_alice; [120]; s_bar; s_foo] /\
  small_table (da_syms (save_state ex_auth)) /\ wf_astate_c (sem ex_auth) /\ small ex_bytes /\
  length (da_facts ex_auth) = 2%nat /\
  exists a', load (dfresh ex_lim) ex_bytes = Ok a' /\ sem a' = sem ex_auth /\
             da_syms a' = [s_file1; s_alice; [120]; s_bar; s_foo].
Proof.
  assert (I : dinv ex_auth) by (apply (dinv_adds ex_rx [] ex_adds (dfresh ex_lim) eq_refl (dinv_fresh ex_lim))).
  assert (S : save ex_auth = Ok ex_bytes) by (vm_compute; reflexivity).
  assert (Hs : small_table (da_syms (save_state ex_auth))) by (vm_compute; discriminate).
  assert (Wc : wf_astate_c (sem ex_auth)).
  { assert (E : sem ex_auth = sem ex_auth) by reflexivity. unfold wf_astate_c.
    assert (Ef : a_facts (sem ex_auth) = [f1; f2]) by (vm_compute; reflexivity).
    assert (Er : a_rules (sem ex_auth) = [ex_rule1]) by (vm_compute; reflexivity).
    assert (Ec : a_checks (sem ex_auth) = [[ex_q s_bar]]) by (vm_compute; reflexivity).
    assert (Ep : a_policies (sem ex_auth) = [{| pol_kind := Deny; pol_queries := [ex_q s_foo] |};
                                             {| pol_kind := Allow; pol_queries := [ex_q s_right; ex_q s_bar] |}])
      by (vm_compute; reflexivity).
    rewrite Ef, Er, Ec, Ep. wfc_tac. }
  assert (Sb : small ex_bytes) by (vm_compute; reflexivity).
  split; [exact I|]. split; [exact S|]. split; [vm_compute; reflexivity|]. split; [vm_compute; reflexivity|].
  split; [exact Hs|]. split; [exact Wc|]. split; [exact Sb|]. split; [vm_compute; reflexivity|].
  destruct (C18_equivalent ex_auth ex_bytes I S Hs Wc Sb) as (a' & L & E & Es & _).
  exists a'. split; [exact L|]. split; [exact E|]. rewrite Es. vm_compute. reflexivity.
Qed.

(* ... and by computation: same verdicts before and after, for two tokens *)
Example C18_example_behaviour :
  match load (dfresh ex_lim) ex_bytes with
  | Ok a' =>
      map (fun tok => snd (authorize ex_rx tok (sem a'))) [[]; [blk_auth; blk_one]] =
      map (fun tok => snd (authorize ex_rx tok (sem ex_auth))) [[]; [blk_auth; blk_one]] /\
      snd (authorize ex_rx [] (sem a')) = VSuccess
  | _ => False
  end.
Proof. vm_compute. split; reflexivity. Qed.

Example C18_refused_example :
  save (dhrun ex_rx [] (dfresh ex_lim) (ex_adds ++ [DAuthorize; DAddFact g1])) = Err EDirty /\
  save (dhrun ex_rx [] (dfresh ex_lim) (ex_adds ++ [DQuery (ex_q s_bar)])) = Err EDirty /\
  is_ok (save (dhrun ex_rx [] (dfresh ex_lim) (ex_adds ++ [DAuthorize; DReset; DAddFact g1]))) = true.
Proof. repeat split; vm_compute; reflexivity. Qed.

(* a run that fails (the fact limit) still sets the flag *)
Example C18_refused_after_failed_run :
  let lim := {| max_facts := 1; max_iterations := 100 |} in
  let a := dhrun ex_rx [] (dfresh lim) ex_adds in
  snd (d_authorize ex_rx [] a) = VRunError EMaxFacts /\ save (fst (d_authorize ex_rx [] a)) = Err EDirty.
Proof. cbv zeta. split; vm_compute; reflexivity. Qed.

Example C18_load_malformed :
  load (dfresh ex_lim) [255] = Err EWire /\
  load (dfresh ex_lim) [] = Err EVersion /\                       (* no version *)
  load (dfresh ex_lim) [16;4] = Err EVersion /\
  load (dfresh ex_lim) [16;3;50;2;16;5] = Err EConvert /\         (* policy kind 5 *)
  load (dfresh ex_lim) [16;3;50;0] = Err EWire /\                 (* policy without kind *)
  is_ok (load (dfresh ex_lim) [16;3;50;2;16;1]) = true.
Proof. repeat split; vm_compute; reflexivity. Qed.

(* ------------------------------------------------------------------ *)
Print Assumptions C18_equivalent.
Print Assumptions C18_same_behaviour.
Print Assumptions save_state_sem.
Print Assumptions C18_refused_when_evaluated.
Print Assumptions authorize_sets_dirty.
Print Assumptions query_sets_dirty.
Print Assumptions C18_refused_history.
Print Assumptions C18_refused_history_query.
Print Assumptions parse_policies_kinds.
Print Assumptions C18_load_total.
Print Assumptions C18_equivalent_nonvacuous.
Print Assumptions sem_adds.
