(* SymbolsProofs.v — the symbol table (datalog/symbol.go) and the two conversions
   of types.go: interning S -> D threads the table and only appends to it;
   resolving what was interned, through the output table or ANY extension of it,
   gives back the S-level value (C07, C08, C18 rest on this). *)
From BV Require Import Base Term DTerm Symbols.
From BV Require Generated.

(* ------------------------------------------------------------------ *)
(** * 1. Concrete facts about the generated constants *)

Lemma lenN_defaults : lenN defaults = 28.
Proof. vm_compute. reflexivity. Qed.
Lemma offset_val : offset = 1024.
Proof. reflexivity. Qed.
Lemma defaults_le_offset : lenN defaults <= offset.
Proof. vm_compute. discriminate. Qed.

Fixpoint nodupb (l : list bytes) : bool :=
  match l with
  | [] => true
  | x :: l' => negb (existsb (bytes_eqb x) l') && nodupb l'
  end.

Lemma existsb_bytes_In x l : existsb (bytes_eqb x) l = true <-> In x l.
Proof.
  rewrite existsb_exists. split.
  - intros (y & Hy & E). apply bytes_eqb_eq in E. subst y. exact Hy.
  - intros H. exists x. split; [exact H | apply bytes_eqb_refl].
Qed.

Lemma nodupb_NoDup l : nodupb l = true -> NoDup l.
Proof.
  induction l as [|x l IH]; intros H; [constructor|].
  cbn [nodupb] in H. apply andb_true_iff in H as [H1 H2]. constructor; [|apply IH; exact H2].
  intros Hin. apply existsb_bytes_In in Hin. rewrite Hin in H1. discriminate.
Qed.

Lemma defaults_nodup : NoDup defaults.
Proof. apply nodupb_NoDup. vm_compute. reflexivity. Qed.

(* ------------------------------------------------------------------ *)
(** * 2. nthN / index_of *)

(* [injection] reduces arithmetic on big literals: use these instead *)
Lemma pair_inj {A B} (a c : A) (b d : B) : (a, b) = (c, d) -> a = c /\ b = d.
Proof. intros H. injection H as H1 H2. split; assumption. Qed.
Lemma some_inj {A} (a b : A) : Some a = Some b -> a = b.
Proof. intros H. injection H as H. exact H. Qed.

Lemma lenN_app {A} (a b : list A) : lenN (a ++ b) = lenN a + lenN b.
Proof. induction a as [|x a IH]; cbn [lenN app]; [reflexivity | rewrite IH; lia]. Qed.

Lemma nthN_lt {A} (l : list A) : forall i x, nthN l i = Some x -> i < lenN l.
Proof.
  induction l as [|y l IH]; intros i x H; cbn [nthN lenN] in *; [discriminate|].
  destruct (N.eqb_spec i 0) as [E|E]; [lia|]. apply IH in H. lia.
Qed.

Lemma nthN_In {A} (l : list A) : forall i x, nthN l i = Some x -> In x l.
Proof.
  induction l as [|y l IH]; intros i x H; cbn [nthN] in H; [discriminate|].
  destruct (N.eqb i 0); [left; congruence | right; eapply IH; exact H].
Qed.

Lemma In_nthN {A} (l : list A) x : In x l -> exists i, nthN l i = Some x.
Proof.
  induction l as [|y l IH]; intros H; [destruct H|].
  destruct H as [->|H].
  - exists 0. reflexivity.
  - destruct (IH H) as [i Hi]. exists (i + 1). cbn [nthN].
    destruct (N.eqb_spec (i + 1) 0) as [E|E]; [lia|]. replace (i + 1 - 1) with i by lia. exact Hi.
Qed.

Lemma nthN_app_l {A} (l l' : list A) : forall i, i < lenN l -> nthN (l ++ l') i = nthN l i.
Proof.
  induction l as [|y l IH]; intros i H; cbn [lenN] in H; [lia|].
  cbn [app nthN]. destruct (N.eqb_spec i 0) as [E|E]; [reflexivity|]. apply IH. lia.
Qed.

Lemma nthN_app_r {A} (l l' : list A) : forall i, nthN (l ++ l') (lenN l + i) = nthN l' i.
Proof.
  induction l as [|y l IH]; intros i; cbn [lenN app].
  - rewrite N.add_0_l. reflexivity.
  - cbn [nthN]. destruct (N.eqb_spec (1 + lenN l + i) 0) as [E|E]; [lia|].
    replace (1 + lenN l + i - 1) with (lenN l + i) by lia. apply IH.
Qed.

Lemma nthN_none {A} (l : list A) : forall i, lenN l <= i -> nthN l i = None.
Proof.
  induction l as [|y l IH]; intros i H; [reflexivity|]. cbn [lenN] in H. cbn [nthN].
  destruct (N.eqb_spec i 0) as [E|E]; [lia|]. apply IH. lia.
Qed.

Lemma nthN_inj {A} (l : list A) : NoDup l -> forall i j x,
  nthN l i = Some x -> nthN l j = Some x -> i = j.
Proof.
  induction 1 as [|y l Hy Hl IH]; intros i j x Hi Hj; cbn [nthN] in *; [discriminate|].
  destruct (N.eqb_spec i 0) as [Ei|Ei], (N.eqb_spec j 0) as [Ej|Ej].
  - lia.
  - exfalso. apply Hy. injection Hi as <-. eapply nthN_In. exact Hj.
  - exfalso. apply Hy. injection Hj as <-. eapply nthN_In. exact Hi.
  - pose proof (IH _ _ _ Hi Hj). lia.
Qed.

Lemma index_of_some s l : forall k i,
  index_of bytes_eqb s l k = Some i -> k <= i /\ nthN l (i - k) = Some s.
Proof.
  induction l as [|y l IH]; intros k i H; cbn [index_of] in H; [discriminate|].
  destruct (bytes_eqb s y) eqn:E.
  - apply bytes_eqb_eq in E. subst y. injection H as <-. split; [lia|].
    cbn [nthN]. replace (k - k) with 0 by lia. reflexivity.
  - apply IH in H as [H1 H2]. split; [lia|]. cbn [nthN].
    destruct (N.eqb_spec (i - k) 0) as [E0|E0]; [lia|].
    replace (i - k - 1) with (i - (k + 1)) by lia. exact H2.
Qed.

Lemma index_of_none s l : forall k, index_of bytes_eqb s l k = None <-> ~ In s l.
Proof.
  induction l as [|y l IH]; intros k; cbn [index_of In]; [tauto|].
  destruct (bytes_eqb s y) eqn:E.
  - apply bytes_eqb_eq in E. subst y. split; [discriminate | tauto].
  - rewrite IH. split.
    + intros H [H1|H1]; [|tauto]. subst y. rewrite bytes_eqb_refl in E. discriminate.
    + tauto.
Qed.

(* ------------------------------------------------------------------ *)
(** * 3. Insert / Str *)

(* an index that designates a string: a default symbol, or a position of the table *)
Definition valid_index (t : table) (i : N) : Prop :=
  i < lenN defaults \/ (offset <= i /\ i < offset + lenN t).

(* no repeated symbol and no default symbol in the table: what Insert maintains *)
Definition table_wf (t : table) : Prop := NoDup t /\ forall s, In s t -> ~ In s defaults.

(* every index of the table fits the uint32 of datalog.Variable *)
Definition small_table (t : table) : Prop := offset + lenN t <= 4294967296.

Lemma valid_index_lt t i : valid_index t i -> i < offset + lenN t.
Proof. pose proof defaults_le_offset. unfold valid_index. lia. Qed.

Lemma valid_index_app t l i : valid_index t i -> valid_index (t ++ l) i.
Proof. unfold valid_index. rewrite lenN_app. lia. Qed.

Lemma small_table_app t l : small_table (t ++ l) -> small_table t.
Proof. unfold small_table. rewrite lenN_app. lia. Qed.

Lemma nodup_app_l {A} (a b : list A) : NoDup (a ++ b) -> NoDup a.
Proof.
  induction a as [|x a IH]; intros H; [constructor|]. cbn [app] in H.
  inversion H as [|? ? Hx Ha]; subst. constructor; [|apply IH; exact Ha].
  intros Hin. apply Hx. apply in_or_app. left. exact Hin.
Qed.
Lemma nodup_app_r {A} (a b : list A) : NoDup (a ++ b) -> NoDup b.
Proof.
  induction a as [|x a IH]; intros H; [exact H|]. cbn [app] in H.
  inversion H as [|? ? Hx Ha]; subst. apply IH. exact Ha.
Qed.
Lemma nodup_app_disj {A} (a b : list A) x : NoDup (a ++ b) -> In x a -> In x b -> False.
Proof.
  induction a as [|y a IH]; intros H Ha Hb; [destruct Ha|]. cbn [app] in H.
  inversion H as [|? ? Hy Hab]; subst. destruct Ha as [<-|Ha].
  - apply Hy. apply in_or_app. right. exact Hb.
  - exact (IH Hab Ha Hb).
Qed.
Lemma nodup_snoc {A} (a : list A) x : NoDup a -> ~ In x a -> NoDup (a ++ [x]).
Proof.
  induction a as [|y a IH]; intros H Hx; cbn [app]; [constructor; [intros []|constructor]|].
  inversion H as [|? ? Hy Ha]; subst. constructor.
  - intros Hin. apply in_app_or in Hin as [Hin|[<-|[]]]; [exact (Hy Hin)|]. apply Hx. left. reflexivity.
  - apply IH; [exact Ha|]. intros Hin. apply Hx. right. exact Hin.
Qed.

Lemma table_wf_nil : table_wf [].
Proof. split; [constructor | intros s []]. Qed.

Lemma table_wf_app_l t l : table_wf (t ++ l) -> table_wf t.
Proof.
  intros [H1 H2]. split.
  - apply nodup_app_l in H1. exact H1.
  - intros s Hs. apply H2. apply in_or_app. left. exact Hs.
Qed.

Lemma table_wf_app_r t l : table_wf (t ++ l) -> table_wf l.
Proof.
  intros [H1 H2]. split.
  - apply nodup_app_r in H1. exact H1.
  - intros s Hs. apply H2. apply in_or_app. right. exact Hs.
Qed.

Lemma nthN_some_of_lt {A} (l : list A) : forall i, i < lenN l -> exists x, nthN l i = Some x.
Proof.
  induction l as [|y l IH]; intros i Hi; cbn [lenN] in Hi; [lia|].
  cbn [nthN]. destruct (N.eqb_spec i 0) as [E|E]; [exists y; reflexivity|]. apply IH. lia.
Qed.

(* what a valid index designates *)
Definition designates (t : table) (i : N) (s : bytes) : Prop :=
  (i < offset /\ nthN defaults i = Some s) \/ (offset <= i /\ nthN t (i - offset) = Some s).

Lemma valid_designates t i : valid_index t i -> exists s, designates t i s.
Proof.
  pose proof defaults_le_offset as Hd. intros [H|[H1 H2]].
  - destruct (nthN_some_of_lt defaults i H) as [s Hs]. exists s. left. split; [lia | exact Hs].
  - destruct (nthN_some_of_lt t (i - offset)) as [s Hs]; [lia|]. exists s. right. split; assumption.
Qed.

Lemma designates_str t i s : designates t i s -> sym_str t i = s.
Proof.
  unfold sym_str. intros [[H1 H2]|[H1 H2]].
  - destruct (N.ltb_spec i offset) as [L|L]; [|lia]. rewrite H2. reflexivity.
  - destruct (N.ltb_spec i offset) as [L|L]; [lia|]. rewrite H2. reflexivity.
Qed.

Lemma designates_valid t i s : designates t i s -> valid_index t i.
Proof.
  intros [[H1 H2]|[H1 H2]].
  - left. eapply nthN_lt. exact H2.
  - right. apply nthN_lt in H2. lia.
Qed.

Lemma designates_In t i s : designates t i s -> In s defaults \/ In s t.
Proof. intros [[_ H]|[_ H]]; apply nthN_In in H; auto. Qed.

(* Str on an index below the end of the table does not depend on what follows *)
Theorem sym_str_extend_lt t l i : i < offset + lenN t -> sym_str (t ++ l) i = sym_str t i.
Proof.
  intros H. unfold sym_str. destruct (N.ltb_spec i offset) as [L|L]; [reflexivity|].
  rewrite nthN_app_l by lia. reflexivity.
Qed.

Theorem sym_str_extend t l i : valid_index t i -> sym_str (t ++ l) i = sym_str t i.
Proof. intros H. apply sym_str_extend_lt. apply valid_index_lt. exact H. Qed.

Lemma sym_find_some t s i : sym_find t s = Some i -> designates t i s.
Proof.
  pose proof defaults_le_offset as Hd. unfold sym_find.
  destruct (index_of bytes_eqb s defaults 0) as [j|] eqn:E1.
  - intros H. apply some_inj in H as <-. apply index_of_some in E1 as [_ E1].
    replace (j - 0) with j in E1 by lia. left. split; [|exact E1]. apply nthN_lt in E1. lia.
  - destruct (index_of bytes_eqb s t 0) as [j|] eqn:E2; [|discriminate].
    intros H. apply some_inj in H as <-. apply index_of_some in E2 as [_ E2].
    replace (j - 0) with j in E2 by lia. right. split; [lia|].
    replace (offset + j - offset) with j by lia. exact E2.
Qed.

Lemma sym_find_none t s : sym_find t s = None <-> ~ In s defaults /\ ~ In s t.
Proof.
  unfold sym_find. split.
  - destruct (index_of bytes_eqb s defaults 0) eqn:E1; [discriminate|].
    destruct (index_of bytes_eqb s t 0) eqn:E2; [discriminate|]. intros _.
    apply index_of_none in E1, E2. split; assumption.
  - intros [H1 H2]. apply (index_of_none s defaults 0) in H1. apply (index_of_none s t 0) in H2.
    rewrite H1, H2. reflexivity.
Qed.

Theorem sym_insert_prefix t s t' i : sym_insert t s = (t', i) -> exists l, t' = t ++ l.
Proof.
  unfold sym_insert. destruct (sym_find t s); intros H; apply pair_inj in H as [<- <-].
  - exists []. rewrite app_nil_r. reflexivity.
  - exists [s]. reflexivity.
Qed.

Lemma sym_insert_designates t s t' i : sym_insert t s = (t', i) -> designates t' i s.
Proof.
  unfold sym_insert. destruct (sym_find t s) as [j|] eqn:E; intros H; apply pair_inj in H as [<- <-].
  - apply sym_find_some. exact E.
  - right. split; [lia|]. replace (offset + lenN t - offset) with (lenN t + 0) by lia.
    rewrite nthN_app_r. reflexivity.
Qed.

Theorem sym_insert_str t s t' i : sym_insert t s = (t', i) -> sym_str t' i = s.
Proof. intros H. apply designates_str. eapply sym_insert_designates. exact H. Qed.

Theorem sym_insert_valid t s t' i : sym_insert t s = (t', i) -> valid_index t' i.
Proof. intros H. eapply designates_valid. eapply sym_insert_designates. exact H. Qed.

Theorem sym_insert_nodup t s t' i : sym_insert t s = (t', i) -> table_wf t -> table_wf t'.
Proof.
  unfold sym_insert. destruct (sym_find t s) as [j|] eqn:E; intros H; apply pair_inj in H as [<- <-]; [tauto|].
  apply sym_find_none in E as [E1 E2]. intros [W1 W2]. split.
  - apply nodup_snoc; assumption.
  - intros x Hx. apply in_app_or in Hx as [Hx|[<-|[]]]; [apply W2; exact Hx | exact E1].
Qed.

(* the string designated by an index is unique, and under table_wf so is the
   index designating a string: Str is injective on the valid indexes *)
Lemma designates_inj t i j s : table_wf t -> designates t i s -> designates t j s -> i = j.
Proof.
  intros [W1 W2] [[A1 A2]|[A1 A2]] [[B1 B2]|[B1 B2]].
  - eapply nthN_inj; [apply defaults_nodup | exact A2 | exact B2].
  - exfalso. apply nthN_In in A2, B2. exact (W2 _ B2 A2).
  - exfalso. apply nthN_In in A2, B2. exact (W2 _ A2 B2).
  - pose proof (nthN_inj t W1 _ _ _ A2 B2). lia.
Qed.

Theorem sym_str_inj t i j : table_wf t -> valid_index t i -> valid_index t j ->
  sym_str t i = sym_str t j -> i = j.
Proof.
  intros W Hi Hj E. destruct (valid_designates _ _ Hi) as [s Hs]. destruct (valid_designates _ _ Hj) as [s' Hs'].
  rewrite (designates_str _ _ _ Hs), (designates_str _ _ _ Hs') in E. subst s'.
  eapply designates_inj; eassumption.
Qed.

Lemma designates_app t l i s : designates t i s -> designates (t ++ l) i s.
Proof.
  intros [H|[H1 H2]]; [left; exact H|]. right. split; [exact H1|].
  rewrite nthN_app_l; [exact H2 | eapply nthN_lt; exact H2].
Qed.

Lemma designates_find t i s : table_wf t -> designates t i s -> sym_find t s = Some i.
Proof.
  intros W H. destruct (sym_find t s) as [j|] eqn:E.
  - apply sym_find_some in E. f_equal. eapply designates_inj; eassumption.
  - apply sym_find_none in E as [E1 E2]. apply designates_In in H as [H|H]; contradiction.
Qed.

(* two successive insertions return the same index iff the strings are equal *)
Theorem sym_insert_inj t s1 s2 t1 t2 i j :
  table_wf t -> sym_insert t s1 = (t1, i) -> sym_insert t1 s2 = (t2, j) -> (i = j <-> s1 = s2).
Proof.
  intros W H1 H2. pose proof (sym_insert_nodup _ _ _ _ H1 W) as W1.
  pose proof (sym_insert_designates _ _ _ _ H1) as D1.
  pose proof (sym_insert_designates _ _ _ _ H2) as D2.
  destruct (sym_insert_prefix _ _ _ _ H2) as [l ->]. split.
  - intros <-. apply (designates_app _ l) in D1.
    rewrite <- (designates_str _ _ _ D1), <- (designates_str _ _ _ D2). reflexivity.
  - intros <-. unfold sym_insert in H2. rewrite (designates_find _ _ _ W1 D1) in H2.
    apply pair_inj in H2 as [_ <-]. reflexivity.
Qed.

Example sym_insert_inj_nonvacuous :
  table_wf [[97]] /\ sym_insert [[97]] [98] = ([[97]; [98]], 1025) /\
  sym_insert [[97]; [98]] [98] = ([[97]; [98]], 1025) /\
  sym_insert [[97]; [98]] [114;101;97;100] = ([[97]; [98]], 0).
Proof.
  split; [|repeat split; vm_compute; reflexivity].
  split; [constructor; [intros []|constructor] |].
  intros s [<-|[]] H. revert H. apply (index_of_none [97] defaults 0). vm_compute. reflexivity.
Qed.

(* Extend with a list that brings no repeated, known or default symbol appends it *)
Lemma sym_extend_app t l : table_wf (t ++ l) -> sym_extend t l = t ++ l.
Proof.
  unfold sym_extend. revert t. induction l as [|s l IH]; intros t W; cbn [fold_left].
  - rewrite app_nil_r. reflexivity.
  - assert (E : sym_find t s = None).
    { apply sym_find_none. destruct W as [W1 W2]. split.
      - apply W2. apply in_or_app. right. left. reflexivity.
      - intros Hin. apply (nodup_app_disj _ _ s W1 Hin). left. reflexivity. }
    unfold sym_insert at 2. rewrite E. cbn [fst].
    replace (t ++ s :: l) with ((t ++ [s]) ++ l) in * by (rewrite <- app_assoc; reflexivity).
    apply IH. exact W.
Qed.

Lemma sym_extend_nil_wf t : table_wf t -> sym_extend [] t = t.
Proof. intros W. apply (sym_extend_app [] t). exact W. Qed.

Lemma sym_disjoint_wf t l : table_wf (t ++ l) -> sym_disjoint t l = true.
Proof.
  intros [W _]. unfold sym_disjoint. apply forallb_forall. intros s Hs.
  apply negb_true_iff. destruct (existsb (bytes_eqb s) t) eqn:E; [|reflexivity].
  apply existsb_bytes_In in E. exfalso. exact (nodup_app_disj _ _ s W E Hs).
Qed.

(* ------------------------------------------------------------------ *)
(** * 4. Closedness: every index of a D-level value is valid in the table *)

Definition closed_atom (t : table) (a : datom) : Prop :=
  match a with DVar v => valid_index t v | DStr s => valid_index t s | _ => True end.
Definition closed_term (t : table) (x : dterm) : Prop :=
  match x with DA a => closed_atom t a | DSet l => Forall (closed_atom t) l end.
Definition closed_pred (t : table) (p : dpred) : Prop :=
  valid_index t (dp_name p) /\ Forall (closed_term t) (dp_terms p).
Definition closed_op (t : table) (o : dop) : Prop :=
  match o with DOVal x => closed_term t x | _ => True end.
Definition closed_expr (t : table) (e : dexpr) : Prop := Forall (closed_op t) e.
Definition closed_rule (t : table) (r : drule) : Prop :=
  closed_pred t (dr_head r) /\ Forall (closed_pred t) (dr_body r) /\ Forall (closed_expr t) (dr_exprs r).
Definition closed_check (t : table) (c : dcheck) : Prop := Forall (closed_rule t) c.
Definition closed_block (t : table) (b : dblock) : Prop :=
  Forall (closed_pred t) (db_facts b) /\ Forall (closed_rule t) (db_rules b) /\
  Forall (closed_check t) (db_checks b).

(* ------------------------------------------------------------------ *)
(** * 5. A generic account of "interning": prefix, well-formedness, closedness,
      resolution; and of "stability": closed values mean the same in every extension *)

Section Good.
  Context {A D : Type}.
  Variable intern : table -> A -> table * D.
  Variable closed : table -> D -> Prop.
  Variable resolve : table -> D -> A.

  Definition good : Prop := forall t a t' d, intern t a = (t', d) ->
    (exists l, t' = t ++ l) /\ (table_wf t -> table_wf t') /\
    (small_table t' -> closed t' d /\ resolve t' d = a).
  Definition stable : Prop := forall t l d, closed t d ->
    closed (t ++ l) d /\ resolve (t ++ l) d = resolve t d.

  Fixpoint intern_list (t : table) (l : list A) : table * list D :=
    match l with
    | [] => (t, [])
    | a :: l' => let '(t1, d) := intern t a in
                 let '(t2, ds) := intern_list t1 l' in (t2, d :: ds)
    end.
End Good.

Lemma stable_list {A D} (closed : table -> D -> Prop) (resolve : table -> D -> A) :
  stable closed resolve -> stable (fun t => Forall (closed t)) (fun t => map (resolve t)).
Proof.
  intros S t l ds H. induction H as [|d ds Hd Hds [IH1 IH2]]; [split; [constructor | reflexivity]|].
  destruct (S t l d Hd) as [S1 S2]. split; [constructor; assumption|]. cbn [map]. rewrite S2, IH2. reflexivity.
Qed.

Lemma good_list {A D} (intern : table -> A -> table * D) closed resolve :
  good intern closed resolve -> stable closed resolve ->
  good (intern_list intern) (fun t => Forall (closed t)) (fun t => map (resolve t)).
Proof.
  intros G S t l. revert t. induction l as [|a l IH]; intros t t' ds H; cbn [intern_list] in H.
  - injection H as <- <-. split; [exists []; rewrite app_nil_r; reflexivity|].
    split; [tauto|]. intros _. split; [constructor | reflexivity].
  - destruct (intern t a) as [t1 d] eqn:E1. destruct (intern_list intern t1 l) as [t2 ds'] eqn:E2.
    injection H as <- <-. destruct (G _ _ _ _ E1) as ([l1 P1] & W1 & R1).
    destruct (IH _ _ _ E2) as ([l2 P2] & W2 & R2). split; [|split].
    + exists (l1 ++ l2). rewrite P2, P1, app_assoc. reflexivity.
    + tauto.
    + intros Hs. destruct (R2 Hs) as [C2 Q2]. assert (Hs1 : small_table t1).
      { rewrite P2 in Hs. eapply small_table_app. exact Hs. }
      destruct (R1 Hs1) as [C1 Q1]. destruct (S t1 l2 d C1) as [C1' Q1']. rewrite <- P2 in C1', Q1'.
      split; [constructor; assumption|]. cbn [map]. rewrite Q1', Q1, Q2. reflexivity.
Qed.

(* extraction of the pieces *)
Lemma good_prefix {A D} (intern : table -> A -> table * D) closed resolve t a t' d :
  good intern closed resolve -> intern t a = (t', d) -> exists l, t' = t ++ l.
Proof. intros G H. apply (G _ _ _ _ H). Qed.
Lemma good_wf {A D} (intern : table -> A -> table * D) closed resolve t a t' d :
  good intern closed resolve -> intern t a = (t', d) -> table_wf t -> table_wf t'.
Proof. intros G H. apply (G _ _ _ _ H). Qed.
Lemma good_closed {A D} (intern : table -> A -> table * D) closed resolve t a t' d :
  good intern closed resolve -> intern t a = (t', d) -> small_table t' -> closed t' d.
Proof. intros G H Hs. apply (G _ _ _ _ H). exact Hs. Qed.
Lemma good_resolve {A D} (intern : table -> A -> table * D) closed resolve t a t' d :
  good intern closed resolve -> stable closed resolve ->
  intern t a = (t', d) -> small_table t' -> forall ext, resolve (t' ++ ext) d = a.
Proof.
  intros G S H Hs ext. destruct (G _ _ _ _ H) as (_ & _ & R). destruct (R Hs) as [C Q].
  destruct (S t' ext d C) as [_ E]. rewrite E. exact Q.
Qed.

(* ------------------------------------------------------------------ *)
(** * 6. The instances, bottom up *)

Lemma sym_insert_small_index t s t' i :
  sym_insert t s = (t', i) -> small_table t' -> i mod 4294967296 = i.
Proof.
  intros H Hs. apply sym_insert_valid in H. apply valid_index_lt in H.
  unfold small_table in Hs. apply N.mod_small. lia.
Qed.

Lemma good_atom : good intern_atom closed_atom resolve_atom.
Proof.
  intros t a t' d H. destruct a as [v|z|s|n|b|b]; cbn [intern_atom] in H;
    try (injection H as <- <-; split; [exists []; rewrite app_nil_r; reflexivity|];
         split; [tauto|]; intros _; split; [exact I | reflexivity]).
  - destruct (sym_insert t v) as [t1 i] eqn:E. injection H as <- <-.
    split; [eapply sym_insert_prefix; exact E|]. split; [eapply sym_insert_nodup; exact E|].
    intros Hs. rewrite (sym_insert_small_index _ _ _ _ E Hs). cbn [closed_atom resolve_atom].
    split; [eapply sym_insert_valid; exact E|]. f_equal. eapply sym_insert_str. exact E.
  - destruct (sym_insert t s) as [t1 i] eqn:E. injection H as <- <-.
    split; [eapply sym_insert_prefix; exact E|]. split; [eapply sym_insert_nodup; exact E|].
    intros Hs. cbn [closed_atom resolve_atom].
    split; [eapply sym_insert_valid; exact E|]. f_equal. eapply sym_insert_str. exact E.
Qed.

Lemma stable_atom : stable closed_atom resolve_atom.
Proof.
  intros t l d H. destruct d as [v|z|s|n|b|b]; cbn [closed_atom resolve_atom] in *;
    try (split; [exact I | reflexivity]).
  - split; [apply valid_index_app; exact H|]. rewrite sym_str_extend by exact H. reflexivity.
  - split; [apply valid_index_app; exact H|]. rewrite sym_str_extend by exact H. reflexivity.
Qed.

Lemma intern_atoms_list t l : intern_atoms t l = intern_list intern_atom t l.
Proof.
  revert t. induction l as [|a l IH]; intros t; cbn [intern_atoms intern_list]; [reflexivity|].
  destruct (intern_atom t a) as [t1 d]. rewrite IH. reflexivity.
Qed.

Lemma good_term : good intern_term closed_term resolve_term.
Proof.
  intros t x t' d H. destruct x as [a|l]; cbn [intern_term] in H.
  - destruct (intern_atom t a) as [t1 d1] eqn:E. injection H as <- <-.
    destruct (good_atom _ _ _ _ E) as (P & W & R). split; [exact P|]. split; [exact W|].
    intros Hs. destruct (R Hs) as [C Q]. cbn [closed_term resolve_term]. split; [exact C | f_equal; exact Q].
  - rewrite intern_atoms_list in H. destruct (intern_list intern_atom t l) as [t1 ds] eqn:E.
    injection H as <- <-.
    destruct (good_list _ _ _ good_atom stable_atom _ _ _ _ E) as (P & W & R).
    split; [exact P|]. split; [exact W|].
    intros Hs. destruct (R Hs) as [C Q]. cbn [closed_term resolve_term]. split; [exact C | f_equal; exact Q].
Qed.

Lemma stable_term : stable closed_term resolve_term.
Proof.
  intros t l d H. destruct d as [a|ds]; cbn [closed_term resolve_term] in *.
  - destruct (stable_atom t l a H) as [C Q]. split; [exact C | f_equal; exact Q].
  - destruct (stable_list _ _ stable_atom t l ds H) as [C Q]. split; [exact C | f_equal; exact Q].
Qed.

Lemma intern_terms_list t l : intern_terms t l = intern_list intern_term t l.
Proof.
  revert t. induction l as [|a l IH]; intros t; cbn [intern_terms intern_list]; [reflexivity|].
  destruct (intern_term t a) as [t1 d]. rewrite IH. reflexivity.
Qed.

Lemma good_pred : good intern_pred closed_pred resolve_pred.
Proof.
  intros t p t' d H. unfold intern_pred in H. rewrite intern_terms_list in H.
  destruct (intern_list intern_term t (p_terms p)) as [t1 ts] eqn:E1.
  destruct (sym_insert t1 (p_name p)) as [t2 n] eqn:E2. injection H as <- <-.
  destruct (good_list _ _ _ good_term stable_term _ _ _ _ E1) as ([l1 P1] & W1 & R1).
  destruct (sym_insert_prefix _ _ _ _ E2) as [l2 P2].
  split; [exists (l1 ++ l2); rewrite P2, P1, app_assoc; reflexivity|].
  split; [intros W; eapply sym_insert_nodup; [exact E2 | tauto]|].
  intros Hs. assert (Hs1 : small_table t1) by (rewrite P2 in Hs; eapply small_table_app; exact Hs).
  destruct (R1 Hs1) as [C1 Q1].
  destruct (stable_list _ _ stable_term t1 l2 ts C1) as [C1' Q1']. rewrite <- P2 in C1', Q1'.
  unfold closed_pred, resolve_pred. cbn [dp_name dp_terms].
  split; [split; [eapply sym_insert_valid; exact E2 | exact C1']|].
  rewrite Q1', Q1, (sym_insert_str _ _ _ _ E2). destruct p; reflexivity.
Qed.

Lemma stable_pred : stable closed_pred resolve_pred.
Proof.
  intros t l d [H1 H2]. destruct (stable_list _ _ stable_term t l _ H2) as [C Q].
  unfold closed_pred, resolve_pred. split; [split; [apply valid_index_app; exact H1 | exact C]|].
  rewrite Q, sym_str_extend by exact H1. reflexivity.
Qed.

Lemma intern_preds_list t l : intern_preds t l = intern_list intern_pred t l.
Proof.
  revert t. induction l as [|a l IH]; intros t; cbn [intern_preds intern_list]; [reflexivity|].
  destruct (intern_pred t a) as [t1 d]. rewrite IH. reflexivity.
Qed.

Lemma good_op : good intern_op closed_op resolve_op.
Proof.
  intros t o t' d H. destruct o as [x|u|b]; cbn [intern_op] in H;
    try (injection H as <- <-; split; [exists []; rewrite app_nil_r; reflexivity|];
         split; [tauto|]; intros _; split; [exact I | reflexivity]).
  destruct (intern_term t x) as [t1 d1] eqn:E. injection H as <- <-.
  destruct (good_term _ _ _ _ E) as (P & W & R). split; [exact P|]. split; [exact W|].
  intros Hs. destruct (R Hs) as [C Q]. cbn [closed_op resolve_op]. split; [exact C | f_equal; exact Q].
Qed.

Lemma stable_op : stable closed_op resolve_op.
Proof.
  intros t l d H. destruct d as [x|u|b]; cbn [closed_op resolve_op] in *; try (split; [exact I | reflexivity]).
  destruct (stable_term t l x H) as [C Q]. split; [exact C | f_equal; exact Q].
Qed.

Lemma intern_expr_list t l : intern_expr t l = intern_list intern_op t l.
Proof.
  revert t. induction l as [|a l IH]; intros t; cbn [intern_expr intern_list]; [reflexivity|].
  destruct (intern_op t a) as [t1 d]. rewrite IH. reflexivity.
Qed.

Lemma good_expr : good intern_expr closed_expr (fun t => map (resolve_op t)).
Proof.
  intros t e t' d H. rewrite intern_expr_list in H.
  exact (good_list _ _ _ good_op stable_op _ _ _ _ H).
Qed.
Lemma stable_expr : stable closed_expr (fun t => map (resolve_op t)).
Proof. exact (stable_list _ _ stable_op). Qed.

Lemma intern_exprs_list t l : intern_exprs t l = intern_list intern_expr t l.
Proof.
  revert t. induction l as [|a l IH]; intros t; cbn [intern_exprs intern_list]; [reflexivity|].
  destruct (intern_expr t a) as [t1 d]. rewrite IH. reflexivity.
Qed.

Lemma good_rule : good intern_rule closed_rule resolve_rule.
Proof.
  intros t r t' d H. unfold intern_rule in H. rewrite intern_preds_list in H.
  destruct (intern_list intern_pred t (r_body r)) as [t1 body] eqn:E1. rewrite intern_exprs_list in H.
  destruct (intern_list intern_expr t1 (r_exprs r)) as [t2 es] eqn:E2.
  destruct (intern_pred t2 (r_head r)) as [t3 h] eqn:E3. injection H as <- <-.
  destruct (good_list _ _ _ good_pred stable_pred _ _ _ _ E1) as ([l1 P1] & W1 & R1).
  destruct (good_list _ _ _ good_expr stable_expr _ _ _ _ E2) as ([l2 P2] & W2 & R2).
  destruct (good_pred _ _ _ _ E3) as ([l3 P3] & W3 & R3).
  split; [exists (l1 ++ l2 ++ l3); rewrite P3, P2, P1, !app_assoc; reflexivity|].
  split; [tauto|]. intros Hs.
  assert (Hs2 : small_table t2) by (rewrite P3 in Hs; eapply small_table_app; exact Hs).
  assert (Hs1 : small_table t1) by (rewrite P2 in Hs2; eapply small_table_app; exact Hs2).
  destruct (R1 Hs1) as [C1 Q1]. destruct (R2 Hs2) as [C2 Q2]. destruct (R3 Hs) as [C3 Q3].
  destruct (stable_list _ _ stable_pred t1 (l2 ++ l3) body C1) as [C1' Q1'].
  destruct (stable_list _ _ stable_expr t2 l3 es C2) as [C2' Q2'].
  rewrite app_assoc, <- P2, <- P3 in C1', Q1'. rewrite <- P3 in C2', Q2'. cbv beta in *.
  unfold closed_rule, resolve_rule. cbn [dr_head dr_body dr_exprs].
  split; [split; [exact C3 | split; [exact C1' | exact C2']]|].
  destruct r as [rh rb re]; cbn [r_head r_body r_exprs] in *.
  f_equal; [exact Q3 | exact (eq_trans Q1' Q1) | exact (eq_trans Q2' Q2)].
Qed.

Lemma stable_rule : stable closed_rule resolve_rule.
Proof.
  intros t l d (H1 & H2 & H3). destruct (stable_pred t l _ H1) as [C1 Q1].
  destruct (stable_list _ _ stable_pred t l _ H2) as [C2 Q2].
  destruct (stable_list _ _ stable_expr t l _ H3) as [C3 Q3]. cbv beta in *.
  unfold closed_rule, resolve_rule. split; [tauto|]. f_equal; [exact Q1 | exact Q2 | exact Q3].
Qed.

Lemma intern_rules_list t l : intern_rules t l = intern_list intern_rule t l.
Proof.
  revert t. induction l as [|a l IH]; intros t; cbn [intern_rules intern_list]; [reflexivity|].
  destruct (intern_rule t a) as [t1 d]. rewrite IH. reflexivity.
Qed.

Lemma good_check : good intern_check closed_check resolve_check.
Proof.
  intros t c t' d H. unfold intern_check in H. rewrite intern_rules_list in H.
  exact (good_list _ _ _ good_rule stable_rule _ _ _ _ H).
Qed.
Lemma stable_check : stable closed_check resolve_check.
Proof. exact (stable_list _ _ stable_rule). Qed.

Lemma good_checks : good (intern_list intern_check) (fun t => Forall (closed_check t)) (fun t => map (resolve_check t)).
Proof. exact (good_list _ _ _ good_check stable_check). Qed.
Lemma stable_checks : stable (fun t => Forall (closed_check t)) (fun t => map (resolve_check t)).
Proof. exact (stable_list _ _ stable_check). Qed.

Lemma stable_block t l b : closed_block t b ->
  closed_block (t ++ l) b /\ resolve_block (t ++ l) b = resolve_block t b.
Proof.
  intros (H1 & H2 & H3).
  destruct (stable_list _ _ stable_pred t l _ H1) as [C1 Q1].
  destruct (stable_list _ _ stable_rule t l _ H2) as [C2 Q2].
  destruct (stable_list _ _ stable_check t l _ H3) as [C3 Q3].
  unfold closed_block, resolve_block. split; [tauto|]. rewrite Q1, Q2, Q3. reflexivity.
Qed.

(* ------------------------------------------------------------------ *)
(** * 7. The statements, one by one *)

Theorem resolve_intern_term t x t' d :
  intern_term t x = (t', d) -> small_table t' -> forall ext, resolve_term (t' ++ ext) d = x.
Proof. apply (good_resolve _ _ _ _ _ _ _ good_term stable_term). Qed.

Theorem resolve_intern_pred t p t' d :
  intern_pred t p = (t', d) -> small_table t' -> forall ext, resolve_pred (t' ++ ext) d = p.
Proof. apply (good_resolve _ _ _ _ _ _ _ good_pred stable_pred). Qed.

Theorem resolve_intern_expr t e t' d :
  intern_expr t e = (t', d) -> small_table t' -> forall ext, map (resolve_op (t' ++ ext)) d = e.
Proof. apply (good_resolve _ _ _ _ _ _ _ good_expr stable_expr). Qed.

Theorem resolve_intern_rule t r t' d :
  intern_rule t r = (t', d) -> small_table t' -> forall ext, resolve_rule (t' ++ ext) d = r.
Proof. apply (good_resolve _ _ _ _ _ _ _ good_rule stable_rule). Qed.

Theorem resolve_intern_check t c t' d :
  intern_check t c = (t', d) -> small_table t' -> forall ext, resolve_check (t' ++ ext) d = c.
Proof. apply (good_resolve _ _ _ _ _ _ _ good_check stable_check). Qed.

Theorem intern_pred_prefix t p t' d : intern_pred t p = (t', d) -> exists l, t' = t ++ l.
Proof. apply (good_prefix _ _ _ _ _ _ _ good_pred). Qed.
Theorem intern_rule_prefix t r t' d : intern_rule t r = (t', d) -> exists l, t' = t ++ l.
Proof. apply (good_prefix _ _ _ _ _ _ _ good_rule). Qed.
Theorem intern_check_prefix t c t' d : intern_check t c = (t', d) -> exists l, t' = t ++ l.
Proof. apply (good_prefix _ _ _ _ _ _ _ good_check). Qed.

Theorem intern_pred_wf t p t' d : intern_pred t p = (t', d) -> table_wf t -> table_wf t'.
Proof. apply (good_wf _ _ _ _ _ _ _ good_pred). Qed.
Theorem intern_rule_wf t r t' d : intern_rule t r = (t', d) -> table_wf t -> table_wf t'.
Proof. apply (good_wf _ _ _ _ _ _ _ good_rule). Qed.
Theorem intern_check_wf t c t' d : intern_check t c = (t', d) -> table_wf t -> table_wf t'.
Proof. apply (good_wf _ _ _ _ _ _ _ good_check). Qed.

(* intern_closed *)
Theorem intern_pred_closed t p t' d : intern_pred t p = (t', d) -> small_table t' -> closed_pred t' d.
Proof. apply (good_closed _ _ _ _ _ _ _ good_pred). Qed.
Theorem intern_rule_closed t r t' d : intern_rule t r = (t', d) -> small_table t' -> closed_rule t' d.
Proof. apply (good_closed _ _ _ _ _ _ _ good_rule). Qed.
Theorem intern_check_closed t c t' d : intern_check t c = (t', d) -> small_table t' -> closed_check t' d.
Proof. apply (good_closed _ _ _ _ _ _ _ good_check). Qed.

(* The smallness hypothesis is needed: intern_atom truncates a variable's index
   to 32 bits (datalog.Variable is a uint32) while Str resolves the full index;
   a table of 2^32 - 1024 + 1 strings would make the next variable resolve to "read". *)

(* non-vacuity: a rule with default and fresh symbols, a set, a variable, an expression *)
Definition ex_rule : rule :=
  {| r_head := {| p_name := [104]; p_terms := [TA (AVar [120]); TA (AStr [114;101;97;100])] |};
     r_body := [{| p_name := [98]; p_terms := [TA (AVar [120]); TSet [AStr [115]; AStr [104]; AInt 3]] |}];
     r_exprs := [[OVal (TA (AVar [120])); OVal (TA (AStr [115])); OBin BEqual]] |}.

Example resolve_intern_rule_nonvacuous :
  let r := intern_rule [[122]] ex_rule in
  fst r = [[122]; [120]; [115]; [104]; [98]] /\ small_table (fst r) /\ table_wf (fst r) /\
  dr_head (snd r) = {| dp_name := 1027; dp_terms := [DA (DVar 1025); DA (DStr 0)] |} /\
  resolve_rule (fst r ++ [[99]]) (snd r) = ex_rule.
Proof.
  cbv zeta. split; [vm_compute; reflexivity|]. split; [vm_compute; discriminate|].
  split; [|split; vm_compute; reflexivity].
  eapply intern_rule_wf; [apply surjective_pairing|]. split; [constructor; [intros []|constructor]|].
  intros s [<-|[]] H. revert H. apply (index_of_none [122] defaults 0). vm_compute. reflexivity.
Qed.

(* ------------------------------------------------------------------ *)
Print Assumptions sym_insert_str.
Print Assumptions sym_insert_prefix.
Print Assumptions sym_str_extend.
Print Assumptions sym_insert_valid.
Print Assumptions sym_insert_nodup.
Print Assumptions sym_insert_inj.
Print Assumptions sym_str_inj.
Print Assumptions sym_extend_app.
Print Assumptions resolve_intern_term.
Print Assumptions resolve_intern_pred.
Print Assumptions resolve_intern_expr.
Print Assumptions resolve_intern_rule.
Print Assumptions resolve_intern_check.
Print Assumptions intern_rule_prefix.
Print Assumptions intern_rule_wf.
Print Assumptions intern_rule_closed.
Print Assumptions stable_block.
