(* GenFnEvalStaticProofs.v — a STATIC sufficient condition for the dynamic range hypothesis
   [run_pre] of Proofs/GenFnEvalProofs.v (go_Expression_Evaluate_eq).

   [run_pre rx b t [] e] speaks about every intermediate state of the model's run.  Here
   [static_pre t e b] is a condition on the inputs (t, e, b) ALONE:

     there is a size bound B >= 64 such that
       - every string of the table t has at most B bytes;
       - every constant of e, and every binding value that a variable op of e looks up in b,
         is in the ranges of the Go types (wf_dterm) and, if it is a byte array or a set, has
         at most B bytes / elements;
       - B * 2^g < 2^63 and len t + g + 1025 < 2^63, where g = [growth e] is the number of
         binary Add and Union ops in e (the only ops whose result can be LARGER than their
         operands: a concatenation at most doubles the longest string, a union at most doubles
         the largest set; Add on strings is also the only op that extends the table, by one).

   The invariant of the run ([tab_ok B t], [Forall (val_ok B) st]) is kept by every step with
   the same B, except Add / Union which need 2 * B.  Integers never need a size bound: the
   results of Add / Sub / Mul / Div are in int64 whenever they are Ok ([dchecked]), and the
   result of Length is bounded by B.  64 covers the default symbols (at most 10 bytes) and the
   text "<invalid symbol N>" that Str returns for an index outside the table (at most 42). *)
From Coq Require Import ZifyN ZifyNat ZifyBool.
From BV Require Import Base Term Expr DTerm Symbols Datalog Authz Wire Token DEval GoSem.
From BV Require Import GeneratedFn SymbolsProofs GenFnProofs GenFnEvalProofs.
From BV Require Generated.

Local Open Scope Z_scope.

(* ------------------------------------------------------------------ *)
(** * 1. The static condition *)

Definition size_ok (B : Z) (v : dterm) : Prop :=
  match v with
  | DA (DBytes y) => len_int y <= B
  | DSet l => len_int l <= B
  | _ => True
  end.
Definition val_ok (B : Z) (v : dterm) : Prop := wf_dterm v /\ size_ok B v.
Definition tab_ok (B : Z) (t : table) : Prop := Forall (fun s : bytes => len_int s <= B) t.

(* the ops whose result can be larger than their operands *)
Definition grows (o : dop) : bool :=
  match o with DOBin BAdd => true | DOBin BUnion => true | _ => false end.
Fixpoint growth (e : dexpr) : Z :=
  match e with [] => 0 | o :: e' => (if grows o then 1 else 0) + growth e' end.

(* a constant, or the value that a variable op finds in the bindings (none: the run stops
   with an error at that op) *)
Definition op_ok (B : Z) (b : dbindings) (o : dop) : Prop :=
  match o with
  | DOVal (DA (DVar v)) => match dlookup b v with Some x => val_ok B x | None => True end
  | DOVal x => val_ok B x
  | _ => True
  end.

Definition static_pre_at (B : Z) (t : table) (e : dexpr) (b : dbindings) : Prop :=
  64 <= B /\ B * 2 ^ growth e < two63 /\ len_int t + growth e + 1025 < two63 /\
  tab_ok B t /\ Forall (op_ok B b) e.

Definition static_pre (t : table) (e : dexpr) (b : dbindings) : Prop :=
  exists B, static_pre_at B t e b.

(* ------------------------------------------------------------------ *)
(** * 2. Sizes of what Str returns *)

Lemma dec_digits_len : forall (f : nat) (n : N) (acc : bytes),
  (length (dec_digits f n acc) <= f + length acc)%nat.
Proof.
  induction f as [|f IH]; intros n acc; cbn [dec_digits]; [lia|].
  destruct (n <? 10)%N; [cbn [length]; lia|].
  specialize (IH (n / 10)%N ((48 + n mod 10)%N :: acc)). cbn [length] in IH. lia.
Qed.

Lemma invalid_symbol_len n : len_int (invalid_symbol n) <= 42.
Proof.
  unfold invalid_symbol, decimal. rewrite len_int_length, !app_length.
  assert (H := dec_digits_len 25 n []). cbn [length] in *. lia.
Qed.

Lemma defaults_len : Forall (fun s : bytes => len_int s <= 64) defaults.
Proof.
  assert (H : forallb (fun s : bytes => len_int s <=? 64) defaults = true) by (vm_compute; reflexivity).
  rewrite forallb_forall in H. apply Forall_forall. intros s Hs. specialize (H s Hs). lia.
Qed.

Lemma sym_str_len B t i : 64 <= B -> tab_ok B t -> len_int (sym_str t i) <= B.
Proof.
  intros HB Ht. unfold sym_str. assert (Hinv := invalid_symbol_len i).
  destruct (i <? offset)%N.
  - destruct (nthN defaults i) as [s|] eqn:E; [|lia].
    apply nthN_In in E. assert (H := defaults_len). rewrite Forall_forall in H. specialize (H s E). lia.
  - destruct (nthN t (i - offset)) as [s|] eqn:E; [|lia].
    apply nthN_In in E. unfold tab_ok in Ht. rewrite Forall_forall in Ht. exact (Ht s E).
Qed.

Lemma in_int64_i64 z : in_int64 z = true -> in_i64 z.
Proof. unfold in_int64, int64_min, int64_max, in_i64, two63. lia. Qed.

(* ------------------------------------------------------------------ *)
(** * 3. Sets: Intersection does not grow, Union at most adds up *)

Lemma dset_add_Forall (P : datom -> Prop) acc a : Forall P acc -> P a -> Forall P (dset_add acc a).
Proof.
  intros H1 H2. unfold dset_add. destruct (dset_contains acc a); [exact H1|].
  apply Forall_app. split; [exact H1 | constructor; [exact H2 | constructor]].
Qed.
Lemma dset_add_len acc a : len_int (dset_add acc a) <= len_int acc + 1.
Proof.
  unfold dset_add. destruct (dset_contains acc a); [lia|].
  rewrite len_int_app. change (len_int [a]) with 1. lia.
Qed.

Lemma fold_dset_add_Forall (P : datom -> Prop) l : forall acc,
  Forall P acc -> Forall P l -> Forall P (fold_left dset_add l acc).
Proof.
  induction l as [|a l IH]; intros acc H1 H2; cbn [fold_left]; [exact H1|].
  inversion H2 as [|a' l' Ha Hl]; subst. apply IH; [apply dset_add_Forall; assumption | exact Hl].
Qed.
Lemma fold_dset_add_len l : forall acc, len_int (fold_left dset_add l acc) <= len_int acc + len_int l.
Proof.
  induction l as [|a l IH]; intros acc; cbn [fold_left].
  - change (len_int (@nil datom)) with 0. lia.
  - rewrite len_int_cons. specialize (IH (dset_add acc a)). assert (H := dset_add_len acc a). lia.
Qed.

Lemma dset_union_Forall (P : datom -> Prop) a b : Forall P a -> Forall P b -> Forall P (dset_union a b).
Proof.
  intros Ha Hb. unfold dset_union. apply fold_dset_add_Forall; [|exact Hb].
  apply fold_dset_add_Forall; [constructor | exact Ha].
Qed.
Lemma dset_union_len a b : len_int (dset_union a b) <= len_int a + len_int b.
Proof.
  unfold dset_union. assert (H1 := fold_dset_add_len b (fold_left dset_add a [])).
  assert (H2 := fold_dset_add_len a []). change (len_int (@nil datom)) with 0 in H2. lia.
Qed.

Lemma dset_intersect_gen (P : datom -> Prop) t s : forall acc,
  Forall P acc -> Forall P s ->
  Forall P (fold_left (fun acc a => if dset_contains t a then dset_add acc a else acc) s acc) /\
  len_int (fold_left (fun acc a => if dset_contains t a then dset_add acc a else acc) s acc)
    <= len_int acc + len_int s.
Proof.
  induction s as [|a s IH]; intros acc H1 H2; cbn [fold_left].
  - change (len_int (@nil datom)) with 0. split; [exact H1 | lia].
  - inversion H2 as [|a' s' Ha Hs]; subst. rewrite len_int_cons.
    destruct (dset_contains t a).
    + destruct (IH (dset_add acc a) (dset_add_Forall P acc a H1 Ha) Hs) as [I1 I2].
      assert (H := dset_add_len acc a). split; [exact I1 | lia].
    + destruct (IH acc H1 Hs) as [I1 I2]. split; [exact I1 | lia].
Qed.
Lemma dset_intersect_Forall (P : datom -> Prop) s t : Forall P s -> Forall P (dset_intersect s t).
Proof. intros H. unfold dset_intersect. apply (dset_intersect_gen P t s []); [constructor | exact H]. Qed.
Lemma dset_intersect_len s t : len_int (dset_intersect s t) <= len_int s.
Proof.
  unfold dset_intersect.
  destruct (dset_intersect_gen (fun _ => True) t s []) as [_ H];
    [constructor | apply Forall_forall; intros; exact I |].
  change (len_int (@nil datom)) with 0 in H. lia.
Qed.

(* ------------------------------------------------------------------ *)
(** * 4. The invariant is monotone in the bound *)

Lemma size_ok_mono B B' v : B <= B' -> size_ok B v -> size_ok B' v.
Proof. intros H. destruct v as [[x|x|x|x|x|x]|x]; cbn [size_ok]; intros; try exact I; lia. Qed.
Lemma val_ok_mono B B' v : B <= B' -> val_ok B v -> val_ok B' v.
Proof. intros H [H1 H2]. split; [exact H1 | eapply size_ok_mono; eassumption]. Qed.
Lemma tab_ok_mono B B' t : B <= B' -> tab_ok B t -> tab_ok B' t.
Proof. intros H Ht. unfold tab_ok in *. eapply Forall_impl; [|exact Ht]. cbn beta. intros s Hs. lia. Qed.
Lemma op_ok_mono B B' b o : B <= B' -> op_ok B b o -> op_ok B' b o.
Proof.
  intros H. destruct o as [x|u|bo]; cbn [op_ok]; [|tauto|tauto].
  destruct x as [[v|z|s|d|y|y]|l]; try apply (val_ok_mono B B' _ H).
  destruct (dlookup b v) as [x|]; [apply (val_ok_mono B B' _ H) | tauto].
Qed.

Lemma val_ok_bool B c : val_ok B (DA (DBool c)).
Proof. split; exact I. Qed.
Lemma val_ok_int B z : in_int64 z = true -> val_ok B (DA (DInt z)).
Proof. intros H. split; [apply in_int64_i64, H | exact I]. Qed.

(* ------------------------------------------------------------------ *)
(** * 5. One operator *)

Lemma eval_unary_D_ok B t u v r :
  64 <= B -> B < two63 -> tab_ok B t -> val_ok B v ->
  eval_unary_D t u v = Ok r -> val_ok B r.
Proof.
  intros HB HB2 Ht [Hw Hs] E.
  destruct u; destruct v as [[x|x|x|x|x|x]|x]; cbn [eval_unary_D] in E; try discriminate;
    injection E as <-; try (split; assumption); try apply val_ok_bool.
  - (* Length of a string *)
    assert (H := sym_str_len B t x HB Ht). rewrite len_int_length in H.
    split; [|exact I]. cbn [wf_dterm wf_datom]. unfold in_i64. lia.
  - cbn [size_ok] in Hs. rewrite len_int_length in Hs.
    split; [|exact I]. cbn [wf_dterm wf_datom]. unfold in_i64. lia.
  - cbn [size_ok] in Hs. rewrite len_int_length in Hs.
    split; [|exact I]. cbn [wf_dterm wf_datom]. unfold in_i64. lia.
Qed.

Definition bool_op (o : binop) : bool :=
  match o with
  | BLessThan | BLessOrEqual | BGreaterThan | BGreaterOrEqual | BEqual | BContains
  | BPrefix | BSuffix | BRegex | BAnd | BOr => true
  | _ => false
  end.

Lemma eval_binary_D_bool rx t o l r t' v :
  bool_op o = true -> eval_binary_D rx t o l r = (t', Ok v) -> t' = t /\ exists c, v = DA (DBool c).
Proof.
  intros Ho E.
  destruct o; try discriminate Ho; clear Ho; cbn [eval_binary_D] in E; unfold dcmp_op, dstr_op in E;
    injection E as <- E;
    destruct l as [[x|x|x|x|x|x]|x]; destruct r as [[y|y|y|y|y|y]|y];
    cbn [dterm_type datom_type ttype_eqb negb] in E; try discriminate E;
    repeat match type of E with
           | context [match ?c with Some _ => _ | None => _ end] => destruct c
           end;
    try discriminate E; injection E as <-; (split; [reflexivity | eexists; reflexivity]).
Qed.

Lemma dchecked_ok z v : dchecked z = Ok v -> v = DA (DInt z) /\ in_int64 z = true.
Proof. unfold dchecked. destruct (in_int64 z); [|discriminate]. intros E. injection E as <-. tauto. Qed.

Lemma eval_binary_D_int rx t o l r t' v :
  o = BSub \/ o = BMul \/ o = BDiv -> eval_binary_D rx t o l r = (t', Ok v) ->
  t' = t /\ exists z, v = DA (DInt z) /\ in_int64 z = true.
Proof.
  intros Ho E.
  destruct Ho as [->|[->| ->]]; cbn [eval_binary_D] in E; unfold dint_op in E; injection E as <- E;
    destruct l as [[x|x|x|x|x|x]|x]; try discriminate E;
    destruct r as [[y|y|y|y|y|y]|y]; try discriminate E.
  - apply dchecked_ok in E. split; [reflexivity | eexists; exact E].
  - apply dchecked_ok in E. split; [reflexivity | eexists; exact E].
  - destruct (y =? 0); [discriminate E|]. apply dchecked_ok in E. split; [reflexivity | eexists; exact E].
Qed.

Definition bnext (B : Z) (o : dop) : Z := if grows o then 2 * B else B.
Definition tnext (o : dop) : Z := if grows o then 1 else 0.

Lemma eval_binary_D_ok rx B t o l r t' v :
  64 <= B -> bnext B (DOBin o) < two63 -> table_fits t -> tab_ok B t ->
  val_ok B l -> val_ok B r ->
  eval_binary_D rx t o l r = (t', Ok v) ->
  tab_ok (bnext B (DOBin o)) t' /\ val_ok (bnext B (DOBin o)) v /\ len_int t' <= len_int t + tnext (DOBin o).
Proof.
  intros HB HB2 Hfit Ht Hl Hr E.
  destruct (bool_op o) eqn:Hbo.
  { destruct (eval_binary_D_bool rx t o l r t' v Hbo E) as [-> [c ->]].
    assert (Hg : grows (DOBin o) = false) by (destruct o; try discriminate Hbo; reflexivity).
    unfold bnext, tnext. rewrite Hg. split; [exact Ht|]. split; [apply val_ok_bool | lia]. }
  destruct o; try discriminate Hbo; clear Hbo.
  - (* Add *)
    unfold bnext, tnext in *. cbn [grows] in *.
    destruct l as [[x|x|x|x|x|x]|x]; cbn [eval_binary_D dint_op] in E; try (injection E as _ E; discriminate E).
    + destruct r as [[y|y|y|y|y|y]|y]; try (injection E as _ E; discriminate E).
      injection E as <- E. apply dchecked_ok in E as [-> E].
      split; [apply (tab_ok_mono B); [lia | exact Ht]|]. split; [apply val_ok_int, E | lia].
    + destruct r as [[y|y|y|y|y|y]|y]; try (injection E as _ E; discriminate E).
      destruct (sym_insert t (sym_str t x ++ sym_str t y)) as [t2 i] eqn:Ei.
      injection E as <- <-.
      assert (Hlen := sym_insert_len t (sym_str t x ++ sym_str t y)). rewrite Ei in Hlen. cbn [fst] in Hlen.
      assert (Hv := sym_insert_valid _ _ _ _ Ei). apply valid_index_lt in Hv.
      assert (Hx := sym_str_len B t x HB Ht). assert (Hy := sym_str_len B t y HB Ht).
      split; [|split; [|lia]].
      * unfold sym_insert in Ei. destruct (sym_find t (sym_str t x ++ sym_str t y)); injection Ei as <- _.
        -- apply (tab_ok_mono B); [lia | exact Ht].
        -- unfold tab_ok. apply Forall_app. split; [apply (tab_ok_mono B); [lia | exact Ht]|].
           constructor; [|constructor]. rewrite len_int_app. lia.
      * split; [|exact I]. cbn [wf_dterm wf_datom]. clear Ei Hx Hy.
        unfold table_fits, in_u64, len_int, two63, offset, Generated.sym_offset in *. lia.
  - (* Sub *)
    destruct (eval_binary_D_int rx t BSub l r t' v (or_introl eq_refl) E) as [-> [z [-> Hz]]].
    unfold bnext, tnext. cbn [grows]. split; [exact Ht|]. split; [apply val_ok_int, Hz | lia].
  - destruct (eval_binary_D_int rx t BMul l r t' v (or_intror (or_introl eq_refl)) E) as [-> [z [-> Hz]]].
    unfold bnext, tnext. cbn [grows]. split; [exact Ht|]. split; [apply val_ok_int, Hz | lia].
  - destruct (eval_binary_D_int rx t BDiv l r t' v (or_intror (or_intror eq_refl)) E) as [-> [z [-> Hz]]].
    unfold bnext, tnext. cbn [grows]. split; [exact Ht|]. split; [apply val_ok_int, Hz | lia].
  - (* Intersection *)
    unfold bnext, tnext in *. cbn [grows] in *. cbn [eval_binary_D] in E. injection E as <- E.
    destruct l as [[x|x|x|x|x|x]|x]; try discriminate E.
    destruct r as [[y|y|y|y|y|y]|y]; try discriminate E. injection E as <-.
    destruct Hl as [[Hl1 Hl2] Hl3]. cbn [size_ok] in Hl3.
    assert (Hn := dset_intersect_len x y).
    split; [exact Ht|]. split; [|lia]. split; [|cbn [size_ok]; lia].
    split; [apply dset_intersect_Forall, Hl1 | unfold len_ok in *; lia].
  - (* Union *)
    unfold bnext, tnext in *. cbn [grows] in *. cbn [eval_binary_D] in E. injection E as <- E.
    destruct l as [[x|x|x|x|x|x]|x]; try discriminate E.
    destruct r as [[y|y|y|y|y|y]|y]; try discriminate E. injection E as <-.
    destruct Hl as [[Hl1 Hl2] Hl3]. destruct Hr as [[Hr1 Hr2] Hr3]. cbn [size_ok] in Hl3, Hr3.
    assert (Hn := dset_union_len x y).
    split; [apply (tab_ok_mono B); [lia | exact Ht]|]. split; [|lia]. split; [|cbn [size_ok]; lia].
    split; [apply dset_union_Forall; assumption | unfold len_ok in *; lia].
Qed.

(* ------------------------------------------------------------------ *)
(** * 6. One step of the machine *)

Lemma growth_nonneg e : 0 <= growth e.
Proof. induction e as [|o e IH]; cbn [growth]; [lia|]. destruct (grows o); lia. Qed.

Lemma bnext_ge B o : 0 <= B -> B <= bnext B o.
Proof. intros H. unfold bnext. destruct (grows o); lia. Qed.

Lemma push_D_cons st v st' : push_D st v = Ok st' -> st' = v :: st.
Proof. unfold push_D. destruct (max_stack <=? length st)%nat; [discriminate|]. intros E. injection E as <-. reflexivity. Qed.

Section Step.
  Variable rx : bytes -> bytes -> option bool.
  Variable b : dbindings.

  Lemma step_D_ok B t st o t' st' :
    64 <= B -> bnext B o < two63 -> table_fits t -> tab_ok B t -> Forall (val_ok B) st -> op_ok B b o ->
    step_D rx t b st o = (t', Ok st') ->
    tab_ok (bnext B o) t' /\ Forall (val_ok (bnext B o)) st' /\ len_int t' <= len_int t + tnext o.
  Proof.
    intros HB HB2 Hfit Ht Hst Hop E.
    assert (Hle : B <= bnext B o) by (apply bnext_ge; lia).
    assert (Hst' : Forall (val_ok (bnext B o)) st).
    { eapply Forall_impl; [|exact Hst]. intros v. apply val_ok_mono, Hle. }
    destruct o as [x|u|bo].
    - (* a value *)
      assert (E' : exists y, val_ok B y /\ t' = t /\ push_D st y = Ok st').
      { cbn [step_D] in E. destruct x as [[v|z|s|d|y|y]|l]; injection E as <- E;
          try (eexists; split; [exact Hop | split; [reflexivity | exact E]]).
        cbn [op_ok] in Hop. destruct (dlookup b v) as [y|]; [|discriminate E].
        exists y. split; [exact Hop | split; [reflexivity | exact E]]. }
      destruct E' as (y & Hy & -> & Ep). apply push_D_cons in Ep as ->.
      unfold bnext, tnext in *. cbn [grows] in *.
      split; [exact Ht|]. split; [constructor; assumption | lia].
    - (* a unary operation *)
      unfold bnext, tnext in *. cbn [grows] in *.
      cbn [step_D] in E. destruct st as [|v st0]; [discriminate E|]. injection E as <- E.
      destruct (eval_unary_D t u v) as [y|x|n] eqn:Eu; cbn [bind] in E; try discriminate E.
      apply push_D_cons in E as ->. inversion Hst as [|v' st0' Hv Hst0]; subst.
      split; [exact Ht|]. split; [|lia]. constructor; [|exact Hst0].
      eapply eval_unary_D_ok; eassumption.
    - (* a binary operation *)
      cbn [step_D] in E. destruct st as [|r [|l st0]]; try discriminate E.
      destruct (eval_binary_D rx t bo l r) as [t2 x] eqn:Eb. injection E as <- E.
      destruct x as [y|x|n]; cbn [bind] in E; try discriminate E.
      apply push_D_cons in E as ->.
      inversion Hst as [|r' st1 Hr Hst1]; subst. inversion Hst1 as [|l' st2 Hl Hst2]; subst.
      inversion Hst' as [|r' st1 _ Hst1']; subst. inversion Hst1' as [|l' st2 _ Hst2']; subst.
      destruct (eval_binary_D_ok rx B t bo l r t2 y HB HB2 Hfit Ht Hl Hr Eb) as (I1 & I2 & I3).
      split; [exact I1|]. split; [constructor; assumption | exact I3].
  Qed.

  Lemma step_pre_of_inv B t st o :
    table_fits t -> Forall (val_ok B) st -> step_pre t st o.
  Proof.
    intros Hfit Hst. split; [exact Hfit|]. destruct o as [x|u|bo]; [exact I| |].
    - destruct st as [|v st0]; [exact I|]. inversion Hst as [|v' st0' [Hv _] _]; subst. exact Hv.
    - destruct st as [|r [|l st0]]; try exact I.
      inversion Hst as [|r' st1 [Hr _] Hst1]; subst. inversion Hst1 as [|l' st2 [Hl _] _]; subst.
      split; assumption.
  Qed.

  (* ------------------------------------------------------------------ *)
  (** * 7. The whole run *)

  Lemma static_run_pre : forall e B t st,
    64 <= B -> B * 2 ^ growth e < two63 -> len_int t + growth e + 1025 < two63 ->
    tab_ok B t -> Forall (val_ok B) st -> Forall (op_ok B b) e ->
    run_pre rx b t st e.
  Proof.
    induction e as [|o e IH]; intros B t st HB HB2 Hlen Ht Hst He; cbn [run_pre]; [exact I|].
    cbn [growth] in HB2, Hlen. assert (Hg := growth_nonneg e).
    assert (Hp : 1 <= 2 ^ growth e) by (assert (H := Z.pow_pos_nonneg 2 (growth e)); lia).
    inversion He as [|o' e' Ho He']; subst.
    assert (Hfit : table_fits t) by (unfold table_fits; destruct (grows o); lia).
    split; [eapply step_pre_of_inv; eassumption|].
    destruct (step_D rx t b st o) as [t' [st'|x|n]] eqn:E; [|exact I|exact I].
    assert (Hb : bnext B o * 2 ^ growth e < two63).
    { unfold bnext. destruct (grows o).
      - rewrite Z.pow_add_r in HB2 by lia. change (2 ^ 1) with 2 in HB2. lia.
      - rewrite Z.add_0_l in HB2. exact HB2. }
    assert (Hle : B <= bnext B o) by (apply bnext_ge; lia).
    assert (HB3 : bnext B o < two63) by nia.
    destruct (step_D_ok B t st o t' st' HB HB3 Hfit Ht Hst Ho E) as (I1 & I2 & I3).
    apply (IH (bnext B o)).
    - lia.
    - exact Hb.
    - unfold tnext in I3. destruct (grows o); lia.
    - exact I1.
    - exact I2.
    - eapply Forall_impl; [|exact He']. intros o0. apply op_ok_mono, Hle.
  Qed.
  (* the same induction also gives the state at the END of the run: sizes at most
     B * 2^growth, table at most growth entries longer *)
  Lemma bnext_pow B o e : bnext B o * 2 ^ growth e = B * 2 ^ growth (o :: e).
  Proof.
    assert (Hg := growth_nonneg e). cbn [growth]. unfold bnext. destruct (grows o).
    - rewrite Z.pow_add_r by lia. change (2 ^ 1) with 2. lia.
    - rewrite Z.add_0_l. reflexivity.
  Qed.

  Lemma static_run_inv : forall e B t st t' st',
    64 <= B -> B * 2 ^ growth e < two63 -> len_int t + growth e + 1025 < two63 ->
    tab_ok B t -> Forall (val_ok B) st -> Forall (op_ok B b) e ->
    run_ops_D rx t b st e = (t', Ok st') ->
    tab_ok (B * 2 ^ growth e) t' /\ Forall (val_ok (B * 2 ^ growth e)) st' /\ len_int t' <= len_int t + growth e.
  Proof.
    induction e as [|o e IH]; intros B t st t' st' HB HB2 Hlen Ht Hst He E.
    - cbn [run_ops_D growth] in *. injection E as <- <-. rewrite Z.pow_0_r, Z.mul_1_r.
      split; [exact Ht|]. split; [exact Hst | lia].
    - rewrite <- bnext_pow in *. cbn [growth] in Hlen |- *. cbn [run_ops_D] in E.
      assert (Hg := growth_nonneg e).
      assert (Hp : 1 <= 2 ^ growth e) by (assert (H := Z.pow_pos_nonneg 2 (growth e)); lia).
      inversion He as [|o' e' Ho He']; subst.
      assert (Hfit : table_fits t) by (unfold table_fits; destruct (grows o); lia).
      assert (Hle : B <= bnext B o) by (apply bnext_ge; lia).
      assert (HB3 : bnext B o < two63) by nia.
      destruct (step_D rx t b st o) as [t1 [st1|x|n]] eqn:E1; try discriminate E.
      destruct (step_D_ok B t st o t1 st1 HB HB3 Hfit Ht Hst Ho E1) as (I1 & I2 & I3).
      assert (He1 : Forall (op_ok (bnext B o) b) e).
      { eapply Forall_impl; [|exact He']. intros o0. apply op_ok_mono, Hle. }
      assert (Hlen1 : len_int t1 + growth e + 1025 < two63).
      { unfold tnext in I3. destruct (grows o); lia. }
      destruct (IH (bnext B o) t1 st1 t' st' ltac:(lia) HB2 Hlen1 I1 I2 He1 E) as (J1 & J2 & J3).
      split; [exact J1|]. split; [exact J2|]. unfold tnext in I3. destruct (grows o); lia.
  Qed.
End Step.

Theorem static_pre_run_pre : forall rx (b : dbindings) (t : table) (e : dexpr),
  static_pre t e b -> run_pre rx b t [] e.
Proof.
  intros rx b t e [B (H1 & H2 & H3 & H4 & H5)].
  apply (static_run_pre rx b e B t []); try assumption. constructor.
Qed.

Corollary go_Expression_Evaluate_eq_static : forall rx,
  rx_uniform rx ->
  (forall (t : table) (l r : dterm), wf_dterm l -> wf_dterm r -> len_ok t ->
     eval_binary_D rx t BEqual l r = (t, go_Equal_Eval l r t)) ->
  (forall (t : table) (l r : dterm), wf_dterm l -> wf_dterm r -> len_ok t ->
     eval_binary_D rx t BContains l r = (t, go_Contains_Eval l r t)) ->
  (forall (t : table) (l r : dterm), wf_dterm l -> wf_dterm r -> len_ok t ->
     eval_binary_D rx t BIntersection l r = (t, go_Intersection_Eval l r t)) ->
  (forall (t : table) (l r : dterm), wf_dterm l -> wf_dterm r -> len_ok t ->
     eval_binary_D rx t BUnion l r = (t, go_Union_Eval l r t)) ->
  forall (b : dbindings) (t : table) (e : dexpr),
  static_pre t e b ->
  go_Expression_Evaluate rx e b t = eval_D rx t e b.
Proof.
  intros rx Hrx H1 H2 H3 H4 b t e Hs.
  exact (go_Expression_Evaluate_eq rx Hrx H1 H2 H3 H4 b t e (static_pre_run_pre rx b t e Hs)).
Qed.

(* what Evaluate returns under the static condition is again in the ranges of the Go types,
   and the table it leaves fits: the condition composes along a sequence of evaluations *)
Theorem eval_D_static_range : forall rx (b : dbindings) (t : table) (e : dexpr) t' v,
  static_pre t e b -> eval_D rx t e b = (t', Ok v) -> wf_dterm v /\ table_fits t'.
Proof.
  intros rx b t e t' v [B (H1 & H2 & H3 & H4 & H5)] E. unfold eval_D in E.
  destruct (run_ops_D rx t b [] e) as [t2 [st|x|n]] eqn:Er; try discriminate E.
  destruct st as [|v0 [|w st]]; try discriminate E. injection E as <- <-.
  destruct (static_run_inv rx b e B t [] t2 [v0] H1 H2 H3 H4 (Forall_nil _) H5 Er) as (_ & J2 & J3).
  inversion J2 as [|v1 st1 [Hv _] _]; subst. split; [exact Hv|]. unfold table_fits. lia.
Qed.

(* ------------------------------------------------------------------ *)
(** * 8. A stronger-looking but simpler premise: ALL the bindings are in range *)

Definition const_ok (B : Z) (o : dop) : Prop :=
  match o with
  | DOVal (DA (DVar _)) => True
  | DOVal x => val_ok B x
  | _ => True
  end.

Lemma dlookup_In b : forall v x, dlookup b v = Some x -> In (v, x) b.
Proof.
  induction b as [|[k y] b IH]; intros v x H; cbn [dlookup] in H; [discriminate|].
  destruct (N.eqb_spec k v) as [->|Hk].
  - injection H as <-. left. reflexivity.
  - right. apply IH, H.
Qed.

Lemma static_pre_of_all_bindings B t e b :
  64 <= B -> B * 2 ^ growth e < two63 -> len_int t + growth e + 1025 < two63 ->
  tab_ok B t -> Forall (const_ok B) e -> Forall (fun kv => val_ok B (snd kv)) b ->
  static_pre t e b.
Proof.
  intros H1 H2 H3 H4 H5 H6. exists B. repeat split; try assumption.
  eapply Forall_impl; [|exact H5]. intros o Ho.
  destruct o as [x|u|bo]; [|exact I|exact I].
  destruct x as [[v|z|s|d|y|y]|l]; try exact Ho.
  cbn [op_ok]. destruct (dlookup b v) as [x|] eqn:E; [|exact I].
  apply dlookup_In in E. rewrite Forall_forall in H6. exact (H6 _ E).
Qed.

(* ------------------------------------------------------------------ *)
(** * 9. A checker *)

Definition size_okb (B : Z) (v : dterm) : bool :=
  match v with
  | DA (DBytes y) => len_int y <=? B
  | DSet l => len_int l <=? B
  | _ => true
  end.
Definition val_okb (B : Z) (v : dterm) : bool := wf_dtermb v && size_okb B v.
Definition op_okb (B : Z) (b : dbindings) (o : dop) : bool :=
  match o with
  | DOVal (DA (DVar v)) => match dlookup b v with Some x => val_okb B x | None => true end
  | DOVal x => val_okb B x
  | _ => true
  end.
Definition static_pre_atb (B : Z) (t : table) (e : dexpr) (b : dbindings) : bool :=
  (64 <=? B) && (B * 2 ^ growth e <? two63) && (len_int t + growth e + 1025 <? two63) &&
  forallb (fun s : bytes => len_int s <=? B) t && forallb (op_okb B b) e.

(* the smallest candidate for B: 64, the longest string of the table, the largest byte array
   or set among the constants and the bindings *)
Definition size_of (v : dterm) : Z :=
  match v with DA (DBytes y) => len_int y | DSet l => len_int l | _ => 0 end.
Definition op_size (o : dop) : Z := match o with DOVal x => size_of x | _ => 0 end.
Definition static_bound (t : table) (e : dexpr) (b : dbindings) : Z :=
  fold_left Z.max (map (fun s : bytes => len_int s) t)
    (fold_left Z.max (map op_size e)
       (fold_left Z.max (map (fun kv : N * dterm => size_of (snd kv)) b) 64)).
Definition static_preb (t : table) (e : dexpr) (b : dbindings) : bool :=
  static_pre_atb (static_bound t e b) t e b.

Lemma val_okb_sound B v : val_okb B v = true -> val_ok B v.
Proof.
  unfold val_okb. intros H. apply andb_true_iff in H as [H1 H2]. split; [apply wf_dtermb_sound, H1|].
  destruct v as [[x|x|x|x|x|x]|x]; cbn [size_okb size_ok] in *; try exact I; lia.
Qed.
Lemma op_okb_sound B b o : op_okb B b o = true -> op_ok B b o.
Proof.
  destruct o as [x|u|bo]; cbn [op_okb op_ok]; [|intros; exact I|intros; exact I].
  destruct x as [[v|z|s|d|y|y]|l]; try apply val_okb_sound.
  destruct (dlookup b v) as [x|]; [apply val_okb_sound | intros; exact I].
Qed.
Lemma static_pre_atb_sound B t e b : static_pre_atb B t e b = true -> static_pre_at B t e b.
Proof.
  unfold static_pre_atb, static_pre_at. intros H.
  apply andb_true_iff in H as [H H5]. apply andb_true_iff in H as [H H4].
  apply andb_true_iff in H as [H H3]. apply andb_true_iff in H as [H1 H2].
  split; [lia|]. split; [lia|]. split; [lia|]. split.
  - rewrite forallb_forall in H4. apply Forall_forall. intros s Hs. specialize (H4 s Hs). cbn beta in H4. lia.
  - rewrite forallb_forall in H5. apply Forall_forall. intros o Ho. apply op_okb_sound, H5, Ho.
Qed.
Theorem static_preb_sound : forall t e b, static_preb t e b = true -> static_pre t e b.
Proof. intros t e b H. exists (static_bound t e b). apply static_pre_atb_sound, H. Qed.

(* ------------------------------------------------------------------ *)
(** * 10. Examples *)

(* the table holds "x" (1024), "yx" (1025), "y" (1026); $a is the variable 1027, bound to "y";
   $a + "x" == "yx" && [1,2].union([3]).length() < 10   in postfix *)
Definition ex_table : table := [[120]; [121;120]; [121]; [97]]%N.
Definition ex_bindings : dbindings := [(1027%N, DA (DStr 1026))].
Definition ex_expr : dexpr :=
  [DOVal (DA (DVar 1027)); DOVal (DA (DStr 1024)); DOBin BAdd; DOVal (DA (DStr 1025)); DOBin BEqual;
   DOVal (DSet [DInt 1; DInt 2]); DOVal (DSet [DInt 3]); DOBin BUnion; DOUn ULength;
   DOVal (DA (DInt 10)); DOBin BLessThan; DOBin BAnd].

Example static_pre_ex : static_pre ex_table ex_expr ex_bindings.
Proof. apply static_preb_sound. vm_compute. reflexivity. Qed.

(* the run it licenses, on the generated definition and on the model *)
Example static_pre_ex_run :
  go_Expression_Evaluate rx_ex ex_expr ex_bindings ex_table = (ex_table, Ok (DA (DBool true))) /\
  eval_D rx_ex ex_table ex_expr ex_bindings = (ex_table, Ok (DA (DBool true))).
Proof. vm_compute. split; reflexivity. Qed.

(* the bound that the checker picks, and how much room is left: 64 * 2^2 *)
Example static_pre_ex_bound : static_bound ex_table ex_expr ex_bindings = 64 /\ growth ex_expr = 2.
Proof. vm_compute. split; reflexivity. Qed.

(* the condition refuses what it must: a constant outside int64, an index outside uint64, a
   binding outside the ranges (only when the expression reads it) *)
Example static_preb_refuses :
  static_preb [] [DOVal (DA (DInt 9223372036854775808)); DOUn UParens] [] = false /\
  static_preb [] [DOVal (DA (DStr 18446744073709551616)); DOUn ULength] [] = false /\
  static_preb [] [DOVal (DA (DVar 7)); DOUn UParens] [(7%N, DA (DInt (-9223372036854775809)))] = false /\
  static_preb [] [DOVal (DA (DInt 1)); DOUn UParens] [(7%N, DA (DInt (-9223372036854775809)))] = true.
Proof. vm_compute. repeat split. Qed.

(* 56 concatenations still fit (64 * 2^56 < 2^63), 57 do not *)
Example static_preb_growth :
  static_preb [] (DOVal (DA (DStr 0)) :: concat (repeat [DOVal (DA (DStr 0)); DOBin BAdd] 56)) [] = true /\
  static_preb [] (DOVal (DA (DStr 0)) :: concat (repeat [DOVal (DA (DStr 0)); DOBin BAdd] 57)) [] = false.
Proof. vm_compute. split; reflexivity. Qed.

(* why the factor 2^growth and not a sum: a constant may name the entry that an EARLIER
   concatenation of the same expression appends, so every Add can double the longest string:
   "read" + "read" is entry 1024, DStr 1024 + DStr 1024 is entry 1025, ... after k Adds the
   longest string has 4 * 2^k bytes (k = 8 here: 1024) *)
Definition dbl (i : N) : dexpr := [DOVal (DA (DStr i)); DOVal (DA (DStr i)); DOBin BAdd].
Example growth_is_exponential :
  let e := dbl 0 ++ dbl 1024 ++ dbl 1025 ++ dbl 1026 ++ dbl 1027 ++ dbl 1028 ++ dbl 1029 ++ dbl 1030 in
  growth e = 8 /\
  match run_ops_D rx_ex [] [] [] (e ++ [DOUn ULength]) with
  | (_, Ok (v :: _)) => v = DA (DInt 1024)
  | _ => False
  end.
Proof. vm_compute. split; reflexivity. Qed.

Print Assumptions static_pre_run_pre.
Print Assumptions go_Expression_Evaluate_eq_static.
Print Assumptions static_pre_of_all_bindings.
Print Assumptions static_preb_sound.
Print Assumptions static_pre_ex.
Print Assumptions eval_D_static_range.
